(* CollateDeep.v — C08 j in general form: ranking or comparing ANY value of the universe that is
   nested deeper than the collator's maximum against itself (the model of a self-containing
   value: its unfolding beyond the limit) ends with the depth panic. *)
From Verif Require Import Base Sorter Value SorterProofs CollateOrd CollateSort CollateBase CollateRank CollateRank2 CollateCompare.
From Coq Require Import Permutation Sorted.
Open Scope nat_scope.

(* key and value lists of every mapping have the same length (true of every Go value) *)
Fixpoint bal (v : val) : bool :=
  match v with
  | VSeq _ l => forallb bal l
  | VAssoc k v => bal k && bal v
  | VMapping _ ks vs => (length ks =? length vs) && forallb bal ks && forallb bal vs
  | _ => true
  end.

Lemma leaf_bal : forall v, is_leaf v = true -> bal v = true.
Proof. destruct v as [ | | | | | | | | | | | | | |[]]; simpl; auto; discriminate. Qed.

Lemma elems_bal : forall a x, bal a = true -> In x (elems a) -> bal x = true.
Proof.
  intros a x. unfold elems.
  destruct a as [ | | | | | | | | | | | |k l |k v |[] ks vs]; simpl; try tauto.
  - intros H Hx. eapply forallb_in; eauto.
  - intros H [Hx|[Hx|[]]]; subst; apply andb_prop in H; tauto.
  - intros H Hx. apply andb_prop in H. destruct H as [H Hvs]. apply andb_prop in H. destruct H as [_ Hks].
    apply in_pair_elems in Hx. destruct Hx as [[k v] [H1 H2]]. simpl in H2.
    apply zipkv_in in H1. destruct H1 as [Hk Hv].
    destruct H2; subst; [apply (forallb_in _ _ _ Hks Hk)|apply (forallb_in _ _ _ Hvs Hv)].
  - intros H Hx. apply andb_prop in H. destruct H as [H Hvs]. apply andb_prop in H. destruct H as [_ Hks].
    apply in_pair_elems in Hx. destruct Hx as [[k v] [H1 H2]]. simpl in H2.
    apply zipkv_in in H1. destruct H1 as [Hk Hv].
    destruct H2; subst; [apply (forallb_in _ _ _ Hks Hk)|apply (forallb_in _ _ _ Hvs Hv)].
  - intros H Hx. apply andb_prop in H. destruct H as [H Hvs]. apply andb_prop in H. destruct H as [_ Hks].
    apply in_assocs in Hx. destruct Hx as [k [v [-> Hx]]].
    apply zipkv_in in Hx. destruct Hx as [Hk Hv]. simpl.
    rewrite (forallb_in _ _ _ Hks Hk), (forallb_in _ _ _ Hvs Hv). reflexivity.
Qed.

(* the nesting of a balanced collection is one more than that of its deepest component *)
Lemma lnest_attained : forall l, 0 < lnest l -> exists x, In x l /\ nest x = lnest l.
Proof.
  induction l as [|y l IH]; simpl; intros H; [lia|].
  destruct (Nat.max_spec (nest y) (lnest l)) as [[H1 H2]|[H1 H2]].
  - destruct IH as [x [Hx E]]; [lia|]. exists x. split; auto. lia.
  - exists y. split; auto.
Qed.

Lemma lnest_zip : forall ks vs, length ks = length vs ->
  lnest (map fst (zipkv ks vs) ++ map snd (zipkv ks vs)) = Nat.max (lnest ks) (lnest vs).
Proof.
  intros ks vs L. rewrite lnest_app.
  assert (map fst (zipkv ks vs) = ks /\ map snd (zipkv ks vs) = vs) as [-> ->]; auto.
  revert vs L. induction ks as [|k ks IH]; destruct vs as [|v vs]; simpl; intros L; try discriminate; auto.
  injection L as L. destruct (IH vs L) as [-> ->]. auto.
Qed.

Lemma lnest_assocs : forall ks vs, length ks = length vs ->
  lnest (assocs ks vs) = Nat.max (lnest ks) (lnest vs).
Proof.
  induction ks as [|k ks IH]; destruct vs as [|v vs]; simpl; intros L; try discriminate; auto.
  injection L as L. unfold assocs in IH. rewrite (IH vs L). lia.
Qed.

Lemma nest_elems : forall a, bal a = true -> nest a = vstep (view_of a) + lnest (elems a).
Proof.
  intros a B. unfold elems.
  destruct a as [ | | | | | | | | | | | |k l |k v |[] ks vs]; simpl; auto.
  - lia.
  - simpl in B. apply andb_prop in B. destruct B as [B _]. apply andb_prop in B. destruct B as [B _].
    apply Nat.eqb_eq in B. rewrite (lnest_zip ks vs B). reflexivity.
  - simpl in B. apply andb_prop in B. destruct B as [B _]. apply andb_prop in B. destruct B as [B _].
    apply Nat.eqb_eq in B. rewrite (lnest_zip ks vs B). reflexivity.
  - simpl in B. apply andb_prop in B. destruct B as [B _]. apply andb_prop in B. destruct B as [B _].
    apply Nat.eqb_eq in B. rewrite (lnest_assocs ks vs B). reflexivity.
Qed.

(* some direct component carries the whole remaining nesting *)
Lemma deep_component : forall a k, bal a = true -> vstep (view_of a) + k < nest a + 0 ->
  exists x, In x (elems a) /\ nest a = vstep (view_of a) + nest x.
Proof.
  intros a k B H. rewrite (nest_elems a B) in *.
  destruct (lnest_attained (elems a)) as [x [Hx E]]; [lia|]. exists x. split; auto.
Qed.

Section SelfLex.
Context {A : Type}.
Variable rec : A -> A -> res comparison.
Lemma rlex_self : forall l,
  (forall x, In x l -> rec x x = R Eq \/ rec x x = DepthPanic) ->
  (exists x, In x l /\ rec x x = DepthPanic) ->
  rlex rec l l = DepthPanic.
Proof.
  induction l as [|y l IH]; intros H [x [Hx Px]]; [inversion Hx|].
  simpl. destruct (H y (or_introl eq_refl)) as [E|E]; rewrite E; auto.
  apply IH.
  - intros; apply H; simpl; auto.
  - destruct Hx as [->|Hx]; [congruence|]. exists x. auto.
Qed.
Lemma rlexswap_self : forall l, rlexswap rec l l = rlex rec l l.
Proof. intros. unfold rlexswap. rewrite Nat.ltb_irrefl. reflexivity. Qed.
End SelfLex.

Lemma rank_pure_w : forall M f d a b, wf0 a = true -> wf0 b = true ->
  nest a + d <= M -> nest b + d <= M -> wsz a + wsz b < f -> rank M f d a b = R (prank a b).
Proof.
  intros M f d a b Wa Wb Na Nb Hf.
  destruct (rank_pure_aux _ a b (le_n _) Wa Wb) as [_ H]. apply H; auto.
Qed.

Theorem rank_self_panics : forall a, wf0 a = true -> bal a = true ->
  forall M f d, d <= M -> M < nest a + d -> wsz a + wsz a < f ->
  rank M f d a a = DepthPanic.
Proof.
  apply (single_ind (fun a => bal a = true -> forall M f d, d <= M -> M < nest a + d ->
                       wsz a + wsz a < f -> rank M f d a a = DepthPanic)).
  intros a Wa IH B M f d Hd Hn Hf.
  destruct f as [|f]; [lia|]. rewrite rank_unfold. unfold spec.
  rewrite Z.eqb_refl. simpl negb. cbv iota.
  (* status of the components *)
  assert (ST : forall x d', In x (elems a) -> d' <= M -> wsz x + wsz x < f ->
               (nest x + d' <= M /\ rank M f d' x x = R Eq) \/
               (M < nest x + d' /\ rank M f d' x x = DepthPanic)).
  { intros x d' Hx Hd' Hfx. destruct (le_lt_dec (nest x + d') M) as [L|L].
    - left. split; auto. rewrite rank_pure_w; auto; try (apply (elems_wf0 a); auto).
      rewrite prank_refl; auto. apply (elems_wf0 a); auto.
    - right. split; auto. apply IH; auto. apply (elems_bal a); auto. }
  assert (SZ : forall x, In x (elems a) -> wsz x + wsz x < f).
  { intros x Hx. pose proof (elems_size _ _ Hx). lia. }
  pose proof (nest_elems a B) as NE.
  destruct (view_of a) eqn:Va.
  - (* leaf *) unfold elems in NE. rewrite Va in NE. simpl in NE. lia.
  - (* association *)
    destruct (view_elems_assoc _ _ _ Va) as [Ik Iv].
    unfold elems in NE. rewrite Va in NE. simpl in NE.
    destruct (ST k d Ik Hd (SZ k Ik)) as [[L E]|[L E]]; rewrite E; simpl; auto.
    destruct (ST v d Iv Hd (SZ v Iv)) as [[L' E']|[L' E']]; auto. lia.
  - (* arrays *)
    destruct (Nat.eqb_spec d M); [reflexivity|].
    rewrite rlexswap_self.
    destruct (deep_component a 0 B) as [x [Hx Ex]]; [rewrite Va; simpl; lia|].
    rewrite Va in Ex. simpl in Ex. unfold elems in Hx, ST, SZ. rewrite Va in Hx, ST, SZ. simpl in Hx, ST, SZ.
    apply rlex_self.
    + intros y Hy. destruct (ST y (S d) Hy ltac:(lia) (SZ y Hy)) as [[_ E]|[_ E]]; auto.
    + exists x. split; auto. destruct (ST x (S d) Hx ltac:(lia) (SZ x Hx)) as [[L _]|[_ E]]; auto. lia.
  - (* maps *)
    destruct (Nat.eqb_spec d M); [reflexivity|].
    rewrite rlexswap_self.
    destruct (deep_component a 0 B) as [x [Hx Ex]]; [rewrite Va; simpl; lia|].
    rewrite Va in Ex. simpl in Ex.
    assert (KEY : forall p, In p m -> rank M f (S d) (fst p) (fst p) = R Eq).
    { intros p Hp. destruct f as [|f']; [pose proof (wsz_pos a); lia|].
      rewrite rank_leaf; try (eapply (map_keys_leaf a); eauto). rewrite lrank_refl. reflexivity. }
    assert (PST : forall p, In p m ->
              (pairrec (rank M f (S d)) p p = R Eq /\ nest (snd p) + S d <= M) \/
              pairrec (rank M f (S d)) p p = DepthPanic /\ M < nest (snd p) + S d).
    { intros p Hp. destruct (pair_in_elems _ _ _ Va Hp) as [_ P2].
      unfold pairrec. rewrite (KEY p Hp). simpl.
      destruct (ST (snd p) (S d) P2 ltac:(lia) (SZ _ P2)) as [[L E]|[L E]]; auto. }
    apply rlex_self.
    + intros p Hp. apply sorted_in in Hp. destruct (PST p Hp) as [[E _]|[E _]]; auto.
    + unfold elems in Hx. rewrite Va in Hx. simpl in Hx.
      apply in_pair_elems in Hx. destruct Hx as [p [Hp [E|E]]].
      * (* a key cannot be deep *)
        pose proof (map_keys_leaf a m p Wa Va Hp) as LK. subst x.
        assert (nest (fst p) = 0) as Z.
        { destruct (fst p) as [ | | | | | | | | | | | | | |[]]; simpl in *; auto; discriminate. }
        lia.
      * exists p. split.
        -- apply (Permutation_in p (Permutation_sym (sort_perm _ _ _))). auto.
        -- subst x. destruct (PST p Hp) as [[_ L]|[E _]]; auto. lia.
Qed.

Corollary rank0_self_panics : forall M a, wf0 a = true -> bal a = true -> M < nest a ->
  rank0 M a a = DepthPanic.
Proof.
  intros M a Wa B H. unfold rank0. apply rank_self_panics; auto; try lia.
  unfold fuel_for. pose proof (wsz_le a). lia.
Qed.

(* ---------- the same for compareValues ---------- *)
Lemma compare_pure_w : forall M f d a b,
  nest a + d <= M -> nest b + d <= M -> wsz a + wsz b < f -> compare M f d a b = R (pcomp a b).
Proof.
  intros M f d a b Na Nb Hf.
  destruct (compare_pure_aux _ a b (le_n _)) as [_ H]. apply H; auto.
Qed.

Lemma list_eqb_refl : forall s, list_eqb Z.eqb s s = true.
Proof. induction s; simpl; auto. rewrite Z.eqb_refl, IHs. reflexivity. Qed.

Lemma keq_refl_ckey : forall k, ckey k = true -> keq k k = true.
Proof.
  destruct k; simpl; intros C; try discriminate; auto;
  rewrite ?Z.eqb_refl; simpl; auto.
  - destruct b; reflexivity.
  - unfold f_eq_go. rewrite C, Z.eqb_refl. reflexivity.
  - apply list_eqb_refl.
Qed.

Lemma lookup_self : forall m p, distinct (val * val) (keyr lrank) m ->
  (forall q, In q m -> ckey (fst q) = true) -> In p m -> lookup_kv (fst p) m = Some (snd p).
Proof.
  intros m p [_ D] K Hp. apply lookup_unique; auto.
  - apply keq_refl_ckey; auto.
  - intros q' Hq' E. symmetry. apply D; auto. unfold keyr. apply keq_lrank_fwd; auto.
Qed.

Section SelfAll.
Context {A : Type}.
Variable rec : A -> A -> res bool.
Lemma rall2_self : forall l,
  (forall x, In x l -> rec x x = R true \/ rec x x = DepthPanic) ->
  (exists x, In x l /\ rec x x = DepthPanic) ->
  rall2 rec l l = DepthPanic.
Proof.
  induction l as [|y l IH]; intros H [x [Hx Px]]; [inversion Hx|].
  simpl. destruct (H y (or_introl eq_refl)) as [E|E]; rewrite E; auto.
  apply IH.
  - intros; apply H; simpl; auto.
  - destruct Hx as [->|Hx]; [congruence|]. exists x. auto.
Qed.
End SelfAll.

Lemma rmapall_self : forall (rec : val -> val -> res bool) m m',
  (forall p, In p m' -> lookup_kv (fst p) m = Some (snd p)) ->
  (forall p, In p m' -> rec (snd p) (snd p) = R true \/ rec (snd p) (snd p) = DepthPanic) ->
  (exists p, In p m' /\ rec (snd p) (snd p) = DepthPanic) ->
  rmapall rec m m' = DepthPanic.
Proof.
  intros rec m. induction m' as [|q m' IH]; intros HL H [p [Hp Pp]]; [inversion Hp|].
  simpl. rewrite (HL q (or_introl eq_refl)).
  destruct (H q (or_introl eq_refl)) as [E|E]; rewrite E; auto.
  apply IH.
  - intros; apply HL; simpl; auto.
  - intros; apply H; simpl; auto.
  - destruct Hp as [->|Hp]; [congruence|]. exists p. auto.
Qed.

Theorem compare_self_panics : forall a, wf a = true -> bal a = true ->
  forall M f d, d <= M -> M < nest a + d -> wsz a + wsz a < f ->
  compare M f d a a = DepthPanic.
Proof.
  apply (single_ind_wf (fun a => bal a = true -> forall M f d, d <= M -> M < nest a + d ->
                       wsz a + wsz a < f -> compare M f d a a = DepthPanic)).
  intros a Wa IH B M f d Hd Hn Hf.
  destruct f as [|f]; [lia|]. rewrite compare_unfold. unfold cspec.
  rewrite Z.eqb_refl. simpl negb. cbv iota.
  assert (ST : forall x d', In x (elems a) -> d' <= M -> wsz x + wsz x < f ->
               (nest x + d' <= M /\ compare M f d' x x = R true) \/
               (M < nest x + d' /\ compare M f d' x x = DepthPanic)).
  { intros x d' Hx Hd' Hfx. destruct (le_lt_dec (nest x + d') M) as [L|L].
    - left. split; auto. rewrite compare_pure_w; auto.
      rewrite pcomp_refl; auto. apply (elems_wf a); auto.
    - right. split; auto. apply IH; auto. apply (elems_bal a); auto. }
  assert (SZ : forall x, In x (elems a) -> wsz x + wsz x < f).
  { intros x Hx. pose proof (elems_size _ _ Hx). lia. }
  pose proof (nest_elems a B) as NE.
  destruct (view_of a) eqn:Va.
  - unfold elems in NE. rewrite Va in NE. simpl in NE. lia.
  - destruct (view_elems_assoc _ _ _ Va) as [Ik Iv].
    unfold elems in NE. rewrite Va in NE. simpl in NE.
    destruct (ST k d Ik Hd (SZ k Ik)) as [[L E]|[L E]]; rewrite E; simpl; auto.
    destruct (ST v d Iv Hd (SZ v Iv)) as [[L' E']|[L' E']]; auto. lia.
  - destruct (Nat.eqb_spec d M); [reflexivity|].
    rewrite Nat.eqb_refl. simpl negb. cbv iota.
    destruct (deep_component a 0 B) as [x [Hx Ex]]; [rewrite Va; simpl; lia|].
    rewrite Va in Ex. simpl in Ex. unfold elems in Hx, ST, SZ. rewrite Va in Hx, ST, SZ. simpl in Hx, ST, SZ.
    apply rall2_self.
    + intros y Hy. destruct (ST y (S d) Hy ltac:(lia) (SZ y Hy)) as [[_ E]|[_ E]]; auto.
    + exists x. split; auto. destruct (ST x (S d) Hx ltac:(lia) (SZ x Hx)) as [[L _]|[_ E]]; auto. lia.
  - destruct (Nat.eqb_spec d M); [reflexivity|].
    rewrite Nat.eqb_refl. simpl negb. cbv iota.
    destruct (deep_component a 0 B) as [x [Hx Ex]]; [rewrite Va; simpl; lia|].
    rewrite Va in Ex. simpl in Ex.
    destruct (wf_map a m Wa Va) as [K D].
    apply rmapall_self.
    + intros p Hp. apply lookup_self; auto.
    + intros p Hp. destruct (pair_in_elems _ _ _ Va Hp) as [_ P2].
      destruct (ST (snd p) (S d) P2 ltac:(lia) (SZ _ P2)) as [[_ E]|[_ E]]; auto.
    + unfold elems in Hx. rewrite Va in Hx. simpl in Hx.
      apply in_pair_elems in Hx. destruct Hx as [p [Hp [E|E]]].
      * pose proof (ckey_leaf _ (K p Hp)) as LK. subst x.
        assert (nest (fst p) = 0) as Z.
        { destruct (fst p) as [ | | | | | | | | | | | | | |[]]; simpl in *; auto; discriminate. }
        lia.
      * exists p. split; auto. subst x. destruct (pair_in_elems _ _ _ Va Hp) as [_ P2].
        destruct (ST (snd p) (S d) P2 ltac:(lia) (SZ _ P2)) as [[L _]|[_ E]]; auto. lia.
Qed.

Corollary compare0_self_panics : forall M a, wf a = true -> bal a = true -> M < nest a ->
  compare0 M a a = DepthPanic.
Proof.
  intros M a Wa B H. unfold compare0. apply compare_self_panics; auto; try lia.
  unfold fuel_for. pose proof (wsz_le a). lia.
Qed.

(* the dichotomy at the limit, for every well-formed value compared with itself *)
Theorem self_limit_dichotomy : forall M a, wf a = true -> bal a = true ->
  (nest a <= M -> rank0 M a a = R Eq /\ compare0 M a a = R true) /\
  (M < nest a -> rank0 M a a = DepthPanic /\ compare0 M a a = DepthPanic).
Proof.
  intros M a Wa B. pose proof (wf_spec _ Wa) as [W0 _]. split; intros H.
  - assert (inW M a = true) as I by (unfold inW; rewrite Wa; simpl; apply Nat.leb_le; auto).
    split; [apply rank_refl, inW_inU|apply compare_refl]; auto.
  - split; [apply rank0_self_panics|apply compare0_self_panics]; auto.
Qed.

(* ---------- C08: Go maps / Maps built in different insertion orders compare equal ---------- *)
Theorem compare_map_order_free : forall M m ks vs ks' vs', is_map_kind m = true ->
  Permutation (zipkv ks vs) (zipkv ks' vs') ->
  inW M (VMapping m ks vs) = true -> inW M (VMapping m ks' vs') = true ->
  compare0 M (VMapping m ks vs) (VMapping m ks' vs') = R true /\
  rank0 M (VMapping m ks vs) (VMapping m ks' vs') = R Eq.
Proof.
  intros M m ks vs ks' vs' Hm HP Ha Hb.
  pose proof (inW_spec _ _ Ha) as [Wa _]. pose proof (inW_spec _ _ Hb) as [Wb _].
  assert (V : forall k v, view_of (VMapping m k v) = WMap (zipkv k v))
    by (intros; destruct m; try discriminate; reflexivity).
  destruct (wf_map _ _ Wa (V ks vs)) as [K D].
  assert (KD : kdistinctb ks = true).
  { apply wf_spec in Wa. destruct Wa as [_ X]. destruct m; try discriminate; simpl in X;
    apply andb_prop in X; destruct X as [X _]; apply andb_prop in X; tauto. }
  assert (RE : rank0 M (VMapping m ks vs) (VMapping m ks' vs') = R Eq).
  { destruct (rank_map_order_free M m ks vs ks' vs' (VMapping m ks vs) Hm KD HP) as [_ E];
    auto using inW_inU. rewrite <- E. apply rank_refl. apply inW_inU; auto. }
  split; auto.
  apply (compare_iff_rank M _ _ Ha Hb); auto.
  constructor.
  - intros L. destruct m; discriminate.
  - intros k1 v1 k2 v2 V1. rewrite V in V1. discriminate.
  - intros xs ys V1. rewrite V in V1. discriminate.
  - intros m1 m2 V1 V2 p q Hp Hq E. rewrite V in V1, V2. inversion V1; inversion V2; subst.
    apply (Permutation_in _ (Permutation_sym HP)) in Hq.
    destruct D as [_ D]. assert (p = q) as -> by (apply D; auto).
    split; [apply wcompat_refl|]. apply same_type_refl.
    apply (elems_wf (VMapping m ks vs)); auto.
    apply (pair_in_elems _ _ q (V ks vs)); auto.
Qed.

(* ---------- boundaries of the universe, documented by refutations in the model ---------- *)
(* without pairwise rank-different keys the insertion order of a Go map matters:
   int8(1) and int64(1) are different Go keys that rank Equal *)
Theorem rank_map_order_free_needs_distinct_keys_refuted :
  exists M m ks vs ks' vs',
    is_map_kind m = true /\ Permutation (zipkv ks vs) (zipkv ks' vs') /\
    inU M (VMapping m ks vs) = true /\ inU M (VMapping m ks' vs') = true /\
    rank0 M (VMapping m ks vs) (VMapping m ks' vs') <> R Eq /\
    compare0 M (VMapping m ks vs) (VMapping m ks' vs') = R true.
Proof.
  exists 16, MGoMap, [VInt 8 1%Z; VInt 64 1%Z], [VStr [97%Z]; VStr [98%Z]],
         [VInt 64 1%Z; VInt 8 1%Z], [VStr [98%Z]; VStr [97%Z]].
  split; [reflexivity|]. split; [apply perm_swap|].
  split; [vm_compute; reflexivity|]. split; [vm_compute; reflexivity|].
  split; [vm_compute; discriminate|vm_compute; reflexivity].
Qed.

(* NaN keys: a Go map is never equal to itself under compareValues, although it ranks Equal *)
Theorem compare_refl_needs_no_nan_keys_refuted :
  exists M a, inU M a = true /\ rank0 M a a = R Eq /\ compare0 M a a = R false.
Proof.
  exists 16, (VMapping MGoMap [VFloat 64 9221120237041090560%Z] [VInt 0 1%Z]).
  repeat split; vm_compute; reflexivity.
Qed.

(* ---------- single-point changes of maps ---------- *)
Theorem compare_map_length : forall M m ks vs ks' vs', is_map_kind m = true ->
  length (zipkv ks vs) <> length (zipkv ks' vs') ->
  nest (VMapping m ks vs) <= M -> nest (VMapping m ks' vs') <= M ->
  compare0 M (VMapping m ks vs) (VMapping m ks' vs') = R false.
Proof.
  intros M m ks vs ks' vs' Hm HL N1 N2. rewrite compare0_pure by auto. f_equal.
  rewrite pcomp_eq. unfold pcspec.
  replace (tyrank (VMapping m ks vs) =? tyrank (VMapping m ks' vs'))%Z with true
    by (symmetry; apply Z.eqb_eq; destruct m; reflexivity).
  assert (V : forall k v, view_of (VMapping m k v) = WMap (zipkv k v))
    by (intros; destruct m; try discriminate; reflexivity).
  simpl negb. cbv iota. rewrite !V.
  apply Nat.eqb_neq in HL. rewrite HL. reflexivity.
Qed.

Lemma map_tail_lookups : forall a k v z, wf a = true -> view_of a = WMap ((k, v) :: z) ->
  forall w p, In p z -> lookup_kv (fst p) ((k, w) :: z) = Some (snd p).
Proof.
  intros a k v z Wa Va w p Hp.
  destruct (wf_map a _ Wa Va) as [K [ND D]].
  simpl. destruct (keq (fst p) k) eqn:E.
  - exfalso. inversion ND as [|? ? NI _]; subst. apply NI.
    assert (p = (k, v)) as <-; auto.
    apply D; simpl; auto. unfold keyr. simpl.
    apply keq_lrank_fwd; auto; [apply (K p)|apply (K (k, v))]; simpl; auto.
  - apply lookup_self; auto.
    + split; [inversion ND; auto|]. intros; apply D; simpl; auto.
    + intros q Hq. apply K. simpl. auto.
Qed.

Theorem compare_map_one_value_changed : forall M m k ks v v' vs, is_map_kind m = true ->
  inW M (VMapping m (k :: ks) (v :: vs)) = true -> inW M (VMapping m (k :: ks) (v' :: vs)) = true ->
  compare0 M (VMapping m (k :: ks) (v :: vs)) (VMapping m (k :: ks) (v' :: vs)) = compare0 M v v'.
Proof.
  intros M m k ks v v' vs Hm H1 H2.
  assert (V : forall k v, view_of (VMapping m k v) = WMap (zipkv k v))
    by (intros; destruct m; try discriminate; reflexivity).
  pose proof (inW_spec _ _ H1) as [W1 N1]. pose proof (inW_spec _ _ H2) as [W2 N2].
  pose proof (V (k :: ks) (v :: vs)) as V1. pose proof (V (k :: ks) (v' :: vs)) as V2. simpl zipkv in V1, V2.
  destruct (wf_map _ _ W1 V1) as [K1 _].
  assert (Nv : nest v <= M /\ nest v' <= M).
  { pose proof (elems_nest (VMapping m (k :: ks) (v :: vs)) v) as E1.
    pose proof (elems_nest (VMapping m (k :: ks) (v' :: vs)) v') as E2.
    unfold elems in E1, E2. rewrite V1 in E1. rewrite V2 in E2.
    simpl velems in E1, E2. simpl vstep in E1, E2.
    specialize (E1 ltac:(right; apply in_or_app; right; left; reflexivity)).
    specialize (E2 ltac:(right; apply in_or_app; right; left; reflexivity)). lia. }
  rewrite !compare0_pure by tauto. f_equal.
  rewrite pcomp_eq. unfold pcspec.
  replace (tyrank (VMapping m (k :: ks) (v :: vs)) =? tyrank (VMapping m (k :: ks) (v' :: vs)))%Z with true
    by (symmetry; apply Z.eqb_eq; destruct m; reflexivity).
  simpl negb. cbv iota. rewrite V1, V2. simpl length. rewrite Nat.eqb_refl. simpl andb.
  unfold mapall. simpl forallb. rewrite (keq_refl_ckey k (K1 (k, v) (or_introl eq_refl))).
  match goal with |- _ && ?X = _ => assert (X = true) as ->; [|apply andb_true_r] end.
  apply forallb_forall. intros p Hp.
  pose proof (map_tail_lookups _ k v (zipkv ks vs) W1 V1 v' p Hp) as L. simpl in L. rewrite L.
  apply pcomp_refl. apply (elems_wf (VMapping m (k :: ks) (v :: vs))); auto.
  apply (pair_in_elems _ _ p V1). simpl. auto.
Qed.

Theorem compare_map_key_renamed : forall M m k k' ks v vs, is_map_kind m = true ->
  inW M (VMapping m (k :: ks) (v :: vs)) = true -> inW M (VMapping m (k' :: ks) (v :: vs)) = true ->
  keq k k' = false ->
  compare0 M (VMapping m (k :: ks) (v :: vs)) (VMapping m (k' :: ks) (v :: vs)) = R false.
Proof.
  intros M m k k' ks v vs Hm H1 H2 E.
  assert (V : forall k v, view_of (VMapping m k v) = WMap (zipkv k v))
    by (intros; destruct m; try discriminate; reflexivity).
  pose proof (inW_spec _ _ H1) as [W1 N1]. pose proof (inW_spec _ _ H2) as [W2 N2].
  pose proof (V (k :: ks) (v :: vs)) as V1. simpl zipkv in V1.
  destruct (wf_map _ _ W1 V1) as [K1 [ND D]].
  rewrite compare0_pure by auto. f_equal.
  rewrite pcomp_eq. unfold pcspec.
  replace (tyrank (VMapping m (k :: ks) (v :: vs)) =? tyrank (VMapping m (k' :: ks) (v :: vs)))%Z with true
    by (symmetry; apply Z.eqb_eq; destruct m; reflexivity).
  simpl negb. cbv iota. rewrite !V. simpl zipkv. simpl length. rewrite Nat.eqb_refl. simpl andb.
  unfold mapall. simpl forallb. rewrite E.
  destruct (lookup_kv k (zipkv ks vs)) as [v2|] eqn:L; [|reflexivity].
  exfalso. destruct (lookup_in _ _ _ L) as [k2 [I2 E2]].
  inversion ND as [|? ? NI _]; subst. apply NI.
  assert ((k2, v2) = (k, v)) as <-; auto.
  apply D; simpl; auto. unfold keyr. simpl. apply lrank_eq_sym.
  apply keq_lrank_fwd; auto; [apply (K1 (k, v))|apply (K1 (k2, v2))]; simpl; auto.
Qed.
