(* GenC20b.v — LATE file of C20 (second part, compiled in parallel with GenC20.v): the regenerated List, Array, Set, Catalog
   and Map constructors ARE the model Facade.v for every element types and every argument list.  The conversion loops
   of the source forms are discharged by the layout-independent loop lemmas of ModuleFacts.v, found by unification on the
   regenerated loop body, so a loop moved into a private helper function is covered as well. *)
From Coq Require Import String.
From Verif Require Import Base Sorter Value Seq Coll Pool PoolRun Params SetProofs AssocProofs Facade FacadeProofs ModuleLang ModuleSem ModuleFacts ModuleTactics GenModule.
Open Scope Z_scope.
Open Scope list_scope.
Local Opaque class_ctor as_type fold_loop.

(* ====================================================================================================== *)
(* List                                                                                                     *)
(* ====================================================================================================== *)
Definition env_list (s : slots) (scr : list mval) : menv :=
  [MArgV ANotation; opt_slice (s_values s); opt_seq (s_seq s); src_of s] ++ scr.

Lemma list_step : forall args0 tk tv f s scr a, size_ok a -> length scr = 8%nat ->
  exists scr', length scr' = 8%nat /\
    exec args0 (10 + f) (with_argument (ctx0 tk tv) a) (env_list s scr) (loop_body gen_List) =
    match accept FList s a with Some s' => RNormal (env_list s' scr') | None => RPanic end.
Proof. intros args0 tk tv f s scr a Ha L. explode scr 8. step_tac scr a Ha 8 8%nat. Qed.

Lemma list_post : forall args0 tk tv f s scr, length scr = 8%nat ->
  result_of (exec args0 (30 + f) (ctx0 tk tv) (env_list s scr) (post_body gen_List)) =
  out_map FO (out_map FObj (finish_list tv s)).
Proof.
  intros args0 tk tv f s scr L. explode scr 8. destruct s as [sz hs vals sq txt prs cl asc mp asq].
  unfold env_list, src_of, opt_slice, opt_seq. cbn [s_size s_has_size s_values s_seq s_text s_parsed app]. norm_body.
  destruct vals as [[|?v ?l]|]; [ | fin2 | ].
  all: destruct sq as [?l|]; [fin2|].
  all: destruct txt as [|?ch ?t]; [fin2|].
  all: destruct prs as [?pv|]; [|fin2].
  all: destruct pv; match goal with |- context [PColl (VSeq ?k _)] => destruct k; match goal with |- context [VSeq KSlice] => fin2 | |- _ => idtac end | |- _ => fin2 end.
  all: cbn [plus]; timeout 60 to_loop.
  all: timeout 20 (match goal with |- context [fold_loop ?st ?its ?env] => erewrite (list_append_loop _ _ _ _ _ _ st its (fun x e => eq_refl)); [ | cbn; congruence | cbn; lia | cbn; lia | reflexivity ] end).
  all: timeout 10 (unfold finish_list, source_values; cbn [s_values s_seq s_text s_parsed has_text nonempty parsed_items]).
  all: timeout 10 (match goal with |- context [convert_all ?t ?its] => destruct (convert_all t its) as [vs|] end); [|solve [timeout 10 fin2]].
  all: timeout 20 fin2.
  Unshelve. all: try exact O. all: try exact [].
Qed.

Theorem gen_List_is_the_model : forall tk tv args, Forall size_ok args ->
  run_ctor gen_List tk tv args = out_map FO (facade FList tk tv args).
Proof. ctor_main gen_List FList env_list 8%nat list_step list_post. Qed.
