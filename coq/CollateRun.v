(* CollateRun.v — decoders and comparison for the collator correspondence (C07, C08).
   A case is one collator (its maximum depth) and a sequence of public calls on it; after the
   fix recorded in known_findings.json every public call starts from depth 0, so each call
   is evaluated independently.  An observation None is "some other panic" (never produced
   by the model).  No proofs. *)
From Verif Require Import Base Value.

Inductive ccall :=
| CRank (a b : val) (obs : option (res comparison))
| CCompare (a b : val) (obs : option (res bool)).
Record ccase := { cc_max : nat; cc_calls : list ccall }.

Definition res_cmp_eqb (a b : res comparison) : bool :=
  match a, b with
  | R x, R y => comparison_eqb x y
  | DepthPanic, DepthPanic => true
  | _, _ => false
  end.
Definition res_bool_eqb (a b : res bool) : bool :=
  match a, b with
  | R x, R y => Bool.eqb x y
  | DepthPanic, DepthPanic => true
  | _, _ => false
  end.

Definition call_ok (maximum : nat) (c : ccall) : bool :=
  match c with
  | CRank a b (Some o) => res_cmp_eqb (rank0 maximum a b) o
  | CCompare a b (Some o) => res_bool_eqb (compare0 maximum a b) o
  | _ => false
  end.

Fixpoint first_bad (maximum : nat) (cs : list ccall) (k : nat) : option nat :=
  match cs with
  | [] => None
  | c :: t => if call_ok maximum c then first_bad maximum t (S k) else Some k
  end.

Fixpoint cmismatches_from (n : nat) (cases : list ccase) : list (nat * nat) :=
  match cases with
  | [] => []
  | c :: t =>
    match first_bad (cc_max c) (cc_calls c) 0 with
    | None => cmismatches_from (S n) t
    | Some k => (n, k) :: cmismatches_from (S n) t
    end
  end.
Definition cmismatches (cases : list ccase) : list (nat * nat) := cmismatches_from 0 cases.

Definition call_report (maximum : nat) (c : ccall) :=
  match c with
  | CRank a b o => (Some (rank0 maximum a b), o, @None (res bool), @None (res bool))
  | CCompare a b o => (@None (res comparison), @None (res comparison), Some (compare0 maximum a b), o)
  end.
