(* C20.v — Universal constructors build what the class constructors and the parser build
   Statements only: every theorem is closed by [exact] of a lemma proved elsewhere, and its
   axioms are printed.  Generated once by tools/mkprop.py from the proved lemmas' statements. *)
From Verif Require Import Base Value Seq Coll Pool SetProofs AssocProofs Facade FacadeProofs.

Theorem C20_notation_is_transparent :
  forall (k : fkind) (tk tv : ety) (pos : nat) (args : list arg),
         facade k tk tv (with_notation pos args) = facade k tk tv args.
Proof. exact facade_notation_transparent. Qed.

Theorem C20_no_data_is_Make :
  forall (k : fkind) (tk tv : ety) (pos : nat),
         k <> FArray ->
         k <> FAssociation ->
         facade k tk tv (with_notation pos []) = out_map FObj (class_ctor k tv CMake).
Proof. exact facade_agrees_none. Qed.

Theorem C20_array_requires_an_argument :
  forall (tk tv : ety) (pos : nat), facade FArray tk tv (with_notation pos []) = Panic.
Proof. exact facade_array_requires_argument. Qed.

Theorem C20_size_or_capacity :
  forall (k : fkind) (tk tv : ety) (n : Z) (pos : nat) (as_int : bool),
         is_sized_kind k ->
         0 <= n ->
         facade k tk tv (with_notation pos [if as_int then AInt n else AUint n]) =
         out_map FObj (class_ctor k tv (CSize (Z.to_nat n))).
Proof. exact facade_agrees_size. Qed.

Theorem C20_go_array :
  forall (k : fkind) (tk tv : ety) (vs : list val) (pos : nat),
         is_seq_kind k ->
         facade k tk tv (with_notation pos [ASlice vs]) =
         out_map FObj (class_ctor k tv (CFromArray vs)).
Proof. exact facade_agrees_slice. Qed.

Theorem C20_sequence :
  forall (k : fkind) (tk tv : ety) (sk : skind) (vs : list val) (pos : nat),
         is_seq_kind k ->
         facade k tk tv (with_notation pos [ASeq sk vs]) =
         out_map FObj (class_ctor k tv (CFromSeq vs)).
Proof. exact facade_agrees_sequence. Qed.

Theorem C20_collator :
  forall (tk tv : ety) (c pos : nat),
         facade FSet tk tv (with_notation pos [ACollator c]) =
         out_map FObj (class_ctor FSet tv (CWithCollator c [])).
Proof. exact facade_agrees_collator. Qed.

Theorem C20_collator_with_go_array :
  forall (tk tv : ety) (c : nat) (vs : list val) (pos : nat) (coll_first : bool),
         facade FSet tk tv
           (with_notation pos
              (if coll_first then [ACollator c; ASlice vs] else [ASlice vs; ACollator c])) =
         out_map FObj (class_ctor FSet tv (CWithCollator c vs)).
Proof. exact facade_agrees_collator_slice. Qed.

Theorem C20_collator_with_sequence :
  forall (tk tv : ety) (c : nat) (sk : skind) (vs : list val) (pos : nat) (coll_first : bool),
         facade FSet tk tv
           (with_notation pos
              (if coll_first then [ACollator c; ASeq sk vs] else [ASeq sk vs; ACollator c])) =
         out_map FObj (class_ctor FSet tv (CWithCollator c vs)).
Proof. exact facade_agrees_collator_sequence. Qed.

Theorem C20_go_map :
  forall (k : fkind) (tk tv : ety) (kvs : list (val * val)) (okeys : list val) (pos : nat),
         is_pair_kind k ->
         facade k tk tv (with_notation pos [AGoMap kvs okeys]) =
         out_map FObj (class_ctor k tv (CFromMap (ordered kvs okeys))).
Proof. exact facade_agrees_gomap. Qed.

Theorem C20_association_array :
  forall (k : fkind) (tk tv : ety) (kvs : list (val * val)) (pos : nat),
         is_pair_kind k ->
         facade k tk tv (with_notation pos [AAssocSlice kvs]) =
         out_map FObj (class_ctor k tv (CFromAssocArray kvs)).
Proof. exact facade_agrees_assoc_slice. Qed.

Theorem C20_association_sequence :
  forall (k : fkind) (tk tv : ety) (kvs : list (val * val)) (okeys : list val) (pos : nat),
         is_pair_kind k ->
         facade k tk tv (with_notation pos [AAssocSeq kvs okeys]) =
         out_map FObj (class_ctor k tv (CFromAssocSeq (ordered kvs okeys))).
Proof. exact facade_agrees_assoc_sequence. Qed.

Theorem C20_class_constructors_closed_forms :
  forall (t : ety) (l : list val) (n : nat),
         class_ctor FList t CMake = Ret (OLst []) /\
         class_ctor FSet t CMake = Ret (OSet 0 []) /\
         class_ctor FStack t CMake = Ret (OStk default_stack_cap []) /\
         class_ctor FQueue t CMake = Ret (OQue default_queue_cap []) /\
         class_ctor FCatalog t CMake = Ret (OCat []) /\
         class_ctor FMap t CMake = Ret (OMap []) /\
         class_ctor FArray t (CSize n) = Ret (OArr (repeat (zero_of t) n)) /\
         class_ctor FStack t (CSize n) = (if (n =? 0)%nat then Panic else Ret (OStk n [])) /\
         class_ctor FQueue t (CSize n) =
         Ret (OQue (if (n =? 0)%nat then default_queue_cap else n) []) /\
         class_ctor FArray t (CFromArray l) = Ret (OArr l) /\
         class_ctor FList t (CFromArray l) = Ret (OLst l) /\
         class_ctor FStack t (CFromArray l) = Ret (OStk (Nat.max default_stack_cap (length l)) l) /\
         class_ctor FQueue t (CFromArray l) = Ret (OQue (Nat.max default_queue_cap (length l)) l) /\
         class_ctor FArray t (CFromSeq l) = Ret (OArr l) /\
         class_ctor FList t (CFromSeq l) = Ret (OLst l) /\
         class_ctor FStack t (CFromSeq l) = Ret (OStk (Nat.max default_stack_cap (length l)) l) /\
         class_ctor FQueue t (CFromSeq l) = Ret (OQue (Nat.max default_queue_cap (length l)) l).
Proof. exact class_ctor_closed_forms. Qed.

Theorem C20_class_set_constructors :
  forall (t : ety) (l : list val),
         class_ctor FSet t (CFromArray l) =
         out_map (OSet 0) (set_add_all (zero_of t) rk_default [] l) /\
         class_ctor FSet t (CFromSeq l) = out_map (OSet 0) (set_add_all (zero_of t) rk_default [] l).
Proof. exact class_ctor_set_from. Qed.

Theorem C20_class_pair_constructors :
  forall (t : ety) (kvs : list (val * val)),
         class_ctor FCatalog t (CFromAssocArray kvs) = Ret (OCat (a_set_all keq [] kvs)) /\
         class_ctor FCatalog t (CFromAssocSeq kvs) = Ret (OCat (a_set_all keq [] kvs)) /\
         class_ctor FMap t (CFromAssocArray kvs) = Ret (OMap (a_set_all keq [] kvs)) /\
         class_ctor FMap t (CFromAssocSeq kvs) = Ret (OMap (a_set_all keq [] kvs)).
Proof. exact class_ctor_pairs_from. Qed.

Theorem C20_source_is_the_class_constructor_on_the_parsed_items :
  forall (k : fkind) (tk tv : ety) (text : list Z) (sk : skind) (items : list val) (pos : nat),
         is_seq_kind k ->
         text <> [] ->
         sk <> KSlice ->
         convert_all tv items = Some items ->
         facade k tk tv (with_notation pos [AString text (PColl (VSeq sk items))]) =
         out_map FObj (class_ctor k tv (CFromSeq items)).
Proof. exact facade_source_sequence. Qed.

Theorem C20_source_contents_order_capacity :
  forall (k : fkind) (tk tv : ety) (text : list Z) (sk : skind) (items : list val) (pos : nat),
         k = FArray \/ k = FList \/ k = FStack \/ k = FQueue ->
         text <> [] ->
         sk <> KSlice ->
         convert_all tv items = Some items ->
         exists o : obj,
           facade k tk tv (with_notation pos [AString text (PColl (VSeq sk items))]) = Ret (FObj o) /\
           seq_plain o = Some items /\
           (k = FStack -> o = OStk (Nat.max default_stack_cap (length items)) items) /\
           (k = FQueue -> o = OQue (Nat.max default_queue_cap (length items)) items).
Proof. exact facade_source_contents. Qed.

Theorem C20_source_ill_typed_item_panics :
  forall (k : fkind) (tk tv : ety) (text : list Z) (sk : skind) (items : list val) (pos : nat),
         is_seq_kind k ->
         text <> [] ->
         sk <> KSlice ->
         convert_all tv items = None ->
         facade k tk tv (with_notation pos [AString text (PColl (VSeq sk items))]) = Panic.
Proof. exact facade_source_ill_typed. Qed.

Theorem C20_source_set_of_a_parsed_set :
  forall (tk tv : ety) (text : list Z) (items : list val) (pos : nat),
         total_preorder val rk_default ->
         StrictSorted val rk_default items ->
         text <> [] ->
         convert_all tv items = Some items ->
         facade FSet tk tv (with_notation pos [AString text (PColl (VSeq KSet items))]) =
         Ret (FObj (OSet 0 items)).
Proof. exact facade_source_set. Qed.

Theorem C20_source_set_members :
  forall (tk tv : ety) (text : list Z) (sk : skind) (items : list val) (pos : nat),
         total_preorder val rk_default ->
         sk <> KSlice ->
         text <> [] ->
         convert_all tv items = Some items ->
         exists l : list val,
           facade FSet tk tv (with_notation pos [AString text (PColl (VSeq sk items))]) =
           Ret (FObj (OSet 0 l)) /\
           StrictSorted val rk_default l /\
           (forall x : val, mem val rk_default x l <-> mem val rk_default x items).
Proof. exact facade_source_set_members. Qed.

Theorem C20_source_catalog_map :
  forall (k : fkind) (tk tv : ety) (text : list Z) (mk : mkind) (ks vs : list val) (pos : nat),
         is_pair_kind k ->
         mk = MCatalog \/ mk = MMap ->
         text <> [] ->
         convert_pairs tk tv (zipkv ks vs) = Some (zipkv ks vs) ->
         facade k tk tv (with_notation pos [AString text (PColl (VMapping mk ks vs))]) =
         Ret (FObj (pairs_obj k (a_set_all keq [] (zipkv ks vs)))).
Proof. exact facade_source_pairs. Qed.

Theorem C20_source_catalog_map_contents :
  forall (k : fkind) (tk tv : ety) (text : list Z) (mk : mkind) (ks vs : list val) (pos : nat),
         is_pair_kind k ->
         mk = MCatalog \/ mk = MMap ->
         text <> [] ->
         convert_pairs tk tv (zipkv ks vs) = Some (zipkv ks vs) ->
         wfm val val keq (zipkv ks vs) ->
         facade k tk tv (with_notation pos [AString text (PColl (VMapping mk ks vs))]) =
         Ret (FObj (pairs_obj k (zipkv ks vs))).
Proof. exact facade_source_pairs_contents. Qed.

Theorem C20_association_key_value :
  forall (tk tv : ety) (k v : val) (pos : nat),
         has_ty tk k = true ->
         has_ty tv v = true ->
         facade FAssociation tk tv (with_notation pos [AVal k; AVal v]) = Ret (FAssoc k v).
Proof. exact assoc_kv. Qed.

Theorem C20_association_notation_between :
  forall (tk tv : ety) (k v : val),
         has_ty tk k = true ->
         has_ty tv v = true ->
         facade FAssociation tk tv [AVal k; ANotation; AVal v] = Ret (FAssoc k v).
Proof. exact assoc_kv_notation_between. Qed.

Theorem C20_association_either_order_when_types_differ :
  forall (tk tv : ety) (k v : val),
         has_ty tk k = true ->
         has_ty tv v = true ->
         has_ty tk v = false -> facade FAssociation tk tv [AVal v; AVal k] = Ret (FAssoc k v).
Proof. exact assoc_vk_distinct_types. Qed.

Theorem C20_default_capacities_positive :
  (1 <=? default_stack_cap)%nat = true /\ (1 <=? default_queue_cap)%nat = true.
Proof. exact default_capacities_positive. Qed.

(* ---------- non-vacuity: concrete calls that meet the hypotheses, evaluated by the model ---------- *)
Example C20_ex_assoc_same_type :
  has_ty TString (VStr [107]) = true /\ has_ty TString (VStr [118]) = true /\
  facade FAssociation TString TString [AVal (VStr [107]); AVal (VStr [118])] = Ret (FAssoc (VStr [107]) (VStr [118])).
Proof. vm_compute. repeat split. Qed.
Example C20_ex_assoc_any_value :
  has_ty TAny (VStr [118]) = true /\
  facade FAssociation TString TAny [ANotation; AVal (VStr [107]); AVal (VStr [118])] = Ret (FAssoc (VStr [107]) (VStr [118])).
Proof. vm_compute. repeat split. Qed.
Example C20_ex_assoc_any_key :
  facade FAssociation TAny TInt64 [AVal (VInt 64 5); ANotation; AVal (VInt 64 7)] = Ret (FAssoc (VInt 64 5) (VInt 64 7)).
Proof. vm_compute. reflexivity. Qed.
Example C20_ex_source_hypotheses :
  convert_all TInt64 [VInt 64 1; VInt 64 2; VInt 64 3] = Some [VInt 64 1; VInt 64 2; VInt 64 3] /\
  convert_all TAny [VInt 64 1; VNil] = Some [VInt 64 1; VNil] /\
  convert_all TString [VInt 64 1] = None.
Proof. vm_compute. repeat split. Qed.
Example C20_ex_array_source :
  facade FArray TInt64 TInt64 [AString [91] (PColl (VSeq KArray [VInt 64 1; VInt 64 2; VInt 64 3]))]
  = Ret (FObj (OArr [VInt 64 1; VInt 64 2; VInt 64 3])).
Proof. vm_compute. reflexivity. Qed.
Example C20_ex_stack_source_keeps_order :
  facade FStack TInt64 TInt64 [AString [91] (PColl (VSeq KStack [VInt 64 1; VInt 64 2; VInt 64 3])); ANotation]
  = Ret (FObj (OStk (Nat.max default_stack_cap 3) [VInt 64 1; VInt 64 2; VInt 64 3])).
Proof. vm_compute. reflexivity. Qed.
Example C20_ex_queue_source_17_values :
  facade FQueue TBool TBool [AString [91] (PColl (VSeq KQueue (repeat (VBool true) 17)))]
  = Ret (FObj (OQue (Nat.max default_queue_cap 17) (repeat (VBool true) 17))).
Proof. vm_compute. reflexivity. Qed.
Example C20_ex_nil_item_in_any_source :
  facade FList TAny TAny [AString [91] (PColl (VSeq KList [VInt 64 1; VNil]))] = Ret (FObj (OLst [VInt 64 1; VNil])).
Proof. vm_compute. reflexivity. Qed.
Example C20_ex_empty_data :
  facade FArray TInt64 TInt64 [AUint 0] = Ret (FObj (OArr [])) /\
  facade FArray TInt64 TInt64 [ASlice []] = Ret (FObj (OArr [])) /\
  facade FArray TInt64 TInt64 [] = Panic /\
  facade FStack TInt64 TInt64 [AUint 0] = Panic /\
  facade FQueue TInt64 TInt64 [AInt 0] = Ret (FObj (OQue default_queue_cap [])).
Proof. vm_compute. repeat split. Qed.
Example C20_ex_set_sorted_hypothesis :
  StrictSorted val rk_default [VInt 64 1; VInt 64 2; VInt 64 5].
Proof. repeat constructor. Qed.
Example C20_ex_catalog_source :
  wfm val val keq (zipkv [VStr [97]; VStr [98]] [VInt 64 1; VInt 64 2]) /\
  facade FCatalog TString TInt64 [AString [91] (PColl (VMapping MCatalog [VStr [97]; VStr [98]] [VInt 64 1; VInt 64 2]))]
  = Ret (FObj (OCat [(VStr [97], VInt 64 1); (VStr [98], VInt 64 2)])).
Proof.
  split; [|vm_compute; reflexivity].
  simpl. repeat split; intros k' H; simpl in H; intuition; subst; reflexivity.
Qed.

Print Assumptions C20_notation_is_transparent.
Print Assumptions C20_no_data_is_Make.
Print Assumptions C20_array_requires_an_argument.
Print Assumptions C20_size_or_capacity.
Print Assumptions C20_go_array.
Print Assumptions C20_sequence.
Print Assumptions C20_collator.
Print Assumptions C20_collator_with_go_array.
Print Assumptions C20_collator_with_sequence.
Print Assumptions C20_go_map.
Print Assumptions C20_association_array.
Print Assumptions C20_association_sequence.
Print Assumptions C20_class_constructors_closed_forms.
Print Assumptions C20_class_set_constructors.
Print Assumptions C20_class_pair_constructors.
Print Assumptions C20_source_is_the_class_constructor_on_the_parsed_items.
Print Assumptions C20_source_contents_order_capacity.
Print Assumptions C20_source_ill_typed_item_panics.
Print Assumptions C20_source_set_of_a_parsed_set.
Print Assumptions C20_source_set_members.
Print Assumptions C20_source_catalog_map.
Print Assumptions C20_source_catalog_map_contents.
Print Assumptions C20_association_key_value.
Print Assumptions C20_association_notation_between.
Print Assumptions C20_association_either_order_when_types_differ.
Print Assumptions C20_default_capacities_positive.
