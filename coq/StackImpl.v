(* StackImpl.v — the Stack AS THE CODE HAS IT (v4/collection/stack.go, current tree): a capacity and a List;
   the methods call the List's methods (the ordinal-indexed sequence of Seq.v, which is what list.go is proved
   to be in C01): AddValue = capacity test, then InsertValue(0, value); RemoveTop = IsEmpty test, then
   RemoveValue(1); constructors adopt capacityFor(list).  Definitions only. *)
From Verif Require Import Base Seq.

Section StackImpl.
Variable A : Type.
Variable zero : A.

Record stk := { s_cap : nat; s_values : list A }.

(* capacityFor(list): "capacity = default; if size > capacity { capacity = size }" *)
Definition capacity_for (dflt : nat) (l : list A) : nat := if dflt <? length l then length l else dflt.
Definition s_make (dflt : nat) : stk := {| s_cap := dflt; s_values := [] |}.
Definition s_make_with_capacity (cap : nat) : out stk :=
  if cap <? 1 then Panic else Ret {| s_cap := cap; s_values := [] |}.
(* MakeFromArray / MakeFromSequence: List.MakeFromArray(values) keeps the order *)
Definition s_make_from (dflt : nat) (l : list A) : stk := {| s_cap := capacity_for dflt l; s_values := l |}.

(* AddValue *)
Definition s_add_value (s : stk) (v : A) : out stk :=
  if length (s_values s) =? s_cap s then Panic
  else out_map (fun l => {| s_cap := s_cap s; s_values := l |}) (insert_value (s_values s) 0 v).
(* RemoveTop *)
Definition s_remove_top (s : stk) : out (A * stk) :=
  if length (s_values s) =? 0 then Panic
  else out_map (fun r : A * list A => (fst r, {| s_cap := s_cap s; s_values := snd r |})) (remove_value zero (s_values s) 1%Z).
Definition s_remove_all (s : stk) : stk := {| s_cap := s_cap s; s_values := [] |}.
Definition s_get_size (s : stk) : nat := length (s_values s).
Definition s_as_array (s : stk) : list A := s_values s.
End StackImpl.
Arguments s_cap {A}. Arguments s_values {A}. Arguments Build_stk {A}. Arguments capacity_for {A}. Arguments s_make {A}.
Arguments s_make_with_capacity {A}. Arguments s_make_from {A}. Arguments s_add_value {A}. Arguments s_remove_top {A}.
Arguments s_remove_all {A}. Arguments s_get_size {A}. Arguments s_as_array {A}.
