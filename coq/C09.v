(* C09.v — Sorting yields an ordered permutation for every ranker
   Statements only: every theorem is closed by [exact] of a lemma proved elsewhere, and its
   axioms are printed.  Generated once by tools/mkprop.py from the proved lemmas' statements. 
   Round 2 (polish): an [Example] of non-vacuity beside the theorems (inconsistent rankers included;
   data in SorterProofs2.v); from C09_default_collator_sort_ascending on: the "ascending" theorem for the
   REAL default ranking without a total_preorder hypothesis (on the universe type and on raw values),
   and the Sort/Reverse/Shuffle methods of Array, List and Catalog in the pool machine are the sorter. *)
From Verif Require Import Base Sorter SorterProofs Value Seq Coll CollateRank CollateUse Pool PoolFrame SorterProofs2.
Local Open Scope nat_scope.

Theorem C09_sort_is_permutation_for_every_ranker :
  forall (A : Type) (rk : A -> A -> comparison) (l : list A),
         Permutation.Permutation (sort_values rk l) l.
Proof. exact sort_perm. Qed.

(* non-vacuity: an array of length 11 (not a power of two, with ties) under three deliberately
   INCONSISTENT rankers (always Greater, always Lesser, parity of the sum): the sort terminates and
   yields a permutation *)
Example C09_sort_is_permutation_for_every_ranker_example :
  sort_values always_gt ex_arr = [9; 7; 9; 8; 35; 5; 26; 9; 15; 4; 31]%Z /\
  sort_values always_lt ex_arr = ex_arr /\
  Permutation.Permutation (sort_values parity_rk ex_arr) ex_arr /\
  parity_rk 1 2 = Gt /\ parity_rk 2 1 = Gt.
Proof.
  split; [vm_compute; reflexivity|]. split; [vm_compute; reflexivity|].
  split; [apply C09_sort_is_permutation_for_every_ranker|]. split; reflexivity.
Qed.

Theorem C09_sort_keeps_length :
  forall (A : Type) (rk : A -> A -> comparison) (l : list A),
         length (sort_values rk l) = length l.
Proof. exact sort_length. Qed.

Theorem C09_sort_ascending_adjacent :
  forall (A : Type) (rk : A -> A -> comparison),
         total_preorder rk -> forall l : list A, Sorted.Sorted (not_gt rk) (sort_values rk l).
Proof. exact sort_sorted. Qed.

(* non-vacuity: the natural order and a coarse order (x/10, many ties) are total preorders; results computed *)
Example C09_sort_ascending_adjacent_example :
  total_preorder natZ /\ total_preorder coarse10 /\
  sort_values natZ ex_arr = [4; 5; 7; 8; 9; 9; 9; 15; 26; 31; 35]%Z /\
  ascendingb coarse10 (sort_values coarse10 ex_arr) = true /\
  Sorted.Sorted (not_gt coarse10) (sort_values coarse10 ex_arr).
Proof.
  split; [exact natZ_total_preorder|]. split; [exact coarse10_total_preorder|].
  split; [vm_compute; reflexivity|]. split; [vm_compute; reflexivity|].
  apply C09_sort_ascending_adjacent. exact coarse10_total_preorder.
Qed.

Theorem C09_sort_ascending_all_pairs :
  forall (A : Type) (rk : A -> A -> comparison),
         total_preorder rk -> forall l : list A, Sorted.StronglySorted (not_gt rk) (sort_values rk l).
Proof. exact sort_strongly_sorted. Qed.

Example C09_sort_ascending_all_pairs_example :
  total_preorder natZ /\ Sorted.StronglySorted (not_gt natZ) (sort_values natZ ex_arr).
Proof. split; [exact natZ_total_preorder|]. apply C09_sort_ascending_all_pairs. exact natZ_total_preorder. Qed.

Theorem C09_merge_is_permutation :
  forall (A : Type) (rk : A -> A -> comparison) (fuel : nat) (l r : list A),
         length l + length r <= fuel -> Permutation.Permutation (merge rk fuel l r) (l ++ r).
Proof. exact merge_perm. Qed.

Example C09_merge_is_permutation_example :
  length [1; 4; 9]%Z + length [2; 4]%Z <= 5 /\ merge natZ 5 [1; 4; 9]%Z [2; 4]%Z = [1; 2; 4; 4; 9]%Z /\
  merge always_gt 5 [1; 4; 9]%Z [2; 4]%Z = [2; 4; 1; 4; 9]%Z.
Proof. split; [vm_compute; lia|]. split; vm_compute; reflexivity. Qed.

Theorem C09_pass_is_permutation :
  forall (A : Type) (rk : A -> A -> comparison) (fuel w : nat) (l : list A),
         Permutation.Permutation (pass rk fuel w l) l.
Proof. exact pass_perm. Qed.

Theorem C09_reverse_exact :
  forall (A : Type) (l : list A), reverse_values l = rev l.
Proof. exact reverse_spec. Qed.

Example C09_reverse_exact_example :
  reverse_values ex_arr = [9; 7; 9; 8; 35; 5; 26; 9; 15; 4; 31]%Z /\ reverse_values (@nil Z) = [] /\
  reverse_values [1; 2]%Z = [2; 1]%Z.
Proof. repeat split; vm_compute; reflexivity. Qed.

Theorem C09_reverse_twice_identity :
  forall (A : Type) (l : list A), reverse_values (reverse_values l) = l.
Proof. exact reverse_involutive. Qed.

Theorem C09_shuffle_is_permutation :
  forall (A : Type) (rs : list nat) (l : list A),
         Permutation.Permutation (shuffle_values rs l) l.
Proof. exact shuffle_perm. Qed.

(* non-vacuity: random indices as recorded by the harness; an index >= size is ignored *)
Example C09_shuffle_is_permutation_example :
  shuffle_values [2; 0; 3; 9; 1] [10; 20; 30; 40; 50]%Z = [20; 50; 40; 10; 30]%Z /\
  Permutation.Permutation (shuffle_values [2; 0; 3; 9; 1] [10; 20; 30; 40; 50]%Z) [10; 20; 30; 40; 50]%Z.
Proof. split; [vm_compute; reflexivity|apply C09_shuffle_is_permutation]. Qed.

Theorem C09_default_collator_sort_ascending :
  forall (M : nat) (l : list (U M)),
         Sorted.StronglySorted (not_gt (rkU M)) (sort_values (rkU M) l) /\
         Permutation.Permutation (sort_values (rkU M) l) l.
Proof. exact sort_with_collator_sorted. Qed.

Theorem C09_raw_default_sort_ascending :
  forall l : list val,
         Forall in_universe l ->
         Sorted.StronglySorted (not_gt rk_default) (sort_values rk_default l) /\
         Sorted.Sorted (not_gt rk_default) (sort_values rk_default l) /\
         Permutation.Permutation (sort_values rk_default l) l /\
         Forall in_universe (sort_values rk_default l).
Proof. exact sort_default_ascending. Qed.

(* non-vacuity: a Go []any holding ints, strings and a nil — universe members — sorted by the default ranking *)
Example C09_raw_default_sort_ascending_example :
  Forall in_universe [VInt 0 5; VStr [98]%Z; VNil; VInt 0 (-2); VStr [97; 99]%Z; VInt 0 5] /\
  sort_values rk_default [VInt 0 5; VStr [98]%Z; VNil; VInt 0 (-2); VStr [97; 99]%Z; VInt 0 5]
    = [VNil; VInt 0 (-2); VInt 0 5; VInt 0 5; VStr [97; 99]%Z; VStr [98]%Z].
Proof.
  split; [|vm_compute; reflexivity].
  repeat constructor; vm_compute; reflexivity.
Qed.

Theorem C09_sorter_commutes_with_renaming :
  forall (A B : Type) (f : B -> A) (rkA : A -> A -> comparison) (l : list B),
         sort_values rkA (map f l) = map f (sort_values (fun x y : B => rkA (f x) (f y)) l).
Proof. exact sort_values_map. Qed.

Theorem C09_pool_list_and_array_methods_are_the_sorter :
  forall (zero : val) (p : list obj) (o : nat) (l : list val),
         o < length p ->
         (get p o = OLst l ->
          nth o (fst (step zero p (SortValues o))) ODead = OLst (sort_values rk_default l) /\
          (forall rk : nat,
           nth o (fst (step zero p (SortWith o rk))) ODead = OLst (sort_values (ranker rk) l)) /\
          nth o (fst (step zero p (ReverseValues o))) ODead = OLst (reverse_values l) /\
          (forall rs : list nat,
           nth o (fst (step zero p (ShuffleValues o rs))) ODead = OLst (shuffle_values rs l))) /\
         (get p o = OArr l ->
          nth o (fst (step zero p (SortValues o))) ODead = OArr (sort_values rk_default l) /\
          (forall rk : nat,
           nth o (fst (step zero p (SortWith o rk))) ODead = OArr (sort_values (ranker rk) l)) /\
          nth o (fst (step zero p (ReverseValues o))) ODead = OArr (reverse_values l) /\
          (forall rs : list nat,
           nth o (fst (step zero p (ShuffleValues o rs))) ODead = OArr (shuffle_values rs l))).
Proof. exact pool_sort_list_array. Qed.

Example C09_pool_methods_example :
  run (VInt 0 0) [] [NewSlice [VInt 0 3; VInt 0 1; VInt 0 2]; FromArray CList 0; FromArray CArray 0;
                     SortValues 1; ReverseValues 2; SortWith 2 1] =
    [OSlice [VInt 0 3; VInt 0 1; VInt 0 2]; OLst [VInt 0 1; VInt 0 2; VInt 0 3]; OArr [VInt 0 3; VInt 0 2; VInt 0 1]].
Proof. vm_compute; reflexivity. Qed.

Theorem C09_pool_catalog_sort_is_the_sorter_on_associations :
  forall (zero : val) (p : list obj) (o : nat) (m : list (val * val)),
         o < length p ->
         get p o = OCat m ->
         (exists m' : list (val * val),
            nth o (fst (step zero p (SortValues o))) ODead = OCat m' /\
            assoc_vals m' = sort_values rk_default (assoc_vals m) /\ Permutation.Permutation m' m) /\
         (forall rk : nat,
          exists m' : list (val * val),
            nth o (fst (step zero p (SortWith o rk))) ODead = OCat m' /\
            assoc_vals m' = sort_values (ranker rk) (assoc_vals m) /\ Permutation.Permutation m' m).
Proof. exact pool_sort_catalog. Qed.

Theorem C09_pool_catalog_reverse_shuffle :
  forall (zero : val) (p : list obj) (o : nat) (m : list (val * val)),
         o < length p ->
         get p o = OCat m ->
         nth o (fst (step zero p (ReverseValues o))) ODead = OCat (rev m) /\
         (forall rs : list nat,
          exists m' : list (val * val),
            nth o (fst (step zero p (ShuffleValues o rs))) ODead = OCat m' /\
            Permutation.Permutation m' m).
Proof. exact pool_reverse_shuffle_catalog. Qed.


Print Assumptions C09_sort_is_permutation_for_every_ranker.
Print Assumptions C09_sort_keeps_length.
Print Assumptions C09_sort_ascending_adjacent.
Print Assumptions C09_sort_ascending_all_pairs.
Print Assumptions C09_merge_is_permutation.
Print Assumptions C09_pass_is_permutation.
Print Assumptions C09_reverse_exact.
Print Assumptions C09_reverse_twice_identity.
Print Assumptions C09_shuffle_is_permutation.
Print Assumptions C09_default_collator_sort_ascending.
Print Assumptions C09_raw_default_sort_ascending.
Print Assumptions C09_sorter_commutes_with_renaming.
Print Assumptions C09_pool_list_and_array_methods_are_the_sorter.
Print Assumptions C09_pool_catalog_sort_is_the_sorter_on_associations.
Print Assumptions C09_pool_catalog_reverse_shuffle.
