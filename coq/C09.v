(* C09.v — Sorting yields an ordered permutation for every ranker
   Statements only: every theorem is closed by [exact] of a lemma proved elsewhere, and its
   axioms are printed.  Generated once by tools/mkprop.py from the proved lemmas' statements. *)
From Verif Require Import Base Sorter SorterProofs.

Theorem C09_sort_is_permutation_for_every_ranker :
  forall (A : Type) (rk : A -> A -> comparison) (l : list A),
         Permutation.Permutation (sort_values rk l) l.
Proof. exact sort_perm. Qed.

Theorem C09_sort_keeps_length :
  forall (A : Type) (rk : A -> A -> comparison) (l : list A),
         length (sort_values rk l) = length l.
Proof. exact sort_length. Qed.

Theorem C09_sort_ascending_adjacent :
  forall (A : Type) (rk : A -> A -> comparison),
         total_preorder rk -> forall l : list A, Sorted.Sorted (not_gt rk) (sort_values rk l).
Proof. exact sort_sorted. Qed.

Theorem C09_sort_ascending_all_pairs :
  forall (A : Type) (rk : A -> A -> comparison),
         total_preorder rk -> forall l : list A, Sorted.StronglySorted (not_gt rk) (sort_values rk l).
Proof. exact sort_strongly_sorted. Qed.

Theorem C09_merge_is_permutation :
  forall (A : Type) (rk : A -> A -> comparison) (fuel : nat) (l r : list A),
         length l + length r <= fuel -> Permutation.Permutation (merge rk fuel l r) (l ++ r).
Proof. exact merge_perm. Qed.

Theorem C09_pass_is_permutation :
  forall (A : Type) (rk : A -> A -> comparison) (fuel w : nat) (l : list A),
         Permutation.Permutation (pass rk fuel w l) l.
Proof. exact pass_perm. Qed.

Theorem C09_reverse_exact :
  forall (A : Type) (l : list A), reverse_values l = rev l.
Proof. exact reverse_spec. Qed.

Theorem C09_reverse_twice_identity :
  forall (A : Type) (l : list A), reverse_values (reverse_values l) = l.
Proof. exact reverse_involutive. Qed.

Theorem C09_shuffle_is_permutation :
  forall (A : Type) (rs : list nat) (l : list A),
         Permutation.Permutation (shuffle_values rs l) l.
Proof. exact shuffle_perm. Qed.


Print Assumptions C09_sort_is_permutation_for_every_ranker.
Print Assumptions C09_sort_keeps_length.
Print Assumptions C09_sort_ascending_adjacent.
Print Assumptions C09_sort_ascending_all_pairs.
Print Assumptions C09_merge_is_permutation.
Print Assumptions C09_pass_is_permutation.
Print Assumptions C09_reverse_exact.
Print Assumptions C09_reverse_twice_identity.
Print Assumptions C09_shuffle_is_permutation.
