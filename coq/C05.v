(* C05.v — Queue never loses a wake-up: blocked calls resume whenever they can proceed
   Statements only: every theorem is closed by [exact] of a lemma proved in ConcLive.v, and
   its axioms are printed.  All statements are about the interleaving model Conc.v (validated
   against the Go code by ./check C05); a blocked channel operation is a micro-step that is
   not enabled.  That the Go runtime really resumes a goroutine whose channel operation has
   become possible is trusted, not modelled.
   [pc_config cap vss nc nd]: one queue of capacity cap; one producer
   [client (map (CAdd 0) vs ++ [CDone])] per list vs of vss; one closer [client [CWait; CClose 0]];
   nc consumers [consumer 0]; nd concurrent RemoveAll callers [client [CRemoveAll 0]];
   wait group = number of producers. *)
From Verif Require Import Params Base Conc ConcProofs ConcLive.
From Coq Require Import Permutation.
Open Scope nat_scope.

(* ---- no lost wake-up at the level of the model ---- *)

(* blocked c t: the thread is finished or panicked; or its next micro-step is a send with a
   full open channel; or a receive with an empty open channel; or a Wait with wg > 0 *)
Theorem C05_enabledness :
  forall c0 c t, initial c0 -> reachable c0 c -> (step c t = None <-> blocked c t).
Proof. exact r_enabledness. Qed.

Theorem C05_send_resumes_when_room_or_closed :
  forall c0 c t q v rest,
    initial c0 -> reachable c0 c ->
    tph (gett c t) = PSend q -> tcalls (gett c t) = CAdd q v :: rest ->
    qtok (getq c q) < qcap (getq c q) \/ qclosed (getq c q) = true -> enabled c t = true.
Proof. exact send_enabled_when_room. Qed.

Theorem C05_receive_resumes_when_token_or_closed :
  forall c0 c t q rest,
    initial c0 -> reachable c0 c ->
    tph (gett c t) = PIdle -> tcalls (gett c t) = CRemoveHead q :: rest ->
    0 < qtok (getq c q) \/ qclosed (getq c q) = true -> enabled c t = true.
Proof. exact recv_enabled_when_token_or_closed. Qed.

(* ---- well-formed producer/consumer programs ---- *)

(* pc_wf cap vss nc nd c0: c0 has the queue and wait group of [pc_config cap vss nc nd] and its
   threads in any order (goroutines may be numbered arbitrarily) *)
Theorem C05_deadlock_free :
  forall cap vss nc nd c0 c,
    1 <= cap -> 1 <= nc -> pc_wf cap vss nc nd c0 -> reachable c0 c -> deadlocked c = false.
Proof. exact pc_deadlock_free. Qed.

Theorem C05_progress :
  forall cap vss nc nd c0 c,
    1 <= cap -> 1 <= nc -> pc_wf cap vss nc nd c0 -> reachable c0 c -> final c = false ->
    exists t, t < length (threads c) /\ enabled c t = true.
Proof. exact pc_progress. Qed.

Theorem C05_no_goroutine_panics :
  forall cap vss nc nd c0 c,
    1 <= cap -> 1 <= nc -> pc_wf cap vss nc nd c0 -> reachable c0 c -> no_stuck c.
Proof. exact pc_no_panic. Qed.

(* the measure: 2 per buffered token + per thread the micro-steps of its pending calls; it
   decreases at every step of every program built from clients and consumers *)
Theorem C05_measure_decreases :
  forall c t c', simple c -> step c t = Some c' -> mu c' < mu c.
Proof. exact step_decreases_mu. Qed.

Theorem C05_schedule_bound :
  forall c s c', simple c -> run_strict c s = Some c' -> length s + mu c' <= mu c.
Proof. exact run_strict_bound. Qed.

Theorem C05_measure_of_program :
  forall cap vss nc nd c0, pc_wf cap vss nc nd c0 ->
    mu c0 = 4 * length (concat vss) + length vss + 2 + nc + nd.
Proof. exact mu_pc_wf. Qed.

Theorem C05_terminates :
  forall cap vss nc nd c0,
    1 <= cap -> 1 <= nc -> pc_wf cap vss nc nd c0 ->
    (forall c t c', reachable c0 c -> step c t = Some c' -> mu c' < mu c) /\
    (forall s c, run_strict c0 s = Some c -> length s <= mu c0) /\
    (forall c, reachable c0 c -> deadlocked c = false) /\
    (forall c, reachable c0 c -> exists s c', run_strict c s = Some c' /\ final c' = true).
Proof. exact pc_terminates. Qed.

(* every maximal run: all goroutines finished, none panicked, the queue closed and empty,
   every value popped exactly once; the delivered values are all values except those some
   RemoveAll discarded; without RemoveAll callers every value was delivered exactly once *)
Theorem C05_terminates_maximal_run :
  forall cap vss nc nd c0 s c,
    1 <= cap -> 1 <= nc -> pc_wf cap vss nc nd c0 ->
    run_strict c0 s = Some c -> (forall t, enabled c t = false) ->
    length s <= mu c0 /\
    final c = true /\ no_stuck c /\
    qclosed (getq c 0) = true /\ qtok (getq c 0) = 0 /\ qvals (getq c 0) = [] /\
    qpop (getq c 0) = qapp (getq c 0) /\
    Permutation (qapp (getq c 0)) (concat vss) /\
    (exists discarded, Permutation (delivered c ++ discarded) (concat vss)) /\
    (nd = 0 -> Permutation (delivered c) (concat vss)).
Proof. exact pc_maximal_run. Qed.

Theorem C05_terminal_state :
  forall cap vss nc nd c0 c,
    1 <= cap -> 1 <= nc -> pc_wf cap vss nc nd c0 -> reachable c0 c ->
    (forall t, step c t = None) ->
    final c = true /\ no_stuck c /\
    qclosed (getq c 0) = true /\ qtok (getq c 0) = 0 /\ qvals (getq c 0) = [] /\
    qpop (getq c 0) = qapp (getq c 0) /\
    Permutation (qapp (getq c 0)) (concat vss) /\
    (exists discarded, Permutation (delivered c ++ discarded) (concat vss)) /\
    (nd = 0 -> Permutation (delivered c) (concat vss)).
Proof. exact pc_terminal. Qed.

(* values are neither lost nor invented, for every program built from clients and consumers *)
Theorem C05_values_conserved :
  forall c0 c q,
    initial c0 -> simple c0 -> q < length (queues c0) -> reachable c0 c ->
    Permutation (qapp (getq c q) ++ pending q c) (pending q c0).
Proof. exact values_conserved. Qed.

(* ---- constructors ---- *)

Theorem C05_ctor :
  forall n vs,
    length vs = n ->
    let cap := Nat.max (Z.to_nat queue_default_capacity) n in
    exists c,
      run_strict (ctor_config cap vs) (repeat 0 (2 * n)) = Some c /\
      run (ctor_config cap vs) (repeat 0 (2 * n)) = c /\
      final c = true /\ deadlocked c = false /\
      qvals (getq c 0) = vs /\ qtok (getq c 0) = n /\
      tres (gett c 0) = repeat RAdded n /\ tph (gett c 0) = PIdle.
Proof. exact ctor_never_blocks. Qed.

Theorem C05_ctor_refuted_if_unsized :
  let cap := Z.to_nat queue_default_capacity in
  let vs := map Z.of_nat (seq 1 (S cap)) in
  length vs = S cap /\
  deadlocked (run (ctor_config cap vs) (repeat 0 (2 * S cap))) = true /\
  tph (gett (run (ctor_config cap vs) (repeat 0 (2 * S cap))) 0) = PSend 0.
Proof. exact ctor_refuted_if_unsized. Qed.

(* for every capacity and every list of initial values, under every schedule: the
   constructor's AddValue calls all return iff the values fit *)
Theorem C05_ctor_returns_iff_sized :
  forall cap vs,
    (exists sched, final (run (ctor_config cap vs) sched) = true) <-> length vs <= cap.
Proof. exact ctor_returns_iff. Qed.

Theorem C05_ctor_unsized_never_returns :
  forall cap vs sched, cap < length vs -> final (run (ctor_config cap vs) sched) = false.
Proof. exact ctor_unsized_never_returns. Qed.

(* ---- non-vacuity ---- *)

(* 2 producers x 2 values, closer, 2 consumers, capacity 1 *)
Definition ex_pc : config := pc_config 1 [[1; 2]; [3; 4]]%Z 2 0.
Definition ex_rr : list nat := concat (repeat [0; 1; 2; 3; 4] 8).
Definition ex_strict : list nat :=
  [0; 1; 0; 3; 0; 1; 3; 4; 0; 1; 3; 4; 0; 1; 3; 4; 1; 2; 4; 2; 3; 4].

Example ex_pc_initial : initial ex_pc /\ simple ex_pc /\ pc_wf 1 [[1; 2]; [3; 4]]%Z 2 0 ex_pc.
Proof. split; [apply pc_initial | split; [apply W_simple; apply pc_W; lia | apply pc_wf_refl]]. Qed.

(* the same goroutines numbered differently: consumers first *)
Definition ex_pc_perm : config :=
  {| queues := [mkq 1]; wg := 2;
     threads := [consumer 0; consumer 0; closer; producer [3; 4]%Z; producer [1; 2]%Z] |}.
Example ex_pc_perm_wf : pc_wf 1 [[1; 2]; [3; 4]]%Z 2 0 ex_pc_perm.
Proof.
  split; [reflexivity|]. split; [reflexivity|].
  exact (Permutation_rev [consumer 0; consumer 0; closer; producer [3; 4]%Z; producer [1; 2]%Z]).
Qed.

Example ex_pc_perm_runs :
  final (run ex_pc_perm (concat (repeat [0; 1; 2; 3; 4] 12))) = true /\
  delivered (run ex_pc_perm (concat (repeat [0; 1; 2; 3; 4] 12))) = [3; 4; 1; 2]%Z.
Proof. vm_compute. split; reflexivity. Qed.

Example ex_pc_maximal_run :
  exists c, run_strict ex_pc ex_strict = Some c /\ run ex_pc ex_rr = c /\
    forallb (fun t => negb (enabled c t)) (seq 0 5) = true /\
    final c = true /\ qpop (getq c 0) = [1; 3; 2; 4]%Z /\ delivered c = [1; 2; 3; 4]%Z /\
    length ex_strict = mu ex_pc.
Proof. eexists. split; [vm_compute; reflexivity|]. vm_compute. repeat split. Qed.

Example ex_pc_blocked_send : step (run ex_pc [0; 1; 0]) 1 = None /\ blocked (run ex_pc [0; 1; 0]) 1.
Proof.
  split; [vm_compute; reflexivity|].
  eapply BSend; vm_compute; reflexivity.
Qed.

Example ex_pc_blocked_receive : step ex_pc 3 = None /\ blocked ex_pc 3.
Proof. split; [reflexivity|]. eapply BRecv; reflexivity. Qed.

Example ex_pc_blocked_wait : step ex_pc 2 = None /\ blocked ex_pc 2.
Proof. split; [reflexivity|]. eapply BWait; [reflexivity | reflexivity | vm_compute; lia]. Qed.

(* the blocked send resumes after a consumer claimed the token *)
Example ex_pc_send_resumes :
  tph (gett (run ex_pc [0; 1; 0; 3]) 1) = PSend 0 /\
  qtok (getq (run ex_pc [0; 1; 0; 3]) 0) < qcap (getq (run ex_pc [0; 1; 0; 3]) 0) /\
  enabled (run ex_pc [0; 1; 0; 3]) 1 = true.
Proof. vm_compute. repeat split; lia. Qed.

(* a blocked receive resumes after a send *)
Example ex_pc_receive_resumes :
  enabled (run ex_pc [0]) 3 = false /\ enabled (run ex_pc [0; 0]) 3 = true.
Proof. vm_compute. split; reflexivity. Qed.

Example ex_pc_progress : final (run ex_pc [0; 1; 0]) = false /\ deadlocked (run ex_pc [0; 1; 0]) = false.
Proof. vm_compute. split; reflexivity. Qed.

(* the same program with a RemoveAll caller that runs while a producer is blocked on the full
   queue: values 1 and 3 are discarded, 2 and 4 delivered, everything terminates *)
Definition ex_pcd : config := pc_config 1 [[1; 2]; [3; 4]]%Z 2 1.
Example ex_pcd_wf : pc_wf 1 [[1; 2]; [3; 4]]%Z 2 1 ex_pcd.
Proof. apply pc_wf_refl. Qed.
Definition ex_strict_d : list nat :=
  [0; 0; 1; 5; 5; 1; 5; 5; 5; 0; 1; 0; 3; 0; 1; 3; 4; 1; 2; 4; 2; 3; 4].

Example ex_pcd_removeall_while_blocked :
  enabled (run ex_pcd [0; 0; 1]) 1 = false /\ tph (gett (run ex_pcd [0; 0; 1]) 1) = PSend 0 /\
  enabled (run ex_pcd [0; 0; 1; 5; 5]) 1 = true.
Proof. vm_compute. repeat split. Qed.

Example ex_pcd_maximal_run :
  exists c, run_strict ex_pcd ex_strict_d = Some c /\
    forallb (fun t => negb (enabled c t)) (seq 0 6) = true /\
    final c = true /\ qpop (getq c 0) = [1; 3; 2; 4]%Z /\ delivered c = [2; 4]%Z /\
    length ex_strict_d = mu ex_pcd.
Proof. eexists. split; [vm_compute; reflexivity|]. vm_compute. repeat split. Qed.

(* the constant read from queue.go by tools/genparams.py *)
Example ex_default_capacity : (1 <=? Z.to_nat queue_default_capacity) = true.
Proof. reflexivity. Qed.

(* constructors: n = default + 4 initial values need capacity max(default, n) = n (the number itself is whatever
   queue.go says today: no property fixes it) *)
Example ex_ctor :
  let n := Z.to_nat queue_default_capacity + 4 in
  let vs := map Z.of_nat (seq 1 n) in
  length vs = n /\ Nat.max (Z.to_nat queue_default_capacity) n = n /\
  final (run (ctor_config n vs) (repeat 0 (2 * n))) = true /\
  qvals (getq (run (ctor_config n vs) (repeat 0 (2 * n))) 0) = vs.
Proof. vm_compute. repeat split. Qed.

Print Assumptions C05_enabledness.
Print Assumptions C05_send_resumes_when_room_or_closed.
Print Assumptions C05_receive_resumes_when_token_or_closed.
Print Assumptions C05_deadlock_free.
Print Assumptions C05_progress.
Print Assumptions C05_no_goroutine_panics.
Print Assumptions C05_measure_decreases.
Print Assumptions C05_schedule_bound.
Print Assumptions C05_measure_of_program.
Print Assumptions C05_terminates.
Print Assumptions C05_terminates_maximal_run.
Print Assumptions C05_terminal_state.
Print Assumptions C05_values_conserved.
Print Assumptions C05_ctor.
Print Assumptions C05_ctor_refuted_if_unsized.
Print Assumptions C05_ctor_returns_iff_sized.
Print Assumptions C05_ctor_unsized_never_returns.
