(* CatalogRun.v — the executable tie of the code-shaped Catalog (CatalogImpl.v) to the real code:
   the pool histories that the harness generates for C03 (harness/poolgen.go; encoded as PoolRun.hist: op,
   result the implementation returned, objects the implementation changed or created) are replayed on the
   TWO-STRUCTURE machine — a heap of association objects shared by all catalogs of the history, one
   [cat] (id list + key index) per Catalog slot — and every observation is compared with the recorded one.
   The replay does not use the one-list model (Pool.step): operands (key sequences, Go slices and maps, other
   collections) are read from the OBSERVED pool, i.e. from what the implementation itself showed.
   No proofs. *)
From Verif Require Import Base Sorter Value Seq Coll Pool PoolRun CatalogImpl.
Local Open Scope nat_scope.

(* per pool slot: the two-structure state when the slot is a Catalog; the array of association POINTERS when the
   slot is a Go array handed out by AsArray or the snapshot behind an iterator handed out by GetIterator *)
Inductive tracked := TCat (c : cat val) | TArr (ids : list id).

Record istate := {
  i_heap : heap val val;
  i_cats : list (option tracked);
  i_obs : pool                        (* the pool as observed so far *)
}.

Definition cat_at (cs : list (option tracked)) (o : nat) : option (cat val) :=
  match nth o cs None with Some (TCat c) => Some c | _ => None end.
Definition put_cat (cs : list (option tracked)) (o : nat) (c : cat val) : list (option tracked) := set_nth o (Some (TCat c)) cs.

(* the ranking of association objects used by SortValues / SortValuesWithRanker on a Catalog *)
Definition rk_assoc (rk : val -> val -> comparison) (a b : val * val) : comparison :=
  rk (VAssoc (fst a) (snd a)) (VAssoc (fst b) (snd b)).

(* the caller's association objects (a Go array / a sequence of associations) enter the heap *)
Definition alloc_all (h : heap val val) (kvs : list (val * val)) : heap val val * list id :=
  (h ++ kvs, seq (length h) (length kvs)).

(* result of one call on the two-structure machine: new heap, new per-slot states (extended by the created
   object's entry), the call's result, and the created object when it is not a Catalog *)
Definition ires := (heap val val * list (option tracked) * ret * option obj)%type.

Definition of_cat_out {T} (o : out T) (f : T -> option ires) : option ires :=
  match o with Ret x => f x | _ => None end.

Definition new_cat (cs : list (option tracked)) (r : heap val val * cat val) : option ires :=
  Some (fst r, cs ++ [Some (TCat (snd r))], RNew, None).

Definition istep (zero : val) (st : istate) (o : op) : option ires :=
  let h := i_heap st in let cs := i_cats st in let q := i_obs st in
  match o with
  | MakeEmpty CCatalog => Some (h, cs ++ [Some (TCat c_make)], RNew, None)
  | FromArray CCatalog src =>
    match get q src with
    | OSlice l => match vals_assoc l with
                  | Some kvs => let '(h1, ids) := alloc_all h kvs in of_cat_out (c_from_array keq h1 ids) (new_cat cs)
                  | None => None
                  end
    | _ => None
    end
  | FromSeq CCatalog src okeys =>
    match cat_at cs src with
    | Some c => of_cat_out (c_as_array h c) (fun r => of_cat_out (c_from_sequence keq (fst r) (snd r)) (new_cat cs))
    | None =>
      match seq_view (get q src) okeys with
      | Some l => match vals_assoc l with
                  | Some kvs => let '(h1, ids) := alloc_all h kvs in of_cat_out (c_from_sequence keq h1 ids) (new_cat cs)
                  | None => None
                  end
      | None => None
      end
    end
  | FromMap CCatalog src okeys =>
    match get q src with
    | OGoMap m => match reorder m okeys with
                  | Some m' => of_cat_out (c_from_map keq h m') (new_cat cs)
                  | None => None
                  end
    | _ => None
    end
  | Merge a b =>
    match cat_at cs a, cat_at cs b with
    | Some x, Some y => of_cat_out (c_merge keq h x y) (new_cat cs)
    | _, _ => None
    end
  | Extract c keys =>
    match cat_at cs c, seq_plain (get q keys) with
    | Some x, Some ks => of_cat_out (c_extract keq h x ks) (new_cat cs)
    | _, _ => None
    end
  | AGet o k =>
    match cat_at cs o with
    | Some c => of_cat_out (c_get_value zero keq h c k) (fun v => Some (h, cs, RVal v, None))
    | None => None
    end
  | ASet o k v =>
    match cat_at cs o with
    | Some c => of_cat_out (c_set_value keq h c k v) (fun r => Some (fst r, put_cat cs o (snd r), RUnit, None))
    | None => None
    end
  | AKeys o _ =>
    match cat_at cs o with
    | Some c => of_cat_out (c_get_keys h c) (fun l => Some (h, cs ++ [None], RNew, Some (OLst l)))
    | None => None
    end
  | AGetValues o keys =>
    match cat_at cs o, seq_plain (get q keys) with
    | Some c, Some ks => of_cat_out (c_get_values zero keq h c ks) (fun l => Some (h, cs ++ [None], RNew, Some (OLst l)))
    | _, _ => None
    end
  | ARemove o k =>
    match cat_at cs o with
    | Some c => of_cat_out (c_remove_value zero keq h c k) (fun r => Some (h, put_cat cs o (snd r), RVal (fst r), None))
    | None => None
    end
  | ARemoveValues o keys =>
    match cat_at cs o, seq_plain (get q keys) with
    | Some c, Some ks => of_cat_out (c_remove_values zero keq h c ks)
                           (fun r => Some (h, put_cat cs o (snd r) ++ [None], RNew, Some (OLst (fst r))))
    | _, _ => None
    end
  | RemoveAll o =>
    match cat_at cs o with
    | Some c => Some (h, put_cat cs o (c_remove_all c), RUnit, None)
    | None => None
    end
  | SortValues o =>
    match cat_at cs o with
    | Some c => Some (h, put_cat cs o (c_sort (rk_assoc rk_default) h c), RUnit, None)
    | None => None
    end
  | SortWith o rk =>
    match cat_at cs o with
    | Some c => Some (h, put_cat cs o (c_sort (rk_assoc (ranker rk)) h c), RUnit, None)
    | None => None
    end
  | ReverseValues o =>
    match cat_at cs o with
    | Some c => Some (h, put_cat cs o (c_reverse c), RUnit, None)
    | None => None
    end
  | ShuffleValues o rs =>
    match cat_at cs o with
    | Some c => Some (h, put_cat cs o (c_shuffle rs c), RUnit, None)
    | None => None
    end
  | GetSize o =>
    match cat_at cs o with
    | Some c => Some (h, cs, RInt (Z.of_nat (c_get_size c)), None)
    | None => None
    end
  | IsEmpty o =>
    match cat_at cs o with
    | Some c => Some (h, cs, RBool (c_is_empty c), None)
    | None => None
    end
  | AsArray o _ =>
    match cat_at cs o with
    | Some c => of_cat_out (c_as_array h c) (fun r =>
                of_cat_out (read_all (fst r) (snd r)) (fun ps => Some (fst r, cs ++ [Some (TArr (snd r))], RNew, Some (OSlice (assoc_vals ps)))))
    | None => None
    end
  | GetIterator o _ =>
    match cat_at cs o with
    | Some c => of_cat_out (c_get_iterator h c) (fun r =>
                of_cat_out (drain (S (it_size (snd r))) (fst r) (snd r)) (fun ps => Some (fst r, cs ++ [Some (TArr (it_vals (snd r)))], RNew, Some (OIter VNil (assoc_vals ps) 0))))
    | None => None
    end
  | ARemoveValuesBad o ks =>
    (* the keys before the unhashable one are removed one by one from BOTH structures; no object is created *)
    match cat_at cs o with
    | Some c => of_cat_out (c_remove_values zero keq h c ks) (fun r => Some (h, put_cat cs o (snd r), RPartial, None))
    | None => None
    end
  | FromMapV CCatalog src opairs =>
    match get q src with
    | OGoMap m => if pairs_perm m opairs then of_cat_out (c_from_map keq h opairs) (new_cat cs) else None
    | _ => None
    end
  | AssocSet sl i v =>
    (* the caller writes through the association OBJECT at position i of a Go array handed out by AsArray:
       the object is a heap cell, so every structure that holds the same pointer would show the new value *)
    match nth sl cs None with
    | Some (TArr ids) =>
      match nth_error ids i with
      | Some a => match h_get h a with
                  | Some _ => Some (h_set_value h a v, cs, RUnit, None)
                  | None => None
                  end
      | None => None
      end
    | _ => None
    end
  | _ => None
  end.

(* every tracked Catalog, read through the heap, is what the implementation shows for that slot *)
Definition cats_match (h : heap val val) (cs : list (option tracked)) (q : pool) : bool :=
  forallb (fun s =>
    match nth s cs None with
    | Some (TCat c) => match read_all h (c_assocs c) with
                       | Ret ps => obj_eqb (OCat ps) (nth s q ODead)
                       | _ => false
                       end
    | Some (TArr ids) =>     (* what a handed-out array / iterator yields NOW, read through the heap *)
      match read_all h ids, nth s q ODead with
      | Ret ps, OSlice l => vlist_eqb (assoc_vals ps) l
      | Ret ps, OIter _ l _ => vlist_eqb (assoc_vals ps) l
      | _, _ => false
      end
    | None => true
    end) (seq 0 (length cs)).

(* a Catalog that the replay does not track (created by an op the replay does not model) would go unchecked:
   count them, so that the harness can report the coverage *)
Definition untracked (cs : list (option tracked)) (q : pool) : nat :=
  length (filter (fun s => match nth s cs None, nth s q ODead with None, OCat _ => true | _, _ => false end) (seq 0 (length q))).

Definition pad (cs : list (option tracked)) (n : nat) : list (option tracked) :=
  cs ++ repeat None (n - length cs).
(* the caller overwrites an element of a Go array it was handed: the array no longer holds that pointer *)
Definition caller_write (cs : list (option tracked)) (o : op) : list (option tracked) :=
  match o with SliceSet s _ _ | AssocSet s _ _ | SortSlice s _ => set_nth s None cs | _ => cs end.

(* a call that the two-structure machine would answer although the receiver is a Catalog it should track *)
Definition catalog_op_unhandled (st : istate) (o : op) : bool :=
  match o with
  | AGet r _ | ASet r _ _ | AKeys r _ | AGetValues r _ | ARemove r _ | ARemoveValues r _ | ARemoveValuesBad r _ | RemoveAll r
  | SortValues r | SortWith r _ | ReverseValues r | ShuffleValues r _ | GetSize r | IsEmpty r | AsArray r _ | GetIterator r _ =>
    match get (i_obs st) r with OCat _ => true | _ => false end
  | MakeEmpty CCatalog | FromArray CCatalog _ | FromSeq CCatalog _ _ | FromMap CCatalog _ _ | FromMapV CCatalog _ _ | Merge _ _ | Extract _ _ => true
  | _ => false
  end.

Definition failing_ret (r : ret) : bool := match r with RPanic | RHang | RBad => true | _ => false end.

Fixpoint check_cat_steps (zero : val) (st : istate) (steps : list pstep) (k : nat) : option nat :=
  match steps with
  | [] => None
  | s :: rest =>
    let q' := apply_diff (i_obs st) (ps_diff s) in
    match istep zero st (ps_op s) with
    | Some (h', cs', r, newobj) =>
      if ret_eqb r (ps_ret s) &&
         match newobj with Some o => obj_eqb o (nth (length (i_obs st)) q' ODead) | None => true end &&
         Nat.eqb (length cs') (length q') && cats_match h' cs' q'
      then check_cat_steps zero {| i_heap := h'; i_cats := cs'; i_obs := q' |} rest (S k)
      else Some k
    | None =>
      (* not a Catalog call (or a Catalog call the implementation refused): the Catalogs must be untouched *)
      let cs' := pad (caller_write (i_cats st) (ps_op s)) (length q') in
      if (negb (catalog_op_unhandled st (ps_op s)) || failing_ret (ps_ret s)) && cats_match (i_heap st) cs' q' && Nat.eqb (untracked cs' q') 0
      then check_cat_steps zero {| i_heap := i_heap st; i_cats := cs'; i_obs := q' |} rest (S k)
      else Some k
    end
  end.

Definition check_cat (h : hist) : option nat :=
  check_cat_steps (h_zero h) {| i_heap := []; i_cats := []; i_obs := [] |} (h_steps h) 0.

(* both machines against the observations: the one-list model first (PoolRun.check_hist), then the
   two-structure machine; the second number is the index of the first step that disagrees *)
Fixpoint mismatches_both_from (n : nat) (cases : list hist) : list (nat * nat) :=
  match cases with
  | [] => []
  | h :: t =>
    match check_hist h with
    | Some k => (n, k) :: mismatches_both_from (S n) t
    | None =>
      (* the two-structure machine reads operands from the OBSERVED pool: it replays the histories in which
         every object was observed in every step (the others are checked by the one-list model only) *)
      match (if fully_observed h then check_cat h else None) with
      | Some k => (n, k) :: mismatches_both_from (S n) t
      | None => mismatches_both_from (S n) t
      end
    end
  end.
Definition mismatches_both (cases : list hist) : list (nat * nat) := mismatches_both_from 0 cases.

(* for replay files: the state of the two-structure machine before a step, what it answers, and the
   observation *)
Fixpoint cat_state_after (zero : val) (st : istate) (steps : list pstep) : istate :=
  match steps with
  | [] => st
  | s :: rest =>
    let q' := apply_diff (i_obs st) (ps_diff s) in
    match istep zero st (ps_op s) with
    | Some (h', cs', _, _) => cat_state_after zero {| i_heap := h'; i_cats := cs'; i_obs := q' |} rest
    | None => cat_state_after zero {| i_heap := i_heap st; i_cats := pad (caller_write (i_cats st) (ps_op s)) (length q'); i_obs := q' |} rest
    end
  end.

Definition both_report (h : hist) (k : nat) :=
  let before := pool_after (h_zero h) [] (firstn k (map ps_op (h_steps h))) in
  let s := nth k (h_steps h) {| ps_op := IsEmpty 0; ps_ret := RBad; ps_diff := []; ps_skip := [] |} in
  let st := cat_state_after (h_zero h) {| i_heap := []; i_cats := []; i_obs := [] |} (firstn k (h_steps h)) in
  (check_hist h, check_cat h,
   hist_report h k, fully_observed h,
   (i_heap st, i_cats st), option_map (fun r : ires => (fst (fst (fst r)), snd (fst (fst r)), snd (fst r), snd r)) (istep (h_zero h) st (ps_op s)), ps_ret s, ps_diff s).

(* statistics for the meta file: calls answered by the two-structure machine *)
Fixpoint handled_steps (zero : val) (st : istate) (steps : list pstep) : nat :=
  match steps with
  | [] => 0
  | s :: rest =>
    let q' := apply_diff (i_obs st) (ps_diff s) in
    match istep zero st (ps_op s) with
    | Some (h', cs', _, _) => S (handled_steps zero {| i_heap := h'; i_cats := cs'; i_obs := q' |} rest)
    | None => handled_steps zero {| i_heap := i_heap st; i_cats := pad (caller_write (i_cats st) (ps_op s)) (length q'); i_obs := q' |} rest
    end
  end.
Definition handled_total (cases : list hist) : nat :=
  fold_right (fun h acc => handled_steps (h_zero h) {| i_heap := []; i_cats := []; i_obs := [] |} (h_steps h) + acc) 0 cases.
