(* FormatProofs.v — lemmas about the formatter model (Formatter.v) and its specification
   functions (FormatSpec.v).  The property file C10.v restates the main ones. *)
From Coq Require Import String Ascii.
From Verif Require Import Base Value Formatter FormatSpec.
Open Scope Z_scope.

(* ---------- an induction principle for val that reaches into the lists ---------- *)
Section ValInd.
Variable P : val -> Prop.
Hypothesis HNil : P VNil.
Hypothesis HNilSlice : P VNilSlice.
Hypothesis HNilMap : P VNilMap.
Hypothesis HBool : forall b, P (VBool b).
Hypothesis HInt : forall w z, P (VInt w z).
Hypothesis HUint : forall w z, P (VUint w z).
Hypothesis HByte : forall z, P (VByte z).
Hypothesis HRune : forall z, P (VRune z).
Hypothesis HFloat : forall w b, P (VFloat w b).
Hypothesis HComplex : forall w a b c d, P (VComplex w a b c d).
Hypothesis HStr : forall s, P (VStr s).
Hypothesis HPtr : forall i x, P (VPtr i x).
Hypothesis HSeq : forall k l, Forall P l -> P (VSeq k l).
Hypothesis HAssoc : forall k x, P k -> P x -> P (VAssoc k x).
Hypothesis HMapping : forall k ks vs, Forall P ks -> Forall P vs -> P (VMapping k ks vs).

Fixpoint val_ind2 (v : val) : P v :=
  let fix all (l : list val) : Forall P l :=
    match l with
    | [] => Forall_nil P
    | x :: t => Forall_cons x (val_ind2 x) (all t)
    end in
  match v with
  | VNil => HNil
  | VNilSlice => HNilSlice
  | VNilMap => HNilMap
  | VBool b => HBool b
  | VInt w z => HInt w z
  | VUint w z => HUint w z
  | VByte z => HByte z
  | VRune z => HRune z
  | VFloat w b => HFloat w b
  | VComplex w a b c d => HComplex w a b c d
  | VStr s => HStr s
  | VPtr i x => HPtr i x
  | VSeq k l => HSeq k l (all l)
  | VAssoc k x => HAssoc k x (val_ind2 k) (val_ind2 x)
  | VMapping k ks vs => HMapping k ks vs (all ks) (all vs)
  end.
End ValInd.

(* ---------- the state operations ---------- *)
Lemma app_str_app a b st : app_str b (app_str a st) = app_str (a ++ b) st.
Proof.
  unfold app_str; simpl. f_equal.
  rewrite !rev_append_rev, rev_app_distr, app_assoc. reflexivity.
Qed.
Lemma app_str_nil st : app_str [] st = st.
Proof. destruct st; reflexivity. Qed.
Lemma app_str_depth s st : fs_depth (app_str s st) = fs_depth st.
Proof. reflexivity. Qed.
Lemma app_str_nest s st : fs_nest (app_str s st) = fs_nest st.
Proof. reflexivity. Qed.
Lemma set_depth_app d s st : set_depth d (app_str s st) = app_str s (set_depth d st).
Proof. reflexivity. Qed.
Lemma set_nest_app n s st : set_nest n (app_str s st) = app_str s (set_nest n st).
Proof. reflexivity. Qed.
Lemma set_depth_same st : set_depth (fs_depth st) st = st.
Proof. destruct st; reflexivity. Qed.
Lemma set_nest_same st : set_nest (fs_nest st) st = st.
Proof. destruct st; reflexivity. Qed.
Lemma set_depth_twice a b st : set_depth a (set_depth b st) = set_depth a st.
Proof. reflexivity. Qed.
Lemma set_nest_twice a b st : set_nest a (set_nest b st) = set_nest a st.
Proof. reflexivity. Qed.

Lemma newline_depth st : fs_depth (newline st) = fs_depth st.
Proof. reflexivity. Qed.
Lemma newline_nest st : fs_nest (newline st) = fs_nest st.
Proof. reflexivity. Qed.

Lemma render_app a b : render (a ++ b) = render a ++ render b.
Proof. unfold render. apply flat_map_app. Qed.
Lemma render_nl d : render (nl_toks d) = 10 :: indent d.
Proof. destruct d; unfold render; simpl; rewrite ?app_nil_r; reflexivity. Qed.
Lemma newline_app st : newline st = app_str (render (nl_toks (fs_depth st))) st.
Proof. rewrite render_nl. reflexivity. Qed.

(* ---------- the formatter writes exactly the rendering of the token list ---------- *)
Section Spec.
Variable ftext : Z -> list Z.
Variable printable : Z -> bool.
Variable maximum : nat.

Notation fvalue := (fvalue ftext printable maximum).
Notation tokens_at := (tokens_at ftext printable maximum).

(* what a run of the code-shaped model has to do to agree with the token view *)
Definition agrees (r : fstate * bool) (st : fstate) (ts : option (list ftoken)) : Prop :=
  match ts with
  | Some t => r = (app_str (render t) st, true)
  | None => snd r = false
  end.

Definition good (v : val) : Prop :=
  forall st, agrees (fvalue v st) st (tokens_at (fs_depth st) (fs_nest st) v).

Lemma leaf_token_text v :
  intrinsic_text ftext printable v = option_map tk_text (leaf_token ftext printable v).
Proof. destruct v; reflexivity. Qed.

Lemma fassoc_good k x : good x ->
  forall st, agrees (fassoc ftext printable fvalue k x st) st
                    (tassoc ftext printable tokens_at (fs_depth st) (fs_nest st) k x).
Proof.
  intros Hx st. unfold fassoc, tassoc. rewrite leaf_token_text.
  destruct (leaf_token ftext printable k) as [kt|]; simpl.
  2: reflexivity.
  specialize (Hx (app_str [58; 32] (app_str (tk_text kt) st))).
  rewrite !app_str_depth, !app_str_nest in Hx.
  destruct (tokens_at (fs_depth st) (fs_nest st) x) as [vt|]; simpl in *.
  2: exact Hx.
  rewrite Hx, !app_str_app. unfold render; simpl. rewrite <- ?app_assoc; reflexivity.
Qed.

Lemma lines_good l : Forall good l ->
  forall st, agrees (lines fvalue l st) st (tlines tokens_at (fs_depth st) (fs_nest st) l).
Proof.
  induction 1 as [|x t Hx Ht IH]; intros st; simpl.
  - rewrite app_str_nil. reflexivity.
  - specialize (Hx (newline st)). rewrite newline_depth, newline_nest in Hx.
    destruct (tokens_at (fs_depth st) (fs_nest st) x) as [a|]; simpl in *.
    + rewrite Hx. specialize (IH (app_str (render a) (newline st))).
      rewrite !app_str_depth, !app_str_nest, newline_depth, newline_nest in IH.
      destruct (tlines tokens_at (fs_depth st) (fs_nest st) t) as [b|]; simpl in *.
      * rewrite IH, newline_app, !app_str_app, !render_app, <- ?app_assoc. reflexivity.
      * exact IH.
    + destruct (fvalue x (newline st)) as [s1 ok]; simpl in *. subst ok. reflexivity.
Qed.

Lemma alines_good vs : Forall good vs ->
  forall ks st, agrees (alines ftext printable fvalue ks vs st) st
                       (talines ftext printable tokens_at (fs_depth st) (fs_nest st) ks vs).
Proof.
  induction 1 as [|x t Hx Ht IH]; intros ks st; simpl.
  - rewrite app_str_nil. reflexivity.
  - pose proof (fassoc_good (hd VNil ks) x Hx (newline st)) as Ha.
    rewrite newline_depth, newline_nest in Ha.
    destruct (tassoc ftext printable tokens_at (fs_depth st) (fs_nest st) (hd VNil ks) x) as [a|]; simpl in *.
    + rewrite Ha. specialize (IH (tl ks) (app_str (render a) (newline st))).
      rewrite !app_str_depth, !app_str_nest, newline_depth, newline_nest in IH.
      destruct (talines ftext printable tokens_at (fs_depth st) (fs_nest st) (tl ks) t) as [b|]; simpl in *.
      * rewrite IH, newline_app, !app_str_app, !render_app, <- ?app_assoc. reflexivity.
      * exact IH.
    + destruct (fassoc ftext printable fvalue (hd VNil ks) x (newline st)) as [s1 ok]; simpl in *. subst ok. reflexivity.
Qed.

Lemma fitems_good l : Forall good l ->
  forall st, agrees (fitems maximum fvalue l st) st
                    (titems maximum tokens_at (fs_depth st) (fs_nest st) l).
Proof.
  intros Hl st. unfold fitems, titems.
  destruct (maximum <? fs_nest st)%nat; [reflexivity|].
  destruct l as [|x [|y t]].
  - reflexivity.
  - inversion Hl as [|? ? Hx _]; subst. apply Hx.
  - pose proof (lines_good _ Hl (set_depth (S (fs_depth st)) st)) as H.
    change (fs_depth (set_depth (S (fs_depth st)) st)) with (S (fs_depth st)) in H.
    change (fs_nest (set_depth (S (fs_depth st)) st)) with (fs_nest st) in H.
    cbv beta iota zeta.
    destruct (tlines tokens_at (S (fs_depth st)) (fs_nest st) (x :: y :: t)) as [b|]; unfold agrees in *.
    + rewrite H. cbv beta iota. unfold option_map.
      rewrite set_depth_app, set_depth_twice, set_depth_same, newline_app, app_str_depth, app_str_app, render_app.
      reflexivity.
    + destruct (lines fvalue (x :: y :: t) (set_depth (S (fs_depth st)) st)) as [s1 ok].
      cbn [snd] in H. subst ok. reflexivity.
Qed.

Lemma fentries_good vs : Forall good vs ->
  forall ks st, agrees (fentries ftext printable maximum fvalue ks vs st) st
                       (tentries ftext printable maximum tokens_at (fs_depth st) (fs_nest st) ks vs).
Proof.
  intros Hl ks st. unfold fentries, tentries.
  destruct (maximum <? fs_nest st)%nat; [reflexivity|].
  destruct vs as [|x [|y t]].
  - reflexivity.
  - inversion Hl as [|? ? Hx _]; subst. apply fassoc_good, Hx.
  - pose proof (alines_good _ Hl ks (set_depth (S (fs_depth st)) st)) as H.
    change (fs_depth (set_depth (S (fs_depth st)) st)) with (S (fs_depth st)) in H.
    change (fs_nest (set_depth (S (fs_depth st)) st)) with (fs_nest st) in H.
    cbv beta iota zeta.
    destruct (talines ftext printable tokens_at (S (fs_depth st)) (fs_nest st) ks (x :: y :: t)) as [b|]; unfold agrees in *.
    + rewrite H. cbv beta iota. unfold option_map.
      rewrite set_depth_app, set_depth_twice, set_depth_same, newline_app, app_str_depth, app_str_app, render_app.
      reflexivity.
    + destruct (alines ftext printable fvalue ks (x :: y :: t) (set_depth (S (fs_depth st)) st)) as [s1 ok].
      cbn [snd] in H. subst ok. reflexivity.
Qed.

Lemma fcoll_good (body : fstate -> fstate * bool) (tb : nat -> nat -> option (list ftoken)) ty :
  (forall st, agrees (body st) st (tb (fs_depth st) (fs_nest st))) ->
  forall st, agrees (fcoll body ty st) st (tcoll (tb (fs_depth st) (S (fs_nest st))) ty).
Proof.
  intros Hb st. unfold fcoll, tcoll.
  specialize (Hb (set_nest (S (fs_nest st)) (app_str [91] st))). simpl fs_depth in Hb. simpl fs_nest in Hb.
  destruct (tb (fs_depth st) (S (fs_nest st))) as [b|]; simpl in *.
  - rewrite Hb. rewrite set_nest_app, set_nest_twice, set_nest_app, set_nest_same, !app_str_app.
    unfold render; simpl. rewrite flat_map_app; simpl.
    rewrite <- ?app_assoc; reflexivity.
  - destruct (body (set_nest (S (fs_nest st)) (app_str [91] st))) as [s1 ok]; simpl in *. subst ok. reflexivity.
Qed.

Theorem fvalue_good : forall v, good v.
Proof.
  induction v as [ | | | bo | w z | w z | z | z | w bits | w re im ab ph | s | i x | kd l IHl | key x IHkey IHx | kd ks vs IHks IHvs ] using val_ind2; intros st;
    try (simpl; unfold render; simpl; rewrite ?app_nil_r, ?app_str_nil; reflexivity).
  - (* VNilSlice *) simpl fvalue. simpl tokens_at.
    apply (fcoll_good (fitems maximum fvalue []) (fun d n => titems maximum tokens_at d n [])).
    intros s. apply fitems_good. constructor.
  - (* VNilMap *) simpl fvalue. simpl tokens_at.
    apply (fcoll_good (fentries ftext printable maximum fvalue [] []) (fun d n => tentries ftext printable maximum tokens_at d n [] [])).
    intros s. apply fentries_good. constructor.
  - (* VSeq *) simpl fvalue. simpl tokens_at.
    apply (fcoll_good (fitems maximum fvalue l) (fun d n => titems maximum tokens_at d n l)).
    intros s. apply fitems_good. assumption.
  - (* VAssoc *) simpl fvalue. simpl tokens_at. apply fassoc_good. exact IHx.
  - (* VMapping *) simpl fvalue. simpl tokens_at.
    apply (fcoll_good (fentries ftext printable maximum fvalue ks vs) (fun d n => tentries ftext printable maximum tokens_at d n ks vs)).
    intros s. apply fentries_good. assumption.
Qed.

(* ---------- consequences for the public call ---------- *)
Definition out_of_tokens (ts : option (list ftoken)) : out (list Z) :=
  match ts with Some t => Ret (render t) | None => Panic end.

Lemma format_value_reset st v :
  fst (format_value ftext printable maximum true st v) = out_of_tokens (tokens_of ftext printable maximum v)
  /\ (is_ret (fst (format_value ftext printable maximum true st v)) = true ->
      snd (format_value ftext printable maximum true st v) = fs_init).
Proof.
  unfold format_value, tokens_of.
  pose proof (fvalue_good v fs_init) as H. simpl fs_depth in H. simpl fs_nest in H.
  destruct (tokens_at 0 0 v) as [ts|]; simpl in *.
  - rewrite H. simpl. split; [|reflexivity].
    rewrite render_app. simpl. unfold app_str. simpl.
    rewrite rev_append_rev, app_nil_r, rev_involutive. reflexivity.
  - destruct (fvalue v fs_init) as [s1 ok]; simpl in *. subst ok. simpl. split; [reflexivity|discriminate].
Qed.

Theorem format0_tokens v :
  format0 ftext printable maximum v = out_of_tokens (tokens_of ftext printable maximum v).
Proof. unfold format0. apply (proj1 (format_value_reset fs_init v)). Qed.

Theorem format_value_text st v :
  fst (format_value ftext printable maximum true st v) = format0 ftext printable maximum v.
Proof. rewrite format0_tokens. apply (proj1 (format_value_reset st v)). Qed.

Theorem format_value_returns_to_init st v t st' :
  format_value ftext printable maximum true st v = (Ret t, st') -> st' = fs_init.
Proof.
  intros H. pose proof (proj2 (format_value_reset st v)) as H2. rewrite H in H2. simpl in H2.
  symmetry. symmetry in H2. rewrite H2; reflexivity.
Qed.

Theorem format_calls_independent vs : forall st,
  format_calls ftext printable maximum true st vs = map (format0 ftext printable maximum) vs.
Proof.
  induction vs as [|v t IH]; intros st; simpl; [reflexivity|].
  pose proof (format_value_text st v) as H.
  destruct (format_value ftext printable maximum true st v) as [o st1]; simpl in *.
  rewrite H, IH. reflexivity.
Qed.

(* totality: the model has no fuel; every call ends as Ret or Panic, and which one is decided by
   the token view *)
Theorem format0_not_hang v : format0 ftext printable maximum v <> Hang.
Proof. rewrite format0_tokens. destruct (tokens_of ftext printable maximum v); discriminate. Qed.

(* ---------- elision: nothing below the limit is looked at ---------- *)
Lemma tlines_ext (f g : nat -> nat -> val -> option (list ftoken)) l l' d n :
  Forall2 (fun x y => f d n x = g d n y) l l' ->
  tlines f d n l = tlines g d n l'.
Proof. induction 1 as [|x y t t' Hxy Ht IH]; simpl; [reflexivity|]. rewrite Hxy, IH. reflexivity. Qed.

Definition same_keys (ks ks' : list val) : Prop :=
  forall i, leaf_token ftext printable (nth i ks VNil) = leaf_token ftext printable (nth i ks' VNil).

Lemma same_keys_hd ks ks' : same_keys ks ks' ->
  leaf_token ftext printable (hd VNil ks) = leaf_token ftext printable (hd VNil ks').
Proof. intros H. specialize (H O). destruct ks, ks'; exact H. Qed.
Lemma same_keys_tl ks ks' : same_keys ks ks' -> same_keys (tl ks) (tl ks').
Proof.
  intros H i. specialize (H (S i)).
  destruct ks, ks'; simpl in *; try exact H; destruct i; exact H.
Qed.
Lemma same_keys_refl ks : same_keys ks ks.
Proof. intros i; reflexivity. Qed.

Lemma talines_ext (f g : nat -> nat -> val -> option (list ftoken)) vs vs' d n :
  Forall2 (fun x y => f d n x = g d n y) vs vs' ->
  forall ks ks', same_keys ks ks' ->
  talines ftext printable f d n ks vs = talines ftext printable g d n ks' vs'.
Proof.
  induction 1 as [|x y t t' Hxy Ht IH]; intros ks ks' Hk; simpl; [reflexivity|].
  unfold tassoc. rewrite Hxy, (same_keys_hd _ _ Hk), (IH _ _ (same_keys_tl _ _ Hk)). reflexivity.
Qed.

Lemma Forall2_weaken {A B} (R1 R2 : A -> B -> Prop) l l' :
  (forall a b, R1 a b -> R2 a b) -> Forall2 R1 l l' -> Forall2 R2 l l'.
Proof. intros H. induction 1; constructor; auto. Qed.

Lemma titems_ext (f g : nat -> nat -> val -> option (list ftoken)) l l' d n :
  Forall2 (fun x y => forall d', f d' n x = g d' n y) l l' ->
  titems maximum f d n l = titems maximum g d n l'.
Proof.
  intros H. unfold titems. destruct (maximum <? n)%nat; [reflexivity|].
  destruct H as [|x y t t' Hxy Ht]; [reflexivity|].
  destruct Ht as [|x2 y2 t2 t2' Hxy2 Ht2].
  - apply Hxy.
  - cbv beta iota. f_equal. apply tlines_ext.
    constructor; [apply Hxy|]. constructor; [apply Hxy2|].
    eapply Forall2_weaken; [|exact Ht2]. intros a b Hab; apply Hab.
Qed.

Lemma tentries_ext (f g : nat -> nat -> val -> option (list ftoken)) vs vs' ks ks' d n :
  Forall2 (fun x y => forall d', f d' n x = g d' n y) vs vs' -> same_keys ks ks' ->
  tentries ftext printable maximum f d n ks vs = tentries ftext printable maximum g d n ks' vs'.
Proof.
  intros H Hk. unfold tentries. destruct (maximum <? n)%nat; [reflexivity|].
  destruct H as [|x y t t' Hxy Ht]; [reflexivity|].
  destruct Ht as [|x2 y2 t2 t2' Hxy2 Ht2].
  - unfold tassoc. rewrite Hxy, (same_keys_hd _ _ Hk). reflexivity.
  - cbv beta iota. f_equal. apply talines_ext; [|exact Hk].
    constructor; [apply Hxy|]. constructor; [apply Hxy2|].
    eapply Forall2_weaken; [|exact Ht2]. intros a b Hab; apply Hab.
Qed.

Lemma Forall2_map_r {A B} (R : A -> B -> Prop) (f : A -> B) l :
  Forall (fun x => R x (f x)) l -> Forall2 R l (map f l).
Proof. induction 1; simpl; constructor; assumption. Qed.

Lemma Forall_impl' {A} (P Q : A -> Prop) l : Forall P l -> (forall x, P x -> Q x) -> Forall Q l.
Proof. intros H HPQ. eapply Forall_impl; eauto. Qed.

Lemma tokens_prune : forall v d n k, (n + k = maximum)%nat ->
  tokens_at d n (prune k v) = tokens_at d n v.
Proof.
  induction v as [ | | | bo | w z | w z | z | z | w bits | w re im ab ph | s | i x | kd l IHl | key x IHkey IHx | kd ks vs IHks IHvs ] using val_ind2;
    intros d n k Hk; try reflexivity.
  - (* VSeq *) simpl. destruct k as [|k'].
    + simpl. unfold titems. replace (maximum <? S n)%nat with true; [reflexivity|].
      symmetry. apply Nat.ltb_lt. lia.
    + simpl. f_equal. symmetry. apply titems_ext.
      apply Forall2_map_r. eapply Forall_impl'; [exact IHl|].
      intros x Hx d'. symmetry. apply Hx. lia.
  - (* VAssoc *) simpl. unfold tassoc. rewrite IHx by assumption. reflexivity.
  - (* VMapping *) simpl. destruct k as [|k'].
    + simpl. unfold tentries. replace (maximum <? S n)%nat with true; [reflexivity|].
      symmetry. apply Nat.ltb_lt. lia.
    + simpl. f_equal. symmetry. apply tentries_ext; [|apply same_keys_refl].
      apply Forall2_map_r. eapply Forall_impl'; [exact IHvs|].
      intros x Hx d'. symmetry. apply Hx. lia.
Qed.

Theorem format0_prune v :
  format0 ftext printable maximum (prune maximum v) = format0 ftext printable maximum v.
Proof.
  rewrite !format0_tokens. unfold tokens_of. rewrite tokens_prune by reflexivity. reflexivity.
Qed.

(* a collection enclosed by [maximum] collections is written as [...](Type), whatever it holds *)
Theorem elided_seq k l d n : (maximum <= n)%nat ->
  tokens_at d n (VSeq k l) =
  Some (delim 91 :: tok TElision [46; 46; 46] :: ctx_toks (seq_type k)).
Proof.
  intros Hn. simpl. unfold titems. replace (maximum <? S n)%nat with true; [reflexivity|].
  symmetry. apply Nat.ltb_lt. lia.
Qed.
Theorem elided_mapping k ks vs d n : (maximum <= n)%nat ->
  tokens_at d n (VMapping k ks vs) =
  Some (delim 91 :: tok TElision [46; 46; 46] :: ctx_toks (map_type k)).
Proof.
  intros Hn. simpl. unfold tentries. replace (maximum <? S n)%nat with true; [reflexivity|].
  symmetry. apply Nat.ltb_lt. lia.
Qed.

(* ---------- the text does not depend on numeric widths ---------- *)
Lemma leaf_token_widen k : leaf_token ftext printable (widen k) = leaf_token ftext printable k.
Proof. destruct k; reflexivity. Qed.

Lemma same_keys_widen ks : same_keys (map widen ks) ks.
Proof.
  intros i. change VNil with (widen VNil) at 1. rewrite map_nth. apply leaf_token_widen.
Qed.

Lemma tokens_widen : forall v d n, tokens_at d n (widen v) = tokens_at d n v.
Proof.
  induction v as [ | | | bo | w z | w z | z | z | w bits | w re im ab ph | s | i x | kd l IHl | key x IHkey IHx | kd ks vs IHks IHvs ] using val_ind2;
    intros d n; try reflexivity.
  - (* VSeq *) simpl. f_equal. symmetry. apply titems_ext.
    apply Forall2_map_r. eapply Forall_impl'; [exact IHl|].
    intros x Hx d'. symmetry. apply Hx.
  - (* VAssoc *) simpl. unfold tassoc. rewrite leaf_token_widen, IHx. reflexivity.
  - (* VMapping *) simpl. f_equal. symmetry. apply tentries_ext.
    + apply Forall2_map_r. eapply Forall_impl'; [exact IHvs|].
      intros x Hx d'. symmetry. apply Hx.
    + intros i. symmetry. apply same_keys_widen.
Qed.

Theorem format0_widen v :
  format0 ftext printable maximum (widen v) = format0 ftext printable maximum v.
Proof. rewrite !format0_tokens. unfold tokens_of. rewrite tokens_widen. reflexivity. Qed.

End Spec.

(* ---------- self-containing values: the text of an unfolding does not depend on the cut-off ---------- *)
Fixpoint selfnest (k : skind) (n : nat) : val :=
  match n with
  | O => VNil
  | S m => VSeq k [selfnest k m]
  end.

Lemma prune_selfnest k : forall mx n m, (mx < n)%nat -> (mx < m)%nat ->
  prune mx (selfnest k n) = prune mx (selfnest k m).
Proof.
  induction mx as [|mx IH]; intros [|n] [|m] Hn Hm; try lia; simpl; [reflexivity|].
  rewrite (IH n m) by lia. reflexivity.
Qed.

Theorem selfnest_stable ftext printable mx k n m : (mx < n)%nat -> (mx < m)%nat ->
  format0 ftext printable mx (selfnest k n) = format0 ftext printable mx (selfnest k m).
Proof.
  intros Hn Hm. rewrite <- (format0_prune _ _ _ (selfnest k n)), <- (format0_prune _ _ _ (selfnest k m)).
  rewrite (prune_selfnest k mx n m) by assumption. reflexivity.
Qed.

(* ---------- D13 on the pinned tree: without the reset a failed call leaks into the next ---------- *)
Definition d13_bad : val := VSeq KList [VInt 64 1; VInt 64 2; VPtr 1 1].
Theorem format_after_failure_refuted :
  exists v1 v2, nth 1 (format_calls (fun _ => []) (fun _ => true) 8 false fs_init [v1; v2]) Hang
                <> format0 (fun _ => []) (fun _ => true) 8 v2.
Proof. exists d13_bad, (VInt 64 5). vm_compute. discriminate. Qed.
