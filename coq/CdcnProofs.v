(* CdcnProofs.v — source-level theorems about ParseSource = parse (lex source): totality,
   located diagnostics, exact literals, dependence on the token sequence only.
   Combines LexerProofs (the scanner model) and ParserProofs (the parser model). *)
From Coq Require Import String.
From Verif Require Import Base Params Value Coll Lexer Literals Parser LexerProofs ParserProofs LexBridge.
Close Scope string_scope.
Close Scope Z_scope.

(* ---------- what lex_total gives the parser ---------- *)
Lemma well_ended_split ts :
  well_ended ts -> exists body e, ts = body ++ [e] /\ ttype_of e = TEOF /\ Forall (fun t => ttype_of t <> TEOF) body.
Proof.
  intro W. destruct W as [body e Hb He | body x e Hb Hx He _ _].
  - exists body, e. repeat split; auto.
    eapply Forall_impl; [|exact Hb]. intros t (H & _). exact H.
  - exists (body ++ [x]), e. rewrite <- app_assoc. repeat split; auto.
    apply Forall_app. split.
    + eapply Forall_impl; [|exact Hb]. intros t (H & _). exact H.
    + constructor; auto. congruence.
Qed.

Lemma lex_has_eof src : has_eof (lex src).
Proof.
  destruct (well_ended_split _ (lex_total src)) as (body & e & E & He & _).
  exists e. split; auto. rewrite E. apply in_or_app. right. left. reflexivity.
Qed.

Lemma lex_valid_types src t : In t (lex src) -> ttype_of t = TType -> valid_type (tval t).
Proof. intros H Ty. unfold valid_type. eapply lex_types_ok; eauto. Qed.

Section Source.
Variable fparse : list Z -> option Z.
Variable crank : val -> val -> option comparison.

(* C12 parse_total: for every source the outcome is a value or a diagnostic about a token of
   the stream (since fix 37 also when the Set constructor's collator panics: the diagnostic
   names the type token): never out of fuel, never a push-back overflow, never reading behind EOF *)
Theorem parse_total src :
  match parse_source fparse crank src with
  | PValue _ => True
  | PSyntax t => In t (lex src)
  | _ => False
  end.
Proof.
  unfold parse_source. apply parse_total_tokens.
  - apply lex_has_eof.
  - intros t. apply lex_valid_types.
Qed.

(* the statement asked for, for EVERY collator: a value or a diagnostic *)
Theorem parse_total_strict src :
  is_value (parse_source fparse crank src) = true \/ is_syntax (parse_source fparse crank src) = true.
Proof.
  pose proof (parse_total src) as S.
  destruct (parse_source fparse crank src) as [v|t|k|]; simpl; auto; contradiction.
Qed.

Theorem pushback_bound src : parse_source fparse crank src <> PRuntime RPushOverflow.
Proof. apply pushback_bound_tokens. Qed.

Theorem never_out_of_fuel src : parse_source fparse crank src <> POutOfFuel.
Proof. apply never_out_of_fuel_tokens. Qed.

(* C12 diagnostic_located: the token a diagnostic names is a token the scanner produced, at
   some rune offset k of the source, and its line / position are 1 + the number of newlines
   before that offset / 1 + the number of runes since the last newline *)
Theorem diagnostic_located src t :
  parse_source fparse crank src = PSyntax t ->
  exists k, In (k, t) (lex_off src) /\ (k <= length src)%nat /\
            tline t = line_of (firstn k src) /\ tpos t = col_of (firstn k src).
Proof.
  intro E. pose proof (parse_total src) as S. rewrite E in S.
  rewrite <- lex_off_erase in S. apply in_map_iff in S. destruct S as ((k & t') & Et & Hin).
  simpl in Et. subst t'. exists k. split; auto. apply lex_positions. exact Hin.
Qed.

(* the diagnostic about an illegal character names that character *)
Theorem diagnostic_error_char src t :
  parse_source fparse crank src = PSyntax t -> ttype_of t = TError ->
  exists k c, nth_error src k = Some c /\ tval t = rename [c] /\
              tline t = line_of (firstn k src) /\ tpos t = col_of (firstn k src).
Proof.
  intros E Ty. destruct (diagnostic_located src t E) as (k & Hin & _ & L & C).
  destruct (lex_error_text src k t Hin Ty) as (c & Hc & Hv & _).
  exists k, c. auto.
Qed.

(* C11 schedule independence at the level of the model: the outcome is a function of the
   token sequence alone (that the parser goroutine receives exactly the sequence the scanner
   goroutine sent, for every schedule, is the FIFO theorem of the queue, C04) *)
Theorem parse_depends_on_tokens a b : lex a = lex b -> parse_source fparse crank a = parse_source fparse crank b.
Proof. intro E. unfold parse_source. rewrite E. reflexivity. Qed.

(* an accepted source was consumed entirely: the token list is the consumed tokens followed
   by the EOF token, nothing is left over, and every consumed literal converted successfully *)
Theorem accepted_consumes_all src v :
  parse_source fparse crank src = PValue v ->
  exists cs e, lex src = cs ++ [e] /\ ttype_of e = TEOF /\ Forall (nonEOF fparse) cs.
Proof.
  intros E.
  pose proof (parse_tokens_spec stack_cap_ok fparse crank (lex src)) as S.
  unfold parse_source in E. rewrite E in S.
  destruct S as (cs & e & tl & Ets & Fcs & Ee).
  destruct (well_ended_split _ (lex_total src)) as (body & last & Eb & Hl & Hb).
  assert (Htl : tl = []).
  { destruct tl as [|z tl'] using rev_ind; auto.
    rewrite Eb in Ets. rewrite app_comm_cons, app_assoc in Ets.
    apply app_inj_tail in Ets. destruct Ets as (Ebody & _).
    rewrite Forall_forall in Hb. exfalso. apply (Hb e); auto.
    rewrite Ebody. apply in_or_app. right. left. reflexivity. }
  subst tl. exists cs, e. auto.
Qed.

(* C11 literal_exact: when a source is accepted, every literal token of it had an exact
   value — no token of an intrinsic type whose conversion fails is ever consumed silently *)
Theorem literal_exact src v t :
  parse_source fparse crank src = PValue v ->
  In t (lex src) -> is_lit (ttype_of t) = true ->
  literal_value fparse (ttype_of t) (tval t) <> None.
Proof.
  intros E Hin L.
  destruct (accepted_consumes_all src v E) as (cs & e & Ets & Ee & Fcs).
  rewrite Ets in Hin. apply in_app_or in Hin. destruct Hin as [Hin|[Hin|[]]].
  - rewrite Forall_forall in Fcs. destruct (Fcs t Hin) as (_ & Lok). apply Lok. exact L.
  - subst t. rewrite Ee in L. discriminate.
Qed.

End Source.

(* the rejected literal is what the diagnostic names: a token of an intrinsic type whose
   conversion fails stops parseIntrinsic with the diagnostic for that very token *)
Local Opaque literal_value.
Lemma parse_intrinsic_rejects fparse t r :
  is_lit (ttype_of t) = true -> literal_value fparse (ttype_of t) (tval t) = None ->
  parse_intrinsic fparse (mkSt [] (t :: r)) = Stop (PSyntax t).
Proof.
  intros L V. destruct t as [ty v line pos]. simpl in *.
  destruct ty; try discriminate; unfold parse_intrinsic; simpl; rewrite V; reflexivity.
Qed.

(* and conversely a literal token with an exact value is consumed with that value *)
Lemma parse_intrinsic_accepts fparse t r v :
  is_lit (ttype_of t) = true -> literal_value fparse (ttype_of t) (tval t) = Some v ->
  parse_intrinsic fparse (mkSt [] (t :: r)) = Yes v t (mkSt [] r).
Proof.
  intros L V. destruct t as [ty x line pos]. simpl in *.
  destruct ty; try discriminate; unfold parse_intrinsic; simpl; rewrite V; reflexivity.
Qed.

(* The model of a parser instance has no state: ParseSource re-initialises source, token queue
   and push-back stack on entry, so the outcome of the k-th call on one instance is the
   outcome of its text alone, whatever was parsed (or rejected) on that instance before. *)
Definition calls (fparse : list Z -> option Z) (crank : val -> val -> option comparison)
  (sources : list (list Z)) : list outcome := map (parse_source fparse crank) sources.
Lemma calls_independent fparse crank before src after :
  nth (length before) (calls fparse crank (before ++ src :: after)) POutOfFuel = parse_source fparse crank src.
Proof.
  unfold calls. rewrite map_app. simpl. rewrite app_nth2; rewrite map_length; [|lia].
  rewrite Nat.sub_diag. reflexivity.
Qed.

(* the fixed words and the one-rune tokens, character level *)
Lemma first_words rest :
  try_types scan_order_t (zs "true" ++ rest) = Some (TBoolean, 4) /\
  try_types scan_order_t (zs "false" ++ rest) = Some (TBoolean, 5) /\
  try_types scan_order_t (zs "nil" ++ rest) = Some (TNil, 3) /\
  try_types scan_order_t (10%Z :: rest) = Some (TEOL, 1) /\
  try_types scan_order_t (32%Z :: rest) = Some (TSpace, S (span is_space rest)).
Proof.
  split; [apply first_true|]. split; [apply first_false|]. split; [apply first_nil|].
  split; [apply first_eol|apply first_space].
Qed.
