(* RoundTripLeaf.v — the literal tokens of the formatter on the scanner / parser side:
   (1) bridges from the formatter's text functions to the lexer-side predicates of the
       first-token lemmas (LexBridge.int_text, LexBridge2.float_text, LexBridge3.piece_good ...);
   (2) every literal token of the formatter, followed by a separator, is picked by the scanner
       as exactly that token (leaf_scan);
   (3) its value under Literals.literal_value is the value it was written from, at the
       canonical width (leaf_litv) — floats and complex numbers under the oracle hypothesis. *)
From Coq Require Import String Ascii.
From Verif Require Import Base Params Value Coll Formatter FormatSpec FormatProofs FormatText.
From Verif Require Import Lexer Literals Parser LexerProofs LexBridge LexBridge2 LexBridge3 ParserProofs Complete StripInv LexRender.
From Verif Require Import RoundTripLit RoundTrip.
Close Scope string_scope.
Open Scope Z_scope.

(* ---------- emitToken's renaming leaves every literal text alone ---------- *)
Lemma rename_id c t : 14 <= c -> rename (c :: t) = c :: t.
Proof.
  intros H. destruct t; [|reflexivity]. unfold rename.
  repeat match goal with |- context [c =? ?k] => replace (c =? k) with false by (symmetry; apply Z.eqb_neq; lia) end.
  reflexivity.
Qed.

(* ---------- integers ---------- *)
Lemma is_nz_digit19 d : is_nz d = digit19 d.
Proof. reflexivity. Qed.

Lemma int_text_dec z : int_text (dec_text z).
Proof.
  unfold dec_text. destruct (z <? 0) eqn:E.
  - apply Z.ltb_lt in E. pose proof (digits_ordinal (- z) ltac:(lia)) as H.
    destruct (digits 10 (- z)) as [|d t]; [discriminate|]. cbn [ordinal_ok] in H. apply andb_true_iff in H as [H1 H2].
    right. exists [45], d, t. repeat split; auto.
  - apply Z.ltb_ge in E. destruct (Z.eq_dec z 0) as [->|Hn]; [left; reflexivity|].
    pose proof (digits_ordinal z ltac:(lia)) as H.
    destruct (digits 10 z) as [|d t]; [discriminate|]. cbn [ordinal_ok] in H. apply andb_true_iff in H as [H1 H2].
    right. exists [], d, t. repeat split; auto.
Qed.

Lemma is_nz_ge d : is_nz d = true -> 49 <= d.
Proof. unfold is_nz. intros H. apply andb_true_iff in H as [A _]. apply Z.leb_le in A. lia. Qed.

Lemma int_text_head ds : int_text ds -> exists c t, ds = c :: t /\ 14 <= c.
Proof.
  intros [->|(sg & d & t & Hsg & Hd & _ & E)]; [exists 48, []; split; [reflexivity|lia]|]. subst ds.
  apply is_nz_ge in Hd. destruct Hsg as [ -> | [ -> | -> ] ]; eexists _, _; (split; [reflexivity|lia]).
Qed.

(* ---------- hexadecimal ---------- *)
Lemma hex_digits_ok z : digits 16 z <> [] /\ forallb is_hex (digits 16 z) = true.
Proof.
  split; [apply digits_nonempty|]. unfold digits. apply (digits_fuel_hexd _ z []). reflexivity.
Qed.

(* ---------- floats: the repaired formatFloat writes a float text of LexBridge2 ---------- *)
Lemma digit_cases d : digit d = true -> d = 48 \/ is_nz d = true.
Proof.
  unfold digit, is_nz. intros H. apply andb_true_iff in H as [A B]. apply Z.leb_le in A. apply Z.leb_le in B.
  destruct (Z.eq_dec d 48); [left; assumption|right]. apply andb_true_iff. split; apply Z.leb_le; lia.
Qed.

Lemma float_text_abs b : g_shape_abs b = true ->
  exists ip fr ex, scalar_text ip fr /\ exp_text ex /\ fix_float b = ip ++ 46 :: fr ++ ex.
Proof.
  intros H. destruct (fix_float_shape b H) as (ip & f & tail & Ef & Hip & Hf & Hn & Ht).
  exists ip, f, tail. repeat split; auto.
  - destruct ip as [|d [|e r]]; [discriminate| |].
    + cbn [int_part_ok] in Hip. destruct (digit_cases d Hip) as [->|Hd]; [left; reflexivity|].
      right. exists d, []. auto.
    + cbn [int_part_ok] in Hip. apply andb_true_iff in Hip as [H1 H2]. right. exists d, (e :: r). auto.
  - destruct f; [discriminate|]. discriminate.
  - destruct Ht as [->|(sg & ds & E & Hs & Ho & Hd)]; [left; reflexivity|]. subst tail.
    right. destruct ds as [|d t]; [discriminate|]. cbn [ordinal_ok] in Ho. apply andb_true_iff in Ho as [H1 H2].
    exists 69, sg, d, t. repeat split; auto.
Qed.

Lemma float_text_fix t : g_shape t = true -> float_text (fix_float t).
Proof.
  unfold g_shape. destruct t as [|c r]; [discriminate|]. destruct (c =? 45) eqn:E.
  - apply Z.eqb_eq in E. subst c. intros H. rewrite fix_float_minus.
    destruct (float_text_abs r H) as (ip & fr & ex & Hs & He & Ef).
    exists [45], ip, fr, ex. split; [right; left; reflexivity|]. split; [exact Hs|]. split; [exact He|]. rewrite Ef. reflexivity.
  - intros H. destruct (float_text_abs (c :: r) H) as (ip & fr & ex & Hs & He & Ef).
    exists [], ip, fr, ex. split; [left; reflexivity|]. split; [exact Hs|]. split; [exact He|]. exact Ef.
Qed.

Lemma float_text_head f : float_text f -> exists c t, f = c :: t /\ 14 <= c.
Proof.
  intros (sg & ip & fr & ex & Hsg & (Hip & _) & _ & E). subst f.
  assert (Hh : exists c t, ip = c :: t /\ 14 <= c).
  { destruct Hip as [->|(d & t & Hd & _ & E)]; [exists 48, []; split; [reflexivity|lia]|]. subst ip.
    apply is_nz_ge in Hd. exists d, t. split; [reflexivity|lia]. }
  destruct Hh as (c & t & E & Hc). subst ip.
  destruct Hsg as [ -> | [ -> | -> ] ]; eexists _, _; (split; [reflexivity|lia]).
Qed.

(* ---------- runes ---------- *)
Lemma simple_esc_same c : simple_esc c = is_simple_esc c.
Proof. unfold simple_esc, is_simple_esc, zmem. cbn [existsb]. rewrite orb_false_r, !orb_assoc. reflexivity. Qed.

Lemma rune_scan p rest : FormatText.piece p -> p <> [39] -> scannable rest ->
  scannable ((Lexer.TRune, 39 :: p ++ [39]) :: rest).
Proof.
  intros Hp Hne S.
  destruct Hp as [c H34 H10 H39 H92| | |c Hc|a b Ha Hb|a b c d Ha Hb Hc Hd|a b c d e f g h Ha Hb Hc Hd He Hf Hg Hh].
  - apply sc_rune_plain; auto; apply Z.eqb_neq; assumption.
  - apply sc_rune_plain; auto; lia.
  - contradiction Hne; reflexivity.
  - apply sc_rune_escape; auto. rewrite <- simple_esc_same. exact Hc.
  - apply (sc_rune_x [a; b]); auto. split; [reflexivity|]. cbn [forallb]. change (is_hex a) with (hexd a). change (is_hex b) with (hexd b).
    rewrite Ha, Hb. reflexivity.
  - apply (sc_rune_u [a; b; c; d]); auto. split; [reflexivity|]. cbn [forallb].
    change is_hex with hexd. rewrite Ha, Hb, Hc, Hd. reflexivity.
  - apply (sc_rune_U [a; b; c; d; e; f; g; h]); auto. split; [reflexivity|]. cbn [forallb].
    change is_hex with hexd. rewrite Ha, Hb, Hc, Hd, He, Hf, Hg, Hh. reflexivity.
Qed.

(* ---------- strings ---------- *)
Lemma piece_good_of p : FormatText.piece p -> p <> [34] -> exists q, flat3 [q] = p /\ piece_good q = true.
Proof.
  intros Hp Hne.
  destruct Hp as [c H34 H10 H39 H92| | |c Hc|a b Ha Hb|a b c d Ha Hb Hc Hd|a b c d e f g h Ha Hb Hc Hd He Hf Hg Hh].
  - exists (PChar c). split; [reflexivity|]. cbn [piece_good]. unfold plain_char. rewrite H34, H10, H92. reflexivity.
  - contradiction Hne; reflexivity.
  - exists (PChar 39). split; reflexivity.
  - exists (PEsc c). split; [reflexivity|]. cbn [piece_good]. rewrite <- simple_esc_same. exact Hc.
  - exists (PHex 120 [a; b]). split; [reflexivity|]. cbn [piece_good forallb length]. change is_hex with hexd. rewrite Ha, Hb. reflexivity.
  - exists (PHex 117 [a; b; c; d]). split; [reflexivity|]. cbn [piece_good forallb length]. change is_hex with hexd. rewrite Ha, Hb, Hc, Hd. reflexivity.
  - exists (PHex 85 [a; b; c; d; e; f; g; h]). split; [reflexivity|]. cbn [piece_good forallb length]. change is_hex with hexd.
    rewrite Ha, Hb, Hc, Hd, He, Hf, Hg, Hh. reflexivity.
Qed.

Lemma pieces34_good w : pieces34 w -> exists ps, flat3 ps = w /\ forallb piece_good ps = true.
Proof.
  induction 1 as [|p t Hp Hne Ht (ps & Ef & Hg)]; [exists []; split; reflexivity|].
  destruct (piece_good_of p Hp Hne) as (q & Eq & Hq).
  exists (q :: ps). split.
  - unfold flat3 in *. cbn [flat_map] in Eq |- *. rewrite app_nil_r in Eq. rewrite Eq, Ef. reflexivity.
  - cbn [forallb]. rewrite Hq, Hg. reflexivity.
Qed.

Lemma string_scan printable s rest : scannable rest -> scannable ((Lexer.TString, quote_str printable s) :: rest).
Proof.
  intros S. destruct (pieces34_good _ (quote_body_pieces printable (length s) s (le_n _))) as (ps & Ef & Hg).
  unfold quote_str. rewrite <- Ef. apply sc_string; auto.
Qed.

(* ---------- complex numbers ---------- *)
Section Leaf.
Variable fparse : list Z -> option Z.
Variable ftext : Z -> list Z.
Variable printable : Z -> bool.

Lemma float_rt_inv b : float_rt fparse ftext b = true ->
  float_text (Formatter.float_text ftext b) /\ fparse (Formatter.float_text ftext b) = Some b.
Proof.
  unfold float_rt, Formatter.float_text. intros H. apply andb_true_iff in H as [Hg Hp].
  split; [apply float_text_fix, Hg|].
  destruct (fparse (fix_float (ftext b))) as [x|]; [|discriminate]. apply Z.eqb_eq in Hp. subst. reflexivity.
Qed.

(* the text formatComplex writes splits as  ( f1 s f2 i )  with two float texts and a sign, and the
   parser's conversion of the two groups gives the two parts back *)
Lemma complex_split re im : float_rt fparse ftext re = true -> imag_rt fparse ftext im = true ->
  exists f1 s f2 x,
    40 :: Formatter.float_text ftext re ++ (if f_nonneg im then [43] else []) ++ Formatter.float_text ftext im ++ [105; 41]
    = 40 :: f1 ++ s :: f2 ++ [105; 41]
    /\ float_text f1 /\ Lexer.is_sign s = true /\ float_text f2
    /\ fparse f1 = Some re /\ fparse f2 = Some x /\ (if s =? 45 then fneg x else x) = im.
Proof.
  intros Hre Him. destruct (float_rt_inv re Hre) as [F1 P1]. unfold imag_rt in Him.
  destruct (f_nonneg im).
  - destruct (float_rt_inv im Him) as [F2 P2].
    exists (Formatter.float_text ftext re), 43, (Formatter.float_text ftext im), im. repeat split; auto.
  - unfold Formatter.float_text at 2. destruct (ftext im) as [|c r]; [discriminate|].
    apply andb_true_iff in Him as [Him Hp]. apply andb_true_iff in Him as [Hc Hg].
    apply Z.eqb_eq in Hc. subst c. rewrite fix_float_minus.
    destruct (fparse (fix_float r)) as [x|] eqn:Ex; [|discriminate]. apply Z.eqb_eq in Hp.
    destruct (float_text_abs r Hg) as (ip & fr & ex & Hs & He & Ef).
    exists (Formatter.float_text ftext re), 45, (fix_float r), x. repeat split; auto.
    exists [], ip, fr, ex. split; [left; reflexivity|]. split; [exact Hs|]. split; [exact He|]. exact Ef.
Qed.

Lemma complex_value_text f1 s f2 re x : float_text f1 -> Lexer.is_sign s = true -> float_text f2 ->
  fparse f1 = Some re -> fparse f2 = Some x ->
  complex_value fparse (40 :: f1 ++ s :: f2 ++ [105; 41]) = Some (re, if s =? 45 then fneg x else x).
Proof.
  intros F1 Hs F2 P1 P2. unfold complex_value.
  rewrite (m_complex_parts_text f1 s f2 [] F1 Hs F2).
  cbn [skipn]. rewrite firstn_app_length.
  replace (nth (1 + length f1) (40 :: f1 ++ s :: f2 ++ [105; 41]) 0) with s
    by (cbn [Nat.add nth]; rewrite app_nth2 by lia; rewrite Nat.sub_diag; reflexivity).
  replace (skipn (2 + length f1) (40 :: f1 ++ s :: f2 ++ [105; 41])) with (f2 ++ [105; 41]).
  2:{ change (skipn (2 + length f1) (40 :: f1 ++ s :: f2 ++ [105; 41])) with (skipn (S (length f1)) (f1 ++ s :: f2 ++ [105; 41])).
      replace (f1 ++ s :: f2 ++ [105; 41]) with ((f1 ++ [s]) ++ f2 ++ [105; 41]) by (rewrite <- app_assoc; reflexivity).
      replace (S (length f1)) with (length (f1 ++ [s])) by (rewrite app_length; cbn [length]; lia).
      rewrite skipn_app_length. reflexivity. }
  rewrite firstn_app_length, P1, P2. reflexivity.
Qed.

(* ---------- (2) every literal token, followed by a separator, is scanned as itself ---------- *)
Lemma leaf_scan v t rest :
  leaf_token ftext printable v = Some t -> leaf_floats fparse ftext v = true ->
  scannable rest -> sep_start (render_toks rest) -> scannable (conv t :: rest).
Proof.
  intros Ht Hf S Sp. destruct v; try discriminate; cbn [leaf_token] in Ht; inversion Ht; subst t; unfold conv; cbn [lty tk_type tk_text tok].
  - (* nil *) apply sc_nil_word; auto.
  - (* bool *) destruct b; [apply sc_true|apply sc_false]; auto.
  - (* int *) apply sc_integer; auto. apply int_text_dec.
  - (* uint *) unfold hex_text. destruct (hex_digits_ok (Z.abs z)) as [H1 H2]. apply sc_hex; auto.
  - (* byte *) unfold hex_text. destruct (hex_digits_ok (Z.abs z)) as [H1 H2]. apply sc_hex; auto.
  - (* rune *) unfold quote_rune.
    destruct (esc_rune_piece printable 39 (if Formatter.valid_rune z then z else 65533) (or_intror eq_refl)) as [Hp Hne].
    apply rune_scan; auto.
  - (* float *) cbn [leaf_floats] in Hf. destruct (float_rt_inv bits Hf) as [F _]. apply sc_float; auto.
  - (* complex *) cbn [leaf_floats] in Hf. apply andb_true_iff in Hf as [Hre Him].
    destruct (complex_split re im Hre Him) as (f1 & s & f2 & x & E & F1 & Hs & F2 & _).
    rewrite E. apply sc_complex; auto.
  - (* string *) apply string_scan; auto.
Qed.

Lemma leaf_token_type v t : leaf_token ftext printable v = Some t -> is_lit (lty (tk_type t)) = true.
Proof. destruct v; try discriminate; cbn [leaf_token]; intros H; inversion H; reflexivity. Qed.

(* ---------- (3) the value of every literal token ---------- *)
Lemma leaf_litv v t :
  leaf_token ftext printable v = Some t -> leaf_ok v = true -> leaf_floats fparse ftext v = true ->
  litv fparse (mk (conv t)) (canon_leaf v).
Proof.
  intros Ht Hok Hf. split; [apply (leaf_token_type v t Ht)|].
  destruct v; try discriminate; cbn [leaf_token] in Ht; inversion Ht; subst t;
    unfold mk, conv; cbn [lty tk_type tk_text tok fst snd ttype_of tval canon_leaf leaf_ok] in *.
  - reflexivity.
  - destruct b; reflexivity.
  - (* int *) destruct (int_text_head _ (int_text_dec z)) as (c & tl & E & Hc). rewrite E, rename_id by exact Hc. rewrite <- E.
    cbn [literal_value]. rewrite parse_int_dec_text; [reflexivity|].
    apply andb_true_iff in Hok as [A B]. apply Z.leb_le in A. apply Z.leb_le in B. lia.
  - (* uint *) unfold hex_text at 1. rewrite rename_id by lia. fold (hex_text z).
    cbn [literal_value]. rewrite parse_hex_hex_text; [reflexivity|].
    apply andb_true_iff in Hok as [A B]. apply Z.leb_le in A. apply Z.ltb_lt in B. lia.
  - (* byte *) unfold hex_text at 1. rewrite rename_id by lia. fold (hex_text z).
    cbn [literal_value]. rewrite parse_hex_hex_text; [reflexivity|].
    apply andb_true_iff in Hok as [A B]. apply Z.leb_le in A. apply Z.ltb_lt in B. lia.
  - (* rune *) unfold quote_rune at 1. rewrite rename_id by lia. fold (quote_rune printable z).
    cbn [literal_value]. rewrite rune_value_quote_rune by exact Hok. reflexivity.
  - (* float *) cbn [leaf_floats] in Hf. destruct (float_rt_inv bits Hf) as [F Pf].
    destruct (float_text_head _ F) as (c & tl & E & Hc). rewrite E, rename_id by exact Hc. rewrite <- E.
    cbn [literal_value]. rewrite Pf. reflexivity.
  - (* complex *) cbn [leaf_floats] in Hf. apply andb_true_iff in Hf as [Hre Him].
    destruct (complex_split re im Hre Him) as (f1 & s & f2 & x & E & F1 & Hs & F2 & P1 & P2 & Ex).
    rewrite E, rename_id by lia. cbn [literal_value].
    rewrite (complex_value_text f1 s f2 re x F1 Hs F2 P1 P2), Ex. reflexivity.
  - (* string *) unfold quote_str at 1. rewrite rename_id by lia. fold (quote_str printable s).
    cbn [literal_value]. rewrite string_value_quote_str by exact Hok. reflexivity.
Qed.
End Leaf.
