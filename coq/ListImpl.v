(* ListImpl.v — code-shaped transcription of the loops of v4/collection/list.go and
   array.go (after the fix: commits recorded in known_findings.json).  Every loop is a
   recursion on explicit fuel over the iterator model of Seq.v; running out of fuel is the
   outcome [Hang].  SeqProofs.v proves that each function equals its specification in
   Seq.v (in particular: never [Hang]).  Definitions only. *)
From Verif Require Import Base Seq.

Section ListImpl.
Variable A : Type.
Variable zero : A.
Variable eqb : A -> A -> bool.

(* array.SetValue(index, value) with a positive in-range ordinal, as used by the loops:
   index is 1-based; out of range panics (toZeroBased) *)
Definition arr_set (arr : list A) (index : nat) (v : A) : out (list A) :=
  if (index =? 0) || (length arr <? index) then Panic else Ret (set_nth (index - 1) v arr).

(* Array.Make(size): zero-filled *)
Definition arr_make (size : nat) : list A := repeat zero size.

(* list.InsertValue:
     validateSlot(slot)
     size = GetSize()+1; array = Make(size); iterator = GetIterator(); index = 0
     for index < size { if index == slot { index++; array.SetValue(index, value) }
                        else { existing = iterator.GetNext(); index++; array.SetValue(index, existing) } } *)
Fixpoint insert_value_loop (fuel size slot : nat) (value : A) (index : nat) (it : iter A) (arr : list A)
  : out (list A) :=
  if size <=? index then Ret arr else
  match fuel with
  | 0 => Hang
  | S fuel' =>
    if index =? slot then
      out_bind (arr_set arr (S index) value) (fun arr' =>
        insert_value_loop fuel' size slot value (S index) it arr')
    else
      let '(existing, it') := get_next zero it in
      out_bind (arr_set arr (S index) existing) (fun arr' =>
        insert_value_loop fuel' size slot value (S index) it' arr')
  end.
Definition insert_value_impl (l : list A) (slot : nat) (value : A) : out (list A) :=
  if length l <? slot then Panic else
  let size := S (length l) in
  insert_value_loop (S size) size slot value 0 (it_make l) (arr_make size).

(* the inner loop of InsertValues / second loop of AppendValues:
     for iterator2.HasNext() { index++; value = iterator2.GetNext(); array.SetValue(index, value) } *)
Fixpoint copy_loop (fuel : nat) (index : nat) (it : iter A) (arr : list A) : out (nat * list A) :=
  if negb (has_next it) then Ret (index, arr) else
  match fuel with
  | 0 => Hang
  | S fuel' =>
    let '(v, it') := get_next zero it in
    out_bind (arr_set arr (S index) v) (fun arr' => copy_loop fuel' (S index) it' arr')
  end.

(* list.InsertValues:
     validateSlot(slot); if values.IsEmpty() { return }
     size = GetSize()+values.GetSize(); ...
     for index < size { if index == slot { copy all of values } else { copy one existing } } *)
Fixpoint insert_values_loop (fuel size slot : nat) (vals : list A) (index : nat) (it : iter A) (arr : list A)
  : out (list A) :=
  if size <=? index then Ret arr else
  match fuel with
  | 0 => Hang
  | S fuel' =>
    if index =? slot then
      out_bind (copy_loop (S (length vals)) index (it_make vals) arr) (fun r =>
        insert_values_loop fuel' size slot vals (fst r) it (snd r))
    else
      let '(existing, it') := get_next zero it in
      out_bind (arr_set arr (S index) existing) (fun arr' =>
        insert_values_loop fuel' size slot vals (S index) it' arr')
  end.
Definition insert_values_impl (l : list A) (slot : nat) (vals : list A) : out (list A) :=
  if length l <? slot then Panic else
  match vals with
  | [] => Ret l
  | _ =>
    let size := length l + length vals in
    insert_values_loop (S size) size slot vals 0 (it_make l) (arr_make size)
  end.

(* list.AppendValue *)
Definition append_value_impl (l : list A) (value : A) : out (list A) :=
  let size := S (length l) in
  out_bind (copy_loop (S (length l)) 0 (it_make l) (arr_make size)) (fun r =>
    arr_set (snd r) (S (fst r)) value).

(* list.AppendValues *)
Definition append_values_impl (l vals : list A) : out (list A) :=
  let size := length l + length vals in
  out_bind (copy_loop (S (length l)) 0 (it_make l) (arr_make size)) (fun r =>
    out_map snd (copy_loop (S (length vals)) (fst r) (it_make vals) (snd r))).

(* List.MakeFromSequence / MakeFromArray: AppendValue in a loop over the iterator *)
Fixpoint make_from_loop (fuel : nat) (it : iter A) (acc : list A) : out (list A) :=
  if negb (has_next it) then Ret acc else
  match fuel with
  | 0 => Hang
  | S fuel' =>
    let '(v, it') := get_next zero it in
    out_bind (append_value_impl acc v) (fun acc' => make_from_loop fuel' it' acc')
  end.
Definition make_from_sequence_impl (vals : list A) : out (list A) :=
  make_from_loop (S (length vals)) (it_make vals) [].

(* list.RemoveValue:
     removed = GetValue(index); size = GetSize()-1; array = Make(size)
     counter = toNormalized(index); index = 1
     for iterator.HasNext() { counter--; value = GetNext(); if counter == 0 { continue }; array.SetValue(index, value); index++ }
   the counter is an int in the code; it is modelled as Z because it goes negative *)
Fixpoint remove_value_loop (fuel : nat) (counter : Z) (index : nat) (it : iter A) (arr : list A)
  : out (list A) :=
  if negb (has_next it) then Ret arr else
  match fuel with
  | 0 => Hang
  | S fuel' =>
    let counter' := (counter - 1)%Z in
    let '(v, it') := get_next zero it in
    if (counter' =? 0)%Z then remove_value_loop fuel' counter' index it' arr
    else out_bind (arr_set arr index v) (fun arr' => remove_value_loop fuel' counter' (S index) it' arr')
  end.
Definition remove_value_impl (l : list A) (i : Z) : out (A * list A) :=
  match pos (length l) i with
  | None => Panic
  | Some k =>
    let removed := nth k l zero in
    let size := length l - 1 in
    out_map (fun arr => (removed, arr))
      (remove_value_loop (S (length l)) (Z.of_nat (S k)) 1 (it_make l) (arr_make size))
  end.

(* list.RemoveValues:
     first = toNormalized(first); last = toNormalized(last); delta = uint(last-first+1)
     size = uint(GetSize()) - delta; removed = Make(delta); array = Make(size)   (make panics when delta wraps)
     for HasNext { counter++; existing = GetNext();
        if counter < first || counter > last { arrayIndex++; array.SetValue(arrayIndex, existing) }
        else { removedIndex++; removed.SetValue(removedIndex, existing) } } *)
Fixpoint remove_values_loop (fuel : nat) (first last : nat) (counter ai ri : nat) (it : iter A)
         (arr removed : list A) : out (list A * list A) :=
  if negb (has_next it) then Ret (removed, arr) else
  match fuel with
  | 0 => Hang
  | S fuel' =>
    let counter' := S counter in
    let '(v, it') := get_next zero it in
    if (counter' <? first) || (last <? counter') then
      out_bind (arr_set arr (S ai) v) (fun arr' =>
        remove_values_loop fuel' first last counter' (S ai) ri it' arr' removed)
    else
      out_bind (arr_set removed (S ri) v) (fun removed' =>
        remove_values_loop fuel' first last counter' ai (S ri) it' arr removed')
  end.
Definition remove_values_impl (l : list A) (i j : Z) : out (list A * list A) :=
  match pos (length l) i, pos (length l) j with
  | Some a, Some b =>
    let first := S a in
    let last := S b in
    if last + 1 <? first then Panic            (* delta wraps around: make([]V, huge) panics *)
    else
      let delta := last + 1 - first in
      let size := length l - delta in
      remove_values_loop (S (length l)) first last 0 0 0 (it_make l) (arr_make size) (arr_make delta)
  | _, _ => Panic
  end.

(* list.GetIndex: "for index, candidate := range AsArray() { if compare(candidate, value) return index+1 }; return 0" *)
Fixpoint get_index_loop (l : list A) (v : A) (index : nat) : nat :=
  match l with
  | [] => 0
  | c :: t => if eqb c v then S index else get_index_loop t v (S index)
  end.
Definition get_index_impl (l : list A) (v : A) : nat := get_index_loop l v 0.

(* array.SetValues (after the fix):
     size = values.GetSize(); first = toZeroBased(index); if size == 0 { return }
     last = toZeroBased(first+size) + 1; copy(v[first:last], values.AsArray()) *)
Definition set_values_impl (l : list A) (i : Z) (src : list A) : out (list A) :=
  match pos (length l) i with
  | None => Panic
  | Some first =>
    match src with
    | [] => Ret l
    | _ =>
      match pos (length l) (Z.of_nat (first + length src)) with
      | None => Panic
      | Some lastm1 =>
        let last := S lastm1 in
        (* copy(dst, src) copies min(len dst, len src) values *)
        Ret (firstn first l ++ firstn (last - first) src ++ skipn last l)
      end
    end
  end.

(* array.GetValues: v[first : last+1] *)
Definition get_values_impl (l : list A) (i j : Z) : out (list A) :=
  match pos (length l) i, pos (length l) j with
  | Some first, Some last =>
    if last + 1 <? first then Panic           (* slice bounds out of range *)
    else Ret (firstn (last + 1 - first) (skipn first l))
  | _, _ => Panic
  end.

(* Array.MakeFromSequence: "for index := 0; index < size; index++ { array[index] = iterator.GetNext() }" *)
Fixpoint array_from_loop (n index : nat) (it : iter A) (arr : list A) : list A :=
  match n with
  | 0 => arr
  | S n' => let '(v, it') := get_next zero it in
            array_from_loop n' (S index) it' (set_nth index v arr)
  end.
Definition array_from_sequence_impl (vals : list A) : list A :=
  array_from_loop (length vals) 0 (it_make vals) (arr_make (length vals)).

End ListImpl.

Arguments arr_set {A}. Arguments arr_make {A}.
Arguments insert_value_impl {A}. Arguments insert_values_impl {A}. Arguments append_value_impl {A}.
Arguments append_values_impl {A}. Arguments make_from_sequence_impl {A}. Arguments remove_value_impl {A}.
Arguments remove_values_impl {A}. Arguments get_index_impl {A}. Arguments set_values_impl {A}.
Arguments get_values_impl {A}. Arguments array_from_sequence_impl {A}. Arguments copy_loop {A}.
