(* Conc.v — interleaving model of v4/collection/queue.go (after the RemoveAll fix recorded in
   known_findings.json) at the granularity of its synchronisation operations.

   Shared state: queues (the list of values guarded by the mutex, the number of tokens in the
   channel buffer, capacity, closed flag, and two ghost histories: values in append order and
   values in pop order) and one wait-group counter.  A thread is a list of pending calls, a
   phase inside the current call and, for the library's helper goroutines (Fork, Split, Join)
   and for "read until closed" consumers, a loop that issues further calls from the result of
   the last RemoveHead.  A micro-step is the code between two scheduling points (the verif
   hooks): each critical section is one step (it runs under the mutex), and the channel
   operations are steps of their own.  A blocking channel operation is a step that is not
   enabled.  [step cfg t] is None when thread t has nothing to do or is blocked.
   "All interleavings of all programs" is: all thread lists, all [list tid].
   Definitions only. *)
From Verif Require Import Base.
Open Scope Z_scope.

Record qstate := {
  qvals : list Z;        (* values_ : the list behind the mutex, head first *)
  qtok : nat;            (* len(available_) : tokens in the channel buffer *)
  qcap : nat;            (* capacity of the channel *)
  qclosed : bool;
  qapp : list Z;         (* ghost: every value ever appended, in append order *)
  qpop : list Z          (* ghost: every value ever popped (delivered or discarded), in pop order *)
}.

Definition mkq (cap : nat) : qstate :=
  {| qvals := []; qtok := 0; qcap := cap; qclosed := false; qapp := []; qpop := [] |}.

Inductive call :=
| CAdd (q : nat) (v : Z)
| CRemoveHead (q : nat)
| CClose (q : nat)
| CRemoveAll (q : nat)
| CGetSize (q : nat)
| CIsEmpty (q : nat)
| CAsArray (q : nat)
| CWait                  (* the caller's wait group: enabled when the counter is zero *)
| CDone.                 (* the helper's deferred group.Done() *)

Inductive result :=
| RAdded
| RHead (v : Z) (ok : bool)
| RClosed
| RCleared
| RSize (n : nat)
| REmpty (b : bool)
| RArray (l : list Z)
| RWaited
| RDoneWg
| RPanicked.

(* where a thread stands inside its current call *)
Inductive phase :=
| PIdle                  (* between calls / at the first scheduling point of the next call *)
| PSend (q : nat)        (* AddValue: value appended, token not yet published *)
| PPop (q : nat)         (* RemoveHead: token claimed, value not yet popped *)
| PDiscard (q : nat)     (* RemoveAll: token claimed, value not yet discarded *)
| PStuck.                (* the goroutine panicked *)

(* loops that issue further calls from the result of the last RemoveHead *)
Inductive loop :=
| LNone
| LConsumer (q : nat)                                  (* read until ok = false *)
| LFork (inq : nat) (outs : list nat)
| LSplit (inq : nat) (outs : list nat) (cur : nat)
| LJoin (ins : list nat) (cur : nat) (outq : nat).

Record thread := { tph : phase; tcalls : list call; tloop : loop; tres : list result }.

Record config := { queues : list qstate; wg : nat; threads : list thread }.

Definition dummyq : qstate := mkq 0.
Definition getq (c : config) (q : nat) : qstate := nth q (queues c) dummyq.
Definition setq (c : config) (q : nat) (s : qstate) : config :=
  {| queues := set_nth q s (queues c); wg := wg c; threads := threads c |}.
Definition dummyt : thread := {| tph := PStuck; tcalls := []; tloop := LNone; tres := [] |}.
Definition gett (c : config) (t : nat) : thread := nth t (threads c) dummyt.
Definition sett (c : config) (t : nat) (th : thread) : config :=
  {| queues := queues c; wg := wg c; threads := set_nth t th (threads c) |}.

(* what a looping thread does after a RemoveHead returned (v, ok) *)
Definition continue (l : loop) (v : Z) (ok : bool) : list call * loop :=
  match l with
  | LNone => ([], LNone)
  | LConsumer q => if ok then ([CRemoveHead q], l) else ([], LNone)
  | LFork inq outs =>
    if ok then (map (fun o => CAdd o v) outs ++ [CRemoveHead inq], l)
    else (map CClose outs ++ [CDone], LNone)
  | LSplit inq outs cur =>
    if ok then ([CAdd (nth cur outs 0%nat) v; CRemoveHead inq],
                LSplit inq outs (if (S cur <? length outs)%nat then S cur else 0%nat))
    else (map CClose outs ++ [CDone], LNone)
  | LJoin ins cur outq =>
    if ok then
      let cur' := if (S cur <? length ins)%nat then S cur else 0%nat in
      ([CAdd outq v; CRemoveHead (nth cur' ins 0%nat)], LJoin ins cur' outq)
    else ([CClose outq; CDone], LNone)
  end.

(* finishing the current call with result r *)
Definition finish (th : thread) (rest : list call) (r : result) : thread :=
  {| tph := PIdle; tcalls := rest; tloop := tloop th; tres := tres th ++ [r] |}.
Definition finish_head (th : thread) (rest : list call) (v : Z) (ok : bool) : thread :=
  let '(more, l') := continue (tloop th) v ok in
  {| tph := PIdle; tcalls := rest ++ more; tloop := l'; tres := tres th ++ [RHead v ok] |}.
Definition stuck (th : thread) : thread :=
  {| tph := PStuck; tcalls := tcalls th; tloop := tloop th; tres := tres th ++ [RPanicked] |}.
Definition in_phase (th : thread) (p : phase) : thread :=
  {| tph := p; tcalls := tcalls th; tloop := tloop th; tres := tres th |}.

Definition pop_head (s : qstate) : option (Z * qstate) :=
  match qvals s with
  | [] => None
  | v :: rest => Some (v, {| qvals := rest; qtok := qtok s; qcap := qcap s; qclosed := qclosed s;
                             qapp := qapp s; qpop := qpop s ++ [v] |})
  end.

(* one micro-step of thread t; None: finished, panicked or blocked *)
Definition step (c : config) (t : nat) : option config :=
  let th := gett c t in
  match tph th with
  | PStuck => None
  | PSend q =>
    let s := getq c q in
    match tcalls th with
    | CAdd _ _ :: rest =>
      if qclosed s then Some (sett c t (stuck th))                  (* send on closed channel *)
      else if (qtok s <? qcap s)%nat then
        Some (sett (setq c q {| qvals := qvals s; qtok := S (qtok s); qcap := qcap s; qclosed := false;
                                qapp := qapp s; qpop := qpop s |}) t (finish th rest RAdded))
      else None                                                     (* buffer full: blocked *)
    | _ => None
    end
  | PPop q =>
    match tcalls th with
    | CRemoveHead _ :: rest =>
      match pop_head (getq c q) with
      | Some (v, s') => Some (sett (setq c q s') t (finish_head th rest v true))
      | None => Some (sett c t (stuck th))                          (* RemoveValue(1) on an empty list *)
      end
    | _ => None
    end
  | PDiscard q =>
    match pop_head (getq c q) with
    | Some (_, s') => Some (sett (setq c q s') t (in_phase th PIdle))   (* loop: try to receive again *)
    | None => Some (sett c t (stuck th))
    end
  | PIdle =>
    match tcalls th with
    | [] => None
    | CAdd q v :: _ =>
      let s := getq c q in
      Some (sett (setq c q {| qvals := qvals s ++ [v]; qtok := qtok s; qcap := qcap s; qclosed := qclosed s;
                              qapp := qapp s ++ [v]; qpop := qpop s |}) t (in_phase th (PSend q)))
    | CRemoveHead q :: rest =>
      let s := getq c q in
      if (0 <? qtok s)%nat then
        Some (sett (setq c q {| qvals := qvals s; qtok := qtok s - 1; qcap := qcap s; qclosed := qclosed s;
                                qapp := qapp s; qpop := qpop s |}) t (in_phase th (PPop q)))
      else if qclosed s then Some (sett c t (finish_head th rest 0 false))
      else None                                                     (* empty and open: blocked *)
    | CClose q :: rest =>
      let s := getq c q in
      if qclosed s then Some (sett c t (stuck th))                  (* close of closed channel *)
      else Some (sett (setq c q {| qvals := qvals s; qtok := qtok s; qcap := qcap s; qclosed := true;
                                   qapp := qapp s; qpop := qpop s |}) t (finish th rest RClosed))
    | CRemoveAll q :: rest =>
      let s := getq c q in
      if (0 <? qtok s)%nat then
        Some (sett (setq c q {| qvals := qvals s; qtok := qtok s - 1; qcap := qcap s; qclosed := qclosed s;
                                qapp := qapp s; qpop := qpop s |}) t (in_phase th (PDiscard q)))
      else Some (sett c t (finish th rest RCleared))
    | CGetSize q :: rest => Some (sett c t (finish th rest (RSize (qtok (getq c q)))))
    | CIsEmpty q :: rest => Some (sett c t (finish th rest (REmpty (qtok (getq c q) =? 0)%nat)))
    | CAsArray q :: rest => Some (sett c t (finish th rest (RArray (qvals (getq c q)))))
    | CWait :: rest => if (wg c =? 0)%nat then Some (sett c t (finish th rest RWaited)) else None
    | CDone :: rest =>
      Some (sett {| queues := queues c; wg := wg c - 1; threads := threads c |} t (finish th rest RDoneWg))
    end
  end.

(* a schedule is a list of thread ids; a step that is not enabled is skipped *)
Fixpoint run (c : config) (sched : list nat) : config :=
  match sched with
  | [] => c
  | t :: rest => match step c t with Some c' => run c' rest | None => run c rest end
  end.

(* strict version used by the correspondence: every scheduled step must be enabled *)
Fixpoint run_strict (c : config) (sched : list nat) : option config :=
  match sched with
  | [] => Some c
  | t :: rest => match step c t with Some c' => run_strict c' rest | None => None end
  end.

Definition thread_done (th : thread) : bool :=
  match tph th, tcalls th with
  | PIdle, [] => true
  | PStuck, _ => true
  | _, _ => false
  end.
Definition final (c : config) : bool := forallb thread_done (threads c).
Definition enabled (c : config) (t : nat) : bool :=
  match step c t with Some _ => true | None => false end.
Definition deadlocked (c : config) : bool :=
  negb (final c) && forallb (fun t => negb (enabled c t)) (seq 0 (length (threads c))).

(* thread constructors *)
Definition client (calls : list call) : thread := {| tph := PIdle; tcalls := calls; tloop := LNone; tres := [] |}.
Definition consumer (q : nat) : thread := {| tph := PIdle; tcalls := [CRemoveHead q]; tloop := LConsumer q; tres := [] |}.
Definition fork_helper (inq : nat) (outs : list nat) : thread :=
  {| tph := PIdle; tcalls := [CRemoveHead inq]; tloop := LFork inq outs; tres := [] |}.
Definition split_helper (inq : nat) (outs : list nat) : thread :=
  {| tph := PIdle; tcalls := [CRemoveHead inq]; tloop := LSplit inq outs 0; tres := [] |}.
Definition join_helper (ins : list nat) (outq : nat) : thread :=
  {| tph := PIdle; tcalls := [CRemoveHead (nth 0 ins 0%nat)]; tloop := LJoin ins 0 outq; tres := [] |}.
