(* GenSweep.v — small-domain exhaustive comparison of the generated MiniGo code (GenSrc.v) with the
   hand-written model functions.  Definitions only; depends on no proof file, so that it still runs when
   a proof of Gen*.v breaks: the driver then evaluates [sweeps_Cxx] and reports the disagreeing inputs.
   On the unchanged tree every sweep is []. *)
From Verif Require Import Base Sorter Seq ListImpl Coll MiniGo GenSrc GenRep.

Local Open Scope Z_scope.

(* ---------- equality of results ---------- *)
Fixpoint val_eqb (a b : val Z) : bool :=
  match a, b with
  | VInt x, VInt y => x =? y
  | VBool x, VBool y => Bool.eqb x y
  | VElem x, VElem y => x =? y
  | VNil, VNil => true
  | VSlice l, VSlice m =>
    (fix go (l m : list (val Z)) : bool :=
       match l, m with
       | [], [] => true
       | x :: l', y :: m' => val_eqb x y && go l' m'
       | _, _ => false
       end) l m
  | VObj t fs, VObj u gs =>
    Pos.eqb t u &&
    (fix go (l m : list (ident * val Z)) : bool :=
       match l, m with
       | [], [] => true
       | (f, x) :: l', (g, y) :: m' => Pos.eqb f g && val_eqb x y && go l' m'
       | _, _ => false
       end) fs gs
  | VNamed t v, VNamed u w => Pos.eqb t u && val_eqb v w
  | VTuple l, VTuple m =>
    (fix go (l m : list (val Z)) : bool :=
       match l, m with
       | [], [] => true
       | x :: l', y :: m' => val_eqb x y && go l' m'
       | _, _ => false
       end) l m
  | VMeth r m, VMeth r' m' => val_eqb r r' && Pos.eqb m m'
  | VTag p v, VTag q w => Nat.eqb p q && val_eqb v w
  | VWb v l, VWb w m =>
    val_eqb v w &&
    (fix go (l m : list (nat * val Z)) : bool :=
       match l, m with
       | [], [] => true
       | (p, x) :: l', (q, y) :: m' => Nat.eqb p q && val_eqb x y && go l' m'
       | _, _ => false
       end) l m
  | _, _ => false
  end.

(* returns (result, final receiver) | panics (receiver as the panicking call left it) | out of fuel or stuck *)
Inductive outcome := ORet (p : val Z * val Z) | OPanic (r : val Z) | OHang.
Definition outcome_eqb (a b : outcome) : bool :=
  match a, b with
  | ORet (v, r), ORet (w, s) => val_eqb v w && val_eqb r s
  | OPanic r, OPanic s => val_eqb r s
  | OHang, OHang => true
  | _, _ => false
  end.

(* one disagreement: method, receiver, arguments, what the model says, what the generated code does *)
Record disagreement := {
  d_method : ident; d_recv : val Z; d_args : list (val Z); d_model : outcome; d_generated : outcome
}.

(* generous: at least ten times the fuel bound of any lemma on this domain, so that a harmless variant of a loop can
   never run out of the sweeps' own fuel (the cost of a run is the steps it takes, not the fuel it is given) *)
Definition sweep_fuel : nat := 5000.
Definition gen (recv : val Z) (m : ident) (args : list (val Z)) : outcome :=
  match call_at Z 0 no_ext prog sweep_fuel recv m args with
  | ROk r => ORet r
  | RPanic r => OPanic r
  | _ => OHang
  end.
Definition genx (ext : ident -> ident -> val Z -> list (val Z) -> option (val Z)) (recv : val Z) (m : ident)
           (args : list (val Z)) : outcome :=
  match call_at Z 0 ext prog sweep_fuel recv m args with
  | ROk r => ORet r
  | RPanic r => OPanic r
  | _ => OHang
  end.
Definition cmpx ext (m : ident) (recv : val Z) (args : list (val Z)) (model : outcome) : list disagreement :=
  let g := genx ext recv m args in
  if outcome_eqb g model then []
  else [{| d_method := m; d_recv := recv; d_args := args; d_model := model; d_generated := g |}].
Definition cmp (m : ident) (recv : val Z) (args : list (val Z)) (model : outcome) : list disagreement :=
  let g := gen recv m args in
  if outcome_eqb g model then []
  else [{| d_method := m; d_recv := recv; d_args := args; d_model := model; d_generated := g |}].

(* ---------- domains ---------- *)
Fixpoint upto (n : nat) : list nat := match n with O => [O] | S n' => upto n' ++ [n] end.   (* 0..n *)
Definition zrange (a : Z) (n : nat) : list Z := map (fun k => a + Z.of_nat k) (upto n).        (* a..a+n *)
Definition vals (n : nat) : list Z := map (fun k => 11 * Z.of_nat (S k)) (firstn n (upto n)).  (* 11,22,.. *)
Definition sizes : list nat := upto 5.
Definition indices : list Z := zrange (-7) 14.
Definition ret_unit (r : val Z) : outcome := ORet (VTuple [], r).

(* ---------- C17: agent/iterator.go ---------- *)
(* every snapshot [11;22;..] of 0..5 values, every slot 0..size *)
Definition iters : list (iter Z) :=
  flat_map (fun n => map (fun k => {| it_vals := vals n; it_slot := k |}) (upto n)) sizes.
Definition irep (i : iter Z) : val Z := it_val VNil (it_vals i) (Z.of_nat (it_slot i)).

Definition sweep_iterator_GetNext := flat_map (fun i =>
  cmp id_GetNext (irep i) [] (ORet (VElem (fst (get_next 0 i)), irep (snd (get_next 0 i))))) iters.
Definition sweep_iterator_GetPrevious := flat_map (fun i =>
  cmp id_GetPrevious (irep i) [] (ORet (VElem (fst (get_prev 0 i)), irep (snd (get_prev 0 i))))) iters.
Definition sweep_iterator_HasNext := flat_map (fun i =>
  cmp id_HasNext (irep i) [] (ORet (VBool (has_next i), irep i))) iters.
Definition sweep_iterator_HasPrevious := flat_map (fun i =>
  cmp id_HasPrevious (irep i) [] (ORet (VBool (has_prev i), irep i))) iters.
Definition sweep_iterator_ToStart := flat_map (fun i =>
  cmp id_ToStart (irep i) [] (ret_unit (irep (to_start i)))) iters.
Definition sweep_iterator_ToEnd := flat_map (fun i =>
  cmp id_ToEnd (irep i) [] (ret_unit (irep (to_end i)))) iters.
Definition sweep_iterator_ToSlot := flat_map (fun i => flat_map (fun s =>
  cmp id_ToSlot (irep i) [VInt s] (ret_unit (irep (to_slot i s)))) indices) iters.
Definition sweep_iterator_GetSlot := flat_map (fun i =>
  cmp id_GetSlot (irep i) [] (ORet (VInt (Z.of_nat (it_slot i)), irep i))) iters.
Definition sweep_iterator_GetSize := flat_map (fun i =>
  cmp id_GetSize (irep i) [] (ORet (VInt (Z.of_nat (it_size i)), irep i))) iters.
Definition sweep_iterator_IsEmpty := flat_map (fun i =>
  cmp id_IsEmpty (irep i) [] (ORet (VBool (Nat.eqb (it_size i) 0), irep i))) iters.
Definition sweep_iteratorClass_MakeFromArray := flat_map (fun n =>
  cmp id_MakeFromArray (VObj id_iteratorClass_ []) [VSlice (elems (vals n))]
      (ORet (irep (it_make (vals n)), VObj id_iteratorClass_ []))) sizes.

Definition sweeps_C17 : list disagreement :=
  sweep_iterator_GetNext ++ sweep_iterator_GetPrevious ++ sweep_iterator_HasNext ++ sweep_iterator_HasPrevious ++
  sweep_iterator_ToStart ++ sweep_iterator_ToEnd ++ sweep_iterator_ToSlot ++ sweep_iterator_GetSlot ++
  sweep_iterator_GetSize ++ sweep_iterator_IsEmpty ++ sweep_iteratorClass_MakeFromArray.

(* ---------- C01: collection/array.go, collection/list.go ---------- *)
Definition lists : list (list Z) := map vals sizes.
Definition probes0 : list Z := [5; 11; 22; 33; 40; 55].                       (* [], [11], [11;22], .. *)
Definition srcs : list (list Z) := map (fun n => map (fun x => x + 1000) (vals n)) (upto 6).
Definition aval (l : list Z) : val Z := arr_val l.
Definition lval (l : list Z) : val Z := lst_val VNil l.
(* a call that panics leaves the receiver as it was: C01 and C13 say so of every operation *)
Definition opt_pos (recv : val Z) (o : option nat) : outcome :=
  match o with Some k => ORet (VInt (Z.of_nat k), recv) | None => OPanic recv end.
Definition of_out {X} (recv : val Z) (f : X -> outcome) (o : out X) : outcome :=
  match o with Ret x => f x | Panic => OPanic recv | Hang => OHang end.

Definition sweep_array_toZeroBased := flat_map (fun l => flat_map (fun i =>
  cmp id_toZeroBased (aval l) [VInt i] (opt_pos (aval l) (pos (length l) i))) indices) lists.
Definition sweep_array_GetValue := flat_map (fun l => flat_map (fun i =>
  cmp id_GetValue (aval l) [VInt i] (of_out (aval l) (fun v => ORet (VElem v, aval l)) (get_value 0 l i))) indices) lists.
Definition sweep_array_SetValue := flat_map (fun l => flat_map (fun i =>
  cmp id_SetValue (aval l) [VInt i; VElem 9] (of_out (aval l) (fun l' => ret_unit (aval l')) (set_value l i 9))) indices) lists.
Definition sweep_array_GetValues := flat_map (fun l => flat_map (fun i => flat_map (fun j =>
  cmp id_GetValues (aval l) [VInt i; VInt j] (of_out (aval l) (fun r => ORet (aval r, aval l)) (get_values l i j))) indices) indices) lists.
Definition sweep_array_SetValues := flat_map (fun l => flat_map (fun i => flat_map (fun s =>
  cmp id_SetValues (aval l) [VInt i; aval s] (of_out (aval l) (fun l' => ret_unit (aval l')) (set_values l i s))) srcs) indices) lists.
Definition sweep_array_GetSize := flat_map (fun l =>
  cmp id_GetSize (aval l) [] (ORet (VInt (Z.of_nat (length l)), aval l))) lists.
Definition sweep_array_IsEmpty := flat_map (fun l =>
  cmp id_IsEmpty (aval l) [] (ORet (VBool (Nat.eqb (length l) 0), aval l))) lists.
Definition sweep_array_AsArray := flat_map (fun l =>
  cmp id_AsArray (aval l) [] (ORet (VSlice (elems l), aval l))) lists.
Definition sweep_array_GetIterator := flat_map (fun l =>
  cmp id_GetIterator (aval l) [] (ORet (irep (it_make l), aval l))) lists.
Definition sweep_arrayClass_Make := flat_map (fun n =>
  cmp id_Make (VObj id_arrayClass_ []) [VInt (Z.of_nat n)] (ORet (aval (repeat 0 n), VObj id_arrayClass_ []))) sizes.

Definition sweep_list_toNormalized := flat_map (fun l => flat_map (fun i =>
  cmp id_toNormalized (lval l) [VInt i] (opt_pos (lval l) (option_map S (pos (length l) i)))) indices) lists.
Definition sweep_list_validateSlot := flat_map (fun l => flat_map (fun s =>
  cmp id_validateSlot (lval l) [VInt (Z.of_nat s)] (if Nat.ltb (length l) s then OPanic (lval l) else ret_unit (lval l))) (upto 7)) lists.
Definition sweep_list_GetValue := flat_map (fun l => flat_map (fun i =>
  cmp id_GetValue (lval l) [VInt i] (of_out (lval l) (fun v => ORet (VElem v, lval l)) (get_value 0 l i))) indices) lists.
Definition sweep_list_GetValues := flat_map (fun l => flat_map (fun i => flat_map (fun j =>
  cmp id_GetValues (lval l) [VInt i; VInt j] (of_out (lval l) (fun r => ORet (aval r, lval l)) (get_values l i j))) indices) indices) lists.
Definition sweep_list_SetValue := flat_map (fun l => flat_map (fun i =>
  cmp id_SetValue (lval l) [VInt i; VElem 9] (of_out (lval l) (fun l' => ret_unit (lval l')) (set_value l i 9))) indices) lists.
Definition sweep_list_SetValues := flat_map (fun l => flat_map (fun i => flat_map (fun s =>
  cmp id_SetValues (lval l) [VInt i; aval s] (of_out (lval l) (fun l' => ret_unit (lval l')) (set_values l i s))) srcs) indices) lists.
Definition sweep_list_InsertValue := flat_map (fun l => flat_map (fun s =>
  cmp id_InsertValue (lval l) [VInt (Z.of_nat s); VElem 9] (of_out (lval l) (fun l' => ret_unit (lval l')) (insert_value l s 9))) (upto 7)) lists.
Definition sweep_list_InsertValues := flat_map (fun l => flat_map (fun s => flat_map (fun src =>
  cmp id_InsertValues (lval l) [VInt (Z.of_nat s); aval src] (of_out (lval l) (fun l' => ret_unit (lval l')) (insert_values l s src))) srcs) (upto 7)) lists.
Definition sweep_list_AppendValue := flat_map (fun l =>
  cmp id_AppendValue (lval l) [VElem 9] (ret_unit (lval (append_value l 9)))) lists.
Definition sweep_list_AppendValues := flat_map (fun l => flat_map (fun src =>
  cmp id_AppendValues (lval l) [aval src] (ret_unit (lval (append_values l src)))) srcs) lists.
Definition sweep_list_RemoveValue := flat_map (fun l => flat_map (fun i =>
  cmp id_RemoveValue (lval l) [VInt i] (of_out (lval l) (fun r => ORet (VElem (fst r), lval (snd r))) (remove_value 0 l i))) indices) lists.
Definition sweep_list_RemoveValues := flat_map (fun l => flat_map (fun i => flat_map (fun j =>
  cmp id_RemoveValues (lval l) [VInt i; VInt j]
      (of_out (lval l) (fun r => ORet (aval (fst r), lval (snd r))) (remove_values l i j))) indices) indices) lists.
Definition sweep_list_RemoveAll := flat_map (fun l =>
  cmp id_RemoveAll (lval l) [] (ret_unit (lval []))) lists.
Definition sweep_list_GetSize := flat_map (fun l =>
  cmp id_GetSize (lval l) [] (ORet (VInt (Z.of_nat (length l)), lval l))) lists.
Definition sweep_list_IsEmpty := flat_map (fun l =>
  cmp id_IsEmpty (lval l) [] (ORet (VBool (Nat.eqb (length l) 0), lval l))) lists.
Definition sweep_list_AsArray := flat_map (fun l =>
  cmp id_AsArray (lval l) [] (ORet (VSlice (elems l), lval l))) lists.
Definition sweep_list_GetIterator := flat_map (fun l =>
  cmp id_GetIterator (lval l) [] (ORet (irep (it_make l), lval l))) lists.

Definition cx := cmp_ext Z.eqb.
Definition sweep_list_GetIndex := flat_map (fun l => flat_map (fun x =>
  cmpx cx id_GetIndex (lval l) [VElem x] (ORet (VInt (Z.of_nat (get_index Z.eqb l x)), lval l))) probes0) (lists ++ [[22; 11; 22]])%list.
Definition sweep_list_ContainsValue := flat_map (fun l => flat_map (fun x =>
  cmpx cx id_ContainsValue (lval l) [VElem x] (ORet (VBool (contains_value Z.eqb l x), lval l))) probes0) lists.
Definition sweep_list_ContainsAny := flat_map (fun l => flat_map (fun src =>
  cmpx cx id_ContainsAny (lval l) [aval src] (ORet (VBool (contains_any Z.eqb l src), lval l))) [[]; [5]; [5; 22]; [33; 7]; [44; 55]]) lists.
Definition sweep_list_ContainsAll := flat_map (fun l => flat_map (fun src =>
  cmpx cx id_ContainsAll (lval l) [aval src] (ORet (VBool (contains_all Z.eqb l src), lval l))) [[]; [5]; [11; 22]; [33; 7]; [22; 11; 33]]) lists.

(* the functions that C13 rests on as well *)
Definition sweeps_seq : list disagreement :=
  sweep_iterator_GetNext ++ sweep_iterator_HasNext ++ sweep_iteratorClass_MakeFromArray ++
  sweep_array_toZeroBased ++ sweep_array_GetValue ++ sweep_array_SetValue ++ sweep_array_GetSize ++
  sweep_array_IsEmpty ++ sweep_array_AsArray ++ sweep_array_GetIterator ++ sweep_arrayClass_Make ++
  sweep_list_toNormalized ++ sweep_list_validateSlot ++ sweep_list_GetValue ++ sweep_list_InsertValue ++
  sweep_list_RemoveValue ++ sweep_list_RemoveAll ++ sweep_list_GetSize ++ sweep_list_IsEmpty ++
  sweep_list_AsArray ++ sweep_list_GetIterator.
Definition sweeps_C01 : list disagreement :=
  sweeps_seq ++ sweep_array_GetValues ++ sweep_array_SetValues ++ sweep_list_GetValues ++ sweep_list_SetValue ++
  sweep_list_SetValues ++ sweep_list_InsertValues ++ sweep_list_AppendValue ++ sweep_list_AppendValues ++
  sweep_list_RemoveValues ++ sweep_list_GetIndex ++ sweep_list_ContainsValue ++ sweep_list_ContainsAny ++ sweep_list_ContainsAll.

(* ---------- C13: collection/stack.go ---------- *)
Definition sval (cap : nat) (l : list Z) : val Z := stk_val VNil VNil (Z.of_nat cap) l.
Definition stacks : list (nat * list Z) := flat_map (fun cap => map (fun n => (cap, vals n)) (upto cap)) (upto 4).
Definition sweep_stack_AddValue := flat_map (fun s =>
  cmp id_AddValue (sval (fst s) (snd s)) [VElem 9]
      (of_out (sval (fst s) (snd s)) (fun l' => ret_unit (sval (fst s) l')) (stack_push (fst s) (snd s) 9))) stacks.
Definition sweep_stack_RemoveTop := flat_map (fun s =>
  cmp id_RemoveTop (sval (fst s) (snd s)) []
      (of_out (sval (fst s) (snd s)) (fun r => ORet (VElem (fst r), sval (fst s) (snd r))) (stack_pop (snd s)))) stacks.
Definition sweep_stack_RemoveAll := flat_map (fun s =>
  cmp id_RemoveAll (sval (fst s) (snd s)) [] (ret_unit (sval (fst s) []))) stacks.
Definition sweep_stack_GetCapacity := flat_map (fun s =>
  cmp id_GetCapacity (sval (fst s) (snd s)) [] (ORet (VInt (Z.of_nat (fst s)), sval (fst s) (snd s)))) stacks.
Definition sweep_stack_GetSize := flat_map (fun s =>
  cmp id_GetSize (sval (fst s) (snd s)) [] (ORet (VInt (Z.of_nat (length (snd s))), sval (fst s) (snd s)))) stacks.
Definition sweep_stack_IsEmpty := flat_map (fun s =>
  cmp id_IsEmpty (sval (fst s) (snd s)) [] (ORet (VBool (Nat.eqb (length (snd s)) 0), sval (fst s) (snd s)))) stacks.
Definition sweep_stack_AsArray := flat_map (fun s =>
  cmp id_AsArray (sval (fst s) (snd s)) [] (ORet (VSlice (elems (snd s)), sval (fst s) (snd s)))) stacks.
(* a stack is a history: push 9 then pop must give 9 back (when there is room) — found here as a
   disagreement of the second call when AddValue is wrong in a way a single call does not show *)
Definition sweep_stack_push_pop := flat_map (fun s =>
  match gen (sval (fst s) (snd s)) id_AddValue [VElem 9] with
  | ORet (_, r) =>
    cmp id_RemoveTop r []
        (match stack_push (fst s) (snd s) 9 with
         | Ret l' => of_out r (fun x => ORet (VElem (fst x), sval (fst s) (snd x))) (stack_pop l')
         | _ => OHang end)
  | _ => []
  end) stacks.

Definition sweeps_C13 : list disagreement :=
  sweep_stack_AddValue ++ sweep_stack_RemoveTop ++ sweep_stack_RemoveAll ++ sweep_stack_GetCapacity ++
  sweep_stack_GetSize ++ sweep_stack_IsEmpty ++ sweep_stack_AsArray ++ sweep_stack_push_pop ++ sweeps_seq.

(* ---------- C02: collection/set.go (the binary search and what rests on it) ---------- *)
(* rankers: the order of Z, its reverse, and three inconsistent ones (the search must terminate with a slot in
   0..size for EVERY ranker: C02_search_terminates_for_every_ranker) *)
Definition rankers : list (Z -> Z -> comparison) :=
  [Z.compare; (fun a b => Z.compare b a); (fun _ _ => Gt); (fun _ _ => Lt); (fun a b => if Z.even (a + b) then Lt else Gt)].
Definition setv (l : list Z) : val Z := set_val VNil VNil l.
Definition probes : list Z := [5; 11; 16; 22; 33; 40; 55; 60].
Definition sweep_set_findIndex := flat_map (fun rk => flat_map (fun l => flat_map (fun x =>
  cmpx (rank_ext rk) id_findIndex (setv l) [VElem x]
       (of_out (setv l) (fun r => ORet (VTuple [VInt (Z.of_nat (fst r)); VBool (snd r)], setv l)) (find_index 0 rk l x))) probes) lists) rankers.
Definition sweep_set_AddValue := flat_map (fun rk => flat_map (fun l => flat_map (fun x =>
  cmpx (rank_ext rk) id_AddValue (setv l) [VElem x]
       (of_out (setv l) (fun l' => ret_unit (setv l')) (set_add 0 rk l x))) probes) lists) rankers.
Definition sweep_set_RemoveValue := flat_map (fun rk => flat_map (fun l => flat_map (fun x =>
  cmpx (rank_ext rk) id_RemoveValue (setv l) [VElem x]
       (of_out (setv l) (fun l' => ret_unit (setv l')) (set_remove 0 rk l x))) probes) lists) rankers.
Definition sweep_set_ContainsValue := flat_map (fun rk => flat_map (fun l => flat_map (fun x =>
  cmpx (rank_ext rk) id_ContainsValue (setv l) [VElem x]
       (of_out (setv l) (fun b => ORet (VBool b, setv l)) (set_contains 0 rk l x))) probes) lists) rankers.
Definition sweep_set_GetIndex := flat_map (fun rk => flat_map (fun l => flat_map (fun x =>
  cmpx (rank_ext rk) id_GetIndex (setv l) [VElem x]
       (of_out (setv l) (fun k => ORet (VInt (Z.of_nat k), setv l)) (set_get_index 0 rk l x))) probes) lists) rankers.
Definition sweep_set_AddValues := flat_map (fun rk => flat_map (fun l => flat_map (fun src =>
  cmpx (rank_ext rk) id_AddValues (setv l) [aval src]
       (of_out (setv l) (fun l' => ret_unit (setv l')) (set_add_all 0 rk l src))) [[]; [5]; [22; 5; 22]; [60; 40; 16; 11]]) lists) rankers.
Definition sweep_set_RemoveValues := flat_map (fun rk => flat_map (fun l => flat_map (fun src =>
  cmpx (rank_ext rk) id_RemoveValues (setv l) [aval src]
       (of_out (setv l) (fun l' => ret_unit (setv l')) (set_remove_all 0 rk l src))) [[]; [5]; [22; 5; 22]; [55; 33; 16; 11]]) lists) rankers.
Definition sweep_set_RemoveAll := flat_map (fun l => cmpx (rank_ext Z.compare) id_RemoveAll (setv l) [] (ret_unit (setv []))) lists.
Definition sweeps_C02 : list disagreement :=
  sweep_set_AddValues ++ sweep_set_RemoveValues ++ sweep_set_RemoveAll ++
  sweep_set_findIndex ++ sweep_set_AddValue ++ sweep_set_RemoveValue ++ sweep_set_ContainsValue ++ sweep_set_GetIndex ++
  sweeps_seq.

(* ---------- C09: agent/sorter.go (merge sort and reversal in place in the caller's slice) ---------- *)
Definition perms4 : list (list Z) :=
  [[]; [5]; [5; 3]; [3; 5]; [2; 2]; [3; 1; 2]; [1; 2; 3]; [3; 2; 1]; [2; 3; 1; 2]; [4; 3; 2; 1]; [1; 3; 2; 4; 0];
   [5; 1; 4; 2; 3; 0]; [7; 6; 5; 4; 3; 2; 1]; [1; 1; 2; 1; 2; 2; 1; 3]; [9; 8; 7; 6; 5; 4; 3; 2; 1]] ++
  (* lengths at which a pass has a trailing run without a partner (11, 12, 23), reversed and rotated *)
  map (fun n => rev (map Z.of_nat (seq 1 n))) [11; 12; 23]%nat ++
  map (fun n => map Z.of_nat (seq 4 n ++ seq 1 3)) [11; 21]%nat.
Definition srtv : val Z := srt_val VNil.
Definition wb1 (l : list Z) : val Z := VWb srtv [(1%nat, VSlice (elems l))].
Definition sweep_sorter_SortValues := flat_map (fun rk => flat_map (fun l =>
  cmpx (rank_ext rk) id_SortValues srtv [VSlice (elems l)] (ORet (VTuple [], wb1 (Sorter.sort_values rk l)))) perms4) rankers.
Definition sweep_sorter_ReverseValues := flat_map (fun l =>
  cmpx (rank_ext Z.compare) id_ReverseValues srtv [VSlice (elems l)] (ORet (VTuple [], wb1 (Sorter.reverse_values l)))) perms4.
Definition sweep_sorter_mergeArrays := flat_map (fun rk => flat_map (fun l => flat_map (fun r =>
  cmpx (rank_ext rk) id_mergeArrays srtv [VSlice (elems l); VSlice (elems r); VSlice (elems (repeat 0 (length l + length r)))]
       (ORet (VTuple [], VWb srtv [(3%nat, VSlice (elems (Sorter.merge rk (length l + length r) l r)))])))
       [[]; [2]; [1; 3]; [2; 2; 5]]) [[]; [2]; [1; 4]; [0; 2; 6]]) rankers.
Definition sweep_array_SortValues := flat_map (fun l =>
  cmpx (rank_ext Z.compare) id_SortValues (aval l) [] (ORet (VTuple [], aval (Sorter.sort_values Z.compare l)))) perms4.
Definition sweep_list_SortValues := flat_map (fun l =>
  cmpx (rank_ext Z.compare) id_SortValues (lval l) [] (ORet (VTuple [], lval (Sorter.sort_values Z.compare l)))) perms4.
Definition sweep_array_ReverseValues := flat_map (fun l =>
  cmpx (rank_ext Z.compare) id_ReverseValues (aval l) [] (ORet (VTuple [], aval (Sorter.reverse_values l)))) perms4.
Definition sweep_list_ReverseValues := flat_map (fun l =>
  cmpx (rank_ext Z.compare) id_ReverseValues (lval l) [] (ORet (VTuple [], lval (Sorter.reverse_values l)))) perms4.
Definition sweeps_C09 : list disagreement :=
  sweep_sorter_SortValues ++ sweep_sorter_ReverseValues ++ sweep_sorter_mergeArrays ++ sweep_array_SortValues ++
  sweep_list_SortValues ++ sweep_array_ReverseValues ++ sweep_list_ReverseValues.
