(* GenSweep.v — small-domain exhaustive comparison of the generated MiniGo code (GenSrc.v) with the
   hand-written model functions.  Definitions only; depends on no proof file, so that it still runs when
   a proof of Gen*.v breaks: the driver then evaluates [sweeps_Cxx] and reports the disagreeing inputs.
   On the unchanged tree every sweep is []. *)
From Verif Require Import Base Seq ListImpl Coll MiniGo GenSrc GenRep.

Local Open Scope Z_scope.

(* ---------- equality of results ---------- *)
Fixpoint val_eqb (a b : val Z) : bool :=
  match a, b with
  | VInt x, VInt y => x =? y
  | VBool x, VBool y => Bool.eqb x y
  | VElem x, VElem y => x =? y
  | VNil, VNil => true
  | VSlice l, VSlice m =>
    (fix go (l m : list (val Z)) : bool :=
       match l, m with
       | [], [] => true
       | x :: l', y :: m' => val_eqb x y && go l' m'
       | _, _ => false
       end) l m
  | VObj t fs, VObj u gs =>
    Pos.eqb t u &&
    (fix go (l m : list (ident * val Z)) : bool :=
       match l, m with
       | [], [] => true
       | (f, x) :: l', (g, y) :: m' => Pos.eqb f g && val_eqb x y && go l' m'
       | _, _ => false
       end) fs gs
  | VNamed t v, VNamed u w => Pos.eqb t u && val_eqb v w
  | VTuple l, VTuple m =>
    (fix go (l m : list (val Z)) : bool :=
       match l, m with
       | [], [] => true
       | x :: l', y :: m' => val_eqb x y && go l' m'
       | _, _ => false
       end) l m
  | VMeth r m, VMeth r' m' => val_eqb r r' && Pos.eqb m m'
  | _, _ => false
  end.

Definition outcome := out (val Z * val Z).     (* (result, final receiver) *)
Definition outcome_eqb (a b : outcome) : bool :=
  match a, b with
  | Ret (v, r), Ret (w, s) => val_eqb v w && val_eqb r s
  | Panic, Panic => true
  | Hang, Hang => true
  | _, _ => false
  end.

(* one disagreement: method, receiver, arguments, what the model says, what the generated code does *)
Record disagreement := {
  d_method : ident; d_recv : val Z; d_args : list (val Z); d_model : outcome; d_generated : outcome
}.

Definition sweep_fuel : nat := 200.
Definition gen (recv : val Z) (m : ident) (args : list (val Z)) : outcome :=
  run_method Z 0 no_ext prog sweep_fuel recv m args.
Definition cmp (m : ident) (recv : val Z) (args : list (val Z)) (model : outcome) : list disagreement :=
  let g := gen recv m args in
  if outcome_eqb g model then []
  else [{| d_method := m; d_recv := recv; d_args := args; d_model := model; d_generated := g |}].

(* ---------- domains ---------- *)
Fixpoint upto (n : nat) : list nat := match n with O => [O] | S n' => upto n' ++ [n] end.   (* 0..n *)
Definition zrange (a : Z) (n : nat) : list Z := map (fun k => a + Z.of_nat k) (upto n).        (* a..a+n *)
Definition vals (n : nat) : list Z := map (fun k => 11 * Z.of_nat (S k)) (firstn n (upto n)).  (* 11,22,.. *)
Definition sizes : list nat := upto 5.
Definition indices : list Z := zrange (-7) 14.
Definition ret_unit (r : val Z) : outcome := Ret (VTuple [], r).

(* ---------- C17: agent/iterator.go ---------- *)
(* every snapshot [11;22;..] of 0..5 values, every slot 0..size *)
Definition iters : list (iter Z) :=
  flat_map (fun n => map (fun k => {| it_vals := vals n; it_slot := k |}) (upto n)) sizes.
Definition irep (i : iter Z) : val Z := it_val VNil (it_vals i) (Z.of_nat (it_slot i)).

Definition sweep_iterator_GetNext := flat_map (fun i =>
  cmp id_GetNext (irep i) [] (Ret (VElem (fst (get_next 0 i)), irep (snd (get_next 0 i))))) iters.
Definition sweep_iterator_GetPrevious := flat_map (fun i =>
  cmp id_GetPrevious (irep i) [] (Ret (VElem (fst (get_prev 0 i)), irep (snd (get_prev 0 i))))) iters.
Definition sweep_iterator_HasNext := flat_map (fun i =>
  cmp id_HasNext (irep i) [] (Ret (VBool (has_next i), irep i))) iters.
Definition sweep_iterator_HasPrevious := flat_map (fun i =>
  cmp id_HasPrevious (irep i) [] (Ret (VBool (has_prev i), irep i))) iters.
Definition sweep_iterator_ToStart := flat_map (fun i =>
  cmp id_ToStart (irep i) [] (ret_unit (irep (to_start i)))) iters.
Definition sweep_iterator_ToEnd := flat_map (fun i =>
  cmp id_ToEnd (irep i) [] (ret_unit (irep (to_end i)))) iters.
Definition sweep_iterator_ToSlot := flat_map (fun i => flat_map (fun s =>
  cmp id_ToSlot (irep i) [VInt s] (ret_unit (irep (to_slot i s)))) indices) iters.
Definition sweep_iterator_GetSlot := flat_map (fun i =>
  cmp id_GetSlot (irep i) [] (Ret (VInt (Z.of_nat (it_slot i)), irep i))) iters.
Definition sweep_iterator_GetSize := flat_map (fun i =>
  cmp id_GetSize (irep i) [] (Ret (VInt (Z.of_nat (it_size i)), irep i))) iters.
Definition sweep_iterator_IsEmpty := flat_map (fun i =>
  cmp id_IsEmpty (irep i) [] (Ret (VBool (Nat.eqb (it_size i) 0), irep i))) iters.
Definition sweep_iteratorClass_MakeFromArray := flat_map (fun n =>
  cmp id_MakeFromArray (VObj id_iteratorClass_ []) [VSlice (elems (vals n))]
      (Ret (irep (it_make (vals n)), VObj id_iteratorClass_ []))) sizes.

Definition sweeps_C17 : list disagreement :=
  sweep_iterator_GetNext ++ sweep_iterator_GetPrevious ++ sweep_iterator_HasNext ++ sweep_iterator_HasPrevious ++
  sweep_iterator_ToStart ++ sweep_iterator_ToEnd ++ sweep_iterator_ToSlot ++ sweep_iterator_GetSlot ++
  sweep_iterator_GetSize ++ sweep_iterator_IsEmpty ++ sweep_iteratorClass_MakeFromArray.
