(* CollateCompare.v — proofs about the model of compareValues (property C08): termination,
   purity, the depth-limit panic, agreement with the ranking. *)
From Verif Require Import Base Sorter Value SorterProofs CollateOrd CollateSort CollateBase CollateRank CollateRank2.
From Coq Require Import Permutation Sorted.
Open Scope nat_scope.

(* ------------------------------------------------------------------ *)
(* Generic facts on the result-level combinators of compare             *)
(* ------------------------------------------------------------------ *)
Lemma rall2_P {A} (P : res bool -> Prop) (rec : A -> A -> res bool) :
  (forall c, P (R c)) ->
  forall xs ys, (forall x y, In x xs -> In y ys -> P (rec x y)) -> P (rall2 rec xs ys).
Proof.
  intros HR. induction xs as [|x xs IH]; destruct ys as [|y ys]; simpl; intros H; auto.
  pose proof (H x y (or_introl eq_refl) (or_introl eq_refl)) as Hxy.
  destruct (rec x y) as [[]| |]; auto.
Qed.

Lemma lookup_in : forall k m v, lookup_kv k m = Some v -> exists k', In (k', v) m /\ keq k k' = true.
Proof.
  induction m as [|[k' v'] m IH]; simpl; intros v H; [discriminate|].
  destruct (keq k k') eqn:E.
  - inversion H; subst. exists k'. auto.
  - apply IH in H. destruct H as [k'' [H1 H2]]. exists k''. auto.
Qed.

Lemma rmapall_P (P : res bool -> Prop) (rec : val -> val -> res bool) :
  (forall c, P (R c)) ->
  forall m2 m1, (forall p q, In p m1 -> In q m2 -> P (rec (snd p) (snd q))) -> P (rmapall rec m2 m1).
Proof.
  intros HR m2. induction m1 as [|p m1 IH]; simpl; intros H; auto.
  destruct (lookup_kv (fst p) m2) as [v2|] eqn:L; auto.
  apply lookup_in in L. destruct L as [k' [L _]].
  pose proof (H p (k', v2) (or_introl eq_refl) L) as Hp. simpl in Hp.
  destruct (rec (snd p) v2) as [[]| |]; auto.
Qed.

Lemma bthen_noof : forall r1 r2, r1 <> OutOfFuel -> r2 <> OutOfFuel -> bthen r1 r2 <> OutOfFuel.
Proof. intros [[]| |] r2; simpl; auto. Qed.

(* ------------------------------------------------------------------ *)
(* Termination for ALL values                                           *)
(* ------------------------------------------------------------------ *)
Lemma compare_no_oof : forall f M d a b, wsz a + wsz b < f -> compare M f d a b <> OutOfFuel.
Proof.
  induction f as [|f IH]; intros M d a b Hf; [lia|].
  rewrite compare_unfold. unfold cspec.
  destruct (negb (Z.eqb (tyrank a) (tyrank b))); [discriminate|].
  destruct (view_of a) eqn:Va, (view_of b) eqn:Vb; try discriminate.
  - apply bthen_noof; apply IH; eapply sub_fuel; eauto; unfold elems; rewrite ?Va, ?Vb; simpl; auto.
  - destruct (d =? M); [discriminate|].
    destruct (negb (length l =? length l0)); [discriminate|].
    apply rall2_P; try discriminate.
    intros x y Hx Hy. apply IH.
    eapply sub_fuel; eauto; unfold elems; rewrite ?Va, ?Vb; auto.
  - destruct (d =? M); [discriminate|].
    destruct (negb (length m =? length m0)); [discriminate|].
    apply rmapall_P; try discriminate.
    intros p q Hp Hq.
    destruct (pair_in_elems _ _ _ Va Hp) as [Hp1 Hp2].
    destruct (pair_in_elems _ _ _ Vb Hq) as [Hq1 Hq2].
    apply IH. eapply sub_fuel; eauto.
Qed.

Theorem compare0_terminates : forall M a b, compare0 M a b <> OutOfFuel.
Proof.
  intros M a b. unfold compare0. apply compare_no_oof. unfold fuel_for.
  pose proof (wsz_le a). pose proof (wsz_le b). lia.
Qed.

(* ------------------------------------------------------------------ *)
(* j. the depth-limit panic on a chain nested one level too deep        *)
(* ------------------------------------------------------------------ *)
(* the unfolding of a self-containing list to n levels, with nil at the cut *)
Fixpoint nestk (n : nat) : val :=
  match n with 0 => VNil | S n' => VSeq KList [nestk n'] end.

Lemma vsize_nestk : forall n, vsize (nestk n) = S n.
Proof. induction n; simpl; auto. simpl in IHn. rewrite IHn. lia. Qed.

Lemma rank_nestk_panics : forall n M f d, d <= M -> M < d + n -> n < f ->
  rank M f d (nestk n) (nestk n) = DepthPanic.
Proof.
  induction n as [|n IH]; intros M f d H1 H2 H3; [lia|].
  destruct f as [|f]; [lia|]. rewrite rank_unfold. unfold spec. simpl nestk.
  simpl tyrank. rewrite Z.eqb_refl. simpl negb. cbv iota. simpl view_of. cbv iota.
  destruct (Nat.eqb_spec d M); [reflexivity|].
  unfold rlexswap. simpl. rewrite IH by lia. reflexivity.
Qed.

Lemma compare_nestk_panics : forall n M f d, d <= M -> M < d + n -> n < f ->
  compare M f d (nestk n) (nestk n) = DepthPanic.
Proof.
  induction n as [|n IH]; intros M f d H1 H2 H3; [lia|].
  destruct f as [|f]; [lia|]. rewrite compare_unfold. unfold cspec. simpl nestk.
  simpl tyrank. rewrite Z.eqb_refl. simpl negb. cbv iota. simpl view_of. cbv iota.
  destruct (Nat.eqb_spec d M); [reflexivity|].
  simpl. rewrite IH by lia. reflexivity.
Qed.

Theorem depth_panics : forall M,
  rank0 M (nestk (S M)) (nestk (S M)) = DepthPanic /\
  compare0 M (nestk (S M)) (nestk (S M)) = DepthPanic.
Proof.
  intros M. unfold rank0, compare0, fuel_for. rewrite vsize_nestk. split.
  - apply rank_nestk_panics; lia.
  - apply compare_nestk_panics; lia.
Qed.

(* one level less is within the limit and compares equal *)
Lemma nestk_inU : forall n M, n <= M -> inU M (nestk n) = true.
Proof.
  intros n M H. unfold inU. apply andb_true_intro. split.
  - induction n; simpl; auto. rewrite IHn by lia. reflexivity.
  - apply Nat.leb_le. assert (nest (nestk n) = n) as ->; auto.
    clear H. induction n; simpl; auto. rewrite IHn. lia.
Qed.

(* ------------------------------------------------------------------ *)
(* Purity of compare (needs only the depth bound, no well-formedness)   *)
(* ------------------------------------------------------------------ *)
Fixpoint all2 {A} (r : A -> A -> bool) (xs ys : list A) : bool :=
  match xs, ys with
  | [], _ => true
  | _, [] => true
  | x :: xs', y :: ys' => r x y && all2 r xs' ys'
  end.

Definition mapall (r : val -> val -> bool) (m2 m1 : list (val * val)) : bool :=
  forallb (fun p => match lookup_kv (fst p) m2 with Some v2 => r (snd p) v2 | None => false end) m1.

Definition pcspec (r : val -> val -> bool) (a b : val) : bool :=
  if negb (Z.eqb (tyrank a) (tyrank b)) then false else
  match view_of a, view_of b with
  | WLeaf, WLeaf => leq a b
  | WAssoc k1 v1, WAssoc k2 v2 => r k1 k2 && r v1 v2
  | WArr xs, WArr ys => (length xs =? length ys) && all2 r xs ys
  | WMap m1, WMap m2 => (length m1 =? length m2) && mapall r m2 m1
  | _, _ => false
  end.

Lemma rall2_pure {A} (rec : A -> A -> res bool) (r : A -> A -> bool) :
  forall xs ys, (forall x y, In x xs -> In y ys -> rec x y = R (r x y)) ->
  rall2 rec xs ys = R (all2 r xs ys).
Proof.
  induction xs as [|x xs IH]; destruct ys as [|y ys]; simpl; intros H; auto.
  rewrite H by (left; auto). rewrite IH by (intros; apply H; right; auto).
  destruct (r x y); reflexivity.
Qed.

Lemma rmapall_pure (rec : val -> val -> res bool) (r : val -> val -> bool) :
  forall m2 m1, (forall p q, In p m1 -> In q m2 -> rec (snd p) (snd q) = R (r (snd p) (snd q))) ->
  rmapall rec m2 m1 = R (mapall r m2 m1).
Proof.
  intros m2. induction m1 as [|p m1 IH]; simpl; intros H; auto.
  destruct (lookup_kv (fst p) m2) as [v2|] eqn:L; auto.
  destruct (lookup_in _ _ _ L) as [k' [L' _]].
  pose proof (H p (k', v2) (or_introl eq_refl) L') as Hp. simpl in Hp. rewrite Hp.
  rewrite IH by (intros; apply H; auto; right; auto).
  destruct (r (snd p) v2); reflexivity.
Qed.

Lemma bthen_R : forall a b, bthen (R a) (R b) = R (a && b).
Proof. intros [] b; reflexivity. Qed.

Lemma cspec_pure : forall M d rec r a b,
  nest a + d <= M -> nest b + d <= M ->
  (forall d' x y, In x (elems a) -> In y (elems b) ->
     nest x + d' <= M -> nest y + d' <= M -> rec d' x y = R (r x y)) ->
  cspec M d rec a b = R (pcspec r a b).
Proof.
  intros M d rec r a b Na Nb Hrec. unfold cspec, pcspec.
  destruct (negb (Z.eqb (tyrank a) (tyrank b))); [reflexivity|].
  pose proof (view_nest a) as Sa. pose proof (view_nest b) as Sb.
  pose proof (elems_nest a) as Ea. pose proof (elems_nest b) as Eb.
  unfold elems in *.
  destruct (view_of a) eqn:Va, (view_of b) eqn:Vb; try reflexivity; simpl in Sa, Sb, Ea, Eb.
  - pose proof (Ea k ltac:(simpl; auto)). pose proof (Ea v ltac:(simpl; auto)).
    pose proof (Eb k0 ltac:(simpl; auto)). pose proof (Eb v0 ltac:(simpl; auto)).
    rewrite (Hrec d k k0), (Hrec d v v0); simpl; auto; try lia.
    apply bthen_R.
  - replace (d =? M) with false by (symmetry; apply Nat.eqb_neq; lia).
    destruct (length l =? length l0); simpl; [|reflexivity].
    apply rall2_pure. intros x y Hx Hy.
    specialize (Ea x Hx). specialize (Eb y Hy). apply Hrec; simpl; auto; lia.
  - replace (d =? M) with false by (symmetry; apply Nat.eqb_neq; lia).
    destruct (length m =? length m0); simpl; [|reflexivity].
    apply rmapall_pure. intros p q Hp Hq.
    assert (P2 : In (snd p) (map fst m ++ map snd m)) by (apply in_or_app; right; apply in_map; auto).
    assert (Q2 : In (snd q) (map fst m0 ++ map snd m0)) by (apply in_or_app; right; apply in_map; auto).
    pose proof (Ea _ P2). pose proof (Eb _ Q2). apply Hrec; simpl; auto; lia.
Qed.

Definition unresb (r : res bool) : bool := match r with R c => c | _ => false end.
Definition pcomp (a b : val) : bool :=
  unresb (compare (nest a + nest b) (fuel_for a b) 0 a b).

Lemma compare_pure_aux : forall n a b, wsz a + wsz b <= n ->
  (forall M d f, nest a + d <= M -> nest b + d <= M -> wsz a + wsz b < f ->
     compare M f d a b = R (pcspec pcomp a b)) /\
  (forall M d f, nest a + d <= M -> nest b + d <= M -> wsz a + wsz b < f ->
     compare M f d a b = R (pcomp a b)).
Proof.
  induction n as [|n IH]; intros a b Hn.
  { pose proof (wsz_pos a). lia. }
  assert (E : forall M d f, nest a + d <= M -> nest b + d <= M -> wsz a + wsz b < f ->
     compare M f d a b = R (pcspec pcomp a b)).
  { intros M d f Na Nb Hf. destruct f as [|f]; [lia|].
    rewrite compare_unfold. apply cspec_pure; auto.
    intros d' x y Hx Hy Nx Ny.
    pose proof (elems_size _ _ Hx). pose proof (elems_size _ _ Hy).
    destruct (IH x y ltac:(lia)) as [_ H2]. apply H2; auto. lia. }
  split; auto.
  intros M d f Na Nb Hf. rewrite E; auto.
  assert (pcomp a b = pcspec pcomp a b) as ->; auto.
  unfold pcomp at 1. rewrite E; auto; try lia.
  unfold fuel_for. pose proof (wsz_le a). pose proof (wsz_le b). lia.
Qed.

(* within the depth limit compareValues returns the pure equality: never a panic, never
   out of fuel, independent of fuel, depth and maximum — for arbitrary values *)
Theorem compare_pure : forall M f d a b,
  nest a + d <= M -> nest b + d <= M -> fuel_for a b <= f ->
  compare M f d a b = R (pcomp a b).
Proof.
  intros M f d a b Na Nb Hf.
  destruct (compare_pure_aux _ a b (le_n _)) as [_ H]. apply H; auto.
  unfold fuel_for in Hf. pose proof (wsz_le a). pose proof (wsz_le b). lia.
Qed.

Theorem compare0_pure : forall M a b, nest a <= M -> nest b <= M -> compare0 M a b = R (pcomp a b).
Proof. intros. unfold compare0. apply compare_pure; auto; lia. Qed.

Lemma Rb_inj : forall x y : bool, @R bool x = R y -> x = y.
Proof. intros x y H. injection H. auto. Qed.

Lemma pcomp_eq : forall a b, pcomp a b = pcspec pcomp a b.
Proof.
  intros a b.
  destruct (compare_pure_aux _ a b (le_n _)) as [H1 H2].
  apply Rb_inj.
  rewrite <- (H1 (nest a + nest b) 0 (fuel_for a b)), <- (H2 (nest a + nest b) 0 (fuel_for a b));
    auto; try lia; unfold fuel_for; pose proof (wsz_le a); pose proof (wsz_le b); lia.
Qed.
