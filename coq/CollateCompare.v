(* CollateCompare.v — proofs about the model of compareValues (property C08): termination,
   purity, the depth-limit panic, agreement with the ranking. *)
From Verif Require Import Base Sorter Value SorterProofs CollateOrd CollateSort CollateBase CollateRank CollateRank2.
From Coq Require Import Permutation Sorted.
Open Scope nat_scope.

(* ------------------------------------------------------------------ *)
(* Generic facts on the result-level combinators of compare             *)
(* ------------------------------------------------------------------ *)
Lemma rall2_P {A} (P : res bool -> Prop) (rec : A -> A -> res bool) :
  (forall c, P (R c)) ->
  forall xs ys, (forall x y, In x xs -> In y ys -> P (rec x y)) -> P (rall2 rec xs ys).
Proof.
  intros HR. induction xs as [|x xs IH]; destruct ys as [|y ys]; simpl; intros H; auto.
  pose proof (H x y (or_introl eq_refl) (or_introl eq_refl)) as Hxy.
  destruct (rec x y) as [[]| |]; auto.
Qed.

Lemma lookup_in : forall k m v, lookup_kv k m = Some v -> exists k', In (k', v) m /\ keq k k' = true.
Proof.
  induction m as [|[k' v'] m IH]; simpl; intros v H; [discriminate|].
  destruct (keq k k') eqn:E.
  - inversion H; subst. exists k'. auto.
  - apply IH in H. destruct H as [k'' [H1 H2]]. exists k''. auto.
Qed.

Lemma rmapall_P (P : res bool -> Prop) (rec : val -> val -> res bool) :
  (forall c, P (R c)) ->
  forall m2 m1, (forall p q, In p m1 -> In q m2 -> P (rec (snd p) (snd q))) -> P (rmapall rec m2 m1).
Proof.
  intros HR m2. induction m1 as [|p m1 IH]; simpl; intros H; auto.
  destruct (lookup_kv (fst p) m2) as [v2|] eqn:L; auto.
  apply lookup_in in L. destruct L as [k' [L _]].
  pose proof (H p (k', v2) (or_introl eq_refl) L) as Hp. simpl in Hp.
  destruct (rec (snd p) v2) as [[]| |]; auto.
Qed.

Lemma bthen_noof : forall r1 r2, r1 <> OutOfFuel -> r2 <> OutOfFuel -> bthen r1 r2 <> OutOfFuel.
Proof. intros [[]| |] r2; simpl; auto. Qed.

(* ------------------------------------------------------------------ *)
(* Termination for ALL values                                           *)
(* ------------------------------------------------------------------ *)
Lemma compare_no_oof : forall f M d a b, wsz a + wsz b < f -> compare M f d a b <> OutOfFuel.
Proof.
  induction f as [|f IH]; intros M d a b Hf; [lia|].
  rewrite compare_unfold. unfold cspec.
  destruct (negb (Z.eqb (tyrank a) (tyrank b))); [discriminate|].
  destruct (view_of a) eqn:Va, (view_of b) eqn:Vb; try discriminate.
  - apply bthen_noof; apply IH; eapply sub_fuel; eauto; unfold elems; rewrite ?Va, ?Vb; simpl; auto.
  - destruct (d =? M); [discriminate|].
    destruct (negb (length l =? length l0)); [discriminate|].
    apply rall2_P; try discriminate.
    intros x y Hx Hy. apply IH.
    eapply sub_fuel; eauto; unfold elems; rewrite ?Va, ?Vb; auto.
  - destruct (d =? M); [discriminate|].
    destruct (negb (length m =? length m0)); [discriminate|].
    apply rmapall_P; try discriminate.
    intros p q Hp Hq.
    destruct (pair_in_elems _ _ _ Va Hp) as [Hp1 Hp2].
    destruct (pair_in_elems _ _ _ Vb Hq) as [Hq1 Hq2].
    apply IH. eapply sub_fuel; eauto.
Qed.

Theorem compare0_terminates : forall M a b, compare0 M a b <> OutOfFuel.
Proof.
  intros M a b. unfold compare0. apply compare_no_oof. unfold fuel_for.
  pose proof (wsz_le a). pose proof (wsz_le b). lia.
Qed.

(* ------------------------------------------------------------------ *)
(* j. the depth-limit panic on a chain nested one level too deep        *)
(* ------------------------------------------------------------------ *)
(* the unfolding of a self-containing list to n levels, with nil at the cut *)
Fixpoint nestk (n : nat) : val :=
  match n with 0 => VNil | S n' => VSeq KList [nestk n'] end.

Lemma vsize_nestk : forall n, vsize (nestk n) = S n.
Proof. induction n; simpl; auto. simpl in IHn. rewrite IHn. lia. Qed.

Lemma rank_nestk_panics : forall n M f d, d <= M -> M < d + n -> n < f ->
  rank M f d (nestk n) (nestk n) = DepthPanic.
Proof.
  induction n as [|n IH]; intros M f d H1 H2 H3; [lia|].
  destruct f as [|f]; [lia|]. rewrite rank_unfold. unfold spec. simpl nestk.
  simpl tyrank. rewrite Z.eqb_refl. simpl negb. cbv iota. simpl view_of. cbv iota.
  destruct (Nat.eqb_spec d M); [reflexivity|].
  unfold rlexswap. simpl. rewrite IH by lia. reflexivity.
Qed.

Lemma compare_nestk_panics : forall n M f d, d <= M -> M < d + n -> n < f ->
  compare M f d (nestk n) (nestk n) = DepthPanic.
Proof.
  induction n as [|n IH]; intros M f d H1 H2 H3; [lia|].
  destruct f as [|f]; [lia|]. rewrite compare_unfold. unfold cspec. simpl nestk.
  simpl tyrank. rewrite Z.eqb_refl. simpl negb. cbv iota. simpl view_of. cbv iota.
  destruct (Nat.eqb_spec d M); [reflexivity|].
  simpl. rewrite IH by lia. reflexivity.
Qed.

Theorem depth_panics : forall M,
  rank0 M (nestk (S M)) (nestk (S M)) = DepthPanic /\
  compare0 M (nestk (S M)) (nestk (S M)) = DepthPanic.
Proof.
  intros M. unfold rank0, compare0, fuel_for. rewrite vsize_nestk. split.
  - apply rank_nestk_panics; lia.
  - apply compare_nestk_panics; lia.
Qed.

(* one level less is within the limit and compares equal *)
Lemma nestk_inU : forall n M, n <= M -> inU M (nestk n) = true.
Proof.
  intros n M H. unfold inU. apply andb_true_intro. split.
  - induction n; simpl; auto. rewrite IHn by lia. reflexivity.
  - apply Nat.leb_le. assert (nest (nestk n) = n) as ->; auto.
    clear H. induction n; simpl; auto. rewrite IHn. lia.
Qed.
