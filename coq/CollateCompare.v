(* CollateCompare.v — proofs about the model of compareValues (property C08): termination,
   purity, the depth-limit panic, agreement with the ranking. *)
From Verif Require Import Base Sorter Value SorterProofs CollateOrd CollateSort CollateBase CollateRank CollateRank2.
From Coq Require Import Permutation Sorted.
Open Scope nat_scope.

(* ------------------------------------------------------------------ *)
(* Generic facts on the result-level combinators of compare             *)
(* ------------------------------------------------------------------ *)
Lemma rall2_P {A} (P : res bool -> Prop) (rec : A -> A -> res bool) :
  (forall c, P (R c)) ->
  forall xs ys, (forall x y, In x xs -> In y ys -> P (rec x y)) -> P (rall2 rec xs ys).
Proof.
  intros HR. induction xs as [|x xs IH]; destruct ys as [|y ys]; simpl; intros H; auto.
  pose proof (H x y (or_introl eq_refl) (or_introl eq_refl)) as Hxy.
  destruct (rec x y) as [[]| |]; auto.
Qed.

Lemma lookup_in : forall k m v, lookup_kv k m = Some v -> exists k', In (k', v) m /\ keq k k' = true.
Proof.
  induction m as [|[k' v'] m IH]; simpl; intros v H; [discriminate|].
  destruct (keq k k') eqn:E.
  - inversion H; subst. exists k'. auto.
  - apply IH in H. destruct H as [k'' [H1 H2]]. exists k''. auto.
Qed.

Lemma rmapall_P (P : res bool -> Prop) (rec : val -> val -> res bool) :
  (forall c, P (R c)) ->
  forall m2 m1, (forall p q, In p m1 -> In q m2 -> P (rec (snd p) (snd q))) -> P (rmapall rec m2 m1).
Proof.
  intros HR m2. induction m1 as [|p m1 IH]; simpl; intros H; auto.
  destruct (lookup_kv (fst p) m2) as [v2|] eqn:L; auto.
  apply lookup_in in L. destruct L as [k' [L _]].
  pose proof (H p (k', v2) (or_introl eq_refl) L) as Hp. simpl in Hp.
  destruct (rec (snd p) v2) as [[]| |]; auto.
Qed.

Lemma bthen_noof : forall r1 r2, r1 <> OutOfFuel -> r2 <> OutOfFuel -> bthen r1 r2 <> OutOfFuel.
Proof. intros [[]| |] r2; simpl; auto. Qed.

(* ------------------------------------------------------------------ *)
(* Termination for ALL values                                           *)
(* ------------------------------------------------------------------ *)
Lemma compare_no_oof : forall f M d a b, wsz a + wsz b < f -> compare M f d a b <> OutOfFuel.
Proof.
  induction f as [|f IH]; intros M d a b Hf; [lia|].
  rewrite compare_unfold. unfold cspec.
  destruct (negb (Z.eqb (tyrank a) (tyrank b))); [discriminate|].
  destruct (view_of a) eqn:Va, (view_of b) eqn:Vb; try discriminate.
  - apply bthen_noof; apply IH; eapply sub_fuel; eauto; unfold elems; rewrite ?Va, ?Vb; simpl; auto.
  - destruct (d =? M); [discriminate|].
    destruct (negb (length l =? length l0)); [discriminate|].
    apply rall2_P; try discriminate.
    intros x y Hx Hy. apply IH.
    eapply sub_fuel; eauto; unfold elems; rewrite ?Va, ?Vb; auto.
  - destruct (d =? M); [discriminate|].
    destruct (negb (length m =? length m0)); [discriminate|].
    apply rmapall_P; try discriminate.
    intros p q Hp Hq.
    destruct (pair_in_elems _ _ _ Va Hp) as [Hp1 Hp2].
    destruct (pair_in_elems _ _ _ Vb Hq) as [Hq1 Hq2].
    apply IH. eapply sub_fuel; eauto.
Qed.

Theorem compare0_terminates : forall M a b, compare0 M a b <> OutOfFuel.
Proof.
  intros M a b. unfold compare0. apply compare_no_oof. unfold fuel_for.
  pose proof (wsz_le a). pose proof (wsz_le b). lia.
Qed.

(* ------------------------------------------------------------------ *)
(* j. the depth-limit panic on a chain nested one level too deep        *)
(* ------------------------------------------------------------------ *)
(* the unfolding of a self-containing list to n levels, with nil at the cut *)
Fixpoint nestk (n : nat) : val :=
  match n with 0 => VNil | S n' => VSeq KList [nestk n'] end.

Lemma vsize_nestk : forall n, vsize (nestk n) = S n.
Proof. induction n; simpl; auto. simpl in IHn. rewrite IHn. lia. Qed.

Lemma rank_nestk_panics : forall n M f d, d <= M -> M < d + n -> n < f ->
  rank M f d (nestk n) (nestk n) = DepthPanic.
Proof.
  induction n as [|n IH]; intros M f d H1 H2 H3; [lia|].
  destruct f as [|f]; [lia|]. rewrite rank_unfold. unfold spec. simpl nestk.
  simpl tyrank. rewrite Z.eqb_refl. simpl negb. cbv iota. simpl view_of. cbv iota.
  destruct (Nat.eqb_spec d M); [reflexivity|].
  unfold rlexswap. simpl. rewrite IH by lia. reflexivity.
Qed.

Lemma compare_nestk_panics : forall n M f d, d <= M -> M < d + n -> n < f ->
  compare M f d (nestk n) (nestk n) = DepthPanic.
Proof.
  induction n as [|n IH]; intros M f d H1 H2 H3; [lia|].
  destruct f as [|f]; [lia|]. rewrite compare_unfold. unfold cspec. simpl nestk.
  simpl tyrank. rewrite Z.eqb_refl. simpl negb. cbv iota. simpl view_of. cbv iota.
  destruct (Nat.eqb_spec d M); [reflexivity|].
  simpl. rewrite IH by lia. reflexivity.
Qed.

Theorem depth_panics : forall M,
  rank0 M (nestk (S M)) (nestk (S M)) = DepthPanic /\
  compare0 M (nestk (S M)) (nestk (S M)) = DepthPanic.
Proof.
  intros M. unfold rank0, compare0, fuel_for. rewrite vsize_nestk. split.
  - apply rank_nestk_panics; lia.
  - apply compare_nestk_panics; lia.
Qed.

(* one level less is within the limit and compares equal *)
Lemma nestk_inU : forall n M, n <= M -> inU M (nestk n) = true.
Proof.
  intros n M H. unfold inU. apply andb_true_intro. split.
  - induction n; simpl; auto. rewrite IHn by lia. reflexivity.
  - apply Nat.leb_le. assert (nest (nestk n) = n) as ->; auto.
    clear H. induction n; simpl; auto. rewrite IHn. lia.
Qed.

(* ------------------------------------------------------------------ *)
(* Purity of compare (needs only the depth bound, no well-formedness)   *)
(* ------------------------------------------------------------------ *)
Fixpoint all2 {A} (r : A -> A -> bool) (xs ys : list A) : bool :=
  match xs, ys with
  | [], _ => true
  | _, [] => true
  | x :: xs', y :: ys' => r x y && all2 r xs' ys'
  end.

Definition mapall (r : val -> val -> bool) (m2 m1 : list (val * val)) : bool :=
  forallb (fun p => match lookup_kv (fst p) m2 with Some v2 => r (snd p) v2 | None => false end) m1.

Definition pcspec (r : val -> val -> bool) (a b : val) : bool :=
  if negb (Z.eqb (tyrank a) (tyrank b)) then false else
  match view_of a, view_of b with
  | WLeaf, WLeaf => leq a b
  | WAssoc k1 v1, WAssoc k2 v2 => r k1 k2 && r v1 v2
  | WArr xs, WArr ys => (length xs =? length ys) && all2 r xs ys
  | WMap m1, WMap m2 => (length m1 =? length m2) && mapall r m2 m1
  | _, _ => false
  end.

Lemma rall2_pure {A} (rec : A -> A -> res bool) (r : A -> A -> bool) :
  forall xs ys, (forall x y, In x xs -> In y ys -> rec x y = R (r x y)) ->
  rall2 rec xs ys = R (all2 r xs ys).
Proof.
  induction xs as [|x xs IH]; destruct ys as [|y ys]; simpl; intros H; auto.
  rewrite H by (left; auto). rewrite IH by (intros; apply H; right; auto).
  destruct (r x y); reflexivity.
Qed.

Lemma rmapall_pure (rec : val -> val -> res bool) (r : val -> val -> bool) :
  forall m2 m1, (forall p q, In p m1 -> In q m2 -> rec (snd p) (snd q) = R (r (snd p) (snd q))) ->
  rmapall rec m2 m1 = R (mapall r m2 m1).
Proof.
  intros m2. induction m1 as [|p m1 IH]; simpl; intros H; auto.
  destruct (lookup_kv (fst p) m2) as [v2|] eqn:L; auto.
  destruct (lookup_in _ _ _ L) as [k' [L' _]].
  pose proof (H p (k', v2) (or_introl eq_refl) L') as Hp. simpl in Hp. rewrite Hp.
  rewrite IH by (intros; apply H; auto; right; auto).
  destruct (r (snd p) v2); reflexivity.
Qed.

Lemma bthen_R : forall a b, bthen (R a) (R b) = R (a && b).
Proof. intros [] b; reflexivity. Qed.

Lemma cspec_pure : forall M d rec r a b,
  nest a + d <= M -> nest b + d <= M ->
  (forall d' x y, In x (elems a) -> In y (elems b) ->
     nest x + d' <= M -> nest y + d' <= M -> rec d' x y = R (r x y)) ->
  cspec M d rec a b = R (pcspec r a b).
Proof.
  intros M d rec r a b Na Nb Hrec. unfold cspec, pcspec.
  destruct (negb (Z.eqb (tyrank a) (tyrank b))); [reflexivity|].
  pose proof (view_nest a) as Sa. pose proof (view_nest b) as Sb.
  pose proof (elems_nest a) as Ea. pose proof (elems_nest b) as Eb.
  unfold elems in *.
  destruct (view_of a) eqn:Va, (view_of b) eqn:Vb; try reflexivity; simpl in Sa, Sb, Ea, Eb.
  - pose proof (Ea k ltac:(simpl; auto)). pose proof (Ea v ltac:(simpl; auto)).
    pose proof (Eb k0 ltac:(simpl; auto)). pose proof (Eb v0 ltac:(simpl; auto)).
    rewrite (Hrec d k k0), (Hrec d v v0); simpl; auto; try lia.
    apply bthen_R.
  - replace (d =? M) with false by (symmetry; apply Nat.eqb_neq; lia).
    destruct (length l =? length l0); simpl; [|reflexivity].
    apply rall2_pure. intros x y Hx Hy.
    specialize (Ea x Hx). specialize (Eb y Hy). apply Hrec; simpl; auto; lia.
  - replace (d =? M) with false by (symmetry; apply Nat.eqb_neq; lia).
    destruct (length m =? length m0); simpl; [|reflexivity].
    apply rmapall_pure. intros p q Hp Hq.
    assert (P2 : In (snd p) (map fst m ++ map snd m)) by (apply in_or_app; right; apply in_map; auto).
    assert (Q2 : In (snd q) (map fst m0 ++ map snd m0)) by (apply in_or_app; right; apply in_map; auto).
    pose proof (Ea _ P2). pose proof (Eb _ Q2). apply Hrec; simpl; auto; lia.
Qed.

Definition unresb (r : res bool) : bool := match r with R c => c | _ => false end.
Definition pcomp (a b : val) : bool :=
  unresb (compare (nest a + nest b) (fuel_for a b) 0 a b).

Lemma compare_pure_aux : forall n a b, wsz a + wsz b <= n ->
  (forall M d f, nest a + d <= M -> nest b + d <= M -> wsz a + wsz b < f ->
     compare M f d a b = R (pcspec pcomp a b)) /\
  (forall M d f, nest a + d <= M -> nest b + d <= M -> wsz a + wsz b < f ->
     compare M f d a b = R (pcomp a b)).
Proof.
  induction n as [|n IH]; intros a b Hn.
  { pose proof (wsz_pos a). lia. }
  assert (E : forall M d f, nest a + d <= M -> nest b + d <= M -> wsz a + wsz b < f ->
     compare M f d a b = R (pcspec pcomp a b)).
  { intros M d f Na Nb Hf. destruct f as [|f]; [lia|].
    rewrite compare_unfold. apply cspec_pure; auto.
    intros d' x y Hx Hy Nx Ny.
    pose proof (elems_size _ _ Hx). pose proof (elems_size _ _ Hy).
    destruct (IH x y ltac:(lia)) as [_ H2]. apply H2; auto. lia. }
  split; auto.
  intros M d f Na Nb Hf. rewrite E; auto.
  assert (pcomp a b = pcspec pcomp a b) as ->; auto.
  unfold pcomp at 1. rewrite E; auto; try lia.
  unfold fuel_for. pose proof (wsz_le a). pose proof (wsz_le b). lia.
Qed.

(* within the depth limit compareValues returns the pure equality: never a panic, never
   out of fuel, independent of fuel, depth and maximum — for arbitrary values *)
Theorem compare_pure : forall M f d a b,
  nest a + d <= M -> nest b + d <= M -> fuel_for a b <= f ->
  compare M f d a b = R (pcomp a b).
Proof.
  intros M f d a b Na Nb Hf.
  destruct (compare_pure_aux _ a b (le_n _)) as [_ H]. apply H; auto.
  unfold fuel_for in Hf. pose proof (wsz_le a). pose proof (wsz_le b). lia.
Qed.

Theorem compare0_pure : forall M a b, nest a <= M -> nest b <= M -> compare0 M a b = R (pcomp a b).
Proof. intros. unfold compare0. apply compare_pure; auto; lia. Qed.

Lemma Rb_inj : forall x y : bool, @R bool x = R y -> x = y.
Proof. intros x y H. injection H. auto. Qed.

Lemma pcomp_eq : forall a b, pcomp a b = pcspec pcomp a b.
Proof.
  intros a b.
  destruct (compare_pure_aux _ a b (le_n _)) as [H1 H2].
  apply Rb_inj.
  rewrite <- (H1 (nest a + nest b) 0 (fuel_for a b)), <- (H2 (nest a + nest b) 0 (fuel_for a b));
    auto; try lia; unfold fuel_for; pose proof (wsz_le a); pose proof (wsz_le b); lia.
Qed.

(* ------------------------------------------------------------------ *)
(* The universe for C08                                                 *)
(* ------------------------------------------------------------------ *)
(* keys on which Go's == (used by MapIndex) and the ranking agree: no NaN, no pointers
   (== is identity, the ranking looks at the content), no complex numbers (== ignores the
   magnitude / phase oracle fields), nothing unhashable *)
Definition ckey (k : val) : bool :=
  match k with
  | VNil | VBool _ | VInt _ _ | VUint _ _ | VByte _ | VRune _ | VStr _ => true
  | VFloat _ x => negb (f_isnan x)
  | _ => false
  end.

Fixpoint wfx (v : val) : bool :=
  match v with
  | VSeq _ l => forallb wfx l
  | VAssoc k v => wfx k && wfx v
  | VMapping MCatalog ks vs => forallb wfx ks && forallb wfx vs
  | VMapping _ ks vs => forallb ckey ks && kdistinctb ks && forallb wfx vs
  | _ => true
  end.

(* wf: map keys are key-like intrinsics, pairwise different under the ranking *)
Definition wf (v : val) : bool := wf0 v && wfx v.
Definition inW (M : nat) (v : val) : bool := wf v && (nest v <=? M).

Lemma wf_spec : forall v, wf v = true -> wf0 v = true /\ wfx v = true.
Proof. intros v H. apply andb_prop in H. auto. Qed.
Lemma inW_spec : forall M v, inW M v = true -> wf v = true /\ nest v <= M.
Proof. intros M v H. apply andb_prop in H. destruct H as [H1 H2]. apply Nat.leb_le in H2. auto. Qed.
Lemma inW_inU : forall M v, inW M v = true -> inU M v = true.
Proof.
  intros M v H. apply inW_spec in H. destruct H as [H1 H2]. apply wf_spec in H1.
  unfold inU. apply andb_true_intro. split; [tauto|apply Nat.leb_le; auto].
Qed.

Lemma ckey_leaf : forall k, ckey k = true -> is_leaf k = true.
Proof. destruct k; simpl; auto; discriminate. Qed.
Lemma leaf_wfx : forall v, is_leaf v = true -> wfx v = true.
Proof. destruct v as [ | | | | | | | | | | | | | |[]]; simpl; auto; discriminate. Qed.

Lemma elems_wfx : forall a x, wfx a = true -> In x (elems a) -> wfx x = true.
Proof.
  intros a x. unfold elems.
  destruct a as [ | | | | | | | | | | | |k l |k v |[] ks vs]; simpl; try tauto.
  - intros H Hx. eapply forallb_in; eauto.
  - intros H [Hx|[Hx|[]]]; subst; apply andb_prop in H; tauto.
  - intros H Hx. apply andb_prop in H. destruct H as [H Hvs]. apply andb_prop in H. destruct H as [Hks _].
    apply in_pair_elems in Hx. destruct Hx as [[k v] [H1 H2]]. simpl in H2.
    apply zipkv_in in H1. destruct H1 as [Hk Hv].
    destruct H2; subst; [apply leaf_wfx, ckey_leaf|]; eapply forallb_in; eauto.
  - intros H Hx. apply andb_prop in H. destruct H as [H Hvs]. apply andb_prop in H. destruct H as [Hks _].
    apply in_pair_elems in Hx. destruct Hx as [[k v] [H1 H2]]. simpl in H2.
    apply zipkv_in in H1. destruct H1 as [Hk Hv].
    destruct H2; subst; [apply leaf_wfx, ckey_leaf|]; eapply forallb_in; eauto.
  - intros H Hx. apply andb_prop in H. destruct H as [Hks Hvs].
    apply in_assocs in Hx. destruct Hx as [k [v [-> Hx]]].
    apply zipkv_in in Hx. destruct Hx as [Hk Hv]. simpl.
    rewrite (forallb_in _ _ _ Hks Hk), (forallb_in _ _ _ Hvs Hv). reflexivity.
Qed.

Lemma elems_wf : forall a x, wf a = true -> In x (elems a) -> wf x = true.
Proof.
  intros a x H Hx. apply wf_spec in H. destruct H as [H1 H2]. unfold wf.
  rewrite (elems_wf0 a x H1 Hx), (elems_wfx a x H2 Hx). reflexivity.
Qed.

Lemma wf_map : forall a m, wf a = true -> view_of a = WMap m ->
  (forall p, In p m -> ckey (fst p) = true) /\ distinct (val * val) (keyr lrank) m.
Proof.
  intros a m H V. apply wf_spec in H. destruct H as [_ H].
  destruct a as [ | | | | | | | | | | | |k0 l |k0 v0 |[] ks vs]; simpl in V; try discriminate;
  inversion V; subst; simpl in H; apply andb_prop in H; destruct H as [H Hvs];
  apply andb_prop in H; destruct H as [Hks Hd]; (split; [|apply kdistinct_zip; auto]);
  intros [k v] Hp; apply zipkv_in in Hp; destruct Hp as [Hk _]; simpl; eapply forallb_in; eauto.
Qed.

Lemma pair_ind_wf : forall (P : val -> val -> Prop),
  (forall a b, wf a = true -> wf b = true ->
     (forall x y, In x (elems a) -> In y (elems b) -> P x y) -> P a b) ->
  forall a b, wf a = true -> wf b = true -> P a b.
Proof.
  intros P H a b Wa Wb. apply wf_spec in Wa, Wb. destruct Wa as [Wa Xa], Wb as [Wb Xb].
  revert Xa Xb.
  apply (pair_ind (fun a b => wfx a = true -> wfx b = true -> P a b)); auto.
  clear a b Wa Wb. intros a b Wa Wb IH Xa Xb.
  apply H; try (unfold wf; rewrite ?Wa, ?Wb, ?Xa, ?Xb; reflexivity).
  intros x y Hx Hy. apply IH; auto; [apply (elems_wfx a)|apply (elems_wfx b)]; auto.
Qed.

(* ---------- widths ---------- *)
(* two leaves of one coarse type carry the same width tag (int8 vs int64, float32 vs float64) *)
Definition wcompat (a b : val) : bool :=
  match a, b with
  | VInt w _, VInt w' _ | VUint w _, VUint w' _ | VFloat w _, VFloat w' _ => Z.eqb w w'
  | VComplex w _ _ _ _, VComplex w' _ _ _ _ => Z.eqb w w'
  | _, _ => true
  end.

(* "values of one type": wherever the ranking finds two leaves (or two map keys) equal, they
   have the same Go type, i.e. the same width tag; corresponding parts recursively *)
Inductive same_type : val -> val -> Prop :=
| ST : forall a b,
    (is_leaf a = true -> is_leaf b = true -> lrank a b = Eq -> wcompat a b = true) ->
    (forall k1 v1 k2 v2, view_of a = WAssoc k1 v1 -> view_of b = WAssoc k2 v2 ->
       same_type k1 k2 /\ same_type v1 v2) ->
    (forall xs ys, view_of a = WArr xs -> view_of b = WArr ys -> length xs = length ys ->
       Forall2 same_type xs ys) ->
    (forall m1 m2, view_of a = WMap m1 -> view_of b = WMap m2 ->
       forall p q, In p m1 -> In q m2 -> lrank (fst p) (fst q) = Eq ->
       wcompat (fst p) (fst q) = true /\ same_type (snd p) (snd q)) ->
    same_type a b.

(* ---------- leaves ---------- *)
Lemma lexZ_eq_iff : forall s t, lexZ s t = Eq <-> list_eqb Z.eqb s t = true.
Proof.
  induction s as [|x s IH]; destruct t as [|y t]; simpl; split; intros H; try discriminate; auto.
  - destruct (Z.compare_spec x y); try discriminate. subst. rewrite Z.eqb_refl. simpl. apply IH; auto.
  - apply andb_prop in H. destruct H as [H1 H2]. apply Z.eqb_eq in H1. subst.
    rewrite Z.compare_refl. apply IH; auto.
Qed.

Lemma rank_complex_lexZ : forall r1 i1 a1 p1 r2 i2 a2 p2,
  rank_complex r1 i1 a1 p1 r2 i2 a2 p2 =
  lexZ [f_ord a1; f_ord p1; f_ord r1; f_ord i1] [f_ord a2; f_ord p2; f_ord r2; f_ord i2].
Proof.
  intros. unfold rank_complex, rank_float. simpl.
  destruct (f_ord a1 ?= f_ord a2)%Z; auto. destruct (f_ord p1 ?= f_ord p2)%Z; auto.
  destruct (f_ord r1 ?= f_ord r2)%Z; auto. destruct (f_ord i1 ?= f_ord i2)%Z; auto.
Qed.

Lemma cmp_eqb_iff : forall c, comparison_eqb c Eq = true <-> c = Eq.
Proof. destruct c; simpl; split; auto; discriminate. Qed.

Lemma Zcmp1 : forall x y : Z, match (x ?= y)%Z with Eq => Eq | Lt => Lt | Gt => Gt end = Eq <-> Z.eqb x y = true.
Proof.
  intros. destruct (Z.compare_spec x y); split; intros H0; try discriminate; auto.
  - apply Z.eqb_eq; auto.
  - apply Z.eqb_eq in H0. lia.
  - apply Z.eqb_eq in H0. lia.
Qed.

Ltac leaf_cases a b La Lb Ht :=
  destruct a as [ | | | | | | | | | | | | | |[]]; try (simpl in La; discriminate La);
  destruct b as [ | | | | | | | | | | | | | |[]]; try (simpl in Lb; discriminate Lb);
  try (simpl in Ht; discriminate Ht); clear La Lb Ht.

Lemma leq_lrank_fwd : forall a b, is_leaf a = true -> is_leaf b = true -> tyrank a = tyrank b ->
  leq a b = true -> lrank a b = Eq.
Proof.
  intros a b La Lb Ht H. leaf_cases a b La Lb Ht; unfold lrank; simpl; simpl in H; auto.
  - destruct b0, b; simpl in *; auto; discriminate.
  - apply andb_prop in H. destruct H as [_ H]. apply Zcmp1; auto.
  - apply andb_prop in H. destruct H as [_ H]. apply Zcmp1; auto.
  - apply Zcmp1; auto.
  - apply Zcmp1; auto.
  - apply andb_prop in H. destruct H as [_ H]. apply Zcmp1; auto.
  - apply andb_prop in H. destruct H as [_ H]. apply cmp_eqb_iff in H.
    rewrite rank_complex_lexZ in H. exact H.
  - apply lexZ_eq_iff; auto.
  - apply Zcmp1; auto.
Qed.

Lemma leq_lrank_bwd : forall a b, is_leaf a = true -> is_leaf b = true -> tyrank a = tyrank b ->
  wcompat a b = true -> lrank a b = Eq -> leq a b = true.
Proof.
  intros a b La Lb Ht Hw H. leaf_cases a b La Lb Ht; unfold lrank in H; simpl in H; simpl; simpl in Hw; auto.
  - destruct b0, b; simpl in *; auto; discriminate.
  - rewrite Hw. simpl. apply Zcmp1; auto.
  - rewrite Hw. simpl. apply Zcmp1; auto.
  - apply Zcmp1; auto.
  - apply Zcmp1; auto.
  - rewrite Hw. simpl. apply Zcmp1; auto.
  - rewrite Hw. simpl. apply cmp_eqb_iff. rewrite rank_complex_lexZ. exact H.
  - apply lexZ_eq_iff; auto.
  - apply Zcmp1; auto.
Qed.

Lemma lrank_eq_ty : forall a b, lrank a b = Eq -> tyrank a = tyrank b.
Proof.
  intros a b H. unfold lrank, lkey in H. simpl in H.
  destruct (Z.compare_spec (tyrank a) (tyrank b)); auto; discriminate.
Qed.

Lemma keq_ty : forall a b, keq a b = true -> tyrank a = tyrank b.
Proof. intros a b H. destruct a, b; simpl in H; try discriminate; reflexivity. Qed.

Lemma keq_leq : forall k k', ckey k = true -> ckey k' = true -> keq k k' = leq k k'.
Proof.
  intros k k' C C'. destruct k; try discriminate C; destruct k'; try discriminate C'; try reflexivity.
  simpl in *. unfold f_eq_go, f_eq, f_ord.
  apply negb_true_iff in C, C'. rewrite C, C'. simpl. reflexivity.
Qed.

Lemma keq_lrank_fwd : forall k k', ckey k = true -> ckey k' = true ->
  keq k k' = true -> lrank k k' = Eq.
Proof.
  intros k k' C C' H. apply leq_lrank_fwd; auto using ckey_leaf, keq_ty.
  rewrite <- keq_leq; auto.
Qed.

Lemma keq_lrank_bwd : forall k k', ckey k = true -> ckey k' = true ->
  wcompat k k' = true -> lrank k k' = Eq -> keq k k' = true.
Proof.
  intros k k' C C' W H. rewrite keq_leq by auto.
  apply leq_lrank_bwd; auto using ckey_leaf, lrank_eq_ty.
Qed.

Lemma lrank_eq_sym : forall a b, lrank a b = Eq -> lrank b a = Eq.
Proof. intros a b H. rewrite lrank_anti, H. reflexivity. Qed.
Lemma lrank_eq_trans : forall a b c, lrank a b = Eq -> lrank b c = Eq -> lrank a c = Eq.
Proof. intros a b c H1 H2. pose proof (lrank_ctr a b c) as T. rewrite H1, H2 in T. exact T. Qed.

(* ------------------------------------------------------------------ *)
(* g. compare = true exactly when the ranking says Equal                *)
(* ------------------------------------------------------------------ *)
Lemma all2_forall2 {A} (r : A -> A -> bool) : forall xs ys, length xs = length ys ->
  (all2 r xs ys = true <-> Forall2 (fun x y => r x y = true) xs ys).
Proof.
  induction xs as [|x xs IH]; destruct ys as [|y ys]; simpl; intros L; try discriminate.
  - split; auto.
  - injection L as L. rewrite andb_true_iff, (IH ys L). split.
    + intros [H1 H2]. constructor; auto.
    + intros H. inversion H; subst. auto.
Qed.

Lemma Forall2_impl_in {A} (P Q : A -> A -> Prop) : forall l1 l2,
  Forall2 P l1 l2 -> (forall x y, In x l1 -> In y l2 -> P x y -> Q x y) -> Forall2 Q l1 l2.
Proof.
  induction 1; intros H'; constructor.
  - apply H'; simpl; auto.
  - apply IHForall2. intros; apply H'; simpl; auto.
Qed.

Lemma Forall2_zip_in {A} (S P Q : A -> A -> Prop) : forall l1 l2,
  Forall2 S l1 l2 -> (forall x y, In x l1 -> In y l2 -> S x y -> (P x y <-> Q x y)) ->
  (Forall2 P l1 l2 <-> Forall2 Q l1 l2).
Proof.
  induction 1; intros H'.
  - split; constructor.
  - assert (Forall2 P l l' <-> Forall2 Q l l') as IH
      by (apply IHForall2; intros; apply H'; simpl; auto).
    pose proof (H' x y (or_introl eq_refl) (or_introl eq_refl) H) as Hxy.
    split; intros F; inversion F; subst; constructor; tauto.
Qed.

Lemma Forall2_len {A} (R : A -> A -> Prop) : forall l1 l2, Forall2 R l1 l2 -> length l1 = length l2.
Proof. induction 1; simpl; auto. Qed.

Lemma Forall2_In_l {A} (R : A -> A -> Prop) : forall l1 l2 p,
  Forall2 R l1 l2 -> In p l1 -> exists q, In q l2 /\ R p q.
Proof.
  induction 1; intros Hp; [inversion Hp|].
  destruct Hp as [->|Hp].
  - exists y. simpl. auto.
  - destruct (IHForall2 Hp) as [q [H1 H2]]. exists q. simpl. auto.
Qed.

Lemma lookup_unique : forall k m q, In q m -> keq k (fst q) = true ->
  (forall q', In q' m -> keq k (fst q') = true -> q' = q) ->
  lookup_kv k m = Some (snd q).
Proof.
  induction m as [|[k' v'] m IH]; intros q Hq Hk Hu; [inversion Hq|].
  simpl. destruct (keq k k') eqn:E.
  - rewrite <- (Hu (k', v')); simpl; auto.
  - destruct Hq as [<-|Hq]; [simpl in Hk; congruence|].
    apply IH; auto. intros; apply Hu; simpl; auto.
Qed.

Lemma sortk_in : forall m p, In p (sortk m) <-> In p m.
Proof.
  intros m p. unfold sortk. split; apply Permutation_in;
  [apply sort_perm|apply Permutation_sym, sort_perm].
Qed.

Lemma map_case : forall (r : val -> val -> comparison) (c : val -> val -> bool) a b m1 m2,
  (forall x y, is_leaf x = true -> is_leaf y = true -> r x y = lrank x y) ->
  wf a = true -> wf b = true -> view_of a = WMap m1 -> view_of b = WMap m2 ->
  (forall p q, In p m1 -> In q m2 -> lrank (fst p) (fst q) = Eq ->
     wcompat (fst p) (fst q) = true /\ (c (snd p) (snd q) = true <-> r (snd p) (snd q) = Eq)) ->
  ((length m1 =? length m2) && mapall c m2 m1 = true <->
   lex (pairr r) (sortk m1) (sortk m2) = Eq).
Proof.
  intros r c a b m1 m2 RL Wa Wb Va Vb HST.
  destruct (wf_map a m1 Wa Va) as [K1 D1]. destruct (wf_map b m2 Wb Vb) as [K2 D2].
  assert (KL : forall p q, In p m1 -> In q m2 -> r (fst p) (fst q) = lrank (fst p) (fst q)).
  { intros. apply RL; apply ckey_leaf; auto. }
  rewrite lex_eq_iff, andb_true_iff. split.
  - intros [HL HM]. apply Nat.eqb_eq in HL. unfold mapall in HM. rewrite forallb_forall in HM.
    assert (HM' : forall p, In p m1 -> exists q, In q m2 /\ lrank (fst p) (fst q) = Eq /\
                   c (snd p) (snd q) = true).
    { intros p Hp. specialize (HM p Hp).
      destruct (lookup_kv (fst p) m2) as [v2|] eqn:L; [|discriminate].
      destruct (lookup_in _ _ _ L) as [k' [L1 L2]]. exists (k', v2). simpl.
      repeat split; auto. apply keq_lrank_fwd; auto. apply (K2 (k', v2)); auto. }
    assert (SM : Forall2 (fun p q => keyr lrank p q = Eq) (sortk m1) (sortk m2)).
    { apply (sort_match _ _ keyr_lrank_refl keyr_lrank_anti keyr_lrank_ctr); auto.
      intros p Hp. destruct (HM' p Hp) as [q [Hq [E _]]]. exists q. auto. }
    eapply Forall2_impl_in; [exact SM|].
    intros p q Hp Hq E. apply (proj1 (sortk_in _ _)) in Hp. apply (proj1 (sortk_in _ _)) in Hq. unfold keyr in E.
    unfold pairr. apply cthen_eq. rewrite KL by auto. split; auto.
    destruct (HM' p Hp) as [q' [Hq' [E' C']]].
    assert (q' = q) as ->.
    { destruct D2 as [_ D2]. apply D2; auto. unfold keyr.
      apply (lrank_eq_trans _ (fst p)); auto. apply lrank_eq_sym; auto. }
    apply (HST p q); auto.
  - intros F.
    assert (HL : length m1 = length m2).
    { apply Forall2_len in F. unfold sortk in F. rewrite !sort_length in F. auto. }
    split; [apply Nat.eqb_eq; auto|].
    unfold mapall. apply forallb_forall. intros p Hp.
    destruct (Forall2_In_l _ _ _ p F) as [q [Hq E]]; [apply sortk_in; auto|].
    apply (proj1 (sortk_in _ _)) in Hq. unfold pairr in E. apply cthen_eq in E. destruct E as [E1 E2].
    rewrite KL in E1 by auto.
    destruct (HST p q Hp Hq E1) as [W HV].
    assert (KQ : keq (fst p) (fst q) = true) by (apply keq_lrank_bwd; auto).
    rewrite (lookup_unique (fst p) m2 q); auto.
    + apply HV; auto.
    + intros q' Hq' KQ'. destruct D2 as [_ D2]. apply D2; auto. unfold keyr.
      apply (lrank_eq_trans _ (fst p)).
      * apply lrank_eq_sym. apply keq_lrank_fwd; auto.
      * auto.
Qed.

Lemma agree_step : forall (r : val -> val -> comparison) (c : val -> val -> bool) a b,
  (forall x y, is_leaf x = true -> is_leaf y = true -> r x y = lrank x y) ->
  wf a = true -> wf b = true -> same_type a b ->
  (forall x y, In x (elems a) -> In y (elems b) -> same_type x y -> (c x y = true <-> r x y = Eq)) ->
  (pcspec c a b = true <->
   cthen (tyrank a ?= tyrank b)%Z (cthen (vtag a ?= vtag b)%Z (psame2 r a b)) = Eq).
Proof.
  intros r c a b RL Wa Wb ST0 IH.
  unfold pcspec.
  destruct (Z.compare_spec (tyrank a) (tyrank b)) as [E|E|E].
  2:{ replace (tyrank a =? tyrank b)%Z with false by (symmetry; apply Z.eqb_neq; lia).
      simpl. split; discriminate. }
  2:{ replace (tyrank a =? tyrank b)%Z with false by (symmetry; apply Z.eqb_neq; lia).
      simpl. split; discriminate. }
  rewrite E, Z.eqb_refl. simpl negb. cbv iota. simpl cthen.
  inversion ST0 as [a' b' SL SA SR SM]; subst a' b'.
  unfold vtag, psame2.
  destruct (view_of a) eqn:Va, (view_of b) eqn:Vb; simpl; try (split; discriminate).
  - (* leaves *)
    assert (La : is_leaf a = true) by (unfold is_leaf; rewrite Va; auto).
    assert (Lb : is_leaf b = true) by (unfold is_leaf; rewrite Vb; auto).
    split; intros H.
    + apply leq_lrank_fwd; auto.
    + apply leq_lrank_bwd; auto.
  - (* associations *)
    destruct (SA _ _ _ _ eq_refl eq_refl) as [S1 S2].
    destruct (view_elems_assoc _ _ _ Va), (view_elems_assoc _ _ _ Vb).
    rewrite andb_true_iff, cthen_eq. rewrite (IH k k0), (IH v v0); auto. tauto.
  - (* arrays *)
    rewrite lex_eq_iff, andb_true_iff. split.
    + intros [HL HA]. apply Nat.eqb_eq in HL.
      apply (all2_forall2 _ _ _ HL) in HA.
      apply (Forall2_zip_in same_type (fun x y => c x y = true) (fun x y => r x y = Eq) l l0); auto.
      intros x y Hx Hy Sxy. apply IH; auto; eapply view_elems_arr; eauto.
    + intros F. pose proof (Forall2_len _ _ _ F) as HL. split; [apply Nat.eqb_eq; auto|].
      apply (all2_forall2 _ _ _ HL).
      apply (Forall2_zip_in same_type (fun x y => c x y = true) (fun x y => r x y = Eq) l l0); auto.
      intros x y Hx Hy Sxy. apply IH; auto; eapply view_elems_arr; eauto.
  - (* maps *)
    apply (map_case r c a b); auto.
    intros p q Hp Hq E1. destruct (SM _ _ eq_refl eq_refl p q Hp Hq E1) as [W S2].
    split; auto. apply IH; auto.
    + apply (pair_in_elems a m p); auto.
    + apply (pair_in_elems b m0 q); auto.
Qed.

Theorem pcomp_iff_prank : forall a b, wf a = true -> wf b = true -> same_type a b ->
  (pcomp a b = true <-> prank a b = Eq).
Proof.
  apply (pair_ind_wf (fun a b => same_type a b -> (pcomp a b = true <-> prank a b = Eq))).
  intros a b Wa Wb IH ST0.
  pose proof (wf_spec _ Wa) as [Wa0 _]. pose proof (wf_spec _ Wb) as [Wb0 _].
  rewrite pcomp_eq, prank_tags2 by auto.
  apply agree_step; auto. apply prank_leaf.
Qed.

Theorem compare_iff_rank : forall M a b, inW M a = true -> inW M b = true -> same_type a b ->
  (compare0 M a b = R true <-> rank0 M a b = R Eq) /\
  (compare0 M a b = R true \/ compare0 M a b = R false).
Proof.
  intros M a b Ha Hb S.
  rewrite (rank0_prank M a b) by (apply inW_inU; auto).
  apply inW_spec in Ha, Hb. destruct Ha as [Wa Na], Hb as [Wb Nb].
  rewrite compare0_pure by auto.
  pose proof (pcomp_iff_prank a b Wa Wb S) as G.
  split.
  - split; intros H.
    + apply Rb_inj in H. f_equal. apply G; auto.
    + apply R_inj in H. f_equal. apply G; auto.
  - destruct (pcomp a b); auto.
Qed.

(* the boundary: without the width hypothesis the statement fails (int8(1) vs int64(1)) *)
Theorem compare_iff_rank_refuted :
  exists M a b, inW M a = true /\ inW M b = true /\
    rank0 M a b = R Eq /\ compare0 M a b = R false.
Proof. exists 16, (VInt 8 1), (VInt 64 1). repeat split; vm_compute; reflexivity. Qed.

(* ---------- same_type is reflexive on wf and symmetric ---------- *)
Lemma wcompat_refl : forall a, wcompat a a = true.
Proof. destruct a; simpl; auto; apply Z.eqb_refl. Qed.
Lemma wcompat_sym : forall a b, wcompat a b = wcompat b a.
Proof. intros a b; destruct a; destruct b; simpl; auto; apply Z.eqb_sym. Qed.

Lemma single_ind_wf : forall (P : val -> Prop),
  (forall a, wf a = true -> (forall x, In x (elems a) -> P x) -> P a) ->
  forall a, wf a = true -> P a.
Proof.
  intros P H a Wa. apply wf_spec in Wa. destruct Wa as [Wa Xa]. revert Xa.
  apply (single_ind (fun a => wfx a = true -> P a)); auto.
  clear a Wa. intros a Wa IH Xa.
  apply H; try (unfold wf; rewrite ?Wa, ?Xa; reflexivity).
  intros x Hx. apply IH; auto. apply (elems_wfx a); auto.
Qed.

Lemma Forall2_refl_in {A} (R : A -> A -> Prop) : forall l, (forall x, In x l -> R x x) -> Forall2 R l l.
Proof. induction l; intros H; constructor; [apply H; simpl; auto|apply IHl; intros; apply H; simpl; auto]. Qed.

Theorem same_type_refl : forall a, wf a = true -> same_type a a.
Proof.
  apply (single_ind_wf (fun a => same_type a a)).
  intros a Wa IH. constructor.
  - intros. apply wcompat_refl.
  - intros k1 v1 k2 v2 V1 V2. rewrite V1 in V2. inversion V2; subst.
    destruct (view_elems_assoc _ _ _ V1). split; apply IH; auto.
  - intros xs ys V1 V2 _. rewrite V1 in V2. inversion V2; subst.
    apply Forall2_refl_in. intros x Hx. apply IH. eapply view_elems_arr; eauto.
  - intros m1 m2 V1 V2 p q Hp Hq E. rewrite V1 in V2. inversion V2; subst.
    destruct (wf_map a m2 Wa V1) as [_ [_ D]].
    assert (p = q) as -> by (apply D; auto).
    split; [apply wcompat_refl|]. apply IH. apply (pair_in_elems a m2 q); auto.
Qed.

Lemma pair_ind0 : forall (P : val -> val -> Prop),
  (forall a b, (forall x y, In x (elems a) -> In y (elems b) -> P x y) -> P a b) ->
  forall a b, P a b.
Proof.
  intros P H.
  assert (forall n a b, wsz a + wsz b <= n -> P a b) as G.
  { induction n as [|n IH]; intros a b Hn.
    - pose proof (wsz_pos a). lia.
    - apply H; auto. intros x y Hx Hy.
      pose proof (elems_size _ _ Hx). pose proof (elems_size _ _ Hy).
      apply IH; lia. }
  intros a b. apply (G _ a b (le_n _)).
Qed.

Lemma Forall2_flip_in {A} (R S : A -> A -> Prop) : forall l1 l2,
  Forall2 R l1 l2 -> (forall x y, In x l1 -> In y l2 -> R x y -> S y x) -> Forall2 S l2 l1.
Proof.
  induction 1; intros H'; constructor.
  - apply H'; simpl; auto.
  - apply IHForall2. intros; apply H'; simpl; auto.
Qed.

Theorem same_type_sym : forall a b, same_type a b -> same_type b a.
Proof.
  apply (pair_ind0 (fun a b => same_type a b -> same_type b a)).
  intros a b IH S. inversion S as [a' b' SL SA SR SM]; subst a' b'. constructor.
  - intros Lb La E. rewrite wcompat_sym. apply SL; auto. apply lrank_eq_sym; auto.
  - intros k1 v1 k2 v2 V1 V2. destruct (SA _ _ _ _ V2 V1) as [S1 S2].
    destruct (view_elems_assoc _ _ _ V1), (view_elems_assoc _ _ _ V2). split; apply IH; auto.
  - intros xs ys V1 V2 L. specialize (SR _ _ V2 V1 (eq_sym L)).
    eapply Forall2_flip_in; [exact SR|]. intros x y Hx Hy Sxy.
    apply IH; auto; eapply view_elems_arr; eauto.
  - intros m1 m2 V1 V2 p q Hp Hq E.
    destruct (SM _ _ V2 V1 q p Hq Hp (lrank_eq_sym _ _ E)) as [W S2].
    rewrite wcompat_sym. split; auto. apply IH; auto.
    + apply (pair_in_elems a m2 q); auto.
    + apply (pair_in_elems b m1 p); auto.
Qed.

(* ---------- h. compare is an equivalence ---------- *)
Theorem compare_refl : forall M a, inW M a = true -> compare0 M a a = R true.
Proof.
  intros M a Ha. pose proof (inW_spec _ _ Ha) as [Wa _].
  apply (compare_iff_rank M a a Ha Ha (same_type_refl a Wa)).
  apply rank_refl. apply inW_inU; auto.
Qed.

Lemma bool_iff_eq : forall x y : bool, (x = true <-> y = true) -> x = y.
Proof. intros [] [] H; auto; [symmetry|]; apply H; auto. Qed.

Theorem compare_sym : forall M a b, inW M a = true -> inW M b = true -> same_type a b ->
  compare0 M b a = compare0 M a b.
Proof.
  intros M a b Ha Hb S.
  pose proof (inW_spec _ _ Ha) as [Wa Na]. pose proof (inW_spec _ _ Hb) as [Wb Nb].
  rewrite !compare0_pure by auto. f_equal. apply bool_iff_eq.
  rewrite (pcomp_iff_prank b a Wb Wa (same_type_sym _ _ S)), (pcomp_iff_prank a b Wa Wb S).
  apply wf_spec in Wa, Wb. rewrite (prank_anti a b) by tauto.
  destruct (prank a b); simpl; split; auto; discriminate.
Qed.

Theorem compare_trans : forall M a b c, inW M a = true -> inW M b = true -> inW M c = true ->
  same_type a b -> same_type b c -> same_type a c ->
  compare0 M a b = R true -> compare0 M b c = R true -> compare0 M a c = R true.
Proof.
  intros M a b c Ha Hb Hc Sab Sbc Sac H1 H2.
  apply (compare_iff_rank M a b Ha Hb Sab) in H1.
  apply (compare_iff_rank M b c Hb Hc Sbc) in H2.
  apply (compare_iff_rank M a c Ha Hc Sac).
  destruct (rank_ctr M a b c) as (x & y & z & E1 & E2 & E3 & T); try (apply inW_inU; auto).
  rewrite E1 in H1. rewrite E2 in H2. apply R_inj in H1, H2. subst. simpl in T. subst. auto.
Qed.

(* ---------- i. sensitivity to single-part changes in sequences ---------- *)
Lemma all2_app_mid : forall (r : val -> val -> bool) l1 x y l2,
  (forall z, In z (l1 ++ l2) -> r z z = true) ->
  all2 r (l1 ++ x :: l2) (l1 ++ y :: l2) = r x y.
Proof.
  induction l1 as [|z l1 IH]; intros x y l2 H; simpl.
  - assert (all2 r l2 l2 = true) as ->; [|apply andb_true_r].
    induction l2 as [|w l2 IH2]; simpl; auto.
    rewrite H by (simpl; auto). rewrite IH2; auto. intros; apply H; simpl; auto.
  - rewrite H by (simpl; auto). simpl. apply IH. intros; apply H; simpl; auto.
Qed.

Lemma inW_seq : forall M k l x, inW M (VSeq k l) = true -> In x l -> inW M x = true.
Proof.
  intros M k l x H Hx. apply inW_spec in H. destruct H as [W N]. unfold inW.
  rewrite (elems_wf (VSeq k l) x W Hx). simpl. apply Nat.leb_le.
  pose proof (elems_nest (VSeq k l) x Hx). simpl vstep in *. lia.
Qed.

Lemma pcomp_refl : forall a, wf a = true -> pcomp a a = true.
Proof.
  intros a Wa. apply pcomp_iff_prank; auto using same_type_refl.
  apply prank_refl. apply wf_spec in Wa. tauto.
Qed.

Theorem compare_seq_one_change : forall M k l1 x y l2,
  inW M (VSeq k (l1 ++ x :: l2)) = true -> inW M (VSeq k (l1 ++ y :: l2)) = true ->
  compare0 M (VSeq k (l1 ++ x :: l2)) (VSeq k (l1 ++ y :: l2)) = compare0 M x y.
Proof.
  intros M k l1 x y l2 H1 H2.
  pose proof (inW_seq _ _ _ x H1 ltac:(apply in_or_app; simpl; auto)) as Hx.
  pose proof (inW_seq _ _ _ y H2 ltac:(apply in_or_app; simpl; auto)) as Hy.
  assert (Hz : forall z, In z (l1 ++ l2) -> pcomp z z = true).
  { intros z Hz. apply pcomp_refl.
    assert (In z (l1 ++ x :: l2)) as I by (apply in_app_or in Hz; apply in_or_app; simpl; tauto).
    pose proof (inW_seq _ _ _ z H1 I) as Wz. apply inW_spec in Wz. tauto. }
  apply inW_spec in H1, H2, Hx, Hy.
  rewrite !compare0_pure by tauto. f_equal.
  rewrite pcomp_eq. unfold pcspec.
  replace (tyrank (VSeq k (l1 ++ x :: l2)) =? tyrank (VSeq k (l1 ++ y :: l2)))%Z with true
    by (symmetry; apply Z.eqb_eq; destruct k; reflexivity).
  simpl negb. cbv iota. simpl view_of. cbv iota.
  rewrite !app_length. simpl length. rewrite Nat.eqb_refl. simpl.
  apply all2_app_mid; auto.
Qed.

Corollary compare_seq_one_change_unequal : forall M k l1 x y l2,
  inW M (VSeq k (l1 ++ x :: l2)) = true -> inW M (VSeq k (l1 ++ y :: l2)) = true ->
  compare0 M x y = R false ->
  compare0 M (VSeq k (l1 ++ x :: l2)) (VSeq k (l1 ++ y :: l2)) = R false.
Proof. intros. rewrite compare_seq_one_change; auto. Qed.

(* adding or removing an element: sequences of different lengths are unequal (any values
   within the depth limit) *)
Theorem compare_seq_length : forall M k l1 l2, length l1 <> length l2 ->
  nest (VSeq k l1) <= M -> nest (VSeq k l2) <= M ->
  compare0 M (VSeq k l1) (VSeq k l2) = R false.
Proof.
  intros M k l1 l2 HL N1 N2. rewrite compare0_pure by auto. f_equal.
  rewrite pcomp_eq. unfold pcspec.
  replace (tyrank (VSeq k l1) =? tyrank (VSeq k l2))%Z with true
    by (symmetry; apply Z.eqb_eq; destruct k; reflexivity).
  simpl negb. cbv iota. simpl view_of. cbv iota.
  apply Nat.eqb_neq in HL. rewrite HL. reflexivity.
Qed.

(* different collection kinds / different coarse types are never equal *)
Theorem compare_type_mismatch : forall M a b, tyrank a <> tyrank b -> compare0 M a b = R false.
Proof.
  intros M a b H. unfold compare0, fuel_for. rewrite compare_unfold. unfold cspec.
  apply Z.eqb_neq in H. rewrite H. reflexivity.
Qed.

(* ---------- k. calls are independent; a panic leaves no trace ---------- *)
Inductive call := CallRank (a b : val) | CallCompare (a b : val).
Definition call_result (M : nat) (c : call) : res comparison + res bool :=
  match c with
  | CallRank a b => inl (rank0 M a b)
  | CallCompare a b => inr (compare0 M a b)
  end.
Definition run_calls (M : nat) (cs : list call) : list (res comparison + res bool) :=
  map (call_result M) cs.

Theorem after_panic_ok : forall M before c after,
  nth (length before) (run_calls M (before ++ c :: after)) (inl OutOfFuel) = call_result M c.
Proof.
  intros. unfold run_calls. rewrite map_app. rewrite app_nth2; rewrite map_length; auto.
  rewrite Nat.sub_diag. reflexivity.
Qed.

(* in particular: after the depth panic of j, an acyclic value still compares correctly *)
Corollary after_depth_panic : forall M a, inW M a = true ->
  run_calls M [CallCompare (nestk (S M)) (nestk (S M)); CallRank (nestk (S M)) (nestk (S M));
               CallCompare a a; CallRank a a] =
  [inr DepthPanic; inl DepthPanic; inr (R true); inl (R Eq)].
Proof.
  intros M a Ha. unfold run_calls. cbn [map call_result].
  destruct (depth_panics M) as [-> ->]. rewrite compare_refl, rank_refl; auto using inW_inU.
Qed.
