(* LexBridge3.v -- the remaining first-token lemmas: complex literals, runes with a
   hexadecimal escape, and strings with every escape form.  When the input starts with a
   well-formed text of one of these classes, the scanner model picks exactly that class
   with exactly that length. *)
From Coq Require Import String Ascii.
From Verif Require Import Base Params Lexer LexerProofs LexBridge LexBridge2.
Close Scope string_scope.
Open Scope Z_scope.

(* ====================================================================== *)
(* A. Floats followed by something that is neither a digit nor e or E     *)
(* ====================================================================== *)

(* what may follow a float text without changing what the float recognizer takes:
   the end of the text, or a rune that is neither a digit nor an exponent letter *)
Definition ftail (tail : list Z) : Prop :=
  match tail with [] => True | c :: _ => is_digit c = false /\ is_e c = false end.

Lemma ftail_stops : forall tail, ftail tail -> stops is_digit tail.
Proof. intros [|c r] H; simpl in *; [exact I | tauto]. Qed.

Lemma sep_ftail : forall rest, sep_start rest -> ftail rest.
Proof.
  intros [|c r] H; simpl; auto. apply sep_head in H.
  decompose [or] H; subst; split; reflexivity.
Qed.

Lemma sign_ftail : forall s l, is_sign s = true -> ftail (s :: l).
Proof.
  intros s l H. unfold is_sign in H. apply orb_true_iff in H.
  destruct H as [H|H]; apply Z.eqb_eq in H; subst; simpl; split; reflexivity.
Qed.

Lemma ordinal_body_g : forall d t tail, is_nz d = true -> forallb is_digit t = true ->
  stops is_digit tail -> m_ordinal (d :: t ++ tail) = Some (S (length t)).
Proof.
  intros d t tail Hd Ht Hs. unfold m_ordinal. rewrite Hd.
  rewrite span_digit_app; auto.
Qed.

Lemma exp_stops_g : forall ex tail, exp_text ex -> ftail tail -> stops is_digit (ex ++ tail).
Proof.
  intros ex tail [H | (e & s & d & t & He & _ & _ & _ & H)] Hr; subst ex.
  - apply ftail_stops; exact Hr.
  - cbn [app stops]. apply is_e_cases in He. destruct He; subst; reflexivity.
Qed.

Lemma exp_len_g : forall ex tail, exp_text ex -> ftail tail ->
  match m_exponent (ex ++ tail) with Some k => k | None => 0%nat end = length ex.
Proof.
  intros ex tail [H | (e & s & d & t & He & Hs & Hd & Ht & H)] Hr; subst ex.
  - cbn [app length]. destruct tail as [|c [|c2 r]]; try reflexivity.
    simpl in Hr. destruct Hr as [_ Hc]. unfold m_exponent. rewrite Hc. reflexivity.
  - cbn [app length]. unfold m_exponent. rewrite He, Hs. cbn [andb].
    rewrite ordinal_body_g by auto using ftail_stops. reflexivity.
Qed.

Lemma float_core_g : forall ip fr ex tail, scalar_text ip fr -> exp_text ex -> ftail tail ->
  m_scalar (ip ++ 46 :: fr ++ ex ++ tail) = Some (length ip + 1 + length fr)%nat /\
  skipn (length ip + 1 + length fr) (ip ++ 46 :: fr ++ ex ++ tail) = ex ++ tail.
Proof.
  intros ip fr ex tail Hsc Hex Hr. split.
  - apply scalar_ok; auto using exp_stops_g.
  - replace (ip ++ 46 :: fr ++ ex ++ tail) with ((ip ++ 46 :: fr) ++ ex ++ tail)
      by (rewrite <- app_assoc; reflexivity).
    replace (length ip + 1 + length fr)%nat with (length (ip ++ 46 :: fr))
      by (rewrite app_length; cbn [length]; lia).
    apply skipn_app_length.
Qed.

(* the float recognizer takes exactly a well-formed float text when what follows
   cannot continue it *)
Lemma m_float_text_tail : forall f tail, float_text f -> ftail tail ->
  m_float (f ++ tail) = Some (length f).
Proof.
  intros f tail (sg & ip & fr & ex & Hsg & Hsc & Hex & Hf) Ht. subst f.
  rewrite float_app_norm, float_length.
  destruct (float_core_g ip fr ex tail Hsc Hex Ht) as [Hm Hsk].
  pose proof (exp_len_g ex tail Hex Ht) as Hel.
  destruct Hsg as [Hsg|[Hsg|Hsg]]; subst sg; cbn [app length Nat.add].
  - destruct (scalar_head ip fr Hsc) as (c & t & Hip & Hc).
    subst ip. rewrite <- app_comm_cons in *.
    rewrite (m_float_unsigned_some _ _ _ (digit_not_sign c Hc) Hm), Hsk, Hel. reflexivity.
  - rewrite (m_float_signed_some 45 _ _ eq_refl Hm), Hsk, Hel. reflexivity.
  - rewrite (m_float_signed_some 43 _ _ eq_refl Hm), Hsk, Hel. reflexivity.
Qed.

(* the separator version of LexBridge2 is an instance *)
Lemma m_float_text_sep : forall f rest, float_text f -> sep_start rest ->
  m_float (f ++ rest) = Some (length f).
Proof. intros f rest Hf Hr. apply m_float_text_tail; auto using sep_ftail. Qed.

(* ====================================================================== *)
(* B. Complex literals                                                    *)
(* ====================================================================== *)

Lemma m_complex_parts_text : forall f1 s f2 rest,
  float_text f1 -> is_sign s = true -> float_text f2 ->
  m_complex_parts (40 :: f1 ++ s :: f2 ++ 105 :: 41 :: rest) = Some (length f1, length f2).
Proof.
  intros f1 s f2 rest H1 Hs H2. unfold m_complex_parts.
  change (40 =? 40) with true. cbv iota.
  rewrite (m_float_text_tail f1 (s :: f2 ++ 105 :: 41 :: rest) H1 (sign_ftail _ _ Hs)).
  rewrite skipn_app_length. rewrite Hs.
  rewrite (m_float_text_tail f2 (105 :: 41 :: rest) H2) by (simpl; split; reflexivity).
  rewrite skipn_app_length. reflexivity.
Qed.

Lemma m_complex_text : forall f1 s f2 rest,
  float_text f1 -> is_sign s = true -> float_text f2 ->
  m_complex (40 :: f1 ++ s :: f2 ++ 105 :: 41 :: rest) =
  Some (length f1 + length f2 + 4)%nat.
Proof.
  intros f1 s f2 rest H1 Hs H2. unfold m_complex.
  rewrite m_complex_parts_text by assumption. f_equal. lia.
Qed.

(* TBoolean fails on the opening parenthesis and TComplex is tried next, so nothing is
   asked of what follows the closing parenthesis *)
Theorem first_complex : forall f1 s f2 rest,
  float_text f1 -> is_sign s = true -> float_text f2 ->
  try_types scan_order_t (40 :: f1 ++ s :: f2 ++ 105 :: 41 :: rest) =
  Some (TComplex, (length f1 + length f2 + 4)%nat).
Proof.
  intros f1 s f2 rest H1 Hs H2. rewrite scan_order_pinned.
  rewrite tt_none by (apply m_boolean_head; lia).
  apply tt_some. cbn [recognize]. apply m_complex_text; assumption.
Qed.

(* ====================================================================== *)
(* C. Runes with a hexadecimal escape                                     *)
(* ====================================================================== *)

Definition hexes (n : nat) (hs : list Z) : Prop := length hs = n /\ forallb is_hex hs = true.

Lemma all_n_app : forall p hs tail, forallb p hs = true ->
  all_n p (length hs) (hs ++ tail) = true.
Proof.
  intros p hs tail; induction hs as [|h hs IH]; intros H; [reflexivity|].
  cbn [forallb] in H. apply andb_true_iff in H; destruct H as [Hh H].
  cbn [length app all_n]. rewrite Hh. rewrite IH by exact H. reflexivity.
Qed.

Lemma hexes_all_n : forall n hs tail, hexes n hs -> all_n is_hex n (hs ++ tail) = true.
Proof. intros n hs tail [Hl Hh]. subst n. apply all_n_app; exact Hh. Qed.

Lemma hexes_skipn : forall n hs tail, hexes n hs -> skipn n (hs ++ tail) = tail.
Proof. intros n hs tail [Hl _]. subst n. apply skipn_app_length. Qed.

Lemma m_escape_x : forall hs tail, hexes 2 hs ->
  m_escape (92 :: 120 :: hs ++ tail) = Some 4%nat.
Proof.
  intros hs tail H. unfold m_escape.
  change (92 =? 92) with true. change (120 =? 120) with true. cbv iota.
  rewrite (hexes_all_n 2 hs tail H). reflexivity.
Qed.

Lemma m_escape_u : forall hs tail, hexes 4 hs ->
  m_escape (92 :: 117 :: hs ++ tail) = Some 6%nat.
Proof.
  intros hs tail H. unfold m_escape.
  change (92 =? 92) with true. change (117 =? 120) with false.
  change (117 =? 117) with true. cbv iota.
  rewrite (hexes_all_n 4 hs tail H). reflexivity.
Qed.

Lemma m_escape_U : forall hs tail, hexes 8 hs ->
  m_escape (92 :: 85 :: hs ++ tail) = Some 10%nat.
Proof.
  intros hs tail H. unfold m_escape.
  change (92 =? 92) with true. change (85 =? 120) with false.
  change (85 =? 117) with false. change (85 =? 85) with true. cbv iota.
  rewrite (hexes_all_n 8 hs tail H). reflexivity.
Qed.

(* an escape directly followed by the closing quote *)
Lemma m_rune_escape : forall t k r, m_escape t = Some k -> skipn k t = 39 :: r ->
  m_rune (39 :: t) = Some (k + 2)%nat.
Proof.
  intros t k r He Hs. unfold m_rune. change (39 =? 39) with true. cbv beta iota zeta.
  rewrite He, Hs. change (39 =? 39) with true. reflexivity.
Qed.

Theorem first_rune_x : forall hs rest, hexes 2 hs ->
  try_types scan_order_t (39 :: 92 :: 120 :: hs ++ 39 :: rest) = Some (TRune, 6%nat).
Proof.
  intros hs rest H. apply pick_rune_quote.
  apply (m_rune_escape _ 4%nat rest).
  - apply m_escape_x; exact H.
  - cbn [skipn]. apply (hexes_skipn 2); exact H.
Qed.

Theorem first_rune_u : forall hs rest, hexes 4 hs ->
  try_types scan_order_t (39 :: 92 :: 117 :: hs ++ 39 :: rest) = Some (TRune, 8%nat).
Proof.
  intros hs rest H. apply pick_rune_quote.
  apply (m_rune_escape _ 6%nat rest).
  - apply m_escape_u; exact H.
  - cbn [skipn]. apply (hexes_skipn 4); exact H.
Qed.

Theorem first_rune_U : forall hs rest, hexes 8 hs ->
  try_types scan_order_t (39 :: 92 :: 85 :: hs ++ 39 :: rest) = Some (TRune, 12%nat).
Proof.
  intros hs rest H. apply pick_rune_quote.
  apply (m_rune_escape _ 10%nat rest).
  - apply m_escape_U; exact H.
  - cbn [skipn]. apply (hexes_skipn 8); exact H.
Qed.

(* ====================================================================== *)
(* D. Strings with every escape form                                      *)
(* ====================================================================== *)

(* PChar c = the plain character c ; PEsc e = backslash then the simple-escape char e ;
   PHex c hs = backslash, then c = 120, 117 or 85, then 2, 4 or 8 hexadecimal digits *)
Inductive piece := PChar (c : Z) | PEsc (e : Z) | PHex (c : Z) (hs : list Z).

Definition piece_good (p : piece) : bool :=
  match p with
  | PChar c => plain_char c
  | PEsc e => is_simple_esc e
  | PHex c hs =>
    ((c =? 120) && (length hs =? 2)%nat || (c =? 117) && (length hs =? 4)%nat
     || (c =? 85) && (length hs =? 8)%nat) && forallb is_hex hs
  end.

Definition flat3 (ps : list piece) : list Z :=
  flat_map (fun p => match p with
                     | PChar c => [c]
                     | PEsc e => [92; e]
                     | PHex c hs => 92 :: c :: hs
                     end) ps.

Definition hex_form (c : Z) (hs : list Z) : Prop :=
  (c = 120 /\ hexes 2 hs) \/ (c = 117 /\ hexes 4 hs) \/ (c = 85 /\ hexes 8 hs).

Lemma piece_hex_inv : forall c hs, piece_good (PHex c hs) = true -> hex_form c hs.
Proof.
  intros c hs H. cbn [piece_good] in H.
  apply andb_true_iff in H. destruct H as [H Hh].
  unfold hex_form, hexes.
  apply orb_true_iff in H. destruct H as [H|H].
  - apply orb_true_iff in H. destruct H as [H|H];
      apply andb_true_iff in H; destruct H as [Hc Hl];
      apply Z.eqb_eq in Hc; apply Nat.eqb_eq in Hl.
    + left. auto.
    + right; left. auto.
  - apply andb_true_iff in H; destruct H as [Hc Hl].
    apply Z.eqb_eq in Hc; apply Nat.eqb_eq in Hl.
    right; right. auto.
Qed.

Lemma hex_form_letter : forall c hs, hex_form c hs -> c = 120 \/ c = 117 \/ c = 85.
Proof. intros c hs [[H _]|[[H _]|[H _]]]; auto. Qed.

Lemma hex_form_hexes : forall c hs, hex_form c hs -> forallb is_hex hs = true.
Proof. intros c hs [[_ [_ H]]|[[_ [_ H]]|[_ [_ H]]]]; exact H. Qed.

Lemma m_escape_hex : forall c hs tail, hex_form c hs ->
  m_escape (92 :: c :: hs ++ tail) = Some (2 + length hs)%nat.
Proof.
  intros c hs tail [[Hc H]|[[Hc H]|[Hc H]]]; subst c; rewrite (proj1 H).
  - apply m_escape_x; exact H.
  - apply m_escape_u; exact H.
  - apply m_escape_U; exact H.
Qed.

Lemma skipn_hex : forall (c : Z) hs tail,
  skipn (2 + length hs) (92 :: c :: hs ++ tail) = tail.
Proof.
  intros c hs tail. change (skipn (length hs) (hs ++ tail) = tail). apply skipn_app_length.
Qed.

(* the flattened text, one piece at a time *)
Lemma flat3_char : forall c ps tail, flat3 (PChar c :: ps) ++ tail = c :: flat3 ps ++ tail.
Proof. reflexivity. Qed.

Lemma flat3_esc : forall e ps tail, flat3 (PEsc e :: ps) ++ tail = 92 :: e :: flat3 ps ++ tail.
Proof. reflexivity. Qed.

Lemma flat3_hex : forall c hs ps tail,
  flat3 (PHex c hs :: ps) ++ tail = 92 :: c :: hs ++ flat3 ps ++ tail.
Proof.
  intros c hs ps tail. unfold flat3. cbn [flat_map app].
  rewrite <- app_assoc. reflexivity.
Qed.

Lemma flat3_char_len : forall c ps, length (flat3 (PChar c :: ps)) = S (length (flat3 ps)).
Proof. reflexivity. Qed.

Lemma flat3_esc_len : forall e ps, length (flat3 (PEsc e :: ps)) = S (S (length (flat3 ps))).
Proof. reflexivity. Qed.

Lemma flat3_hex_len : forall c hs ps,
  length (flat3 (PHex c hs :: ps)) = (2 + length hs + length (flat3 ps))%nat.
Proof.
  intros c hs ps. unfold flat3. cbn [flat_map app length]. rewrite app_length. lia.
Qed.

Lemma has_close_skip : forall a t, a <> 34 -> a <> 10 -> has_close (a :: t) = has_close t.
Proof. intros a t H1 H2. cbn [has_close]. zfalse. reflexivity. Qed.

Lemma has_close_hexs : forall hs t, forallb is_hex hs = true ->
  has_close (hs ++ t) = has_close t.
Proof.
  intros hs t; induction hs as [|h hs IH]; intros H; [reflexivity|].
  cbn [forallb] in H. apply andb_true_iff in H; destruct H as [Hh H].
  cbn [app]. rewrite is_hex_has_close by exact Hh. apply IH; exact H.
Qed.

(* the closing quote stays reachable: the body holds no newline and no bare quote *)
Lemma has_close_flat3 : forall ps rest, forallb piece_good ps = true ->
  has_close (flat3 ps ++ 34 :: rest) = true.
Proof.
  intros ps rest; induction ps as [|[c|e|c hs] ps IH]; intros H.
  - reflexivity.
  - cbn [forallb piece_good] in H. apply andb_true_iff in H; destruct H as [Hc H].
    apply plain_char_inv in Hc; destruct Hc as (H1 & H2 & H3).
    rewrite flat3_char. rewrite has_close_skip by assumption. apply IH; exact H.
  - cbn [forallb piece_good] in H. apply andb_true_iff in H; destruct H as [He H].
    rewrite flat3_esc. rewrite has_close_skip by lia.
    destruct (Z.eqb_spec e 34) as [E|E]; [subst e; reflexivity|].
    apply is_simple_esc_cases in He.
    rewrite has_close_skip by lia. apply IH; exact H.
  - cbn [forallb] in H. apply andb_true_iff in H; destruct H as [Hp H].
    apply piece_hex_inv in Hp.
    pose proof (hex_form_letter c hs Hp) as Hc.
    rewrite flat3_hex. rewrite has_close_skip by lia. rewrite has_close_skip by lia.
    rewrite has_close_hexs by (apply (hex_form_hexes c hs Hp)).
    apply IH; exact H.
Qed.

(* one step of the string body over an escape behind which the closing quote is reachable *)
Lemma str_body_esc : forall f c t k tail, m_escape (c :: t) = Some k ->
  skipn k (c :: t) = tail -> has_close tail = true ->
  str_body (S f) (c :: t) = option_map (fun n => (k + n)%nat) (str_body f tail).
Proof.
  intros f c t k tail He Hs Hc. rewrite str_body_S. cbv zeta.
  rewrite He, Hs, Hc. reflexivity.
Qed.

Lemma str_body_flat3 : forall ps rest fuel, forallb piece_good ps = true ->
  (length (flat3 ps) < fuel)%nat ->
  str_body fuel (flat3 ps ++ 34 :: rest) = Some (S (length (flat3 ps))).
Proof.
  intros ps rest; induction ps as [|[c|e|c hs] ps IH]; intros fuel Hb Hf.
  - destruct fuel as [|f]; [lia|]. apply str_body_close.
  - cbn [forallb piece_good] in Hb. apply andb_true_iff in Hb; destruct Hb as [Hc Hb].
    apply plain_char_inv in Hc; destruct Hc as (H1 & H2 & H3).
    rewrite flat3_char_len in Hf |- *. rewrite flat3_char.
    destruct fuel as [|f]; [lia|].
    rewrite str_body_plain_step by assumption.
    rewrite IH by (auto; lia). reflexivity.
  - cbn [forallb piece_good] in Hb. apply andb_true_iff in Hb; destruct Hb as [He Hb].
    rewrite flat3_esc_len in Hf |- *. rewrite flat3_esc.
    destruct fuel as [|f]; [lia|].
    rewrite (str_body_esc f 92 (e :: flat3 ps ++ 34 :: rest) 2%nat (flat3 ps ++ 34 :: rest)).
    + rewrite IH by (auto; lia). reflexivity.
    + apply m_escape_simple; exact He.
    + reflexivity.
    + apply has_close_flat3; exact Hb.
  - cbn [forallb] in Hb. apply andb_true_iff in Hb; destruct Hb as [Hp Hb].
    apply piece_hex_inv in Hp.
    rewrite flat3_hex_len in Hf |- *. rewrite flat3_hex.
    destruct fuel as [|f]; [lia|].
    rewrite (str_body_esc f 92 (c :: hs ++ flat3 ps ++ 34 :: rest) (2 + length hs)%nat
                          (flat3 ps ++ 34 :: rest)).
    + rewrite IH by (auto; lia). cbn [option_map]. f_equal. lia.
    + apply m_escape_hex; exact Hp.
    + apply skipn_hex.
    + apply has_close_flat3; exact Hb.
Qed.

Theorem first_string_full : forall ps rest, forallb piece_good ps = true ->
  try_types scan_order_t (34 :: flat3 ps ++ 34 :: rest) =
  Some (TString, (2 + length (flat3 ps))%nat).
Proof.
  intros ps rest Hb. apply pick_string_quote.
  unfold m_string. change (34 =? 34) with true. cbv beta iota.
  rewrite str_body_flat3; [reflexivity | exact Hb |].
  rewrite app_length. cbn [length]. lia.
Qed.

(* the pieces of LexBridge2 are the pieces without hexadecimal escapes *)
Definition piece_of (p : Z + Z) : piece :=
  match p with inl c => PChar c | inr e => PEsc e end.

Lemma flat3_flat : forall ps, flat3 (map piece_of ps) = flat ps.
Proof.
  induction ps as [|[c|e] ps IH]; [reflexivity| |].
  - change (c :: flat3 (map piece_of ps) = c :: flat ps). rewrite IH. reflexivity.
  - change (92 :: e :: flat3 (map piece_of ps) = 92 :: e :: flat ps). rewrite IH. reflexivity.
Qed.

Lemma piece_good_of : forall ps, forallb piece_good (map piece_of ps) = forallb piece_ok ps.
Proof.
  induction ps as [|[c|e] ps IH]; [reflexivity| |]; cbn [map forallb]; rewrite IH; reflexivity.
Qed.

(* ====================================================================== *)
(* E. The hypotheses are satisfiable                                      *)
(* ====================================================================== *)

(* 1.5 *)
Example float_text_one_point_five : float_text [49; 46; 53].
Proof.
  exists [], [49], [53], []. repeat split.
  - left; reflexivity.
  - right. exists 49, []. repeat split.
  - discriminate.
  - left; reflexivity.
Qed.

(* -2.5e+3 *)
Example float_text_minus_exp : float_text [45; 50; 46; 53; 101; 43; 51].
Proof.
  exists [45], [50], [53], [101; 43; 51]. repeat split.
  - right; left; reflexivity.
  - right. exists 50, []. repeat split.
  - discriminate.
  - right. exists 101, 43, 51, []. repeat split.
Qed.

(* the complex literal 1.5 plus -2.5e+3 i in parentheses, then a comma *)
Example first_complex_example :
  try_types scan_order_t
    (40 :: [49; 46; 53] ++ 43 :: [45; 50; 46; 53; 101; 43; 51] ++ 105 :: 41 :: [44]) =
  Some (TComplex, 14%nat).
Proof.
  apply (first_complex [49; 46; 53] 43 [45; 50; 46; 53; 101; 43; 51] [44]
           float_text_one_point_five eq_refl float_text_minus_exp).
Qed.

Example m_complex_parts_example :
  m_complex_parts
    (40 :: [49; 46; 53] ++ 43 :: [45; 50; 46; 53; 101; 43; 51] ++ 105 :: 41 :: [44]) =
  Some (3%nat, 7%nat).
Proof.
  apply (m_complex_parts_text [49; 46; 53] 43 [45; 50; 46; 53; 101; 43; 51] [44]
           float_text_one_point_five eq_refl float_text_minus_exp).
Qed.

(* the float text followed by the letter i, as inside a complex literal *)
Example m_float_before_i :
  m_float ([45; 50; 46; 53; 101; 43; 51] ++ [105; 41]) = Some 7%nat.
Proof.
  apply (m_float_text_tail _ [105; 41] float_text_minus_exp). simpl. split; reflexivity.
Qed.

(* backslash x 4 1 *)
Example first_rune_x_example :
  try_types scan_order_t (39 :: 92 :: 120 :: [52; 49] ++ 39 :: [44]) = Some (TRune, 6%nat).
Proof. apply (first_rune_x [52; 49] [44]). split; reflexivity. Qed.

(* backslash u 2 6 3 a *)
Example first_rune_u_example :
  try_types scan_order_t (39 :: 92 :: 117 :: [50; 54; 51; 97] ++ 39 :: [93]) =
  Some (TRune, 8%nat).
Proof. apply (first_rune_u [50; 54; 51; 97] [93]). split; reflexivity. Qed.

(* backslash U 0 0 0 1 f 6 0 0 *)
Example first_rune_U_example :
  try_types scan_order_t (39 :: 92 :: 85 :: [48; 48; 48; 49; 102; 54; 48; 48] ++ 39 :: []) =
  Some (TRune, 12%nat).
Proof. apply (first_rune_U [48; 48; 48; 49; 102; 54; 48; 48] []). split; reflexivity. Qed.

(* a string with one piece of each kind: a, backslash n, backslash x 4 1,
   backslash u 2 6 3 a, backslash U 0 0 0 1 f 6 0 0 *)
Example first_string_full_example :
  try_types scan_order_t
    (34 :: flat3 [PChar 97; PEsc 110; PHex 120 [52; 49]; PHex 117 [50; 54; 51; 97];
                  PHex 85 [48; 48; 48; 49; 102; 54; 48; 48]] ++ 34 :: [44]) =
  Some (TString, 25%nat).
Proof.
  apply (first_string_full
           [PChar 97; PEsc 110; PHex 120 [52; 49]; PHex 117 [50; 54; 51; 97];
            PHex 85 [48; 48; 48; 49; 102; 54; 48; 48]] [44]).
  reflexivity.
Qed.

(* a hexadecimal piece of the wrong length is rejected by the side condition *)
Example piece_good_rejects_short : piece_good (PHex 117 [50; 54]) = false.
Proof. reflexivity. Qed.
