(* GenList.v — the generated range and bulk methods of array.go and list.go that only C01 rests on (GetValues,
   SetValue, SetValues, AppendValue, AppendValues, InsertValues, RemoveValues) compute what the specification of
   Seq.v says (through the loop-shaped models of ListImpl.v and their refinement proofs in SeqProofs.v).
   Not part of the common build: compiled by ./check C01 before GenC01.v. *)
From Verif Require Import Base Seq ListImpl ListMachine SeqProofs MiniGo GenSrc GenRep GenLib GenIter GenSeq.

Ltac loop_enter F K := rewrite loop_S; unfold loop_step; fuel F K.

Set Warnings "-unused-intro-pattern".
Section GenList.
Variable A : Type.
Variable zero : A.
Variable ext : ident -> ident -> val A -> list (val A) -> option (val A).
Notation call_at F := (i_call (interp_at A zero ext prog F)).
Notation seq_operand := (seq_operand A zero ext).
Notation run_method := (MiniGo.run_method A zero ext prog).

(* ---------- array.GetValues(first, last): v[first : last+1] copied into a fresh array ---------- *)
Lemma gen_array_GetValues l i j F : (Z.of_nat (length l) < two63)%Z -> 30 <= F ->
  call_at F (arr_val l) id_GetValues [VInt i; VInt j] =
  match get_values l i j with Ret r => ROk (arr_val r, arr_val l) | _ => RPanic (arr_val l) end.
Proof.
  intros HL HF. rewrite <- (get_values_refines A l i j). unfold get_values_impl.
  fuel F 30. gocall. rewrite (gen_toZeroBased A zero ext) by lia.
  pose proof (pos_some (length l) i) as Pi. destruct (pos (length l) i) as [a|]; [|reflexivity]. specialize (Pi a eq_refl).
  gorun. rewrite (gen_toZeroBased A zero ext) by lia.
  pose proof (pos_some (length l) j) as Pj. destruct (pos (length l) j) as [b|]; [|reflexivity]. specialize (Pj b eq_refl).
  gorun. destruct (Nat.ltb_spec (b + 1) a) as [Hba|Hba].
  - rewrite zsub_none by lia. reflexivity.
  - rewrite zsub_elems by lia. gogo.
    replace (Z.to_nat (Z.of_nat b + 1 - Z.of_nat a)) with (b + 1 - a) by lia.
    replace (Z.to_nat (Z.of_nat b - Z.of_nat a + 1)) with (b + 1 - a) by lia.
    rewrite Nat2Z.id.
    set (r := firstn (b + 1 - a) (skipn a l)).
    assert (LR : length (elems r) = b + 1 - a).
    { rewrite elems_length. unfold r. rewrite firstn_length, skipn_length. lia. }
    rewrite <- LR at 1. rewrite zcopy_exact. gorun. reflexivity.
Qed.

(* ---------- array.SetValues(index, values): copy(v[first:last], values.AsArray()) ---------- *)


Lemma gen_array_SetValues l i sv src F :
  seq_operand sv src -> (Z.of_nat (length l) < two63)%Z -> 90 <= F ->
  call_at F (arr_val l) id_SetValues [VInt i; sv] =
  match set_values l i src with Ret l' => ROk (VTuple [], arr_val l') | _ => RPanic (arr_val l) end.
Proof.
  intros OP HL HF. rewrite <- (set_values_refines A l i src). unfold set_values_impl.
  fuel F 50. gocall. op_size OP. gorun.
  rewrite (gen_toZeroBased A zero ext) by lia.
  pose proof (pos_some (length l) i) as Pi. destruct (pos (length l) i) as [first|]; [|reflexivity]. specialize (Pi first eq_refl).
  gorun. destruct src as [|s0 src']; cbn [length]; gogo; [reflexivity|].
  rewrite (gen_toZeroBased A zero ext) by lia.
  replace (Z.of_nat first + Z.of_nat (S (length src')))%Z with (Z.of_nat (first + S (length src'))) by lia.
  rewrite pos_nat. cbn [length]. destruct (Nat.eqb_spec (first + S (length src')) 0) as [E0|E0]; [lia|]. cbn [orb].
  destruct (Nat.ltb_spec (length l) (first + S (length src'))) as [Hb|Hb]; [reflexivity|].
  gorun.
  replace (Z.of_nat (first + S (length src') - 1) + 1)%Z with (Z.of_nat (first + S (length src'))) by lia.
  rewrite zsub_elems by lia. gorun. op_array OP. gorun.
  rewrite zsub_elems by lia. gorun.
  set (sub := firstn (Z.to_nat (Z.of_nat (first + S (length src')) - Z.of_nat first)) (skipn (Z.to_nat (Z.of_nat first)) l)).
  assert (LS : length (elems sub) = length (elems (s0 :: src'))).
  { rewrite !elems_length. unfold sub. rewrite firstn_length, skipn_length. cbn [length]. lia. }
  rewrite (zcopy_same A _ _ LS). rewrite LS, Nat.eqb_refl. gorun.
  rewrite zsplice_elems. gorun.
  replace (S (first + S (length src') - 1) - first) with (S (length src')) by lia.
  replace (S (first + S (length src') - 1)) with (first + S (length src')) by lia.
  change (S (length src')) with (length (s0 :: src')). rewrite firstn_all. reflexivity.
Qed.

(* ---------- list.go: delegation ---------- *)
Lemma gen_list_SetValues n l i sv src F :
  seq_operand sv src -> (Z.of_nat (length l) < two63)%Z -> 100 <= F ->
  call_at F (lst_val n l) id_SetValues [VInt i; sv] =
  match set_values l i src with Ret l' => ROk (VTuple [], lst_val n l') | _ => RPanic (lst_val n l) end.
Proof.
  intros OP HL HF. fuel F 10. gocall. rewrite ?(proj2 (proj1 OP)). rewrite (gen_array_SetValues l i sv src) by (assumption || lia).
  destruct (set_values l i src); gorun; reflexivity.
Qed.
Lemma gen_list_GetValues n l i j F : (Z.of_nat (length l) < two63)%Z -> 36 <= F ->
  call_at F (lst_val n l) id_GetValues [VInt i; VInt j] =
  match get_values l i j with Ret r => ROk (arr_val r, lst_val n l) | _ => RPanic (lst_val n l) end.
Proof.
  intros HL HF. fuel F 36. gocall. rewrite gen_array_GetValues by lia.
  destruct (get_values l i j); gorun; reflexivity.
Qed.

Lemma gen_list_SetValue n l i a F : 26 <= F ->
  call_at F (lst_val n l) id_SetValue [VInt i; VElem a] =
  match set_value l i a with Ret l' => ROk (VTuple [], lst_val n l') | _ => RPanic (lst_val n l) end.
Proof.
  intros HF. unfold set_value. fuel F 26. gocall. rewrite (gen_array_SetValue A zero ext) by lia.
  destruct (pos (length l) i); gorun; reflexivity.
Qed.

(* ---------- the copy loops "for it.HasNext() { index++; x = it.GetNext(); array.SetValue(index, x) }" ---------- *)
(* Generic simulation of ListImpl.copy_loop: [run F arr it idx ex] is the generated loop started with fuel F in the
   environment [mk arr it idx ++ ex] (the variables of the function that the loop reads or writes, then the
   rest); [x] is the variable the body declares.  One unit of fuel per iteration. *)
Section CopySim.
Variable run : nat -> list A -> iter A -> nat -> env A -> eres A (sig A * env A).
Variable mk : list A -> iter A -> nat -> env A.
Variable x : ident.
Hypothesis run_exit : forall F arr it idx ex, 30 <= F -> has_next it = false ->
  run (S F) arr it idx ex = ROk (SgNormal, mk arr it idx ++ ex).
Hypothesis run_step : forall F arr it idx ex arr', 30 <= F -> has_next it = true ->
  arr_set arr (S idx) (fst (get_next zero it)) = Ret arr' ->
  run (S F) arr it idx ex = run F arr' (snd (get_next zero it)) (S idx) (set x (VElem (fst (get_next zero it))) ex).

Lemma copy_sim : forall mf idx it arr ex F, mf + 31 <= F ->
  match copy_loop zero mf idx it arr with
  | Ret (idx', arr') => exists it' ex', run F arr it idx ex = ROk (SgNormal, mk arr' it' idx' ++ ex')
  | _ => True
  end.
Proof.
  induction mf as [|mf IH]; intros idx it arr ex F HF; (destruct F as [|F]; [lia|]);
    cbn [copy_loop]; destruct (has_next it) eqn:HN; cbn [negb].
  - exact I.
  - rewrite run_exit by (assumption || lia). eexists _, _. reflexivity.
  - destruct (get_next zero it) as [v it'] eqn:EN.
    destruct (arr_set arr (S idx) v) as [arr'| |] eqn:EA; cbn [out_bind]; try exact I.
    rewrite (run_step F arr it idx ex arr') by (rewrite ?EN; assumption || lia).
    rewrite EN. cbn [fst snd]. apply IH. lia.
  - rewrite run_exit by (assumption || lia). eexists _, _. reflexivity.
Qed.
End CopySim.


(* ---------- list.AppendValue ---------- *)
(* variables, by declaration site: v value size array index iterator existing *)
Definition av_loop : stmt := nth 4 (fn_body fn_list__AppendValue) SBreak.
Definition av_cond : option expr := Eval cbv in match av_loop with SFor _ c _ _ => c | _ => None end.
Definition av_body : list stmt := Eval cbv in match av_loop with SFor _ _ _ b => b | _ => [] end.
Definition av_env n l (a : A) (size : nat) arr it (idx : nat) : env A :=
  [(1%positive, lst_val n l); (2%positive, VElem a); (3%positive, VInt (Z.of_nat size)); (4%positive, arr_val arr);
   (5%positive, VInt (Z.of_nat idx)); (6%positive, it_rep A VNil it)].
Definition av_run n l a size F arr it idx ex :=
  i_loop (interp_at A zero ext prog F) av_cond None av_body (av_env n l a size arr it idx ++ ex).

Lemma av_exit n l a size F arr it idx ex : 30 <= F -> has_next it = false ->
  av_run n l a size (S F) arr it idx ex = ROk (SgNormal, av_env n l a size arr it idx ++ ex).
Proof.
  intros HF H. unfold av_run. loop_enter F 30. unfold av_cond, av_body, av_env. gorun.
  rewrite (gen_HasNext A zero ext) by lia. rewrite H. gorun. reflexivity.
Qed.

Lemma av_step n l a size F arr it idx ex arr' : 30 <= F -> has_next it = true ->
  arr_set arr (S idx) (fst (get_next zero it)) = Ret arr' ->
  av_run n l a size (S F) arr it idx ex =
  av_run n l a size F arr' (snd (get_next zero it)) (S idx) (set 7%positive (VElem (fst (get_next zero it))) ex).
Proof.
  intros HF H EA. pose proof (gen_arr_set A zero ext arr idx (fst (get_next zero it))) as GS. rewrite EA in GS.
  unfold av_run. loop_enter F 30. unfold av_cond, av_body, av_env. gorun.
  rewrite (gen_HasNext A zero ext) by lia. rewrite H. gorun.
  rewrite (gen_GetNext A zero ext) by lia. gorun. rewrite lookup_set_same. gorun.
  rewrite GS by lia. gorun. replace (Z.of_nat idx + 1)%Z with (Z.of_nat (S idx)) by lia. reflexivity.
Qed.

Lemma gen_list_AppendValue n l a F : (Z.of_nat (length l) + 1 < two63)%Z -> length l + 120 <= F ->
  call_at F (lst_val n l) id_AppendValue [VElem a] = ROk (VTuple [], lst_val n (append_value l a)).
Proof.
  intros HL HF. pose proof (append_value_refines A zero l a) as REF. unfold append_value_impl in REF.
  fuel F 70. gocall. rewrite (gen_list_GetSize A zero ext) by lia. gorun. gogo.
  rewrite (gen_list_GetClass A zero ext) by lia. gorun. rewrite (gen_listClass_Notation A zero ext) by lia. gorun.
  replace (Z.of_nat (length l) + 1)%Z with (Z.of_nat (S (length l))) by lia.
  rewrite (gen_arrayClass_Make A zero ext) by lia. gorun.
  rewrite (gen_list_GetIterator A zero ext) by lia. gorun.
  match goal with |- context[i_loop (interp_at A zero ext prog ?FF) ?c ?p ?b ?en] =>
    pose proof (copy_sim (av_run n l a (S (length l))) (av_env n l a (S (length l))) 7%positive
                  (av_exit n l a (S (length l))) (av_step n l a (S (length l)))
                  (S (length l)) 0 (it_make l) (arr_make zero (S (length l))) [] FF ltac:(lia)) as SIM;
    change (i_loop (interp_at A zero ext prog FF) c p b en)
      with (av_run n l a (S (length l)) FF (arr_make zero (S (length l))) (it_make l) 0 [])
  end.
  destruct (copy_loop zero (S (length l)) 0 (it_make l) (arr_make zero (S (length l)))) as [[idx' arr']| |];
    cbn [out_bind fst snd] in REF; try discriminate REF.
  destruct SIM as [it' [ex' SIM]]. rewrite SIM. unfold av_env. gorun.
  pose proof (gen_arr_set A zero ext arr' idx' a) as GS. rewrite REF in GS. rewrite GS by lia. gorun. reflexivity.
Qed.

(* ---------- list.AppendValues ---------- *)
(* variables: v values size array index iterator existing value; two copy loops over the same variables *)
Definition avs_loop1 : stmt := nth 4 (fn_body fn_list__AppendValues) SBreak.
Definition avs_loop2 : stmt := nth 6 (fn_body fn_list__AppendValues) SBreak.
Definition avs_cond1 : option expr := Eval cbv in match avs_loop1 with SFor _ c _ _ => c | _ => None end.
Definition avs_body1 : list stmt := Eval cbv in match avs_loop1 with SFor _ _ _ b => b | _ => [] end.
Definition avs_cond2 : option expr := Eval cbv in match avs_loop2 with SFor _ c _ _ => c | _ => None end.
Definition avs_body2 : list stmt := Eval cbv in match avs_loop2 with SFor _ _ _ b => b | _ => [] end.
Definition avs_env n l (sv : val A) (size : nat) arr it (idx : nat) : env A :=
  [(1%positive, lst_val n l); (2%positive, sv); (3%positive, VInt (Z.of_nat size)); (4%positive, arr_val arr);
   (5%positive, VInt (Z.of_nat idx)); (6%positive, it_rep A VNil it)].
Definition avs_run1 n l sv size F arr it idx ex :=
  i_loop (interp_at A zero ext prog F) avs_cond1 None avs_body1 (avs_env n l sv size arr it idx ++ ex).
Definition avs_run2 n l sv size F arr it idx ex :=
  i_loop (interp_at A zero ext prog F) avs_cond2 None avs_body2 (avs_env n l sv size arr it idx ++ ex).

Ltac copy_exit H :=
  gorun; rewrite (gen_HasNext A zero ext) by lia; rewrite H; gorun; reflexivity.
Ltac copy_step H GS idx :=
  gorun; rewrite (gen_HasNext A zero ext) by lia; rewrite H; gorun;
  rewrite (gen_GetNext A zero ext) by lia; gorun; rewrite lookup_set_same; gorun;
  rewrite GS by lia; gorun; replace (Z.of_nat idx + 1)%Z with (Z.of_nat (S idx)) by lia; reflexivity.

Lemma avs_exit1 n l sv size F arr it idx ex : 30 <= F -> has_next it = false ->
  avs_run1 n l sv size (S F) arr it idx ex = ROk (SgNormal, avs_env n l sv size arr it idx ++ ex).
Proof. intros HF H. unfold avs_run1. loop_enter F 30. unfold avs_cond1, avs_body1, avs_env. copy_exit H. Qed.
Lemma avs_exit2 n l sv size F arr it idx ex : 30 <= F -> has_next it = false ->
  avs_run2 n l sv size (S F) arr it idx ex = ROk (SgNormal, avs_env n l sv size arr it idx ++ ex).
Proof. intros HF H. unfold avs_run2. loop_enter F 30. unfold avs_cond2, avs_body2, avs_env. copy_exit H. Qed.

Lemma avs_step1 n l sv size F arr it idx ex arr' : 30 <= F -> has_next it = true ->
  arr_set arr (S idx) (fst (get_next zero it)) = Ret arr' ->
  avs_run1 n l sv size (S F) arr it idx ex =
  avs_run1 n l sv size F arr' (snd (get_next zero it)) (S idx) (set 7%positive (VElem (fst (get_next zero it))) ex).
Proof.
  intros HF H EA. pose proof (gen_arr_set A zero ext arr idx (fst (get_next zero it))) as GS. rewrite EA in GS.
  unfold avs_run1. loop_enter F 30. unfold avs_cond1, avs_body1, avs_env. copy_step H GS idx.
Qed.
Lemma avs_step2 n l sv size F arr it idx ex arr' : 30 <= F -> has_next it = true ->
  arr_set arr (S idx) (fst (get_next zero it)) = Ret arr' ->
  avs_run2 n l sv size (S F) arr it idx ex =
  avs_run2 n l sv size F arr' (snd (get_next zero it)) (S idx) (set 8%positive (VElem (fst (get_next zero it))) ex).
Proof.
  intros HF H EA. pose proof (gen_arr_set A zero ext arr idx (fst (get_next zero it))) as GS. rewrite EA in GS.
  unfold avs_run2. loop_enter F 30. unfold avs_cond2, avs_body2, avs_env. copy_step H GS idx.
Qed.

Lemma gen_list_AppendValues n l sv src F :
  seq_operand sv src -> (Z.of_nat (length l + length src) < two63)%Z -> length l + length src + 160 <= F ->
  call_at F (lst_val n l) id_AppendValues [sv] = ROk (VTuple [], lst_val n (append_values l src)).
Proof.
  intros OP HL HF. pose proof (append_values_refines A zero l src) as REF. unfold append_values_impl in REF.
  fuel F 100. gocall. rewrite (gen_list_GetSize A zero ext) by lia. gorun. op_size OP. gorun. gogo.
  rewrite (gen_list_GetClass A zero ext) by lia. gorun. rewrite (gen_listClass_Notation A zero ext) by lia. gorun.
  replace (Z.of_nat (length l) + Z.of_nat (length src))%Z with (Z.of_nat (length l + length src)) by lia.
  rewrite (gen_arrayClass_Make A zero ext) by lia. gorun.
  rewrite (gen_list_GetIterator A zero ext) by lia. gorun.
  set (size := length l + length src) in *.
  match goal with |- context[i_loop (interp_at A zero ext prog ?FF) ?c ?p ?b ?en] =>
    pose proof (copy_sim (avs_run1 n l sv size) (avs_env n l sv size) 7%positive
                  (avs_exit1 n l sv size) (avs_step1 n l sv size)
                  (S (length l)) 0 (it_make l) (arr_make zero size) [] FF ltac:(lia)) as SIM;
    change (i_loop (interp_at A zero ext prog FF) c p b en)
      with (avs_run1 n l sv size FF (arr_make zero size) (it_make l) 0 [])
  end.
  destruct (copy_loop zero (S (length l)) 0 (it_make l) (arr_make zero size)) as [[idx1 arr1]| |];
    cbn [out_bind fst snd] in REF; try discriminate REF.
  destruct SIM as [it1 [ex1 SIM]]. rewrite SIM. unfold avs_env. gorun.
  op_iter OP. gorun.
  match goal with |- context[i_loop (interp_at A zero ext prog ?FF) ?c ?p ?b ?en] =>
    pose proof (copy_sim (avs_run2 n l sv size) (avs_env n l sv size) 8%positive
                  (avs_exit2 n l sv size) (avs_step2 n l sv size)
                  (S (length src)) idx1 (it_make src) arr1 ex1 FF ltac:(lia)) as SIM2;
    change (i_loop (interp_at A zero ext prog FF) c p b en)
      with (avs_run2 n l sv size FF arr1 (it_make src) idx1 ex1)
  end.
  destruct (copy_loop zero (S (length src)) idx1 (it_make src) arr1) as [[idx2 arr2]| |];
    cbn [out_map fst snd] in REF; try discriminate REF.
  destruct SIM2 as [it2 [ex2 SIM2]]. rewrite SIM2. unfold avs_env. gorun.
  injection REF as REF. subst arr2. reflexivity.
Qed.

End GenList.
