(* ModuleFacts.v — facts about the interpreter of ModuleSem.v that do not depend on the regenerated table:
   local variables (lget / lset), one step of the executor, and the conversion loops of the source forms of
   the universal constructors, for ANY layout of the locals (the loop lemmas give the environment after the
   loop as lset's of the environment before, so they apply to the constructor's own locals as well as to the
   locals of a private helper into which the loop has been factored). *)
From Coq Require Import String.
From Verif Require Import Base Sorter SorterProofs Value Seq Coll Pool Params SetProofs Facade ModuleLang ModuleSem.
Open Scope Z_scope.
Open Scope list_scope.


(* ---------- locals ---------- *)
Lemma lset_length : forall e n m, length (lset e n m) = length e.
Proof. intros. unfold lset. apply set_nth_length. Qed.

Lemma lget_lset_same : forall e n m, (n < length e)%nat -> lget (lset e n m) n = m.
Proof.
  intros e n m H. unfold lget, lset. rewrite nth_set_nth, Nat.eqb_refl. apply Nat.ltb_lt in H. rewrite H. reflexivity.
Qed.

Lemma lget_lset_other : forall e n k m, n <> k -> lget (lset e n m) k = lget e k.
Proof.
  intros e n k m H. unfold lget, lset. rewrite nth_set_nth. destruct (Nat.eqb_spec k n) as [->|_]; [contradiction|reflexivity].
Qed.

Lemma lset_lset_same : forall e n a b, lset (lset e n a) n b = lset e n b.
Proof.
  unfold lset. induction e as [|x t IH]; intros [|n] a b; cbn [set_nth]; try reflexivity. rewrite IH. reflexivity.
Qed.

Lemma lset_lset_swap : forall e n k a b, n <> k -> lset (lset e n a) k b = lset (lset e k b) n a.
Proof.
  unfold lset. induction e as [|x t IH]; intros [|n] [|k] a b H; cbn [set_nth]; try reflexivity; try congruence.
  rewrite IH by congruence. reflexivity.
Qed.

Lemma lset_lget_id : forall e n, lset e n (lget e n) = e.
Proof.
  unfold lset, lget. induction e as [|x t IH]; intros [|n]; cbn [set_nth nth]; try reflexivity. rewrite IH. reflexivity.
Qed.

Lemma env_ext : forall a b : menv, length a = length b -> (forall n, (n < length a)%nat -> lget a n = lget b n) -> a = b.
Proof.
  unfold lget. induction a as [|x t IH]; intros [|y u] L H; cbn in L; try discriminate; [reflexivity|].
  f_equal; [exact (H 0%nat ltac:(cbn; lia))|]. apply IH; [lia|]. intros n Hn. exact (H (S n) ltac:(cbn; lia)).
Qed.

(* pointwise normalisation of nested lset's *)
Ltac lget_norm Hn :=
  repeat match goal with
         | |- context [lget (lset ?e ?k ?m) ?n] =>
           destruct (Nat.eq_dec k n) as [->|?];
           [rewrite (lget_lset_same e n m) by (rewrite ?lset_length in *; assumption)
           |rewrite (lget_lset_other e k n m) by assumption]
         end.
Ltac env_eq :=
  apply env_ext; [rewrite ?lset_length; reflexivity|];
  let n := fresh "n" in let Hn := fresh "Hn" in intros n Hn; rewrite ?lset_length in Hn; lget_norm Hn; try reflexivity; try congruence.

Lemma lset3 : forall e a b c va vb vc va' vb' vc', a <> b -> a <> c -> b <> c ->
  lset (lset (lset (lset (lset (lset e a va) b vb) c vc) a va') b vb') c vc' = lset (lset (lset e a va') b vb') c vc'.
Proof.
  intros e a b c va vb vc va' vb' vc' H1 H2 H3.
  rewrite (lset_lset_swap (lset (lset e a va) b vb) c a) by congruence.
  rewrite (lset_lset_swap (lset e a va) b a) by congruence. rewrite lset_lset_same.
  rewrite (lset_lset_swap (lset (lset e a va') b vb) c b) by congruence. rewrite lset_lset_same.
  rewrite lset_lset_same. reflexivity.
Qed.

(* ---------- the executor ---------- *)
Lemma exec_cons : forall args f c e s rest,
  exec args (S f) c e (s :: rest) =
  match exec1 args (exec args f) c e s with RNormal e' => exec args f c e' rest | other => other end.
Proof. reflexivity. Qed.
Lemma exec_nil : forall args f c e, exec args (S f) c e [] = RNormal e.
Proof. reflexivity. Qed.

Lemma step_astype_next : forall args r c x e n,
  exec1 args r (with_item c (MVal x)) e (SAssign n (EAsType TyV EIterNext)) =
  match as_type (c_tv c) x with Some v => RNormal (lset e n (MVal v)) | None => RPanic end.
Proof. intros. cbn. destruct (as_type (c_tv c) x); reflexivity. Qed.

Definition last_or (d : mval) (vs : list val) : mval := match rev vs with v :: _ => MVal v | [] => d end.
Lemma last_or_cons : forall d v vs, last_or d (v :: vs) = last_or (MVal v) vs.
Proof. intros d v vs. unfold last_or. cbn [rev]. destruct (rev vs) as [|w r] eqn:E; reflexivity. Qed.
Lemma last_or_nil : forall d, last_or d [] = d.
Proof. reflexivity. Qed.

(* Set.AddValue always returns: the search terminates for every ranker with a slot within the list *)
Lemma set_add_ret : forall (z : val) rk l v, exists l', set_add z rk l v = Ret l'.
Proof.
  intros z rk l v. unfold set_add. destruct (find_index_returns val z rk l v) as (k & b & E & Hk & _). rewrite E.
  destruct b; [eexists; reflexivity|]. unfold insert_value. destruct (Nat.ltb_spec (length l) k); [lia|]. eexists. reflexivity.
Qed.

Section Loops.
Variable args0 : list arg.
Variables tk tv : ety.
Notation c0 := (ctx0 tk tv).

(* ----- values = append(values, asType[V](next)) : Stack, Queue ----- *)
Definition append_body (nvalues nvalue : nat) : list mstmt :=
  [SAssign nvalue (EAsType TyV EIterNext); SAssign nvalues (EAppend (ELocal nvalues) (ELocal nvalue))].

Lemma append_loop : forall f nvalues nvalue (step : val -> menv -> mres) items,
  (forall x e, step x e = exec args0 (3 + f) (with_item c0 (MVal x)) e (append_body nvalues nvalue)) ->
  nvalues <> nvalue ->
  forall acc e, (nvalues < length e)%nat -> (nvalue < length e)%nat -> lget e nvalues = MArgV (ASlice acc) ->
  fold_loop step items e =
  match convert_all tv items with
  | Some vs => RNormal (lset (lset e nvalue (last_or (lget e nvalue) vs)) nvalues (MArgV (ASlice (acc ++ vs))))
  | None => RPanic
  end.
Proof.
  intros f nvalues nvalue step items Hstep Hne. induction items as [|x r IH]; intros acc e L1 L2 G.
  - cbn [fold_loop convert_all]. rewrite last_or_nil, app_nil_r, lset_lget_id, <- G, lset_lget_id. reflexivity.
  - cbn [fold_loop convert_all]. rewrite Hstep. unfold append_body. cbn [plus]. rewrite exec_cons, step_astype_next. cbn [c_tv ctx0].
    destruct (as_type tv x) as [v|]; [|reflexivity].
    rewrite exec_cons. cbn [exec1 eval]. rewrite lget_lset_other by congruence. rewrite G, lget_lset_same by exact L2.
    cbn [of_ev canon]. rewrite exec_nil.
    rewrite (IH (acc ++ [v])).
    + destruct (convert_all tv r) as [vs|]; [|reflexivity]. f_equal.
      rewrite lget_lset_other by congruence. rewrite lget_lset_same by exact L2.
      rewrite <- app_assoc. cbn [app]. rewrite last_or_cons.
      rewrite (lset_lset_swap _ nvalues nvalue) by exact Hne. rewrite !lset_lset_same. reflexivity.
    + rewrite !lset_length. exact L1.
    + rewrite !lset_length. exact L2.
    + apply lget_lset_same. rewrite lset_length. exact L1.
Qed.

(* ----- obj.Method(asType[V](next)) for a one-argument mutator: List.AppendValue, Set.AddValue ----- *)
Definition call_body (nobj nvalue : nat) (meth : string) : list mstmt :=
  [SAssign nvalue (EAsType TyV EIterNext); SExpr (EMethod (ELocal nobj) meth [ELocal nvalue])].

Lemma list_append_loop : forall f nobj nvalue (step : val -> menv -> mres) items,
  (forall x e, step x e = exec args0 (3 + f) (with_item c0 (MVal x)) e (call_body nobj nvalue "AppendValue")) ->
  nobj <> nvalue ->
  forall acc e, (nobj < length e)%nat -> (nvalue < length e)%nat -> lget e nobj = MObj (OLst acc) ->
  fold_loop step items e =
  match convert_all tv items with
  | Some vs => RNormal (lset (lset e nvalue (last_or (lget e nvalue) vs)) nobj (MObj (OLst (acc ++ vs))))
  | None => RPanic
  end.
Proof.
  intros f nobj nvalue step items Hstep Hne. induction items as [|x r IH]; intros acc e L1 L2 G.
  - cbn [fold_loop convert_all]. rewrite last_or_nil, app_nil_r, lset_lget_id, <- G, lset_lget_id. reflexivity.
  - cbn [fold_loop convert_all]. rewrite Hstep. unfold call_body. cbn [plus]. rewrite exec_cons, step_astype_next. cbn [c_tv ctx0].
    destruct (as_type tv x) as [v|]; [|reflexivity].
    rewrite exec_cons. cbn [exec1]. rewrite lget_lset_other by congruence. rewrite G.
    cbn [eval_list eval]. rewrite lget_lset_same by exact L2. cbn [mutate String.eqb Ascii.eqb Bool.eqb of_ev canon]. rewrite exec_nil.
    rewrite (IH (acc ++ [v])).
    + destruct (convert_all tv r) as [vs|]; [|reflexivity]. f_equal.
      rewrite lget_lset_other by congruence. rewrite lget_lset_same by exact L2.
      rewrite <- app_assoc. cbn [app]. rewrite last_or_cons.
      rewrite (lset_lset_swap _ nobj nvalue) by exact Hne. rewrite !lset_lset_same. reflexivity.
    + rewrite !lset_length. exact L1.
    + rewrite !lset_length. exact L2.
    + apply lget_lset_same. rewrite lset_length. exact L1.
Qed.

Definition out_env (e : menv) (n : nat) (f : list val -> obj) (o : out (list val)) : mres :=
  match o with Ret l => RNormal (lset e n (MObj (f l))) | Panic => RPanic | Hang => RHang end.

Lemma set_add_loop : forall f nobj nvalue (step : val -> menv -> mres) items,
  (forall x e, step x e = exec args0 (3 + f) (with_item c0 (MVal x)) e (call_body nobj nvalue "AddValue")) ->
  nobj <> nvalue ->
  forall cl acc e, (nobj < length e)%nat -> (nvalue < length e)%nat -> lget e nobj = MObj (OSet cl acc) ->
  fold_loop step items e =
  match convert_all tv items with
  | Some vs => out_env (lset e nvalue (last_or (lget e nvalue) vs)) nobj (OSet cl) (set_add_all (zero_of tv) (ranker cl) acc vs)
  | None => RPanic
  end.
Proof.
  intros f nobj nvalue step items Hstep Hne cl. induction items as [|x r IH]; intros acc e L1 L2 G.
  - cbn [fold_loop convert_all set_add_all out_env]. rewrite last_or_nil, lset_lget_id, <- G, lset_lget_id. reflexivity.
  - cbn [fold_loop convert_all]. rewrite Hstep. unfold call_body. cbn [plus]. rewrite exec_cons, step_astype_next. cbn [c_tv ctx0].
    destruct (as_type tv x) as [v|]; [|reflexivity].
    rewrite exec_cons. cbn [exec1]. rewrite lget_lset_other by congruence. rewrite G.
    cbn [eval_list eval]. rewrite lget_lset_same by exact L2. cbn [mutate String.eqb Ascii.eqb Bool.eqb c_tv ctx0 with_item].
    destruct (set_add_ret (zero_of tv) (ranker cl) acc v) as [acc' Ea]. rewrite Ea. cbn [out_map of_out of_ev canon]. rewrite exec_nil.
    rewrite (IH acc').
    + destruct (convert_all tv r) as [vs|]; [|reflexivity].
      cbn [set_add_all]. rewrite Ea. cbn [out_bind].
      rewrite lget_lset_other by congruence. rewrite lget_lset_same by exact L2. rewrite last_or_cons.
      destruct (set_add_all (zero_of tv) (ranker cl) acc' vs); cbn [out_env]; try reflexivity. f_equal.
      rewrite (lset_lset_swap _ nobj nvalue) by exact Hne. rewrite !lset_lset_same. reflexivity.
    + rewrite !lset_length. exact L1.
    + rewrite !lset_length. exact L2.
    + apply lget_lset_same. rewrite lset_length. exact L1.
Qed.

(* ----- array.SetValue(index, asType[V](next)); index++ : Array ----- *)
Definition array_body (narr nidx nvalue : nat) : list mstmt :=
  [SAssign nvalue (EAsType TyV EIterNext); SExpr (EMethod (ELocal narr) "SetValue" [ELocal nidx; ELocal nvalue]); SInc nidx].

Lemma as_type_same : forall t x v, as_type t x = Some v -> v = x.
Proof. intros t x v H. unfold as_type in H. destruct x; try (destruct (has_ty t _); congruence); destruct t; congruence. Qed.

Lemma array_loop : forall f narr nidx nvalue (step : val -> menv -> mres) items,
  (forall x e, step x e = exec args0 (4 + f) (with_item c0 (MVal x)) e (array_body narr nidx nvalue)) ->
  narr <> nidx -> narr <> nvalue -> nidx <> nvalue ->
  forall arr idx e, (narr < length e)%nat -> (nidx < length e)%nat -> (nvalue < length e)%nat ->
  lget e narr = MObj (OArr arr) -> lget e nidx = MZ idx ->
  fold_loop step items e =
  match array_fill tv arr idx items with
  | Ret arr' => RNormal (lset (lset (lset e nvalue (last_or (lget e nvalue) items)) narr (MObj (OArr arr'))) nidx (MZ (idx + Z.of_nat (length items))))
  | Panic => RPanic
  | Hang => RHang
  end.
Proof.
  intros f narr nidx nvalue step items Hstep H1 H2 H3. induction items as [|x r IH]; intros arr idx e L1 L2 L3 G1 G2.
  - cbn [fold_loop array_fill length Z.of_nat]. rewrite last_or_nil, Z.add_0_r. rewrite lset_lget_id, <- G1, lset_lget_id, <- G2, lset_lget_id. reflexivity.
  - cbn [fold_loop array_fill]. rewrite Hstep. unfold array_body. cbn [plus]. rewrite exec_cons, step_astype_next. cbn [c_tv ctx0].
    destruct (as_type tv x) as [v|] eqn:Ev; [|reflexivity]. pose proof (as_type_same _ _ _ Ev) as ->.
    rewrite exec_cons. cbn [exec1]. rewrite lget_lset_other by congruence. rewrite G1.
    cbn [eval_list eval]. rewrite lget_lset_other by congruence. rewrite G2, lget_lset_same by exact L3.
    cbn [mutate String.eqb Ascii.eqb Bool.eqb].
    destruct (set_value arr idx x) as [arr1| |]; cbn [out_map of_out of_ev canon out_bind]; try reflexivity.
    rewrite exec_cons. cbn [exec1]. rewrite lget_lset_other by congruence. rewrite lget_lset_other by congruence. rewrite G2. rewrite exec_nil.
    rewrite (IH arr1 (idx + 1)).
    + destruct (array_fill tv arr1 (idx + 1) r) as [arr'| |]; try reflexivity. f_equal.
      rewrite last_or_cons. cbn [length]. rewrite Nat2Z.inj_succ.
      replace (idx + 1 + Z.of_nat (length r)) with (idx + Z.succ (Z.of_nat (length r))) by lia.
      rewrite !(lget_lset_other _ _ nvalue) by congruence. rewrite lget_lset_same by exact L3.
      apply lset3; congruence.
    + rewrite !lset_length. exact L1.
    + rewrite !lset_length. exact L2.
    + rewrite !lset_length. exact L3.
    + rewrite lget_lset_other by congruence. apply lget_lset_same. rewrite lset_length. exact L1.
    + apply lget_lset_same. rewrite !lset_length. exact L2.
Qed.

(* ----- catalog.SetValue(asType[K](a.GetKey()), asType[V](a.GetValue())) : Catalog, Map ----- *)
Definition pairs_body (ncat nassoc nkey nvalue : nat) : list mstmt :=
  [SAssign nassoc EIterNext;
   SAssign nkey (EAsType TyK (EMethod (ELocal nassoc) "GetKey" []));
   SAssign nvalue (EAsType TyV (EMethod (ELocal nassoc) "GetValue" []));
   SExpr (EMethod (ELocal ncat) "SetValue" [ELocal nkey; ELocal nvalue])].

Definition pairs_obj (is_cat : bool) (m : list (val * val)) : obj := if is_cat then OCat m else OMap m.

Lemma pairs_loop : forall f ncat nassoc nkey nvalue (step : val * val -> menv -> mres) kvs (is_cat : bool),
  (forall kv e, step kv e = exec args0 (5 + f) (with_item c0 (MPair (fst kv) (snd kv))) e (pairs_body ncat nassoc nkey nvalue)) ->
  ncat <> nassoc -> ncat <> nkey -> ncat <> nvalue -> nassoc <> nkey -> nassoc <> nvalue -> nkey <> nvalue ->
  forall acc e, (ncat < length e)%nat -> (nassoc < length e)%nat -> (nkey < length e)%nat -> (nvalue < length e)%nat ->
  lget e ncat = MObj (pairs_obj is_cat acc) ->
  match convert_pairs tk tv kvs with
  | Some r => exists e', fold_loop step kvs e = RNormal e' /\ length e' = length e /\
                         lget e' ncat = MObj (pairs_obj is_cat (a_set_all keq acc r)) /\
                         (forall n, n <> ncat -> n <> nassoc -> n <> nkey -> n <> nvalue -> lget e' n = lget e n)
  | None => fold_loop step kvs e = RPanic
  end.
Proof.
  intros f ncat nassoc nkey nvalue step kvs is_cat Hstep D1 D2 D3 D4 D5 D6.
  induction kvs as [|[k v] r IH]; intros acc e L1 L2 L3 L4 G.
  - cbn [convert_pairs fold_loop a_set_all fold_left]. exists e. repeat split; auto.
  - cbn [convert_pairs fold_loop]. rewrite Hstep. unfold pairs_body. cbn [plus fst snd].
    rewrite exec_cons. cbn [exec1 eval c_item with_item of_ev canon].
    rewrite exec_cons. cbn [exec1 eval]. rewrite lget_lset_same by exact L2. cbn [method_call String.eqb Ascii.eqb Bool.eqb ety_of c_tk c_tv ctx0 with_item].
    destruct (as_type tk k) as [k'|]; [|reflexivity]. cbn [of_ev canon].
    rewrite exec_cons. cbn [exec1 eval]. rewrite lget_lset_other by congruence. rewrite lget_lset_same by exact L2.
    cbn [method_call String.eqb Ascii.eqb Bool.eqb ety_of c_tk c_tv ctx0 with_item].
    destruct (as_type tv v) as [v'|]; [|reflexivity]. cbn [of_ev canon].
    rewrite exec_cons. cbn [exec1]. rewrite !(lget_lset_other _ _ ncat) by congruence. rewrite G.
    cbn [eval_list eval]. rewrite (lget_lset_other _ nvalue nkey) by congruence. rewrite lget_lset_same by (rewrite !lset_length; exact L3).
    rewrite lget_lset_same by (rewrite !lset_length; exact L4).
    assert (M : mutate (with_item c0 (MPair k v)) (pairs_obj is_cat acc) "SetValue" [MVal k'; MVal v'] = EV (MObj (pairs_obj is_cat (a_set keq acc k' v')))).
    { destruct is_cat; reflexivity. }
    rewrite M. cbn [of_ev canon]. rewrite exec_nil.
    match goal with |- context [fold_loop step r ?E] => remember E as E1 eqn:HE end.
    assert (LE : length E1 = length e) by (subst E1; rewrite !lset_length; reflexivity).
    assert (GE : lget E1 ncat = MObj (pairs_obj is_cat (a_set keq acc k' v'))).
    { subst E1. apply lget_lset_same. rewrite !lset_length. exact L1. }
    assert (FE : forall n, n <> ncat -> n <> nassoc -> n <> nkey -> n <> nvalue -> lget E1 n = lget e n).
    { intros n N1 N2 N3 N4. subst E1. rewrite !lget_lset_other by congruence. reflexivity. }
    clear HE.
    specialize (IH (a_set keq acc k' v') E1). rewrite LE in IH. specialize (IH L1 L2 L3 L4 GE).
    destruct (convert_pairs tk tv r) as [r'|]; [|exact IH].
    destruct IH as (e' & E & Le & Ge & Fr). exists e'. split; [exact E|]. split; [exact Le|]. split; [exact Ge|].
    intros n N1 N2 N3 N4. rewrite (Fr n N1 N2 N3 N4). apply FE; assumption.
Qed.

(* ----- for _, value := range values { set.AddValue(value) } : Set with a collator ----- *)
Definition range_body (nset x : nat) : list mstmt := [SExpr (EMethod (ELocal nset) "AddValue" [ELocal x])].

Lemma set_range_loop : forall f nset x (step : val -> menv -> mres) vs,
  (forall v e, step v e = exec args0 (2 + f) c0 (lset e x (MVal v)) (range_body nset x)) ->
  nset <> x ->
  forall cl acc e, (nset < length e)%nat -> (x < length e)%nat -> lget e nset = MObj (OSet cl acc) ->
  fold_loop step vs e =
  out_env (lset e x (last_or (lget e x) vs)) nset (OSet cl) (set_add_all (zero_of tv) (ranker cl) acc vs).
Proof.
  intros f nset x step vs Hstep Hne cl. induction vs as [|v r IH]; intros acc e L1 L2 G.
  - cbn [fold_loop set_add_all out_env]. rewrite last_or_nil, lset_lget_id, <- G, lset_lget_id. reflexivity.
  - cbn [fold_loop]. rewrite Hstep. unfold range_body. cbn [plus]. rewrite exec_cons. cbn [exec1].
    rewrite lget_lset_other by congruence. rewrite G. cbn [eval_list eval]. rewrite lget_lset_same by exact L2.
    cbn [mutate String.eqb Ascii.eqb Bool.eqb c_tv ctx0].
    destruct (set_add_ret (zero_of tv) (ranker cl) acc v) as [acc' Ea]. rewrite Ea. cbn [out_map of_out of_ev canon]. rewrite exec_nil.
    rewrite (IH acc').
    + cbn [set_add_all]. rewrite Ea. cbn [out_bind].
      rewrite lget_lset_other by congruence. rewrite lget_lset_same by exact L2. rewrite last_or_cons.
      destruct (set_add_all (zero_of tv) (ranker cl) acc' r); cbn [out_env]; try reflexivity. f_equal.
      rewrite (lset_lset_swap _ nset x) by exact Hne. rewrite !lset_lset_same. reflexivity.
    + rewrite !lset_length. exact L1.
    + rewrite !lset_length. exact L2.
    + apply lget_lset_same. rewrite lset_length. exact L1.
Qed.
End Loops.
