(* SetTransfer.v — the set theorems for the ranking that the pool model (Pool.v) actually executes
   for the default collator: [rk_default] on RAW values [val], for sets whose members lie in the
   universe [inU cmax] (well-formed, nesting within the collator's maximum depth).

   SetProofs2.v instantiates the ranker-parametric theorems at the sigma type [U M]; here the
   results are carried along the projection [proj1_sig : U M -> val]:  every set operation
   commutes with [map f] when the ranker on B is the pull-back of the ranker on A along f
   (section Transfer), every list of universe members is the image of a list over [U M]
   (lift_list), hence the theorems hold for [rk_default] under the hypothesis
   [Forall (fun v => inU cmax v = true)] alone — no [total_preorder] hypothesis.  *)
From Verif Require Import Base Seq Coll SetProofs Value CollateRank CollateUse Pool SetProofs2.
From Coq Require Import Sorted Permutation.
Local Open Scope nat_scope.

Section Transfer.
Variables A B : Type.
Variable f : B -> A.
Variable rkA : A -> A -> comparison.
Variable zeroB : B.
Definition rk_pull (x y : B) : comparison := rkA (f x) (f y).
Let rkB := rk_pull.
Let zeroA := f zeroB.

Lemma fil_map : forall fuel l v first last size,
  find_index_loop zeroA rkA fuel (map f l) (f v) first last size
  = find_index_loop zeroB rkB fuel l v first last size.
Proof.
  induction fuel as [|fuel IH]; intros l v first last size.
  - rewrite !fil_zero. reflexivity.
  - rewrite !fil_unfold. destruct (size =? 0); [reflexivity|].
    unfold zeroA. rewrite map_nth. unfold rkB, rk_pull.
    destruct (rkA (f v) (f (nth (first + size / 2 - 1) l zeroB))); auto.
Qed.

Lemma find_index_map : forall l v,
  find_index zeroA rkA (map f l) (f v) = find_index zeroB rkB l v.
Proof. intros l v. unfold find_index. rewrite map_length. apply fil_map. Qed.

Lemma insert_value_map : forall l s v,
  insert_value (map f l) s (f v) = out_map (map f) (insert_value l s v).
Proof.
  intros l s v. unfold insert_value. rewrite map_length.
  destruct (length l <? s); simpl; auto.
  rewrite map_app, firstn_map. simpl. rewrite skipn_map. reflexivity.
Qed.

Lemma remove_nth_map : forall k (l : list B), remove_nth k (map f l) = map f (remove_nth k l).
Proof.
  induction k as [|k IH]; intros [|h t]; simpl; auto. rewrite IH. reflexivity.
Qed.

Lemma remove_value_map : forall l i,
  out_map snd (remove_value zeroA (map f l) i) = out_map (map f) (out_map snd (remove_value zeroB l i)).
Proof.
  intros l i. unfold remove_value. rewrite map_length.
  destruct (pos (length l) i); simpl; auto. rewrite remove_nth_map. reflexivity.
Qed.

Lemma set_add_map : forall l v,
  set_add zeroA rkA (map f l) (f v) = out_map (map f) (set_add zeroB rkB l v).
Proof.
  intros l v. unfold set_add. rewrite find_index_map.
  destruct (find_index zeroB rkB l v) as [[s [|]]| |]; simpl; auto.
  apply insert_value_map.
Qed.

Lemma set_remove_map : forall l v,
  set_remove zeroA rkA (map f l) (f v) = out_map (map f) (set_remove zeroB rkB l v).
Proof.
  intros l v. unfold set_remove. rewrite find_index_map.
  destruct (find_index zeroB rkB l v) as [[s [|]]| |]; simpl; auto.
  apply remove_value_map.
Qed.

Lemma set_add_all_map : forall vs l,
  set_add_all zeroA rkA (map f l) (map f vs) = out_map (map f) (set_add_all zeroB rkB l vs).
Proof.
  induction vs as [|v vs IH]; intros l; simpl; auto.
  rewrite set_add_map. destruct (set_add zeroB rkB l v); simpl; auto.
Qed.

Lemma set_remove_all_map : forall vs l,
  set_remove_all zeroA rkA (map f l) (map f vs) = out_map (map f) (set_remove_all zeroB rkB l vs).
Proof.
  induction vs as [|v vs IH]; intros l; simpl; auto.
  rewrite set_remove_map. destruct (set_remove zeroB rkB l v); simpl; auto.
Qed.

Lemma set_contains_map : forall l v,
  set_contains zeroA rkA (map f l) (f v) = set_contains zeroB rkB l v.
Proof. intros. unfold set_contains. rewrite find_index_map. reflexivity. Qed.

Lemma set_get_index_map : forall l v,
  set_get_index zeroA rkA (map f l) (f v) = set_get_index zeroB rkB l v.
Proof. intros. unfold set_get_index. rewrite find_index_map. reflexivity. Qed.

Lemma set_contains_any_map : forall vs l,
  set_contains_any zeroA rkA (map f l) (map f vs) = set_contains_any zeroB rkB l vs.
Proof.
  induction vs as [|v vs IH]; intros l; simpl; auto.
  rewrite set_contains_map, IH. reflexivity.
Qed.

Lemma set_contains_all_map : forall vs l,
  set_contains_all zeroA rkA (map f l) (map f vs) = set_contains_all zeroB rkB l vs.
Proof.
  induction vs as [|v vs IH]; intros l; simpl; auto.
  rewrite set_contains_map, IH. reflexivity.
Qed.

(* histories *)
Definition sop_map (o : sop B) : sop A :=
  match o with
  | SAdd _ v => SAdd A (f v)
  | SRemove _ v => SRemove A (f v)
  | SAddAll _ vs => SAddAll A (map f vs)
  | SRemoveAll _ vs => SRemoveAll A (map f vs)
  | SClear _ => SClear A
  end.

Lemma srun_map : forall ops l,
  srun A zeroA rkA (map f l) (map sop_map ops) = out_map (map f) (srun B zeroB rkB l ops).
Proof.
  induction ops as [|o ops IH]; intros l; simpl; auto.
  assert (E : sstep A zeroA rkA (map f l) (sop_map o) = out_map (map f) (sstep B zeroB rkB l o)).
  { destruct o; simpl.
    - apply set_add_map. - apply set_remove_map. - apply set_add_all_map.
    - apply set_remove_all_map. - reflexivity. }
  rewrite E. destruct (sstep B zeroB rkB l o); simpl; auto.
Qed.

Lemma eqv_map : forall x y, eqv A rkA (f x) (f y) = eqv B rkB x y.
Proof. reflexivity. Qed.

Lemma existsb_eqv_map : forall x vs, existsb (eqv A rkA (f x)) (map f vs) = existsb (eqv B rkB x) vs.
Proof. induction vs as [|v vs IH]; simpl; auto. rewrite IH. reflexivity. Qed.

Lemma spec_member_map : forall ops x m,
  spec_member A rkA (map sop_map ops) (f x) m = spec_member B rkB ops x m.
Proof.
  induction ops as [|o ops IH]; intros x m; simpl; auto.
  destruct o; simpl; rewrite ?existsb_eqv_map; apply IH.
Qed.

(* predicates *)
Lemma strict_sorted_map : forall l, StrictSorted A rkA (map f l) <-> StrictSorted B rkB l.
Proof.
  unfold StrictSorted. induction l as [|a t IH]; simpl.
  - split; constructor.
  - split; intros H; inversion H as [|? ? Ht Hf]; subst; constructor; try (apply IH; assumption).
    + rewrite Forall_forall in *. intros y Hy. apply (Hf (f y)). apply in_map. exact Hy.
    + rewrite Forall_forall in *. intros y Hy. apply in_map_iff in Hy. destruct Hy as [z [Ez Hz]].
      subst y. apply (Hf z Hz).
Qed.

Lemma mem_map : forall x l, mem A rkA (f x) (map f l) <-> mem B rkB x l.
Proof.
  intros x l. unfold mem, equiv. split.
  - intros [y [Hy E]]. apply in_map_iff in Hy. destruct Hy as [z [Ez Hz]]. subst y. exists z. auto.
  - intros [z [Hz E]]. exists (f z). split; auto. apply in_map. exact Hz.
Qed.

(* set algebra with both operands under the same pulled-back ranker *)
Lemma and_loop_map : forall xs acc b,
  and_loop A zeroA rkA rkA (map f acc) (map f xs) (map f b)
  = out_map (map f) (and_loop B zeroB rkB rkB acc xs b).
Proof.
  induction xs as [|x xs IH]; intros acc b; simpl; auto.
  rewrite set_contains_map. destruct (set_contains zeroB rkB b x) as [[|]| |]; simpl; auto.
  rewrite set_add_map. destruct (set_add zeroB rkB acc x); simpl; auto.
Qed.

Lemma set_and_map : forall a b,
  set_and zeroA rkA rkA (map f a) (map f b) = out_map (map f) (set_and zeroB rkB rkB a b).
Proof. intros. unfold set_and. apply (and_loop_map a [] b). Qed.

Lemma set_or_map : forall a b,
  set_or zeroA rkA (map f a) (map f b) = out_map (map f) (set_or zeroB rkB a b).
Proof.
  intros. unfold set_or. change (@nil A) with (map f []). rewrite set_add_all_map.
  destruct (set_add_all zeroB rkB [] a); simpl; auto. apply set_add_all_map.
Qed.

Lemma set_sans_map : forall a b,
  set_sans zeroA rkA (map f a) (map f b) = out_map (map f) (set_sans zeroB rkB a b).
Proof.
  intros. unfold set_sans. change (@nil A) with (map f []). rewrite set_add_all_map.
  destruct (set_add_all zeroB rkB [] a); simpl; auto. apply set_remove_all_map.
Qed.

Lemma set_xor_map : forall a b,
  set_xor zeroA rkA rkA (map f a) (map f b) = out_map (map f) (set_xor zeroB rkB rkB a b).
Proof.
  intros. unfold set_xor. rewrite !set_sans_map.
  destruct (set_sans zeroB rkB a b); simpl; auto.
  destruct (set_sans zeroB rkB b a); simpl; auto. apply set_or_map.
Qed.
End Transfer.

(* ------------------------------------------------------------------ *)
(* Lifting lists of universe members to [U M]                            *)
(* ------------------------------------------------------------------ *)
Definition inUd (v : val) : Prop := inU cmax v = true.
Definition pU : U cmax -> val := @proj1_sig val (fun v => inU cmax v = true).

Lemma lift_val : forall v, inUd v -> exists u : U cmax, pU u = v.
Proof. intros v H. exists (exist _ v H). reflexivity. Qed.

Lemma lift_list : forall l, Forall inUd l -> exists lu : list (U cmax), map pU lu = l.
Proof.
  induction 1 as [|v t Hv Ht [lu E]].
  - exists []. reflexivity.
  - destruct (lift_val v Hv) as [u Eu]. exists (u :: lu). simpl. rewrite Eu, E. reflexivity.
Qed.

Lemma pU_in : forall u, inUd (pU u).
Proof. intros [v H]. exact H. Qed.

Lemma map_pU_in : forall lu, Forall inUd (map pU lu).
Proof. induction lu; simpl; constructor; auto. apply pU_in. Qed.

Lemma rk_default_pull : forall x y, rk_pull val (U cmax) pU rk_default x y = rkU cmax x y.
Proof. reflexivity. Qed.

(* operation lists within the universe *)
Definition sop_inU (o : sop val) : Prop :=
  match o with
  | SAdd _ v | SRemove _ v => inUd v
  | SAddAll _ vs | SRemoveAll _ vs => Forall inUd vs
  | SClear _ => True
  end.

Lemma lift_ops : forall ops, Forall sop_inU ops ->
  exists opsu : list (sop (U cmax)), map (sop_map val (U cmax) pU) opsu = ops.
Proof.
  induction 1 as [|o t Ho Ht [tu E]].
  - exists []. reflexivity.
  - assert (X : exists ou, sop_map val (U cmax) pU ou = o).
    { destruct o as [v|v|vs|vs|]; simpl in Ho.
      - destruct (lift_val v Ho) as [u Eu]. exists (SAdd _ u). simpl. rewrite Eu. reflexivity.
      - destruct (lift_val v Ho) as [u Eu]. exists (SRemove _ u). simpl. rewrite Eu. reflexivity.
      - destruct (lift_list vs Ho) as [us Eu]. exists (SAddAll _ us). simpl. rewrite Eu. reflexivity.
      - destruct (lift_list vs Ho) as [us Eu]. exists (SRemoveAll _ us). simpl. rewrite Eu. reflexivity.
      - exists (SClear _). reflexivity. }
    destruct X as [ou Eo]. exists (ou :: tu). simpl. rewrite Eo, E. reflexivity.
Qed.

(* ------------------------------------------------------------------ *)
(* The theorems for rk_default on raw values                             *)
(* ------------------------------------------------------------------ *)
Section RawDefault.
Variable zero : val.
Hypothesis zero_in : inUd zero.

Let SSd := StrictSorted val rk_default.
Let memd := mem val rk_default.

(* every history of universe values over a strictly ordered universe set returns a strictly
   ordered universe set which is the mathematical set *)
Theorem raw_history : forall ops l,
  Forall sop_inU ops -> Forall inUd l -> SSd l ->
  exists l', srun val zero rk_default l ops = Ret l' /\ Forall inUd l' /\ SSd l' /\
    forall x m, inUd x -> (memd x l <-> m = true) ->
      (memd x l' <-> spec_member val rk_default ops x m = true).
Proof.
  intros ops l Hops Hl Hs.
  destruct (lift_val zero zero_in) as [zu Ez].
  destruct (lift_ops ops Hops) as [opsu Eo]. destruct (lift_list l Hl) as [lu El].
  subst ops l. rewrite <- Ez.
  rewrite (srun_map val (U cmax) pU rk_default zu opsu lu).
  apply (strict_sorted_map val (U cmax) pU rk_default) in Hs.
  destruct (dc_history_strictly_ordered cmax zu opsu lu Hs) as [lu' [E S]].
  change (rk_pull val (U cmax) pU rk_default) with (rkU cmax).
  rewrite E. simpl. exists (map pU lu'). split; [reflexivity|]. split; [apply map_pU_in|].
  split; [apply (strict_sorted_map val (U cmax) pU rk_default); exact S|].
  intros x m Hx Hm. destruct (lift_val x Hx) as [xu Ex]. subst x.
  unfold memd in *. rewrite (mem_map val (U cmax) pU rk_default) in *.
  rewrite (spec_member_map val (U cmax) pU rk_default).
  apply (dc_history_membership cmax zu opsu lu lu' Hs E xu m Hm).
Qed.

Theorem raw_add : forall l v, Forall inUd l -> inUd v -> SSd l ->
  exists l', set_add zero rk_default l v = Ret l' /\ Forall inUd l' /\ SSd l' /\
    (forall x, inUd x -> (memd x l' <-> equiv val rk_default x v \/ memd x l)) /\
    (memd v l -> l' = l) /\ (~ memd v l -> Permutation l' (v :: l)).
Proof.
  intros l v Hl Hv Hs.
  destruct (lift_val zero zero_in) as [zu Ez]. destruct (lift_list l Hl) as [lu El].
  destruct (lift_val v Hv) as [vu Ev]. subst l v. rewrite <- Ez.
  rewrite (set_add_map val (U cmax) pU rk_default zu lu vu).
  apply (strict_sorted_map val (U cmax) pU rk_default) in Hs.
  destruct (dc_add cmax zu lu vu Hs) as [lu' [E [S [Mm [Same Perm]]]]].
  change (rk_pull val (U cmax) pU rk_default) with (rkU cmax). rewrite E. simpl.
  exists (map pU lu'). split; [reflexivity|]. split; [apply map_pU_in|].
  split; [apply (strict_sorted_map val (U cmax) pU rk_default); exact S|].
  unfold memd. split; [|split].
  - intros x Hx. destruct (lift_val x Hx) as [xu Ex]. subst x.
    rewrite !(mem_map val (U cmax) pU rk_default). apply Mm.
  - rewrite (mem_map val (U cmax) pU rk_default). intros H. rewrite (Same H). reflexivity.
  - rewrite (mem_map val (U cmax) pU rk_default). intros H.
    change (pU vu :: map pU lu) with (map pU (vu :: lu)). apply Permutation_map. apply Perm, H.
Qed.

Theorem raw_remove : forall l v, Forall inUd l -> inUd v -> SSd l ->
  exists l', set_remove zero rk_default l v = Ret l' /\ Forall inUd l' /\ SSd l' /\
    (forall x, inUd x -> (memd x l' <-> memd x l /\ ~ equiv val rk_default x v)) /\
    (forall y, In y l' -> In y l) /\ (~ memd v l -> l' = l).
Proof.
  intros l v Hl Hv Hs.
  destruct (lift_val zero zero_in) as [zu Ez]. destruct (lift_list l Hl) as [lu El].
  destruct (lift_val v Hv) as [vu Ev]. subst l v. rewrite <- Ez.
  rewrite (set_remove_map val (U cmax) pU rk_default zu lu vu).
  apply (strict_sorted_map val (U cmax) pU rk_default) in Hs.
  destruct (dc_remove cmax zu lu vu Hs) as [lu' [E [S [Mm [Sub Same]]]]].
  change (rk_pull val (U cmax) pU rk_default) with (rkU cmax). rewrite E. simpl.
  exists (map pU lu'). split; [reflexivity|]. split; [apply map_pU_in|].
  split; [apply (strict_sorted_map val (U cmax) pU rk_default); exact S|].
  unfold memd. split; [|split].
  - intros x Hx. destruct (lift_val x Hx) as [xu Ex]. subst x.
    rewrite !(mem_map val (U cmax) pU rk_default). apply Mm.
  - intros y Hy. apply in_map_iff in Hy. destruct Hy as [z [Ey Hz]]. subst y. apply in_map. apply Sub, Hz.
  - rewrite (mem_map val (U cmax) pU rk_default). intros H. rewrite (Same H). reflexivity.
Qed.

Theorem raw_get_index : forall l v, Forall inUd l -> inUd v -> SSd l ->
  exists n, set_get_index zero rk_default l v = Ret n /\
    (n = 0 <-> ~ memd v l) /\
    (forall k, n = S k -> k < length l /\ rk_default v (nth k l zero) = Eq) /\
    (forall k, k < length l -> rk_default v (nth k l zero) = Eq -> n = S k).
Proof.
  intros l v Hl Hv Hs.
  destruct (lift_val zero zero_in) as [zu Ez]. destruct (lift_list l Hl) as [lu El].
  destruct (lift_val v Hv) as [vu Ev]. subst l v. rewrite <- Ez.
  rewrite (set_get_index_map val (U cmax) pU rk_default zu lu vu).
  apply (strict_sorted_map val (U cmax) pU rk_default) in Hs.
  destruct (dc_get_index cmax zu lu vu Hs) as [n [E [Z0 [F1 F2]]]].
  change (rk_pull val (U cmax) pU rk_default) with (rkU cmax). rewrite E.
  exists n. split; [reflexivity|]. unfold memd. rewrite (mem_map val (U cmax) pU rk_default).
  rewrite map_length. split; [exact Z0|]. split.
  - intros k Hk. rewrite map_nth. apply (F1 k Hk).
  - intros k Hk. rewrite map_nth. apply (F2 k Hk).
Qed.

Theorem raw_contains : forall l v, Forall inUd l -> inUd v -> SSd l ->
  exists b, set_contains zero rk_default l v = Ret b /\ (b = true <-> memd v l).
Proof.
  intros l v Hl Hv Hs.
  destruct (lift_val zero zero_in) as [zu Ez]. destruct (lift_list l Hl) as [lu El].
  destruct (lift_val v Hv) as [vu Ev]. subst l v. rewrite <- Ez.
  rewrite (set_contains_map val (U cmax) pU rk_default zu lu vu).
  apply (strict_sorted_map val (U cmax) pU rk_default) in Hs.
  destruct (dc_contains_value cmax zu lu vu Hs) as [b [E Hb]].
  change (rk_pull val (U cmax) pU rk_default) with (rkU cmax). rewrite E.
  exists b. split; [reflexivity|]. unfold memd. rewrite (mem_map val (U cmax) pU rk_default). exact Hb.
Qed.

(* set algebra: both operands ordered by the default collator *)
Section Algebra.
Variable opA : val -> list val -> list val -> out (list val).
Variable opU : U cmax -> list (U cmax) -> list (U cmax) -> out (list (U cmax)).
Variable combine : Prop -> Prop -> Prop.
Hypothesis combine_iff : forall p p' q q', (p <-> p') -> (q <-> q') -> (combine p q <-> combine p' q').
Hypothesis op_map : forall zu a b, opA (pU zu) (map pU a) (map pU b) = out_map (map pU) (opU zu a b).
Hypothesis op_spec : forall zu a b, StrictSorted (U cmax) (rkU cmax) a -> StrictSorted (U cmax) (rkU cmax) b ->
  exists r, opU zu a b = Ret r /\ StrictSorted (U cmax) (rkU cmax) r /\
    forall x, mem (U cmax) (rkU cmax) x r <-> combine (mem (U cmax) (rkU cmax) x a) (mem (U cmax) (rkU cmax) x b).

Lemma raw_algebra : forall a b, Forall inUd a -> Forall inUd b -> SSd a -> SSd b ->
  exists r, opA zero a b = Ret r /\ Forall inUd r /\ SSd r /\
    forall x, inUd x -> (memd x r <-> combine (memd x a) (memd x b)).
Proof.
  intros a b Ha Hb Sa Sb.
  destruct (lift_val zero zero_in) as [zu Ez].
  destruct (lift_list a Ha) as [au Ea]. destruct (lift_list b Hb) as [bu Eb]. subst a b.
  rewrite <- Ez. rewrite (op_map zu).
  apply (strict_sorted_map val (U cmax) pU rk_default) in Sa, Sb.
  destruct (op_spec zu au bu Sa Sb) as [r [E [S Mm]]]. rewrite E. simpl.
  exists (map pU r). split; [reflexivity|]. split; [apply map_pU_in|].
  split; [apply (strict_sorted_map val (U cmax) pU rk_default); exact S|].
  intros x Hx. destruct (lift_val x Hx) as [xu Ex]. subst x. unfold memd.
  rewrite (mem_map val (U cmax) pU rk_default). rewrite Mm.
  apply combine_iff; symmetry; apply (mem_map val (U cmax) pU rk_default).
Qed.
End Algebra.

Theorem raw_and : forall a b, Forall inUd a -> Forall inUd b -> SSd a -> SSd b ->
  exists r, set_and zero rk_default rk_default a b = Ret r /\ Forall inUd r /\ SSd r /\
    forall x, inUd x -> (memd x r <-> memd x a /\ memd x b).
Proof.
  apply (raw_algebra (fun z => set_and z rk_default rk_default) (fun zu => set_and zu (rkU cmax) (rkU cmax)) and).
  - intros; tauto.
  - intros. apply (set_and_map val (U cmax) pU rk_default).
  - intros zu. apply dc_and.
Qed.

Theorem raw_or : forall a b, Forall inUd a -> Forall inUd b -> SSd a -> SSd b ->
  exists r, set_or zero rk_default a b = Ret r /\ Forall inUd r /\ SSd r /\
    forall x, inUd x -> (memd x r <-> memd x a \/ memd x b).
Proof.
  apply (raw_algebra (fun z => set_or z rk_default) (fun zu => set_or zu (rkU cmax)) or).
  - intros; tauto.
  - intros. apply (set_or_map val (U cmax) pU rk_default).
  - intros zu. apply dc_or.
Qed.

Theorem raw_sans : forall a b, Forall inUd a -> Forall inUd b -> SSd a -> SSd b ->
  exists r, set_sans zero rk_default a b = Ret r /\ Forall inUd r /\ SSd r /\
    forall x, inUd x -> (memd x r <-> memd x a /\ ~ memd x b).
Proof.
  apply (raw_algebra (fun z => set_sans z rk_default) (fun zu => set_sans zu (rkU cmax)) (fun p q => p /\ ~ q)).
  - intros; tauto.
  - intros. apply (set_sans_map val (U cmax) pU rk_default).
  - intros zu. apply dc_sans.
Qed.

Theorem raw_xor : forall a b, Forall inUd a -> Forall inUd b -> SSd a -> SSd b ->
  exists r, set_xor zero rk_default rk_default a b = Ret r /\ Forall inUd r /\ SSd r /\
    forall x, inUd x -> (memd x r <-> (memd x a /\ ~ memd x b) \/ (memd x b /\ ~ memd x a)).
Proof.
  apply (raw_algebra (fun z => set_xor z rk_default rk_default) (fun zu => set_xor zu (rkU cmax) (rkU cmax))
           (fun p q => (p /\ ~ q) \/ (q /\ ~ p))).
  - intros; tauto.
  - intros. apply (set_xor_map val (U cmax) pU rk_default).
  - intros zu. apply dc_xor.
Qed.

End RawDefault.

(* checkers for the universe hypotheses (used by the Examples) *)
Lemma inUd_check : forall l, forallb (inU cmax) l = true -> Forall inUd l.
Proof. intros l H. apply Forall_forall. intros x Hx. rewrite forallb_forall in H. apply H, Hx. Qed.

Definition sop_inUb (o : sop val) : bool :=
  match o with
  | SAdd _ v | SRemove _ v => inU cmax v
  | SAddAll _ vs | SRemoveAll _ vs => forallb (inU cmax) vs
  | SClear _ => true
  end.
Lemma sop_inU_check : forall ops, forallb sop_inUb ops = true -> Forall sop_inU ops.
Proof.
  intros ops H. apply Forall_forall. intros o Ho. rewrite forallb_forall in H. specialize (H o Ho).
  destruct o; simpl in *; auto; apply inUd_check; exact H.
Qed.

(* concrete data for the Examples: a set of []int values and a history over it *)
Definition sl (zs : list Z) : val := VSeq KSlice (map (VInt 0) zs).
Definition ex_raw_set : list val := [sl [1]; sl [1; 2]; sl [3]]%Z.
Definition ex_raw_ops : list (sop val) :=
  [SAdd val (sl [0; 9]); SRemoveAll val [sl [1]; sl [7]]; SAddAll val [sl []; sl [1; 2]; sl [2]]]%Z.
Definition ex_raw_set_b : list val := [sl []; sl [1; 2]; sl [2; 0]]%Z.
