(* CollateRank.v — proofs about the model of rankValues (property C07, and the ranking half
   of C08): termination, independence of fuel and depth ("purity"), total preorder. *)
From Verif Require Import Base Sorter Value SorterProofs CollateOrd CollateSort CollateBase.
From Coq Require Import Permutation Sorted.
Open Scope nat_scope.

(* ------------------------------------------------------------------ *)
(* Measures                                                            *)
(* ------------------------------------------------------------------ *)
Definition lsize (l : list val) : nat := fold_right (fun x n => vsize x + n) 0 l.

Lemma vsize_go : forall l,
  (fix go (xs : list val) : nat :=
     match xs with [] => 0 | x :: xs' => vsize x + go xs' end) l = lsize l.
Proof. induction l; simpl; auto. Qed.

Lemma vsize_seq : forall k l, vsize (VSeq k l) = S (lsize l).
Proof. intros. simpl. rewrite vsize_go. reflexivity. Qed.
Lemma vsize_mapping : forall k ks vs, vsize (VMapping k ks vs) = S (lsize ks + lsize vs).
Proof. intros. simpl. rewrite !vsize_go. reflexivity. Qed.
Lemma vsize_assoc : forall k v, vsize (VAssoc k v) = S (vsize k + vsize v).
Proof. reflexivity. Qed.
Lemma vsize_pos : forall v, 1 <= vsize v.
Proof. destruct v; simpl; lia. Qed.

Lemma lsize_in : forall x l, In x l -> vsize x <= lsize l.
Proof. induction l; simpl; intros []; subst; try lia. apply IHl in H. lia. Qed.

Lemma zipkv_in : forall ks vs k v, In (k, v) (zipkv ks vs) -> In k ks /\ In v vs.
Proof.
  induction ks as [|k0 ks IH]; destruct vs as [|v0 vs]; simpl; intros k v H; try tauto.
  destruct H as [H|H]; [inversion H; subst; auto|]. apply IH in H. tauto.
Qed.

Lemma zipkv_size : forall ks vs k v, In (k, v) (zipkv ks vs) -> vsize k + vsize v <= lsize ks + lsize vs.
Proof.
  induction ks as [|k0 ks IH]; destruct vs as [|v0 vs]; simpl; intros k v H; try tauto.
  destruct H as [H|H]; [inversion H; subst; lia|]. apply IH in H. lia.
Qed.

(* nesting depth: the number of array / map levels (associations do not count) *)
Fixpoint nest (v : val) : nat :=
  match v with
  | VSeq _ l => S (fold_right (fun x n => Nat.max (nest x) n) 0 l)
  | VAssoc k v => Nat.max (nest k) (nest v)
  | VMapping _ ks vs =>
      S (Nat.max (fold_right (fun x n => Nat.max (nest x) n) 0 ks)
                 (fold_right (fun x n => Nat.max (nest x) n) 0 vs))
  | _ => 0
  end.
Definition lnest (l : list val) : nat := fold_right (fun x n => Nat.max (nest x) n) 0 l.

Lemma lnest_in : forall x l, In x l -> nest x <= lnest l.
Proof. induction l; simpl; intros []; subst; try lia. apply IHl in H. lia. Qed.

(* the universe for the ranking theorems: the keys of Go maps and Maps are not
   collections (Go map keys cannot be slices or maps; the harness uses intrinsic keys) *)
Fixpoint wf0 (v : val) : bool :=
  match v with
  | VSeq _ l => forallb wf0 l
  | VAssoc k v => wf0 k && wf0 v
  | VMapping MCatalog ks vs => forallb wf0 ks && forallb wf0 vs
  | VMapping _ ks vs => forallb is_leaf ks && forallb wf0 vs
  | _ => true
  end.

Lemma leaf_wf0 : forall v, is_leaf v = true -> wf0 v = true.
Proof. destruct v as [ | | | | | | | | | | | | | |[]]; simpl; auto; discriminate. Qed.

(* direct components, as seen by the collator *)
Definition velems (w : view) : list val :=
  match w with
  | WLeaf => []
  | WAssoc k v => [k; v]
  | WArr l => l
  | WMap m => map fst m ++ map snd m
  end.
Definition elems (v : val) : list val := velems (view_of v).
Definition vstep (w : view) : nat := match w with WArr _ | WMap _ => 1 | _ => 0 end.

Lemma in_assocs : forall ks vs x, In x (assocs ks vs) ->
  exists k v, x = VAssoc k v /\ In (k, v) (zipkv ks vs).
Proof.
  unfold assocs. intros ks vs x H. apply in_map_iff in H. destruct H as [[k v] [H1 H2]].
  exists k, v. simpl in H1. auto.
Qed.

Lemma in_pair_elems : forall (m : list (val * val)) x,
  In x (map fst m ++ map snd m) -> exists p, In p m /\ (x = fst p \/ x = snd p).
Proof.
  intros m x H. apply in_app_or in H. destruct H as [H|H]; apply in_map_iff in H;
  destruct H as [p [H1 H2]]; exists p; auto.
Qed.

(* the fuel actually consumed: an association wrapper around a catalog entry is free *)
Definition wsz (a : val) : nat :=
  match a with VAssoc k v => vsize k + vsize v | _ => vsize a end.

Lemma wsz_le : forall a, wsz a <= vsize a.
Proof. destruct a; simpl; lia. Qed.
Lemma wsz_pos : forall a, 1 <= wsz a.
Proof. destruct a; simpl; try lia. pose proof (vsize_pos a1). lia. Qed.

Lemma elems_size : forall a x, In x (elems a) -> wsz x < wsz a.
Proof.
  intros a x. unfold elems.
  destruct a as [ | | | | | | | | | | | |k l |k v |[] ks vs]; unfold wsz at 2;
  rewrite ?vsize_seq, ?vsize_mapping; simpl view_of; simpl velems; simpl In; try tauto.
  - intros H. apply lsize_in in H. pose proof (wsz_le x). lia.
  - pose proof (vsize_pos k). pose proof (vsize_pos v). pose proof (wsz_le k). pose proof (wsz_le v).
    intros [H3|[H3|[]]]; subst; lia.
  - intros H. apply in_pair_elems in H. destruct H as [[k v] [H1 H2]]. simpl in H2.
    apply zipkv_size in H1. pose proof (vsize_pos k). pose proof (vsize_pos v).
    pose proof (wsz_le k). pose proof (wsz_le v).
    destruct H2; subst; lia.
  - intros H. apply in_pair_elems in H. destruct H as [[k v] [H1 H2]]. simpl in H2.
    apply zipkv_size in H1. pose proof (vsize_pos k). pose proof (vsize_pos v).
    pose proof (wsz_le k). pose proof (wsz_le v).
    destruct H2; subst; lia.
  - intros H. apply in_assocs in H. destruct H as [k [v [-> H]]].
    apply zipkv_size in H. simpl. lia.
Qed.

Lemma elems_nest : forall a x, In x (elems a) -> nest x + vstep (view_of a) <= nest a.
Proof.
  intros a x. unfold elems.
  destruct a as [ | | | | | | | | | | | |k l |k v |[] ks vs]; simpl; try tauto.
  - intros H. apply lnest_in in H. unfold lnest in H. lia.
  - intros [H|[H|[]]]; subst; lia.
  - intros H. apply in_pair_elems in H. destruct H as [[k v] [H1 H2]]. simpl in H2.
    apply zipkv_in in H1. destruct H1 as [Hk Hv]. apply lnest_in in Hk, Hv. unfold lnest in *.
    destruct H2; subst; lia.
  - intros H. apply in_pair_elems in H. destruct H as [[k v] [H1 H2]]. simpl in H2.
    apply zipkv_in in H1. destruct H1 as [Hk Hv]. apply lnest_in in Hk, Hv. unfold lnest in *.
    destruct H2; subst; lia.
  - intros H. apply in_assocs in H. destruct H as [k [v [-> H]]].
    apply zipkv_in in H. destruct H as [Hk Hv]. apply lnest_in in Hk, Hv. unfold lnest in *.
    simpl. lia.
Qed.

Lemma forallb_in {A} (f : A -> bool) l x : forallb f l = true -> In x l -> f x = true.
Proof. intros H. rewrite forallb_forall in H. auto. Qed.

Lemma elems_wf0 : forall a x, wf0 a = true -> In x (elems a) -> wf0 x = true.
Proof.
  intros a x. unfold elems.
  destruct a as [ | | | | | | | | | | | |k l |k v |[] ks vs]; simpl; try tauto.
  - intros H Hx. eapply forallb_in; eauto.
  - intros H [Hx|[Hx|[]]]; subst; apply andb_prop in H; tauto.
  - intros H Hx. apply andb_prop in H. destruct H as [Hks Hvs].
    apply in_pair_elems in Hx. destruct Hx as [[k v] [H1 H2]]. simpl in H2.
    apply zipkv_in in H1. destruct H1 as [Hk Hv].
    destruct H2; subst; [apply leaf_wf0|]; eapply forallb_in; eauto.
  - intros H Hx. apply andb_prop in H. destruct H as [Hks Hvs].
    apply in_pair_elems in Hx. destruct Hx as [[k v] [H1 H2]]. simpl in H2.
    apply zipkv_in in H1. destruct H1 as [Hk Hv].
    destruct H2; subst; [apply leaf_wf0|]; eapply forallb_in; eauto.
  - intros H Hx. apply andb_prop in H. destruct H as [Hks Hvs].
    apply in_assocs in Hx. destruct Hx as [k [v [-> Hx]]].
    apply zipkv_in in Hx. destruct Hx as [Hk Hv]. simpl.
    rewrite (forallb_in _ _ _ Hks Hk), (forallb_in _ _ _ Hvs Hv). reflexivity.
Qed.

Lemma map_keys_leaf : forall a m p, wf0 a = true -> view_of a = WMap m -> In p m -> is_leaf (fst p) = true.
Proof.
  intros a m [k v].
  destruct a as [ | | | | | | | | | | | |k0 l |k0 v0 |[] ks vs]; simpl; try discriminate;
  intros H E Hp; inversion E; subst; apply andb_prop in H; destruct H as [Hks Hvs];
  apply zipkv_in in Hp; destruct Hp as [Hk Hv]; eapply forallb_in; eauto.
Qed.

Lemma view_nest : forall a, vstep (view_of a) <= nest a.
Proof. destruct a as [ | | | | | | | | | | | | | |[]]; simpl; lia. Qed.

Lemma pair_in_elems : forall a m p, view_of a = WMap m -> In p m ->
  In (fst p) (elems a) /\ In (snd p) (elems a).
Proof.
  intros a m p Va Hp. unfold elems. rewrite Va. simpl.
  split; apply in_or_app; [left|right]; apply in_map; auto.
Qed.

Lemma sorted_in {A} (rk : A -> A -> comparison) l p : In p (sort_values rk l) -> In p l.
Proof. apply Permutation_in. apply sort_perm. Qed.

(* ------------------------------------------------------------------ *)
(* Generic facts on the result-level combinators                        *)
(* ------------------------------------------------------------------ *)
Lemma rlex_P {A} (P : res comparison -> Prop) (rec : A -> A -> res comparison) :
  (forall c, P (R c)) ->
  forall xs ys, (forall x y, In x xs -> In y ys -> P (rec x y)) -> P (rlex rec xs ys).
Proof.
  intros HR. induction xs as [|x xs IH]; destruct ys as [|y ys]; simpl; intros H; auto.
  pose proof (H x y (or_introl eq_refl) (or_introl eq_refl)) as Hxy.
  destruct (rec x y) as [[]| |]; auto.
Qed.

Lemma rlexswap_P {A} (P : res comparison -> Prop) (rec : A -> A -> res comparison) :
  (forall c, P (R c)) -> (forall r, P r -> P (flip_rank r)) ->
  forall xs ys, (forall x y, In x xs -> In y ys -> P (rec x y) /\ P (rec y x)) ->
  P (rlexswap rec xs ys).
Proof.
  intros HR Hf xs ys H. unfold rlexswap. destruct (length ys <? length xs).
  - apply Hf. apply rlex_P; auto. intros y x Hy Hx. destruct (H x y Hx Hy); auto.
  - apply rlex_P; auto. intros x y Hx Hy. destruct (H x y Hx Hy); auto.
Qed.

Lemma rthen_R : forall a b, rthen (R a) (R b) = R (cthen a b).
Proof. intros [] b; reflexivity. Qed.

Lemma rlex_pure {A} (rec : A -> A -> res comparison) (r : A -> A -> comparison) :
  forall xs ys, (forall x y, In x xs -> In y ys -> rec x y = R (r x y)) ->
  rlex rec xs ys = R (lex r xs ys).
Proof.
  induction xs as [|x xs IH]; destruct ys as [|y ys]; simpl; intros H; auto.
  rewrite H by (left; auto). rewrite IH by (intros; apply H; right; auto).
  destruct (r x y); reflexivity.
Qed.

Lemma rlexswap_pure {A} (rec : A -> A -> res comparison) (r : A -> A -> comparison) :
  forall xs ys, (forall x y, In x xs -> In y ys -> rec x y = R (r x y) /\ rec y x = R (r y x)) ->
  rlexswap rec xs ys = R (lexswap r xs ys).
Proof.
  intros xs ys H. unfold rlexswap, lexswap. destruct (length ys <? length xs).
  - rewrite (rlex_pure rec r) by (intros y x Hy Hx; destruct (H x y Hx Hy); auto). reflexivity.
  - apply rlex_pure. intros x y Hx Hy; destruct (H x y Hx Hy); auto.
Qed.

(* ------------------------------------------------------------------ *)
(* Termination: the fuel passed by rank0 is never exhausted (for ALL values)  *)
(* ------------------------------------------------------------------ *)
Lemma sub_fuel : forall a b x y f, In x (elems a) -> In y (elems b) ->
  wsz a + wsz b < S f -> wsz x + wsz y < f.
Proof. intros a b x y f Hx Hy H. apply elems_size in Hx, Hy. lia. Qed.

Lemma rthen_noof : forall r1 r2, r1 <> OutOfFuel -> r2 <> OutOfFuel -> rthen r1 r2 <> OutOfFuel.
Proof. intros [[]| |] r2; simpl; auto. Qed.

Lemma rank_no_oof : forall f M d a b, wsz a + wsz b < f -> rank M f d a b <> OutOfFuel.
Proof.
  induction f as [|f IH]; intros M d a b Hf; [lia|].
  rewrite rank_unfold. unfold spec.
  destruct (negb (Z.eqb (tyrank a) (tyrank b))); [discriminate|].
  destruct (view_of a) eqn:Va, (view_of b) eqn:Vb; try discriminate.
  - apply rthen_noof; apply IH; eapply sub_fuel; eauto; unfold elems; rewrite ?Va, ?Vb; simpl; auto.
  - destruct (d =? M); [discriminate|].
    apply rlexswap_P; try discriminate.
    + intros [ | | ]; simpl; congruence.
    + intros x y Hx Hy. split; apply IH.
      * eapply sub_fuel; eauto; unfold elems; rewrite ?Va, ?Vb; auto.
      * rewrite Nat.add_comm in Hf. eapply sub_fuel; eauto; unfold elems; rewrite ?Va, ?Vb; auto.
  - destruct (d =? M); [discriminate|].
    apply rlexswap_P; try discriminate.
    + intros [ | | ]; simpl; congruence.
    + intros p q Hp Hq. apply sorted_in in Hp, Hq.
      destruct (pair_in_elems _ _ _ Va Hp) as [Hp1 Hp2].
      destruct (pair_in_elems _ _ _ Vb Hq) as [Hq1 Hq2].
      split; unfold pairrec; apply rthen_noof; apply IH.
      * eapply sub_fuel; eauto.
      * eapply sub_fuel; eauto.
      * rewrite Nat.add_comm in Hf. eapply sub_fuel; eauto.
      * rewrite Nat.add_comm in Hf. eapply sub_fuel; eauto.
Qed.

Theorem rank0_terminates : forall M a b, rank0 M a b <> OutOfFuel.
Proof.
  intros M a b. unfold rank0. apply rank_no_oof. unfold fuel_for.
  pose proof (wsz_le a). pose proof (wsz_le b). lia.
Qed.

(* ------------------------------------------------------------------ *)
(* Purity: on the universe, the result is R of a pure function          *)
(* ------------------------------------------------------------------ *)
Definition pairr (r : val -> val -> comparison) (x y : val * val) : comparison :=
  cthen (r (fst x) (fst y)) (r (snd x) (snd y)).
Definition keyr (r : val -> val -> comparison) (x y : val * val) : comparison :=
  r (fst x) (fst y).

(* one step of the pure ranking, mirroring [spec] *)
Definition pspec (r : val -> val -> comparison) (a b : val) : comparison :=
  if negb (Z.eqb (tyrank a) (tyrank b)) then Z.compare (tyrank a) (tyrank b) else
  match view_of a, view_of b with
  | WLeaf, WLeaf => lrank a b
  | WLeaf, _ => Lt
  | _, WLeaf => Gt
  | WAssoc k1 v1, WAssoc k2 v2 => cthen (r k1 k2) (r v1 v2)
  | WArr xs, WArr ys => lexswap r xs ys
  | WMap m1, WMap m2 =>
      lexswap (pairr r) (sort_values (keyr r) m1) (sort_values (keyr r) m2)
  | _, _ => Eq
  end.

Definition cross (a b : val) (x y : val) : Prop :=
  (In x (elems a) /\ In y (elems b)) \/ (In x (elems b) /\ In y (elems a)).

Lemma spec_pure : forall M d rec r a b,
  wf0 a = true -> wf0 b = true -> nest a + d <= M -> nest b + d <= M ->
  (forall d' x y, cross a b x y -> nest x + d' <= M -> nest y + d' <= M -> rec d' x y = R (r x y)) ->
  (forall x y, is_leaf x = true -> is_leaf y = true -> rec d x y = R (r x y)) ->
  spec M d rec a b = R (pspec r a b).
Proof.
  intros M d rec r a b Wa Wb Na Nb Hrec Hleaf. unfold spec, pspec.
  destruct (negb (Z.eqb (tyrank a) (tyrank b))); [reflexivity|].
  pose proof (view_nest a) as Sa. pose proof (view_nest b) as Sb.
  pose proof (elems_nest a) as Ea. pose proof (elems_nest b) as Eb.
  unfold cross, elems in *.
  destruct (view_of a) eqn:Va, (view_of b) eqn:Vb; try reflexivity; simpl in Sa, Sb, Ea, Eb.
  - (* associations *)
    pose proof (Ea k ltac:(simpl; auto)). pose proof (Ea v ltac:(simpl; auto)).
    pose proof (Eb k0 ltac:(simpl; auto)). pose proof (Eb v0 ltac:(simpl; auto)).
    rewrite (Hrec d k k0), (Hrec d v v0); try lia; try (left; simpl; auto; fail).
    apply rthen_R.
  - (* arrays *)
    replace (d =? M) with false by (symmetry; apply Nat.eqb_neq; lia).
    apply rlexswap_pure. intros x y Hx Hy.
    specialize (Ea x Hx). specialize (Eb y Hy).
    split; apply Hrec; simpl; auto; lia.
  - (* maps *)
    replace (d =? M) with false by (symmetry; apply Nat.eqb_neq; lia).
    rewrite (sort_ext _ (keyrk (rec d)) (keyr r) m).
    2:{ intros x y Hx Hy. unfold keyrk, keyr. rewrite Hleaf; [reflexivity| |]; eapply (map_keys_leaf a); eauto. }
    rewrite (sort_ext _ (keyrk (rec d)) (keyr r) m0).
    2:{ intros x y Hx Hy. unfold keyrk, keyr. rewrite Hleaf; [reflexivity| |]; eapply (map_keys_leaf b); eauto. }
    apply rlexswap_pure. intros p q Hp Hq. apply sorted_in in Hp, Hq.
    assert (P1 : In (fst p) (map fst m ++ map snd m)) by (apply in_or_app; left; apply in_map; auto).
    assert (P2 : In (snd p) (map fst m ++ map snd m)) by (apply in_or_app; right; apply in_map; auto).
    assert (Q1 : In (fst q) (map fst m0 ++ map snd m0)) by (apply in_or_app; left; apply in_map; auto).
    assert (Q2 : In (snd q) (map fst m0 ++ map snd m0)) by (apply in_or_app; right; apply in_map; auto).
    pose proof (Ea _ P1). pose proof (Ea _ P2). pose proof (Eb _ Q1). pose proof (Eb _ Q2).
    unfold pairrec, pairr. split.
    + rewrite (Hrec (S d) (fst p) (fst q)), (Hrec (S d) (snd p) (snd q)); simpl; auto; try lia.
      apply rthen_R.
    + rewrite (Hrec (S d) (fst q) (fst p)), (Hrec (S d) (snd q) (snd p)); simpl; auto; try lia.
      apply rthen_R.
Qed.

(* the pure ranking function: the model run with enough fuel and enough depth *)
Definition prank (a b : val) : comparison :=
  unres (rank (nest a + nest b) (fuel_for a b) 0 a b).

Lemma lrank_ty : forall a b, negb (Z.eqb (tyrank a) (tyrank b)) = true ->
  lrank a b = Z.compare (tyrank a) (tyrank b).
Proof.
  intros a b H. unfold lrank, lkey. simpl.
  apply negb_true_iff, Z.eqb_neq in H.
  destruct (Z.compare_spec (tyrank a) (tyrank b)); auto. contradiction.
Qed.

Lemma rank_leaf : forall M f d a b, is_leaf a = true -> is_leaf b = true ->
  rank M (S f) d a b = R (lrank a b).
Proof.
  intros M f d a b La Lb. rewrite rank_unfold. unfold spec.
  destruct (negb (Z.eqb (tyrank a) (tyrank b))) eqn:E.
  - rewrite lrank_ty; auto.
  - unfold is_leaf in *. destruct (view_of a), (view_of b); try discriminate. reflexivity.
Qed.

Lemma prank_leaf : forall a b, is_leaf a = true -> is_leaf b = true -> prank a b = lrank a b.
Proof. intros a b La Lb. unfold prank, fuel_for. rewrite rank_leaf; auto. Qed.

Lemma rank_pure_aux : forall n a b, wsz a + wsz b <= n ->
  wf0 a = true -> wf0 b = true ->
  (forall M d f, nest a + d <= M -> nest b + d <= M -> wsz a + wsz b < f ->
     rank M f d a b = R (pspec prank a b)) /\
  (forall M d f, nest a + d <= M -> nest b + d <= M -> wsz a + wsz b < f ->
     rank M f d a b = R (prank a b)).
Proof.
  induction n as [|n IH]; intros a b Hn Wa Wb.
  { pose proof (wsz_pos a). lia. }
  assert (E : forall M d f, nest a + d <= M -> nest b + d <= M -> wsz a + wsz b < f ->
     rank M f d a b = R (pspec prank a b)).
  { intros M d f Na Nb Hf. destruct f as [|f]; [lia|].
    rewrite rank_unfold. apply spec_pure; auto.
    - intros d' x y Hc Nx Ny.
      assert (wsz x + wsz y < f /\ wsz x + wsz y <= n /\ wf0 x = true /\ wf0 y = true) as (F1 & F2 & Wx & Wy).
      { destruct Hc as [[Hx Hy]|[Hx Hy]];
        pose proof (elems_size _ _ Hx); pose proof (elems_size _ _ Hy).
        - repeat split; try lia; [apply (elems_wf0 a)|apply (elems_wf0 b)]; auto.
        - repeat split; try lia; [apply (elems_wf0 b)|apply (elems_wf0 a)]; auto. }
      destruct (IH x y F2 Wx Wy) as [_ H2]. apply H2; auto.
    - intros x y Lx Ly. destruct f as [|f].
      + pose proof (wsz_pos a). pose proof (wsz_pos b). lia.
      + rewrite rank_leaf, prank_leaf; auto. }
  split; auto.
  intros M d f Na Nb Hf. rewrite E; auto. f_equal.
  unfold prank. rewrite E; auto; try lia.
  unfold fuel_for. pose proof (wsz_le a). pose proof (wsz_le b). lia.
Qed.

(* T1: within the depth limit and with the fuel of rank0 (or more), the model returns the
   pure ranking: never OutOfFuel, never DepthPanic, independent of fuel, depth and maximum *)
Theorem rank_pure : forall M f d a b, wf0 a = true -> wf0 b = true ->
  nest a + d <= M -> nest b + d <= M -> fuel_for a b <= f ->
  rank M f d a b = R (prank a b).
Proof.
  intros M f d a b Wa Wb Na Nb Hf.
  destruct (rank_pure_aux _ a b (le_n _) Wa Wb) as [_ H]. apply H; auto.
  unfold fuel_for in Hf. pose proof (wsz_le a). pose proof (wsz_le b). lia.
Qed.

Theorem rank0_pure : forall M a b, wf0 a = true -> wf0 b = true ->
  nest a <= M -> nest b <= M -> rank0 M a b = R (prank a b).
Proof. intros. unfold rank0. apply rank_pure; auto; lia. Qed.

Lemma R_inj : forall x y : comparison, R x = R y -> x = y.
Proof. intros x y H. injection H. auto. Qed.

Lemma prank_eq : forall a b, wf0 a = true -> wf0 b = true -> prank a b = pspec prank a b.
Proof.
  intros a b Wa Wb.
  destruct (rank_pure_aux _ a b (le_n _) Wa Wb) as [H1 H2].
  assert (R (prank a b) = R (pspec prank a b)) as H.
  { rewrite <- (H1 (nest a + nest b) 0 (fuel_for a b)), <- (H2 (nest a + nest b) 0 (fuel_for a b));
    auto; try lia; unfold fuel_for; pose proof (wsz_le a); pose proof (wsz_le b); lia. }
  exact (R_inj _ _ H).
Qed.

(* ------------------------------------------------------------------ *)
(* Order theory of the pure ranking                                     *)
(* ------------------------------------------------------------------ *)
Lemma view_compat : forall a b, tyrank a = tyrank b ->
  (vtag a = vtag b \/ vtag a = 0 \/ vtag b = 0)%Z.
Proof.
  intros a b.
  destruct a as [ | | | | | | | | | | | |[] | |[]]; destruct b as [ | | | | | | | | | | | |[] | |[]];
  unfold vtag; simpl; intros H; auto; discriminate.
Qed.

Definition psame (r : val -> val -> comparison) (a b : val) : comparison :=
  match view_of a, view_of b with
  | WLeaf, WLeaf => lrank a b
  | WAssoc k1 v1, WAssoc k2 v2 => cthen (r k1 k2) (r v1 v2)
  | WArr xs, WArr ys => lexswap r xs ys
  | WMap m1, WMap m2 =>
      lexswap (pairr r) (sort_values (keyr r) m1) (sort_values (keyr r) m2)
  | _, _ => Eq
  end.

Lemma pspec_tags : forall r a b,
  pspec r a b = cthen (tyrank a ?= tyrank b)%Z (cthen (vtag a ?= vtag b)%Z (psame r a b)).
Proof.
  intros r a b. unfold pspec.
  destruct (Z.compare_spec (tyrank a) (tyrank b)) as [E|E|E].
  - rewrite E, Z.eqb_refl. simpl. pose proof (view_compat a b E) as C.
    unfold psame, vtag in *.
    destruct (view_of a), (view_of b); simpl; try reflexivity; exfalso; lia.
  - replace (tyrank a =? tyrank b)%Z with false by (symmetry; apply Z.eqb_neq; lia). reflexivity.
  - replace (tyrank a =? tyrank b)%Z with false by (symmetry; apply Z.eqb_neq; lia). reflexivity.
Qed.

Lemma prank_tags : forall a b, wf0 a = true -> wf0 b = true ->
  prank a b = cthen (tyrank a ?= tyrank b)%Z (cthen (vtag a ?= vtag b)%Z (psame prank a b)).
Proof. intros. rewrite prank_eq by auto. apply pspec_tags. Qed.

(* induction on pairs / triples of well-formed values through their components *)
Lemma pair_ind : forall (P : val -> val -> Prop),
  (forall a b, wf0 a = true -> wf0 b = true ->
     (forall x y, In x (elems a) -> In y (elems b) -> P x y) -> P a b) ->
  forall a b, wf0 a = true -> wf0 b = true -> P a b.
Proof.
  intros P H.
  assert (forall n a b, wsz a + wsz b <= n -> wf0 a = true -> wf0 b = true -> P a b) as G.
  { induction n as [|n IH]; intros a b Hn Wa Wb.
    - pose proof (wsz_pos a). lia.
    - apply H; auto. intros x y Hx Hy.
      pose proof (elems_size _ _ Hx). pose proof (elems_size _ _ Hy).
      apply IH; try lia; [apply (elems_wf0 a)|apply (elems_wf0 b)]; auto. }
  intros a b. apply (G _ a b (le_n _)).
Qed.

Lemma triple_ind : forall (P : val -> val -> val -> Prop),
  (forall a b c, wf0 a = true -> wf0 b = true -> wf0 c = true ->
     (forall x y z, In x (elems a) -> In y (elems b) -> In z (elems c) -> P x y z) -> P a b c) ->
  forall a b c, wf0 a = true -> wf0 b = true -> wf0 c = true -> P a b c.
Proof.
  intros P H.
  assert (forall n a b c, wsz a + wsz b + wsz c <= n ->
          wf0 a = true -> wf0 b = true -> wf0 c = true -> P a b c) as G.
  { induction n as [|n IH]; intros a b c Hn Wa Wb Wc.
    - pose proof (wsz_pos a). lia.
    - apply H; auto. intros x y z Hx Hy Hz.
      pose proof (elems_size _ _ Hx). pose proof (elems_size _ _ Hy). pose proof (elems_size _ _ Hz).
      apply IH; try lia; [apply (elems_wf0 a)|apply (elems_wf0 b)|apply (elems_wf0 c)]; auto. }
  intros a b c. apply (G _ a b c (le_n _)).
Qed.

Lemma single_ind : forall (P : val -> Prop),
  (forall a, wf0 a = true -> (forall x, In x (elems a) -> P x) -> P a) ->
  forall a, wf0 a = true -> P a.
Proof.
  intros P H.
  assert (forall n a, wsz a <= n -> wf0 a = true -> P a) as G.
  { induction n as [|n IH]; intros a Hn Wa.
    - pose proof (wsz_pos a). lia.
    - apply H; auto. intros x Hx. pose proof (elems_size _ _ Hx).
      apply IH; try lia. apply (elems_wf0 a); auto. }
  intros a. apply (G _ a (le_n _)).
Qed.

(* lexZ is the generic lexicographic combination of Z.compare *)
Lemma lexZ_lex : forall a b, lexZ a b = lex Z.compare a b.
Proof. induction a as [|x a IH]; destruct b as [|y b]; simpl; auto. rewrite IH. destruct (x ?= y)%Z; reflexivity. Qed.

Lemma lrank_refl : forall a, lrank a a = Eq.
Proof. intros. unfold lrank. rewrite lexZ_lex. apply lex_refl. intros; apply Z.compare_refl. Qed.
Lemma lrank_anti : forall a b, lrank b a = CompOpp (lrank a b).
Proof.
  intros. unfold lrank. rewrite !lexZ_lex. apply lex_anti. intros; apply Z.compare_antisym.
Qed.
Lemma lrank_ctr : forall a b c, ctr (lrank a b) (lrank b c) (lrank a c).
Proof.
  intros. unfold lrank. rewrite !lexZ_lex. apply lex_ctr. intros; apply Zcompare_ctr.
Qed.

Lemma lexswap_anti {A} (r : A -> A -> comparison) : forall xs ys,
  (forall x y, In x xs -> In y ys -> r y x = CompOpp (r x y)) ->
  lexswap r ys xs = CompOpp (lexswap r xs ys).
Proof.
  intros xs ys H. unfold lexswap.
  destruct (Nat.ltb_spec (length ys) (length xs)), (Nat.ltb_spec (length xs) (length ys)); try lia.
  - rewrite CompOpp_involutive. reflexivity.
  - reflexivity.
  - apply lex_anti; auto.
Qed.

Lemma view_elems_arr : forall a l x, view_of a = WArr l -> In x l -> In x (elems a).
Proof. intros a l x V H. unfold elems. rewrite V. auto. Qed.
Lemma view_elems_assoc : forall a k v, view_of a = WAssoc k v -> In k (elems a) /\ In v (elems a).
Proof. intros a k v V. unfold elems. rewrite V. simpl. auto. Qed.

Theorem prank_anti : forall a b, wf0 a = true -> wf0 b = true ->
  prank b a = CompOpp (prank a b).
Proof.
  apply (pair_ind (fun a b => prank b a = CompOpp (prank a b))).
  intros a b Wa Wb IH. rewrite !prank_tags by auto.
  rewrite !cthen_opp, <- !Z.compare_antisym. f_equal. f_equal.
  unfold psame.
  destruct (view_of a) eqn:Va, (view_of b) eqn:Vb; try reflexivity.
  - apply lrank_anti.
  - destruct (view_elems_assoc _ _ _ Va), (view_elems_assoc _ _ _ Vb).
    rewrite cthen_opp. f_equal; apply IH; auto.
  - apply lexswap_anti. intros x y Hx Hy. apply IH; eapply view_elems_arr; eauto.
  - apply lexswap_anti. intros p q Hp Hq. apply sorted_in in Hp, Hq.
    destruct (pair_in_elems _ _ _ Va Hp), (pair_in_elems _ _ _ Vb Hq).
    unfold pairr. rewrite cthen_opp. f_equal; apply IH; auto.
Qed.

(* after antisymmetry the "swap" form of the array / map loops is the plain
   lexicographic order, and map keys are sorted by the order on leaves *)
Definition sortk (m : list (val * val)) : list (val * val) := sort_values (keyr lrank) m.

Definition psame2 (r : val -> val -> comparison) (a b : val) : comparison :=
  match view_of a, view_of b with
  | WLeaf, WLeaf => lrank a b
  | WAssoc k1 v1, WAssoc k2 v2 => cthen (r k1 k2) (r v1 v2)
  | WArr xs, WArr ys => lex r xs ys
  | WMap m1, WMap m2 => lex (pairr r) (sortk m1) (sortk m2)
  | _, _ => Eq
  end.

Lemma sortk_prank : forall a m, wf0 a = true -> view_of a = WMap m ->
  sort_values (keyr prank) m = sortk m.
Proof.
  intros a m Wa Va. apply sort_ext. intros x y Hx Hy. unfold keyr.
  apply prank_leaf; eapply map_keys_leaf; eauto.
Qed.

Theorem prank_tags2 : forall a b, wf0 a = true -> wf0 b = true ->
  prank a b = cthen (tyrank a ?= tyrank b)%Z (cthen (vtag a ?= vtag b)%Z (psame2 prank a b)).
Proof.
  intros a b Wa Wb. rewrite prank_tags by auto. f_equal. f_equal.
  unfold psame, psame2.
  destruct (view_of a) eqn:Va, (view_of b) eqn:Vb; try reflexivity.
  - apply lexswap_lex. intros x y Hx Hy.
    apply prank_anti; [apply (elems_wf0 a)|apply (elems_wf0 b)]; auto; eapply view_elems_arr; eauto.
  - rewrite (sortk_prank a m), (sortk_prank b m0) by auto.
    apply lexswap_lex. intros p q Hp Hq. apply sorted_in in Hp, Hq.
    destruct (pair_in_elems _ _ _ Va Hp), (pair_in_elems _ _ _ Vb Hq).
    unfold pairr. rewrite cthen_opp.
    f_equal; apply prank_anti; try (apply (elems_wf0 a); auto; fail); apply (elems_wf0 b); auto.
Qed.

Theorem prank_refl : forall a, wf0 a = true -> prank a a = Eq.
Proof.
  apply (single_ind (fun a => prank a a = Eq)).
  intros a Wa IH. rewrite prank_tags2 by auto. rewrite !Z.compare_refl. simpl.
  unfold psame2. destruct (view_of a) eqn:Va.
  - apply lrank_refl.
  - destruct (view_elems_assoc _ _ _ Va). rewrite !IH; auto.
  - apply lex_refl. intros x Hx. apply IH. eapply view_elems_arr; eauto.
  - apply lex_refl. intros p Hp. apply sorted_in in Hp.
    destruct (pair_in_elems _ _ _ Va Hp). unfold pairr. rewrite !IH; auto.
Qed.

Theorem prank_ctr : forall a b c, wf0 a = true -> wf0 b = true -> wf0 c = true ->
  ctr (prank a b) (prank b c) (prank a c).
Proof.
  apply (triple_ind (fun a b c => ctr (prank a b) (prank b c) (prank a c))).
  intros a b c Wa Wb Wc IH. rewrite !prank_tags2 by auto.
  apply ctr_tag. intros _ _. apply ctr_tag. intros E1 E2.
  unfold vtag in E1, E2. unfold psame2.
  destruct (view_of a) eqn:Va, (view_of b) eqn:Vb; try discriminate E1;
  destruct (view_of c) eqn:Vc; try discriminate E2.
  - apply lrank_ctr.
  - destruct (view_elems_assoc _ _ _ Va), (view_elems_assoc _ _ _ Vb), (view_elems_assoc _ _ _ Vc).
    apply ctr_cthen; apply IH; auto.
  - apply lex_ctr. intros x y z Hx Hy Hz. apply IH; eapply view_elems_arr; eauto.
  - apply lex_ctr. intros p q s Hp Hq Hs. apply sorted_in in Hp, Hq, Hs.
    destruct (pair_in_elems _ _ _ Va Hp), (pair_in_elems _ _ _ Vb Hq), (pair_in_elems _ _ _ Vc Hs).
    unfold pairr. apply ctr_cthen; apply IH; auto.
Qed.

Corollary prank_trans : forall a b c, wf0 a = true -> wf0 b = true -> wf0 c = true ->
  prank a b <> Gt -> prank b c <> Gt -> prank a c <> Gt.
Proof. intros a b c Wa Wb Wc. apply ctr_le. apply prank_ctr; auto. Qed.

(* ------------------------------------------------------------------ *)
(* C07 on the model: rank0 on the universe                              *)
(* ------------------------------------------------------------------ *)
(* the universe at depth limit M: map keys are not collections, nesting within the limit *)
Definition inU (M : nat) (v : val) : bool := wf0 v && (nest v <=? M).

Lemma inU_spec : forall M v, inU M v = true -> wf0 v = true /\ nest v <= M.
Proof. intros M v H. apply andb_prop in H. destruct H as [H1 H2]. apply Nat.leb_le in H2. auto. Qed.

Lemma rank0_prank : forall M a b, inU M a = true -> inU M b = true -> rank0 M a b = R (prank a b).
Proof.
  intros M a b Ha Hb. apply inU_spec in Ha, Hb. apply rank0_pure; tauto.
Qed.

Theorem rank_refl : forall M a, inU M a = true -> rank0 M a a = R Eq.
Proof.
  intros M a Ha. rewrite rank0_prank by auto. apply inU_spec in Ha. rewrite prank_refl; tauto.
Qed.

Theorem rank_antisym : forall M a b, inU M a = true -> inU M b = true ->
  rank0 M b a = flip_rank (rank0 M a b).
Proof.
  intros M a b Ha Hb. rewrite !rank0_prank by auto. apply inU_spec in Ha, Hb. simpl.
  rewrite prank_anti; tauto.
Qed.

Theorem rank_trans : forall M a b c, inU M a = true -> inU M b = true -> inU M c = true ->
  rank0 M a b <> R Gt -> rank0 M b c <> R Gt -> rank0 M a c <> R Gt.
Proof.
  intros M a b c Ha Hb Hc. rewrite !rank0_prank by auto. apply inU_spec in Ha, Hb, Hc.
  intros H1 H2 H3. apply (prank_trans a b c); try tauto; congruence.
Qed.

(* strong form: equal-ranked values are interchangeable, Lt composes with Eq, ... *)
Theorem rank_ctr : forall M a b c, inU M a = true -> inU M b = true -> inU M c = true ->
  exists x y z, rank0 M a b = R x /\ rank0 M b c = R y /\ rank0 M a c = R z /\ ctr x y z.
Proof.
  intros M a b c Ha Hb Hc. exists (prank a b), (prank b c), (prank a c).
  rewrite !rank0_prank by auto. apply inU_spec in Ha, Hb, Hc.
  repeat split; auto. apply prank_ctr; tauto.
Qed.

(* the form consumed by C02 / C09: a total preorder on the type of universe members *)
Definition U (M : nat) : Type := { v : val | inU M v = true }.
Definition rkU (M : nat) (a b : U M) : comparison :=
  match rank0 M (proj1_sig a) (proj1_sig b) with R c => c | _ => Eq end.

Theorem rank_total_preorder : forall M, total_preorder (rkU M).
Proof.
  intros M. unfold rkU. repeat split.
  - intros [a Ha]. simpl. rewrite rank_refl; auto.
  - intros [a Ha] [b Hb]. simpl. rewrite (rank_antisym M a b) by auto.
    rewrite (rank0_prank M a b) by auto. reflexivity.
  - intros [a Ha] [b Hb] [c Hc]. simpl.
    pose proof (rank_trans M a b c Ha Hb Hc) as T.
    rewrite !rank0_prank in * by auto. intros H1 H2 H3. apply T; congruence.
Qed.

(* f. the result is a function of the two values only: not of the maximum (beyond bounding
   the nesting), not of the depth at which the comparison happens, not of the fuel *)
Theorem rank_history_independent : forall M M' f d a b,
  inU M' a = true -> inU M' b = true ->
  nest a + d <= M -> nest b + d <= M -> fuel_for a b <= f ->
  rank M f d a b = rank0 M' a b.
Proof.
  intros M M' f d a b Ha Hb Na Nb Hf. rewrite rank0_prank by auto.
  apply inU_spec in Ha, Hb. apply rank_pure; tauto.
Qed.

(* equal-ranked values are interchangeable in any comparison *)
Theorem rank_congr : forall M a a' c, inU M a = true -> inU M a' = true -> inU M c = true ->
  rank0 M a a' = R Eq -> rank0 M a c = rank0 M a' c /\ rank0 M c a = rank0 M c a'.
Proof.
  intros M a a' c Ha Ha' Hc. rewrite !rank0_prank by auto.
  apply inU_spec in Ha, Ha', Hc. intros E. apply R_inj in E.
  pose proof (prank_ctr a a' c ltac:(tauto) ltac:(tauto) ltac:(tauto)) as T1.
  rewrite E in T1. simpl in T1.
  pose proof (prank_ctr c a a' ltac:(tauto) ltac:(tauto) ltac:(tauto)) as T2. rewrite E in T2.
  assert (T3 : prank c a' = prank c a) by (destruct (prank c a); simpl in T2; auto).
  rewrite T1, T3. auto.
Qed.

(* d. the natural order on primitives *)
Local Transparent rank.
Theorem rank_nil_nil : forall M, rank0 M VNil VNil = R Eq.
Proof. reflexivity. Qed.
Theorem rank_nil_first : forall M b, b <> VNil -> rank0 M VNil b = R Lt /\ rank0 M b VNil = R Gt.
Proof. intros M b H. destruct b; try contradiction; split; reflexivity. Qed.
Theorem rank_bool_order : forall M x y, rank0 M (VBool x) (VBool y) = R (rank_bool x y).
Proof. reflexivity. Qed.
Theorem rank_false_lt_true : forall M, rank0 M (VBool false) (VBool true) = R Lt.
Proof. reflexivity. Qed.
Theorem rank_int_order : forall M w w' x y, rank0 M (VInt w x) (VInt w' y) = R (Z.compare x y).
Proof. reflexivity. Qed.
Theorem rank_uint_order : forall M w w' x y, rank0 M (VUint w x) (VUint w' y) = R (Z.compare x y).
Proof. reflexivity. Qed.
Theorem rank_byte_order : forall M x y, rank0 M (VByte x) (VByte y) = R (Z.compare x y).
Proof. reflexivity. Qed.
Theorem rank_rune_order : forall M x y, rank0 M (VRune x) (VRune y) = R (Z.compare x y).
Proof. reflexivity. Qed.
Theorem rank_string_order : forall M s t, rank0 M (VStr s) (VStr t) = R (lexZ s t).
Proof. reflexivity. Qed.
Theorem rank_float_order : forall M w w' x y,
  rank0 M (VFloat w x) (VFloat w' y) = R (Z.compare (f_ord x) (f_ord y)).
Proof. reflexivity. Qed.
Theorem rank_complex_order : forall M w w' r1 i1 a1 p1 r2 i2 a2 p2,
  rank0 M (VComplex w r1 i1 a1 p1) (VComplex w' r2 i2 a2 p2) =
  R (lexZ [f_ord a1; f_ord p1; f_ord r1; f_ord i1] [f_ord a2; f_ord p2; f_ord r2; f_ord i2]).
Proof.
  intros. change (R (rank_complex r1 i1 a1 p1 r2 i2 a2 p2) = 
    R (lexZ [f_ord a1; f_ord p1; f_ord r1; f_ord i1] [f_ord a2; f_ord p2; f_ord r2; f_ord i2])).
  unfold rank_complex, rank_float. simpl.
  destruct (f_ord a1 ?= f_ord a2)%Z; auto. destruct (f_ord p1 ?= f_ord p2)%Z; auto.
  destruct (f_ord r1 ?= f_ord r2)%Z; auto. destruct (f_ord i1 ?= f_ord i2)%Z; auto.
Qed.
Theorem rank_pointer_order : forall M i j x y, rank0 M (VPtr i x) (VPtr j y) = R (Z.compare x y).
Proof. reflexivity. Qed.
Local Opaque rank.

(* NaN is ranked before every number and equal to every NaN (bits of a float64) *)
Lemma f_ord_nan_lt : forall x y, f_isnan x = true -> f_isnan y = false ->
  (0 <= y < 2 * two63)%Z -> (f_ord x ?= f_ord y)%Z = Lt.
Proof.
  intros x y Hx Hy By. unfold f_ord. rewrite Hx, Hy. unfold f_key, f_mag.
  apply Z.compare_lt_iff.
  destruct (Z.ltb_spec y two63).
  - unfold two63 in *. lia.
  - pose proof (Z.mod_pos_bound y two63 ltac:(unfold two63; lia)). unfold two63 in *. lia.
Qed.
Theorem rank_nan_first : forall M w w' x y, f_isnan x = true -> f_isnan y = false ->
  (0 <= y < 2 * two63)%Z -> rank0 M (VFloat w x) (VFloat w' y) = R Lt.
Proof. intros. rewrite rank_float_order, f_ord_nan_lt; auto. Qed.
Theorem rank_nan_nan : forall M w w' x y, f_isnan x = true -> f_isnan y = true ->
  rank0 M (VFloat w x) (VFloat w' y) = R Eq.
Proof.
  intros. rewrite rank_float_order. unfold f_ord. rewrite H, H0. rewrite Z.compare_refl. reflexivity.
Qed.
