(* CollP.v — the Set operations of set.go under a collator that may PANIC (a collator made with a small
   maximum traversal depth, agent/collator.go: "The maximum traversal depth was exceeded").
   Same algorithms as Coll.v (binary search, add / remove, the class functions); the ranking returns
   [None] when the collator panics and the whole call then ends in [Panic] at that point.
   CollPProofs.v shows that these functions ARE the ones of Coll.v when the ranking never panics.
   Definitions only. *)
From Verif Require Import Base Seq Coll.

Section SetP.
Variable A : Type.
Variable zero : A.
Variable rankp : A -> A -> option comparison.

Fixpoint find_index_loop_p (fuel : nat) (l : list A) (v : A) (first last size : nat) : out (nat * bool) :=
  if size =? 0 then Ret (last, false) else
  match fuel with
  | 0 => Hang
  | S fuel' =>
    let middle := first + size / 2 in
    let candidate := nth (middle - 1) l zero in
    match rankp v candidate with
    | None => Panic
    | Some Lt => find_index_loop_p fuel' l v first (middle - 1) (middle - first)
    | Some Eq => Ret (middle, true)
    | Some Gt => find_index_loop_p fuel' l v (middle + 1) last (last - middle)
    end
  end.
Definition find_index_p (l : list A) (v : A) : out (nat * bool) :=
  find_index_loop_p (S (length l)) l v 1 (length l) (length l).

Definition set_add_p (l : list A) (v : A) : out (list A) :=
  match find_index_p l v with
  | Ret (slot, false) => insert_value l slot v
  | Ret (_, true) => Ret l
  | Panic => Panic | Hang => Hang
  end.
Definition set_remove_p (l : list A) (v : A) : out (list A) :=
  match find_index_p l v with
  | Ret (idx, true) => out_map snd (remove_value zero l (Z.of_nat idx))
  | Ret (_, false) => Ret l
  | Panic => Panic | Hang => Hang
  end.
Definition set_contains_p (l : list A) (v : A) : out bool :=
  out_map snd (find_index_p l v).
Definition set_get_index_p (l : list A) (v : A) : out nat :=
  out_map (fun r : nat * bool => if snd r then fst r else 0) (find_index_p l v).

Fixpoint set_add_all_p (l : list A) (vs : list A) : out (list A) :=
  match vs with
  | [] => Ret l
  | v :: vs' => out_bind (set_add_p l v) (fun l' => set_add_all_p l' vs')
  end.
Fixpoint set_remove_all_p (l : list A) (vs : list A) : out (list A) :=
  match vs with
  | [] => Ret l
  | v :: vs' => out_bind (set_remove_p l v) (fun l' => set_remove_all_p l' vs')
  end.
Fixpoint set_contains_any_p (l vs : list A) : out bool :=
  match vs with
  | [] => Ret false
  | v :: vs' => out_bind (set_contains_p l v) (fun b => if b then Ret true else set_contains_any_p l vs')
  end.
Fixpoint set_contains_all_p (l vs : list A) : out bool :=
  match vs with
  | [] => Ret true
  | v :: vs' => out_bind (set_contains_p l v) (fun b => if b then set_contains_all_p l vs' else Ret false)
  end.
End SetP.

Arguments find_index_loop_p {A}. Arguments find_index_p {A}. Arguments set_add_p {A}. Arguments set_remove_p {A}.
Arguments set_contains_p {A}. Arguments set_get_index_p {A}. Arguments set_add_all_p {A}. Arguments set_remove_all_p {A}.
Arguments set_contains_any_p {A}. Arguments set_contains_all_p {A}.

(* the class functions: [rk1] is the first operand's collator (it becomes the result's), [rk2] the second's *)
Section SetAlgebraP.
Variable A : Type.
Variable zero : A.
Variable rk1 rk2 : A -> A -> option comparison.

Fixpoint and_loop_p (acc : list A) (xs b : list A) : out (list A) :=
  match xs with
  | [] => Ret acc
  | x :: xs' =>
    out_bind (set_contains_p zero rk2 b x) (fun c =>
      if c then out_bind (set_add_p zero rk1 acc x) (fun acc' => and_loop_p acc' xs' b)
      else and_loop_p acc xs' b)
  end.
Definition set_and_p (a b : list A) : out (list A) := and_loop_p [] a b.
Definition set_or_p (a b : list A) : out (list A) :=
  out_bind (set_add_all_p zero rk1 [] a) (fun r => set_add_all_p zero rk1 r b).
Definition set_sans_p (a b : list A) : out (list A) :=
  out_bind (set_add_all_p zero rk1 [] a) (fun r => set_remove_all_p zero rk1 r b).
End SetAlgebraP.
Arguments set_and_p {A}. Arguments set_or_p {A}. Arguments set_sans_p {A}.

Section XorP.
Variable A : Type.
Variable zero : A.
Variable rk1 rk2 : A -> A -> option comparison.
Definition set_xor_p (a b : list A) : out (list A) :=
  out_bind (set_sans_p zero rk1 a b) (fun x =>
  out_bind (set_sans_p zero rk2 b a) (fun y => set_or_p zero rk1 x y)).
End XorP.
Arguments set_xor_p {A}.
