(* AliasFacts.v - the expected results of the static result/argument aliasing extraction
   (tools/gofootprint -> ParamsFoot.v: foot_api, foot_storage_writes, foot_field_sets, foot_publish_once) for
   property C18 ("Go arrays and maps crossing the API are copied, never aliased") and, for the iterator
   snapshot, C17.  Definitions only.  The obligations [= true] are proved by computation in AliasStatic.v, which
   only ./check C18 and ./check C17 compile (late file); the implications are in AliasProofs.v.
   The rules of the analysis and its blind spots: docs/C18.md, section "Static aliasing extraction". *)
From Coq Require Import String List Bool Arith.
From Verif Require Import ParamsFoot.
Import ListNotations.
Open Scope string_scope.

(* NAMING: canonical identifiers as described in IndepFacts.v (fields as <struct>.<tag><n>: agent.iterator_.slice0 =
   iterator_.values_, collection.set_.CollatorLike0 = set_.collator_, collection.list_.ArrayLike0 = list_.values_,
   collection.catalog_.map0 = catalog_.keys_, agent.sorter_.RankingFunction0 = sorter_.ranker_; parameters by number;
   private functions of a type as <private>). *)

(* ---- helpers ---- *)
Fixpoint al_strs_eqb (a b : list string) : bool :=
  match a, b with
  | [], [] => true
  | x :: a', y :: b' => String.eqb x y && al_strs_eqb a' b'
  | _, _ => false
  end.
Fixpoint al_pairs_eqb (a b : list (string * string)) : bool :=
  match a, b with
  | [], [] => true
  | (x1, x2) :: a', (y1, y2) :: b' => String.eqb x1 y1 && String.eqb x2 y2 && al_pairs_eqb a' b'
  | _, _ => false
  end.
Fixpoint al_triples_eqb (a b : list (string * string * string)) : bool :=
  match a, b with
  | [], [] => true
  | (x1, x2, x3) :: a', (y1, y2, y3) :: b' =>
      String.eqb x1 y1 && String.eqb x2 y2 && String.eqb x3 y3 && al_triples_eqb a' b'
  | _, _ => false
  end.
Definition al_is_nil {A} (l : list A) : bool := match l with [] => true | _ => false end.
Fixpoint contains (sub s : string) : bool :=
  match s with
  | EmptyString => String.prefix sub EmptyString
  | String _ s' => String.prefix sub s || contains sub s'
  end.
Definition ends_with (suf s : string) : bool :=
  String.eqb (String.substring (String.length s - String.length suf) (String.length suf) s) suf
  && Nat.leb (String.length suf) (String.length s).

(* strings used in the statements of C17.v / C18.v (which do not open the string scope) *)
Definition shared_elements_phrase : string := "contains the objects of".
Definition iterator_values_field : string := "agent.iterator_.slice0".  (* iterator_.values_ : []V *)
Definition get_iterator_suffix : string := ".GetIterator".

Definition api_row := (string * string * string)%type.
Definition api_fun (r : api_row) : string := fst (fst r).
Definition api_what (r : api_row) : string := snd (fst r).
Definition api_verdict (r : api_row) : string := snd r.
Definition api_is_result (r : api_row) : bool := String.prefix "result" (api_what r).
Definition api_clean (r : api_row) : bool :=
  String.eqb (api_verdict r) "fresh" || String.eqb (api_verdict r) "not-retained".
Definition api_row_eqb (a b : api_row) : bool :=
  String.eqb (api_fun a) (api_fun b) && String.eqb (api_what a) (api_what b) && String.eqb (api_verdict a) (api_verdict b).

(* ---- the reviewed exceptions: every row of foot_api that is neither "fresh" nor "not-retained" ----
   agents kept by design (not the collection's storage):
   - Iterator.MakeFromArray keeps the Go array it is given (public agent API, documented; every caller inside the
     library hands it a fresh copy: obligation (e));  Sorter.MakeWithRanker / GetRanker, the rankers handed down
     catalog -> list -> array -> sorter;  the sorter works in place on the caller's array (that is its contract);
   - Set.MakeWithCollator keeps the collator, GetCollator returns it, And/Or/Sans/Xor hand the first operand's
     COLLATOR to the result (stateless per call since fix 4091d12; C19) - but not its values;  module.Set forwards;
   - Queue.Fork/Split consume their input queue;  module.Queue/Stack: flow-insensitivity (the slice appended to is
     re-made before; in another branch the same variable is the caller's argument, which MakeFromArray copies). *)
Definition expected_api_exceptions : list api_row := [
  ("agent.(*iteratorClass_).MakeFromArray", "parameter 1 [slice]", "kept: agent.iterator_.slice0; result 1 keeps in agent.iterator_.slice0 it");
  ("agent.(*iteratorClass_).MakeFromArray", "result 1", "keeps in agent.iterator_.slice0 parameter 1");
  ("agent.(*sorterClass_).MakeWithRanker", "parameter 1 [func:agent.RankingFunction]", "kept: agent.sorter_.RankingFunction0; result 1 keeps in agent.sorter_.RankingFunction0 it");
  ("agent.(*sorterClass_).MakeWithRanker", "result 1", "keeps in agent.sorter_.RankingFunction0 parameter 1");
  ("agent.(*sorter_).GetRanker", "result 1", "aliases receiver field agent.sorter_.RankingFunction0");
  ("agent.(*sorter_).ReverseValues", "parameter 1 [slice]", "written");
  ("agent.(*sorter_).ShuffleValues", "parameter 1 [slice]", "written");
  ("agent.(*sorter_).SortValues", "parameter 1 [slice]", "written");
  ("collection.(*catalog_).SortValuesWithRanker", "parameter 1 [func:agent.RankingFunction]", "kept: arg 1 of collection.(*list_).SortValuesWithRanker");
  ("collection.(*list_).SortValuesWithRanker", "parameter 1 [func:agent.RankingFunction]", "kept: arg 1 of collection.(*list_).SortValuesWithRanker; kept: arg 1 of collection.(array_).SortValuesWithRanker");
  ("collection.(*queueClass_).Fork", "parameter 2 [iface:collection.QueueLike]", "written");
  ("collection.(*queueClass_).Split", "parameter 2 [iface:collection.QueueLike]", "written");
  ("collection.(*setClass_).And", "parameter 1 [iface:collection.SetLike]", "kept: arg 1 of collection.(*setClass_).MakeWithCollator; result 1 keeps in collection.set_.CollatorLike0 its field collection.set_.CollatorLike0");
  ("collection.(*setClass_).And", "result 1", "keeps in collection.set_.CollatorLike0 parameter 1 field collection.set_.CollatorLike0");
  ("collection.(*setClass_).MakeWithCollator", "parameter 1 [iface:agent.CollatorLike]", "kept: collection.set_.CollatorLike0; result 1 keeps in collection.set_.CollatorLike0 it");
  ("collection.(*setClass_).MakeWithCollator", "result 1", "keeps in collection.set_.CollatorLike0 parameter 1");
  ("collection.(*setClass_).Or", "parameter 1 [iface:collection.SetLike]", "kept: arg 1 of collection.(*setClass_).MakeWithCollator; result 1 keeps in collection.set_.CollatorLike0 its field collection.set_.CollatorLike0");
  ("collection.(*setClass_).Or", "result 1", "keeps in collection.set_.CollatorLike0 parameter 1 field collection.set_.CollatorLike0");
  ("collection.(*setClass_).Sans", "parameter 1 [iface:collection.SetLike]", "kept: arg 1 of collection.(*setClass_).MakeWithCollator; result 1 keeps in collection.set_.CollatorLike0 its field collection.set_.CollatorLike0");
  ("collection.(*setClass_).Sans", "result 1", "keeps in collection.set_.CollatorLike0 parameter 1 field collection.set_.CollatorLike0");
  ("collection.(*setClass_).Xor", "parameter 1 [iface:collection.SetLike]", "kept: arg 1 of collection.(*setClass_).Or; kept: arg 1 of collection.(*setClass_).Sans; result 1 keeps in collection.set_.CollatorLike0 its field collection.set_.CollatorLike0");
  ("collection.(*setClass_).Xor", "parameter 2 [iface:collection.SetLike]", "kept: arg 1 of collection.(*setClass_).Sans");
  ("collection.(*setClass_).Xor", "result 1", "keeps in collection.set_.CollatorLike0 parameter 1 field collection.set_.CollatorLike0");
  ("collection.(*set_).GetCollator", "result 1", "aliases receiver field collection.set_.CollatorLike0");
  ("collection.(array_).SortValuesWithRanker", "parameter 1 [func:agent.RankingFunction]", "kept: arg 1 of agent.(*sorterClass_).MakeWithRanker");
  ("module.Queue", "parameter 1 [slice]", "written");
  ("module.Set", "parameter 1 [slice]", "kept: arg 1 of collection.(*setClass_).MakeWithCollator; result 1 keeps in collection.set_.CollatorLike0 it");
  ("module.Set", "result 1", "keeps in collection.set_.CollatorLike0 parameter 1");
  ("module.Stack", "parameter 1 [slice]", "written")].

(* the methods that write IN PLACE into storage that was reachable before the call, and through which field:
   an Array (a Go slice) and a Map (a Go map) are mutable in place by design and own their storage exclusively
   (that nobody else holds it is obligations (a), (b), (e)); a List updates, sorts, reverses and shuffles its array
   in place but every operation that changes the SIZE builds a new array and swaps the field (no append, no
   reslicing: [foot_field_sets] is empty); a Catalog inserts into / deletes from its key map. *)
Definition expected_storage_writes : list (string * string) := [
  ("collection.(*catalog_).RemoveValues", "collection.catalog_.map0");
  ("collection.(*catalog_).RemoveValue", "collection.catalog_.map0");
  ("collection.(*catalog_).SetValue", "collection.catalog_.map0");
  ("collection.(*list_).ReverseValues", "collection.list_.ArrayLike0");
  ("collection.(*list_).SetValues", "collection.list_.ArrayLike0");
  ("collection.(*list_).SetValue", "collection.list_.ArrayLike0");
  ("collection.(*list_).ShuffleValues", "collection.list_.ArrayLike0");
  ("collection.(*list_).SortValuesWithRanker", "collection.list_.ArrayLike0");
  ("collection.(*list_).SortValues", "collection.list_.ArrayLike0");
  ("collection.(array_).ReverseValues", "collection.array_.[]");
  ("collection.(array_).SetValues", "collection.array_.[]");
  ("collection.(array_).SetValue", "collection.array_.[]");
  ("collection.(array_).ShuffleValues", "collection.array_.[]");
  ("collection.(array_).SortValuesWithRanker", "collection.array_.[]");
  ("collection.(array_).SortValues", "collection.array_.[]");
  ("collection.(map_).RemoveAll", "collection.map_.[]");
  ("collection.(map_).RemoveValues", "collection.map_.[]");
  ("collection.(map_).RemoveValue", "collection.map_.[]");
  ("collection.(map_).SetValue", "collection.map_.[]")].

(* storage fields that are only ever set to fresh memory and never written in place: the snapshot of an
   iterator (C17: "iterators over an immutable snapshot") and the runes of a scanner *)
Definition expected_publish_once : list string := ["agent.iterator_.slice0"; "cdcn.scanner_.slice0"].

(* ---- the obligations ---- *)

(* the results C18 names: AsArray, GetValues, GetKeys, RemoveValues, GetIterator, every constructor and class
   function of collection/ (methods of the ...Class_ structs) and the constructors of the module *)
Definition c18_named (r : api_row) : bool :=
  (String.prefix "collection." (api_fun r) || String.prefix "module." (api_fun r)) &&
  (existsb (fun suf => ends_with suf (api_fun r)) [".AsArray"; ".GetValues"; ".GetKeys"; ".RemoveValues"; ".GetIterator"]
   || contains "Class_)." (api_fun r) || String.prefix "module." (api_fun r)).
(* of those, the ones that keep a COLLATOR (an agent, not storage of the collection) *)
Definition keeps_only_a_collator (r : api_row) : bool :=
  String.prefix "keeps in collection.set_.CollatorLike0 parameter 1" (api_verdict r) && negb (contains ";" (api_verdict r)).

(* (a) every result that C18 names is memory allocated in the call and not stored anywhere else.
   BREAKS WHEN: GetValues returns the receiver for the full range (C18-A); a class function returns an operand
   when the other is empty (C18-B, C15-B, C16-A, C01-A); a constructor returns / adopts its same-kind argument
   (C14-B, C13-B); a result is a slice of an array that is also kept (C18-D); an iterator is handed the live
   array (C02-D). *)
Definition alias_results_fresh : bool :=
  forallb (fun r => negb (c18_named r && api_is_result r) || api_clean r || keeps_only_a_collator r) foot_api
  && negb (al_is_nil (filter (fun r => c18_named r && api_is_result r) foot_api)).
(* (b) no constructor, class function or bulk operation keeps, returns or writes a Go slice / Go map argument
   (the two append artefacts of module.Queue/Stack excepted), and the whole table of exceptions is the reviewed one.
   BREAKS WHEN: a constructor keeps the caller's array / map instead of copying it, a sorter keeps the caller's
   array as its buffer (C09-C), any new retention of an argument. *)
Definition slice_or_map_param (r : api_row) : bool := contains "[slice]" (api_what r) || contains "[map]" (api_what r).
Definition alias_params_not_retained : bool :=
  forallb (fun r => negb (slice_or_map_param r && (String.prefix "collection." (api_fun r) || String.prefix "module." (api_fun r)))
                    || api_clean r
                    || existsb (api_row_eqb r) [("module.Queue", "parameter 1 [slice]", "written"); ("module.Stack", "parameter 1 [slice]", "written");
                                                ("module.Set", "parameter 1 [slice]", "kept: arg 1 of collection.(*setClass_).MakeWithCollator; result 1 keeps in collection.set_.CollatorLike0 it")])
          foot_api
  && al_triples_eqb (filter (fun r => negb (api_clean r)) foot_api) expected_api_exceptions.
(* (c) storage is written in place only by the reviewed methods; no method sets a storage field to something
   that is not freshly allocated (append in place, reslicing, adopting); the publish-once fields are the expected.
   BREAKS WHEN: List.InsertValue/AppendValue use append on the internal array (C15-D, C18-D), List.RemoveValue
   shifts in place and reslices (C02-D), a sorter stores the caller's array in a field (C09-C). *)
Definition alias_in_place_discipline : bool :=
  al_pairs_eqb foot_storage_writes expected_storage_writes && al_is_nil foot_field_sets &&
  al_strs_eqb foot_publish_once expected_publish_once.
(* (d) no result contains element OBJECTS of the library held by the receiver or an argument: AsArray /
   GetIterator / the class functions of a Catalog hand out fresh association objects (fix 5269313).
   BREAKS WHEN: Catalog.GetIterator delegates to the list of associations (C17-B), AsArray hands out cached
   association objects (C18-C). *)
Definition alias_no_shared_elements : bool :=
  forallb (fun r => negb (contains shared_elements_phrase (api_verdict r))) foot_api.
(* (e) an iterator is built over a fresh copy: every GetIterator result is fresh, the iterator's array is
   publish-once, and no function of the library hands Iterator.MakeFromArray anything but a fresh array (there is
   no edge into its parameter), nor keeps a cached array in a field.
   BREAKS WHEN: GetIterator hands over the live array (C02-D) or a cached snapshot (C17-D, C13-C, C18-C). *)
Definition alias_iterators_over_copies : bool :=
  forallb (fun r => negb (ends_with get_iterator_suffix (api_fun r) && api_is_result r) || api_clean r) foot_api &&
  existsb (String.eqb iterator_values_field) foot_publish_once &&
  forallb (fun e : string * string => negb (String.prefix "arg 1 of agent.(*iteratorClass_).MakeFromArray" (fst e))) foot_shared_edges.

Definition alias_ok : bool :=
  foot_tool_ok && alias_results_fresh && alias_params_not_retained && alias_in_place_discipline &&
  alias_no_shared_elements && alias_iterators_over_copies.
