(* ParserCount.v — the parser model of Parser.v with ONE addition: a panic keeps the parser state at the
   moment it is raised ([CStop o s] instead of [Stop o]), so that the number of tokens the parser has removed
   from the token queue when it stops — by returning or by panicking — is computed: [parse_consumed].
   Every function below is the function of the same name in Parser.v (prefix c_), transcribed branch by
   branch; [erase] forgets the added state, and ParserCountProofs.v proves [erase (c_f s) = f s] for each, so
   [parse_tokens]' results are unchanged (C12_consumption_model_agrees).  Then the two ends of ParseSource
   that touch the queue: [drain_tokens] (the deferred drainTokens of the repaired parser.go) and the
   condition of ScannerLeak.v.  Definitions only. *)
From Verif Require Import Base Params Value Coll Lexer Literals Parser.
Open Scope Z_scope.

Inductive cres (A : Type) :=
| CYes (a : A) (t : token) (s : pstate)
| CNo (t : token) (s : pstate)
| CStop (o : outcome) (s : pstate).      (* panic, with the parser state at that moment *)
Arguments CYes {A} a t s.
Arguments CNo {A} t s.
Arguments CStop {A} o s.

Definition erase {A} (r : cres A) : pres A :=
  match r with CYes a t s => Yes a t s | CNo t s => No t s | CStop o _ => Stop o end.

(* getNextToken: an Error token HAS been removed from the queue when the diagnostic is raised; a parser that
   finds nothing to read (RemoveHead blocks for ever) keeps its state *)
Definition c_get_next (s : pstate) : token * pstate + outcome * pstate :=
  match pb s with
  | t :: p => inl (t, mkSt p (rest s))
  | [] =>
    match rest s with
    | [] => inr (PRuntime RStarved, s)
    | t :: r =>
      match ttype_of t with
      | TError => inr (PSyntax t, mkSt [] r)
      | _ => inl (t, mkSt [] r)
      end
    end
  end.

Definition c_parse_token (ty : ttype) (want : option (list Z)) (s : pstate) : cres (list Z) :=
  match c_get_next s with
  | inr (o, s') => CStop o s'
  | inl (t, s1) =>
    let value_ok := match want with None => true | Some w => list_eqb Z.eqb (tval t) w end in
    if ttype_eqb (ttype_of t) ty && value_ok then CYes (tval t) t s1
    else match put_back t s1 with
         | inr o => CStop o s1
         | inl s2 => CNo t s2
         end
  end.

Section Model.
Variable fparse : list Z -> option Z.
Variable crank : val -> val -> option comparison.

(* ---------- parseIntrinsic ---------- *)
Definition intrinsic_types : list ttype :=
  [TBoolean; TComplex; TFloat; THexadecimal; TInteger; TNil; TRune; TString].

(* tries the token types in turn; [last] is the result of the previous failed attempt *)
Fixpoint c_parse_intrinsic_from (tys : list ttype) (last : cres val) : cres val :=
  match tys with
  | [] => last
  | ty :: r =>
    match last with
    | CNo _ s =>
      match c_parse_token ty None s with
      | CYes text t s1 =>
        match literal_value fparse ty text with
        | Some v => CYes v t s1
        | None => CStop (PSyntax t) s1
        end
      | CNo t s1 => c_parse_intrinsic_from r (CNo t s1)
      | CStop o sx => CStop o sx
      end
    | other => other
    end
  end.
(* the dummy token of the initial [CNo] is never returned: the list of types is not empty *)
Definition c_parse_intrinsic (s : pstate) : cres val :=
  c_parse_intrinsic_from intrinsic_types (CNo (mkTok TError [] 0 0) s).

(* ---------- parseContext: the token handed on is the type token ---------- *)
Definition c_parse_context (s : pstate) : cres (list Z) :=
  match c_parse_token TDelimiter (delim 40) s with
  | CStop o sx => CStop o sx
  | CNo t s1 => CNo t s1
  | CYes _ _ s1 =>
    match c_parse_token TType None s1 with
    | CStop o sx => CStop o sx
    | CNo t sq => CStop (PSyntax t) sq
    | CYes context tyt s2 =>
      match c_parse_token TDelimiter (delim 41) s2 with
      | CStop o sx => CStop o sx
      | CNo t sq => CStop (PSyntax t) sq
      | CYes _ _ s3 => CYes context tyt s3
      end
    end
  end.

Section Knot.
(* the recursive call: parseCollection one level down *)
Variable c_pcoll : pstate -> cres val.

Definition c_parse_value (s : pstate) : cres val :=
  match c_parse_intrinsic s with
  | CYes v t s1 => CYes v t s1
  | CStop o sx => CStop o sx
  | CNo _ s1 => c_pcoll s1
  end.

Definition c_parse_association (s : pstate) : cres (val * val) :=
  match c_parse_intrinsic s with           (* parseKey *)
  | CStop o sx => CStop o sx
  | CNo t s1 => CNo t s1
  | CYes key kt s1 =>
    match c_parse_token TDelimiter (delim 58) s1 with
    | CStop o sx => CStop o sx
    | CNo _ s2 =>
      match put_back kt s2 with
      | inr o => CStop o s2
      | inl s3 => CNo kt s3
      end
    | CYes _ _ s2 =>
      match c_parse_value s2 with
      | CStop o sx => CStop o sx
      | CNo t sq => CStop (PSyntax t) sq
      | CYes v t s3 => CYes (key, v) t s3
      end
    end
  end.

(* the loop of parseInlineAssociations after the first association *)
Fixpoint c_inline_assocs_loop (fuel : nat) (cat : list (val * val)) (s : pstate) : cres (list (val * val)) :=
  match fuel with
  | O => CStop POutOfFuel s
  | S f =>
    match c_parse_token TDelimiter (delim 44) s with
    | CStop o sx => CStop o sx
    | CNo t s1 => CYes cat t s1
    | CYes _ _ s1 =>
      match c_parse_association s1 with
      | CStop o sx => CStop o sx
      | CNo t sq => CStop (PSyntax t) sq
      | CYes (k, v) _ s2 => c_inline_assocs_loop f (a_set keq cat k v) s2
      end
    end
  end.
Definition c_parse_inline_associations (fuel : nat) (s : pstate) : cres (list (val * val)) :=
  match c_parse_association s with
  | CStop o sx => CStop o sx
  | CNo t s1 => CNo t s1
  | CYes (k, v) _ s1 => c_inline_assocs_loop fuel (a_set keq [] k v) s1
  end.

(* the loop of parseMultilineAssociations after the first association *)
Fixpoint c_multi_assocs_loop (fuel : nat) (cat : list (val * val)) (s : pstate) : cres (list (val * val)) :=
  match fuel with
  | O => CStop POutOfFuel s
  | S f =>
    match c_parse_token TEOL None s with
    | CStop o sx => CStop o sx
    | CNo t sq => CStop (PSyntax t) sq
    | CYes _ _ s1 =>
      match c_parse_association s1 with
      | CStop o sx => CStop o sx
      | CNo t s2 => CYes cat t s2
      | CYes (k, v) _ s2 => c_multi_assocs_loop f (a_set keq cat k v) s2
      end
    end
  end.
Definition c_parse_multiline_associations (fuel : nat) (s : pstate) : cres (list (val * val)) :=
  match c_parse_token TEOL None s with
  | CStop o sx => CStop o sx
  | CNo t s1 => CNo t s1
  | CYes _ eol s1 =>
    match c_parse_association s1 with
    | CStop o sx => CStop o sx
    | CNo t s2 =>
      match put_back eol s2 with
      | inr o => CStop o s2
      | inl s3 => CNo t s3
      end
    | CYes (k, v) _ s2 => c_multi_assocs_loop fuel (a_set keq [] k v) s2
    end
  end.

Definition c_parse_associations (fuel : nat) (s : pstate) : cres (list (val * val)) :=
  match c_parse_token TDelimiter (delim 58) s with
  | CStop o sx => CStop o sx
  | CYes _ t s1 => CYes [] t s1
  | CNo _ s1 =>
    match c_parse_inline_associations fuel s1 with
    | CStop o sx => CStop o sx
    | CYes c t s2 => CYes c t s2
    | CNo _ s2 => c_parse_multiline_associations fuel s2
    end
  end.

Fixpoint c_inline_values_loop (fuel : nat) (acc : list val) (s : pstate) : cres (list val) :=
  match fuel with
  | O => CStop POutOfFuel s
  | S f =>
    match c_parse_token TDelimiter (delim 44) s with
    | CStop o sx => CStop o sx
    | CNo t s1 => CYes acc t s1
    | CYes _ _ s1 =>
      match c_parse_value s1 with
      | CStop o sx => CStop o sx
      | CNo t sq => CStop (PSyntax t) sq
      | CYes v _ s2 => c_inline_values_loop f (acc ++ [v]) s2
      end
    end
  end.
Definition c_parse_inline_values (fuel : nat) (s : pstate) : cres (list val) :=
  match c_parse_value s with
  | CStop o sx => CStop o sx
  | CNo t s1 => CNo t s1
  | CYes v _ s1 => c_inline_values_loop fuel [v] s1
  end.

Fixpoint c_multi_values_loop (fuel : nat) (acc : list val) (s : pstate) : cres (list val) :=
  match fuel with
  | O => CStop POutOfFuel s
  | S f =>
    match c_parse_token TEOL None s with
    | CStop o sx => CStop o sx
    | CNo t sq => CStop (PSyntax t) sq
    | CYes _ _ s1 =>
      match c_parse_value s1 with
      | CStop o sx => CStop o sx
      | CNo t s2 => CYes acc t s2
      | CYes v _ s2 => c_multi_values_loop f (acc ++ [v]) s2
      end
    end
  end.
Definition c_parse_multiline_values (fuel : nat) (s : pstate) : cres (list val) :=
  match c_parse_token TEOL None s with
  | CStop o sx => CStop o sx
  | CNo t s1 => CNo t s1
  | CYes _ _ s1 =>
    match c_parse_value s1 with
    | CStop o sx => CStop o sx
    | CNo t sq => CStop (PSyntax t) sq
    | CYes v _ s2 => c_multi_values_loop fuel [v] s2
    end
  end.

Definition c_parse_values (fuel : nat) (s : pstate) : cres (list val) :=
  match c_parse_token TDelimiter (delim 93) s with
  | CStop o sx => CStop o sx
  | CYes _ t s1 =>
    match put_back t s1 with
    | inr o => CStop o s1
    | inl s2 => CYes [] t s2
    end
  | CNo _ s1 =>
    match c_parse_inline_values fuel s1 with
    | CStop o sx => CStop o sx
    | CYes l t s2 => CYes l t s2
    | CNo _ s2 => c_parse_multiline_values fuel s2
    end
  end.

Definition c_parse_items (fuel : nat) (s : pstate) : cres (list val) :=
  match c_parse_associations fuel s with
  | CStop o sx => CStop o sx
  | CYes c t s1 => CYes (map (fun kv => VAssoc (fst kv) (snd kv)) c) t s1
  | CNo _ s1 => c_parse_values fuel s1
  end.

Definition c_parse_sequence (fuel : nat) (s : pstate) : cres (list val) :=
  match c_parse_token TDelimiter (delim 91) s with
  | CStop o sx => CStop o sx
  | CNo t s1 => CNo t s1
  | CYes _ _ s1 =>
    match c_parse_items fuel s1 with
    | CStop o sx => CStop o sx
    | CNo t sq => CStop (PSyntax t) sq
    | CYes items _ s2 =>
      match c_parse_token TDelimiter (delim 93) s2 with
      | CStop o sx => CStop o sx
      | CNo t sq => CStop (PSyntax t) sq
      | CYes _ t s3 => CYes items t s3
      end
    end
  end.

Definition c_parse_collection_body (fuel : nat) (s : pstate) : cres val :=
  match c_parse_sequence fuel s with
  | CStop o sx => CStop o sx
  | CNo t s1 => CNo t s1
  | CYes items _ s1 =>
    match c_parse_context s1 with
    | CStop o sx => CStop o sx
    | CNo t sq => CStop (PSyntax t) sq
    | CYes context tyt s2 =>
      match build crank context items with
      | BVal v => CYes v tyt s2
      | BNotAssociations => CStop (PSyntax tyt) s2
      | BCollator => CStop (PSyntax tyt) s2
      | BUnknown => CStop (PRuntime RUnknownType) s2
      end
    end
  end.
End Knot.

(* parseCollection: the loops inside one level get the same fuel as the nesting *)
Fixpoint c_parse_collection (fuel : nat) (s : pstate) : cres val :=
  match fuel with
  | O => CStop POutOfFuel s
  | S f => c_parse_collection_body (c_parse_collection f) fuel s
  end.

(* ParseSource after the scanner: Collection EOL* EOF *)
Fixpoint c_trailing_eols (fuel : nat) (s : pstate) : pstate + outcome * pstate :=
  match fuel with
  | O => inr (POutOfFuel, s)
  | S f =>
    match c_parse_token TEOL None s with
    | CStop o sx => inr (o, sx)
    | CNo _ s1 => inl s1
    | CYes _ _ s1 => c_trailing_eols f s1
    end
  end.

(* the outcome of ParseSource's own code and the parser state when it returns or panics *)
Definition c_parse_tokens (ts : list token) : outcome * pstate :=
  let fuel := S (length ts) in
  match c_parse_collection fuel (mkSt [] ts) with
  | CStop o sx => (o, sx)
  | CNo t sx => (PSyntax t, sx)
  | CYes v _ s1 =>
    match c_trailing_eols fuel s1 with
    | inr (o, sx) => (o, sx)
    | inl s2 =>
      match c_parse_token TEOF None s2 with
      | CStop o sx => (o, sx)
      | CNo t sx => (PSyntax t, sx)
      | CYes _ _ sx => (PValue v, sx)
      end
    end
  end.

(* the number of tokens removed from the queue (tokens waiting on the push-back stack have been removed) *)
Definition parse_consumed (ts : list token) : nat := (length ts - length (rest (snd (c_parse_tokens ts))))%nat.

(* done_: set by getNextToken when it reads the EOF token.  The scanner sends EOF last, once. *)
Definition has_eofb (l : list token) : bool := existsb (fun t => ttype_eqb (ttype_of t) TEOF) l.
Definition parser_done (ts : list token) : bool := has_eofb (firstn (parse_consumed ts) ts).

(* drainTokens: "for !v.done_ { token, ok := v.tokens_.RemoveHead(); if !ok || token.GetType() == EOFToken { v.done_ = true } }"
   over the tokens still to come: the number of tokens it removes.  None = it waits for ever (the scanner has
   sent everything and there was no EOF among it: the queue is never closed). *)
Fixpoint drain_tokens (l : list token) : option nat :=
  match l with
  | [] => None
  | t :: r => if ttype_eqb (ttype_of t) TEOF then Some 1%nat else option_map S (drain_tokens r)
  end.

(* tokens removed from the queue by the whole repaired ParseSource (parser + deferred drain) *)
Definition consumed_with_drain_tokens (ts : list token) : option nat :=
  if parser_done ts then Some (parse_consumed ts)
  else option_map (fun d => (parse_consumed ts + d)%nat) (drain_tokens (skipn (parse_consumed ts) ts)).

Definition consumed_with_drain (src : list Z) : option nat := consumed_with_drain_tokens (lex src).
(* the code before fix b834acd: no drain *)
Definition consumed_before_fix (src : list Z) : nat := parse_consumed (lex src).

End Model.

Definition queue_size : nat := Z.to_nat Params.parser_queue_size.
