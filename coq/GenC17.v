(* GenC17.v — property C17 for the GENERATED iterator methods (GenSrc.v, regenerated from
   v4/agent/iterator.go on every run): each generated method computes what the iterator model of Seq.v
   computes, and the headline theorems of C17 hold for every sequence of moves executed by the
   generated methods.  Not part of the common build: compiled by ./check C17. *)
From Verif Require Import Base Seq IterProofs MiniGo GenSrc GenRep GenLib GenIter.

Section GenC17.
Variable A : Type.
Variable zero : A.
Variable ext : ident -> ident -> val A -> list (val A) -> option (val A).
Notation call_at F := (i_call (interp_at A zero ext prog F)).
Notation run_method := (MiniGo.run_method A zero ext prog).
Notation it_rep := (it_rep A).

Lemma gen_HasPrevious cls i F : 6 <= F ->
  call_at F (it_rep cls i) id_HasPrevious [] = ROk (VBool (has_prev i), it_rep cls i).
Proof.
  intros HF. fuel F 6. destruct i as [l k]. unfold GenRep.it_rep, has_prev. cbn [it_vals it_slot].
  gocall. gogo. all: reflexivity.
Qed.

(* GetPrevious reads values_[slot_-1]: within the snapshot because slot_ <= size_ *)
Lemma gen_GetPrevious cls i F : wf A i -> 10 <= F ->
  call_at F (it_rep cls i) id_GetPrevious [] =
  ROk (VElem (fst (get_prev zero i)), it_rep cls (snd (get_prev zero i))).
Proof.
  intros W HF. fuel F 10. destruct i as [l k]. unfold wf, it_size in W.
  unfold GenRep.it_rep, get_prev, has_prev. cbn [it_vals it_slot] in *.
  gocall. gogo; cbn [fst snd it_vals it_slot].
  - rewrite (zidx_elems A zero) by lia. gorun. unfold it_val. goeq.
  - reflexivity.
Qed.

Lemma gen_ToStart cls i F : 6 <= F ->
  call_at F (it_rep cls i) id_ToStart [] = ROk (VTuple [], it_rep cls (to_start i)).
Proof.
  intros HF. fuel F 6. destruct i as [l k]. unfold GenRep.it_rep, to_start. cbn [it_vals it_slot].
  gocall. reflexivity.
Qed.

Lemma gen_ToEnd cls i F : 6 <= F ->
  call_at F (it_rep cls i) id_ToEnd [] = ROk (VTuple [], it_rep cls (to_end i)).
Proof.
  intros HF. fuel F 6. destruct i as [l k]. unfold GenRep.it_rep, to_end, it_size. cbn [it_vals it_slot].
  gocall. reflexivity.
Qed.

Lemma gen_ToSlot cls i s F : 10 <= F ->
  call_at F (it_rep cls i) id_ToSlot [VInt s] = ROk (VTuple [], it_rep cls (to_slot i s)).
Proof.
  intros HF. fuel F 10. destruct i as [l k]. unfold GenRep.it_rep, to_slot, it_size. cbn [it_vals it_slot].
  gocall. gogo. all: unfold it_val; goeq.
Qed.

Lemma gen_GetSlot cls i F : 6 <= F ->
  call_at F (it_rep cls i) id_GetSlot [] = ROk (VInt (Z.of_nat (it_slot i)), it_rep cls i).
Proof. intros HF. fuel F 6. destruct i as [l k]. unfold GenRep.it_rep. cbn [it_vals it_slot]. gocall. reflexivity. Qed.

Lemma gen_GetSize cls i F : 6 <= F ->
  call_at F (it_rep cls i) id_GetSize [] = ROk (VInt (Z.of_nat (it_size i)), it_rep cls i).
Proof. intros HF. fuel F 6. destruct i as [l k]. unfold GenRep.it_rep, it_size. cbn [it_vals it_slot]. gocall. reflexivity. Qed.

Lemma gen_IsEmpty cls i F : 6 <= F ->
  call_at F (it_rep cls i) id_IsEmpty [] = ROk (VBool (it_size i =? 0), it_rep cls i).
Proof.
  intros HF. fuel F 6. destruct i as [l k]. unfold GenRep.it_rep, it_size. cbn [it_vals it_slot].
  gocall. gogo. all: reflexivity.
Qed.

(* ---------- histories of moves executed by the generated methods ---------- *)
Definition gen_move (m : move) : ident * list (val A) :=
  match m with
  | MNext => (id_GetNext, [])
  | MPrev => (id_GetPrevious, [])
  | MToStart => (id_ToStart, [])
  | MToEnd => (id_ToEnd, [])
  | MToSlot k => (id_ToSlot, [VInt k])
  end.

(* run the moves one after the other on the receiver; the outcome is the final receiver *)
Fixpoint gen_walk (F : nat) (recv : val A) (ms : list move) : out (val A) :=
  match ms with
  | [] => Ret recv
  | m :: t =>
    match run_method F recv (fst (gen_move m)) (snd (gen_move m)) with
    | Ret (_, recv') => gen_walk F recv' t
    | Panic => Panic
    | Hang => Hang
    end
  end.

Lemma wf_move i m : wf A i -> wf A (apply_move A zero i m).
Proof.
  intros W. pose proof (C17_slot_inv A zero) as _.
  destruct i as [l k]. unfold wf, it_size in *. cbn [it_vals it_slot] in *.
  destruct m as [| | | |s]; cbn [apply_move].
  - unfold get_next, has_next, it_size. cbn [it_vals it_slot]. destruct (Nat.ltb_spec k (length l)); cbn; lia.
  - unfold get_prev, has_prev. cbn [it_vals it_slot]. destruct (Nat.ltb_spec 0 k); cbn; lia.
  - cbn. lia.
  - cbn. lia.
  - unfold to_slot, it_size. cbn [it_vals it_slot]. repeat zsplit; lia.
Qed.

Lemma gen_move_step cls i m F : wf A i -> 10 <= F ->
  exists v, run_method F (it_rep cls i) (fst (gen_move m)) (snd (gen_move m)) =
            Ret (v, it_rep cls (apply_move A zero i m)).
Proof.
  intros W HF. unfold MiniGo.run_method, MiniGo.call_at.
  destruct m as [| | | |s]; cbn [gen_move fst snd apply_move].
  - rewrite gen_GetNext by lia. eexists; reflexivity.
  - rewrite gen_GetPrevious by (assumption || lia). eexists; reflexivity.
  - rewrite gen_ToStart by lia. eexists; reflexivity.
  - rewrite gen_ToEnd by lia. eexists; reflexivity.
  - rewrite gen_ToSlot by lia. eexists; reflexivity.
Qed.

(* every history of moves run by the generated methods ends in the state the model's walk ends in:
   never a panic, never out of fuel (fuel 10 suffices: no generated iterator method loops) *)
Theorem gen_walk_is_walk cls ms : forall i F, wf A i -> 10 <= F ->
  gen_walk F (it_rep cls i) ms = Ret (it_rep cls (walk A zero i ms)).
Proof.
  induction ms as [|m t IH]; intros i F W HF; cbn [gen_walk walk fold_left].
  - reflexivity.
  - destruct (gen_move_step cls i m F W HF) as [v E]. rewrite E.
    apply IH; [apply wf_move; exact W | exact HF].
Qed.

Theorem gen_slot_within_bounds cls l ms F : 10 <= F ->
  exists k, gen_walk F (it_val cls l 0) ms = Ret (it_val cls l (Z.of_nat k)) /\ k <= length l.
Proof.
  intros HF. exists (it_slot (walk A zero (it_make l) ms)). split.
  - change (it_val cls l 0) with (it_rep cls (it_make l)).
    rewrite gen_walk_is_walk by (exact HF || apply make_wf).
    unfold GenRep.it_rep. rewrite (C17_snapshot A zero). reflexivity.
  - apply C17_slot_inv.
Qed.

(* after any history: HasNext answers true exactly when a value exists after the slot, and then GetNext
   returns that value of the snapshot and moves one slot on *)
Theorem gen_has_next_iff_value cls l ms F : 10 <= F ->
  exists k, gen_walk F (it_val cls l 0) ms = Ret (it_val cls l (Z.of_nat k)) /\ k <= length l /\
    run_method F (it_val cls l (Z.of_nat k)) id_HasNext [] = Ret (VBool (k <? length l), it_val cls l (Z.of_nat k)) /\
    (k < length l ->
     run_method F (it_val cls l (Z.of_nat k)) id_GetNext [] = Ret (VElem (nth k l zero), it_val cls l (Z.of_nat (S k)))).
Proof.
  intros HF. destruct (gen_slot_within_bounds cls l ms F HF) as [k [E B]].
  exists k. split; [exact E|]. split; [exact B|].
  change (it_val cls l (Z.of_nat k)) with (it_rep cls (mk_it A l k)).
  unfold MiniGo.run_method, MiniGo.call_at. split.
  - rewrite gen_HasNext by lia. reflexivity.
  - intros Hk. rewrite gen_GetNext by lia. unfold get_next, has_next, it_size, mk_it. cbn [it_vals it_slot].
    destruct (Nat.ltb_spec k (length l)); [reflexivity|lia].
Qed.

End GenC17.

(* ---------- the statements of C17 for the generated code (closed by [exact]) ---------- *)

Theorem C17_gen_methods_compute_the_model :
  forall (A : Type) (zero : A) (ext : ident -> ident -> val A -> list (val A) -> option (val A))
         (cls : val A) (i : iter A) (s : Z) (F : nat),
    wf A i -> 10 <= F ->
    let run := run_method A zero ext prog F (it_rep A cls i) in
    run id_GetNext [] = Ret (VElem (fst (get_next zero i)), it_rep A cls (snd (get_next zero i))) /\
    run id_GetPrevious [] = Ret (VElem (fst (get_prev zero i)), it_rep A cls (snd (get_prev zero i))) /\
    run id_HasNext [] = Ret (VBool (has_next i), it_rep A cls i) /\
    run id_HasPrevious [] = Ret (VBool (has_prev i), it_rep A cls i) /\
    run id_ToStart [] = Ret (VTuple [], it_rep A cls (to_start i)) /\
    run id_ToEnd [] = Ret (VTuple [], it_rep A cls (to_end i)) /\
    run id_ToSlot [VInt s] = Ret (VTuple [], it_rep A cls (to_slot i s)) /\
    run id_GetSlot [] = Ret (VInt (Z.of_nat (it_slot i)), it_rep A cls i) /\
    run id_GetSize [] = Ret (VInt (Z.of_nat (it_size i)), it_rep A cls i) /\
    run id_IsEmpty [] = Ret (VBool (it_size i =? 0), it_rep A cls i).
Proof.
  intros A zero ext cls i s F W HF run. unfold run, run_method, MiniGo.call_at.
  rewrite gen_GetNext, gen_GetPrevious, gen_HasNext, gen_HasPrevious, gen_ToStart, gen_ToEnd, gen_ToSlot,
    gen_GetSlot, gen_GetSize, gen_IsEmpty by (assumption || lia).
  repeat split.
Qed.

Theorem C17_gen_history_is_the_model_walk :
  forall (A : Type) (zero : A) (ext : ident -> ident -> val A -> list (val A) -> option (val A))
         (cls : val A) (ms : list move) (i : iter A) (F : nat),
    wf A i -> 10 <= F ->
    gen_walk A zero ext F (it_rep A cls i) ms = Ret (it_rep A cls (walk A zero i ms)).
Proof. exact gen_walk_is_walk. Qed.

Theorem C17_gen_slot_within_bounds :
  forall (A : Type) (zero : A) (ext : ident -> ident -> val A -> list (val A) -> option (val A))
         (cls : val A) (l : list A) (ms : list move) (F : nat),
    10 <= F ->
    exists k, gen_walk A zero ext F (it_val cls l 0) ms = Ret (it_val cls l (Z.of_nat k)) /\ k <= length l.
Proof. exact gen_slot_within_bounds. Qed.

Theorem C17_gen_has_next_iff_a_value_exists :
  forall (A : Type) (zero : A) (ext : ident -> ident -> val A -> list (val A) -> option (val A))
         (cls : val A) (l : list A) (ms : list move) (F : nat),
    10 <= F ->
    exists k, gen_walk A zero ext F (it_val cls l 0) ms = Ret (it_val cls l (Z.of_nat k)) /\ k <= length l /\
      run_method A zero ext prog F (it_val cls l (Z.of_nat k)) id_HasNext [] =
        Ret (VBool (k <? length l), it_val cls l (Z.of_nat k)) /\
      (k < length l ->
       run_method A zero ext prog F (it_val cls l (Z.of_nat k)) id_GetNext [] =
         Ret (VElem (nth k l zero), it_val cls l (Z.of_nat (S k)))).
Proof. exact gen_has_next_iff_value. Qed.

(* non-vacuity: the generated methods run on [11;22;33;44] through Next, Next, Prev, ToSlot(-1), Next,
   ToSlot(9), Prev end at slot 3 (the walk of C17_slot_within_bounds_example) *)
Example C17_gen_history_example :
  gen_walk Z 0%Z no_ext 10 (it_val VNil [11; 22; 33; 44]%Z 0)
    [MNext; MNext; MPrev; MToSlot (-1); MNext; MToSlot 9; MPrev] = Ret (it_val VNil [11; 22; 33; 44]%Z 3).
Proof. vm_compute. reflexivity. Qed.

Print Assumptions C17_gen_methods_compute_the_model.
Print Assumptions C17_gen_history_is_the_model_walk.
Print Assumptions C17_gen_slot_within_bounds.
Print Assumptions C17_gen_has_next_iff_a_value_exists.
