(* GenC20c.v — LATE file of C20 (compiled after GenC20.v, GenC20b.v, GenC20s.v, GenC20p.v, GenC20m.v): the headline theorems of
   C20.v restated for the REGENERATED constructors, from the equalities run_ctor gen_X = facade FX proved in those files. *)
From Coq Require Import String.
From Verif Require Import Base Sorter Value Seq Coll Pool PoolRun Params SetProofs AssocProofs Facade FacadeProofs ModuleLang ModuleSem ModuleFacts ModuleTactics GenModule GenC20 GenC20b GenC20r GenC20s GenC20t GenC20p GenC20m.
Open Scope Z_scope.
Open Scope list_scope.

(* ====================================================================================================== *)
(* the headline theorems of C20.v restated for the REGENERATED constructors                                 *)
(* ====================================================================================================== *)
(* the Set constructor: its two halves (GenC20s.v with a collator, GenC20t.v without) *)
Lemma set_post : forall args0 tk tv f s scr, length scr = GenC20s.Kset ->
  result_of (exec args0 (30 + f) (ctx0 tk tv) (env_set s scr) (post_body gen_Set)) =
  out_map FO (out_map FObj (finish_set tv s)).
Proof.
  intros args0 tk tv f s scr L. destruct (s_coll s) as [c|] eqn:E.
  - exact (set_post_collator args0 tk tv f s scr c L E).
  - exact (set_post_plain args0 tk tv f s scr L E).
Qed.

Theorem gen_Set_is_the_model : forall tk tv args, Forall size_ok args ->
  run_ctor gen_Set tk tv args = out_map FO (facade FSet tk tv args).
Proof. ctor_main gen_Set FSet env_set GenC20s.Kset set_step set_post. Qed.

Definition gen_of (k : fkind) : gen_ctor :=
  match k with
  | FAssociation => gen_Association | FArray => gen_Array | FCatalog => gen_Catalog | FList => gen_List
  | FMap => gen_Map | FQueue => gen_Queue | FSet => gen_Set | FStack => gen_Stack
  end.
(* every collection constructor (the Association is separate: its arguments are restricted by assoc_arg) *)
Definition proved_kind (k : fkind) : Prop := k <> FAssociation.

Lemma with_notation_ok : forall (P : arg -> Prop) pos args, P ANotation -> Forall P args -> Forall P (with_notation pos args).
Proof.
  intros P pos args Hn F. destruct pos as [|[|pos]]; cbn [with_notation]; [exact F|constructor; assumption|].
  apply Forall_app. split; [exact F|constructor; [exact Hn|constructor]].
Qed.

Theorem gen_is_the_model : forall k tk tv args, proved_kind k -> Forall size_ok args ->
  run_ctor (gen_of k) tk tv args = out_map FO (facade k tk tv args).
Proof.
  intros k tk tv args Hk F. destruct k; try congruence;
    [apply gen_Array_is_the_model|apply gen_Catalog_is_the_model|apply gen_List_is_the_model|apply gen_Map_is_the_model
    |apply gen_Queue_is_the_model|apply gen_Set_is_the_model|apply gen_Stack_is_the_model]; exact F.
Qed.

Theorem C20_gen_notation_is_transparent : forall k tk tv pos args, proved_kind k -> Forall size_ok args ->
  run_ctor (gen_of k) tk tv (with_notation pos args) = run_ctor (gen_of k) tk tv args.
Proof.
  intros k tk tv pos args Hk F. rewrite !(gen_is_the_model k tk tv _ Hk); [|exact F|apply with_notation_ok; [exact I|exact F]].
  rewrite facade_notation_transparent. reflexivity.
Qed.

Theorem C20_gen_association_notation_is_transparent : forall tk tv pos args, Forall assoc_arg args ->
  run_ctor gen_Association tk tv (with_notation pos args) = run_ctor gen_Association tk tv args.
Proof.
  intros tk tv pos args F. rewrite !gen_Association_is_the_model; [|exact F|apply with_notation_ok; [exact I|exact F]].
  rewrite facade_notation_transparent. reflexivity.
Qed.

Theorem C20_gen_association_key_value : forall tk tv k v pos, has_ty tk k = true -> has_ty tv v = true ->
  run_ctor gen_Association tk tv (with_notation pos [AVal k; AVal v]) = Ret (FO (FAssoc k v)).
Proof.
  intros tk tv k v pos Hk Hv. rewrite gen_Association_is_the_model.
  - rewrite (assoc_kv tk tv k v pos Hk Hv). reflexivity.
  - apply with_notation_ok; [exact I|]. repeat constructor.
Qed.

Ltac transfer Hk F :=
  match goal with |- run_ctor (gen_of ?k) ?tk ?tv ?args = _ => rewrite (gen_is_the_model k tk tv args Hk F) end.
Lemma ok1 : forall pos a, size_ok a -> Forall size_ok (with_notation pos [a]).
Proof. intros pos a H. apply with_notation_ok; [exact I|]. constructor; [exact H|constructor]. Qed.
Lemma ok2 : forall pos a b, size_ok a -> size_ok b -> Forall size_ok (with_notation pos [a; b]).
Proof. intros pos a b H1 H2. apply with_notation_ok; [exact I|]. repeat constructor; assumption. Qed.

Theorem C20_gen_no_data_is_Make : forall k tk tv pos, proved_kind k -> k <> FArray ->
  run_ctor (gen_of k) tk tv (with_notation pos []) = out_map FO (out_map FObj (class_ctor k tv CMake)).
Proof.
  intros k tk tv pos Hk Ha. transfer Hk (with_notation_ok size_ok pos [] I (Forall_nil _)).
  rewrite facade_agrees_none; [reflexivity|exact Ha|exact Hk].
Qed.

Theorem C20_gen_array_requires_an_argument : forall tk tv pos,
  run_ctor gen_Array tk tv (with_notation pos []) = Panic.
Proof.
  intros tk tv pos. rewrite gen_Array_is_the_model by (apply with_notation_ok; [exact I|constructor]).
  rewrite facade_array_requires_argument. reflexivity.
Qed.

Theorem C20_gen_size_or_capacity : forall k tk tv n pos (as_int : bool), proved_kind k -> is_sized_kind k -> 0 <= n ->
  run_ctor (gen_of k) tk tv (with_notation pos [if as_int then AInt n else AUint n]) =
  out_map FO (out_map FObj (class_ctor k tv (CSize (Z.to_nat n)))).
Proof.
  intros k tk tv n pos as_int Hk Hs Hn. transfer Hk (ok1 pos (if as_int then AInt n else AUint n) ltac:(destruct as_int; exact Hn)).
  rewrite facade_agrees_size; [reflexivity|exact Hs|exact Hn].
Qed.

Theorem C20_gen_go_array : forall k tk tv vs pos, proved_kind k -> is_seq_kind k ->
  run_ctor (gen_of k) tk tv (with_notation pos [ASlice vs]) = out_map FO (out_map FObj (class_ctor k tv (CFromArray vs))).
Proof. intros k tk tv vs pos Hk Hs. transfer Hk (ok1 pos (ASlice vs) I). rewrite facade_agrees_slice; [reflexivity|exact Hs]. Qed.

Theorem C20_gen_sequence : forall k tk tv sk vs pos, proved_kind k -> is_seq_kind k ->
  run_ctor (gen_of k) tk tv (with_notation pos [ASeq sk vs]) = out_map FO (out_map FObj (class_ctor k tv (CFromSeq vs))).
Proof. intros k tk tv sk vs pos Hk Hs. transfer Hk (ok1 pos (ASeq sk vs) I). rewrite facade_agrees_sequence; [reflexivity|exact Hs]. Qed.

Theorem C20_gen_collator : forall tk tv c pos,
  run_ctor gen_Set tk tv (with_notation pos [ACollator c]) = out_map FO (out_map FObj (class_ctor FSet tv (CWithCollator c []))).
Proof. intros. rewrite gen_Set_is_the_model by (apply ok1; exact I). rewrite facade_agrees_collator. reflexivity. Qed.

Theorem C20_gen_collator_with_go_array : forall tk tv c vs pos (coll_first : bool),
  run_ctor gen_Set tk tv (with_notation pos (if coll_first then [ACollator c; ASlice vs] else [ASlice vs; ACollator c])) =
  out_map FO (out_map FObj (class_ctor FSet tv (CWithCollator c vs))).
Proof.
  intros. rewrite gen_Set_is_the_model by (destruct coll_first; apply ok2; exact I). rewrite facade_agrees_collator_slice. reflexivity.
Qed.

Theorem C20_gen_collator_with_sequence : forall tk tv c sk vs pos (coll_first : bool),
  run_ctor gen_Set tk tv (with_notation pos (if coll_first then [ACollator c; ASeq sk vs] else [ASeq sk vs; ACollator c])) =
  out_map FO (out_map FObj (class_ctor FSet tv (CWithCollator c vs))).
Proof.
  intros. rewrite gen_Set_is_the_model by (destruct coll_first; apply ok2; exact I). rewrite facade_agrees_collator_sequence. reflexivity.
Qed.

Theorem C20_gen_go_map : forall k tk tv kvs okeys pos, proved_kind k -> is_pair_kind k ->
  run_ctor (gen_of k) tk tv (with_notation pos [AGoMap kvs okeys]) = out_map FO (out_map FObj (class_ctor k tv (CFromMap (ordered kvs okeys)))).
Proof. intros k tk tv kvs okeys pos Hk Hp. transfer Hk (ok1 pos (AGoMap kvs okeys) I). rewrite facade_agrees_gomap; [reflexivity|exact Hp]. Qed.

Theorem C20_gen_association_array : forall k tk tv kvs pos, proved_kind k -> is_pair_kind k ->
  run_ctor (gen_of k) tk tv (with_notation pos [AAssocSlice kvs]) = out_map FO (out_map FObj (class_ctor k tv (CFromAssocArray kvs))).
Proof. intros k tk tv kvs pos Hk Hp. transfer Hk (ok1 pos (AAssocSlice kvs) I). rewrite facade_agrees_assoc_slice; [reflexivity|exact Hp]. Qed.

Theorem C20_gen_association_sequence : forall k tk tv kvs okeys pos, proved_kind k -> is_pair_kind k ->
  run_ctor (gen_of k) tk tv (with_notation pos [AAssocSeq kvs okeys]) = out_map FO (out_map FObj (class_ctor k tv (CFromAssocSeq (ordered kvs okeys)))).
Proof. intros k tk tv kvs okeys pos Hk Hp. transfer Hk (ok1 pos (AAssocSeq kvs okeys) I). rewrite facade_agrees_assoc_sequence; [reflexivity|exact Hp]. Qed.

(* the source form: what the parser itself builds from the items (kind, contents, order, capacity) *)
Theorem C20_gen_source_is_the_class_constructor_on_the_parsed_items : forall k tk tv text sk items pos,
  proved_kind k -> is_seq_kind k -> text <> [] -> sk <> KSlice -> convert_all tv items = Some items ->
  run_ctor (gen_of k) tk tv (with_notation pos [AString text (PColl (VSeq sk items))]) =
  out_map FO (out_map FObj (class_ctor k tv (CFromSeq items))).
Proof.
  intros k tk tv text sk items pos Hk Hs Ht Hsk Hc. transfer Hk (ok1 pos (AString text (PColl (VSeq sk items))) I).
  rewrite facade_source_sequence; [reflexivity|exact Hs|exact Ht|exact Hsk|exact Hc].
Qed.

Theorem C20_gen_source_catalog_map : forall k tk tv text mk ks vs pos,
  proved_kind k -> is_pair_kind k -> text <> [] -> mk <> MGoMap -> convert_pairs tk tv (zipkv ks vs) = Some (zipkv ks vs) ->
  run_ctor (gen_of k) tk tv (with_notation pos [AString text (PColl (VMapping mk ks vs))]) =
  out_map FO (facade k tk tv (with_notation pos [AString text (PColl (VMapping mk ks vs))])).
Proof. intros k tk tv text mk ks vs pos Hk _ _ _ _. transfer Hk (ok1 pos (AString text (PColl (VMapping mk ks vs))) I). reflexivity. Qed.
Print Assumptions gen_is_the_model.
Print Assumptions C20_gen_association_key_value.
