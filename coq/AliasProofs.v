(* AliasProofs.v - what the static aliasing premise [alias_ok = true] (AliasFacts.v) means, as statements about
   the regenerated tables, and its combination with the frame theorems of the pool model (C18) and with the
   snapshot theorem of the iterator model (C17).  Nothing here computes on the tables: these implications hold
   whatever the tables are, so a change of the Go sources never breaks this file; that the premise holds for the
   current sources is proved by computation in AliasStatic.v (late file of C18 and C17). *)
From Coq Require Import String List Bool Arith.
From Verif Require Import Base ParamsFoot AliasFacts Value Seq Coll Pool PoolFrame IterProofs.
Import ListNotations.

Lemma al_is_nil_true {A} (l : list A) : al_is_nil l = true -> l = [].
Proof. destruct l; [reflexivity | discriminate]. Qed.

Lemma al_strs_eqb_eq a b : al_strs_eqb a b = true -> a = b.
Proof.
  revert b. induction a as [|x a IH]; intros [|y b] H; simpl in H; try discriminate; [reflexivity|].
  apply andb_true_iff in H. destruct H as [H1 H2]. apply String.eqb_eq in H1. subst y. f_equal. exact (IH b H2).
Qed.

Lemma al_pairs_eqb_eq a b : al_pairs_eqb a b = true -> a = b.
Proof.
  revert b. induction a as [|[x1 x2] a IH]; intros [|[y1 y2] b] H; simpl in H; try discriminate; [reflexivity|].
  apply andb_true_iff in H. destruct H as [H12 H3]. apply andb_true_iff in H12. destruct H12 as [H1 H2].
  apply String.eqb_eq in H1. apply String.eqb_eq in H2. subst y1 y2. f_equal. exact (IH b H3).
Qed.

Lemma al_triples_eqb_eq a b : al_triples_eqb a b = true -> a = b.
Proof.
  revert b. induction a as [|[[x1 x2] x3] a IH]; intros [|[[y1 y2] y3] b] H; simpl in H; try discriminate; [reflexivity|].
  apply andb_true_iff in H. destruct H as [H H4]. apply andb_true_iff in H. destruct H as [H H3].
  apply andb_true_iff in H. destruct H as [H1 H2].
  apply String.eqb_eq in H1. apply String.eqb_eq in H2. apply String.eqb_eq in H3. subst y1 y2 y3. f_equal. exact (IH b H4).
Qed.

Lemma alias_ok_parts :
  alias_ok = true ->
  foot_tool_ok = true /\ alias_results_fresh = true /\ alias_params_not_retained = true /\
  alias_in_place_discipline = true /\ alias_no_shared_elements = true /\ alias_iterators_over_copies = true.
Proof.
  unfold alias_ok. intros H.
  repeat (apply andb_true_iff in H; let H' := fresh "P" in destruct H as [H H']).
  repeat split; assumption.
Qed.

(* the premise in words of the tables: (a) every result that C18 names is fresh (or a new set that keeps only the
   collator of its operand); (b) the rows that are neither fresh nor not-retained are exactly the reviewed ones;
   (c) storage is written in place only by the reviewed methods, no field is set to memory that is not fresh, the
   publish-once fields are the expected ones; (d) no result contains element objects of the receiver or an
   argument; (e) every GetIterator result is fresh and the iterator's array is never written after construction *)
Theorem alias_ok_meaning :
  alias_ok = true ->
  (forall r, In r foot_api -> c18_named r = true -> api_is_result r = true ->
             api_clean r = true \/ keeps_only_a_collator r = true) /\
  filter (fun r => negb (api_clean r)) foot_api = expected_api_exceptions /\
  foot_storage_writes = expected_storage_writes /\ foot_field_sets = [] /\
  foot_publish_once = expected_publish_once /\
  (forall r, In r foot_api -> contains shared_elements_phrase (api_verdict r) = false) /\
  (forall r, In r foot_api -> ends_with get_iterator_suffix (api_fun r) = true -> api_is_result r = true -> api_clean r = true) /\
  In iterator_values_field foot_publish_once.
Proof.
  intros H. apply alias_ok_parts in H. destruct H as [_ [A [B [C [D E]]]]].
  unfold alias_results_fresh in A. apply andb_true_iff in A. destruct A as [A _].
  unfold alias_params_not_retained in B. apply andb_true_iff in B. destruct B as [_ B].
  unfold alias_in_place_discipline in C. apply andb_true_iff in C. destruct C as [C C3]. apply andb_true_iff in C. destruct C as [C1 C2].
  unfold alias_iterators_over_copies in E. apply andb_true_iff in E. destruct E as [E _]. apply andb_true_iff in E. destruct E as [E1 E2].
  split.
  { intros r Hr Hn Hres. pose proof (proj1 (forallb_forall _ _) A r Hr) as P. cbv beta in P. rewrite Hn, Hres in P. cbn [andb negb orb] in P.
    apply orb_true_iff in P. exact P. }
  split; [exact (al_triples_eqb_eq _ _ B)|].
  split; [exact (al_pairs_eqb_eq _ _ C1)|]. split; [exact (al_is_nil_true _ C2)|]. split; [exact (al_strs_eqb_eq _ _ C3)|].
  split.
  { intros r Hr. pose proof (proj1 (forallb_forall _ _) D r Hr) as P. cbv beta in P. apply negb_true_iff in P. exact P. }
  split.
  { intros r Hr Hn Hres. pose proof (proj1 (forallb_forall _ _) E1 r Hr) as P. cbv beta in P. rewrite Hn, Hres in P. cbn [andb negb orb] in P. exact P. }
  apply existsb_exists in E2. destruct E2 as [s [Hs Es]]. apply String.eqb_eq in Es. subst s. exact Hs.
Qed.

(* C18: the pool model keeps every object as a value of its own ("every object of the pool owns its storage"):
   a step changes no existing object but the one it writes.  With the static premise the Go code has the same
   reading: what a call returns is memory of its own, what it is given it does not keep, so that the objects of
   the implementation are separate exactly as the objects of the pool are. *)
Theorem alias_static_no_shared_storage :
  alias_ok = true ->
  ((forall r, In r foot_api -> c18_named r = true -> api_is_result r = true ->
              api_clean r = true \/ keeps_only_a_collator r = true) /\
   filter (fun r => negb (api_clean r)) foot_api = expected_api_exceptions /\
   foot_storage_writes = expected_storage_writes /\ foot_field_sets = [] /\
   (forall r, In r foot_api -> contains shared_elements_phrase (api_verdict r) = false)) /\
  (forall (zero : val) (p : pool) (o : op) (p' : pool) (r : ret),
     step zero p o = (p', r) ->
     (length p <= length p' <= S (length p))%nat /\
     (forall i : nat, (i < length p)%nat -> writes o <> Some i -> nth i p' ODead = nth i p ODead)).
Proof.
  intros H. destruct (alias_ok_meaning H) as [A [B [C [D [_ [E _]]]]]].
  split; [repeat split; assumption|]. exact step_frame.
Qed.

(* C17: an iterator works on a snapshot that nobody writes: in the model no move changes it; in the code the array
   of an iterator is never written after the constructor (publish-once) and every GetIterator builds it afresh *)
Theorem alias_static_iterator_snapshot :
  alias_ok = true ->
  (In iterator_values_field foot_publish_once /\
   (forall r, In r foot_api -> ends_with get_iterator_suffix (api_fun r) = true -> api_is_result r = true -> api_clean r = true)) /\
  (forall (A : Type) (zero : A) (i : iter A) (ms : list move), it_vals (walk A zero i ms) = it_vals i).
Proof.
  intros H. destruct (alias_ok_meaning H) as [_ [_ [_ [_ [_ [_ [E P]]]]]]].
  split; [split; assumption|]. exact C17_snapshot.
Qed.
