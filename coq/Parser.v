(* Parser.v — model of v4/cdcn/parser.go (definitions only, no proofs).

   State: the push-back stack next_ (head = top) and the tokens not yet read from the
   queue.  Every parse* method is transcribed with its getNextToken/putBack discipline,
   the token it returns for diagnostics, and its panics.  The recursion of the code goes
   through parseCollection only, so all other methods are defined over an abstract
   [pcoll] (the recursive call) and [parse_collection] ties the knot on fuel.

   The model is parametric in two functions (Section variables, instantiated by the correspondence):
     fparse : strconv.ParseFloat as an oracle (Literals.v);
     crank  : the default collator's RankValues on two parsed values, None = it panics
              (depth limit) — used only by the Set constructor.
   The model is of the REPAIRED parser (fixes/*.patch): parseItems hands on the token of
   its last attempt, conversion errors and a value list under (Catalog)/(Map) are located
   diagnostics, and ParseSource drains the scanner before it returns or panics. *)
From Coq Require Import String.
From Verif Require Import Base Params Value Coll Lexer Literals.
Close Scope string_scope.
Open Scope Z_scope.

Inductive rkind :=
| RPushOverflow      (* putBack on a full push-back stack: Stack.AddValue panics *)
| RStarved           (* getNextToken with nothing left: RemoveHead would block forever *)
| RUnknownType.      (* "Found an unknown collection type" *)

Inductive outcome :=
| PValue (v : val)
| PSyntax (t : token)         (* the diagnostic names this token, its line and position *)
| PRuntime (k : rkind)
| POutOfFuel.

Record pstate := mkSt { pb : list token; rest : list token }.

Inductive pres (A : Type) :=
| Yes (a : A) (t : token) (s : pstate)     (* ok = true *)
| No (t : token) (s : pstate)              (* ok = false: not this construct *)
| Stop (o : outcome).                      (* panic *)
Arguments Yes {A} a t s.
Arguments No {A} t s.
Arguments Stop {A} o.

Definition stack_cap : nat := Z.to_nat Params.parser_stack_size.

(* getNextToken *)
Definition get_next (s : pstate) : token * pstate + outcome :=
  match pb s with
  | t :: p => inl (t, mkSt p (rest s))
  | [] =>
    match rest s with
    | [] => inr (PRuntime RStarved)
    | t :: r =>
      match ttype_of t with
      | TError => inr (PSyntax t)
      | _ => inl (t, mkSt [] r)
      end
    end
  end.

(* putBack *)
Definition put_back (t : token) (s : pstate) : pstate + outcome :=
  if (stack_cap <=? length (pb s))%nat then inr (PRuntime RPushOverflow)
  else inl (mkSt (t :: pb s) (rest s)).

(* parseToken(expectedType, expectedValue); [want = None] is the unconstrained "" *)
Definition parse_token (ty : ttype) (want : option (list Z)) (s : pstate) : pres (list Z) :=
  match get_next s with
  | inr o => Stop o
  | inl (t, s1) =>
    let value_ok := match want with None => true | Some w => list_eqb Z.eqb (tval t) w end in
    if ttype_eqb (ttype_of t) ty && value_ok then Yes (tval t) t s1
    else match put_back t s1 with
         | inr o => Stop o
         | inl s2 => No t s2
         end
  end.

Definition delim (c : Z) : option (list Z) := Some [c].

Section Model.
Variable fparse : list Z -> option Z.
Variable crank : val -> val -> option comparison.

(* ---------- collection constructors used by parseCollection ---------- *)

(* Set.AddValue with the binary search of set.go (Coll.find_index_loop) over a ranking
   that may panic; None = the collator panicked *)
Fixpoint set_find (fuel : nat) (l : list val) (v : val) (first last size : nat) : option (nat * bool) :=
  if (size =? 0)%nat then Some (last, false) else
  match fuel with
  | O => Some (last, false)     (* unreachable: size halves every round *)
  | S f =>
    let middle := (first + size / 2)%nat in
    match crank v (nth (middle - 1) l VNil) with
    | Some Lt => set_find f l v first (middle - 1)%nat (middle - first)%nat
    | Some Eq => Some (middle, true)
    | Some Gt => set_find f l v (middle + 1)%nat last (last - middle)%nat
    | None => None
    end
  end.
Definition set_add1 (l : list val) (v : val) : option (list val) :=
  match set_find (S (length l)) l v 1 (length l) (length l) with
  | Some (slot, false) => Some (firstn slot l ++ v :: skipn slot l)
  | Some (_, true) => Some l
  | None => None
  end.
Fixpoint set_build (acc : list val) (items : list val) : option (list val) :=
  match items with
  | [] => Some acc
  | v :: r => match set_add1 acc v with Some acc' => set_build acc' r | None => None end
  end.

(* Map.SetValue is a Go map assignment: for keys held in an interface the runtime also
   overwrites the stored key (it matters for 0.0 / -0.0 only) *)
Fixpoint m_set (m : list (val * val)) (k v : val) : list (val * val) :=
  match m with
  | [] => [(k, v)]
  | (k', v') :: t => if keq k k' then (k, v) :: t else (k', v') :: m_set t k v
  end.

(* every item is an association: its key/value pairs *)
Fixpoint as_pairs (items : list val) : option (list (val * val)) :=
  match items with
  | [] => Some []
  | VAssoc k v :: r => option_map (cons (k, v)) (as_pairs r)
  | _ :: _ => None
  end.

Inductive built := BVal (v : val) | BNotAssociations | BCollator | BUnknown.

Definition build (context : list Z) (items : list val) : built :=
  if list_eqb Z.eqb context (zs "Array") then BVal (VSeq KArray items)
  else if list_eqb Z.eqb context (zs "Catalog") then
    match as_pairs items with
    | Some kvs => let m := a_set_all keq [] kvs in BVal (VMapping MCatalog (map fst m) (map snd m))
    | None => BNotAssociations
    end
  else if list_eqb Z.eqb context (zs "Map") then
    match as_pairs items with
    | Some kvs => let m := fold_left (fun acc kv => m_set acc (fst kv) (snd kv)) kvs [] in
                  BVal (VMapping MMap (map fst m) (map snd m))
    | None => BNotAssociations
    end
  else if list_eqb Z.eqb context (zs "List") then BVal (VSeq KList items)
  else if list_eqb Z.eqb context (zs "Queue") then BVal (VSeq KQueue items)
  else if list_eqb Z.eqb context (zs "Set") then
    match set_build [] items with Some l => BVal (VSeq KSet l) | None => BCollator end
  else if list_eqb Z.eqb context (zs "Stack") then BVal (VSeq KStack items)
  else BUnknown.

(* ---------- parseIntrinsic ---------- *)
Definition intrinsic_types : list ttype :=
  [TBoolean; TComplex; TFloat; THexadecimal; TInteger; TNil; TRune; TString].

(* tries the token types in turn; [last] is the result of the previous failed attempt *)
Fixpoint parse_intrinsic_from (tys : list ttype) (last : pres val) : pres val :=
  match tys with
  | [] => last
  | ty :: r =>
    match last with
    | No _ s =>
      match parse_token ty None s with
      | Yes text t s1 =>
        match literal_value fparse ty text with
        | Some v => Yes v t s1
        | None => Stop (PSyntax t)
        end
      | No t s1 => parse_intrinsic_from r (No t s1)
      | Stop o => Stop o
      end
    | other => other
    end
  end.
(* the dummy token of the initial [No] is never returned: the list of types is not empty *)
Definition parse_intrinsic (s : pstate) : pres val :=
  parse_intrinsic_from intrinsic_types (No (mkTok TError [] 0 0) s).

(* ---------- parseContext: the token handed on is the type token ---------- *)
Definition parse_context (s : pstate) : pres (list Z) :=
  match parse_token TDelimiter (delim 40) s with
  | Stop o => Stop o
  | No t s1 => No t s1
  | Yes _ _ s1 =>
    match parse_token TType None s1 with
    | Stop o => Stop o
    | No t _ => Stop (PSyntax t)
    | Yes context tyt s2 =>
      match parse_token TDelimiter (delim 41) s2 with
      | Stop o => Stop o
      | No t _ => Stop (PSyntax t)
      | Yes _ _ s3 => Yes context tyt s3
      end
    end
  end.

Section Knot.
(* the recursive call: parseCollection one level down *)
Variable pcoll : pstate -> pres val.

Definition parse_value (s : pstate) : pres val :=
  match parse_intrinsic s with
  | Yes v t s1 => Yes v t s1
  | Stop o => Stop o
  | No _ s1 => pcoll s1
  end.

Definition parse_association (s : pstate) : pres (val * val) :=
  match parse_intrinsic s with           (* parseKey *)
  | Stop o => Stop o
  | No t s1 => No t s1
  | Yes key kt s1 =>
    match parse_token TDelimiter (delim 58) s1 with
    | Stop o => Stop o
    | No _ s2 =>
      match put_back kt s2 with
      | inr o => Stop o
      | inl s3 => No kt s3
      end
    | Yes _ _ s2 =>
      match parse_value s2 with
      | Stop o => Stop o
      | No t _ => Stop (PSyntax t)
      | Yes v t s3 => Yes (key, v) t s3
      end
    end
  end.

(* the loop of parseInlineAssociations after the first association *)
Fixpoint inline_assocs_loop (fuel : nat) (cat : list (val * val)) (s : pstate) : pres (list (val * val)) :=
  match fuel with
  | O => Stop POutOfFuel
  | S f =>
    match parse_token TDelimiter (delim 44) s with
    | Stop o => Stop o
    | No t s1 => Yes cat t s1
    | Yes _ _ s1 =>
      match parse_association s1 with
      | Stop o => Stop o
      | No t _ => Stop (PSyntax t)
      | Yes (k, v) _ s2 => inline_assocs_loop f (a_set keq cat k v) s2
      end
    end
  end.
Definition parse_inline_associations (fuel : nat) (s : pstate) : pres (list (val * val)) :=
  match parse_association s with
  | Stop o => Stop o
  | No t s1 => No t s1
  | Yes (k, v) _ s1 => inline_assocs_loop fuel (a_set keq [] k v) s1
  end.

(* the loop of parseMultilineAssociations after the first association *)
Fixpoint multi_assocs_loop (fuel : nat) (cat : list (val * val)) (s : pstate) : pres (list (val * val)) :=
  match fuel with
  | O => Stop POutOfFuel
  | S f =>
    match parse_token TEOL None s with
    | Stop o => Stop o
    | No t _ => Stop (PSyntax t)
    | Yes _ _ s1 =>
      match parse_association s1 with
      | Stop o => Stop o
      | No t s2 => Yes cat t s2
      | Yes (k, v) _ s2 => multi_assocs_loop f (a_set keq cat k v) s2
      end
    end
  end.
Definition parse_multiline_associations (fuel : nat) (s : pstate) : pres (list (val * val)) :=
  match parse_token TEOL None s with
  | Stop o => Stop o
  | No t s1 => No t s1
  | Yes _ eol s1 =>
    match parse_association s1 with
    | Stop o => Stop o
    | No t s2 =>
      match put_back eol s2 with
      | inr o => Stop o
      | inl s3 => No t s3
      end
    | Yes (k, v) _ s2 => multi_assocs_loop fuel (a_set keq [] k v) s2
    end
  end.

Definition parse_associations (fuel : nat) (s : pstate) : pres (list (val * val)) :=
  match parse_token TDelimiter (delim 58) s with
  | Stop o => Stop o
  | Yes _ t s1 => Yes [] t s1
  | No _ s1 =>
    match parse_inline_associations fuel s1 with
    | Stop o => Stop o
    | Yes c t s2 => Yes c t s2
    | No _ s2 => parse_multiline_associations fuel s2
    end
  end.

Fixpoint inline_values_loop (fuel : nat) (acc : list val) (s : pstate) : pres (list val) :=
  match fuel with
  | O => Stop POutOfFuel
  | S f =>
    match parse_token TDelimiter (delim 44) s with
    | Stop o => Stop o
    | No t s1 => Yes acc t s1
    | Yes _ _ s1 =>
      match parse_value s1 with
      | Stop o => Stop o
      | No t _ => Stop (PSyntax t)
      | Yes v _ s2 => inline_values_loop f (acc ++ [v]) s2
      end
    end
  end.
Definition parse_inline_values (fuel : nat) (s : pstate) : pres (list val) :=
  match parse_value s with
  | Stop o => Stop o
  | No t s1 => No t s1
  | Yes v _ s1 => inline_values_loop fuel [v] s1
  end.

Fixpoint multi_values_loop (fuel : nat) (acc : list val) (s : pstate) : pres (list val) :=
  match fuel with
  | O => Stop POutOfFuel
  | S f =>
    match parse_token TEOL None s with
    | Stop o => Stop o
    | No t _ => Stop (PSyntax t)
    | Yes _ _ s1 =>
      match parse_value s1 with
      | Stop o => Stop o
      | No t s2 => Yes acc t s2
      | Yes v _ s2 => multi_values_loop f (acc ++ [v]) s2
      end
    end
  end.
Definition parse_multiline_values (fuel : nat) (s : pstate) : pres (list val) :=
  match parse_token TEOL None s with
  | Stop o => Stop o
  | No t s1 => No t s1
  | Yes _ _ s1 =>
    match parse_value s1 with
    | Stop o => Stop o
    | No t _ => Stop (PSyntax t)
    | Yes v _ s2 => multi_values_loop fuel [v] s2
    end
  end.

Definition parse_values (fuel : nat) (s : pstate) : pres (list val) :=
  match parse_token TDelimiter (delim 93) s with
  | Stop o => Stop o
  | Yes _ t s1 =>
    match put_back t s1 with
    | inr o => Stop o
    | inl s2 => Yes [] t s2
    end
  | No _ s1 =>
    match parse_inline_values fuel s1 with
    | Stop o => Stop o
    | Yes l t s2 => Yes l t s2
    | No _ s2 => parse_multiline_values fuel s2
    end
  end.

Definition parse_items (fuel : nat) (s : pstate) : pres (list val) :=
  match parse_associations fuel s with
  | Stop o => Stop o
  | Yes c t s1 => Yes (map (fun kv => VAssoc (fst kv) (snd kv)) c) t s1
  | No _ s1 => parse_values fuel s1
  end.

Definition parse_sequence (fuel : nat) (s : pstate) : pres (list val) :=
  match parse_token TDelimiter (delim 91) s with
  | Stop o => Stop o
  | No t s1 => No t s1
  | Yes _ _ s1 =>
    match parse_items fuel s1 with
    | Stop o => Stop o
    | No t _ => Stop (PSyntax t)
    | Yes items _ s2 =>
      match parse_token TDelimiter (delim 93) s2 with
      | Stop o => Stop o
      | No t _ => Stop (PSyntax t)
      | Yes _ t s3 => Yes items t s3
      end
    end
  end.

Definition parse_collection_body (fuel : nat) (s : pstate) : pres val :=
  match parse_sequence fuel s with
  | Stop o => Stop o
  | No t s1 => No t s1
  | Yes items _ s1 =>
    match parse_context s1 with
    | Stop o => Stop o
    | No t _ => Stop (PSyntax t)
    | Yes context tyt s2 =>
      match build context items with
      | BVal v => Yes v tyt s2
      | BNotAssociations => Stop (PSyntax tyt)
      | BCollator => Stop (PSyntax tyt)        (* fix 37: the Set constructor's panic is a diagnostic at the type token *)
      | BUnknown => Stop (PRuntime RUnknownType)
      end
    end
  end.
End Knot.

(* parseCollection: the loops inside one level get the same fuel as the nesting *)
Fixpoint parse_collection (fuel : nat) (s : pstate) : pres val :=
  match fuel with
  | O => Stop POutOfFuel
  | S f => parse_collection_body (parse_collection f) fuel s
  end.

(* ParseSource after the scanner: Collection EOL* EOF *)
Fixpoint trailing_eols (fuel : nat) (s : pstate) : pstate + outcome :=
  match fuel with
  | O => inr POutOfFuel
  | S f =>
    match parse_token TEOL None s with
    | Stop o => inr o
    | No _ s1 => inl s1
    | Yes _ _ s1 => trailing_eols f s1
    end
  end.

Definition parse_tokens (ts : list token) : outcome :=
  let fuel := S (length ts) in
  match parse_collection fuel (mkSt [] ts) with
  | Stop o => o
  | No t _ => PSyntax t
  | Yes v _ s1 =>
    match trailing_eols fuel s1 with
    | inr o => o
    | inl s2 =>
      match parse_token TEOF None s2 with
      | Stop o => o
      | No t _ => PSyntax t
      | Yes _ _ _ => PValue v
      end
    end
  end.

Definition parse_source (src : list Z) : outcome := parse_tokens (lex src).

End Model.

Definition is_value (o : outcome) : bool := match o with PValue _ => true | _ => false end.
Definition is_syntax (o : outcome) : bool := match o with PSyntax _ => true | _ => false end.
