(* GenC20r.v — LATE file of C20 (compiled in parallel with the other GenC20*.v): the regenerated Array constructor IS the model
   Facade.v for every element type and every argument list (size as int / uint incl. 0, Go array incl. empty, sequence,
   source: Make(size), then SetValue(index, value) for index = 1, 2, ...). *)
From Coq Require Import String.
From Verif Require Import Base Sorter Value Seq Coll Pool PoolRun Params SetProofs AssocProofs Facade FacadeProofs ModuleLang ModuleSem ModuleFacts ModuleTactics GenModule.
Open Scope Z_scope.
Open Scope list_scope.

Definition env_array (s : slots) (scr : list mval) : menv :=
  [MArgV ANotation; MZ (s_size s); MB (s_has_size s); opt_slice (s_values s); opt_seq (s_seq s); src_of s] ++ scr.

Lemma to_uint_of_nat : forall n, to_uint (Z.of_nat n) = Z.of_nat n.
Proof. intros n. unfold to_uint. destruct (Z.ltb_spec (Z.of_nat n) 0); [lia|reflexivity]. Qed.

Local Opaque class_ctor as_type fold_loop.
Lemma array_step : forall args0 tk tv f s scr a, size_ok a -> length scr = 9%nat ->
  exists scr', length scr' = 9%nat /\
    exec args0 (10 + f) (with_argument (ctx0 tk tv) a) (env_array s scr) (loop_body gen_Array) =
    match accept FArray s a with Some s' => RNormal (env_array s' scr') | None => RPanic end.
Proof. intros args0 tk tv f s scr a Ha L. explode scr 9. step_tac scr a Ha 9 9%nat. Qed.

Local Opaque ranker rk_default set_add_all set_add convert_all convert_pairs array_fill zero_of parsed_items.

(* one statement, without unfolding the size arithmetic (the size of the parsed collection is symbolic) *)
Ltac xstep_b :=
  rewrite exec_cons;
  match goal with
  | |- context [exec1 ?a ?r ?c ?e ?s] =>
    let R := fresh "R" in let HR := fresh "HR" in
    remember r as R eqn:HR;
    let v := eval lazy -[Z.of_nat Z.to_nat to_uint length repeat] in (exec1 a R c e s) in change (exec1 a R c e s) with v;
    rewrite HR; clear HR R
  end; cbv beta iota.
Ltac to_loop_b := repeat first [ timeout 20 xstep_b | progress (rewrite ?to_uint_of_nat, ?Nat2Z.id; class_vals) | progress cbv beta iota ].
Ltac to_loop_arr := to_loop.
Ltac leaf_arr := cbn [plus]; timeout 60 to_loop_arr; after_loop.
Ltac seq_cases_arr pv :=
  destruct pv; match goal with |- context [PColl (VSeq ?k _)] => destruct k; match goal with |- context [VSeq KSlice] => leaf_arr | |- _ => idtac end | |- _ => leaf_arr end.

Lemma array_post : forall args0 tk tv f s scr, length scr = 9%nat ->
  result_of (exec args0 (30 + f) (ctx0 tk tv) (env_array s scr) (post_body gen_Array)) =
  out_map FO (out_map FObj (finish_array tv s)).
Proof.
  intros args0 tk tv f s scr L. explode scr 9. destruct s as [sz hs vals sq txt prs cl asc mp asq].
  unfold env_array, src_of, opt_slice, opt_seq. cbn [s_size s_has_size s_values s_seq s_text s_parsed app]. norm_body.
  destruct hs;
   (destruct sz as [|?p|?p]; [ | leaf_arr | ];
    (destruct vals as [[|?v ?l]|]; [ | leaf_arr | ];
     (destruct sq as [?l|]; [leaf_arr|];
      (destruct txt as [|?ch ?t]; [leaf_arr|];
       (destruct prs as [?pv|]; [|leaf_arr]))))).
  all: cbn [plus]; do 3 (timeout 20 xstep); timeout 60 to_loop_b; timeout 30 rhs_open_keep.
  all: destruct (parsed_items (PColl pv)) as [items|]; [|timeout 60 fin2].
  all: timeout 60 to_loop_b.
  all: timeout 30 (match goal with |- context [fold_loop ?st ?its ?env] => erewrite (array_loop _ _ _ _ _ _ _ st its (fun x e => eq_refl)); [ | cbn; congruence | cbn; congruence | cbn; congruence | cbn; lia | cbn; lia | cbn; lia | reflexivity | reflexivity ] end).
  all: timeout 20 rhs_open.
  all: match goal with |- context [array_fill ?a ?b ?c ?d] => destruct (array_fill a b c d) end.
  all: timeout 30 fin2.
  Unshelve. all: try exact O. all: try exact [].
Qed.

Theorem gen_Array_is_the_model : forall tk tv args, Forall size_ok args ->
  run_ctor gen_Array tk tv args = out_map FO (facade FArray tk tv args).
Proof. ctor_main gen_Array FArray env_array 9%nat array_step array_post. Qed.

Print Assumptions gen_Array_is_the_model.
