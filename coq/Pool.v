(* Pool.v — the API-history interpreter ("pool model").
   State: a pool of objects (caller-owned Go slices and maps, the seven collection kinds,
   iterators).  An op names pool slots; [step] returns the new pool and the call's result.
   New objects are appended at the end of the pool.  Operands may be the receiver itself.
   Definitions only (no proofs): this file is what the correspondence check executes. *)
From Verif Require Import Base Sorter Value Seq Coll CollP Params.
Open Scope Z_scope.

Inductive ckind := CArray | CList | CSet | CStack | CQueue | CCatalog | CMap.

Inductive obj :=
| OSlice (l : list val)                 (* caller-owned Go slice *)
| OGoMap (m : list (val * val))         (* caller-owned Go map (order irrelevant) *)
| OArr (l : list val)
| OLst (l : list val)
| OSet (c : nat) (l : list val)         (* c: collator id *)
| OSetL (m : nat) (l : list val)        (* a Set whose collator is the default order with maximum traversal depth m:
                                           it panics on values nested deeper (round 3) *)
| OStk (cap : nat) (l : list val)
| OQue (cap : nat) (l : list val)
| OCat (m : list (val * val))
| OMap (m : list (val * val))           (* insertion order kept by the model; compared as unordered *)
| OIter (z : val) (snap : list val) (slot : nat)
| ODead.

Definition pool := list obj.

Inductive ret :=
| RUnit | RVal (v : val) | RBool (b : bool) | RInt (z : Z) | RNew
| RPanic | RHang
| RPartial   (* round 5: the call panicked PART WAY through a bulk argument; what it did before the panic remains *)
| RBad.     (* ill-typed op or inconsistent oracle: never equal to an observation *)

(* the class functions, for calls with a nil operand *)
Inductive cfun := FConcat | FAnd | FOr | FSans | FXor | FMerge | FExtract.

Inductive op :=
| NewSlice (l : list val)
| SliceSet (s i : nat) (v : val)
| NewGoMap (m : list (val * val))
| GoMapSet (s : nat) (k v : val)
| GoMapDel (s : nat) (k : val)
| MakeArr (n : nat)
| MakeEmpty (k : ckind)
| MakeCap (k : ckind) (cap : nat)
| MakeSetColl (c : nat)
| FromArray (k : ckind) (src : nat)
| FromSeq (k : ckind) (src : nat) (okeys : list val)
| FromMap (k : ckind) (src : nat) (okeys : list val)
| Concat (a b : nat) | SAnd (a b : nat) | SOr (a b : nat) | SSans (a b : nat) | SXor (a b : nat)
| Merge (a b : nat) | Extract (c keys : nat)
| GetValue (o : nat) (i : Z) | GetValues (o : nat) (i j : Z)
| SetValue (o : nat) (i : Z) (v : val) | SetValues (o : nat) (i : Z) (src : nat)
| InsertValue (o slot : nat) (v : val) | InsertValues (o slot src : nat)
| AppendValue (o : nat) (v : val) | AppendValues (o src : nat)
| RemoveValue (o : nat) (i : Z) | RemoveValues (o : nat) (i j : Z) | RemoveAll (o : nat)
| ContainsValue (o : nat) (v : val) | ContainsAny (o src : nat) | ContainsAll (o src : nat)
| GetIndex (o : nat) (v : val)
| SortValues (o : nat) | SortWith (o rk : nat) | ReverseValues (o : nat) | ShuffleValues (o : nat) (rs : list nat)
| AddValue (o : nat) (v : val) | AddValues (o src : nat) | DelValue (o : nat) (v : val) | DelValues (o src : nat)
| Push (o : nat) (v : val) | Pop (o : nat) | GetCapacity (o : nat)
| AGet (o : nat) (k : val) | ASet (o : nat) (k v : val) | AKeys (o : nat) (okeys : list val)
| AGetValues (o keys : nat) | ARemove (o : nat) (k : val) | ARemoveValues (o keys : nat)
| AsArray (o : nat) (okeys : list val) | GetIterator (o : nat) (okeys : list val)
| GetSize (o : nat) | IsEmpty (o : nat)
| INext (i : nat) | IPrev (i : nat) | IHasNext (i : nat) | IHasPrev (i : nat)
| IToStart (i : nat) | IToEnd (i : nat) | IToSlot (i : nat) (k : Z)
| IGetSlot (i : nat) | IGetSize (i : nat) | IIsEmpty (i : nat)
(* round 3 *)
| MakeSetLim (m : nat)                       (* Set.MakeWithCollator(Collator.MakeWithMaximum(m)) *)
| SortSlice (s rk : nat)                     (* a sorter INSTANCE with ranker rk sorts the caller's Go array in place *)
| AssocSet (s i : nat) (v : val)             (* the caller calls SetValue(v) on the association OBJECT at position i of its Go array s *)
| NilCall (f : cfun) (a : nat) (nil_first : bool)
(* round 5 *)
| ABadKey (o : nat)                               (* GetValue / SetValue / RemoveValue / GetValues of an any-keyed Catalog or Map with an UNHASHABLE key (a Go slice under any): the Go runtime panics at the lookup *)
| ARemoveValuesBad (o : nat) (ks : list val)      (* RemoveValues(ks ++ [unhashable key] ++ ...): the keys ks are removed one by one, then the lookup of the unhashable key panics *)
| FromMapV (k : ckind) (src : nat) (opairs : list (val * val)).  (* MakeFromMap of a Go map that may hold keys not equal to themselves (NaN): the oracle is the order of the PAIRS *)  (* class function f with operand a and a nil interface as the other operand *)

(* ---------- the collators and rankers used by histories ---------- *)
Definition cmax : nat := Z.to_nat collator_default_maximum.

(* default collator on values that stay far below the depth limit *)
Definition rk_default (a b : val) : comparison :=
  match rank0 cmax a b with R c => c | _ => Eq end.
Definition eq_default (a b : val) : bool :=
  match compare0 cmax a b with R c => c | _ => false end.
(* coarse: integers by floor(x/4), strings by length, everything else by the default order *)
Definition rk_coarse (a b : val) : comparison :=
  match a, b with
  | VInt _ x, VInt _ y => Z.compare (x / 4) (y / 4)
  | VStr s, VStr t => Nat.compare (length s) (length t)
  | _, _ => rk_default a b
  end.
(* deliberately inconsistent pseudo-random ranker on integers *)
Definition rk_random (a b : val) : comparison :=
  match a, b with
  | VInt _ x, VInt _ y =>
    match ((x mod 97) * 31 + (y mod 97) * 17 + 7) mod 3 with 0 => Lt | 1 => Eq | _ => Gt end
  | _, _ => Eq
  end.
Definition ranker (id : nat) : val -> val -> comparison :=
  match id with
  | 0%nat => rk_default
  | 1%nat => fun a b => rk_default b a
  | 2%nat => rk_coarse
  | 3%nat => fun _ _ => Eq
  | 4%nat => fun _ _ => Lt
  | 5%nat => fun _ _ => Gt
  | _ => rk_random
  end.

(* ---------- helpers ---------- *)
Definition assoc_vals (m : list (val * val)) : list val := map (fun kv => VAssoc (fst kv) (snd kv)) m.
Fixpoint vals_assoc (l : list val) : option (list (val * val)) :=
  match l with
  | [] => Some []
  | VAssoc k v :: t => option_map (cons (k, v)) (vals_assoc t)
  | _ :: _ => None
  end.

(* reorder an association list to follow the observed key order (an oracle for Go's map
   iteration order); None when okeys is not a permutation of the keys *)
Fixpoint reorder (m : list (val * val)) (okeys : list val) : option (list (val * val)) :=
  match okeys with
  | [] => match m with [] => Some [] | _ => None end
  | k :: ks =>
    match a_get keq m k with
    | Some v => option_map (cons (k, v)) (reorder (a_remove keq m k) ks)
    | None => None
    end
  end.

(* the Sequential view of an object: what its iterator / AsArray yields.
   Unordered maps use the oracle order. *)
Definition seq_view (o : obj) (okeys : list val) : option (list val) :=
  match o with
  | OArr l | OLst l | OSet _ l | OSetL _ l | OStk _ l | OQue _ l => Some l
  | OCat m => Some (assoc_vals m)
  | OMap m => option_map assoc_vals (reorder m okeys)
  | _ => None
  end.
Definition seq_plain (o : obj) : option (list val) := seq_view o [].

Definition get (p : pool) (i : nat) : obj := nth i p ODead.
Definition put (p : pool) (i : nat) (o : obj) : pool := set_nth i o p.
Definition push_obj (p : pool) (o : obj) : pool * ret := (p ++ [o], RNew).

(* the ranking of a depth-limited collator: None when the traversal exceeds the maximum (the call panics) *)
Definition rk_lim (m : nat) (a b : val) : option comparison :=
  match rank0 m a b with R c => Some c | _ => None end.
(* a Set operand of a class function: its collator as a ranking that may panic, and its values *)
Definition set_operand (o : obj) : option ((val -> val -> option comparison) * list val) :=
  match o with
  | OSet c l => Some (fun a b => Some (ranker c a b), l)
  | OSetL m l => Some (rk_lim m, l)
  | _ => None
  end.
(* a new Set with the collator of o *)
Definition set_like (o : obj) (l : list val) : obj :=
  match o with OSet c _ => OSet c l | OSetL m _ => OSetL m l | x => x end.

(* multiset equality of association lists (structural equality of keys and values, so two NaN keys with the same
   bits match each other although Go's == says they differ) *)
Definition pair_eqb (a b : val * val) : bool := val_eqb (fst a) (fst b) && val_eqb (snd a) (snd b).
Fixpoint remove_first_pair (x : val * val) (l : list (val * val)) : option (list (val * val)) :=
  match l with
  | [] => None
  | y :: t => if pair_eqb x y then Some t else option_map (cons y) (remove_first_pair x t)
  end.
Fixpoint pairs_perm (a b : list (val * val)) : bool :=
  match a with
  | [] => match b with [] => true | _ => false end
  | x :: a' => match remove_first_pair x b with Some b' => pairs_perm a' b' | None => false end
  end.

Definition default_stack_cap : nat := Z.to_nat stack_default_capacity.
Definition default_queue_cap : nat := Z.to_nat queue_default_capacity.

Section Step.
Variable zero : val.     (* zero value of the element (and key) type of this history *)

Definition of_out {T} (o : out T) (f : T -> pool * ret) (p : pool) : pool * ret :=
  match o with
  | Ret x => f x
  | Panic => (p, RPanic)
  | Hang => (p, RHang)
  end.

(* the contents list of an ordered collection and a way to write it back *)
Definition seq_contents (o : obj) : option (list val) :=
  match o with OArr l | OLst l => Some l | _ => None end.
Definition with_contents (o : obj) (l : list val) : obj :=
  match o with OArr _ => OArr l | OLst _ => OLst l | x => x end.

(* build a collection of kind k from a list of values (constructors from array/sequence) *)
Definition build (k : ckind) (l : list val) : out obj :=
  match k with
  | CArray => Ret (OArr l)
  | CList => Ret (OLst l)
  | CSet => out_map (OSet 0) (set_add_all zero rk_default [] l)
  | CStack => Ret (OStk (Nat.max default_stack_cap (length l)) l)
  | CQueue => Ret (OQue (Nat.max default_queue_cap (length l)) l)
  | CCatalog => match vals_assoc l with
                | Some kvs => Ret (OCat (a_set_all keq [] kvs))
                | None => Panic
                end
  | CMap => match vals_assoc l with
            | Some kvs => Ret (OMap (a_set_all keq [] kvs))
            | None => Panic
            end
  end.

Definition step (p : pool) (o : op) : pool * ret :=
  match o with
  | NewSlice l => push_obj p (OSlice l)
  | SliceSet s i v =>
    match get p s with
    | OSlice l => (put p s (OSlice (set_nth i v l)), RUnit)
    | _ => (p, RBad)
    end
  | NewGoMap m => push_obj p (OGoMap (a_set_all keq [] m))
  | GoMapSet s k v =>
    match get p s with
    | OGoMap m => (put p s (OGoMap (a_set keq m k v)), RUnit)
    | _ => (p, RBad)
    end
  | GoMapDel s k =>
    match get p s with
    | OGoMap m => (put p s (OGoMap (a_remove keq m k)), RUnit)
    | _ => (p, RBad)
    end
  | MakeArr n => push_obj p (OArr (repeat zero n))
  | MakeEmpty k =>
    match k with
    | CArray => push_obj p (OArr [])
    | CList => push_obj p (OLst [])
    | CSet => push_obj p (OSet 0 [])
    | CStack => push_obj p (OStk default_stack_cap [])
    | CQueue => push_obj p (OQue default_queue_cap [])
    | CCatalog => push_obj p (OCat [])
    | CMap => push_obj p (OMap [])
    end
  | MakeCap k cap =>
    match k with
    | CStack => if (cap =? 0)%nat then (p, RPanic) else push_obj p (OStk cap [])
    | CQueue => push_obj p (OQue (if (cap =? 0)%nat then default_queue_cap else cap) [])
    | _ => (p, RBad)
    end
  | MakeSetColl c => push_obj p (OSet c [])
  | FromArray k src =>
    match get p src with
    | OSlice l => of_out (build k l) (push_obj p) p
    | _ => (p, RBad)
    end
  | FromSeq k src okeys =>
    match seq_view (get p src) okeys with
    | Some l => of_out (build k l) (push_obj p) p
    | None => (p, RBad)
    end
  | FromMap k src okeys =>
    match get p src with
    | OGoMap m =>
      match reorder m okeys, k with
      | Some m', CCatalog => push_obj p (OCat m')
      | Some m', CMap => push_obj p (OMap m')
      | _, _ => (p, RBad)
      end
    | _ => (p, RBad)
    end
  | Concat a b =>
    match get p a, get p b with
    | OLst x, OLst y => push_obj p (OLst (x ++ y))
    | _, _ => (p, RBad)
    end
  | SAnd a b =>
    match get p a, get p b with
    | OSet c1 x, OSet c2 y => of_out (set_and zero (ranker c1) (ranker c2) x y) (fun r => push_obj p (OSet c1 r)) p
    | oa, ob =>
      match set_operand oa, set_operand ob with
      | Some (r1, x), Some (r2, y) => of_out (set_and_p zero r1 r2 x y) (fun r => push_obj p (set_like oa r)) p
      | _, _ => (p, RBad)
      end
    end
  | SOr a b =>
    match get p a, get p b with
    | OSet c1 x, OSet c2 y => of_out (set_or zero (ranker c1) x y) (fun r => push_obj p (OSet c1 r)) p
    | oa, ob =>
      match set_operand oa, set_operand ob with
      | Some (r1, x), Some (r2, y) => of_out (set_or_p zero r1 x y) (fun r => push_obj p (set_like oa r)) p
      | _, _ => (p, RBad)
      end
    end
  | SSans a b =>
    match get p a, get p b with
    | OSet c1 x, OSet c2 y => of_out (set_sans zero (ranker c1) x y) (fun r => push_obj p (OSet c1 r)) p
    | oa, ob =>
      match set_operand oa, set_operand ob with
      | Some (r1, x), Some (r2, y) => of_out (set_sans_p zero r1 x y) (fun r => push_obj p (set_like oa r)) p
      | _, _ => (p, RBad)
      end
    end
  | SXor a b =>
    match get p a, get p b with
    | OSet c1 x, OSet c2 y => of_out (set_xor zero (ranker c1) (ranker c2) x y) (fun r => push_obj p (OSet c1 r)) p
    | oa, ob =>
      match set_operand oa, set_operand ob with
      | Some (r1, x), Some (r2, y) => of_out (set_xor_p zero r1 r2 x y) (fun r => push_obj p (set_like oa r)) p
      | _, _ => (p, RBad)
      end
    end
  | Merge a b =>
    match get p a, get p b with
    | OCat x, OCat y => push_obj p (OCat (a_merge keq x y))
    | _, _ => (p, RBad)
    end
  | Extract c keys =>
    match get p c, seq_plain (get p keys) with
    | OCat m, Some ks => push_obj p (OCat (a_extract keq m ks))
    | _, _ => (p, RBad)
    end
  | GetValue o i =>
    match seq_plain (get p o) with
    | Some l => of_out (get_value zero l i) (fun v => (p, RVal v)) p
    | None => (p, RBad)
    end
  | GetValues o i j =>
    match get p o with
    | OArr l | OLst l | OSet _ l | OSetL _ l => of_out (get_values l i j) (fun r => push_obj p (OArr r)) p
    | _ => (p, RBad)
    end
  | SetValue o i v =>
    match seq_contents (get p o) with
    | Some l => of_out (set_value l i v) (fun l' => (put p o (with_contents (get p o) l'), RUnit)) p
    | None => (p, RBad)
    end
  | SetValues o i src =>
    match seq_contents (get p o), seq_plain (get p src) with
    | Some l, Some s => of_out (set_values l i s) (fun l' => (put p o (with_contents (get p o) l'), RUnit)) p
    | _, _ => (p, RBad)
    end
  | InsertValue o slot v =>
    match get p o with
    | OLst l => of_out (insert_value l slot v) (fun l' => (put p o (OLst l'), RUnit)) p
    | _ => (p, RBad)
    end
  | InsertValues o slot src =>
    match get p o, seq_plain (get p src) with
    | OLst l, Some s => of_out (insert_values l slot s) (fun l' => (put p o (OLst l'), RUnit)) p
    | _, _ => (p, RBad)
    end
  | AppendValue o v =>
    match get p o with
    | OLst l => (put p o (OLst (l ++ [v])), RUnit)
    | _ => (p, RBad)
    end
  | AppendValues o src =>
    match get p o, seq_plain (get p src) with
    | OLst l, Some s => (put p o (OLst (l ++ s)), RUnit)
    | _, _ => (p, RBad)
    end
  | RemoveValue o i =>
    match get p o with
    | OLst l => of_out (remove_value zero l i) (fun r => (put p o (OLst (snd r)), RVal (fst r))) p
    | _ => (p, RBad)
    end
  | RemoveValues o i j =>
    match get p o with
    | OLst l => of_out (remove_values l i j)
                  (fun r => ((put p o (OLst (snd r))) ++ [OArr (fst r)], RNew)) p
    | _ => (p, RBad)
    end
  | RemoveAll o =>
    match get p o with
    | OLst _ => (put p o (OLst []), RUnit)
    | OSet c _ => (put p o (OSet c []), RUnit)
    | OSetL m _ => (put p o (OSetL m []), RUnit)
    | OStk cap _ => (put p o (OStk cap []), RUnit)
    | OQue cap _ => (put p o (OQue cap []), RUnit)
    | OCat _ => (put p o (OCat []), RUnit)
    | OMap _ => (put p o (OMap []), RUnit)
    | _ => (p, RBad)
    end
  | ContainsValue o v =>
    match get p o with
    | OLst l => (p, RBool (contains_value eq_default l v))
    | OSet c l => of_out (set_contains zero (ranker c) l v) (fun b => (p, RBool b)) p
    | OSetL m l => of_out (set_contains_p zero (rk_lim m) l v) (fun b => (p, RBool b)) p
    | _ => (p, RBad)
    end
  | ContainsAny o src =>
    match get p o, seq_plain (get p src) with
    | OLst l, Some s => (p, RBool (contains_any eq_default l s))
    | OSet c l, Some s => of_out (set_contains_any zero (ranker c) l s) (fun b => (p, RBool b)) p
    | OSetL m l, Some s => of_out (set_contains_any_p zero (rk_lim m) l s) (fun b => (p, RBool b)) p
    | _, _ => (p, RBad)
    end
  | ContainsAll o src =>
    match get p o, seq_plain (get p src) with
    | OLst l, Some s => (p, RBool (contains_all eq_default l s))
    | OSet c l, Some s => of_out (set_contains_all zero (ranker c) l s) (fun b => (p, RBool b)) p
    | OSetL m l, Some s => of_out (set_contains_all_p zero (rk_lim m) l s) (fun b => (p, RBool b)) p
    | _, _ => (p, RBad)
    end
  | GetIndex o v =>
    match get p o with
    | OLst l => (p, RInt (Z.of_nat (get_index eq_default l v)))
    | OSet c l => of_out (set_get_index zero (ranker c) l v) (fun n => (p, RInt (Z.of_nat n))) p
    | OSetL m l => of_out (set_get_index_p zero (rk_lim m) l v) (fun n => (p, RInt (Z.of_nat n))) p
    | _ => (p, RBad)
    end
  | SortValues o =>
    match get p o with
    | OArr l => (put p o (OArr (sort_values rk_default l)), RUnit)
    | OLst l => (put p o (OLst (sort_values rk_default l)), RUnit)
    | OCat m => match vals_assoc (sort_values rk_default (assoc_vals m)) with
                | Some m' => (put p o (OCat m'), RUnit)
                | None => (p, RBad)
                end
    | _ => (p, RBad)
    end
  | SortWith o rk =>
    match get p o with
    | OArr l => (put p o (OArr (sort_values (ranker rk) l)), RUnit)
    | OLst l => (put p o (OLst (sort_values (ranker rk) l)), RUnit)
    | OCat m => match vals_assoc (sort_values (ranker rk) (assoc_vals m)) with
                | Some m' => (put p o (OCat m'), RUnit)
                | None => (p, RBad)
                end
    | _ => (p, RBad)
    end
  | ReverseValues o =>
    match get p o with
    | OArr l => (put p o (OArr (reverse_values l)), RUnit)
    | OLst l => (put p o (OLst (reverse_values l)), RUnit)
    | OCat m => (put p o (OCat (reverse_values m)), RUnit)
    | _ => (p, RBad)
    end
  | ShuffleValues o rs =>
    match get p o with
    | OArr l => (put p o (OArr (shuffle_values rs l)), RUnit)
    | OLst l => (put p o (OLst (shuffle_values rs l)), RUnit)
    | OCat m => (put p o (OCat (shuffle_values rs m)), RUnit)
    | _ => (p, RBad)
    end
  | AddValue o v =>
    match get p o with
    | OSet c l => of_out (set_add zero (ranker c) l v) (fun l' => (put p o (OSet c l'), RUnit)) p
    | OSetL m l => of_out (set_add_p zero (rk_lim m) l v) (fun l' => (put p o (OSetL m l'), RUnit)) p
    | _ => (p, RBad)
    end
  | AddValues o src =>
    match get p o, seq_plain (get p src) with
    | OSet c l, Some s => of_out (set_add_all zero (ranker c) l s) (fun l' => (put p o (OSet c l'), RUnit)) p
    | _, _ => (p, RBad)
    end
  | DelValue o v =>
    match get p o with
    | OSet c l => of_out (set_remove zero (ranker c) l v) (fun l' => (put p o (OSet c l'), RUnit)) p
    | OSetL m l => of_out (set_remove_p zero (rk_lim m) l v) (fun l' => (put p o (OSetL m l'), RUnit)) p
    | _ => (p, RBad)
    end
  | DelValues o src =>
    match get p o, seq_plain (get p src) with
    | OSet c l, Some s => of_out (set_remove_all zero (ranker c) l s) (fun l' => (put p o (OSet c l'), RUnit)) p
    | _, _ => (p, RBad)
    end
  | Push o v =>
    match get p o with
    | OStk cap l => of_out (stack_push cap l v) (fun l' => (put p o (OStk cap l'), RUnit)) p
    | OQue cap l => if (length l <? cap)%nat then (put p o (OQue cap (l ++ [v])), RUnit) else (p, RHang)
    | _ => (p, RBad)
    end
  | Pop o =>
    match get p o with
    | OStk cap l => of_out (stack_pop l) (fun r => (put p o (OStk cap (snd r)), RVal (fst r))) p
    | OQue cap l => match l with
                    | [] => (p, RHang)
                    | x :: t => (put p o (OQue cap t), RVal x)
                    end
    | _ => (p, RBad)
    end
  | GetCapacity o =>
    match get p o with
    | OStk cap _ | OQue cap _ => (p, RInt (Z.of_nat cap))
    | _ => (p, RBad)
    end
  | AGet o k =>
    match get p o with
    | OCat m | OMap m => (p, RVal (a_get_or_zero zero keq m k))
    | _ => (p, RBad)
    end
  | ASet o k v =>
    match get p o with
    | OCat m => (put p o (OCat (a_set keq m k v)), RUnit)
    | OMap m => (put p o (OMap (a_set keq m k v)), RUnit)
    | _ => (p, RBad)
    end
  | AKeys o okeys =>
    match get p o with
    | OCat m => push_obj p (OLst (map fst m))
    | OMap m => match reorder m okeys with
                | Some m' => push_obj p (OArr (map fst m'))
                | None => (p, RBad)
                end
    | _ => (p, RBad)
    end
  | AGetValues o keys =>
    match get p o, seq_plain (get p keys) with
    | OCat m, Some ks => push_obj p (OLst (map (a_get_or_zero zero keq m) ks))
    | OMap m, Some ks => push_obj p (OArr (map (a_get_or_zero zero keq m) ks))
    | _, _ => (p, RBad)
    end
  | ARemove o k =>
    match get p o with
    | OCat m => (put p o (OCat (a_remove keq m k)), RVal (a_get_or_zero zero keq m k))
    | OMap m => (put p o (OMap (a_remove keq m k)), RVal (a_get_or_zero zero keq m k))
    | _ => (p, RBad)
    end
  | ARemoveValues o keys =>
    match get p o, seq_plain (get p keys) with
    | OCat m, Some ks => let r := a_remove_all zero keq m ks in
                         ((put p o (OCat (snd r))) ++ [OLst (fst r)], RNew)
    | OMap m, Some ks => let r := a_remove_all zero keq m ks in
                         ((put p o (OMap (snd r))) ++ [OArr (fst r)], RNew)
    | _, _ => (p, RBad)
    end
  | AsArray o okeys =>
    match seq_view (get p o) okeys with
    | Some l => push_obj p (OSlice l)
    | None => (p, RBad)
    end
  | GetIterator o okeys =>
    match get p o, seq_view (get p o) okeys with
    | OCat _, Some l | OMap _, Some l => push_obj p (OIter VNil l 0)
    | _, Some l => push_obj p (OIter zero l 0)
    | _, None => (p, RBad)
    end
  | GetSize o =>
    match get p o with
    | OMap m | OCat m => (p, RInt (Z.of_nat (length m)))
    | x => match seq_plain x with
           | Some l => (p, RInt (Z.of_nat (length l)))
           | None => (p, RBad)
           end
    end
  | IsEmpty o =>
    match get p o with
    | OMap m | OCat m => (p, RBool (length m =? 0)%nat)
    | x => match seq_plain x with
           | Some l => (p, RBool (length l =? 0)%nat)
           | None => (p, RBad)
           end
    end
  | INext i =>
    match get p i with
    | OIter z s k => let r := get_next z {| it_vals := s; it_slot := k |} in
                     (put p i (OIter z s (it_slot (snd r))), RVal (fst r))
    | _ => (p, RBad)
    end
  | IPrev i =>
    match get p i with
    | OIter z s k => let r := get_prev z {| it_vals := s; it_slot := k |} in
                     (put p i (OIter z s (it_slot (snd r))), RVal (fst r))
    | _ => (p, RBad)
    end
  | IHasNext i =>
    match get p i with
    | OIter z s k => (p, RBool (has_next {| it_vals := s; it_slot := k |}))
    | _ => (p, RBad)
    end
  | IHasPrev i =>
    match get p i with
    | OIter z s k => (p, RBool (has_prev {| it_vals := s; it_slot := k |}))
    | _ => (p, RBad)
    end
  | IToStart i =>
    match get p i with
    | OIter z s k => (put p i (OIter z s 0), RUnit)
    | _ => (p, RBad)
    end
  | IToEnd i =>
    match get p i with
    | OIter z s k => (put p i (OIter z s (length s)), RUnit)
    | _ => (p, RBad)
    end
  | IToSlot i n =>
    match get p i with
    | OIter z s k => (put p i (OIter z s (it_slot (to_slot {| it_vals := s; it_slot := k |} n))), RUnit)
    | _ => (p, RBad)
    end
  | IGetSlot i =>
    match get p i with
    | OIter z s k => (p, RInt (Z.of_nat k))
    | _ => (p, RBad)
    end
  | IGetSize i =>
    match get p i with
    | OIter z s k => (p, RInt (Z.of_nat (length s)))
    | _ => (p, RBad)
    end
  | IIsEmpty i =>
    match get p i with
    | OIter z s k => (p, RBool (length s =? 0)%nat)
    | _ => (p, RBad)
    end
  | MakeSetLim m => push_obj p (OSetL m [])
  | SortSlice s rk =>
    match get p s with
    | OSlice l => (put p s (OSlice (sort_values (ranker rk) l)), RUnit)
    | _ => (p, RBad)
    end
  | AssocSet s i v =>
    match get p s with
    | OSlice l =>
      match nth_error l i with
      | Some (VAssoc k _) => (put p s (OSlice (set_nth i (VAssoc k v) l)), RUnit)
      | _ => (p, RBad)
      end
    | _ => (p, RBad)
    end
  | ABadKey o =>
    match get p o with
    | OCat _ | OMap _ => (p, RPanic)
    | _ => (p, RBad)
    end
  | ARemoveValuesBad o ks =>
    match get p o with
    | OCat m => (put p o (OCat (snd (a_remove_all zero keq m ks))), RPartial)
    | OMap m => (put p o (OMap (snd (a_remove_all zero keq m ks))), RPartial)
    | _ => (p, RBad)
    end
  | FromMapV k src opairs =>
    (* the implementation's insertion order is an oracle; the pairs must be exactly those of the Go map, and the
       Catalog is what SetValue of each pair in that order builds (a key that is not equal to itself is a new
       association every time) *)
    match get p src with
    | OGoMap m =>
      if pairs_perm m opairs then
        match k with
        | CCatalog => push_obj p (OCat (a_set_all keq [] opairs))
        | CMap => push_obj p (OMap (a_set_all keq [] opairs))
        | _ => (p, RBad)
        end
      else (p, RBad)
    | _ => (p, RBad)
    end
  | NilCall f a nil_first =>
    (* every class function calls a method of the nil operand and panics, except And(first, nil) with an
       EMPTY first operand: its loop never reaches second.ContainsValue and it returns a new empty Set *)
    match f, nil_first, get p a with
    | FAnd, false, OSet c [] => push_obj p (OSet c [])
    | FAnd, false, OSetL m [] => push_obj p (OSetL m [])
    | _, _, _ => (p, RPanic)
    end
  end.

End Step.
