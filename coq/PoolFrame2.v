(* PoolFrame2.v — additions for C18 (PoolFrame.v is not changed): the frame theorem stated per
   API entry point that accepts or returns a Go array, Go map or sequence (DESIGN.md section 7 C18):
     - what the call produces (a NEW object at the fresh slot [length p], computed from the contents the
       argument has AT THE TIME OF THE CALL) and that the argument is not written by the call;
     - later writes through the argument (SliceSet / GoMapSet / GoMapDel / any mutator of the source
       collection) never change the product, and later writes through the product never change the argument.
   In a functional model these are cheap: the assurance that the Go code copies comes from the
   correspondence, whose generator follows every array-crossing call by writes through both sides. *)
From Verif Require Import Base Sorter Value Seq Coll Pool PoolFrame.
Local Open Scope nat_scope.

Local Opaque sort_values reverse_values shuffle_values set_and set_or set_sans set_xor set_add set_add_all
  set_remove set_remove_all set_contains set_contains_any set_contains_all set_get_index
  a_set a_remove a_merge a_extract a_remove_all a_set_all a_get_or_zero
  get_value get_values set_value set_values insert_value insert_values remove_value remove_values
  get_index contains_value contains_any contains_all stack_push stack_pop build reorder seq_view
  rank0 compare0 get_next get_prev to_slot.

(* a call that answers "new object" has appended exactly one object *)
Theorem new_object_is_appended : forall zero p o p', step zero p o = (p', RNew) -> length p' = S (length p).
Proof.
  intros zero p o p' H.
  destruct o; cbn [step] in H; unfold push_obj, of_out in H; brk;
    rewrite ?app_length, ?put_length; cbn [length]; lia.
Qed.

(* … and the objects that existed before are unchanged, except the receiver of RemoveValues *)
Theorem new_object_call_frame : forall zero p o p', step zero p o = (p', RNew) ->
  forall i, i < length p -> writes o <> Some i -> nth i p' ODead = nth i p ODead.
Proof. intros zero p o p' H. destruct (step_frame _ _ _ _ _ H) as [_ Hn]. exact Hn. Qed.

(* later operations that write only objects that existed before the call (the caller's slice or map,
   the source collection, …) never change the product *)
Theorem product_survives_writes_to_old_objects : forall zero p o p' ops,
  step zero p o = (p', RNew) ->
  (forall o' w, In o' ops -> writes o' = Some w -> w < length p) ->
  nth (length p) (run zero p' ops) ODead = nth (length p) p' ODead.
Proof.
  intros zero p o p' ops H Hops.
  pose proof (new_object_is_appended _ _ _ _ H) as L.
  apply run_frame; [lia|].
  intros o' Ho' E. specialize (Hops o' (length p) Ho' E). lia.
Qed.

(* later operations that do not address an old object [src] (e.g. every write through the product)
   leave it as it was BEFORE the call *)
Theorem source_survives_writes_to_the_product : forall zero p o p' ops src,
  step zero p o = (p', RNew) -> src < length p -> writes o <> Some src ->
  (forall o', In o' ops -> writes o' <> Some src) ->
  nth src (run zero p' ops) ODead = nth src p ODead.
Proof.
  intros zero p o p' ops src H Hs Hw Hops.
  pose proof (new_object_is_appended _ _ _ _ H) as L.
  rewrite run_frame; [|lia|exact Hops].
  apply (new_object_call_frame _ _ _ _ H); assumption.
Qed.

Local Transparent seq_view build.

(* ---------- the entry points, one by one: what is produced, from what ---------- *)
(* constructors from a Go slice *)
Theorem entry_from_array : forall zero p k src l, get p src = OSlice l ->
  writes (FromArray k src) = None /\
  step zero p (FromArray k src) =
    match build zero k l with Ret x => (p ++ [x], RNew) | Panic => (p, RPanic) | Hang => (p, RHang) end.
Proof.
  intros zero p k src l G. split; [reflexivity|]. cbn [step]. rewrite G. unfold of_out, push_obj.
  destruct (build zero k l); reflexivity.
Qed.

(* constructors from another sequence *)
Theorem entry_from_sequence : forall zero p k src okeys l, seq_view (get p src) okeys = Some l ->
  writes (FromSeq k src okeys) = None /\
  step zero p (FromSeq k src okeys) =
    match build zero k l with Ret x => (p ++ [x], RNew) | Panic => (p, RPanic) | Hang => (p, RHang) end.
Proof.
  intros zero p k src okeys l G. split; [reflexivity|]. cbn [step]. rewrite G. unfold of_out, push_obj.
  destruct (build zero k l); reflexivity.
Qed.

(* constructors from a Go map *)
Theorem entry_from_map : forall zero p src okeys m m', get p src = OGoMap m -> reorder m okeys = Some m' ->
  writes (FromMap CMap src okeys) = None /\ writes (FromMap CCatalog src okeys) = None /\
  step zero p (FromMap CMap src okeys) = (p ++ [OMap m'], RNew) /\
  step zero p (FromMap CCatalog src okeys) = (p ++ [OCat m'], RNew).
Proof.
  intros zero p src okeys m m' G R. split; [reflexivity|]. split; [reflexivity|].
  cbn [step]. rewrite G, R. split; reflexivity.
Qed.

(* AsArray: a new Go slice holding the Sequential view *)
Theorem entry_as_array : forall zero p o okeys l, seq_view (get p o) okeys = Some l ->
  writes (AsArray o okeys) = None /\ step zero p (AsArray o okeys) = (p ++ [OSlice l], RNew).
Proof. intros zero p o okeys l G. split; [reflexivity|]. cbn [step]. rewrite G. reflexivity. Qed.

(* GetValues: a new Array holding the range *)
Theorem entry_get_values : forall zero p o i j l,
  (get p o = OLst l \/ get p o = OArr l \/ exists c, get p o = OSet c l) ->
  writes (GetValues o i j) = None /\
  step zero p (GetValues o i j) =
    match get_values l i j with Ret r => (p ++ [OArr r], RNew) | Panic => (p, RPanic) | Hang => (p, RHang) end.
Proof.
  intros zero p o i j l G. split; [reflexivity|]. cbn [step]. unfold of_out, push_obj.
  destruct G as [G|[G|[c G]]]; rewrite G; destruct (get_values l i j); reflexivity.
Qed.

(* GetKeys / GetValues(keys) of a Catalog or Map: new sequences *)
Theorem entry_get_keys : forall zero p o okeys m, get p o = OCat m ->
  writes (AKeys o okeys) = None /\ step zero p (AKeys o okeys) = (p ++ [OLst (map fst m)], RNew).
Proof. intros zero p o okeys m G. split; [reflexivity|]. cbn [step]. rewrite G. reflexivity. Qed.

Theorem entry_get_keys_map : forall zero p o okeys m m', get p o = OMap m -> reorder m okeys = Some m' ->
  writes (AKeys o okeys) = None /\ step zero p (AKeys o okeys) = (p ++ [OArr (map fst m')], RNew).
Proof. intros zero p o okeys m m' G R. split; [reflexivity|]. cbn [step]. rewrite G, R. reflexivity. Qed.

(* RemoveValues of a List: the receiver keeps the rest, the removed values are a NEW object;
   nothing else is written *)
Theorem entry_remove_values : forall zero p o i j l, get p o = OLst l ->
  writes (RemoveValues o i j) = Some o /\
  step zero p (RemoveValues o i j) =
    match remove_values l i j with
    | Ret r => (put p o (OLst (snd r)) ++ [OArr (fst r)], RNew)
    | Panic => (p, RPanic) | Hang => (p, RHang)
    end.
Proof.
  intros zero p o i j l G. split; [reflexivity|]. cbn [step]. rewrite G. unfold of_out.
  destruct (remove_values l i j); reflexivity.
Qed.

(* GetIterator: a new iterator over the view at that moment (C17) *)
Theorem entry_get_iterator : forall o okeys, writes (GetIterator o okeys) = None.
Proof. reflexivity. Qed.

(* class functions have no receiver at all *)
Theorem entry_class_functions : forall a b,
  writes (Concat a b) = None /\ writes (SAnd a b) = None /\ writes (SOr a b) = None /\
  writes (SSans a b) = None /\ writes (SXor a b) = None /\ writes (Merge a b) = None /\ writes (Extract a b) = None.
Proof. intros. repeat split. Qed.

(* the writes that go THROUGH a caller-owned array or map address only that object *)
Theorem caller_writes_address_only_the_callers_object : forall s i v k,
  writes (SliceSet s i v) = Some s /\ writes (GoMapSet s k v) = Some s /\ writes (GoMapDel s k) = Some s.
Proof. intros. repeat split. Qed.

(* round 3: the caller writes through an ELEMENT object of an array it was handed (SetValue on an association of
   AsArray()'s result), or has a sorter instance sort its own Go array in place: only that array is addressed, so the
   collection the array came from — and every other object — is unchanged by such a write (step_frame) *)
Theorem element_writes_address_only_the_callers_array : forall s i v rk,
  writes (AssocSet s i v) = Some s /\ writes (SortSlice s rk) = Some s.
Proof. intros. split; reflexivity. Qed.

Theorem element_write_leaves_the_collection_unchanged : forall zero p s i v p' r c,
  step zero p (AssocSet s i v) = (p', r) -> c < length p -> c <> s -> nth c p' ODead = nth c p ODead.
Proof.
  intros zero p s i v p' r c H Hc Hn. destruct (step_frame _ _ _ _ _ H) as [_ F].
  apply F; [exact Hc|]. cbn [writes]. congruence.
Qed.

(* ---------- the scenario of the property, for the constructor from a Go slice ---------- *)
(* construct from the slice, then write the slice at any position: the collection still holds the old values;
   then mutate the collection: the slice holds what was written to it, nothing else *)
Theorem slice_written_after_construction : forall zero p src l x ws,
  get p src = OSlice l -> src < length p -> build zero CList l = Ret x ->
  (forall o', In o' ws -> exists i v, o' = SliceSet src i v) ->
  nth (length p) (run zero (fst (step zero p (FromArray CList src))) ws) ODead = x.
Proof.
  intros zero p src l x ws G Hs B Hws.
  destruct (entry_from_array zero p CList src l G) as [_ E]. rewrite B in E.
  rewrite E. cbn [fst].
  rewrite (product_survives_writes_to_old_objects zero p (FromArray CList src) (p ++ [x]) ws E).
  - rewrite app_nth2 by lia. rewrite Nat.sub_diag. reflexivity.
  - intros o' w Ho' W. destruct (Hws o' Ho') as [i [v ->]]. cbn [writes] in W. inversion W. subst. exact Hs.
Qed.

(* ---------- data for the Examples ---------- *)
Definition wi (z : Z) : val := VInt 0 z.
(* a Go slice [1;2;3]; List and Set and Stack constructed from it; the slice is then overwritten at every
   position; the list is mutated; AsArray of the list is taken and written; GetValues / RemoveValues results *)
Definition ex_alias_ops : list op :=
  [NewSlice [wi 1; wi 2; wi 3]; FromArray CList 0; FromArray CSet 0; FromArray CStack 0;   (* slots 1, 2, 3 *)
   SliceSet 0 0 (wi 7); SliceSet 0 1 (wi 8); SliceSet 0 2 (wi 9);                          (* write the caller's slice *)
   AsArray 1 [];                                                                           (* slot 4 *)
   SliceSet 4 0 (wi 5);                                                                    (* write the returned array *)
   AppendValue 1 (wi 4);                                                                   (* mutate the collection *)
   GetValues 1 1 2;                                                                        (* slot 5 *)
   RemoveValues 1 1 2;                                                                     (* slot 6 *)
   SetValue 5 1 (wi 0);                                                                    (* write a returned Array *)
   AppendValues 1 1].                                                                      (* receiver as its own operand *)
Definition ex_gomap_ops : list op :=
  [NewGoMap [(VStr [97]%Z, wi 1); (VStr [98]%Z, wi 2)]; FromMap CMap 0 [VStr [97]%Z; VStr [98]%Z];
   GoMapSet 0 (VStr [97]%Z) (wi 9); GoMapDel 0 (VStr [98]%Z); Pool.ASet 1 (VStr [99]%Z) (wi 3)].
