(* RoundTripScan.v — the formatter's token list is SCANNABLE: every token text, followed by the
   rest of the rendering, is picked by one round of scanTokens as exactly its class and length
   (LexRender.scannable), provided nothing is elided and Go's %G texts have the %G shape.
   Induction over the structure tokens_at follows: every literal is followed by "]", ":" or a
   newline; every run of spaces (the indentation, the space after ":", the space of "[ ]") by
   something that is not a space; "(" by a type name. *)
From Coq Require Import String Ascii.
From Verif Require Import Base Params Value Coll Formatter FormatSpec FormatProofs FormatText FormatBound.
From Verif Require Import Lexer Literals Parser LexerProofs LexBridge LexBridge2 LexBridge3 ParserProofs Complete StripInv LexRender.
From Verif Require Import RoundTripLit RoundTrip RoundTripLeaf.
Close Scope string_scope.
Open Scope Z_scope.

Lemma convs_app a b : convs (a ++ b) = convs a ++ convs b.
Proof. apply map_app. Qed.
Lemma render_convs ts : render_toks (convs ts) = render ts.
Proof. induction ts as [|t r IH]; [reflexivity|]. unfold render_toks, render in *. simpl. rewrite IH. reflexivity. Qed.
Lemma render_toks_app a b : render_toks (a ++ b) = render_toks a ++ render_toks b.
Proof. unfold render_toks. apply flat_map_app. Qed.

Lemma follow_sep r : follow r -> sep_start r.
Proof. destruct r as [|c t]; [contradiction|]. simpl. intros [ -> | [ -> | -> ] ]; auto. Qed.
Lemma follow_ns r : follow r -> span is_space r = 0%nat.
Proof. destruct r as [|c t]; [contradiction|]. simpl. intros [ -> | [ -> | -> ] ]; reflexivity. Qed.

Lemma indent_repeat d : indent d = repeat 32 (4 * d).
Proof.
  induction d as [|d IH]; [reflexivity|].
  replace (4 * S d)%nat with (S (S (S (S (4 * d))))) by lia. cbn [indent repeat]. rewrite IH. reflexivity.
Qed.

(* a scanned token that is not a Space token does not start with a space *)
Lemma scannable_ns ty text rest : scannable ((ty, text) :: rest) -> ty <> Lexer.TSpace ->
  span is_space (render_toks ((ty, text) :: rest)) = 0%nat.
Proof.
  intros Sc Hty. inversion Sc as [|ty' text' rest' T S']; subst. rewrite render_cons.
  destruct (try_types_pos _ _ _ _ T) as ((Hpos & _) & _).
  destruct text as [|c t]; [simpl in Hpos; lia|]. cbn [app] in *.
  destruct (Z.eq_dec c 32) as [->|Hc].
  - rewrite first_space in T. inversion T. congruence.
  - cbn [span]. unfold is_space. replace (c =? 32) with false by (symmetry; apply Z.eqb_neq; exact Hc). reflexivity.
Qed.

Lemma has_elision_cons t ts : has_elision (t :: ts) = is_elision t || has_elision ts.
Proof. reflexivity. Qed.

Section Scan.
Variable fparse : list Z -> option Z.
Variable ftext : Z -> list Z.
Variable printable : Z -> bool.
Variable maximum : nat.
Notation tokens_at := (tokens_at ftext printable maximum).
Notation leaf_token := (leaf_token ftext printable).

(* the first token of a value is a literal or "[" *)
Lemma tokens_at_head v d n ts : tokens_at d n v = Some ts ->
  exists t0 r, ts = t0 :: r /\ lty (tk_type t0) <> Lexer.TSpace.
Proof.
  assert (Leaf : forall w, option_map (fun t => [t]) (leaf_token w) = Some ts ->
                 exists t0 r, ts = t0 :: r /\ lty (tk_type t0) <> Lexer.TSpace).
  { intros w H. destruct (leaf_token w) as [t|] eqn:E; [|discriminate]. inversion H. exists t, []. split; auto.
    pose proof (leaf_token_type ftext printable w t E) as L. intros C. rewrite C in L. discriminate. }
  assert (Coll : forall body ty, tcoll body ty = Some ts -> exists t0 r, ts = t0 :: r /\ lty (tk_type t0) <> Lexer.TSpace).
  { intros body ty H. unfold tcoll in H. destruct body as [b|]; [|discriminate]. inversion H.
    eexists _, _. split; [reflexivity|]. discriminate. }
  destruct v; cbn [FormatSpec.tokens_at]; intros H; try (apply (Leaf _ H)); try (apply (Coll _ _ H)); try discriminate.
  unfold tassoc in H. destruct (leaf_token v1) as [kt|] eqn:E; [|discriminate].
  destruct (tokens_at d n v2); [|discriminate]. inversion H. eexists _, _.
  split; [reflexivity|]. pose proof (leaf_token_type ftext printable v1 kt E) as L. intros C. rewrite C in L. discriminate.
Qed.

Lemma tokens_at_ns v d n ts rest : tokens_at d n v = Some ts -> scannable (convs ts ++ rest) ->
  span is_space (render_toks (convs ts ++ rest)) = 0%nat.
Proof.
  intros H Sc. destruct (tokens_at_head v d n ts H) as (t0 & r & -> & Hty).
  cbn [convs map app] in *. apply scannable_ns; auto.
Qed.

(* a value: what the induction proves *)
Definition GA (v : val) : Prop := forall d n ts,
  tokens_at d n v = Some ts -> has_elision ts = false -> floats_roundtrip fparse ftext v = true ->
  forall rest, scannable rest -> follow (render_toks rest) -> scannable (convs ts ++ rest).

(* a newline and its indentation *)
Lemma nl_A d rest : scannable rest -> span is_space (render_toks rest) = 0%nat -> scannable (convs (nl_toks d) ++ rest).
Proof.
  intros Sc Ns. destruct d as [|d]; cbn [nl_toks convs map app]; unfold conv; cbn [lty tk_type tk_text eol_tok tok].
  - apply sc_eol; auto.
  - apply sc_eol. rewrite indent_repeat. replace (4 * S d)%nat with (S (3 + 4 * d))%nat by lia. apply sc_spaces; auto.
Qed.
Lemma nl_follow d rest : follow (render_toks (convs (nl_toks d) ++ rest)).
Proof. destruct d; simpl; auto. Qed.

(* "]" "(" Type ")" *)
Lemma ctx_A name rest : In name type_names -> scannable rest -> scannable (convs (ctx_toks (zs name)) ++ rest).
Proof.
  intros Hn Sc. cbn [ctx_toks convs map app]. unfold conv; cbn [lty tk_type tk_text FormatSpec.delim tok].
  apply sc_delim; [reflexivity|lia|]. apply sc_open_paren; auto. apply sc_type; auto.
  apply sc_delim; [reflexivity|lia|]. exact Sc.
Qed.
Lemma seq_type_name k : exists name, In name type_names /\ seq_type k = zs name.
Proof.
  destruct k; [exists "Array"%string|exists "Array"%string|exists "List"%string|exists "Set"%string|exists "Stack"%string|exists "Queue"%string];
    (split; [simpl; tauto|reflexivity]).
Qed.
Lemma map_type_name k : exists name, In name type_names /\ map_type k = zs name.
Proof.
  destruct k; [exists "Map"%string|exists "Map"%string|exists "Catalog"%string]; (split; [simpl; tauto|reflexivity]).
Qed.

Lemma starts93_follow r : (exists t, r = 93 :: t) -> follow r.
Proof. intros [t ->]. simpl. auto. Qed.
Lemma ctx_starts ty rest : exists t, render_toks (convs (ctx_toks ty) ++ rest) = 93 :: t.
Proof. eexists. reflexivity. Qed.

Lemma tassoc_A k x : GA x -> forall d n ts,
  tassoc ftext printable tokens_at d n k x = Some ts -> has_elision ts = false ->
  leaf_floats fparse ftext k = true -> floats_roundtrip fparse ftext x = true ->
  forall rest, scannable rest -> follow (render_toks rest) -> scannable (convs ts ++ rest).
Proof.
  intros Gx d n ts H He Fk Fx rest Sc Fo. unfold tassoc in H.
  destruct (leaf_token k) as [kt|] eqn:Ek; [|discriminate].
  destruct (tokens_at d n x) as [vt|] eqn:Ex; [|discriminate]. inversion H; subst ts. clear H.
  rewrite !has_elision_cons in He. apply orb_false_iff in He as [_ He]. apply orb_false_iff in He as [_ He].
  apply orb_false_iff in He as [_ He].
  pose proof (Gx d n vt Ex He Fx rest Sc Fo) as S1.
  pose proof (tokens_at_ns x d n vt rest Ex S1) as Ns.
  cbn [convs map app]. apply (leaf_scan fparse ftext printable k kt); auto.
  - unfold conv at 1 2; cbn [lty tk_type tk_text FormatSpec.delim tok].
    apply sc_delim; [reflexivity|lia|]. apply (sc_spaces 0); auto.
  - simpl. right; right; reflexivity.
Qed.

Lemma tlines_A l : Forall GA l -> forall d n b,
  tlines tokens_at d n l = Some b -> has_elision b = false -> forallb (floats_roundtrip fparse ftext) l = true ->
  forall rest, scannable rest -> follow (render_toks rest) ->
  scannable (convs b ++ rest) /\ follow (render_toks (convs b ++ rest)).
Proof.
  induction 1 as [|x t Gx Gt IH]; intros d n b H He Fl rest Sc Fo.
  - inversion H. split; assumption.
  - cbn [tlines] in H. destruct (tokens_at d n x) as [a|] eqn:Ex; [|discriminate].
    destruct (tlines tokens_at d n t) as [b'|] eqn:Et; [|discriminate]. inversion H; subst b. clear H.
    rewrite !has_elision_app in He. apply orb_false_iff in He as [_ He]. apply orb_false_iff in He as [Ha Hb].
    cbn [forallb] in Fl. apply andb_true_iff in Fl as [Fx Ft].
    destruct (IH d n b' Et Hb Ft rest Sc Fo) as [S1 Fo1].
    pose proof (Gx d n a Ex Ha Fx _ S1 Fo1) as S2.
    rewrite !convs_app, <- !app_assoc. split; [|apply nl_follow].
    apply nl_A; auto. apply (tokens_at_ns x d n a _ Ex S2).
Qed.

Lemma hd_floats ks : forallb (leaf_floats fparse ftext) ks = true -> leaf_floats fparse ftext (hd VNil ks) = true.
Proof. destruct ks; [reflexivity|]. cbn [forallb hd]. intros H. apply andb_true_iff in H. tauto. Qed.
Lemma tl_floats ks : forallb (leaf_floats fparse ftext) ks = true -> forallb (leaf_floats fparse ftext) (tl ks) = true.
Proof. destruct ks; [reflexivity|]. cbn [forallb tl]. intros H. apply andb_true_iff in H. tauto. Qed.

Lemma tassoc_ns k x d n a rest : tassoc ftext printable tokens_at d n k x = Some a -> scannable (convs a ++ rest) ->
  span is_space (render_toks (convs a ++ rest)) = 0%nat.
Proof. intros H. apply (tokens_at_ns (VAssoc k x) d n a rest). exact H. Qed.

Lemma talines_A vs : Forall GA vs -> forall ks d n b,
  talines ftext printable tokens_at d n ks vs = Some b -> has_elision b = false ->
  forallb (leaf_floats fparse ftext) ks = true -> forallb (floats_roundtrip fparse ftext) vs = true ->
  forall rest, scannable rest -> follow (render_toks rest) ->
  scannable (convs b ++ rest) /\ follow (render_toks (convs b ++ rest)).
Proof.
  induction 1 as [|x t Gx Gt IH]; intros ks d n b H He Fk Fl rest Sc Fo.
  - inversion H. split; assumption.
  - cbn [talines] in H. destruct (tassoc ftext printable tokens_at d n (hd VNil ks) x) as [a|] eqn:Ex; [|discriminate].
    destruct (talines ftext printable tokens_at d n (tl ks) t) as [b'|] eqn:Et; [|discriminate]. inversion H; subst b. clear H.
    rewrite !has_elision_app in He. apply orb_false_iff in He as [_ He]. apply orb_false_iff in He as [Ha Hb].
    cbn [forallb] in Fl. apply andb_true_iff in Fl as [Fx Ft].
    destruct (IH (tl ks) d n b' Et Hb (tl_floats ks Fk) Ft rest Sc Fo) as [S1 Fo1].
    pose proof (tassoc_A (hd VNil ks) x Gx d n a Ex Ha (hd_floats ks Fk) Fx _ S1 Fo1) as S2.
    rewrite !convs_app, <- !app_assoc. split; [|apply nl_follow].
    apply nl_A; auto. apply (tassoc_ns _ _ _ _ _ _ Ex S2).
Qed.

(* the items between "[" and "]" *)
Lemma titems_A l : Forall GA l -> forall d n b,
  titems maximum tokens_at d n l = Some b -> has_elision b = false -> forallb (floats_roundtrip fparse ftext) l = true ->
  forall rest, scannable rest -> (exists t, render_toks rest = 93 :: t) -> scannable (convs b ++ rest).
Proof.
  intros Gl d n b H He Fl rest Sc R93. pose proof (starts93_follow _ R93) as Fo. unfold titems in H.
  destruct (maximum <? n)%nat; [inversion H; subst b; discriminate|].
  destruct l as [|x [|y t]].
  - inversion H; subst b. cbn [convs map app]. unfold conv; cbn [lty tk_type tk_text tok].
    apply (sc_spaces 0); auto. apply follow_ns; auto.
  - inversion Gl as [|? ? Gx _]; subst. cbn [forallb] in Fl. apply andb_true_iff in Fl as [Fx _].
    apply (Gx d n b H He Fx rest Sc Fo).
  - destruct (tlines tokens_at (S d) n (x :: y :: t)) as [b0|] eqn:Eb; [|discriminate]. inversion H; subst b. clear H.
    rewrite has_elision_app in He. apply orb_false_iff in He as [He0 _].
    rewrite convs_app, <- app_assoc.
    assert (S1 : scannable (convs (nl_toks d) ++ rest)) by (apply nl_A; auto; apply follow_ns; auto).
    apply (tlines_A _ Gl (S d) n b0 Eb He0 Fl _ S1 (nl_follow d rest)).
Qed.

Lemma tentries_A vs : Forall GA vs -> forall ks d n b,
  tentries ftext printable maximum tokens_at d n ks vs = Some b -> has_elision b = false ->
  forallb (leaf_floats fparse ftext) ks = true -> forallb (floats_roundtrip fparse ftext) vs = true ->
  forall rest, scannable rest -> (exists t, render_toks rest = 93 :: t) -> scannable (convs b ++ rest).
Proof.
  intros Gl ks d n b H He Fk Fl rest Sc R93. pose proof (starts93_follow _ R93) as Fo. unfold tentries in H.
  destruct (maximum <? n)%nat; [inversion H; subst b; discriminate|].
  destruct vs as [|x [|y t]].
  - inversion H; subst b. cbn [convs map app]. unfold conv; cbn [lty tk_type tk_text FormatSpec.delim tok].
    apply sc_delim; [reflexivity|lia|exact Sc].
  - inversion Gl as [|? ? Gx _]; subst. cbn [forallb] in Fl. apply andb_true_iff in Fl as [Fx _].
    apply (tassoc_A (hd VNil ks) x Gx d n b H He (hd_floats ks Fk) Fx rest Sc Fo).
  - destruct (talines ftext printable tokens_at (S d) n ks (x :: y :: t)) as [b0|] eqn:Eb; [|discriminate]. inversion H; subst b. clear H.
    rewrite has_elision_app in He. apply orb_false_iff in He as [He0 _].
    rewrite convs_app, <- app_assoc.
    assert (S1 : scannable (convs (nl_toks d) ++ rest)) by (apply nl_A; auto; apply follow_ns; auto).
    apply (talines_A _ Gl ks (S d) n b0 Eb He0 Fk Fl _ S1 (nl_follow d rest)).
Qed.

(* "[" items "]" "(" Type ")" *)
Lemma tcoll_A body ty name ts rest : In name type_names -> ty = zs name ->
  tcoll body ty = Some ts -> has_elision ts = false ->
  (forall b, body = Some b -> has_elision b = false ->
     forall rest', scannable rest' -> (exists t, render_toks rest' = 93 :: t) -> scannable (convs b ++ rest')) ->
  scannable rest -> scannable (convs ts ++ rest).
Proof.
  intros Hn -> H He Hb Sc. unfold tcoll in H. destruct body as [b|]; [|discriminate]. inversion H; subst ts. clear H.
  rewrite has_elision_cons, has_elision_app in He. apply orb_false_iff in He as [_ He]. apply orb_false_iff in He as [He _].
  cbn [convs map app]. unfold conv at 1; cbn [lty tk_type tk_text FormatSpec.delim tok].
  apply sc_delim; [reflexivity|lia|]. fold (convs (b ++ ctx_toks (zs name))). rewrite convs_app, <- app_assoc.
  apply (Hb b eq_refl He); [apply ctx_A; auto|apply ctx_starts].
Qed.

Lemma GA_leaf v :
  (forall d n, tokens_at d n v = option_map (fun t => [t]) (leaf_token v)) ->
  floats_roundtrip fparse ftext v = leaf_floats fparse ftext v -> GA v.
Proof.
  intros E1 E2 d n ts H He Fl rest Sc Fo. rewrite E1 in H.
  destruct (leaf_token v) as [t|] eqn:E; [|discriminate]. inversion H; subst ts. cbn [convs map app].
  apply (leaf_scan fparse ftext printable v t); auto; [rewrite <- E2; exact Fl|apply follow_sep; exact Fo].
Qed.

Theorem tokens_scannable : forall v, GA v.
Proof.
  induction v as [ | | | bo | w z | w z | z | z | w bits | w re im ab ph | s | i x | kd l IHl | key x IHkey IHx | kd ks vs IHks IHvs ] using val_ind2;
    try (apply GA_leaf; [intros; reflexivity|reflexivity]);
    intros d n ts H He Fl rest Sc Fo.
  - (* VNilSlice *) cbn [FormatSpec.tokens_at] in H. destruct (seq_type_name KSlice) as (name & Hn & En).
    apply (tcoll_A _ _ name ts rest Hn En H He); auto.
    intros b Hb Heb rest' S' R'. apply (titems_A [] (Forall_nil _) d (S n) b Hb Heb eq_refl rest' S' R').
  - (* VNilMap *) cbn [FormatSpec.tokens_at] in H. destruct (map_type_name MGoMap) as (name & Hn & En).
    apply (tcoll_A _ _ name ts rest Hn En H He); auto.
    intros b Hb Heb rest' S' R'. apply (tentries_A [] (Forall_nil _) [] d (S n) b Hb Heb eq_refl eq_refl rest' S' R').
  - (* VSeq *) cbn [FormatSpec.tokens_at] in H. destruct (seq_type_name kd) as (name & Hn & En).
    apply (tcoll_A _ _ name ts rest Hn En H He); auto.
    intros b Hb Heb rest' S' R'. cbn [floats_roundtrip] in Fl. apply (titems_A l IHl d (S n) b Hb Heb Fl rest' S' R').
  - (* VAssoc *) cbn [FormatSpec.tokens_at] in H. cbn [floats_roundtrip] in Fl. apply andb_true_iff in Fl as [Fk Fx].
    apply (tassoc_A key x IHx d n ts H He Fk Fx rest Sc Fo).
  - (* VMapping *) cbn [FormatSpec.tokens_at] in H. destruct (map_type_name kd) as (name & Hn & En).
    apply (tcoll_A _ _ name ts rest Hn En H He); auto.
    intros b Hb Heb rest' S' R'. cbn [floats_roundtrip] in Fl. apply andb_true_iff in Fl as [Fk Fv].
    apply (tentries_A vs IHvs ks d (S n) b Hb Heb Fk Fv rest' S' R').
Qed.

(* SCANNABILITY of the whole output: the tokens of the value, then the final newline *)
Theorem tokens_of_scannable v ts :
  tokens_of ftext printable maximum v = Some ts -> has_elision ts = false ->
  floats_roundtrip fparse ftext v = true -> scannable (convs ts).
Proof.
  unfold tokens_of. intros H He Fl. destruct (tokens_at 0 0 v) as [b|] eqn:Eb; [|discriminate]. inversion H; subst ts.
  rewrite has_elision_app in He. apply orb_false_iff in He as [He _]. rewrite convs_app.
  apply (tokens_scannable v 0%nat 0%nat b Eb He Fl); [|simpl; auto].
  cbn [convs map]. unfold conv; cbn [lty tk_type tk_text eol_tok tok]. apply sc_eol. constructor.
Qed.
End Scan.
