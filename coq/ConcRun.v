(* ConcRun.v — decoders and comparison for the schedule-exact correspondence (C04, C05, C06).
   A case gives the initial configuration (queue capacities, wait-group count, threads), the
   schedule the controlled scheduler granted on the real code (one thread id per micro-step)
   and what was observed: the per-thread results and the final state of every queue.  The
   model must be able to take every recorded step (run_strict) and must end in the same
   observations.  No proofs. *)
From Verif Require Import Params Base Conc.

Record qobs := { qo_vals : list Z; qo_tok : nat; qo_cap : nat }.
Record ccase := {
  k_caps : list nat; k_wg : nat; k_threads : list thread;
  k_sched : list nat;
  k_enabled : list (list nat);          (* the threads the scheduler found enabled before each step *)
  k_results : list (option (list result));   (* None: a library helper goroutine (results not observable) *)
  k_queues : list qobs;
  k_final : bool;           (* every goroutine finished *)
  k_hung : bool             (* a granted step blocked inside the runtime (never expected) *)
}.

Definition result_eqb (a b : result) : bool :=
  match a, b with
  | RAdded, RAdded | RClosed, RClosed | RCleared, RCleared | RWaited, RWaited | RDoneWg, RDoneWg | RPanicked, RPanicked => true
  | RHead v ok, RHead w ok' => Z.eqb v w && Bool.eqb ok ok'
  | RSize n, RSize m => Nat.eqb n m
  | REmpty b, REmpty b' => Bool.eqb b b'
  | RArray l, RArray l' => list_eqb Z.eqb l l'
  | _, _ => false
  end.

Definition init_config (k : ccase) : config :=
  {| queues := map mkq (k_caps k); wg := k_wg k; threads := k_threads k |}.

Definition qobs_ok (s : qstate) (o : qobs) : bool :=
  list_eqb Z.eqb (qvals s) (qo_vals o) && Nat.eqb (qtok s) (qo_tok o) && Nat.eqb (qcap s) (qo_cap o).

Definition results_ok (th : thread) (o : option (list result)) : bool :=
  match o with
  | None => true
  | Some rs => list_eqb result_eqb (tres th) rs
  end.

Definition enabled_set (c : config) : list nat :=
  filter (enabled c) (seq 0 (length (threads c))).

(* follows the schedule; every step must be enabled and the enabled set must be the recorded one *)
Fixpoint run_checked (c : config) (sched : list nat) (en : list (list nat)) : option config :=
  match sched, en with
  | [], [] => Some c
  | t :: rest, e :: en' =>
    if list_eqb Nat.eqb (enabled_set c) e then
      match step c t with Some c' => run_checked c' rest en' | None => None end
    else None
  | _, _ => None
  end.

Fixpoint all2b {A B} (f : A -> B -> bool) (a : list A) (b : list B) : bool :=
  match a, b with
  | [], [] => true
  | x :: a', y :: b' => f x y && all2b f a' b'
  | _, _ => false
  end.

(* 0 = ok; 1 = a recorded step is not enabled in the model, or the sets of enabled threads differ at some step;
   2 = results differ; 3 = queue state differs; 4 = finality differs; 5 = the implementation blocked inside the runtime;
   6 = the model still has an enabled thread where the implementation had none *)
Definition check_case (k : ccase) : nat :=
  if k_hung k then 5 else
  match run_checked (init_config k) (k_sched k) (k_enabled k) with
  | None => 1
  | Some c =>
    if negb (all2b results_ok (threads c) (k_results k)) then 2
    else if negb (all2b qobs_ok (queues c) (k_queues k)) then 3
    else if negb (Bool.eqb (final c) (k_final k)) then 4
    else if negb (match enabled_set c with [] => true | _ => false end) then 6
    else 0
  end%nat.

Fixpoint kmismatches_from (n : nat) (cases : list ccase) : list (nat * nat) :=
  match cases with
  | [] => []
  | k :: t => match check_case k with
              | O => kmismatches_from (S n) t
              | e => (n, e) :: kmismatches_from (S n) t
              end
  end.
Definition kmismatches (cases : list ccase) : list (nat * nat) := kmismatches_from 0 cases.

(* for replay files: how far the model can follow the schedule and what it ends with *)
Fixpoint follow (c : config) (sched : list nat) (k : nat) : nat * config :=
  match sched with
  | [] => (k, c)
  | t :: rest => match step c t with Some c' => follow c' rest (S k) | None => (k, c) end
  end.
Definition dummy_case : ccase :=
  {| k_caps := []; k_wg := 0; k_threads := []; k_sched := []; k_enabled := []; k_results := []; k_queues := []; k_final := true; k_hung := false |}.
Definition case_report (k : ccase) :=
  let '(n, c) := follow (init_config k) (k_sched k) 0 in
  (n, length (k_sched k), enabled_set c, map tres (threads c), map (fun s => (qvals s, qtok s, qclosed s)) (queues c)).
