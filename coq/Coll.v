(* Coll.v — models of set.go (binary search, add/remove), stack.go, catalog.go, map.go
   and the class functions, over an abstract element type.  Definitions only. *)
From Verif Require Import Base Seq.

Section SetM.
Variable A : Type.
Variable zero : A.
Variable rank : A -> A -> comparison.

(* set.go: findIndex — iterative binary search over (first, last, size), ordinals 1-based.
   fuel: size strictly decreases, so [S (length l)] always suffices. *)
Fixpoint find_index_loop (fuel : nat) (l : list A) (v : A) (first last size : nat) : out (nat * bool) :=
  if size =? 0 then Ret (last, false) else
  match fuel with
  | 0 => Hang
  | S fuel' =>
    let middle := first + size / 2 in
    let candidate := nth (middle - 1) l zero in
    match rank v candidate with
    | Lt => find_index_loop fuel' l v first (middle - 1) (middle - first)
    | Eq => Ret (middle, true)
    | Gt => find_index_loop fuel' l v (middle + 1) last (last - middle)
    end
  end.
Definition find_index (l : list A) (v : A) : out (nat * bool) :=
  find_index_loop (S (length l)) l v 1 (length l) (length l).

(* AddValue: insert at the slot found unless already present *)
Definition set_add (l : list A) (v : A) : out (list A) :=
  match find_index l v with
  | Ret (slot, false) => insert_value l slot v
  | Ret (_, true) => Ret l
  | Panic => Panic | Hang => Hang
  end.
(* RemoveValue *)
Definition set_remove (l : list A) (v : A) : out (list A) :=
  match find_index l v with
  | Ret (idx, true) => out_map snd (remove_value zero l (Z.of_nat idx))
  | Ret (_, false) => Ret l
  | Panic => Panic | Hang => Hang
  end.
Definition set_contains (l : list A) (v : A) : out bool :=
  out_map snd (find_index l v).
Definition set_get_index (l : list A) (v : A) : out nat :=
  out_map (fun r : nat * bool => if snd r then fst r else 0) (find_index l v).

Fixpoint set_add_all (l : list A) (vs : list A) : out (list A) :=
  match vs with
  | [] => Ret l
  | v :: vs' => out_bind (set_add l v) (fun l' => set_add_all l' vs')
  end.
Fixpoint set_remove_all (l : list A) (vs : list A) : out (list A) :=
  match vs with
  | [] => Ret l
  | v :: vs' => out_bind (set_remove l v) (fun l' => set_remove_all l' vs')
  end.
(* ContainsAny / ContainsAll stop at the first decisive value, like the loops *)
Fixpoint set_contains_any (l vs : list A) : out bool :=
  match vs with
  | [] => Ret false
  | v :: vs' => out_bind (set_contains l v) (fun b => if b then Ret true else set_contains_any l vs')
  end.
Fixpoint set_contains_all (l vs : list A) : out bool :=
  match vs with
  | [] => Ret true
  | v :: vs' => out_bind (set_contains l v) (fun b => if b then set_contains_all l vs' else Ret false)
  end.
End SetM.

Arguments find_index_loop {A}. Arguments find_index {A}. Arguments set_add {A}. Arguments set_remove {A}.
Arguments set_contains {A}. Arguments set_get_index {A}. Arguments set_add_all {A}. Arguments set_remove_all {A}.
Arguments set_contains_any {A}. Arguments set_contains_all {A}.

(* Set algebra (set.go: And, Or, Sans, Xor).  [rk1] is the first operand's collator (it
   becomes the result's), [rk2] the second operand's (used by second.ContainsValue). *)
Section SetAlgebra.
Variable A : Type.
Variable zero : A.
Variable rk1 rk2 : A -> A -> comparison.

Fixpoint and_loop (acc : list A) (xs b : list A) : out (list A) :=
  match xs with
  | [] => Ret acc
  | x :: xs' =>
    out_bind (set_contains zero rk2 b x) (fun c =>
      if c then out_bind (set_add zero rk1 acc x) (fun acc' => and_loop acc' xs' b)
      else and_loop acc xs' b)
  end.
Definition set_and (a b : list A) : out (list A) := and_loop [] a b.
Definition set_or (a b : list A) : out (list A) :=
  out_bind (set_add_all zero rk1 [] a) (fun r => set_add_all zero rk1 r b).
Definition set_sans (a b : list A) : out (list A) :=
  out_bind (set_add_all zero rk1 [] a) (fun r => set_remove_all zero rk1 r b).
End SetAlgebra.
Arguments set_and {A}. Arguments set_or {A}. Arguments set_sans {A}.

Section Xor.
Variable A : Type.
Variable zero : A.
Variable rk1 rk2 : A -> A -> comparison.
(* Xor(a,b) = Or(Sans(a,b), Sans(b,a)); Sans(b,a) carries b's collator, the result a's *)
Definition set_xor (a b : list A) : out (list A) :=
  out_bind (set_sans zero rk1 a b) (fun x =>
  out_bind (set_sans zero rk2 b a) (fun y => set_or zero rk1 x y)).
End Xor.
Arguments set_xor {A}.

(* Stack (stack.go): top of the stack is the head of the list *)
Section StackM.
Variable A : Type.
Definition stack_push (cap : nat) (l : list A) (v : A) : out (list A) :=
  if length l =? cap then Panic else Ret (v :: l).
Definition stack_pop (l : list A) : out (A * list A) :=
  match l with
  | [] => Panic
  | x :: t => Ret (x, t)
  end.
End StackM.
Arguments stack_push {A}. Arguments stack_pop {A}.

(* Catalog / Map (catalog.go, map.go): association lists keyed by Go's "==" *)
Section Assoc.
Variable K V : Type.
Variable vzero : V.
Variable keq : K -> K -> bool.

Fixpoint a_get (m : list (K * V)) (k : K) : option V :=
  match m with
  | [] => None
  | (k', v) :: t => if keq k k' then Some v else a_get t k
  end.
Definition a_get_or_zero (m : list (K * V)) (k : K) : V :=
  match a_get m k with Some v => v | None => vzero end.
(* SetValue: replace in place when present, append otherwise *)
Fixpoint a_set (m : list (K * V)) (k : K) (v : V) : list (K * V) :=
  match m with
  | [] => [(k, v)]
  | (k', v') :: t => if keq k k' then (k', v) :: t else (k', v') :: a_set t k v
  end.
Fixpoint a_remove (m : list (K * V)) (k : K) : list (K * V) :=
  match m with
  | [] => []
  | (k', v') :: t => if keq k k' then t else (k', v') :: a_remove t k
  end.
Definition a_set_all (m : list (K * V)) (kvs : list (K * V)) : list (K * V) :=
  fold_left (fun acc kv => a_set acc (fst kv) (snd kv)) kvs m.
(* RemoveValues(keys): the removed values in key order (zero for absent / already removed) *)
Fixpoint a_remove_all (m : list (K * V)) (ks : list K) : list V * list (K * V) :=
  match ks with
  | [] => ([], m)
  | k :: ks' =>
    let v := a_get_or_zero m k in
    let r := a_remove_all (a_remove m k) ks' in
    (v :: fst r, snd r)
  end.
(* Merge(a, b) *)
Definition a_merge (a b : list (K * V)) : list (K * V) := a_set_all (a_set_all [] a) b.
(* Extract(c, keys): associations of c for the requested keys that c contains, in key order *)
Definition a_extract (c : list (K * V)) (ks : list K) : list (K * V) :=
  fold_left (fun acc k => match a_get c k with Some v => a_set acc k v | None => acc end) ks [].
End Assoc.
Arguments a_get {K V}. Arguments a_get_or_zero {K V}. Arguments a_set {K V}. Arguments a_remove {K V}.
Arguments a_set_all {K V}. Arguments a_remove_all {K V}. Arguments a_merge {K V}. Arguments a_extract {K V}.
