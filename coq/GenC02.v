(* GenC02.v — property C02 for the GENERATED set methods (GenSrc.v, regenerated from v4/collection/set.go and the
   list / array / iterator methods they call): the iterative binary search findIndex computes Coll.find_index for
   an ARBITRARY ranker (the collator's RankValues is the oracle [rank_ext rank] of the semantics, any function
   A -> A -> comparison), hence terminates with a slot in 0..size for every ranker.
   Not part of the common build: compiled by ./check C02. *)
From Verif Require Import Base Seq ListImpl Coll SeqProofs SetProofs MiniGo GenSrc GenRep GenLib GenIter GenSeq.

Section GenC02.
Variable A : Type.
Variable zero : A.
Variable rank : A -> A -> comparison.
Notation ext := (rank_ext rank).
Notation call_at F := (i_call (interp_at A zero ext prog F)).

Lemma gen_set_GetSize cls n l F : 20 <= F ->
  call_at F (set_val cls n l) id_GetSize [] = ROk (VInt (Z.of_nat (length l)), set_val cls n l).
Proof. intros HF. fuel F 20. gocall. rewrite (gen_list_GetSize A zero ext) by lia. gorun. reflexivity. Qed.

Lemma gen_set_GetValue cls n l (k : nat) F : 1 <= k <= length l -> 40 <= F ->
  call_at F (set_val cls n l) id_GetValue [VInt (Z.of_nat k)] = ROk (VElem (nth (k - 1) l zero), set_val cls n l).
Proof.
  intros HK HF. fuel F 14. gocall. rewrite (gen_list_GetValue A zero ext) by lia. rewrite pos_nat.
  destruct (Nat.eqb_spec k 0); [lia|]. destruct (Nat.ltb_spec (length l) k); [lia|]. cbn [orb]. gorun. reflexivity.
Qed.

(* the collator's RankValues, answered by the oracle *)
Lemma gen_RankValues a b F : 1 <= F ->
  call_at F col_val id_RankValues [VElem a; VElem b] = ROk (VInt (rank_code (rank a b)), col_val).
Proof. intros HF. fuel F 1. gocall. reflexivity. Qed.

(* ---------- findIndex: "for size > 0 { middle = first + size/2; candidate = GetValue(middle); switch Rank.. }" ---------- *)
(* variables: v value index found first last size middle candidate *)
Definition fi_loop : stmt := nth 5 (fn_body fn_set__findIndex) SBreak.
Definition fi_cond : option expr := Eval cbv in match fi_loop with SFor _ c _ _ => c | _ => None end.
Definition fi_body : list stmt := Eval cbv in match fi_loop with SFor _ _ _ b => b | _ => [] end.

Section Fi.
Variables (cls n : val A) (l : list A) (x : A).
Definition fi_env (first last size : nat) : env A :=
  [(1%positive, set_val cls n l); (2%positive, VElem x); (3%positive, VInt 0); (4%positive, VBool false);
   (5%positive, VInt (Z.of_nat first)); (6%positive, VInt (Z.of_nat last)); (7%positive, VInt (Z.of_nat size))].
Definition fi_run F first last size T :=
  i_loop (interp_at A zero ext prog F) fi_cond None fi_body (fi_env first last size ++ T).
(* the search window: ordinals first..last, size = last + 1 - first, inside the list *)
Definition fi_inv (first last size : nat) : Prop := 1 <= first /\ last + 1 = first + size /\ last <= length l.

Lemma quot2 (s : nat) : Z.quot (Z.of_nat s) 2 = Z.of_nat (s / 2).
Proof. rewrite Z.quot_div_nonneg by lia. rewrite (Nat2Z.inj_div s 2). reflexivity. Qed.

Lemma fi_exit F first last T : 30 <= F ->
  fi_run (S F) first last 0 T = ROk (SgNormal, fi_env first last 0 ++ T).
Proof. intros HF. unfold fi_run. rewrite loop_S; unfold loop_step. fuel F 30. unfold fi_cond, fi_body, fi_env. gogo. reflexivity. Qed.

Ltac fi_iter F first size :=
  unfold fi_run; rewrite loop_S; unfold loop_step; fuel F 60; unfold fi_cond, fi_body, fi_env; gogo;
  rewrite quot2; replace (Z.of_nat first + Z.of_nat (size / 2))%Z with (Z.of_nat (first + size / 2)) by lia;
  rewrite ?lookup_set_same; gorun.

Lemma fi_step F first last size T (middle := first + size / 2) (c := rank x (nth (middle - 1) l zero)) :
  70 <= F -> fi_inv first last size -> 0 < size ->
  exists T',
    fi_run (S F) first last size T =
    match c with
    | Lt => fi_run F first (middle - 1) (middle - first) T'
    | Eq => ROk (SgReturn (VTuple [VInt (Z.of_nat middle); VBool true]), fi_env first last size ++ T')
    | Gt => fi_run F (middle + 1) last (last - middle) T'
    end.
Proof.
  intros HF [I1 [I2 I3]] HS.
  assert (HM : first <= middle <= last) by (unfold middle; pose proof (Nat.div_lt size 2 HS ltac:(lia)); lia).
  eexists. fi_iter F first size. fold middle.
  rewrite gen_set_GetValue by lia. gorun. rewrite ?lookup_set_same. gorun.
  rewrite gen_RankValues by lia. gorun. fold c. rewrite ?lookup_set_same.
  destruct c; cbn [rank_code]; gogo.
  all: repeat (rewrite ?(lookup_set_other 8%positive 9%positive) by discriminate; rewrite ?lookup_set_same; gorun).
  - reflexivity.
  - replace (Z.of_nat middle - 1)%Z with (Z.of_nat (middle - 1)) by lia.
    replace (Z.of_nat middle - Z.of_nat first)%Z with (Z.of_nat (middle - first)) by lia. reflexivity.
  - replace (Z.of_nat middle + 1)%Z with (Z.of_nat (middle + 1)) by lia.
    replace (Z.of_nat last - Z.of_nat middle)%Z with (Z.of_nat (last - middle)) by lia. reflexivity.
Qed.

Lemma fi_sim : forall mf first last size T F, fi_inv first last size -> mf + 72 <= F ->
  match find_index_loop zero rank mf l x first last size with
  | Ret (k, true) => exists f' la' s' T',
      fi_run F first last size T = ROk (SgReturn (VTuple [VInt (Z.of_nat k); VBool true]), fi_env f' la' s' ++ T')
  | Ret (k, false) => exists f' s' T', fi_run F first last size T = ROk (SgNormal, fi_env f' k s' ++ T')
  | _ => True
  end.
Proof.
  induction mf as [|mf IH]; intros first last size T F INV HF; (destruct F as [|F]; [lia|]); cbn [find_index_loop].
  - destruct size as [|s]; cbn [Nat.eqb]; [|exact I]. rewrite fi_exit by lia. eexists _, _, _. reflexivity.
  - destruct size as [|s]; cbn [Nat.eqb]. { rewrite fi_exit by lia. eexists _, _, _. reflexivity. }
    destruct (fi_step F first last (S s) T ltac:(lia) INV ltac:(lia)) as [T' ST]. rewrite ST. clear ST.
    destruct INV as [I1 [I2 I3]].
    assert (HM : first <= first + S s / 2 <= last) by (pose proof (Nat.div_lt (S s) 2 ltac:(lia) ltac:(lia)); lia).
    destruct (rank x (nth (first + S s / 2 - 1) l zero)).
    + eexists _, _, _, _. reflexivity.
    + apply IH; [unfold fi_inv; lia|lia].
    + apply IH; [unfold fi_inv; lia|lia].
Qed.
End Fi.

(* findIndex(value) is Coll.find_index, for every ranker: one unit of fuel per halving, plus a constant *)
Lemma gen_set_findIndex cls n l x F : length l + 120 <= F ->
  exists k b, find_index zero rank l x = Ret (k, b) /\
    call_at F (set_val cls n l) id_findIndex [VElem x] = ROk (VTuple [VInt (Z.of_nat k); VBool b], set_val cls n l).
Proof.
  intros HF. destruct (find_index_returns A zero rank l x) as [k [b [E _]]]. exists k, b. split; [exact E|].
  unfold find_index in E. fuel F 40. gocall. rewrite gen_set_GetSize by lia. gorun.
  match goal with |- context[i_loop (interp_at A zero ext prog ?FF) ?c ?p ?b0 ?en] =>
    pose proof (fi_sim cls n l x (S (length l)) 1 (length l) (length l) [] FF ltac:(unfold fi_inv; lia) ltac:(lia)) as SIM;
    change (i_loop (interp_at A zero ext prog FF) c p b0 en) with (fi_run cls n l x FF 1 (length l) (length l) [])
  end.
  rewrite E in SIM. destruct b.
  - destruct SIM as [f' [la' [s' [T' SIM]]]]. rewrite SIM. unfold fi_env. gorun. reflexivity.
  - destruct SIM as [f' [s' [T' SIM]]]. rewrite SIM. unfold fi_env. gorun. reflexivity.
Qed.

(* a convenient form: the call is determined by the model's search, which always returns *)
Lemma gen_set_findIndex' cls n l x F : length l + 120 <= F ->
  call_at F (set_val cls n l) id_findIndex [VElem x] =
  match find_index zero rank l x with
  | Ret (k, b) => ROk (VTuple [VInt (Z.of_nat k); VBool b], set_val cls n l)
  | _ => RStuck
  end.
Proof. intros HF. destruct (gen_set_findIndex cls n l x F HF) as [k [b [E C]]]. rewrite E. exact C. Qed.

(* AddValue / RemoveValue / ContainsValue / GetIndex are Coll.set_add / set_remove / set_contains / set_get_index,
   for every ranker *)
Lemma gen_set_AddValue cls n l x F : (Z.of_nat (length l) + 1 < two63)%Z -> 2 * length l + 260 <= F ->
  call_at F (set_val cls n l) id_AddValue [VElem x] =
  match set_add zero rank l x with
  | Ret l' => ROk (VTuple [], set_val cls n l') | _ => RPanic (set_val cls n l)
  end.
Proof.
  intros HL HF. unfold set_add. destruct (find_index_returns A zero rank l x) as [k [b [E [HK _]]]].
  pose proof (gen_set_findIndex' cls n l x) as FI. rewrite E in *.
  pose proof (gen_list_InsertValue_impl A zero ext n l k x) as IV. rewrite (insert_value_refines A zero) in IV.
  fuel F 30. gocall. rewrite FI by lia. gorun. destruct b; gorun; [reflexivity|]. gogo.
  rewrite IV by lia. unfold insert_value. destruct (Nat.ltb_spec (length l) k); [lia|]. gorun. reflexivity.
Qed.

Lemma gen_set_RemoveValue cls n l x F : (Z.of_nat (length l) + 1 < two63)%Z -> 2 * length l + 260 <= F ->
  call_at F (set_val cls n l) id_RemoveValue [VElem x] =
  match set_remove zero rank l x with
  | Ret l' => ROk (VTuple [], set_val cls n l') | _ => RPanic (set_val cls n l)
  end.
Proof.
  intros HL HF. unfold set_remove. destruct (find_index_returns A zero rank l x) as [k [b [E [HK HB]]]].
  pose proof (gen_set_findIndex' cls n l x) as FI. rewrite E in *.
  pose proof (gen_list_RemoveValue_impl A zero ext n l (Z.of_nat k)) as RV. rewrite (remove_value_refines A zero) in RV.
  fuel F 30. gocall. rewrite FI by lia. gorun. destruct b; gorun; [|reflexivity].
  specialize (HB eq_refl). rewrite RV by lia. unfold remove_value. rewrite pos_nat.
  destruct (Nat.eqb_spec k 0); [lia|]. destruct (Nat.ltb_spec (length l) k); [lia|]. cbn [orb out_map snd]. gorun. reflexivity.
Qed.

Lemma gen_set_ContainsValue cls n l x F : length l + 160 <= F ->
  call_at F (set_val cls n l) id_ContainsValue [VElem x] =
  match set_contains zero rank l x with Ret b => ROk (VBool b, set_val cls n l) | _ => RStuck end.
Proof.
  intros HF. unfold set_contains. destruct (find_index_returns A zero rank l x) as [k [b [E _]]].
  pose proof (gen_set_findIndex' cls n l x) as FI. rewrite E in *. cbn [out_map snd].
  fuel F 30. gocall. rewrite FI by lia. gorun. reflexivity.
Qed.

Lemma gen_set_GetIndex cls n l x F : length l + 160 <= F ->
  call_at F (set_val cls n l) id_GetIndex [VElem x] =
  match set_get_index zero rank l x with Ret k => ROk (VInt (Z.of_nat k), set_val cls n l) | _ => RStuck end.
Proof.
  intros HF. unfold set_get_index. destruct (find_index_returns A zero rank l x) as [k [b [E _]]].
  pose proof (gen_set_findIndex' cls n l x) as FI. rewrite E in *. cbn [out_map fst snd].
  fuel F 30. gocall. rewrite FI by lia. gorun. destruct b; gorun; reflexivity.
Qed.

Lemma gen_set_RemoveAll cls n l F : 40 <= F ->
  call_at F (set_val cls n l) id_RemoveAll [] = ROk (VTuple [], set_val cls n []).
Proof. intros HF. fuel F 40. gocall. rewrite (gen_list_RemoveAll A zero ext) by lia. gorun. reflexivity. Qed.

(* ---------- AddValues / RemoveValues: "for it.HasNext() { value = it.GetNext(); v.AddValue(value) }" ---------- *)
(* variables: v values iterator value.  Generic in the method called: [stepf] is its model, [bound] its fuel *)
Fixpoint fold_out (stepf : list A -> A -> out (list A)) (l : list A) (vs : list A) : out (list A) :=
  match vs with [] => Ret l | v :: t => out_bind (stepf l v) (fun l' => fold_out stepf l' t) end.
Lemma set_add_all_fold l vs : set_add_all zero rank l vs = fold_out (set_add zero rank) l vs.
Proof. revert l. induction vs as [|v t IH]; intros l; cbn; [reflexivity|]. destruct (set_add zero rank l v); cbn; auto. Qed.
Lemma set_remove_all_fold l vs : set_remove_all zero rank l vs = fold_out (set_remove zero rank) l vs.
Proof. revert l. induction vs as [|v t IH]; intros l; cbn; [reflexivity|]. destruct (set_remove zero rank l v); cbn; auto. Qed.

Definition each_env cls n (sv : val A) l it : env A :=
  [(1%positive, set_val cls n l); (2%positive, sv); (3%positive, GenRep.it_rep A VNil it)].

Section Each.
Variables (cls n sv : val A) (cond : option expr) (body : list stmt) (m : ident) (stepf : list A -> A -> out (list A)).
Variable B : nat.   (* every list met has at most B values *)
Definition each_run F l it T := i_loop (interp_at A zero ext prog F) cond None body (each_env cls n sv l it ++ T).
Hypothesis each_exit : forall F l it T, 30 <= F -> has_next it = false ->
  each_run (S F) l it T = ROk (SgNormal, each_env cls n sv l it ++ T).
Hypothesis each_step : forall F l it T l', 2 * B + 300 <= F -> length l <= B -> has_next it = true ->
  stepf l (fst (get_next zero it)) = Ret l' ->
  each_run (S F) l it T = each_run F l' (snd (get_next zero it)) (set 4%positive (VElem (fst (get_next zero it))) T).
Hypothesis step_grows : forall l v l', stepf l v = Ret l' -> length l' <= S (length l).

Lemma each_sim : forall k vals s l T F, k = length vals - s -> s <= length vals -> length l + k <= B ->
  k + 2 * B + 301 <= F ->
  match fold_out stepf l (skipn s vals) with
  | Ret l' => exists it' T', each_run F l (mk_it A vals s) T = ROk (SgNormal, each_env cls n sv l' it' ++ T')
  | _ => True
  end.
Proof.
  induction k as [|k IH]; intros vals s l T F HK HS HLB HF; (destruct F as [|F]; [lia|]).
  - assert (s = length vals) by lia. subst s. rewrite skipn_all. cbn [fold_out].
    rewrite each_exit; [eexists _, _; reflexivity|lia|]. unfold has_next, mk_it, it_size. cbn. apply Nat.ltb_ge. lia.
  - assert (HN : has_next (mk_it A vals s) = true) by (unfold has_next, mk_it, it_size; cbn; apply Nat.ltb_lt; lia).
    assert (GN : get_next zero (mk_it A vals s) = (nth s vals zero, mk_it A vals (S s))).
    { unfold get_next. rewrite HN. reflexivity. }
    rewrite (skipn_cons_nth A s vals zero) by lia. cbn [fold_out].
    destruct (stepf l (nth s vals zero)) as [l'| |] eqn:ES; cbn [out_bind]; try exact I.
    rewrite (each_step F l (mk_it A vals s) T l') by (rewrite ?GN; assumption || lia).
    rewrite GN. cbn [fst snd]. apply IH; try lia. pose proof (step_grows _ _ _ ES). lia.
Qed.
End Each.

Definition avs_loop : stmt := nth 1 (fn_body fn_set__AddValues) SBreak.
Definition avs_cond : option expr := Eval cbv in match avs_loop with SFor _ c _ _ => c | _ => None end.
Definition avs_body : list stmt := Eval cbv in match avs_loop with SFor _ _ _ b => b | _ => [] end.
Definition rvs_loop : stmt := nth 1 (fn_body fn_set__RemoveValues) SBreak.
Definition rvs_cond : option expr := Eval cbv in match rvs_loop with SFor _ c _ _ => c | _ => None end.
Definition rvs_body : list stmt := Eval cbv in match rvs_loop with SFor _ _ _ b => b | _ => [] end.

Ltac each_exit_tac H c b :=
  unfold each_run; rewrite loop_S; unfold loop_step; match goal with |- context[interp_at _ _ _ _ ?F] => fuel F 30 end;
  unfold c, b, each_env; gorun; rewrite (gen_HasNext A zero ext) by lia; rewrite H; gorun; reflexivity.

Lemma avs_exit cls n sv F l it T : 30 <= F -> has_next it = false ->
  each_run cls n sv avs_cond avs_body (S F) l it T = ROk (SgNormal, each_env cls n sv l it ++ T).
Proof. intros HF H. each_exit_tac H avs_cond avs_body. Qed.
Lemma rvs_exit cls n sv F l it T : 30 <= F -> has_next it = false ->
  each_run cls n sv rvs_cond rvs_body (S F) l it T = ROk (SgNormal, each_env cls n sv l it ++ T).
Proof. intros HF H. each_exit_tac H rvs_cond rvs_body. Qed.

Lemma avs_step cls n sv B F l it T l' : (Z.of_nat B + 1 < two63)%Z -> 2 * B + 300 <= F -> length l <= B -> has_next it = true ->
  set_add zero rank l (fst (get_next zero it)) = Ret l' ->
  each_run cls n sv avs_cond avs_body (S F) l it T =
  each_run cls n sv avs_cond avs_body F l' (snd (get_next zero it)) (set 4%positive (VElem (fst (get_next zero it))) T).
Proof.
  intros HB HF HL H ES. pose proof (gen_set_AddValue cls n l (fst (get_next zero it))) as AV. rewrite ES in AV.
  unfold each_run. rewrite loop_S; unfold loop_step. fuel F 30. unfold avs_cond, avs_body, each_env. gorun.
  rewrite (gen_HasNext A zero ext) by lia. rewrite H. gorun.
  rewrite (gen_GetNext A zero ext) by lia. gorun. rewrite lookup_set_same. gorun.
  rewrite AV by lia. gorun. reflexivity.
Qed.
Lemma rvs_step cls n sv B F l it T l' : (Z.of_nat B + 1 < two63)%Z -> 2 * B + 300 <= F -> length l <= B -> has_next it = true ->
  set_remove zero rank l (fst (get_next zero it)) = Ret l' ->
  each_run cls n sv rvs_cond rvs_body (S F) l it T =
  each_run cls n sv rvs_cond rvs_body F l' (snd (get_next zero it)) (set 4%positive (VElem (fst (get_next zero it))) T).
Proof.
  intros HB HF HL H ES. pose proof (gen_set_RemoveValue cls n l (fst (get_next zero it))) as AV. rewrite ES in AV.
  unfold each_run. rewrite loop_S; unfold loop_step. fuel F 30. unfold rvs_cond, rvs_body, each_env. gorun.
  rewrite (gen_HasNext A zero ext) by lia. rewrite H. gorun.
  rewrite (gen_GetNext A zero ext) by lia. gorun. rewrite lookup_set_same. gorun.
  rewrite AV by lia. gorun. reflexivity.
Qed.

Lemma set_add_grows l v l' : set_add zero rank l v = Ret l' -> length l' <= S (length l).
Proof.
  unfold set_add. destruct (find_index zero rank l v) as [[k [|]]| |]; try discriminate.
  - intros E; injection E as <-. lia.
  - unfold insert_value. destruct (length l <? k); [discriminate|]. intros E; injection E as <-.
    rewrite app_length. cbn [length]. rewrite firstn_length, skipn_length. lia.
Qed.
Lemma remove_nth_le (k : nat) (l : list A) : length (remove_nth k l) <= length l.
Proof. revert k. induction l as [|h t IH]; intros [|k]; cbn; try lia. specialize (IH k). lia. Qed.
Lemma set_remove_grows l v l' : set_remove zero rank l v = Ret l' -> length l' <= S (length l).
Proof.
  unfold set_remove. destruct (find_index zero rank l v) as [[k [|]]| |]; try discriminate.
  - unfold remove_value. destruct (pos (length l) (Z.of_nat k)); [|discriminate]. cbn. intros E; injection E as <-.
    pose proof (remove_nth_le n l). lia.
  - intros E; injection E as <-. lia.
Qed.

(* the model's operations always return, for every ranker *)
Lemma set_add_ret l v : exists l', set_add zero rank l v = Ret l'.
Proof.
  unfold set_add. destruct (find_index_returns A zero rank l v) as [k [b [E [HK _]]]]. rewrite E.
  destruct b; [eexists; reflexivity|]. unfold insert_value. destruct (Nat.ltb_spec (length l) k); [lia|]. eexists; reflexivity.
Qed.
Lemma set_remove_ret l v : exists l', set_remove zero rank l v = Ret l'.
Proof.
  unfold set_remove. destruct (find_index_returns A zero rank l v) as [k [b [E [HK HB]]]]. rewrite E.
  destruct b; [|eexists; reflexivity]. specialize (HB eq_refl). unfold remove_value. rewrite pos_nat.
  destruct (Nat.eqb_spec k 0); [lia|]. destruct (Nat.ltb_spec (length l) k); [lia|]. eexists; reflexivity.
Qed.
Lemma fold_out_ret stepf (R : forall l v, exists l', stepf l v = Ret l') vs : forall l, exists l', fold_out stepf l vs = Ret l'.
Proof.
  induction vs as [|v t IH]; intros l; cbn [fold_out]; [eexists; reflexivity|].
  destruct (R l v) as [l1 E]. rewrite E. cbn [out_bind]. apply IH.
Qed.

Lemma gen_set_AddValues cls n l sv src F :
  seq_operand A zero ext sv src -> (Z.of_nat (length l + length src) + 1 < two63)%Z ->
  3 * (length l + length src) + 400 <= F ->
  call_at F (set_val cls n l) id_AddValues [sv] =
  match set_add_all zero rank l src with
  | Ret l' => ROk (VTuple [], set_val cls n l') | _ => RStuck
  end.
Proof.
  intros OP HL HF. rewrite set_add_all_fold.
  fuel F 50. gocall. op_iter OP. gorun.
  match goal with |- context[i_loop (interp_at A zero ext prog ?FF) ?c ?p ?b ?en] =>
    pose proof (each_sim cls n sv avs_cond avs_body (set_add zero rank) (length l + length src)
                  (avs_exit cls n sv) (fun F0 l0 it0 T0 l0' => avs_step cls n sv (length l + length src) F0 l0 it0 T0 l0' ltac:(lia))
                  set_add_grows (length src) src 0 l [] FF ltac:(lia) ltac:(lia) ltac:(lia) ltac:(lia)) as SIM;
    change (i_loop (interp_at A zero ext prog FF) c p b en) with (each_run cls n sv avs_cond avs_body FF l (mk_it A src 0) [])
  end.
  cbn [skipn] in SIM. destruct (fold_out_ret (set_add zero rank) set_add_ret src l) as [l' E]. rewrite E in *.
  destruct SIM as [it' [T' SIM]]. rewrite SIM. unfold each_env. gorun. reflexivity.
Qed.

Lemma gen_set_RemoveValues cls n l sv src F :
  seq_operand A zero ext sv src -> (Z.of_nat (length l + length src) + 1 < two63)%Z ->
  3 * (length l + length src) + 400 <= F ->
  call_at F (set_val cls n l) id_RemoveValues [sv] =
  match set_remove_all zero rank l src with
  | Ret l' => ROk (VTuple [], set_val cls n l') | _ => RStuck
  end.
Proof.
  intros OP HL HF. rewrite set_remove_all_fold.
  fuel F 50. gocall. op_iter OP. gorun.
  match goal with |- context[i_loop (interp_at A zero ext prog ?FF) ?c ?p ?b ?en] =>
    pose proof (each_sim cls n sv rvs_cond rvs_body (set_remove zero rank) (length l + length src)
                  (rvs_exit cls n sv) (fun F0 l0 it0 T0 l0' => rvs_step cls n sv (length l + length src) F0 l0 it0 T0 l0' ltac:(lia))
                  set_remove_grows (length src) src 0 l [] FF ltac:(lia) ltac:(lia) ltac:(lia) ltac:(lia)) as SIM;
    change (i_loop (interp_at A zero ext prog FF) c p b en) with (each_run cls n sv rvs_cond rvs_body FF l (mk_it A src 0) [])
  end.
  cbn [skipn] in SIM. destruct (fold_out_ret (set_remove zero rank) set_remove_ret src l) as [l' E]. rewrite E in *.
  destruct SIM as [it' [T' SIM]]. rewrite SIM. unfold each_env. gorun. reflexivity.
Qed.

(* ---------- histories executed by the generated methods ---------- *)
Definition gen_sop (o : sop A) : ident * list (val A) :=
  match o with
  | SAdd _ v => (id_AddValue, [VElem v])
  | SRemove _ v => (id_RemoveValue, [VElem v])
  | SAddAll _ vs => (id_AddValues, [arr_val vs])
  | SRemoveAll _ vs => (id_RemoveValues, [arr_val vs])
  | SClear _ => (id_RemoveAll, [])
  end.
Fixpoint gen_srun (F : nat) (recv : val A) (ops : list (sop A)) : option (val A) :=
  match ops with
  | [] => Some recv
  | o :: rest =>
    match call_at F recv (fst (gen_sop o)) (snd (gen_sop o)) with
    | ROk (_, recv') => gen_srun F recv' rest
    | RPanic recv' => gen_srun F recv' rest
    | _ => None
    end
  end.
(* the values an operation brings along, and a bound on the size of every list of the history *)
Definition sop_size (o : sop A) : nat := match o with SAddAll _ vs | SRemoveAll _ vs => length vs | _ => 1 end.
Definition hist_size (l : list A) (ops : list (sop A)) : nat := length l + list_sum (map sop_size ops).

Lemma sstep_ret l o : exists l', sstep A zero rank l o = Ret l'.
Proof.
  destruct o; cbn [sstep]; try apply set_add_ret; try apply set_remove_ret.
  - rewrite set_add_all_fold. apply fold_out_ret, set_add_ret.
  - rewrite set_remove_all_fold. apply fold_out_ret, set_remove_ret.
  - eexists; reflexivity.
Qed.
Lemma fold_out_grows stepf (G : forall l v l', stepf l v = Ret l' -> length l' <= S (length l)) vs :
  forall l l', fold_out stepf l vs = Ret l' -> length l' <= length l + length vs.
Proof.
  induction vs as [|v t IH]; intros l l' E; cbn [fold_out] in E.
  - injection E as <-. cbn. lia.
  - destruct (stepf l v) as [l1| |] eqn:ES; try discriminate. cbn [out_bind] in E.
    pose proof (G _ _ _ ES). pose proof (IH _ _ E). cbn [length]. lia.
Qed.
Lemma sstep_grows l o l' : sstep A zero rank l o = Ret l' -> length l' <= length l + sop_size o.
Proof.
  destruct o; cbn [sstep sop_size]; intros E.
  - pose proof (set_add_grows _ _ _ E). lia.
  - pose proof (set_remove_grows _ _ _ E). lia.
  - rewrite set_add_all_fold in E. apply (fold_out_grows _ set_add_grows) in E. exact E.
  - rewrite set_remove_all_fold in E. apply (fold_out_grows _ set_remove_grows) in E. exact E.
  - injection E as <-. cbn. lia.
Qed.

Lemma gen_sstep cls n l o F : (Z.of_nat (length l + sop_size o) + 1 < two63)%Z -> 3 * (length l + sop_size o) + 400 <= F ->
  exists l' v, sstep A zero rank l o = Ret l' /\
    call_at F (set_val cls n l) (fst (gen_sop o)) (snd (gen_sop o)) = ROk (v, set_val cls n l').
Proof.
  intros HL HF. destruct (sstep_ret l o) as [l' E]. exists l'. destruct o; cbn [sstep gen_sop fst snd sop_size] in *.
  - rewrite gen_set_AddValue by lia. rewrite E. eexists; split; reflexivity.
  - rewrite gen_set_RemoveValue by lia. rewrite E. eexists; split; reflexivity.
  - rewrite (gen_set_AddValues cls n l (arr_val vs) vs) by (try apply seq_operand_arr; lia). rewrite E. eexists; split; reflexivity.
  - rewrite (gen_set_RemoveValues cls n l (arr_val vs) vs) by (try apply seq_operand_arr; lia). rewrite E. eexists; split; reflexivity.
  - rewrite gen_set_RemoveAll by lia. injection E as <-. eexists; split; reflexivity.
Qed.

(* every history run by the generated methods ends in the list the model's history ends in, for every ranker;
   fuel: three units per value the set can hold along the history, plus 400 *)
Theorem gen_srun_is_srun cls n ops : forall l F,
  (Z.of_nat (hist_size l ops) + 1 < two63)%Z -> 3 * hist_size l ops + 400 <= F ->
  exists l', srun A zero rank l ops = Ret l' /\ gen_srun F (set_val cls n l) ops = Some (set_val cls n l').
Proof.
  induction ops as [|o rest IH]; intros l F HL HF; cbn [gen_srun srun].
  - eexists; split; reflexivity.
  - change (hist_size l (o :: rest)) with (length l + (sop_size o + list_sum (map sop_size rest))) in *.
    destruct (gen_sstep cls n l o F ltac:(lia) ltac:(lia)) as [l1 [v [E C]]]. rewrite E, C. cbn [out_bind].
    pose proof (sstep_grows _ _ _ E). apply IH; unfold hist_size; lia.
Qed.
End GenC02.

(* ---------- the statement of C02 for the generated code (closed by [exact]) ---------- *)
(* C02_search_terminates_for_every_ranker, for the search as translated from set.go: whatever the collator's
   RankValues answers (any function, consistent or not), the generated findIndex returns (it neither panics nor
   runs out of fuel length l + 120), with the result of the model's search, a slot in 0..size *)
Theorem C02_gen_search_terminates_for_every_ranker :
  forall (A : Type) (zero : A) (rank : A -> A -> comparison) (cls n : val A) (l : list A) (x : A) (F : nat),
    length l + 120 <= F ->
    exists (k : nat) (b : bool),
      find_index zero rank l x = Ret (k, b) /\ k <= length l /\ (b = true -> 1 <= k) /\
      run_method A zero (rank_ext rank) prog F (set_val cls n l) id_findIndex [VElem x] =
        Ret (VTuple [VInt (Z.of_nat k); VBool b], set_val cls n l).
Proof.
  intros A zero rank cls n l x F HF.
  destruct (gen_set_findIndex A zero rank cls n l x F HF) as [k [b [E C]]].
  destruct (find_index_returns A zero rank l x) as [k' [b' [E' [B1 B2]]]].
  rewrite E in E'. injection E' as <- <-. exists k, b. repeat split; try assumption.
  unfold run_method, call_at. rewrite C. reflexivity.
Qed.

Theorem C02_gen_methods_compute_the_model :
  forall (A : Type) (zero : A) (rank : A -> A -> comparison) (cls n : val A) (l : list A) (x : A) (F : nat),
    (Z.of_nat (length l) + 1 < two63)%Z -> 2 * length l + 260 <= F ->
    let run := run_method A zero (rank_ext rank) prog F (set_val cls n l) in
    run id_AddValue [VElem x] = match set_add zero rank l x with Ret l' => Ret (VTuple [], set_val cls n l') | _ => Panic end /\
    run id_RemoveValue [VElem x] = match set_remove zero rank l x with Ret l' => Ret (VTuple [], set_val cls n l') | _ => Panic end /\
    run id_ContainsValue [VElem x] = match set_contains zero rank l x with Ret b => Ret (VBool b, set_val cls n l) | _ => Hang end /\
    run id_GetIndex [VElem x] = match set_get_index zero rank l x with Ret k => Ret (VInt (Z.of_nat k), set_val cls n l) | _ => Hang end.
Proof.
  intros A zero rank cls n l x F HL HF run. unfold run, run_method, call_at.
  rewrite gen_set_AddValue, gen_set_RemoveValue, gen_set_ContainsValue, gen_set_GetIndex by lia. repeat split.
  - destruct (set_add zero rank l x); reflexivity.
  - destruct (set_remove zero rank l x); reflexivity.
  - destruct (set_contains zero rank l x); reflexivity.
  - destruct (set_get_index zero rank l x); reflexivity.
Qed.

(* every history (AddValue, RemoveValue, AddValues, RemoveValues, RemoveAll) run by the generated methods, for EVERY
   ranker, ends in the list the model's history ends in *)
Theorem C02_gen_history_is_the_model_history :
  forall (A : Type) (zero : A) (rank : A -> A -> comparison) (cls n : val A) (ops : list (sop A)) (l : list A) (F : nat),
    (Z.of_nat (hist_size A l ops) + 1 < two63)%Z -> 3 * hist_size A l ops + 400 <= F ->
    exists l', srun A zero rank l ops = Ret l' /\
               gen_srun A zero rank F (set_val cls n l) ops = Some (set_val cls n l').
Proof. exact gen_srun_is_srun. Qed.

(* C02_every_history_strictly_ordered for the generated methods: under any total preorder every history keeps the
   underlying list strictly sorted *)
Theorem C02_gen_every_history_strictly_ordered :
  forall (A : Type) (zero : A) (rank : A -> A -> comparison),
    total_preorder A rank ->
    forall (cls n : val A) (ops : list (sop A)) (l : list A) (F : nat),
    StrictSorted A rank l ->
    (Z.of_nat (hist_size A l ops) + 1 < two63)%Z -> 3 * hist_size A l ops + 400 <= F ->
    exists l', gen_srun A zero rank F (set_val cls n l) ops = Some (set_val cls n l') /\ StrictSorted A rank l'.
Proof.
  intros A zero rank TP cls n ops l F HS HL HF.
  destruct (gen_srun_is_srun A zero rank cls n ops l F HL HF) as [l' [E G]].
  destruct (C02_inv A zero rank TP ops l HS) as [l'' [E' S']]. rewrite E in E'. injection E' as <-.
  exists l'. split; assumption.
Qed.

(* C02_every_history_is_the_mathematical_set for the generated methods: membership after the history = added and
   not removed since *)
Theorem C02_gen_every_history_is_the_mathematical_set :
  forall (A : Type) (zero : A) (rank : A -> A -> comparison),
    total_preorder A rank ->
    forall (cls n : val A) (ops : list (sop A)) (l : list A) (F : nat),
    StrictSorted A rank l ->
    (Z.of_nat (hist_size A l ops) + 1 < two63)%Z -> 3 * hist_size A l ops + 400 <= F ->
    exists l', gen_srun A zero rank F (set_val cls n l) ops = Some (set_val cls n l') /\
      forall (x : A) (m : bool), (mem A rank x l <-> m = true) -> (mem A rank x l' <-> spec_member A rank ops x m = true).
Proof.
  intros A zero rank TP cls n ops l F HS HL HF.
  destruct (gen_srun_is_srun A zero rank cls n ops l F HL HF) as [l' [E G]].
  exists l'. split; [exact G|]. apply (C02_membership A zero rank TP ops l l' HS E).
Qed.

(* non-vacuity: the history add 22, add 11, add 22 (already there), remove 33 (absent), add [5;11;40], remove [22] run by
   the generated methods on the empty set *)
Example C02_gen_history_example :
  gen_srun Z 0%Z Z.compare 500 (set_val VNil VNil [])
    [SAdd Z 22%Z; SAdd Z 11%Z; SAdd Z 22%Z; SRemove Z 33%Z; SAddAll Z [5; 11; 40]%Z; SRemoveAll Z [22]%Z] =
  Some (set_val VNil VNil [5; 11; 40]%Z).
Proof. vm_compute. reflexivity. Qed.

(* non-vacuity: the set [11;22;33] searched with the order of Z and with the inconsistent ranker "always greater" *)
Example C02_gen_search_example :
  run_method Z 0%Z (rank_ext Z.compare) prog 130 (set_val VNil VNil [11; 22; 33]%Z) id_findIndex [VElem 22%Z] =
    Ret (VTuple [VInt 2; VBool true], set_val VNil VNil [11; 22; 33]%Z) /\
  run_method Z 0%Z (rank_ext (fun _ _ => Gt)) prog 130 (set_val VNil VNil [11; 22; 33]%Z) id_findIndex [VElem 22%Z] =
    Ret (VTuple [VInt 3; VBool false], set_val VNil VNil [11; 22; 33]%Z).
Proof. split; vm_compute; reflexivity. Qed.

Print Assumptions C02_gen_search_terminates_for_every_ranker.
Print Assumptions C02_gen_methods_compute_the_model.
Print Assumptions C02_gen_history_is_the_model_history.
Print Assumptions C02_gen_every_history_strictly_ordered.
Print Assumptions C02_gen_every_history_is_the_mathematical_set.
