(* GenC02.v — property C02 for the GENERATED set methods (GenSrc.v, regenerated from v4/collection/set.go and the
   list / array / iterator methods they call): the iterative binary search findIndex computes Coll.find_index for
   an ARBITRARY ranker (the collator's RankValues is the oracle [rank_ext rank] of the semantics, any function
   A -> A -> comparison), hence terminates with a slot in 0..size for every ranker.
   Not part of the common build: compiled by ./check C02. *)
From Verif Require Import Base Seq ListImpl Coll SeqProofs SetProofs MiniGo GenSrc GenRep GenLib GenIter GenSeq.

Section GenC02.
Variable A : Type.
Variable zero : A.
Variable rank : A -> A -> comparison.
Notation ext := (rank_ext rank).
Notation call_at F := (i_call (interp_at A zero ext prog F)).

Lemma gen_set_GetSize cls n l F : 20 <= F ->
  call_at F (set_val cls n l) id_GetSize [] = ROk (VInt (Z.of_nat (length l)), set_val cls n l).
Proof. intros HF. fuel F 20. gocall. rewrite (gen_list_GetSize A zero ext) by lia. gorun. reflexivity. Qed.

Lemma gen_set_GetValue cls n l (k : nat) F : 1 <= k <= length l -> 40 <= F ->
  call_at F (set_val cls n l) id_GetValue [VInt (Z.of_nat k)] = ROk (VElem (nth (k - 1) l zero), set_val cls n l).
Proof.
  intros HK HF. fuel F 14. gocall. rewrite (gen_list_GetValue A zero ext) by lia. rewrite pos_nat.
  destruct (Nat.eqb_spec k 0); [lia|]. destruct (Nat.ltb_spec (length l) k); [lia|]. cbn [orb]. gorun. reflexivity.
Qed.

(* the collator's RankValues, answered by the oracle *)
Lemma gen_RankValues a b F : 1 <= F ->
  call_at F col_val id_RankValues [VElem a; VElem b] = ROk (VInt (rank_code (rank a b)), col_val).
Proof. intros HF. fuel F 1. gocall. reflexivity. Qed.

(* ---------- findIndex: "for size > 0 { middle = first + size/2; candidate = GetValue(middle); switch Rank.. }" ---------- *)
(* variables: v value index found first last size middle candidate *)
Definition fi_loop : stmt := nth 5 (fn_body fn_set__findIndex) SBreak.
Definition fi_cond : option expr := Eval cbv in match fi_loop with SFor _ c _ _ => c | _ => None end.
Definition fi_body : list stmt := Eval cbv in match fi_loop with SFor _ _ _ b => b | _ => [] end.

Section Fi.
Variables (cls n : val A) (l : list A) (x : A).
Definition fi_env (first last size : nat) : env A :=
  [(1%positive, set_val cls n l); (2%positive, VElem x); (3%positive, VInt 0); (4%positive, VBool false);
   (5%positive, VInt (Z.of_nat first)); (6%positive, VInt (Z.of_nat last)); (7%positive, VInt (Z.of_nat size))].
Definition fi_run F first last size T :=
  i_loop (interp_at A zero ext prog F) fi_cond None fi_body (fi_env first last size ++ T).
(* the search window: ordinals first..last, size = last + 1 - first, inside the list *)
Definition fi_inv (first last size : nat) : Prop := 1 <= first /\ last + 1 = first + size /\ last <= length l.

Lemma quot2 (s : nat) : Z.quot (Z.of_nat s) 2 = Z.of_nat (s / 2).
Proof. rewrite Z.quot_div_nonneg by lia. rewrite (Nat2Z.inj_div s 2). reflexivity. Qed.

Lemma fi_exit F first last T : 30 <= F ->
  fi_run (S F) first last 0 T = ROk (SgNormal, fi_env first last 0 ++ T).
Proof. intros HF. unfold fi_run. rewrite loop_S; unfold loop_step. fuel F 30. unfold fi_cond, fi_body, fi_env. gogo. reflexivity. Qed.

Ltac fi_iter F first size :=
  unfold fi_run; rewrite loop_S; unfold loop_step; fuel F 60; unfold fi_cond, fi_body, fi_env; gogo;
  rewrite quot2; replace (Z.of_nat first + Z.of_nat (size / 2))%Z with (Z.of_nat (first + size / 2)) by lia;
  rewrite ?lookup_set_same; gorun.

Lemma fi_step F first last size T (middle := first + size / 2) (c := rank x (nth (middle - 1) l zero)) :
  70 <= F -> fi_inv first last size -> 0 < size ->
  exists T',
    fi_run (S F) first last size T =
    match c with
    | Lt => fi_run F first (middle - 1) (middle - first) T'
    | Eq => ROk (SgReturn (VTuple [VInt (Z.of_nat middle); VBool true]), fi_env first last size ++ T')
    | Gt => fi_run F (middle + 1) last (last - middle) T'
    end.
Proof.
  intros HF [I1 [I2 I3]] HS.
  assert (HM : first <= middle <= last) by (unfold middle; pose proof (Nat.div_lt size 2 HS ltac:(lia)); lia).
  eexists. fi_iter F first size. fold middle.
  rewrite gen_set_GetValue by lia. gorun. rewrite ?lookup_set_same. gorun.
  rewrite gen_RankValues by lia. gorun. fold c. rewrite ?lookup_set_same.
  destruct c; cbn [rank_code]; gogo.
  all: repeat (rewrite ?(lookup_set_other 8%positive 9%positive) by discriminate; rewrite ?lookup_set_same; gorun).
  - reflexivity.
  - replace (Z.of_nat middle - 1)%Z with (Z.of_nat (middle - 1)) by lia.
    replace (Z.of_nat middle - Z.of_nat first)%Z with (Z.of_nat (middle - first)) by lia. reflexivity.
  - replace (Z.of_nat middle + 1)%Z with (Z.of_nat (middle + 1)) by lia.
    replace (Z.of_nat last - Z.of_nat middle)%Z with (Z.of_nat (last - middle)) by lia. reflexivity.
Qed.

Lemma fi_sim : forall mf first last size T F, fi_inv first last size -> mf + 72 <= F ->
  match find_index_loop zero rank mf l x first last size with
  | Ret (k, true) => exists f' la' s' T',
      fi_run F first last size T = ROk (SgReturn (VTuple [VInt (Z.of_nat k); VBool true]), fi_env f' la' s' ++ T')
  | Ret (k, false) => exists f' s' T', fi_run F first last size T = ROk (SgNormal, fi_env f' k s' ++ T')
  | _ => True
  end.
Proof.
  induction mf as [|mf IH]; intros first last size T F INV HF; (destruct F as [|F]; [lia|]); cbn [find_index_loop].
  - destruct size as [|s]; cbn [Nat.eqb]; [|exact I]. rewrite fi_exit by lia. eexists _, _, _. reflexivity.
  - destruct size as [|s]; cbn [Nat.eqb]. { rewrite fi_exit by lia. eexists _, _, _. reflexivity. }
    destruct (fi_step F first last (S s) T ltac:(lia) INV ltac:(lia)) as [T' ST]. rewrite ST. clear ST.
    destruct INV as [I1 [I2 I3]].
    assert (HM : first <= first + S s / 2 <= last) by (pose proof (Nat.div_lt (S s) 2 ltac:(lia) ltac:(lia)); lia).
    destruct (rank x (nth (first + S s / 2 - 1) l zero)).
    + eexists _, _, _, _. reflexivity.
    + apply IH; [unfold fi_inv; lia|lia].
    + apply IH; [unfold fi_inv; lia|lia].
Qed.
End Fi.

(* findIndex(value) is Coll.find_index, for every ranker: one unit of fuel per halving, plus a constant *)
Lemma gen_set_findIndex cls n l x F : length l + 120 <= F ->
  exists k b, find_index zero rank l x = Ret (k, b) /\
    call_at F (set_val cls n l) id_findIndex [VElem x] = ROk (VTuple [VInt (Z.of_nat k); VBool b], set_val cls n l).
Proof.
  intros HF. destruct (find_index_returns A zero rank l x) as [k [b [E _]]]. exists k, b. split; [exact E|].
  unfold find_index in E. fuel F 40. gocall. rewrite gen_set_GetSize by lia. gorun.
  match goal with |- context[i_loop (interp_at A zero ext prog ?FF) ?c ?p ?b0 ?en] =>
    pose proof (fi_sim cls n l x (S (length l)) 1 (length l) (length l) [] FF ltac:(unfold fi_inv; lia) ltac:(lia)) as SIM;
    change (i_loop (interp_at A zero ext prog FF) c p b0 en) with (fi_run cls n l x FF 1 (length l) (length l) [])
  end.
  rewrite E in SIM. destruct b.
  - destruct SIM as [f' [la' [s' [T' SIM]]]]. rewrite SIM. unfold fi_env. gorun. reflexivity.
  - destruct SIM as [f' [s' [T' SIM]]]. rewrite SIM. unfold fi_env. gorun. reflexivity.
Qed.
End GenC02.

(* ---------- the statement of C02 for the generated code (closed by [exact]) ---------- *)
(* C02_search_terminates_for_every_ranker, for the search as translated from set.go: whatever the collator's
   RankValues answers (any function, consistent or not), the generated findIndex returns (it neither panics nor
   runs out of fuel length l + 120), with the result of the model's search, a slot in 0..size *)
Theorem C02_gen_search_terminates_for_every_ranker :
  forall (A : Type) (zero : A) (rank : A -> A -> comparison) (cls n : val A) (l : list A) (x : A) (F : nat),
    length l + 120 <= F ->
    exists (k : nat) (b : bool),
      find_index zero rank l x = Ret (k, b) /\ k <= length l /\ (b = true -> 1 <= k) /\
      run_method A zero (rank_ext rank) prog F (set_val cls n l) id_findIndex [VElem x] =
        Ret (VTuple [VInt (Z.of_nat k); VBool b], set_val cls n l).
Proof.
  intros A zero rank cls n l x F HF.
  destruct (gen_set_findIndex A zero rank cls n l x F HF) as [k [b [E C]]].
  destruct (find_index_returns A zero rank l x) as [k' [b' [E' [B1 B2]]]].
  rewrite E in E'. injection E' as <- <-. exists k, b. repeat split; try assumption.
  unfold run_method, call_at. rewrite C. reflexivity.
Qed.

(* non-vacuity: the set [11;22;33] searched with the order of Z and with the inconsistent ranker "always greater" *)
Example C02_gen_search_example :
  run_method Z 0%Z (rank_ext Z.compare) prog 130 (set_val VNil VNil [11; 22; 33]%Z) id_findIndex [VElem 22%Z] =
    Ret (VTuple [VInt 2; VBool true], set_val VNil VNil [11; 22; 33]%Z) /\
  run_method Z 0%Z (rank_ext (fun _ _ => Gt)) prog 130 (set_val VNil VNil [11; 22; 33]%Z) id_findIndex [VElem 22%Z] =
    Ret (VTuple [VInt 3; VBool false], set_val VNil VNil [11; 22; 33]%Z).
Proof. split; vm_compute; reflexivity. Qed.

Print Assumptions C02_gen_search_terminates_for_every_ranker.
