(* ScanUpto.v — scanning UP TO the first elision: the token list of a formatter output that holds
   "..." (LexRender.scannable speaks of whole renderings).  [scan_upto ts]: every token text before
   the first "..." token, followed by the rest of the rendering (the dots included), is picked by
   one round of scanTokens as its class and length; nothing is asked of what stands behind the
   first "...".  The su_* lemmas are the sc_* lemmas of LexRender.v for this predicate (same
   first-token lemmas); scan_upto_before turns it into ErrorTokens.scan_before for the prefix. *)
From Coq Require Import String Ascii.
From Verif Require Import Base Params Value Lexer Literals Parser LexerProofs LexBridge LexBridge2 LexBridge3 ParserProofs Complete StripInv ParseRun LexRender ErrorTokens.
Close Scope string_scope.
Open Scope Z_scope.

Definition elision_tok : rtok := (TError, [46; 46; 46]).

Inductive scan_upto : list rtok -> Prop :=
| su_nil : scan_upto []
| su_elision : forall rest, scan_upto (elision_tok :: rest)
| su_cons : forall ty text rest,
    try_types scan_order_t (text ++ render_toks rest) = Some (ty, length text) ->
    scan_upto rest -> scan_upto ((ty, text) :: rest).

Lemma render_toks_app_elision (a post : list rtok) :
  render_toks (a ++ elision_tok :: post) = render_toks a ++ 46 :: 46 :: 46 :: render_toks post.
Proof. unfold render_toks. rewrite flat_map_app. reflexivity. Qed.

Lemma su_integer ds rest : int_text ds -> sep_start (render_toks rest) -> scan_upto rest -> scan_upto ((TInteger, ds) :: rest).
Proof. intros H Sp S. apply su_cons; auto. apply first_integer; auto. Qed.
Lemma su_hex hs rest : hs <> [] -> forallb is_hex hs = true -> sep_start (render_toks rest) -> scan_upto rest ->
  scan_upto ((THexadecimal, 48 :: 120 :: hs) :: rest).
Proof.
  intros H1 H2 Sp S. apply su_cons; auto.
  change ((48 :: 120 :: hs) ++ render_toks rest) with (48 :: 120 :: hs ++ render_toks rest).
  rewrite (first_hex hs _ H1 H2 Sp). reflexivity.
Qed.
Lemma su_float txt rest : float_text txt -> sep_start (render_toks rest) -> scan_upto rest -> scan_upto ((TFloat, txt) :: rest).
Proof. intros H Sp S. apply su_cons; auto. apply first_float; auto. Qed.
Lemma su_complex f1 s f2 rest : float_text f1 -> is_sign s = true -> float_text f2 -> scan_upto rest ->
  scan_upto ((TComplex, 40 :: f1 ++ s :: f2 ++ [105; 41]) :: rest).
Proof.
  intros H1 Hs H2 S. apply su_cons; auto.
  replace ((40 :: f1 ++ s :: f2 ++ [105; 41]) ++ render_toks rest) with (40 :: f1 ++ s :: f2 ++ 105 :: 41 :: render_toks rest).
  - rewrite (first_complex f1 s f2 _ H1 Hs H2). f_equal. f_equal. simpl. rewrite !app_length. simpl. rewrite app_length. simpl. lia.
  - simpl. rewrite <- !app_assoc. simpl. rewrite <- app_assoc. reflexivity.
Qed.
Lemma su_type name rest : In name type_names -> scan_upto rest -> scan_upto ((TType, zs name) :: rest).
Proof.
  intros H S. apply su_cons; auto. rewrite (first_type name _ H). f_equal. f_equal.
  clear. induction name; simpl; auto.
Qed.
Lemma su_delim c rest : is_delim c = true -> c <> 40 -> scan_upto rest -> scan_upto ((TDelimiter, [c]) :: rest).
Proof. intros H N S. apply su_cons; auto; simpl; apply first_delim_not_paren; auto. Qed.
Lemma su_open_paren name rest : In name type_names -> scan_upto ((TType, zs name) :: rest) -> scan_upto ((TDelimiter, [40]) :: (TType, zs name) :: rest).
Proof.
  intros H S. apply su_cons; auto.
  change ([40] ++ render_toks ((TType, zs name) :: rest)) with (40 :: zs name ++ render_toks rest).
  apply first_open_paren_type; auto.
Qed.
Lemma su_eol rest : scan_upto rest -> scan_upto ((TEOL, [10]) :: rest).
Proof. intro S. apply su_cons; auto; simpl; apply first_eol. Qed.
Lemma su_true rest : scan_upto rest -> scan_upto ((TBoolean, zs "true") :: rest).
Proof. intro S. apply su_cons; auto; apply first_true. Qed.
Lemma su_false rest : scan_upto rest -> scan_upto ((TBoolean, zs "false") :: rest).
Proof. intro S. apply su_cons; auto; apply first_false. Qed.
Lemma su_nil_word rest : scan_upto rest -> scan_upto ((TNil, zs "nil") :: rest).
Proof. intro S. apply su_cons; auto; apply first_nil. Qed.
(* a run of spaces must end where the next text does not start with a space *)
Lemma su_spaces n rest : span is_space (render_toks rest) = 0%nat -> scan_upto rest ->
  scan_upto ((TSpace, repeat 32 (S n)) :: rest).
Proof.
  intros H Sc. apply su_cons; auto.
  change (repeat 32 (S n) ++ render_toks rest) with (32 :: (repeat 32 n ++ render_toks rest)).
  rewrite first_space. f_equal. f_equal. rewrite repeat_length. f_equal.
  induction n; simpl; [exact H|rewrite IHn; reflexivity].
Qed.
Lemma su_rune_plain c rest : c <> 39 -> c <> 10 -> c <> 92 -> scan_upto rest -> scan_upto ((TRune, [39; c; 39]) :: rest).
Proof. intros A B C S. apply su_cons; auto; simpl; apply first_rune_plain; auto. Qed.
Lemma su_rune_escape e rest : is_simple_esc e = true -> scan_upto rest -> scan_upto ((TRune, [39; 92; e; 39]) :: rest).
Proof. intros H S. apply su_cons; auto; simpl; apply first_rune_simple_escape; auto. Qed.
Lemma su_rune_x hs rest : hexes 2 hs -> scan_upto rest -> scan_upto ((TRune, 39 :: 92 :: 120 :: hs ++ [39]) :: rest).
Proof.
  intros H S. apply su_cons; auto.
  replace ((39 :: 92 :: 120 :: hs ++ [39]) ++ render_toks rest) with (39 :: 92 :: 120 :: hs ++ 39 :: render_toks rest)
    by (simpl; rewrite <- app_assoc; reflexivity).
  rewrite (first_rune_x hs _ H). destruct H as (L & _). f_equal. f_equal. simpl. rewrite app_length, L. reflexivity.
Qed.
Lemma su_rune_u hs rest : hexes 4 hs -> scan_upto rest -> scan_upto ((TRune, 39 :: 92 :: 117 :: hs ++ [39]) :: rest).
Proof.
  intros H S. apply su_cons; auto.
  replace ((39 :: 92 :: 117 :: hs ++ [39]) ++ render_toks rest) with (39 :: 92 :: 117 :: hs ++ 39 :: render_toks rest)
    by (simpl; rewrite <- app_assoc; reflexivity).
  rewrite (first_rune_u hs _ H). destruct H as (L & _). f_equal. f_equal. simpl. rewrite app_length, L. reflexivity.
Qed.
Lemma su_rune_U hs rest : hexes 8 hs -> scan_upto rest -> scan_upto ((TRune, 39 :: 92 :: 85 :: hs ++ [39]) :: rest).
Proof.
  intros H S. apply su_cons; auto.
  replace ((39 :: 92 :: 85 :: hs ++ [39]) ++ render_toks rest) with (39 :: 92 :: 85 :: hs ++ 39 :: render_toks rest)
    by (simpl; rewrite <- app_assoc; reflexivity).
  rewrite (first_rune_U hs _ H). destruct H as (L & _). f_equal. f_equal. simpl. rewrite app_length, L. reflexivity.
Qed.
Lemma su_string ps rest : forallb piece_good ps = true -> scan_upto rest ->
  scan_upto ((TString, 34 :: flat3 ps ++ [34]) :: rest).
Proof.
  intros H S. apply su_cons; auto.
  replace ((34 :: flat3 ps ++ [34]) ++ render_toks rest) with (34 :: flat3 ps ++ 34 :: render_toks rest)
    by (simpl; rewrite <- app_assoc; reflexivity).
  rewrite (first_string_full ps _ H). f_equal. f_equal. simpl. rewrite app_length. simpl. lia.
Qed.

(* a token list without an elision that is scannable up to the first elision is scannable *)
Lemma scan_upto_scannable ts : scan_upto ts -> Forall (fun x => fst x <> TError) ts -> scannable ts.
Proof.
  induction 1 as [|rest|ty text rest T S IH]; intros F.
  - constructor.
  - inversion F as [|? ? H _]; subst. exfalso. apply H. reflexivity.
  - inversion F; subst. constructor; auto.
Qed.

(* the prefix before the first elision is scannable in front of the dots and what follows them *)
Lemma scan_upto_before pre post : Forall (fun x => fst x <> TError) pre ->
  scan_upto (pre ++ elision_tok :: post) -> scan_before (46 :: 46 :: 46 :: render_toks post) pre.
Proof.
  induction pre as [|[ty text] r IH]; intros F S; [constructor|].
  inversion F as [|? ? Hty Fr]; subst. cbn [fst] in Hty. cbn [app] in S.
  inversion S as [|rest E|ty' text' rest' T S' E]; subst.
  - exfalso. apply Hty. unfold elision_tok in *. congruence.
  - constructor; [|apply IH; assumption].
    rewrite render_toks_app_elision in T. exact T.
Qed.
