(* GenC04.v — the machine whose queue methods are REGENERATED from v4/collection/queue.go
   (QueueSem.gstep over GenQueue.v) simulates, step for step, the hand-written machine of Conc.v
   about which the theorems of C04, C05 and C06 are.  Compiled by ./check C04 / C05 / C06 after the
   correspondence run (not part of the common build): when queue.go changes so that a lemma here
   fails, only those properties report it.

   What breaks these obligations: an access to the list outside the mutex, a second shared action
   in one segment (e.g. a fast path that looks at the list before the channel), a moved, dropped or
   renumbered scheduling point, blocking while the mutex is held, a method that assigns a field
   of the queue, a statement outside the subset of tools/goqueue, and any change of what a segment
   does to the list, the token count or the closed flag. *)
From Coq Require Import ZArith List String Bool Arith Lia.
From Verif Require Import Base Conc ConcProofs QueueLang GenQueue QueueSem.
Import ListNotations.
Open Scope Z_scope.
Open Scope list_scope.

(* ---- facts read off the regenerated bodies by computation ---- *)

(* every method of queue_ that the model speaks about keeps the lock discipline on every path *)
Lemma gen_lockset :
  forallb (fun m => lockset_ok (snd m))
          (filter (fun m => negb (String.eqb (fst m) "String") && negb (String.eqb (fst m) "GetClass")) gen_methods) = true.
Proof. vm_compute. reflexivity. Qed.

(* no method assigns a field of the queue: available_, capacity_, values_ are written by the constructor only *)
Lemma gen_no_field_writes : gen_field_writes = [].
Proof. reflexivity. Qed.

(* the continuations at the scheduling points inside the methods *)
Definition k_send : list qstmt := after_yield 2 gen_AddValue.
Definition k_pop : list qstmt := after_yield 4 gen_RemoveHead.
Definition k_disc : list qstmt := after_yield 10 gen_RemoveAll.
Definition k_all : list qstmt := after_yield 9 gen_RemoveAll.

(* ---- the simulation relation ---- *)
Definition gmk (pos : option (list qstmt * regs)) (th : thread) : gthread :=
  {| g_pos := pos; g_calls := tcalls th; g_loop := tloop th; g_res := tres th; g_stuck := false; g_bad := false |}.

Inductive Rth : thread -> gthread -> Prop :=
| R_idle th : tph th = PIdle -> Rth th (gmk None th)
| R_idle_all th q rest r : tph th = PIdle -> tcalls th = CRemoveAll q :: rest -> Rth th (gmk (Some (k_all, r)) th)
| R_send th q v rest : tph th = PSend q -> tcalls th = CAdd q v :: rest -> Rth th (gmk (Some (k_send, regs0)) th)
| R_pop th q rest : tph th = PPop q -> tcalls th = CRemoveHead q :: rest -> Rth th (gmk (Some (k_pop, set_ok regs0 true)) th)
| R_disc th q rest r : tph th = PDiscard q -> tcalls th = CRemoveAll q :: rest -> Rth th (gmk (Some (k_disc, r)) th)
| R_stuck th g : tph th = PStuck -> g_stuck g = true -> g_bad g = false -> g_res g = tres th -> Rth th g.

Definition Rc (c : config) (g : gconfig) : Prop :=
  queues c = gqueues g /\ wg c = gwg g /\ Forall2 Rth (threads c) (gthreads g).

Lemma Forall2_set_nth {A B} (R : A -> B -> Prop) : forall l m t a b,
  Forall2 R l m -> R a b -> Forall2 R (set_nth t a l) (set_nth t b m).
Proof.
  intros l m t a b H; revert t; induction H as [|x y l m Hxy H IH]; intros t Hab; destruct t; simpl; auto.
Qed.

Lemma Forall2_nth_R {A B} (R : A -> B -> Prop) da db : forall l m t,
  Forall2 R l m -> (t < length l)%nat -> R (nth t l da) (nth t m db).
Proof.
  intros l m t H; revert t; induction H as [|x y l m Hxy H IH]; intros t Ht; simpl in *; [lia|].
  destruct t; auto. apply IH; lia.
Qed.

Lemma Rc_set c g q s t th gth :
  Rc c g -> Rth th gth -> Rc (sett (setq c q s) t th) (gsett (gsetq g q s) t gth).
Proof.
  intros (Hq & Hw & Ht) Hr. unfold Rc, sett, setq, gsett, gsetq; simpl.
  rewrite Hq. repeat split; auto. apply Forall2_set_nth; auto.
Qed.

Lemma Rc_sett c g t th gth : Rc c g -> Rth th gth -> Rc (sett c t th) (gsett g t gth).
Proof.
  intros (Hq & Hw & Ht) Hr. unfold Rc, sett, gsett; simpl. repeat split; auto. apply Forall2_set_nth; auto.
Qed.

Lemma Rc_wg c g t th gth w :
  Rc c g -> Rth th gth ->
  Rc (sett {| queues := queues c; wg := w; threads := threads c |} t th)
     (gsett {| gqueues := gqueues g; gwg := w; gthreads := gthreads g |} t gth).
Proof.
  intros (Hq & Hw & Ht) Hr. unfold Rc, sett, gsett; simpl. repeat split; auto. apply Forall2_set_nth; auto.
Qed.

Lemma Rc_getq c g q : Rc c g -> ggetq g q = getq c q.
Proof. intros (Hq & _). unfold ggetq, getq. now rewrite Hq. Qed.

(* results of one step on both machines are related, or both machines cannot move *)
Definition sim (a : option config) (b : option gconfig) : Prop :=
  match a, b with
  | Some c', Some g' => Rc c' g'
  | None, None => True
  | _, _ => False
  end.

Lemma Rth_finish th rest r : Rth (finish th rest r) (gfinish (gmk None th) rest r).
Proof. apply (R_idle (finish th rest r)). reflexivity. Qed.

Lemma gfinish_pos p th rest r : gfinish (gmk p th) rest r = gfinish (gmk None th) rest r.
Proof. reflexivity. Qed.

Lemma Rth_finish_head th rest v ok : Rth (finish_head th rest v ok) (gfinish_head (gmk None th) rest v ok).
Proof.
  unfold finish_head, gfinish_head. simpl. destruct (continue (tloop th) v ok) as [more l'].
  apply (R_idle {| tph := PIdle; tcalls := rest ++ more; tloop := l'; tres := tres th ++ [RHead v ok] |}). reflexivity.
Qed.

Lemma gfinish_head_pos p th rest v ok : gfinish_head (gmk p th) rest v ok = gfinish_head (gmk None th) rest v ok.
Proof. reflexivity. Qed.

Lemma Rth_stuck th p : Rth (stuck th) (gstuck (gmk p th)).
Proof. apply R_stuck; reflexivity. Qed.

(* ---- what each segment of the regenerated methods does (all by conversion: the statements are
   the cases of Conc.step) ---- *)
Definition appended (s : qstate) (v : Z) : qstate :=
  {| qvals := qvals s ++ [v]; qtok := qtok s; qcap := qcap s; qclosed := qclosed s; qapp := qapp s ++ [v]; qpop := qpop s |}.
Definition published (s : qstate) : qstate :=
  {| qvals := qvals s; qtok := S (qtok s); qcap := qcap s; qclosed := false; qapp := qapp s; qpop := qpop s |}.
Definition claimed (s : qstate) : qstate :=
  {| qvals := qvals s; qtok := qtok s - 1; qcap := qcap s; qclosed := qclosed s; qapp := qapp s; qpop := qpop s |}.
Definition closedq (s : qstate) : qstate :=
  {| qvals := qvals s; qtok := qtok s; qcap := qcap s; qclosed := true; qapp := qapp s; qpop := qpop s |}.

Lemma seg_AddValue_append q v s : gsegment (CAdd q v) None s = GYield 2 k_send (appended s v) regs0.
Proof. reflexivity. Qed.

Lemma seg_AddValue_send q v s :
  gsegment (CAdd q v) (Some (k_send, regs0)) s =
  if qclosed s then GPanic s else if (qtok s <? qcap s)%nat then GEnd (published s) regs0 else GBlocked.
Proof. reflexivity. Qed.

Lemma seg_RemoveHead_receive q s :
  gsegment (CRemoveHead q) None s =
  if (0 <? qtok s)%nat then GYield 4 k_pop (claimed s) (set_ok regs0 true)
  else if qclosed s then GEnd s regs0 else GBlocked.
Proof. unfold gsegment. cbv - [Nat.ltb qclosed qtok qvals qcap qapp qpop]. destruct (0 <? qtok s)%nat, (qclosed s); reflexivity. Qed.

Lemma seg_RemoveHead_pop q s :
  gsegment (CRemoveHead q) (Some (k_pop, set_ok regs0 true)) s =
  match pop_head s with Some (v, s') => GEnd s' (set_head (set_ok regs0 true) v) | None => GPanic s end.
Proof. unfold gsegment. cbv - [pop_head]. destruct (pop_head s) as [[v s']|]; reflexivity. Qed.

Lemma seg_CloseQueue q s :
  gsegment (CClose q) None s = if qclosed s then GPanic s else GEnd (closedq s) regs0.
Proof. unfold gsegment. cbv - [qclosed qtok qvals qcap qapp qpop]. destruct (qclosed s); reflexivity. Qed.

Lemma seg_RemoveAll_try q s pos :
  pos = None \/ (exists r, pos = Some (k_all, r)) ->
  exists r1 r2,
  gsegment (CRemoveAll q) pos s =
  if (0 <? qtok s)%nat then GYield 10 k_disc (claimed s) r1 else GEnd s r2.
Proof.
  intros [->|[r ->]].
  - exists (set_ok regs0 true), (if qclosed s then set_ok regs0 false else regs0). unfold gsegment.
    cbv - [Nat.ltb qclosed qtok qvals qcap qapp qpop].
    destruct (0 <? qtok s)%nat, (qclosed s); reflexivity.
  - exists (set_ok r true), (if qclosed s then set_ok r false else r). unfold gsegment.
    cbv - [Nat.ltb qclosed qtok qvals qcap qapp qpop].
    destruct (0 <? qtok s)%nat, (qclosed s); reflexivity.
Qed.

Lemma seg_RemoveAll_discard q s r :
  gsegment (CRemoveAll q) (Some (k_disc, r)) s =
  match pop_head s with Some (_, s') => GYield 9 k_all s' r | None => GPanic s end.
Proof. unfold gsegment. cbv - [pop_head]. destruct (pop_head s) as [[v s']|]; reflexivity. Qed.

Lemma seg_GetSize q s : gsegment (CGetSize q) None s = GEnd s (set_len regs0 (qtok s)).
Proof. reflexivity. Qed.
Lemma seg_IsEmpty q s : gsegment (CIsEmpty q) None s = GEnd s (set_empty regs0 (qtok s =? 0)%nat).
Proof. reflexivity. Qed.
Lemma seg_AsArray q s : gsegment (CAsArray q) None s = GEnd s (set_snap regs0 (qvals s)).
Proof. reflexivity. Qed.

(* ---- one step of both machines ---- *)
Arguments gsegment : simpl never.

Lemma gstep_dummy g t : (length (gthreads g) <= t)%nat -> gstep g t = None.
Proof. intros H. unfold gstep, ggett. rewrite nth_overflow by lia. reflexivity. Qed.

Lemma step_dummy c t : (length (threads c) <= t)%nat -> step c t = None.
Proof. intros H. unfold step, gett. rewrite nth_overflow by lia. reflexivity. Qed.

Ltac finish_sim HR :=
  first
  [ apply Rc_set; [exact HR|]
  | apply Rc_sett; [exact HR|]
  | apply Rc_wg; [exact HR|] ];
  first
  [ apply Rth_finish | apply Rth_finish_head | apply Rth_stuck
  | rewrite gfinish_pos; apply Rth_finish
  | rewrite gfinish_head_pos; apply Rth_finish_head ].

Lemma Forall2_len {A B} (R : A -> B -> Prop) l m : Forall2 R l m -> length l = length m.
Proof. induction 1; simpl; congruence. Qed.

Lemma Rc_set_same c g q t th gth :
  Rc c g -> Rth th gth -> Rc (sett c t th) (gsett (gsetq g q (getq c q)) t gth).
Proof.
  intros HR Hr. pose proof HR as (Hq & Hw & Ht). unfold Rc, sett, gsett, gsetq, getq; simpl.
  rewrite <- Hq, set_nth_same. repeat split; auto. apply Forall2_set_nth; auto.
Qed.

Lemma gat_gmk p th k r : gat (gmk p th) k r = gmk (Some (k, r)) th.
Proof. reflexivity. Qed.

Theorem step_sim c g t : Rc c g -> sim (step c t) (gstep g t).
Proof.
  intros HR. pose proof HR as (Hq & Hw & Ht).
  destruct (Nat.lt_ge_cases t (length (threads c))) as [Hlt|Hge].
  2: { rewrite step_dummy by lia. rewrite gstep_dummy by (rewrite <- (Forall2_len _ _ _ Ht); lia). exact I. }
  pose proof (Forall2_nth_R Rth dummyt dummyg _ _ t Ht Hlt) as Hth.
  unfold step, gstep. fold (gett c t) in Hth. unfold ggett.
  set (th := gett c t) in *.
  destruct Hth as [th0 Hp | th0 q rest r Hp Hc | th0 q v rest Hp Hc | th0 q rest Hp Hc | th0 q rest r Hp Hc | th0 gth Hp Hs Hb Hres].
  - (* between calls *)
    rewrite Hp. cbn [g_stuck g_calls g_pos gmk].
    destruct (tcalls th0) as [|cl rest] eqn:Hc; [exact I|].
    destruct cl as [q v|q|q|q|q|q|q| |]; cbn [queue_of]; rewrite ?(Rc_getq c g) by exact HR.
    + rewrite seg_AddValue_append. cbn [sim]. apply Rc_set; [exact HR|].
      apply (R_send (in_phase th0 (PSend q)) q v rest); [reflexivity|exact Hc].
    + rewrite seg_RemoveHead_receive. destruct (0 <? qtok (getq c q))%nat.
      * cbn [sim]. apply Rc_set; [exact HR|]. apply (R_pop (in_phase th0 (PPop q)) q rest); [reflexivity|exact Hc].
      * destruct (qclosed (getq c q)); cbn [sim]; [|exact I].
        apply Rc_set_same; [exact HR|]. apply Rth_finish_head.
    + rewrite seg_CloseQueue. destruct (qclosed (getq c q)); cbn [sim].
      * apply Rc_set_same; [exact HR|]. apply Rth_stuck.
      * apply Rc_set; [exact HR|]. apply Rth_finish.
    + destruct (seg_RemoveAll_try q (getq c q) None (or_introl eq_refl)) as (r1 & r2 & E). rewrite E.
      destruct (0 <? qtok (getq c q))%nat; cbn [sim].
      * apply Rc_set; [exact HR|]. rewrite gat_gmk. apply (R_disc (in_phase th0 (PDiscard q)) q rest r1); [reflexivity|exact Hc].
      * apply Rc_set_same; [exact HR|]. apply Rth_finish.
    + rewrite seg_GetSize. cbn [sim]. apply Rc_set_same; [exact HR|]. apply Rth_finish.
    + rewrite seg_IsEmpty. cbn [sim]. apply Rc_set_same; [exact HR|]. apply Rth_finish.
    + rewrite seg_AsArray. cbn [sim]. apply Rc_set_same; [exact HR|]. apply Rth_finish.
    + rewrite <- Hw. destruct (wg c =? 0)%nat; cbn [sim]; [|exact I]. apply Rc_sett; [exact HR|]. apply Rth_finish.
    + rewrite <- Hw. cbn [sim]. destruct g as [gq gw gt]; simpl in *. subst gq gw.
      apply (Rc_wg c {| gqueues := queues c; gwg := wg c; gthreads := gt |}); [exact HR|]. apply Rth_finish.
  - (* RemoveAll, at the top of its loop again *)
    rewrite Hp, Hc. cbn [g_stuck g_calls g_pos gmk]. rewrite Hc. cbn [queue_of]. rewrite (Rc_getq c g) by exact HR.
    destruct (seg_RemoveAll_try q (getq c q) (Some (k_all, r)) (or_intror (ex_intro _ r eq_refl))) as (r1 & r2 & E). rewrite E.
    destruct (0 <? qtok (getq c q))%nat; cbn [sim].
    + apply Rc_set; [exact HR|]. rewrite gat_gmk. apply (R_disc (in_phase th0 (PDiscard q)) q rest r1); [reflexivity|exact Hc].
    + apply Rc_set_same; [exact HR|]. rewrite gfinish_pos. apply Rth_finish.
  - (* AddValue: publish the token *)
    rewrite Hp, Hc. cbn [g_stuck g_calls g_pos gmk]. rewrite Hc. cbn [queue_of]. rewrite (Rc_getq c g) by exact HR.
    rewrite seg_AddValue_send. destruct (qclosed (getq c q)); cbn [sim].
    + apply Rc_set_same; [exact HR|]. apply Rth_stuck.
    + destruct (qtok (getq c q) <? qcap (getq c q))%nat; cbn [sim]; [|exact I].
      apply Rc_set; [exact HR|]. rewrite gfinish_pos. apply Rth_finish.
  - (* RemoveHead: pop under the mutex *)
    rewrite Hp, Hc. cbn [g_stuck g_calls g_pos gmk]. rewrite Hc. cbn [queue_of]. rewrite (Rc_getq c g) by exact HR.
    rewrite seg_RemoveHead_pop. destruct (pop_head (getq c q)) as [[v s']|]; cbn [sim].
    + apply Rc_set; [exact HR|]. rewrite gfinish_head_pos. apply Rth_finish_head.
    + apply Rc_set_same; [exact HR|]. apply Rth_stuck.
  - (* RemoveAll: discard under the mutex *)
    rewrite Hp. cbn [g_stuck g_calls g_pos gmk]. rewrite Hc. cbn [queue_of]. rewrite (Rc_getq c g) by exact HR.
    rewrite seg_RemoveAll_discard. destruct (pop_head (getq c q)) as [[v s']|]; cbn [sim].
    + apply Rc_set; [exact HR|]. rewrite gat_gmk. apply (R_idle_all (in_phase th0 PIdle) q rest r); [reflexivity|exact Hc].
    + apply Rc_set_same; [exact HR|]. apply Rth_stuck.
  - (* a goroutine that panicked does not move *)
    rewrite Hp, Hs. exact I.
Qed.

(* ---- every schedule ---- *)
Theorem run_sim : forall sched c g, Rc c g -> Rc (run c sched) (grun g sched).
Proof.
  induction sched as [|t rest IH]; intros c g HR; simpl; [exact HR|].
  pose proof (step_sim c g t HR) as H. unfold sim in H.
  destruct (step c t) as [c'|], (gstep g t) as [g'|]; try contradiction; apply IH; assumption.
Qed.

Lemma Rc_load c : Forall (fun th => tph th = PIdle \/ tph th = PStuck) (threads c) -> Rc c (gload c).
Proof.
  intros H. unfold Rc, gload; simpl. repeat split; auto.
  induction H as [|th l Hth H IH]; simpl; constructor; auto.
  destruct Hth as [Hp|Hp].
  - replace (gload_thread th) with (gmk None th) by (unfold gload_thread, gmk; rewrite Hp; reflexivity).
    apply R_idle; exact Hp.
  - apply R_stuck; auto; unfold gload_thread; simpl; rewrite Hp; reflexivity.
Qed.

Lemma initial_load c : initial c -> Rc c (gload c).
Proof.
  intros [_ Hf]. apply Rc_load. eapply Forall_impl; [|exact Hf]. intros th [Hp _]. left; exact Hp.
Qed.

Lemma Rth_results th g : Rth th g -> g_res g = tres th /\ g_bad g = false.
Proof. destruct 1; auto. Qed.

Lemma Rc_observables c g : Rc c g ->
  gqueues g = queues c /\ gwg g = wg c /\ map g_res (gthreads g) = map tres (threads c) /\
  Forall (fun th => g_bad th = false) (gthreads g).
Proof.
  intros (Hq & Hw & Ht). repeat split; auto.
  - induction Ht as [|th gth l m Hr Ht IH]; simpl; [reflexivity|].
    destruct (Rth_results _ _ Hr) as [E _]. rewrite E, IH. reflexivity.
  - induction Ht as [|th gth l m Hr Ht IH]; constructor; auto. exact (proj2 (Rth_results _ _ Hr)).
Qed.

(* The machine over the regenerated method bodies, started on any program, under any schedule:
   the same queues, wait-group counter and per-goroutine results as the hand-written model,
   never outside the segment discipline, and blocked exactly when the model is blocked. *)
Theorem gen_machine_is_the_model c0 sched :
  initial c0 ->
  let g := grun (gload c0) sched in
  let c := run c0 sched in
  gqueues g = queues c /\ gwg g = wg c /\ map g_res (gthreads g) = map tres (threads c) /\
  Forall (fun th => g_bad th = false) (gthreads g) /\
  (forall t, gstep g t = None <-> step c t = None).
Proof.
  intros Hi g c. pose proof (run_sim sched c0 (gload c0) (initial_load c0 Hi)) as HR. fold g c in HR.
  destruct (Rc_observables c g HR) as (A & B & C & D). repeat split; auto.
  - intros H. pose proof (step_sim c g t HR) as S. rewrite H in S. unfold sim in S. destruct (step c t); [contradiction|reflexivity].
  - intros H. pose proof (step_sim c g t HR) as S. rewrite H in S. unfold sim in S. destruct (gstep g t); [contradiction|reflexivity].
Qed.

(* ---- the headline clauses of C04 / C05, for the regenerated code ---- *)
Definition greachable (g0 g : gconfig) : Prop := exists sched, grun g0 sched = g.

(* FIFO: in every reachable state of every program the pop history is a prefix of the append
   history and the list holds exactly the rest *)
Theorem gen_fifo c0 g q :
  initial c0 -> greachable (gload c0) g ->
  qapp (ggetq g q) = qpop (ggetq g q) ++ qvals (ggetq g q).
Proof.
  intros Hi [sched <-]. destruct (gen_machine_is_the_model c0 sched Hi) as (A & _).
  unfold ggetq. rewrite A. apply (fifo_prefix c0 (run c0 sched) q Hi). exists sched; reflexivity.
Qed.

(* the token count never exceeds the capacity (GetSize <= capacity) and the list accounts for
   every token *)
Theorem gen_tokens_within_capacity c0 g q :
  initial c0 -> greachable (gload c0) g -> (q < length (gqueues g))%nat ->
  (qtok (ggetq g q) <= qcap (ggetq g q))%nat /\ (qtok (ggetq g q) <= length (qvals (ggetq g q)))%nat.
Proof.
  intros Hi [sched <-] Hq. destruct (gen_machine_is_the_model c0 sched Hi) as (A & _).
  unfold ggetq in *. rewrite A in *.
  assert (Hr : reachable c0 (run c0 sched)) by (exists sched; reflexivity).
  pose proof (reachable_Q_inv c0 (run c0 sched) Hi Hr q Hq) as (H1 & H2 & _).
  unfold getq in *. split; [exact H1|]. rewrite H2. lia.
Qed.

(* the regenerated code never leaves the discipline under which a segment is one atomic step *)
Theorem gen_never_outside_the_discipline c0 g :
  initial c0 -> greachable (gload c0) g -> Forall (fun th => g_bad th = false) (gthreads g).
Proof. intros Hi [sched <-]. exact (proj1 (proj2 (proj2 (proj2 (gen_machine_is_the_model c0 sched Hi))))). Qed.

Print Assumptions gen_machine_is_the_model.
Print Assumptions gen_fifo.
Print Assumptions gen_tokens_within_capacity.
Print Assumptions gen_lockset.
