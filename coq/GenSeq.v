(* GenSeq.v — the generated methods of array.go and list.go that both C01 and C13 rest on (index
   arithmetic, element access, the constructors, and the rebuild loops InsertValue / RemoveValue) compute
   what the models of Seq.v / ListImpl.v compute.  Not part of the common build. *)
From Verif Require Import Base Seq ListImpl SeqProofs MiniGo GenSrc GenRep GenLib GenIter.

Section GenSeq.
Variable A : Type.
Variable zero : A.
Variable ext : ident -> ident -> val A -> list (val A) -> option (val A).
Notation call_at F := (i_call (interp_at A zero ext prog F)).
Notation it_rep := (it_rep A).

(* ---------- array.go ---------- *)
Lemma gen_array_GetSize l F : 6 <= F ->
  call_at F (arr_val l) id_GetSize [] = ROk (VInt (Z.of_nat (length l)), arr_val l).
Proof. intros HF. fuel F 6. gocall. rewrite elems_length. reflexivity. Qed.

Lemma gen_array_IsEmpty l F : 8 <= F ->
  call_at F (arr_val l) id_IsEmpty [] = ROk (VBool (length l =? 0), arr_val l).
Proof. intros HF. fuel F 8. gocall. rewrite elems_length. gogo; reflexivity. Qed.

(* toZeroBased is [pos]; the receiver is not modified *)
Lemma gen_toZeroBased l i F : 14 <= F ->
  call_at F (arr_val l) id_toZeroBased [VInt i] =
  match pos (length l) i with Some k => ROk (VInt (Z.of_nat k), arr_val l) | None => RPanic end.
Proof.
  intros HF. fuel F 14. unfold pos. gocall. rewrite gen_array_GetSize by lia. gogo.
  all: try reflexivity. all: unfold arr_val; goeq.
Qed.

Lemma gen_array_GetValue l i F : 20 <= F ->
  call_at F (arr_val l) id_GetValue [VInt i] =
  match pos (length l) i with Some k => ROk (VElem (nth k l zero), arr_val l) | None => RPanic end.
Proof.
  intros HF. fuel F 20. gocall. rewrite gen_toZeroBased by lia.
  pose proof (pos_some (length l) i) as P. destruct (pos (length l) i) as [k|]; gorun; [|reflexivity].
  specialize (P k eq_refl). rewrite (zidx_elems A zero) by lia. rewrite Nat2Z.id. reflexivity.
Qed.

Lemma gen_array_SetValue l i a F : 20 <= F ->
  call_at F (arr_val l) id_SetValue [VInt i; VElem a] =
  match pos (length l) i with Some k => ROk (VTuple [], arr_val (set_nth k a l)) | None => RPanic end.
Proof.
  intros HF. fuel F 20. gocall. rewrite gen_toZeroBased by lia.
  pose proof (pos_some (length l) i) as P. destruct (pos (length l) i) as [k|]; gorun; [|reflexivity].
  specialize (P k eq_refl). rewrite zset_elems by lia. rewrite Nat2Z.id. gorun. reflexivity.
Qed.

Lemma zcopy_fresh (l : list A) : zcopy A (repeat (VElem zero) (length l)) (elems l) = elems l.
Proof.
  unfold zcopy. rewrite repeat_length, elems_length.
  rewrite <- (elems_length A l) at 1. rewrite firstn_all.
  rewrite skipn_all2 by (rewrite repeat_length; lia). apply app_nil_r.
Qed.

(* AsArray: a fresh copy (make + copy) *)
Lemma gen_array_AsArray l F : (Z.of_nat (length l) < two63)%Z -> 12 <= F ->
  call_at F (arr_val l) id_AsArray [] = ROk (VSlice (elems l), arr_val l).
Proof.
  intros HL HF. fuel F 12. gocall. rewrite elems_length. gogo.
  rewrite Nat2Z.id, zcopy_fresh. reflexivity.
Qed.

Lemma gen_array_GetIterator l F : (Z.of_nat (length l) < two63)%Z -> 30 <= F ->
  call_at F (arr_val l) id_GetIterator [] = ROk (it_rep VNil (it_make l), arr_val l).
Proof.
  intros HL HF. fuel F 30. gocall. rewrite gen_array_AsArray by (assumption || lia). gorun.
  rewrite (gen_MakeFromArray A zero ext) by lia. gorun. reflexivity.
Qed.

(* Array[V](notation).Make(size): zero-filled *)
Lemma gen_arrayClass_Make fs (n : nat) F : (Z.of_nat n < two63)%Z -> 10 <= F ->
  call_at F (VObj id_arrayClass_ fs) id_Make [VInt (Z.of_nat n)] =
  ROk (arr_val (arr_make zero n), VObj id_arrayClass_ fs).
Proof.
  intros HN HF. fuel F 10. gocall. gogo. rewrite Nat2Z.id, (elems_repeat A zero). reflexivity.
Qed.

(* ---------- list.go: delegation to the array, index helpers ---------- *)
Lemma gen_list_GetSize n l F : 12 <= F ->
  call_at F (lst_val n l) id_GetSize [] = ROk (VInt (Z.of_nat (length l)), lst_val n l).
Proof. intros HF. fuel F 12. gocall. rewrite gen_array_GetSize by lia. gorun. reflexivity. Qed.

Lemma gen_list_IsEmpty n l F : 14 <= F ->
  call_at F (lst_val n l) id_IsEmpty [] = ROk (VBool (length l =? 0), lst_val n l).
Proof. intros HF. fuel F 14. gocall. rewrite gen_array_IsEmpty by lia. gorun. reflexivity. Qed.

Lemma gen_list_AsArray n l F : (Z.of_nat (length l) < two63)%Z -> 18 <= F ->
  call_at F (lst_val n l) id_AsArray [] = ROk (VSlice (elems l), lst_val n l).
Proof. intros HL HF. fuel F 18. gocall. rewrite gen_array_AsArray by (assumption || lia). gorun. reflexivity. Qed.

Lemma gen_list_GetIterator n l F : (Z.of_nat (length l) < two63)%Z -> 36 <= F ->
  call_at F (lst_val n l) id_GetIterator [] = ROk (it_rep VNil (it_make l), lst_val n l).
Proof. intros HL HF. fuel F 36. gocall. rewrite gen_array_GetIterator by (assumption || lia). gorun. reflexivity. Qed.

Lemma gen_list_GetClass n l F : 6 <= F ->
  call_at F (lst_val n l) id_GetClass [] = ROk (lcls_val n, lst_val n l).
Proof. intros HF. fuel F 6. gocall. reflexivity. Qed.

Lemma gen_listClass_Notation n F : 6 <= F ->
  call_at F (lcls_val n) id_Notation [] = ROk (n, lcls_val n).
Proof. intros HF. fuel F 6. gocall. reflexivity. Qed.

Lemma gen_list_GetValue n l i F : 26 <= F ->
  call_at F (lst_val n l) id_GetValue [VInt i] =
  match pos (length l) i with Some k => ROk (VElem (nth k l zero), lst_val n l) | None => RPanic end.
Proof.
  intros HF. fuel F 26. gocall. rewrite gen_array_GetValue by lia.
  destruct (pos (length l) i); gorun; reflexivity.
Qed.

(* toNormalized: the ordinal 1..size of a valid index *)
Lemma gen_toNormalized n l i F : 22 <= F ->
  call_at F (lst_val n l) id_toNormalized [VInt i] =
  match pos (length l) i with Some k => ROk (VInt (Z.of_nat (S k)), lst_val n l) | None => RPanic end.
Proof.
  intros HF. fuel F 22. unfold pos. gocall. rewrite gen_list_GetSize by lia. gogo.
  all: try reflexivity. all: unfold lst_val, lcls_val, arr_val; goeq.
Qed.

(* validateSlot(slot uint): panics when slot > size *)
Lemma gen_validateSlot n l (slot : nat) F : (Z.of_nat (length l) < two63)%Z -> 22 <= F ->
  call_at F (lst_val n l) id_validateSlot [VInt (Z.of_nat slot)] =
  if length l <? slot then RPanic else ROk (VTuple [], lst_val n l).
Proof.
  intros HL HF. fuel F 22. gocall. rewrite gen_list_GetSize by lia. gogo. all: reflexivity.
Qed.

Lemma gen_list_RemoveAll n l F : 30 <= F ->
  call_at F (lst_val n l) id_RemoveAll [] = ROk (VTuple [], lst_val n []).
Proof.
  intros HF. fuel F 30. gocall. rewrite gen_list_GetClass by lia. gorun.
  rewrite gen_listClass_Notation by lia. gorun.
  rewrite (gen_arrayClass_Make [] 0) by (unfold two63; cbn; lia). gorun. reflexivity.
Qed.
End GenSeq.
