(* GenSeq.v — the generated methods of array.go and list.go that both C01 and C13 rest on (index
   arithmetic, element access, the constructors, and the rebuild loops InsertValue / RemoveValue) compute
   what the models of Seq.v / ListImpl.v compute.  Not part of the common build. *)
From Verif Require Import Base Seq ListImpl SeqProofs MiniGo GenSrc GenRep GenLib GenIter.

Section GenSeq.
Variable A : Type.
Variable zero : A.
Variable ext : ident -> ident -> val A -> list (val A) -> option (val A).
Notation call_at F := (i_call (interp_at A zero ext prog F)).
Notation it_rep := (it_rep A).

(* ---------- array.go ---------- *)
Lemma gen_array_GetSize l F : 6 <= F ->
  call_at F (arr_val l) id_GetSize [] = ROk (VInt (Z.of_nat (length l)), arr_val l).
Proof. intros HF. fuel F 6. gocall. rewrite elems_length. reflexivity. Qed.

Lemma gen_array_IsEmpty l F : 8 <= F ->
  call_at F (arr_val l) id_IsEmpty [] = ROk (VBool (length l =? 0), arr_val l).
Proof. intros HF. fuel F 8. gocall. rewrite elems_length. gogo; reflexivity. Qed.

(* toZeroBased is [pos]; the receiver is not modified *)
Lemma gen_toZeroBased l i F : 14 <= F ->
  call_at F (arr_val l) id_toZeroBased [VInt i] =
  match pos (length l) i with Some k => ROk (VInt (Z.of_nat k), arr_val l) | None => RPanic (arr_val l) end.
Proof.
  intros HF. fuel F 14. unfold pos. gocall. rewrite gen_array_GetSize by lia. gogo.
  all: try reflexivity. all: unfold arr_val; goeq.
Qed.

Lemma gen_array_GetValue l i F : 20 <= F ->
  call_at F (arr_val l) id_GetValue [VInt i] =
  match pos (length l) i with Some k => ROk (VElem (nth k l zero), arr_val l) | None => RPanic (arr_val l) end.
Proof.
  intros HF. fuel F 20. gocall. rewrite gen_toZeroBased by lia.
  pose proof (pos_some (length l) i) as P. destruct (pos (length l) i) as [k|]; gorun; [|reflexivity].
  specialize (P k eq_refl). rewrite (zidx_elems A zero) by lia. rewrite Nat2Z.id. reflexivity.
Qed.

Lemma gen_array_SetValue l i a F : 20 <= F ->
  call_at F (arr_val l) id_SetValue [VInt i; VElem a] =
  match pos (length l) i with Some k => ROk (VTuple [], arr_val (set_nth k a l)) | None => RPanic (arr_val l) end.
Proof.
  intros HF. fuel F 20. gocall. rewrite gen_toZeroBased by lia.
  pose proof (pos_some (length l) i) as P. destruct (pos (length l) i) as [k|]; gorun; [|reflexivity].
  specialize (P k eq_refl). rewrite zset_elems by lia. rewrite Nat2Z.id. gorun. reflexivity.
Qed.

Lemma zcopy_fresh (l : list A) : zcopy A (repeat (VElem zero) (length l)) (elems l) = elems l.
Proof.
  unfold zcopy. rewrite repeat_length, elems_length.
  rewrite <- (elems_length A l) at 1. rewrite firstn_all.
  rewrite skipn_all2 by (rewrite repeat_length; lia). apply app_nil_r.
Qed.

(* AsArray: a fresh copy (make + copy) *)
Lemma gen_array_AsArray l F : (Z.of_nat (length l) < two63)%Z -> 12 <= F ->
  call_at F (arr_val l) id_AsArray [] = ROk (VSlice (elems l), arr_val l).
Proof.
  intros HL HF. fuel F 12. gocall. rewrite elems_length. gogo.
  rewrite Nat2Z.id, zcopy_fresh. reflexivity.
Qed.

Lemma gen_array_GetIterator l F : (Z.of_nat (length l) < two63)%Z -> 30 <= F ->
  call_at F (arr_val l) id_GetIterator [] = ROk (it_rep VNil (it_make l), arr_val l).
Proof.
  intros HL HF. fuel F 30. gocall. rewrite gen_array_AsArray by (assumption || lia). gorun.
  rewrite (gen_MakeFromArray A zero ext) by lia. gorun. reflexivity.
Qed.

(* Array[V](notation).Make(size): zero-filled *)
Lemma gen_arrayClass_Make fs (n : nat) F : (Z.of_nat n < two63)%Z -> 10 <= F ->
  call_at F (VObj id_arrayClass_ fs) id_Make [VInt (Z.of_nat n)] =
  ROk (arr_val (arr_make zero n), VObj id_arrayClass_ fs).
Proof.
  intros HN HF. fuel F 10. gocall. gogo. rewrite Nat2Z.id, (elems_repeat A zero). reflexivity.
Qed.

(* ---------- list.go: delegation to the array, index helpers ---------- *)
Lemma gen_list_GetSize n l F : 12 <= F ->
  call_at F (lst_val n l) id_GetSize [] = ROk (VInt (Z.of_nat (length l)), lst_val n l).
Proof. intros HF. fuel F 12. gocall. rewrite gen_array_GetSize by lia. gorun. reflexivity. Qed.

Lemma gen_list_IsEmpty n l F : 14 <= F ->
  call_at F (lst_val n l) id_IsEmpty [] = ROk (VBool (length l =? 0), lst_val n l).
Proof. intros HF. fuel F 14. gocall. rewrite gen_array_IsEmpty by lia. gorun. reflexivity. Qed.

Lemma gen_list_AsArray n l F : (Z.of_nat (length l) < two63)%Z -> 18 <= F ->
  call_at F (lst_val n l) id_AsArray [] = ROk (VSlice (elems l), lst_val n l).
Proof. intros HL HF. fuel F 18. gocall. rewrite gen_array_AsArray by (assumption || lia). gorun. reflexivity. Qed.

Lemma gen_list_GetIterator n l F : (Z.of_nat (length l) < two63)%Z -> 36 <= F ->
  call_at F (lst_val n l) id_GetIterator [] = ROk (it_rep VNil (it_make l), lst_val n l).
Proof. intros HL HF. fuel F 36. gocall. rewrite gen_array_GetIterator by (assumption || lia). gorun. reflexivity. Qed.

Lemma gen_list_GetClass n l F : 6 <= F ->
  call_at F (lst_val n l) id_GetClass [] = ROk (lcls_val n, lst_val n l).
Proof. intros HF. fuel F 6. gocall. reflexivity. Qed.

Lemma gen_listClass_Notation n F : 6 <= F ->
  call_at F (lcls_val n) id_Notation [] = ROk (n, lcls_val n).
Proof. intros HF. fuel F 6. gocall. reflexivity. Qed.

Lemma gen_list_GetValue n l i F : 26 <= F ->
  call_at F (lst_val n l) id_GetValue [VInt i] =
  match pos (length l) i with Some k => ROk (VElem (nth k l zero), lst_val n l) | None => RPanic (lst_val n l) end.
Proof.
  intros HF. fuel F 26. gocall. rewrite gen_array_GetValue by lia.
  destruct (pos (length l) i); gorun; reflexivity.
Qed.

(* toNormalized: the ordinal 1..size of a valid index *)
Lemma gen_toNormalized n l i F : 22 <= F ->
  call_at F (lst_val n l) id_toNormalized [VInt i] =
  match pos (length l) i with Some k => ROk (VInt (Z.of_nat (S k)), lst_val n l) | None => RPanic (lst_val n l) end.
Proof.
  intros HF. fuel F 22. unfold pos. gocall. rewrite gen_list_GetSize by lia. gogo.
  all: try reflexivity. all: unfold lst_val, lcls_val, arr_val; goeq.
Qed.

(* validateSlot(slot uint): panics when slot > size *)
Lemma gen_validateSlot n l (slot : nat) F : (Z.of_nat (length l) < two63)%Z -> 22 <= F ->
  call_at F (lst_val n l) id_validateSlot [VInt (Z.of_nat slot)] =
  if length l <? slot then RPanic (lst_val n l) else ROk (VTuple [], lst_val n l).
Proof.
  intros HL HF. fuel F 22. gocall. rewrite gen_list_GetSize by lia. gogo. all: reflexivity.
Qed.

Lemma gen_list_RemoveAll n l F : 30 <= F ->
  call_at F (lst_val n l) id_RemoveAll [] = ROk (VTuple [], lst_val n []).
Proof.
  intros HF. fuel F 30. gocall. rewrite gen_list_GetClass by lia. gorun.
  rewrite gen_listClass_Notation by lia. gorun.
  rewrite (gen_arrayClass_Make [] 0) by (unfold two63; cbn; lia). gorun. reflexivity.
Qed.

(* ---------- the rebuild loops of list.go ---------- *)
Lemma pos_ordinal (n k : nat) : pos n (Z.of_nat k + 1) = if n <? S k then None else Some k.
Proof. unfold pos. repeat zsplit; cbn [orb]; try lia; try reflexivity; f_equal; lia. Qed.

(* array.SetValue(index+1, a) as the loops use it: the model's [arr_set] *)
Lemma gen_arr_set arr (idx : nat) a F : 20 <= F ->
  call_at F (arr_val arr) id_SetValue [VInt (Z.of_nat idx + 1); VElem a] =
  match arr_set arr (S idx) a with Ret arr' => ROk (VTuple [], arr_val arr') | _ => RPanic (arr_val arr) end.
Proof.
  intros HF. rewrite gen_array_SetValue by lia. rewrite pos_ordinal. unfold arr_set. cbn [Nat.eqb orb].
  destruct (length arr <? S idx); [reflexivity|]. cbn [Nat.sub]. rewrite Nat.sub_0_r. reflexivity.
Qed.

Ltac loop_enter F K := destruct F as [|F]; [lia|]; rewrite loop_S; unfold loop_step; fuel F K.

(* InsertValue: "for index < int(size) { if index == int(slot) {..} else {..} }" *)
Definition iv_loop : stmt := nth 5 (fn_body fn_list__InsertValue) SBreak.
Definition iv_cond : option expr := Eval cbv in match iv_loop with SFor _ c _ _ => c | _ => None end.
Definition iv_body : list stmt := Eval cbv in match iv_loop with SFor _ _ _ b => b | _ => [] end.
(* the variables of InsertValue, numbered by declaration site: v slot value size array iterator index existing *)
Notation iv_v := 1%positive (only parsing).        Notation iv_slot := 2%positive (only parsing).
Notation iv_value := 3%positive (only parsing).    Notation iv_size := 4%positive (only parsing).
Notation iv_array := 5%positive (only parsing).    Notation iv_iterator := 6%positive (only parsing).
Notation iv_index := 7%positive (only parsing).    Notation iv_existing := 8%positive (only parsing).
Definition iv_env n l (slot : nat) a (size : nat) arr it (idx : nat) : env A :=
  [(iv_v, lst_val n l); (iv_slot, VInt (Z.of_nat slot)); (iv_value, VElem a); (iv_size, VInt (Z.of_nat size));
   (iv_array, arr_val arr); (iv_iterator, it_rep VNil it); (iv_index, VInt (Z.of_nat idx))].

Notation iv_at F n l slot a size arr it idx ex :=
  (i_loop (interp_at A zero ext prog F) iv_cond None iv_body (iv_env n l slot a size arr it idx ++ ex)).

Section IvSteps.
Variables (n : val A) (l : list A) (slot : nat) (a : A) (size : nat).
Hypothesis HS : (Z.of_nat size < two63)%Z.
Hypothesis HSl : (Z.of_nat slot < two63)%Z.
Variables (idx : nat) (it : iter A) (arr : list A) (ex : env A) (F : nat).
Hypothesis HF : 30 <= F.

Lemma iv_exit : size <= idx ->
  iv_at (S F) n l slot a size arr it idx ex = ROk (SgNormal, iv_env n l slot a size arr it idx ++ ex).
Proof. intros H. rewrite loop_S; unfold loop_step. fuel F 30. unfold iv_cond, iv_body, iv_env. gogo. reflexivity. Qed.

Lemma iv_step_new arr' : idx < size -> idx = slot -> arr_set arr (S idx) a = Ret arr' ->
  iv_at (S F) n l slot a size arr it idx ex = iv_at F n l slot a size arr' it (S idx) ex.
Proof.
  intros H E EA. pose proof (gen_arr_set arr idx a) as GS. rewrite EA in GS.
  rewrite loop_S; unfold loop_step. fuel F 30. unfold iv_cond, iv_body, iv_env. gogo.
  rewrite GS by lia. gorun. replace (Z.of_nat idx + 1)%Z with (Z.of_nat (S idx)) by lia. reflexivity.
Qed.

Hypothesis Hex : forall w, set iv_existing w ex = [(iv_existing, w)].

Lemma iv_step_old arr' : idx < size -> idx <> slot -> arr_set arr (S idx) (fst (get_next zero it)) = Ret arr' ->
  iv_at (S F) n l slot a size arr it idx ex =
  iv_at F n l slot a size arr' (snd (get_next zero it)) (S idx) [(iv_existing, VElem (fst (get_next zero it)))].
Proof.
  intros H E EA. pose proof (gen_arr_set arr idx (fst (get_next zero it))) as GS. rewrite EA in GS.
  rewrite loop_S; unfold loop_step. fuel F 30. unfold iv_cond, iv_body, iv_env. gogo.
  rewrite (gen_GetNext A zero ext) by lia. gorun. rewrite Hex. gorun.
  rewrite GS by lia. gorun. replace (Z.of_nat idx + 1)%Z with (Z.of_nat (S idx)) by lia. reflexivity.
Qed.

End IvSteps.

(* the generated loop simulates [insert_value_loop]: one unit of fuel per iteration plus a constant.
   [ex] is the rest of the environment: empty, or the variable "existing" declared by an earlier iteration *)
Lemma iv_loop_sim n l slot a size : (Z.of_nat size < two63)%Z -> (Z.of_nat slot < two63)%Z ->
  forall mf idx it arr ex F,
  (forall w, set iv_existing w ex = [(iv_existing, w)]) ->
  mf + 31 <= F ->
  match insert_value_loop A zero mf size slot a idx it arr with
  | Ret arr' => exists idx' it' ex',
      iv_at F n l slot a size arr it idx ex = ROk (SgNormal, iv_env n l slot a size arr' it' idx' ++ ex')
  | _ => True
  end.
Proof.
  intros HS HSl mf. induction mf as [|mf IH]; intros idx it arr ex F Hex HF;
    (destruct F as [|F]; [lia|]); cbn [insert_value_loop]; destruct (Nat.leb_spec size idx) as [Hd|Hd].
  - rewrite iv_exit by (assumption || lia). eexists _, _, _. reflexivity.
  - exact I.
  - rewrite iv_exit by (assumption || lia). eexists _, _, _. reflexivity.
  - destruct (Nat.eqb_spec idx slot) as [E|NE].
    + destruct (arr_set arr (S idx) a) as [arr'| |] eqn:EA; cbn [out_bind].
      * rewrite (iv_step_new n l slot a size HS HSl idx it arr ex F ltac:(lia) arr') by assumption.
        apply IH; [exact Hex|lia].
      * exact I.
      * exact I.
    + destruct (get_next zero it) as [existing it'] eqn:EN.
      destruct (arr_set arr (S idx) existing) as [arr'| |] eqn:EA; cbn [out_bind].
      * rewrite (iv_step_old n l slot a size HS HSl idx it arr ex F ltac:(lia) Hex arr') by (rewrite ?EN; assumption).
        rewrite EN. cbn [fst snd]. apply IH; [reflexivity|lia].
      * exact I.
      * exact I.
Qed.

(* list.InsertValue(slot, value) is [insert_value_impl] (ListImpl.v), hence [insert_value] (Seq.v):
   fuel: one unit per value of the new list, plus a constant *)
Lemma gen_list_InsertValue_impl n l (slot : nat) a F :
  (Z.of_nat (length l) + 1 < two63)%Z -> length l + 100 <= F ->
  call_at F (lst_val n l) id_InsertValue [VInt (Z.of_nat slot); VElem a] =
  match insert_value_impl zero l slot a with
  | Ret l' => ROk (VTuple [], lst_val n l') | Panic => RPanic (lst_val n l) | Hang => RFuel
  end.
Proof.
  intros HL HF. unfold insert_value_impl.
  fuel F 60. gocall. rewrite gen_validateSlot by lia. destruct (Nat.ltb_spec (length l) slot) as [Hs|Hs]; [reflexivity|].
  assert (REF : insert_value_loop A zero (S (S (length l))) (S (length l)) slot a 0 (it_make l) (arr_make zero (S (length l)))
                = Ret (firstn slot l ++ a :: skipn slot l)).
  { pose proof (insert_value_refines A zero l slot a) as R. unfold insert_value_impl, insert_value in R.
    destruct (Nat.ltb_spec (length l) slot); [lia|exact R]. }
  gorun. rewrite gen_list_GetSize by lia. gorun. gogo.
  rewrite gen_list_GetClass by lia. gorun. rewrite gen_listClass_Notation by lia. gorun.
  replace (Z.of_nat (length l) + 1)%Z with (Z.of_nat (S (length l))) by lia.
  rewrite gen_arrayClass_Make by lia. gorun.
  rewrite gen_list_GetIterator by lia. gorun.
  match goal with |- context[i_loop (interp_at A zero ext prog ?FF) ?c ?p ?b ?en] =>
    pose proof (iv_loop_sim n l slot a (S (length l)) ltac:(lia) ltac:(lia) (S (S (length l))) 0 (it_make l)
                  (arr_make zero (S (length l))) [] FF ltac:(reflexivity) ltac:(lia)) as SIM;
    change (i_loop (interp_at A zero ext prog FF) c p b en)
      with (iv_at FF n l slot a (S (length l)) (arr_make zero (S (length l))) (it_make l) 0 [])
  end.
  rewrite REF in SIM |- *. destruct SIM as [idx' [it' [ex' SIM]]]. rewrite SIM.
  unfold iv_env. gorun. reflexivity.
Qed.

(* ---------- RemoveValue: "for iterator.HasNext() { counter--; value = GetNext(); if counter == 0 { continue }; .. }" ---------- *)
Lemma pos_nat (n k : nat) : pos n (Z.of_nat k) = if (k =? 0) || (n <? k) then None else Some (k - 1).
Proof. unfold pos. repeat zsplit; cbn [orb]; try lia; try reflexivity; f_equal; lia. Qed.

Lemma gen_arr_set1 arr (index : nat) a F : 20 <= F ->
  call_at F (arr_val arr) id_SetValue [VInt (Z.of_nat index); VElem a] =
  match arr_set arr index a with Ret arr' => ROk (VTuple [], arr_val arr') | _ => RPanic (arr_val arr) end.
Proof.
  intros HF. rewrite gen_array_SetValue by lia. rewrite pos_nat. unfold arr_set.
  destruct ((index =? 0) || (length arr <? index)); reflexivity.
Qed.

Definition rv_loop : stmt := nth 6 (fn_body fn_list__RemoveValue) SBreak.
Definition rv_cond : option expr := Eval cbv in match rv_loop with SFor _ c _ _ => c | _ => None end.
Definition rv_body : list stmt := Eval cbv in match rv_loop with SFor _ _ _ b => b | _ => [] end.
(* the variables of RemoveValue: v index removed size array counter iterator value *)
Notation rv_v := 1%positive (only parsing).        Notation rv_index := 2%positive (only parsing).
Notation rv_removed := 3%positive (only parsing).  Notation rv_size := 4%positive (only parsing).
Notation rv_array := 5%positive (only parsing).    Notation rv_counter := 6%positive (only parsing).
Notation rv_iterator := 7%positive (only parsing). Notation rv_value := 8%positive (only parsing).
Definition rv_env n l (removed : A) (size : Z) arr (counter : Z) it (index : nat) : env A :=
  [(rv_v, lst_val n l); (rv_index, VInt (Z.of_nat index)); (rv_removed, VElem removed); (rv_size, VInt size);
   (rv_array, arr_val arr); (rv_counter, VInt counter); (rv_iterator, it_rep VNil it)].
Notation rv_at F n l removed size arr counter it index ex :=
  (i_loop (interp_at A zero ext prog F) rv_cond None rv_body (rv_env n l removed size arr counter it index ++ ex)).

Section RvSteps.
Variables (n : val A) (l : list A) (removed : A) (size : Z).
Variables (counter : Z) (index : nat) (it : iter A) (arr : list A) (ex : env A) (F : nat).
Hypothesis HF : 30 <= F.

Lemma rv_exit : has_next it = false ->
  rv_at (S F) n l removed size arr counter it index ex = ROk (SgNormal, rv_env n l removed size arr counter it index ++ ex).
Proof.
  intros H. rewrite loop_S; unfold loop_step. fuel F 30. unfold rv_cond, rv_body, rv_env. gorun.
  rewrite (gen_HasNext A zero ext) by lia. rewrite H. gorun. reflexivity.
Qed.

Hypothesis Hex : forall w, set rv_value w ex = [(rv_value, w)].

Lemma rv_step_skip : has_next it = true -> (counter - 1 = 0)%Z ->
  rv_at (S F) n l removed size arr counter it index ex =
  rv_at F n l removed size arr (counter - 1) (snd (get_next zero it)) index [(rv_value, VElem (fst (get_next zero it)))].
Proof.
  intros H E. rewrite loop_S; unfold loop_step. fuel F 30. unfold rv_cond, rv_body, rv_env. gorun.
  rewrite (gen_HasNext A zero ext) by lia. rewrite H. gorun.
  rewrite (gen_GetNext A zero ext) by lia. gorun. rewrite Hex. gogo. reflexivity.
Qed.

Lemma rv_step_keep arr' : has_next it = true -> (counter - 1 <> 0)%Z -> arr_set arr index (fst (get_next zero it)) = Ret arr' ->
  rv_at (S F) n l removed size arr counter it index ex =
  rv_at F n l removed size arr' (counter - 1) (snd (get_next zero it)) (S index) [(rv_value, VElem (fst (get_next zero it)))].
Proof.
  intros H E EA. pose proof (gen_arr_set1 arr index (fst (get_next zero it))) as GS. rewrite EA in GS.
  rewrite loop_S; unfold loop_step. fuel F 30. unfold rv_cond, rv_body, rv_env. gorun.
  rewrite (gen_HasNext A zero ext) by lia. rewrite H. gorun.
  rewrite (gen_GetNext A zero ext) by lia. gorun. rewrite Hex. gogo.
  rewrite GS by lia. gorun. replace (Z.of_nat index + 1)%Z with (Z.of_nat (S index)) by lia. reflexivity.
Qed.

End RvSteps.

Lemma rv_loop_sim n l removed size : forall mf counter index it arr ex F,
  (forall w, set rv_value w ex = [(rv_value, w)]) ->
  mf + 31 <= F ->
  match remove_value_loop A zero mf counter index it arr with
  | Ret arr' => exists counter' index' it' ex',
      rv_at F n l removed size arr counter it index ex =
      ROk (SgNormal, rv_env n l removed size arr' counter' it' index' ++ ex')
  | _ => True
  end.
Proof.
  intros mf. induction mf as [|mf IH]; intros counter index it arr ex F Hex HF;
    (destruct F as [|F]; [lia|]); cbn [remove_value_loop]; destruct (has_next it) eqn:HN; cbn [negb].
  - exact I.
  - rewrite rv_exit by (assumption || lia). eexists _, _, _, _. reflexivity.
  - destruct (get_next zero it) as [v it'] eqn:EN. destruct (Z.eqb_spec (counter - 1) 0) as [E|NE].
    + rewrite (rv_step_skip n l removed size counter index it arr ex F ltac:(lia) Hex HN E).
      rewrite EN. cbn [fst snd]. apply IH; [reflexivity|lia].
    + destruct (arr_set arr index v) as [arr'| |] eqn:EA; cbn [out_bind].
      * rewrite (rv_step_keep n l removed size counter index it arr ex F ltac:(lia) Hex arr' HN NE) by (rewrite EN; exact EA).
        rewrite EN. cbn [fst snd]. apply IH; [reflexivity|lia].
      * exact I.
      * exact I.
  - rewrite rv_exit by (assumption || lia). eexists _, _, _, _. reflexivity.
Qed.

(* list.RemoveValue(index) is [remove_value_impl] (ListImpl.v) *)
Lemma gen_list_RemoveValue_impl n l i F :
  (Z.of_nat (length l) < two63)%Z -> length l + 100 <= F ->
  call_at F (lst_val n l) id_RemoveValue [VInt i] =
  match remove_value_impl zero l i with
  | Ret (r, l') => ROk (VElem r, lst_val n l') | Panic => RPanic (lst_val n l) | Hang => RFuel
  end.
Proof.
  intros HL HF. unfold remove_value_impl.
  fuel F 60. gocall. rewrite gen_list_GetValue by lia.
  pose proof (pos_some (length l) i) as P. pose proof (gen_toNormalized n l i) as TN.
  pose proof (remove_value_refines A zero l i) as R. unfold remove_value_impl, remove_value in R.
  destruct (pos (length l) i) as [k|]; [|reflexivity]. specialize (P k eq_refl).
  gorun. rewrite gen_list_GetSize by lia. gorun. gogo.
  rewrite gen_list_GetClass by lia. gorun. rewrite gen_listClass_Notation by lia. gorun.
  replace (Z.of_nat (length l) - 1)%Z with (Z.of_nat (length l - 1)) by lia.
  rewrite gen_arrayClass_Make by lia. gorun.
  rewrite TN by lia. gorun.
  rewrite gen_list_GetIterator by lia. gorun.
  match goal with |- context[i_loop (interp_at A zero ext prog ?FF) ?c ?p ?b ?en] =>
    pose proof (rv_loop_sim n l (nth k l zero) (Z.of_nat (length l - 1)) (S (length l)) (Z.of_nat (S k)) 1 (it_make l)
                  (arr_make zero (length l - 1)) [] FF ltac:(reflexivity) ltac:(lia)) as SIM;
    change (i_loop (interp_at A zero ext prog FF) c p b en)
      with (rv_at FF n l (nth k l zero) (Z.of_nat (length l - 1)) (arr_make zero (length l - 1)) (Z.of_nat (S k)) (it_make l) 1 [])
  end.
  destruct (remove_value_loop A zero (S (length l)) (Z.of_nat (S k)) 1 (it_make l) (arr_make zero (length l - 1)))
    as [arr'| |]; cbn [out_map] in *.
  - destruct SIM as [c' [i' [it' [ex' SIM]]]]. rewrite SIM. unfold rv_env. gorun. reflexivity.
  - (* the model's loop neither panics nor runs out of its own fuel (remove_value_refines) *)
    discriminate R.
  - discriminate R.
Qed.
(* ---------- operands: any sequence that answers GetSize / IsEmpty / AsArray / GetIterator like [src] ---------- *)
Definition seq_operand (sv : val A) (src : list A) : Prop :=
  (un_wb A sv = (sv, []) /\ untag A sv = sv) /\
  forall F, 40 <= F ->
    call_at F sv id_GetSize [] = ROk (VInt (Z.of_nat (length src)), sv) /\
    call_at F sv id_IsEmpty [] = ROk (VBool (length src =? 0), sv) /\
    call_at F sv id_AsArray [] = ROk (VSlice (elems src), sv) /\
    call_at F sv id_GetIterator [] = ROk (it_rep VNil (it_make src), sv).

Lemma seq_operand_arr src : (Z.of_nat (length src) < two63)%Z -> seq_operand (arr_val src) src.
Proof.
  intros HL. split; [split; reflexivity|]. intros F HF. rewrite gen_array_GetSize, gen_array_IsEmpty,
    gen_array_AsArray, gen_array_GetIterator by (assumption || lia). repeat split.
Qed.
Lemma seq_operand_lst n src : (Z.of_nat (length src) < two63)%Z -> seq_operand (lst_val n src) src.
Proof.
  intros HL. split; [split; reflexivity|]. intros F HF. rewrite gen_list_GetSize, gen_list_IsEmpty,
    gen_list_AsArray, gen_list_GetIterator by (assumption || lia). repeat split.
Qed.

End GenSeq.

(* rewrite the call of GetSize / IsEmpty / AsArray / GetIterator on an operand that is in head position *)
Ltac op_size OP := rewrite ?(proj2 (proj1 OP)); match goal with |- context[i_call (interp_at _ _ _ _ ?FF) ?sv id_GetSize []] =>
  rewrite (proj1 (proj2 OP FF ltac:(lia))) end; rewrite ?(proj1 (proj1 OP)).
Ltac op_empty OP := rewrite ?(proj2 (proj1 OP)); match goal with |- context[i_call (interp_at _ _ _ _ ?FF) ?sv id_IsEmpty []] =>
  rewrite (proj1 (proj2 (proj2 OP FF ltac:(lia)))) end; rewrite ?(proj1 (proj1 OP)).
Ltac op_array OP := rewrite ?(proj2 (proj1 OP)); match goal with |- context[i_call (interp_at _ _ _ _ ?FF) ?sv id_AsArray []] =>
  rewrite (proj1 (proj2 (proj2 (proj2 OP FF ltac:(lia))))) end; rewrite ?(proj1 (proj1 OP)).
Ltac op_iter OP := rewrite ?(proj2 (proj1 OP)); match goal with |- context[i_call (interp_at _ _ _ _ ?FF) ?sv id_GetIterator []] =>
  rewrite (proj2 (proj2 (proj2 (proj2 OP FF ltac:(lia))))) end; rewrite ?(proj1 (proj1 OP)).

