(* GenSearch.v — the generated search methods of list.go (GetIndex, ContainsValue) compute Seq.get_index /
   contains_value: "GetIndex = the ordinal of the first match, 0 when absent", where a match is what the
   CompareValues of a fresh default collator says (the oracle [cmp_ext eqb], any function A -> A -> bool).
   Compiled by ./check C01. *)
From Verif Require Import Base Seq ListImpl SeqProofs MiniGo GenSrc GenRep GenLib GenIter GenSeq.

Section GenSearch.
Variable A : Type.
Variable zero : A.
Variable eqb : A -> A -> bool.
Notation ext := (cmp_ext eqb).
Notation call_at F := (i_call (interp_at A zero ext prog F)).

Lemma gen_collator_Make F : 1 <= F ->
  call_at F (VObj id_collatorClass_ []) id_Make [] = ROk (col_val, VObj id_collatorClass_ []).
Proof. intros HF. fuel F 1. gocall. reflexivity. Qed.
Lemma gen_CompareValues a b F : 1 <= F ->
  call_at F col_val id_CompareValues [VElem a; VElem b] = ROk (VBool (eqb a b), col_val).
Proof. intros HF. fuel F 1. gocall. reflexivity. Qed.

(* variables of GetIndex: v value compare index candidate *)
Definition gi_range_stmt : stmt := nth 1 (fn_body fn_list__GetIndex) SBreak.
Definition gi_body : list stmt := Eval cbv in match gi_range_stmt with SRange _ _ _ b => b | _ => [] end.
Definition gi_env n l (x : A) : env A :=
  [(1%positive, lst_val n l); (2%positive, VElem x); (3%positive, VMeth col_val id_CompareValues)].

(* "for index, candidate := range snapshot { if compare(candidate, value) { return index + 1 } }" is
   ListImpl.get_index_loop; no fuel per element: a range loop is a structural recursion over the snapshot *)
Lemma gi_range n l0 x : forall (l : list A) (i : nat) T F, 20 <= F ->
  exists T',
  range A (interp_at A zero ext prog F) (Some 4%positive) (Some 5%positive) (elems l) (Z.of_nat i) gi_body (gi_env n l0 x ++ T) =
  match get_index_loop A eqb l x i with
  | 0 => ROk (SgNormal, gi_env n l0 x ++ T')
  | S k => ROk (SgReturn (VInt (Z.of_nat (S k))), gi_env n l0 x ++ T')
  end.
Proof.
  induction l as [|c t IH]; intros i T F HF.
  - eexists. cbn [elems map range get_index_loop]. reflexivity.
  - cbn [elems map range get_index_loop]. unfold gi_env, gi_body. cbn [set app Pos.eqb].
    destruct (IH (S i) (set 5%positive (VElem c) (set 4%positive (VInt (Z.of_nat i)) T)) F HF) as [T' IHT].
    fuel F 20. gorun. rewrite lookup_set_same. gorun.
    rewrite gen_CompareValues by lia. gorun. destruct (eqb c x); gorun.
    + eexists. rewrite (lookup_set_other 4%positive 5%positive) by discriminate. rewrite lookup_set_same. gorun.
      replace (Z.of_nat i + 1)%Z with (Z.of_nat (S i)) by lia. reflexivity.
    + exists T'. replace (Z.of_nat i + 1)%Z with (Z.of_nat (S i)) by lia.
      unfold gi_env, gi_body, elems in IHT. cbn [Nat.add] in IHT. exact IHT.
Qed.

Lemma gen_list_GetIndex n l x F : (Z.of_nat (length l) < two63)%Z -> 60 <= F ->
  call_at F (lst_val n l) id_GetIndex [VElem x] = ROk (VInt (Z.of_nat (get_index eqb l x)), lst_val n l).
Proof.
  intros HL HF. rewrite <- (get_index_refines A eqb l x). unfold get_index_impl.
  fuel F 30. gocall. rewrite gen_collator_Make by lia. gorun.
  rewrite (gen_list_AsArray A zero ext) by lia. gorun.
  match goal with |- context[range A (interp_at A zero ext prog ?FF) ?k ?v (elems l) 0%Z ?b (?e1 :: ?e2 :: ?e3 :: ?TT)] =>
    destruct (gi_range n l x l 0 TT FF ltac:(lia)) as [T' R];
    change (range A (interp_at A zero ext prog FF) k v (elems l) 0%Z b (e1 :: e2 :: e3 :: TT))
      with (range A (interp_at A zero ext prog FF) (Some 4%positive) (Some 5%positive) (elems l) (Z.of_nat 0) gi_body (gi_env n l x ++ TT))
  end.
  rewrite R. destruct (get_index_loop A eqb l x 0); unfold gi_env; gorun; reflexivity.
Qed.

Lemma gen_list_ContainsValue n l x F : (Z.of_nat (length l) < two63)%Z -> 70 <= F ->
  call_at F (lst_val n l) id_ContainsValue [VElem x] = ROk (VBool (contains_value eqb l x), lst_val n l).
Proof.
  intros HL HF. unfold contains_value. fuel F 10. gocall. rewrite gen_list_GetIndex by lia. gogo; reflexivity.
Qed.
End GenSearch.
