(* GenSearch.v — the generated search methods of list.go (GetIndex, ContainsValue) compute Seq.get_index /
   contains_value: "GetIndex = the ordinal of the first match, 0 when absent", where a match is what the
   CompareValues of a fresh default collator says (the oracle [cmp_ext eqb], any function A -> A -> bool).
   Compiled by ./check C01. *)
From Verif Require Import Base Seq ListImpl SeqProofs MiniGo GenSrc GenRep GenLib GenIter GenSeq.

Section GenSearch.
Variable A : Type.
Variable zero : A.
Variable eqb : A -> A -> bool.
Notation ext := (cmp_ext eqb).
Notation call_at F := (i_call (interp_at A zero ext prog F)).

Lemma gen_collator_Make F : 1 <= F ->
  call_at F (VObj id_collatorClass_ []) id_Make [] = ROk (col_val, VObj id_collatorClass_ []).
Proof. intros HF. fuel F 1. gocall. reflexivity. Qed.
Lemma gen_CompareValues a b F : 1 <= F ->
  call_at F col_val id_CompareValues [VElem a; VElem b] = ROk (VBool (eqb a b), col_val).
Proof. intros HF. fuel F 1. gocall. reflexivity. Qed.

(* variables of GetIndex: v value compare index candidate *)
Definition gi_range_stmt : stmt := nth 1 (fn_body fn_list__GetIndex) SBreak.
Definition gi_body : list stmt := Eval cbv in match gi_range_stmt with SRange _ _ _ b => b | _ => [] end.
Definition gi_env n l (x : A) : env A :=
  [(1%positive, lst_val n l); (2%positive, VElem x); (3%positive, VMeth col_val id_CompareValues)].

(* "for index, candidate := range snapshot { if compare(candidate, value) { return index + 1 } }" is
   ListImpl.get_index_loop; no fuel per element: a range loop is a structural recursion over the snapshot *)
Lemma gi_range n l0 x : forall (l : list A) (i : nat) T F, 20 <= F ->
  exists T',
  range A (interp_at A zero ext prog F) (Some 4%positive) (Some 5%positive) (elems l) (Z.of_nat i) gi_body (gi_env n l0 x ++ T) =
  match get_index_loop A eqb l x i with
  | 0 => ROk (SgNormal, gi_env n l0 x ++ T')
  | S k => ROk (SgReturn (VInt (Z.of_nat (S k))), gi_env n l0 x ++ T')
  end.
Proof.
  induction l as [|c t IH]; intros i T F HF.
  - eexists. cbn [elems map range get_index_loop]. reflexivity.
  - cbn [elems map range get_index_loop]. unfold gi_env, gi_body. cbn [set app Pos.eqb].
    destruct (IH (S i) (set 5%positive (VElem c) (set 4%positive (VInt (Z.of_nat i)) T)) F HF) as [T' IHT].
    fuel F 20. gorun. rewrite lookup_set_same. gorun.
    rewrite gen_CompareValues by lia. gorun. destruct (eqb c x); gorun.
    + eexists. rewrite (lookup_set_other 4%positive 5%positive) by discriminate. rewrite lookup_set_same. gorun.
      replace (Z.of_nat i + 1)%Z with (Z.of_nat (S i)) by lia. reflexivity.
    + exists T'. replace (Z.of_nat i + 1)%Z with (Z.of_nat (S i)) by lia.
      unfold gi_env, gi_body, elems in IHT. cbn [Nat.add] in IHT. exact IHT.
Qed.

Lemma gen_list_GetIndex n l x F : (Z.of_nat (length l) < two63)%Z -> 60 <= F ->
  call_at F (lst_val n l) id_GetIndex [VElem x] = ROk (VInt (Z.of_nat (get_index eqb l x)), lst_val n l).
Proof.
  intros HL HF. rewrite <- (get_index_refines A eqb l x). unfold get_index_impl.
  fuel F 30. gocall. rewrite gen_collator_Make by lia. gorun.
  rewrite (gen_list_AsArray A zero ext) by lia. gorun.
  match goal with |- context[range A (interp_at A zero ext prog ?FF) ?k ?v (elems l) 0%Z ?b (?e1 :: ?e2 :: ?e3 :: ?TT)] =>
    destruct (gi_range n l x l 0 TT FF ltac:(lia)) as [T' R];
    change (range A (interp_at A zero ext prog FF) k v (elems l) 0%Z b (e1 :: e2 :: e3 :: TT))
      with (range A (interp_at A zero ext prog FF) (Some 4%positive) (Some 5%positive) (elems l) (Z.of_nat 0) gi_body (gi_env n l x ++ TT))
  end.
  rewrite R. destruct (get_index_loop A eqb l x 0); unfold gi_env; gorun; reflexivity.
Qed.

Lemma gen_list_ContainsValue n l x F : (Z.of_nat (length l) < two63)%Z -> 70 <= F ->
  call_at F (lst_val n l) id_ContainsValue [VElem x] = ROk (VBool (contains_value eqb l x), lst_val n l).
Proof.
  intros HL HF. unfold contains_value. fuel F 10. gocall. rewrite gen_list_GetIndex by lia. gogo; reflexivity.
Qed.

(* ---------- ContainsAny / ContainsAll: "for it.HasNext() { c = it.GetNext(); if v.GetIndex(c) > 0 { return true } }" ---------- *)
(* variables: v values iterator candidate *)
Definition cany_loop : stmt := nth 1 (fn_body fn_list__ContainsAny) SBreak.
Definition cany_cond : option expr := Eval cbv in match cany_loop with SFor _ c _ _ => c | _ => None end.
Definition cany_body : list stmt := Eval cbv in match cany_loop with SFor _ _ _ b => b | _ => [] end.
Definition call_loop : stmt := nth 1 (fn_body fn_list__ContainsAll) SBreak.
Definition call_cond : option expr := Eval cbv in match call_loop with SFor _ c _ _ => c | _ => None end.
Definition call_body : list stmt := Eval cbv in match call_loop with SFor _ _ _ b => b | _ => [] end.
Definition cs_env n l (sv : val A) it : env A :=
  [(1%positive, lst_val n l); (2%positive, sv); (3%positive, it_rep A VNil it)].

Section Cs.
Variables (n : val A) (l : list A) (sv : val A).
Hypothesis HL : (Z.of_nat (length l) < two63)%Z.
Definition cany_run F it T := i_loop (interp_at A zero ext prog F) cany_cond None cany_body (cs_env n l sv it ++ T).
Definition call_run F it T := i_loop (interp_at A zero ext prog F) call_cond None call_body (cs_env n l sv it ++ T).

Ltac cs_enter F c b := rewrite loop_S; unfold loop_step; fuel F 40; unfold c, b, cs_env; gorun;
  rewrite (gen_HasNext A zero ext) by lia.

Lemma cany_sim : forall k vals s T F, k = length vals - s -> s <= length vals -> k + 110 <= F ->
  exists en', cany_run F (mk_it A vals s) T =
    ROk ((if existsb (contains_value eqb l) (skipn s vals) then SgReturn (VBool true) else SgNormal), en') /\
    lookup 1%positive en' = Some (lst_val n l).
Proof.
  induction k as [|k IH]; intros vals s T F HK HS HF; (destruct F as [|F]; [lia|]); unfold cany_run.
  - assert (s = length vals) by lia. subst s. rewrite skipn_all. cbn [existsb].
    cs_enter F cany_cond cany_body. unfold has_next, mk_it, it_size. cbn [it_vals it_slot]. rewrite Nat.ltb_irrefl. gorun.
    eexists; split; reflexivity.
  - assert (HN : has_next (mk_it A vals s) = true) by (unfold has_next, mk_it, it_size; cbn; apply Nat.ltb_lt; lia).
    assert (GN : get_next zero (mk_it A vals s) = (nth s vals zero, mk_it A vals (S s))) by (unfold get_next; rewrite HN; reflexivity).
    rewrite (skipn_cons_nth A s vals zero) by lia. cbn [existsb]. unfold contains_value at 1.
    cs_enter F cany_cond cany_body. rewrite HN. gorun.
    rewrite (gen_GetNext A zero ext) by lia. rewrite GN. cbn [fst snd]. gorun. rewrite lookup_set_same. gorun.
    rewrite gen_list_GetIndex by (assumption || lia). gorun.
    destruct (Nat.ltb_spec 0 (get_index eqb l (nth s vals zero))) as [HG|HG]; cbn [orb]; gogo.
    + eexists; split; reflexivity.
    + destruct (IH vals (S s) (set 4%positive (VElem (nth s vals zero)) T) (40 + f)) as [en' [RUN LK]]; try lia.
      unfold cany_run, cany_cond, cany_body, cs_env in RUN. cbn [Nat.add app] in RUN. exists en'. split; [exact RUN|exact LK].
Qed.

Lemma call_sim : forall k vals s T F, k = length vals - s -> s <= length vals -> k + 110 <= F ->
  exists en', call_run F (mk_it A vals s) T =
    ROk ((if forallb (contains_value eqb l) (skipn s vals) then SgNormal else SgReturn (VBool false)), en') /\
    lookup 1%positive en' = Some (lst_val n l).
Proof.
  induction k as [|k IH]; intros vals s T F HK HS HF; (destruct F as [|F]; [lia|]); unfold call_run.
  - assert (s = length vals) by lia. subst s. rewrite skipn_all. cbn [forallb].
    cs_enter F call_cond call_body. unfold has_next, mk_it, it_size. cbn [it_vals it_slot]. rewrite Nat.ltb_irrefl. gorun.
    eexists; split; reflexivity.
  - assert (HN : has_next (mk_it A vals s) = true) by (unfold has_next, mk_it, it_size; cbn; apply Nat.ltb_lt; lia).
    assert (GN : get_next zero (mk_it A vals s) = (nth s vals zero, mk_it A vals (S s))) by (unfold get_next; rewrite HN; reflexivity).
    rewrite (skipn_cons_nth A s vals zero) by lia. cbn [forallb]. unfold contains_value at 1.
    cs_enter F call_cond call_body. rewrite HN. gorun.
    rewrite (gen_GetNext A zero ext) by lia. rewrite GN. cbn [fst snd]. gorun. rewrite lookup_set_same. gorun.
    rewrite gen_list_GetIndex by (assumption || lia). gorun.
    destruct (Nat.ltb_spec 0 (get_index eqb l (nth s vals zero))) as [HG|HG]; cbn [andb]; gogo.
    + destruct (IH vals (S s) (set 4%positive (VElem (nth s vals zero)) T) (40 + f)) as [en' [RUN LK]]; try lia.
      unfold call_run, call_cond, call_body, cs_env in RUN. cbn [Nat.add app] in RUN. exists en'. split; [exact RUN|exact LK].
    + eexists; split; reflexivity.
Qed.
End Cs.

Lemma gen_list_ContainsAny n l sv src F : seq_operand A zero ext sv src -> (Z.of_nat (length l) < two63)%Z ->
  length src + 200 <= F ->
  call_at F (lst_val n l) id_ContainsAny [sv] = ROk (VBool (contains_any eqb l src), lst_val n l).
Proof.
  intros OP HL HF. unfold contains_any. fuel F 60. gocall. op_iter OP. gorun.
  match goal with |- context[i_loop (interp_at A zero ext prog ?FF) ?c ?p ?b ?en] =>
    destruct (cany_sim n l sv HL (length src) src 0 [] FF ltac:(lia) ltac:(lia) ltac:(lia)) as [en' [RUN LK]];
    change (i_loop (interp_at A zero ext prog FF) c p b en) with (cany_run n l sv FF (mk_it A src 0) [])
  end.
  rewrite RUN. cbn [skipn]. destruct (existsb (contains_value eqb l) src); gorun; rewrite LK; gorun; reflexivity.
Qed.

Lemma gen_list_ContainsAll n l sv src F : seq_operand A zero ext sv src -> (Z.of_nat (length l) < two63)%Z ->
  length src + 200 <= F ->
  call_at F (lst_val n l) id_ContainsAll [sv] = ROk (VBool (contains_all eqb l src), lst_val n l).
Proof.
  intros OP HL HF. unfold contains_all. fuel F 60. gocall. op_iter OP. gorun.
  match goal with |- context[i_loop (interp_at A zero ext prog ?FF) ?c ?p ?b ?en] =>
    destruct (call_sim n l sv HL (length src) src 0 [] FF ltac:(lia) ltac:(lia) ltac:(lia)) as [en' [RUN LK]];
    change (i_loop (interp_at A zero ext prog FF) c p b en) with (call_run n l sv FF (mk_it A src 0) [])
  end.
  rewrite RUN. cbn [skipn]. destruct (forallb (contains_value eqb l) src); gorun; rewrite LK; gorun; reflexivity.
Qed.
End GenSearch.
