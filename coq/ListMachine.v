(* ListMachine.v — histories of operations on one List (or Array): the specification
   machine (Seq.v) and the code-shaped machine (ListImpl.v).  An operand [None] is the
   receiver itself (receiver-aliased operand sequence).  Definitions only. *)
From Verif Require Import Base Seq ListImpl.

Section ListMachine.
Variable A : Type.
Variable zero : A.
Variable eqb : A -> A -> bool.

Inductive lop :=
| LMakeFromSequence (src : list A)
| LInsertValue (slot : nat) (v : A)
| LInsertValues (slot : nat) (src : option (list A))
| LAppendValue (v : A)
| LAppendValues (src : option (list A))
| LRemoveValue (i : Z)
| LRemoveValues (i j : Z)
| LRemoveAll
| LSetValue (i : Z) (v : A)
| LSetValues (i : Z) (src : option (list A))
| LGetValue (i : Z)
| LGetValues (i j : Z)
| LGetIndex (v : A)
| LContainsValue (v : A)
| LContainsAny (src : option (list A))
| LContainsAll (src : option (list A))
| LAsArray
| LGetSize
| LIsEmpty.

Inductive lobs :=
| LUnit | LVal (a : A) | LVals (l : list A) | LNat (n : nat) | LBool (b : bool) | LPanic | LHang.

Definition operand (l : list A) (src : option (list A)) : list A :=
  match src with Some s => s | None => l end.

Definition upd (l : list A) (o : out (list A)) : list A * lobs :=
  match o with Ret l' => (l', LUnit) | Panic => (l, LPanic) | Hang => (l, LHang) end.

Definition lstep_spec (l : list A) (o : lop) : list A * lobs :=
  match o with
  | LMakeFromSequence src => (src, LUnit)
  | LInsertValue slot v => upd l (insert_value l slot v)
  | LInsertValues slot src => upd l (insert_values l slot (operand l src))
  | LAppendValue v => (append_value l v, LUnit)
  | LAppendValues src => (append_values l (operand l src), LUnit)
  | LRemoveValue i =>
    match remove_value zero l i with
    | Ret (v, l') => (l', LVal v) | Panic => (l, LPanic) | Hang => (l, LHang)
    end
  | LRemoveValues i j =>
    match remove_values l i j with
    | Ret (r, l') => (l', LVals r) | Panic => (l, LPanic) | Hang => (l, LHang)
    end
  | LRemoveAll => ([], LUnit)
  | LSetValue i v => upd l (set_value l i v)
  | LSetValues i src => upd l (set_values l i (operand l src))
  | LGetValue i =>
    match get_value zero l i with Ret v => (l, LVal v) | Panic => (l, LPanic) | Hang => (l, LHang) end
  | LGetValues i j =>
    match get_values l i j with Ret r => (l, LVals r) | Panic => (l, LPanic) | Hang => (l, LHang) end
  | LGetIndex v => (l, LNat (get_index eqb l v))
  | LContainsValue v => (l, LBool (contains_value eqb l v))
  | LContainsAny src => (l, LBool (contains_any eqb l (operand l src)))
  | LContainsAll src => (l, LBool (contains_all eqb l (operand l src)))
  | LAsArray => (l, LVals l)
  | LGetSize => (l, LNat (length l))
  | LIsEmpty => (l, LBool (length l =? 0))
  end.

(* the same machine built from the loops of list.go / array.go *)
Definition contains_value_impl (l : list A) (v : A) : bool := 0 <? get_index_impl eqb l v.
Fixpoint contains_any_impl (l src : list A) : bool :=
  match src with
  | [] => false
  | c :: t => if 0 <? get_index_impl eqb l c then true else contains_any_impl l t
  end.
Fixpoint contains_all_impl (l src : list A) : bool :=
  match src with
  | [] => true
  | c :: t => if get_index_impl eqb l c =? 0 then false else contains_all_impl l t
  end.

Definition lstep_impl (l : list A) (o : lop) : list A * lobs :=
  match o with
  | LMakeFromSequence src =>
    match make_from_sequence_impl zero src with
    | Ret l' => (l', LUnit) | Panic => (l, LPanic) | Hang => (l, LHang)
    end
  | LInsertValue slot v => upd l (insert_value_impl zero l slot v)
  | LInsertValues slot src => upd l (insert_values_impl zero l slot (operand l src))
  | LAppendValue v => upd l (append_value_impl zero l v)
  | LAppendValues src => upd l (append_values_impl zero l (operand l src))
  | LRemoveValue i =>
    match remove_value_impl zero l i with
    | Ret (v, l') => (l', LVal v) | Panic => (l, LPanic) | Hang => (l, LHang)
    end
  | LRemoveValues i j =>
    match remove_values_impl zero l i j with
    | Ret (r, l') => (l', LVals r) | Panic => (l, LPanic) | Hang => (l, LHang)
    end
  | LRemoveAll => (arr_make zero 0, LUnit)
  | LSetValue i v => upd l (set_value l i v)
  | LSetValues i src => upd l (set_values_impl l i (operand l src))
  | LGetValue i =>
    match get_value zero l i with Ret v => (l, LVal v) | Panic => (l, LPanic) | Hang => (l, LHang) end
  | LGetValues i j =>
    match get_values_impl l i j with Ret r => (l, LVals r) | Panic => (l, LPanic) | Hang => (l, LHang) end
  | LGetIndex v => (l, LNat (get_index_impl eqb l v))
  | LContainsValue v => (l, LBool (contains_value_impl l v))
  | LContainsAny src => (l, LBool (contains_any_impl l (operand l src)))
  | LContainsAll src => (l, LBool (contains_all_impl l (operand l src)))
  | LAsArray => (l, LVals l)
  | LGetSize => (l, LNat (length l))
  | LIsEmpty => (l, LBool (length l =? 0))
  end.

Fixpoint lrun (step : list A -> lop -> list A * lobs) (l : list A) (ops : list lop)
  : list A * list lobs :=
  match ops with
  | [] => (l, [])
  | o :: rest =>
    let '(l', ob) := step l o in
    let '(lf, obs) := lrun step l' rest in
    (lf, ob :: obs)
  end.

End ListMachine.

Arguments lrun {A}. Arguments lstep_spec {A}. Arguments lstep_impl {A}.
Arguments LHang {A}. Arguments LPanic {A}. Arguments LUnit {A}.
