(* RegistryProofs.v — under every interleaving of accessor calls the locked protocol creates
   at most one class per type key and every call for that key returns it; without the lock
   two classes can be created. *)
From Verif Require Import Base Registry.

Lemma lookup_some k m c : lookup k m = Some c -> In (k, c) m.
Proof.
  induction m as [|[k' c'] r IH]; simpl; [discriminate|].
  destruct (Nat.eqb k k') eqn:E.
  - intros H. inversion H; subst. apply Nat.eqb_eq in E. subst. left; reflexivity.
  - intros H. right. apply IH; exact H.
Qed.

Lemma lookup_none k m : lookup k m = None -> ~ In k (map fst m).
Proof.
  induction m as [|[k' c'] r IH]; simpl; [intros _ []|].
  destruct (Nat.eqb k k') eqn:E; [discriminate|].
  intros H [K|K].
  - apply Nat.eqb_neq in E. congruence.
  - exact (IH H K).
Qed.

Lemma nodup_fst_unique (m : list (nat * nat)) k c1 c2 :
  NoDup (map fst m) -> In (k, c1) m -> In (k, c2) m -> c1 = c2.
Proof.
  induction m as [|[k' c'] r IH]; simpl; intros N H1 H2; [contradiction|].
  inversion N as [|? ? Hn Nr]; subst.
  destruct H1 as [H1|H1], H2 as [H2|H2].
  - congruence.
  - inversion H1; subst. exfalso. apply Hn. apply in_map_iff. exists (k, c2). split; [reflexivity | exact H2].
  - inversion H2; subst. exfalso. apply Hn. apply in_map_iff. exists (k, c1). split; [reflexivity | exact H1].
  - apply IH; assumption.
Qed.

Lemma nodup_fst_lookup (m : list (nat * nat)) k c :
  NoDup (map fst m) -> In (k, c) m -> lookup k m = Some c.
Proof.
  intros N H. destruct (lookup k m) as [c'|] eqn:E.
  - apply lookup_some in E. f_equal. exact (nodup_fst_unique m k c' c N E H).
  - apply lookup_none in E. exfalso. apply E. apply in_map_iff. exists (k, c). split; [reflexivity | exact H].
Qed.

Definition RInv (s : rstate) : Prop :=
  NoDup (map fst (r_map s)) /\
  (forall u, rt_pc (r_thr s u) <> 0 -> r_lock s = Some u) /\
  (forall u k rest, rt_pc (r_thr s u) = 2 -> rt_todo (r_thr s u) = k :: rest ->
                    rt_local (r_thr s u) = lookup k (r_map s)) /\
  (forall u k rest, 3 <= rt_pc (r_thr s u) -> rt_todo (r_thr s u) = k :: rest ->
                    exists c, rt_local (r_thr s u) = Some c /\ In (k, c) (r_map s)) /\
  (forall u k c, In (k, c) (rt_rets (r_thr s u)) -> In (k, c) (r_map s)) /\
  (forall k c, In (k, c) (r_map s) -> c < r_next s) /\
  NoDup (map snd (r_map s)).

Lemma RInv_init todos : RInv (rinit todos).
Proof.
  unfold RInv, rinit; simpl. repeat split; try constructor; intros; try contradiction; try discriminate; try lia.
Qed.

Ltac upd_case t u E :=
  unfold rupd; destruct (Nat.eqb t u) eqn:E;
  [apply Nat.eqb_eq in E; subst u | apply Nat.eqb_neq in E]; simpl.

Lemma RInv_step s t : RInv s -> RInv (rstep true s t).
Proof.
  intros (I1 & I2 & I3 & I4 & I5 & I7 & I8).
  unfold rstep. destruct (rt_todo (r_thr s t)) as [|k rest] eqn:Etodo.
  { repeat split; assumption. }
  destruct (rt_pc (r_thr s t)) as [|[|[|p]]] eqn:Epc.
  - (* Lock *)
    destruct (r_lock s) as [h|] eqn:El.
    { unfold RInv. rewrite El. repeat split; assumption. }
    unfold RInv; simpl. repeat split; try assumption.
    + intros u. upd_case t u E; intros H; [reflexivity|].
      pose proof (I2 u H) as K. congruence.
    + intros u k0 r0. upd_case t u E; [discriminate|]. apply I3.
    + intros u k0 r0. upd_case t u E; [lia|]. apply I4.
    + intros u k0 c0. upd_case t u E; apply I5.
  - (* lookup *)
    assert (Hl : r_lock s = Some t) by (apply I2; lia).
    unfold RInv; simpl. repeat split; try assumption.
    + intros u. upd_case t u E; intros H; [exact Hl | apply I2; exact H].
    + intros u k0 r0. upd_case t u E.
      * intros _ H. rewrite ?Etodo in H. inversion H; subst. reflexivity.
      * apply I3.
    + intros u k0 r0. upd_case t u E; [lia|]. apply I4.
    + intros u k0 c0. upd_case t u E; apply I5.
  - (* insert if absent *)
    assert (Hl : r_lock s = Some t) by (apply I2; lia).
    pose proof (I3 t k rest Epc Etodo) as Hloc.
    destruct (rt_local (r_thr s t)) as [c|] eqn:Eloc.
    + (* found *)
      unfold RInv; simpl. repeat split; try assumption.
      * intros u. upd_case t u E; intros H; [exact Hl | apply I2; exact H].
      * intros u k0 r0. upd_case t u E; [discriminate|]. apply I3.
      * intros u k0 r0. upd_case t u E.
        -- intros _ H. rewrite ?Etodo in H. inversion H; subst. exists c. split; [reflexivity|].
           apply lookup_some. symmetry. exact Hloc.
        -- apply I4.
      * intros u k0 c0. upd_case t u E; apply I5.
    + (* absent: allocate and insert *)
      assert (Hfresh : ~ In k (map fst (r_map s))) by (apply lookup_none; symmetry; exact Hloc).
      unfold RInv; simpl. repeat split.
      * constructor; assumption.
      * intros u. upd_case t u E; intros H; [exact Hl | apply I2; exact H].
      * intros u k0 r0. upd_case t u E; [discriminate|].
        intros H2 _. exfalso. assert (K : r_lock s = Some u) by (apply I2; lia). congruence.
      * intros u k0 r0. upd_case t u E.
        -- intros _ H. rewrite ?Etodo in H. inversion H; subst. exists (r_next s). split; [reflexivity | left; reflexivity].
        -- intros H3 Ht. destruct (I4 u k0 r0 H3 Ht) as [c [Hc Hin]]. exists c. split; [exact Hc | right; exact Hin].
      * intros u k0 c0. upd_case t u E; intros H; right; apply (I5 _ _ _ H).
      * intros k0 c0 [H|H]; [inversion H; subst; lia | pose proof (I7 k0 c0 H); lia].
      * constructor; [|exact I8]. intros H. apply in_map_iff in H. destruct H as [[k0 c0] [Hc Hin]].
        simpl in Hc. subst c0. pose proof (I7 k0 _ Hin). lia.
  - (* Unlock and return *)
    assert (Hl : r_lock s = Some t) by (apply I2; lia).
    destruct (I4 t k rest ltac:(lia) Etodo) as [c [Hc Hin]].
    rewrite Hc.
    unfold RInv; simpl. repeat split; try assumption.
    + intros u. upd_case t u E; intros H; [congruence|].
      exfalso. pose proof (I2 u H) as K. congruence.
    + intros u k0 r0. upd_case t u E; [discriminate|]. apply I3.
    + intros u k0 r0. upd_case t u E; [lia|]. apply I4.
    + intros u k0 c0. upd_case t u E.
      * intros H. apply in_app_or in H. destruct H as [H|[H|[]]]; [apply (I5 _ _ _ H)|].
        inversion H; subst. exact Hin.
      * apply I5.
Qed.

Lemma RInv_run sched : forall s, RInv s -> RInv (rrun true s sched).
Proof.
  unfold rrun. induction sched as [|t r IH]; intros s H; simpl; [exact H|].
  apply IH. apply RInv_step. exact H.
Qed.

(* Under EVERY interleaving of any number of threads making any accessor calls:
   (1) the registry never holds two classes for one type key;
   (2) whatever two calls (of any threads) for one key returned is the same class;
   (3) it is the class the registry holds for the key;
   (4) classes of different keys are different objects. *)
Theorem registry_unique (todos : list (list nat)) (sched : list nat) :
  let s := rrun true (rinit todos) sched in
  (forall k, classes_for k s <= 1) /\
  (forall t1 t2 k c1 c2, In (k, c1) (rt_rets (r_thr s t1)) -> In (k, c2) (rt_rets (r_thr s t2)) -> c1 = c2) /\
  (forall t k c, In (k, c) (rt_rets (r_thr s t)) -> lookup k (r_map s) = Some c) /\
  (forall t1 t2 k1 k2 c, In (k1, c) (rt_rets (r_thr s t1)) -> In (k2, c) (rt_rets (r_thr s t2)) -> k1 = k2).
Proof.
  intros s. destruct (RInv_run sched _ (RInv_init todos)) as (I1 & _ & _ & _ & I5 & _ & I8). fold s in I1, I5, I8.
  split; [| split; [| split]].
  - intros k. unfold classes_for. revert I1. generalize (r_map s). intros m.
    induction m as [|[k' c'] r IH]; simpl; intros N; [lia|].
    inversion N as [|? ? Hn Nr]; subst. destruct (Nat.eqb k' k) eqn:E; simpl.
    + apply Nat.eqb_eq in E. subst k'.
      assert (Z : filter (fun p => Nat.eqb (fst p) k) r = []).
      { destruct (filter (fun p => Nat.eqb (fst p) k) r) as [|x xs] eqn:F; [reflexivity|].
        assert (Hx : In x (filter (fun p => Nat.eqb (fst p) k) r)) by (rewrite F; left; reflexivity).
        apply filter_In in Hx. destruct Hx as [Hx Hk]. apply Nat.eqb_eq in Hk.
        exfalso. apply Hn. apply in_map_iff. exists x. split; assumption. }
      rewrite Z. simpl. lia.
    + apply IH; exact Nr.
  - intros t1 t2 k c1 c2 H1 H2. apply (nodup_fst_unique (r_map s) k); [exact I1 | apply (I5 _ _ _ H1) | apply (I5 _ _ _ H2)].
  - intros t k c H. apply nodup_fst_lookup; [exact I1 | apply (I5 _ _ _ H)].
  - intros t1 t2 k1 k2 c H1 H2. apply I5 in H1. apply I5 in H2.
    revert I8 H1 H2. generalize (r_map s). intros m. induction m as [|[k' c'] r IH]; simpl; intros N H1 H2; [contradiction|].
    inversion N as [|? ? Hn Nr]; subst.
    destruct H1 as [H1|H1], H2 as [H2|H2].
    + congruence.
    + inversion H1; subst. exfalso. apply Hn. apply in_map_iff. exists (k2, c). split; [reflexivity | exact H2].
    + inversion H2; subst. exfalso. apply Hn. apply in_map_iff. exists (k1, c). split; [reflexivity | exact H1].
    + apply IH; assumption.
Qed.

(* ---------- progress: the protocol cannot get stuck ---------- *)

(* the work left for thread u: 4 micro-steps per outstanding call, minus those done of the current one *)
Definition work (s : rstate) (u : nat) : nat := 4 * length (rt_todo (r_thr s u)) - rt_pc (r_thr s u).

Definition RInv2 (s : rstate) : Prop :=
  RInv s /\
  (forall h, r_lock s = Some h -> rt_pc (r_thr s h) <> 0) /\
  (forall u, rt_pc (r_thr s u) <> 0 -> rt_todo (r_thr s u) <> []) /\
  (forall u, rt_pc (r_thr s u) <= 3).

Lemma RInv2_init todos : RInv2 (rinit todos).
Proof.
  split; [apply RInv_init|]. unfold rinit; simpl. repeat split; intros; try discriminate; try congruence; lia.
Qed.

Lemma RInv2_step s t : RInv2 s -> RInv2 (rstep true s t).
Proof.
  intros (I & J1 & J2 & J3). split; [apply RInv_step; exact I|].
  destruct I as (_ & I2 & _ & I4 & _).
  unfold rstep. destruct (rt_todo (r_thr s t)) as [|k rest] eqn:Etodo.
  { repeat split; assumption. }
  destruct (rt_pc (r_thr s t)) as [|[|[|p]]] eqn:Epc.
  - destruct (r_lock s) as [h|] eqn:El.
    { rewrite El. repeat split; assumption. }
    simpl. repeat split.
    + intros h H. inversion H; subst h. unfold rupd. rewrite Nat.eqb_refl. simpl. lia.
    + intros u. upd_case t u E; [intros _; rewrite ?Etodo; discriminate | apply J2].
    + intros u. upd_case t u E; [lia | apply J3].
  - simpl. repeat split.
    + intros h H. upd_case t h E; [lia | apply J1; exact H].
    + intros u. upd_case t u E; [intros _; rewrite ?Etodo; discriminate | apply J2].
    + intros u. upd_case t u E; [lia | apply J3].
  - destruct (rt_local (r_thr s t)) as [c|]; simpl; repeat split.
    + intros h H. upd_case t h E; [lia | apply J1; exact H].
    + intros u. upd_case t u E; [intros _; rewrite ?Etodo; discriminate | apply J2].
    + intros u. upd_case t u E; [lia | apply J3].
    + intros h H. upd_case t h E; [lia | apply J1; exact H].
    + intros u. upd_case t u E; [intros _; rewrite ?Etodo; discriminate | apply J2].
    + intros u. upd_case t u E; [lia | apply J3].
  - destruct (rt_local (r_thr s t)) as [c|]; [|repeat split; assumption].
    simpl. repeat split.
    + intros h H. discriminate.
    + intros u. upd_case t u E; [intros H; congruence | apply J2].
    + intros u. upd_case t u E; [lia | apply J3].
Qed.

Lemma RInv2_run sched : forall s, RInv2 s -> RInv2 (rrun true s sched).
Proof.
  unfold rrun. induction sched as [|t r IH]; intros s H; simpl; [exact H|].
  apply IH. apply RInv2_step. exact H.
Qed.

(* In every reachable state in which some call is outstanding there is a thread whose next
   step makes progress (the holder of the mutex if it is taken, any thread otherwise): no
   deadlock; with a fair scheduler every accessor call returns. *)
Theorem registry_progress (todos : list (list nat)) (sched : list nat) :
  let s := rrun true (rinit todos) sched in
  (exists t, rt_todo (r_thr s t) <> []) ->
  exists u, work (rstep true s u) u < work s u.
Proof.
  intros s [t Ht].
  destruct (RInv2_run sched _ (RInv2_init todos)) as (I & J1 & J2 & J3). fold s in I, J1, J2, J3.
  destruct I as (_ & I2 & _ & I4 & _).
  assert (P : forall u, rt_todo (r_thr s u) <> [] -> (r_lock s = None \/ r_lock s = Some u) ->
                        work (rstep true s u) u < work s u).
  { intros u Hu Hl. unfold work, rstep.
    destruct (rt_todo (r_thr s u)) as [|k rest] eqn:Etodo; [congruence|].
    pose proof (J3 u) as B.
    destruct (rt_pc (r_thr s u)) as [|[|[|p]]] eqn:Epc.
    - destruct Hl as [Hl|Hl].
      + rewrite Hl. simpl. unfold rupd. rewrite Nat.eqb_refl. simpl. rewrite ?Etodo. simpl. lia.
      + exfalso. apply (J1 u Hl). exact Epc.
    - simpl. unfold rupd. rewrite Nat.eqb_refl. simpl. rewrite ?Etodo. simpl. lia.
    - destruct (rt_local (r_thr s u)); simpl; unfold rupd; rewrite Nat.eqb_refl; simpl; rewrite ?Etodo; simpl; lia.
    - destruct (I4 u k rest ltac:(lia) Etodo) as [c [Hc _]]. rewrite Hc.
      simpl. unfold rupd. rewrite Nat.eqb_refl. simpl. lia. }
  destruct (r_lock s) as [h|] eqn:El.
  - exists h. apply P; [apply J2; apply J1; reflexivity | right; reflexivity].
  - exists t. apply P; [exact Ht | left; reflexivity].
Qed.

(* non-vacuity: three threads, first use of keys 7 and 8 from all of them at once; a
   round-robin schedule finishes every call and every thread got the one class per key *)
Example registry_run_example :
  let s := rrun true (rinit [[7; 8]; [7]; [8; 7]]) (concat (repeat [0; 1; 2] 30)) in
  rdone 3 s = true /\
  rt_rets (r_thr s 0) = [(7, 0); (8, 1)] /\ rt_rets (r_thr s 1) = [(7, 0)] /\ rt_rets (r_thr s 2) = [(8, 1); (7, 0)] /\
  classes_for 7 s = 1 /\ classes_for 8 s = 1.
Proof. vm_compute. repeat split; reflexivity. Qed.

(* the contrast: the same accessor code WITHOUT the mutex creates two classes for one key and
   hands different classes to the two callers — the theorem rests on the lock *)
Theorem registry_unlocked_refuted :
  exists todos sched,
    let s := rrun false (rinit todos) sched in
    rdone 2 s = true /\ classes_for 7 s = 2 /\
    exists c1 c2, In (7, c1) (rt_rets (r_thr s 0)) /\ In (7, c2) (rt_rets (r_thr s 1)) /\ c1 <> c2.
Proof.
  exists [[7]; [7]], [0; 1; 0; 1; 0; 1; 0; 1]. vm_compute.
  split; [reflexivity|]. split; [reflexivity|].
  exists 0, 1. split; [left; reflexivity|]. split; [left; reflexivity | discriminate].
Qed.
