(* FormatRun.v — decoders and comparison for the formatter correspondence (C10, format half).
   A case = one formatter maximum, the oracle tables of the case (text of
   strconv.FormatFloat(f,'G',-1,64) per float64 bit pattern; strconv.IsPrint per non-ASCII rune)
   and a sequence of FormatValue calls observed on ONE notation (through Notation.FormatValue,
   String() of a collection, or the module-level FormatValue).  After the repair of D13 every
   call must give the text a fresh formatter gives: each call is compared with [format0].
   A Go map's entries are listed in the order the observed text shows them (the harness
   recovers it from the text; the comparison of the text itself stays exact).
   No proofs. *)
From Coq Require Import String Ascii.
From Verif Require Import Base Value Formatter FormatSpec.
Open Scope Z_scope.

(* obs: OText text (runes) = the call returned it, OPanic = it panicked, OCrash = the process
   died or the call did not return (never produced by the model: always a mismatch).
   rt: the REAL round trip ParseSource(text) observed by the harness: 0 = parsed, 1 = not
   attempted (the call panicked / not a collection), 2 = ParseSource panicked, 5 = it did not
   return; rteq = CompareValues(original, parsed) under the any-collator; rttxt = formatting the
   parsed value gives the same text (lines compared as a multiset when the value holds a Map
   with two or more entries). *)
(* compact notation for texts and byte strings in case files: runs of printable ASCII (and the
   newline) as Coq strings, everything else as numbers *)
Inductive seg := S_ (s : string) | U_ (l : list Z).
Definition segs (l : list seg) : list Z :=
  flat_map (fun x => match x with S_ s => s2z s | U_ l => l end) l.

Inductive fobs := OText (t : list Z) | OPanic | OCrash.
Inductive fcall := FCall (v : val) (obs : fobs) (rt : Z) (rteq rttxt : bool).
Record fcase := { fc_max : nat; fc_ftext : list (Z * list Z); fc_print : list (Z * bool); fc_calls : list fcall }.

Definition ft_of (tbl : list (Z * list Z)) (bits : Z) : list Z :=
  match find (fun p => fst p =? bits) tbl with Some p => snd p | None => [] end.
Definition pr_of (tbl : list (Z * bool)) (r : Z) : bool :=
  match find (fun p => fst p =? r) tbl with Some p => snd p | None => false end.

Definition model_out (c : fcase) (v : val) : out (list Z) :=
  format0 (ft_of (fc_ftext c)) (pr_of (fc_print c)) (fc_max c) v.

Definition text_ok (m : out (list Z)) (obs : fobs) : bool :=
  match m, obs with
  | Ret t, OText o => list_eqb Z.eqb t o
  | Panic, OPanic => true
  | _, _ => false
  end.

(* the round trip the property demands of the real code, by class of the value *)
Definition rt_ok (mx : nat) (v : val) (obs : fobs) (rt : Z) (rteq rttxt : bool) : bool :=
  match obs with
  | OPanic | OCrash => true
  | OText _ =>
    match rt_class mx v with
    | O => true
    | S O => (rt =? 0) && rttxt
    | _ => (rt =? 0) && rteq && rttxt
    end
  end.

(* 0 = fine, 1 = text or outcome differs from the model, 2 = the real round trip failed *)
Definition call_code (c : fcase) (k : fcall) : nat :=
  match k with
  | FCall v obs rt rteq rttxt =>
    if negb (text_ok (model_out c v) obs) then 1%nat
    else if negb (rt_ok (fc_max c) v obs rt rteq rttxt) then 2%nat
    else O
  end.

Fixpoint first_bad_call (c : fcase) (ks : list fcall) (i : nat) : option nat :=
  match ks with
  | [] => None
  | k :: t => match call_code c k with O => first_bad_call c t (S i) | _ => Some i end
  end.

(* the oracle hypotheses of float_text_ok / complex_text_ok, checked on every table entry of a
   finite float: the %G shape, and a leading minus sign exactly when the sign bit is set *)
Definition minus_ok (bits : Z) (t : list Z) : bool :=
  Bool.eqb (two63 <=? bits) (match t with c :: _ => c =? 45 | [] => false end).
Fixpoint first_bad_oracle (tbl : list (Z * list Z)) (i : nat) : option nat :=
  match tbl with
  | [] => None
  | (bits, t) :: r => if negb (f_finite bits) || (g_shape t && minus_ok bits t) then first_bad_oracle r (S i) else Some i
  end.

(* (case, step): step < 1000 = index of the first call that disagrees; 1000 + i = the i-th
   entry of the float table does not have the %G shape *)
Fixpoint fmismatches_from (n : nat) (cases : list fcase) : list (nat * nat) :=
  match cases with
  | [] => []
  | c :: t =>
    match first_bad_call c (fc_calls c) 0, first_bad_oracle (fc_ftext c) 0 with
    | Some i, _ => (n, i) :: fmismatches_from (S n) t
    | None, Some i => (n, (1000 + i)%nat) :: fmismatches_from (S n) t
    | None, None => fmismatches_from (S n) t
    end
  end.
Definition fmismatches (cases : list fcase) : list (nat * nat) := fmismatches_from 0 cases.

(* ---------- human-readable report for ./check explain and replay files ---------- *)
Definition show_char (z : Z) : ascii :=
  if (32 <=? z) && (z <? 127) then ascii_of_N (Z.to_N z)
  else if z =? 10 then "/"%char else "?"%char.
Definition show (t : list Z) : string := string_of_list_ascii (map show_char t).
Definition show_out (o : out (list Z)) : string :=
  match o with Ret t => show t | Panic => "<panic>"%string | Hang => "<hang>"%string end.
Fixpoint first_diff (a b : list Z) (i : nat) : option nat :=
  match a, b with
  | [], [] => None
  | x :: a', y :: b' => if x =? y then first_diff a' b' (S i) else Some i
  | _, _ => Some i
  end.
Definition empty_case : fcase := {| fc_max := 0; fc_ftext := []; fc_print := []; fc_calls := [] |}.
(* model text / observed text (newline shown as "/", non-ASCII as "?"), exact model output,
   position of the first differing rune, class of the value, call code *)
Definition call_report (c : fcase) (i : nat) :=
  match nth_error (fc_calls c) i with
  | Some (FCall v obs rt rteq rttxt as k) =>
      let m := model_out c v in
      Some (show_out m, match obs with OText o => show o | OPanic => "<panic>"%string | OCrash => "<crash>"%string end, m,
            match m, obs with Ret t, OText o => first_diff t o 0 | _, _ => None end,
            rt_class (fc_max c) v, (rt, rteq, rttxt), call_code c k)
  | None => None
  end.
Definition oracle_report (c : fcase) (i : nat) :=
  if (i <? 1000)%nat then None
  else option_map (fun p => (fst p, show (snd p), g_shape (snd p), minus_ok (fst p) (snd p))) (nth_error (fc_ftext c) (i - 1000)).
