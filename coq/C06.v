(* C06.v — Fork, Split and Join conserve, order and terminate streams
   Statements only: every theorem is closed by [exact] of a lemma proved elsewhere, and its
   axioms are printed.  Programs: Pipes.v; model: Conc.v (validated against
   v4/collection/queue.go under the controlled scheduler by ./check C06).
   Every theorem quantifies over ALL input streams vs, fan-outs k >= 1 (the library demands
   k >= 2), capacities, and ALL schedules (every configuration [run prog sched]). *)
From Verif Require Import Base Conc Pipes PipesGen PipesMeasure PipesProofs PipesLive PipesTerm.
Close Scope Z_scope.
Open Scope nat_scope.

(* ---------------- safety ---------------- *)
Theorem C06_fork_safe :
  forall (vs : list Z) (k cap : nat) (sched : list nat) (j : nat),
    1 <= k -> 1 <= j <= k ->
    let c := run (fork_prog vs k cap) sched in
    prefix (qapp (getq c j)) vs /\ prefix (received (tres (gett c (S j)))) vs.
Proof. exact fork_safe. Qed.

Theorem C06_split_safe :
  forall (vs : list Z) (k cap : nat) (sched : list nat) (j : nat),
    1 <= k -> 1 <= j <= k ->
    let c := run (split_prog vs k cap) sched in
    prefix (qapp (getq c j)) (rr k (j - 1) vs) /\
    prefix (received (tres (gett c (S j)))) (rr k (j - 1) vs).
Proof. exact split_safe. Qed.

(* round-robin classes: element i of the stream is element i / k of class i mod k (exactly one output) *)
Theorem C06_split_exactly_one_output :
  forall (k : nat) (l : list Z) (i : nat) (d : Z),
    1 <= k -> nth (i / k) (rr k (i mod k) l) d = nth i l d.
Proof. exact rr_position. Qed.

Theorem C06_splitjoin_safe :
  forall (vs : list Z) (k cap : nat) (sched : list nat),
    1 <= k ->
    let c := run (splitjoin_prog vs k cap) sched in
    prefix (qapp (getq c (S k))) vs /\ prefix (received (tres (gett c 3))) vs.
Proof. exact splitjoin_safe. Qed.

Theorem C06_splitjoin_coupling :
  forall (vs : list Z) (k cap : nat) (sched : list nat),
    1 <= k ->
    let c := run (splitjoin_prog vs k cap) sched in
    exists D F : list Z,
      prefix F D /\ prefix D vs /\
      prefix (qapp (getq c (S k))) F /\ length F <= S (length (qapp (getq c (S k)))) /\
      forall j, 1 <= j <= k ->
        qapp (getq c j) = rr k (j - 1) D /\ qpop (getq c j) = rr k (j - 1) F /\
        rr k (j - 1) D = rr k (j - 1) F ++ qvals (getq c j).
Proof. exact splitjoin_coupling. Qed.

(* ---------------- closure ---------------- *)
Theorem C06_fork_closure :
  forall (vs : list Z) (k cap : nat) (sched : list nat),
    1 <= k ->
    let c := run (fork_prog vs k cap) sched in
    no_stuck c /\
    (thread_done (gett c 0) = true ->
       (forall j, 1 <= j <= k -> qclosed (getq c j) = true) /\
       In RDoneWg (tres (gett c 0)) /\ wg c = 0) /\
    (forall t c' q, step c t = Some c' -> qclosed (getq c q) = true ->
       qapp (getq c' q) = qapp (getq c q)) /\
    (forall j, 1 <= j <= k -> told_closed (tres (gett c (S j))) ->
       received (tres (gett c (S j))) = qapp (getq c j)).
Proof. exact fork_closure. Qed.

Theorem C06_split_closure :
  forall (vs : list Z) (k cap : nat) (sched : list nat),
    1 <= k ->
    let c := run (split_prog vs k cap) sched in
    no_stuck c /\
    (thread_done (gett c 0) = true ->
       (forall j, 1 <= j <= k -> qclosed (getq c j) = true) /\
       In RDoneWg (tres (gett c 0)) /\ wg c = 0) /\
    (forall t c' q, step c t = Some c' -> qclosed (getq c q) = true ->
       qapp (getq c' q) = qapp (getq c q)) /\
    (forall j, 1 <= j <= k -> told_closed (tres (gett c (S j))) ->
       received (tres (gett c (S j))) = qapp (getq c j)).
Proof. exact split_closure. Qed.

Theorem C06_splitjoin_closure :
  forall (vs : list Z) (k cap : nat) (sched : list nat),
    1 <= k ->
    let c := run (splitjoin_prog vs k cap) sched in
    no_stuck c /\
    (thread_done (gett c 0) = true ->
       (forall j, 1 <= j <= k -> qclosed (getq c j) = true) /\ In RDoneWg (tres (gett c 0))) /\
    (thread_done (gett c 1) = true ->
       qclosed (getq c (S k)) = true /\ In RDoneWg (tres (gett c 1))) /\
    wg c = (if thread_done (gett c 0) then 0 else 1) + (if thread_done (gett c 1) then 0 else 1) /\
    (forall t c' q, step c t = Some c' -> qclosed (getq c q) = true ->
       qapp (getq c' q) = qapp (getq c q)) /\
    (told_closed (tres (gett c 3)) -> received (tres (gett c 3)) = qapp (getq c (S k))).
Proof. exact splitjoin_closure. Qed.

(* ---------------- liveness ---------------- *)
Theorem C06_fork_deadlock_free :
  forall (vs : list Z) (k cap : nat) (sched : list nat),
    1 <= k -> 1 <= cap -> deadlocked (run (fork_prog vs k cap) sched) = false.
Proof. exact fork_deadlock_free. Qed.

Theorem C06_split_deadlock_free :
  forall (vs : list Z) (k cap : nat) (sched : list nat),
    1 <= k -> 1 <= cap -> deadlocked (run (split_prog vs k cap) sched) = false.
Proof. exact split_deadlock_free. Qed.

Theorem C06_splitjoin_deadlock_free :
  forall (vs : list Z) (k cap : nat) (sched : list nat),
    1 <= k -> 1 <= cap -> deadlocked (run (splitjoin_prog vs k cap) sched) = false.
Proof. exact splitjoin_deadlock_free. Qed.

Theorem C06_fork_terminate :
  forall (vs : list Z) (k cap : nat),
    1 <= k -> 1 <= cap ->
    let prog := fork_prog vs k cap in
    (forall sched t c', step (run prog sched) t = Some c' ->
       fork_mu vs k c' < fork_mu vs k (run prog sched)) /\
    (forall sched c', run_strict prog sched = Some c' -> length sched <= fork_mu vs k prog) /\
    (forall sched, let c := run prog sched in quiet c ->
       final c = true /\ no_stuck c /\ wg c = 0 /\ all_closed_empty c /\
       forall j, 1 <= j <= k ->
         qapp (getq c j) = vs /\ received (tres (gett c (S j))) = vs /\
         told_closed (tres (gett c (S j)))).
Proof. exact fork_terminate. Qed.

Theorem C06_split_terminate :
  forall (vs : list Z) (k cap : nat),
    1 <= k -> 1 <= cap ->
    let prog := split_prog vs k cap in
    (forall sched t c', step (run prog sched) t = Some c' ->
       split_mu vs k c' < split_mu vs k (run prog sched)) /\
    (forall sched c', run_strict prog sched = Some c' -> length sched <= split_mu vs k prog) /\
    (forall sched, let c := run prog sched in quiet c ->
       final c = true /\ no_stuck c /\ wg c = 0 /\ all_closed_empty c /\
       forall j, 1 <= j <= k ->
         qapp (getq c j) = rr k (j - 1) vs /\ received (tres (gett c (S j))) = rr k (j - 1) vs /\
         told_closed (tres (gett c (S j)))).
Proof. exact split_terminate. Qed.

Theorem C06_splitjoin_terminate :
  forall (vs : list Z) (k cap : nat),
    1 <= k -> 1 <= cap ->
    let prog := splitjoin_prog vs k cap in
    (forall sched t c', step (run prog sched) t = Some c' ->
       sj_mu vs k c' < sj_mu vs k (run prog sched)) /\
    (forall sched c', run_strict prog sched = Some c' -> length sched <= sj_mu vs k prog) /\
    (forall sched, let c := run prog sched in quiet c ->
       final c = true /\ no_stuck c /\ wg c = 0 /\ all_closed_empty c /\
       qapp (getq c (S k)) = vs /\ received (tres (gett c 3)) = vs /\ told_closed (tres (gett c 3))).
Proof. exact splitjoin_terminate. Qed.

(* ---------------- non-vacuity: concrete instances, complete schedules ---------------- *)
Definition ex_vs : list Z := [10%Z; 11%Z; 12%Z].

Example C06_fork_example :
  let prog := fork_prog ex_vs 2 1 in
  let sched := complete_sched false prog 300 in
  let c := run prog sched in
  (run_strict prog sched = Some c /\ quiet_b c = true /\ final c = true /\ deadlocked c = false) /\
  (wg c = 0 /\ thread_done (gett c 0) = true /\
   map (fun q => (qclosed (getq c q), qvals (getq c q), qtok (getq c q))) [0; 1; 2] =
     [(true, [], 0); (true, [], 0); (true, [], 0)]) /\
  (map (fun j => received (tres (gett c (S j)))) [1; 2] = [ex_vs; ex_vs] /\
   map (fun j => told_closed_b (tres (gett c (S j)))) [1; 2] = [true; true]) /\
  (length sched <=? fork_mu ex_vs 2 prog) = true /\
  (* a configuration in the middle of the run: proper prefixes *)
  (let m := run prog (firstn 20 sched) in
   (qapp (getq m 1), qapp (getq m 2), received (tres (gett m 2)), final m, deadlocked m)
   = ([10%Z; 11%Z], [10%Z; 11%Z], [10%Z], false, false)).
Proof. vm_compute. repeat split; reflexivity. Qed.

Example C06_split_example :
  let prog := split_prog ex_vs 2 1 in
  let sched := complete_sched true prog 300 in
  let c := run prog sched in
  (run_strict prog sched = Some c /\ quiet_b c = true /\ final c = true /\ deadlocked c = false) /\
  (wg c = 0 /\ thread_done (gett c 0) = true /\
   map (fun q => (qclosed (getq c q), qvals (getq c q), qtok (getq c q))) [0; 1; 2] =
     [(true, [], 0); (true, [], 0); (true, [], 0)]) /\
  (map (fun j => received (tres (gett c (S j)))) [1; 2] = [[10%Z; 12%Z]; [11%Z]] /\
   map (fun j => rr 2 (j - 1) ex_vs) [1; 2] = [[10%Z; 12%Z]; [11%Z]] /\
   map (fun j => told_closed_b (tres (gett c (S j)))) [1; 2] = [true; true]) /\
  (length sched <=? split_mu ex_vs 2 prog) = true.
Proof. vm_compute. repeat split; reflexivity. Qed.

Example C06_splitjoin_example :
  let prog := splitjoin_prog ex_vs 2 1 in
  let sched := complete_sched false prog 300 in
  let c := run prog sched in
  (run_strict prog sched = Some c /\ quiet_b c = true /\ final c = true /\ deadlocked c = false) /\
  (wg c = 0 /\ thread_done (gett c 0) = true /\ thread_done (gett c 1) = true /\
   map (fun q => (qclosed (getq c q), qvals (getq c q), qtok (getq c q))) [0; 1; 2; 3] =
     [(true, [], 0); (true, [], 0); (true, [], 0); (true, [], 0)]) /\
  (received (tres (gett c 3)) = ex_vs /\ told_closed_b (tres (gett c 3)) = true) /\
  (length sched <=? sj_mu ex_vs 2 prog) = true /\
  (* in the middle of the run with the other scheduler: Join lags behind Split *)
  (let m := run prog (firstn 22 (complete_sched true prog 300)) in
   (qapp (getq m 1), qapp (getq m 2), qpop (getq m 1), qpop (getq m 2), qapp (getq m 3),
    final m, deadlocked m) =
   ([10%Z], [11%Z], [10%Z], [], [10%Z], false, false)).
Proof. vm_compute. repeat split; reflexivity. Qed.

(* the empty stream and a stream shorter than the fan-out *)
Example C06_short_streams :
  (let c := run (splitjoin_prog [] 3 2) (complete_sched true (splitjoin_prog [] 3 2) 300) in
   (final c, wg c, received (tres (gett c 3)), told_closed_b (tres (gett c 3))) = (true, 0, [], true)) /\
  (let c := run (split_prog [7%Z] 3 1) (complete_sched false (split_prog [7%Z] 3 1) 300) in
   (final c, wg c, map (fun j => received (tres (gett c (S j)))) [1; 2; 3]) = (true, 0, [[7%Z]; []; []])).
Proof. vm_compute. repeat split; reflexivity. Qed.

(* The theorems never look at a value: streams of repeated and zero values are instances like any other.
   (The harness encodes the zero value of the element type - 0, "", nil pointer, nil interface, nil slice -
   as 0 and runs such streams through the real Queue[string], Queue[*int], Queue[any], Queue[[]int].) *)
Example C06_zero_values :
  (let c := run (splitjoin_prog [0%Z; 0%Z; 10%Z; 0%Z] 2 1) (complete_sched true (splitjoin_prog [0%Z; 0%Z; 10%Z; 0%Z] 2 1) 400) in
   (final c, wg c, received (tres (gett c 3)), told_closed_b (tres (gett c 3))) = (true, 0, [0%Z; 0%Z; 10%Z; 0%Z], true)) /\
  (let c := run (fork_prog [0%Z; 0%Z; 0%Z] 2 1) (complete_sched false (fork_prog [0%Z; 0%Z; 0%Z] 2 1) 400) in
   (final c, wg c, map (fun j => received (tres (gett c (S j)))) [1; 2]) = (true, 0, [[0%Z; 0%Z; 0%Z]; [0%Z; 0%Z; 0%Z]])) /\
  (let c := run (split_prog [0%Z; 11%Z; 0%Z] 2 2) (complete_sched true (split_prog [0%Z; 11%Z; 0%Z] 2 2) 400) in
   (final c, wg c, map (fun j => received (tres (gett c (S j)))) [1; 2]) = (true, 0, [[0%Z; 0%Z]; [11%Z]])).
Proof. vm_compute. repeat split; reflexivity. Qed.

Print Assumptions C06_fork_safe.
Print Assumptions C06_split_safe.
Print Assumptions C06_split_exactly_one_output.
Print Assumptions C06_splitjoin_safe.
Print Assumptions C06_splitjoin_coupling.
Print Assumptions C06_fork_closure.
Print Assumptions C06_split_closure.
Print Assumptions C06_splitjoin_closure.
Print Assumptions C06_fork_deadlock_free.
Print Assumptions C06_split_deadlock_free.
Print Assumptions C06_splitjoin_deadlock_free.
Print Assumptions C06_fork_terminate.
Print Assumptions C06_split_terminate.
Print Assumptions C06_splitjoin_terminate.
