(* C12 — ParseSource is total: any input ends in a value or a located syntax diagnostic.
   Statements only; the proofs are in LexerProofs.v, ParserProofs.v, CdcnProofs.v. *)
From Coq Require Import String.
From Verif Require Import Base Params Value Lexer Literals Parser LexerProofs ParserProofs CdcnProofs ParseRun ScannerLeak ParserCount ParserCountProofs.
Close Scope string_scope.
Close Scope Z_scope.

(* the model is pinned to the source: the twelve token expressions and the order of scanTokens *)
Theorem C12_scan_order_pinned :
  scan_order_t = [TBoolean; TComplex; TDelimiter; TEOL; TFloat; THexadecimal; TInteger; TNil; TRune; TSpace; TString; TType].
Proof. exact scan_order_pinned. Qed.

(* the push-back capacity of the source is at least the 3 tokens the proofs need *)
Theorem C12_stack_capacity_suffices : 3 <= stack_cap.
Proof. exact stack_cap_ok. Qed.

(* the string recognizer of the model is the literal backtracking reading of the expression *)
Theorem C12_string_recognizer_is_backtracking :
  forall fuel l, (length l < fuel)%nat -> str_body fuel l = str_bt fuel l.
Proof. exact str_body_bt. Qed.

(* lex_total: for every input the token list ends with exactly one EOF, contains at most one
   Error token, immediately before it (carrying the same line and position); the scanner
   never runs out of fuel *)
Theorem C12_lex_total : forall src, well_ended (lex src).
Proof. exact lex_total. Qed.

(* lex_positions: with k the rune offset at which a token starts, its line is 1 + the number
   of newlines before k and its position 1 + the number of runes since the last newline *)
Theorem C12_lex_offsets_erase : forall src, map snd (lex_off src) = lex src.
Proof. exact lex_off_erase. Qed.
Theorem C12_lex_positions : forall src k t, In (k, t) (lex_off src) ->
  (k <= length src)%nat /\ tline t = line_of (firstn k src) /\ tpos t = col_of (firstn k src).
Proof. exact lex_positions. Qed.
Theorem C12_lex_token_text : forall src k t, In (k, t) (lex_off src) -> ttype_of t <> TEOF -> ttype_of t <> TError ->
  exists n, recognize (ttype_of t) (skipn k src) = Some n /\ tval t = rename (firstn n (skipn k src)).
Proof. exact lex_token_text. Qed.

(* parse_total, full strength, for every source, oracle and collator: the outcome is a value or a
   diagnostic naming a token of the stream.  Never out of fuel, never a push-back overflow, never
   starved behind EOF, no runtime error — since fix 37 also when the Set constructor's collator
   panics (members nested deeper than its traversal limit): the diagnostic names the type token. *)
Theorem C12_parse_total : forall fparse crank src,
  match parse_source fparse crank src with
  | PValue _ => True
  | PSyntax t => In t (lex src)
  | _ => False
  end.
Proof. exact parse_total. Qed.

(* the statement of the task: value or syntax diagnostic — for EVERY input, oracle and collator *)
Theorem C12_parse_total_strict : forall fparse crank src,
  is_value (parse_source fparse crank src) = true \/ is_syntax (parse_source fparse crank src) = true.
Proof. exact parse_total_strict. Qed.

(* before fix 37 (known finding C12-set-depth-limit, now repaired): two members of a Set that are
   nested 17 deep make the default collator panic inside the Set constructor (set_build = None);
   the pinned tree let that panic — not a syntax diagnostic — out of ParseSource (replay
   findings/pre-fix/D37-set-depth-limit.json).  Now the outcome is the diagnostic for the type
   token "Set", line 1, position 280. *)
Fixpoint nest (k : nat) (inner : list Z) : list Z :=
  match k with O => inner | S k' => zs "[" ++ nest k' inner ++ zs "](List)" end.
Definition deep_set_source : list Z :=
  zs "[" ++ nest 17 (zs "1") ++ zs ", " ++ nest 17 (zs "1") ++ zs "](Set)".
Theorem C12_parse_total_value_or_syntax_refuted_before_fix :
  exists src items,
    parse_source (fun _ => None) (default_crank []) (zs "[" ++ src ++ zs "](List)") = PValue (VSeq KList items) /\
    set_build (default_crank []) [] items = None /\
    parse_source (fun _ => None) (default_crank []) (zs "[" ++ src ++ zs "](Set)") = PSyntax (mkTok TType (zs "Set") 1 280).
Proof.
  exists (nest 17 (zs "1") ++ zs ", " ++ nest 17 (zs "1")). eexists. split; [vm_compute; reflexivity|].
  split; vm_compute; reflexivity.
Qed.

(* WHICH token does a diagnostic name?  The statement "the token named is the first token that cannot
   continue a sentence of the grammar" is FALSE of the model and of the real code (replay
   findings/C12-diagnostic-token.go.txt): in a list of associations, after "," (or after a newline in the
   multi-line form) a literal that is not followed by ":" is blamed ITSELF — parseAssociation puts the key
   back and hands the key token on — although the tokens up to and including it are a prefix of an
   accepted text; the first token that cannot continue is the one BEHIND it.  The diagnostic is at the
   start of the association that could not be completed: never later than the first offending token
   plus its key, but one token earlier than asked.  What IS proved: a token on which the parser stops at
   first sight — an Error token (C10_accepted_source_has_no_error_token, ErrorTokens.v), a literal
   without an exact value at any position of a derivation tree (C11_inexact_literal_rejected_anywhere,
   ParserPrefix.v) — is blamed itself, and the tokens in front of it are never blamed. *)
Theorem C12_diagnostic_is_the_first_offending_token_refuted :
  exists src src' pre t post post' v,
    lex src = pre ++ t :: post /\ parse_source (fun _ => None) (default_crank []) src = PSyntax t /\
    lex src' = pre ++ t :: post' /\ parse_source (fun _ => None) (default_crank []) src' = PValue v.
Proof.
  exists (zs "[1: 2, 3](Catalog)"), (zs "[1: 2, 3: 4](Catalog)").
  eexists [_; _; _; _; _], _, _, _, _. split; [vm_compute; reflexivity|].
  split; [vm_compute; reflexivity|]. split; vm_compute; reflexivity.
Qed.
Example C12_ex_diagnostic_tokens :
  parse_source (fun _ => None) (default_crank []) (zs "[1: 2, 3](Catalog)") = PSyntax (mkTok TInteger (zs "3") 1 8) /\
  parse_source (fun _ => None) (default_crank []) (zs "[
1: 2
3
](Catalog)") = PSyntax (mkTok TInteger (zs "3") 3 1) /\
  parse_source (fun _ => None) (default_crank []) (zs "[1: 2, 3 $](Catalog)") = PSyntax (mkTok TError (zs "$") 1 10) /\
  parse_source (fun _ => None) (default_crank []) (zs "[1: 2, 99999999999999999999: 4](Catalog)")
  = PSyntax (mkTok TInteger (zs "99999999999999999999") 1 8).
Proof. vm_compute. repeat split; reflexivity. Qed.

(* pushback_bound: the push-back stack never exceeds its capacity, for every token list *)
Theorem C12_pushback_bound : forall fparse crank ts, parse_tokens fparse crank ts <> PRuntime RPushOverflow.
Proof. exact pushback_bound_tokens. Qed.
Theorem C12_never_out_of_fuel : forall fparse crank ts, parse_tokens fparse crank ts <> POutOfFuel.
Proof. exact never_out_of_fuel_tokens. Qed.
Theorem C12_never_reads_behind_eof : forall fparse crank ts, has_eof ts -> parse_tokens fparse crank ts <> PRuntime RStarved.
Proof. exact never_starved_tokens. Qed.

(* diagnostic_located: the reported token is a token of the stream, at a rune offset k of the
   source whose line and column are the reported ones *)
Theorem C12_diagnostic_located : forall fparse crank src t,
  parse_source fparse crank src = PSyntax t ->
  exists k, In (k, t) (lex_off src) /\ (k <= length src)%nat /\
            tline t = line_of (firstn k src) /\ tpos t = col_of (firstn k src).
Proof. exact diagnostic_located. Qed.
Theorem C12_diagnostic_error_char : forall fparse crank src t,
  parse_source fparse crank src = PSyntax t -> ttype_of t = TError ->
  exists k c, nth_error src k = Some c /\ tval t = rename [c] /\
              tline t = line_of (firstn k src) /\ tpos t = col_of (firstn k src).
Proof. exact diagnostic_error_char. Qed.

(* the scanner goroutine (D18), abstract queue model: the scanner adds N tokens to a queue of
   capacity C, the parser takes k <= N of them and stops.  In every maximal run the scanner has
   added all its tokens exactly when the N - k tokens nobody reads fit into the queue; the
   repaired ParseSource reads up to EOF (k = N), so the scanner always finishes *)
Theorem C12_scanner_finishes_iff : forall N k C, k <= N -> 1 <= C ->
  forall p c, reach N k C (p, c) -> stuck N k C (p, c) -> (p = N <-> N - k <= C).
Proof. exact scanner_finishes_iff. Qed.
Theorem C12_drained_scanner_finishes : forall N C p c,
  1 <= C -> reach N N C (p, c) -> stuck N N C (p, c) -> p = N.
Proof. exact drained_scanner_finishes. Qed.

(* non-vacuity: concrete sources and what the model computes for them *)
Example C12_ex_value :
  parse_source (fun _ => None) (default_crank []) (zs "[3, 1, 2, 1](Set)") = PValue (VSeq KSet [VInt 64 1; VInt 64 2; VInt 64 3]).
Proof. vm_compute. reflexivity. Qed.
Example C12_ex_open_bracket :
  parse_source (fun _ => None) (default_crank []) (zs "[") = PSyntax (mkTok TEOF [] 1 2).
Proof. vm_compute. reflexivity. Qed.
Example C12_ex_values_under_catalog :
  parse_source (fun _ => None) (default_crank []) (zs "[1, 2](Catalog)") = PSyntax (mkTok TType (zs "Catalog") 1 8).
Proof. vm_compute. reflexivity. Qed.
Example C12_ex_illegal_character_line_2 :
  parse_source (fun _ => None) (default_crank []) (zs "[" ++ [10%Z] ++ zs "    1 $" ++ [10%Z] ++ zs "](List)") = PSyntax (mkTok TError [36%Z] 2 7).
Proof. vm_compute. reflexivity. Qed.
Example C12_ex_strict_hypothesis_satisfiable :
  (forall a b : val, (fun _ _ => Some Eq) a b <> None) /\
  is_value (parse_source (fun _ => None) (fun _ _ => Some Eq) (zs "[3, 1, 2](Set)")) = true.
Proof. split; [intros a b; discriminate|vm_compute; reflexivity]. Qed.
Example C12_ex_lexed_streams_have_eof : has_eof (lex (zs "[bad")).
Proof. exact (lex_has_eof (zs "[bad")). Qed.
Example C12_ex_deepest_pushback :
  parse_source (fun _ => None) (default_crank []) (zs "[" ++ [10%Z] ++ zs "1 2") = PSyntax (mkTok TInteger [50%Z] 2 3).
Proof. vm_compute. reflexivity. Qed.

(* ====================================================================================================
   Round 3: "no scanner goroutine is left", connected to the parser model.
   ParserCount.v is Parser.v with one addition: a panic keeps the parser state, so the number of tokens the
   parser has removed from the queue when it returns OR panics is computed ([parse_consumed]); the addition
   changes no result.  [drain_tokens] is the deferred drainTokens of the repaired ParseSource; the queue
   between the goroutines is the two-counter model of ScannerLeak.v ([scanner_finishes N k C]: in every
   maximal interleaving the scanner has added all N tokens, when the other side removes k and then stops).
   Trusted: that the Queue implementation behaves like that two-counter model (AddValue blocks exactly when C
   values wait, RemoveHead exactly when none does): C04/C05.
   ==================================================================================================== *)
Theorem C12_consumption_model_agrees :
  forall (fparse : list Z -> option Z) (crank : val -> val -> option comparison) (ts : list token),
  fst (c_parse_tokens fparse crank ts) = parse_tokens fparse crank ts.
Proof. exact consumption_model_agrees. Qed.

(* the condition is exact (and not vacuous: a maximal interleaving always exists) *)
Theorem C12_scanner_finishes_exactly_when :
  forall N k C : nat, k <= N -> 1 <= C -> (scanner_finishes N k C <-> N - k <= C).
Proof. exact scanner_finishes_exactly_when. Qed.

(* the repaired ParseSource: for EVERY source text, whatever the parser does (value, diagnostic, runtime
   panic), parser + drain remove all tokens the scanner produces, and the scanner goroutine finishes *)
Theorem C12_scanner_always_finishes :
  forall (fparse : list Z -> option Z) (crank : val -> val -> option comparison) (src : list Z),
  consumed_with_drain fparse crank src = Some (length (lex src)) /\
  scanner_finishes (length (lex src)) (length (lex src)) queue_size.
Proof. exact scanner_always_finishes. Qed.

(* the code before fix b834acd (no drain): the scanner finishes exactly when the tokens the parser left
   behind fit into the queue ... *)
Theorem C12_scanner_finishes_before_fix_iff :
  forall (fparse : list Z -> option Z) (crank : val -> val -> option comparison) (src : list Z),
  scanner_finishes (length (lex src)) (consumed_before_fix fparse crank src) queue_size <->
  length (lex src) - consumed_before_fix fparse crank src <= queue_size.
Proof. exact scanner_finishes_before_fix_iff. Qed.

(* ... which fails for the text of findings/pre-fix/D18-scanner-goroutine-left.json *)
Theorem C12_scanner_always_finishes_refuted_before_fix :
  exists src : list Z, forall (fparse : list Z -> option Z) (crank : val -> val -> option comparison),
  ~ scanner_finishes (length (lex src)) (consumed_before_fix fparse crank src) 16.
Proof. exact scanner_finishes_refuted_before_fix. Qed.

Example C12_ex_d18 :
  d18_source = zs "[1 2, 3, 4, 5, 6, 7, 8, 9, 10, 11, 12, 13, 14, 15, 16, 17](List)" /\
  length (lex d18_source) = 38 /\ consumed_before_fix (fun _ => None) (default_crank []) d18_source = 3 /\
  parse_source (fun _ => None) (default_crank []) d18_source = PSyntax (mkTok TInteger [50%Z] 1 4) /\
  consumed_with_drain (fun _ => None) (default_crank []) d18_source = Some 38 /\ (1 <=? queue_size) = true.
Proof. repeat split; vm_compute; reflexivity. Qed.

(* what the parser itself consumes: everything for a value (EOF read: done_), the Error token for an illegal
   character, one token of look-ahead for a diagnostic *)
Example C12_ex_consumed :
  parse_consumed (fun _ => None) (default_crank []) (lex (zs "[3, 1, 2, 1](Set)")) = length (lex (zs "[3, 1, 2, 1](Set)")) /\
  parser_done (fun _ => None) (default_crank []) (lex (zs "[3, 1, 2, 1](Set)")) = true /\
  lex (zs "[1, $ 2](List)") = [mkTok TDelimiter [91%Z] 1 1; mkTok TInteger [49%Z] 1 2; mkTok TDelimiter [44%Z] 1 3; mkTok TError [36%Z] 1 5; mkTok TEOF [36%Z] 1 5] /\
  parse_consumed (fun _ => None) (default_crank []) (lex (zs "[1, $ 2](List)")) = 4 /\
  parser_done (fun _ => None) (default_crank []) (lex (zs "[1, $ 2](List)")) = false /\
  consumed_with_drain (fun _ => None) (default_crank []) (zs "[1, $ 2](List)") = Some 5.
Proof. repeat split; vm_compute; reflexivity. Qed.

Print Assumptions C12_scan_order_pinned.
Print Assumptions C12_stack_capacity_suffices.
Print Assumptions C12_string_recognizer_is_backtracking.
Print Assumptions C12_lex_total.
Print Assumptions C12_lex_offsets_erase.
Print Assumptions C12_lex_positions.
Print Assumptions C12_lex_token_text.
Print Assumptions C12_parse_total.
Print Assumptions C12_parse_total_strict.
Print Assumptions C12_parse_total_value_or_syntax_refuted_before_fix.
Print Assumptions C12_diagnostic_is_the_first_offending_token_refuted.
Print Assumptions C12_pushback_bound.
Print Assumptions C12_never_out_of_fuel.
Print Assumptions C12_never_reads_behind_eof.
Print Assumptions C12_diagnostic_located.
Print Assumptions C12_diagnostic_error_char.
Print Assumptions C12_scanner_finishes_iff.
Print Assumptions C12_drained_scanner_finishes.
Print Assumptions C12_consumption_model_agrees.
Print Assumptions C12_scanner_finishes_exactly_when.
Print Assumptions C12_scanner_always_finishes.
Print Assumptions C12_scanner_finishes_before_fix_iff.
Print Assumptions C12_scanner_always_finishes_refuted_before_fix.
