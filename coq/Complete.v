(* Complete.v — parser completeness for ALL derivations of Syntax.cdsn (token level).
   Derivations are inductive relations over token lists (tokens are characterised by type
   and text; line and position are arbitrary) with the denoted value; the theorem is proved
   by mutual induction on the derivation, tracking for every parse function the exact
   resulting state: the stream left over and the size of the push-back stack. *)
From Coq Require Import String.
From Verif Require Import Base Params Value Coll Lexer Literals Parser ParserProofs.
Close Scope string_scope.
Close Scope Z_scope.

(* ---------- behaviour of the primitive operations on a known stream head ---------- *)
Lemma get_next_head s t r :
  stream s = t :: r -> ttype_of t <> TError ->
  exists s1, get_next s = inl (t, s1) /\ stream s1 = r /\ P s1 = P s - 1.
Proof.
  destruct s as [p q]. unfold stream, P, get_next. simpl. intros E Ne.
  destruct p as [|t' p'].
  - simpl in E. subst q. simpl.
    destruct (ttype_of t) eqn:Ty; try (exists (mkSt [] r); simpl; auto). congruence.
  - simpl in E. inversion E. subst. exists (mkSt p' q). simpl. repeat split; auto. lia.
Qed.

Lemma tok_yes ty w s t r :
  P s <= 3 -> stream s = t :: r -> ttype_of t <> TError -> tok_matches ty w t = true ->
  exists s1, parse_token ty w s = Yes (tval t) t s1 /\ stream s1 = r /\ P s1 = P s - 1.
Proof.
  intros HP E Ne M. destruct (get_next_head s t r E Ne) as (s1 & G & E1 & P1).
  exists s1. unfold parse_token. rewrite G. fold (tok_matches ty w t). rewrite M. auto.
Qed.

Lemma tok_no ty w s t r :
  P s <= 3 -> stream s = t :: r -> ttype_of t <> TError -> tok_matches ty w t = false ->
  exists s1, parse_token ty w s = No t s1 /\ stream s1 = t :: r /\ P s1 = Nat.max (P s) 1.
Proof.
  intros HP E Ne M. destruct (get_next_head s t r E Ne) as (s1 & G & E1 & P1).
  assert (H2 : P s1 <= 2) by lia.
  destruct (put_back_spec ltac:(exact stack_cap_ok) t s1 H2) as (s2 & B & E2 & R2 & P2).
  exists s2. unfold parse_token. rewrite G. fold (tok_matches ty w t). rewrite M, B.
  repeat split; auto; [congruence|lia].
Qed.

Lemma ttype_eqb_refl a : ttype_eqb a a = true.
Proof. destruct a; reflexivity. Qed.
Lemma ttype_eqb_false a b : ttype_eqb a b = false -> a <> b.
Proof. intros H E. subst. rewrite ttype_eqb_refl in H. discriminate. Qed.

Lemma tok_matches_none ty t : tok_matches ty None t = ttype_eqb (ttype_of t) ty.
Proof. unfold tok_matches. apply andb_true_r. Qed.

Section Heads.
Variable fparse : list Z -> option Z.

Lemma pif_no tys : forall t0 s t r,
  P s <= 3 -> stream s = t :: r -> ttype_of t <> TError ->
  (forall ty, In ty tys -> ttype_eqb (ttype_of t) ty = false) -> tys <> [] ->
  exists s1, parse_intrinsic_from fparse tys (No t0 s) = No t s1 /\ stream s1 = t :: r /\ P s1 = Nat.max (P s) 1.
Proof.
  induction tys as [|ty r' IH]; intros t0 s t r HP E Ne Hno Hne; [congruence|]. simpl.
  assert (M : tok_matches ty None t = false) by (rewrite tok_matches_none; apply Hno; left; reflexivity).
  destruct (tok_no ty None s t r HP E Ne M) as (s1 & T & E1 & P1). rewrite T.
  destruct r' as [|ty' r''].
  - simpl. exists s1. auto.
  - assert (HP1 : P s1 <= 3) by lia.
    destruct (IH t s1 t r HP1 E1 Ne (fun x Hx => Hno x (or_intror Hx)) ltac:(discriminate)) as (s2 & Q & E2 & P2).
    exists s2. repeat split; auto. lia.
Qed.

Lemma pif_yes tys : forall t0 s t r v,
  P s <= 3 -> stream s = t :: r -> ttype_of t <> TError ->
  In (ttype_of t) tys -> literal_value fparse (ttype_of t) (tval t) = Some v ->
  exists s1, parse_intrinsic_from fparse tys (No t0 s) = Yes v t s1 /\ stream s1 = r /\ P s1 = P s - 1.
Proof.
  induction tys as [|ty r' IH]; intros t0 s t r v HP E Ne Hin LV; [destruct Hin|]. simpl.
  destruct (ttype_eqb (ttype_of t) ty) eqn:Q.
  - assert (M : tok_matches ty None t = true) by (rewrite tok_matches_none; exact Q).
    destruct (tok_yes ty None s t r HP E Ne M) as (s1 & T & E1 & P1). rewrite T.
    apply ttype_eqb_eq in Q. rewrite <- Q, LV. exists s1. auto.
  - assert (M : tok_matches ty None t = false) by (rewrite tok_matches_none; exact Q).
    destruct (tok_no ty None s t r HP E Ne M) as (s1 & T & E1 & P1). rewrite T.
    assert (Hin' : In (ttype_of t) r').
    { destruct Hin as [H|H]; auto. apply ttype_eqb_false in Q. congruence. }
    assert (HP1 : P s1 <= 3) by lia.
    destruct (IH t s1 t r v HP1 E1 Ne Hin' LV) as (s2 & Q2 & E2 & P2).
    exists s2. repeat split; auto. lia.
Qed.

Lemma is_lit_in ty : is_lit ty = true <-> In ty intrinsic_types.
Proof.
  unfold intrinsic_types. split.
  - destruct ty; simpl; intro H; try discriminate; tauto.
  - simpl. intuition (subst; reflexivity).
Qed.

(* a token that stands for a literal with value v *)
Definition litv (t : token) (v : val) : Prop :=
  is_lit (ttype_of t) = true /\ literal_value fparse (ttype_of t) (tval t) = Some v.

Lemma lit_not_error t : is_lit (ttype_of t) = true -> ttype_of t <> TError.
Proof. intros H E. rewrite E in H. discriminate. Qed.

Lemma intrinsic_yes s t r v :
  P s <= 3 -> stream s = t :: r -> litv t v ->
  exists s1, parse_intrinsic fparse s = Yes v t s1 /\ stream s1 = r /\ P s1 = P s - 1.
Proof.
  intros HP E (L & LV). unfold parse_intrinsic.
  apply pif_yes; auto. apply lit_not_error; auto. apply is_lit_in; auto.
Qed.

Lemma intrinsic_no s t r :
  P s <= 3 -> stream s = t :: r -> ttype_of t <> TError -> is_lit (ttype_of t) = false ->
  exists s1, parse_intrinsic fparse s = No t s1 /\ stream s1 = t :: r /\ P s1 = Nat.max (P s) 1.
Proof.
  intros HP E Ne L. unfold parse_intrinsic. apply pif_no; auto; [|discriminate].
  intros ty Hin. destruct (ttype_eqb (ttype_of t) ty) eqn:Q; auto.
  apply ttype_eqb_eq in Q. apply is_lit_in in Hin. congruence.
Qed.
End Heads.

(* ---------- token predicates ---------- *)
Definition dl (c : Z) (t : token) : Prop := ttype_of t = TDelimiter /\ tval t = [c].
Definition eolt (t : token) : Prop := ttype_of t = TEOL.
Definition nonerr (t : token) : Prop := ttype_of t <> TError.
(* a token that is not the ":" delimiter *)
Definition not_colon (t : token) : Prop := nonerr t /\ tok_matches TDelimiter (delim 58) t = false.

Lemma dl_nonerr c t : dl c t -> nonerr t.
Proof. intros (H & _) E. congruence. Qed.
Lemma dl_not_lit c t : dl c t -> is_lit (ttype_of t) = false.
Proof. intros (H & _). rewrite H. reflexivity. Qed.
Lemma dl_match c t : dl c t -> tok_matches TDelimiter (delim c) t = true.
Proof. intros (H & V). unfold tok_matches, delim. rewrite H, V. simpl. rewrite Z.eqb_refl. reflexivity. Qed.
Lemma dl_mismatch c c' t : dl c t -> c <> c' -> tok_matches TDelimiter (delim c') t = false.
Proof.
  intros (H & V) Ne. unfold tok_matches, delim. rewrite H, V. simpl.
  destruct (Z.eqb_spec c c'); [contradiction|reflexivity].
Qed.
Lemma dl_not_type ty t c : dl c t -> ty <> TDelimiter -> tok_matches ty None t = false.
Proof.
  intros (H & _) Ne. rewrite tok_matches_none, H. destruct ty; try reflexivity. congruence.
Qed.
Lemma eol_nonerr t : eolt t -> nonerr t.
Proof. intros H E. unfold eolt in H. congruence. Qed.
Lemma eol_not_lit t : eolt t -> is_lit (ttype_of t) = false.
Proof. intro H. rewrite H. reflexivity. Qed.
Lemma eol_match t : eolt t -> tok_matches TEOL None t = true.
Proof. intro H. rewrite tok_matches_none, H. reflexivity. Qed.
Lemma eol_not_delim c t : eolt t -> tok_matches TDelimiter (delim c) t = false.
Proof. intro H. unfold tok_matches. rewrite H. reflexivity. Qed.
Lemma lit_not_delim c t : is_lit (ttype_of t) = true -> tok_matches TDelimiter (delim c) t = false.
Proof. intro H. unfold tok_matches. destruct (ttype_of t); try discriminate; reflexivity. Qed.
Lemma lit_not_eol t : is_lit (ttype_of t) = true -> tok_matches TEOL None t = false.
Proof. intro H. rewrite tok_matches_none. destruct (ttype_of t); try discriminate; reflexivity. Qed.
Lemma dl_not_colon c t : dl c t -> c <> 58%Z -> not_colon t.
Proof. intros D Ne. split; [eapply dl_nonerr; eauto|eapply dl_mismatch; eauto]. Qed.
Lemma eol_not_colon t : eolt t -> not_colon t.
Proof. intro H. split; [apply eol_nonerr; auto|apply eol_not_delim; auto]. Qed.

Section Falls.
Variable fparse : list Z -> option Z.
Variable crank : val -> val -> option comparison.
Notation pc := (parse_collection fparse crank).

(* parseContext on  "(" type ")"  *)
Lemma context_ok s lp ty rp fol :
  P s <= 3 -> stream s = lp :: ty :: rp :: fol -> dl 40 lp -> ttype_of ty = TType -> dl 41 rp ->
  exists s', parse_context s = Yes (tval ty) ty s' /\ stream s' = fol /\ P s' <= 3.
Proof.
  intros HP E D1 Ty D3. unfold parse_context.
  destruct (tok_yes TDelimiter (delim 40) s lp _ HP E (dl_nonerr _ _ D1) (dl_match _ _ D1)) as (s1 & T1 & E1 & P1).
  rewrite T1. assert (HP1 : P s1 <= 3) by lia.
  assert (N2 : ttype_of ty <> TError) by congruence.
  assert (M2 : tok_matches TType None ty = true) by (rewrite tok_matches_none, Ty; reflexivity).
  destruct (tok_yes TType None s1 ty _ HP1 E1 N2 M2) as (s2 & T2 & E2 & P2).
  rewrite T2. assert (HP2 : P s2 <= 3) by lia.
  destruct (tok_yes TDelimiter (delim 41) s2 rp _ HP2 E2 (dl_nonerr _ _ D3) (dl_match _ _ D3)) as (s3 & T3 & E3 & P3).
  rewrite T3. exists s3. repeat split; auto. lia.
Qed.

(* parseValue on a token that starts neither a literal nor a collection *)
Lemma value_no f s t r :
  P s <= 3 -> stream s = t :: r -> nonerr t -> is_lit (ttype_of t) = false ->
  tok_matches TDelimiter (delim 91) t = false -> 0 < f ->
  exists s1, parse_value fparse (pc f) s = No t s1 /\ stream s1 = t :: r /\ P s1 <= 3.
Proof.
  intros HP E Ne L M Hf. unfold parse_value.
  destruct (intrinsic_no fparse s t r HP E Ne L) as (s1 & I & E1 & P1). rewrite I.
  destruct f as [|f']; [lia|]. simpl. unfold parse_collection_body, parse_sequence.
  assert (HP1 : P s1 <= 3) by lia.
  destruct (tok_no TDelimiter (delim 91) s1 t r HP1 E1 Ne M) as (s2 & T & E2 & P2). rewrite T.
  exists s2. repeat split; auto. lia.
Qed.

Section WithPcoll.
Variable pcoll : pstate -> pres val.

(* parseAssociation gives up, restoring the stream: the head is no literal ... *)
Lemma assoc_fall_a s t r :
  P s <= 3 -> stream s = t :: r -> nonerr t -> is_lit (ttype_of t) = false ->
  exists s1, parse_association fparse pcoll s = No t s1 /\ stream s1 = t :: r /\ P s1 <= Nat.max (P s) 2.
Proof.
  intros HP E Ne L. unfold parse_association.
  destruct (intrinsic_no fparse s t r HP E Ne L) as (s1 & I & E1 & P1). rewrite I.
  exists s1. repeat split; auto. lia.
Qed.

(* ... or a literal that is not followed by ":" *)
Lemma assoc_fall_b s t v h2 r2 :
  P s <= 3 -> stream s = t :: h2 :: r2 -> litv fparse t v -> not_colon h2 ->
  exists s1, parse_association fparse pcoll s = No t s1 /\ stream s1 = t :: h2 :: r2 /\ P s1 <= Nat.max (P s) 2.
Proof.
  intros HP E L (Ne2 & M2). unfold parse_association.
  destruct (intrinsic_yes fparse s t _ v HP E L) as (s1 & I & E1 & P1). rewrite I.
  assert (HP1 : P s1 <= 3) by lia.
  destruct (tok_no TDelimiter (delim 58) s1 h2 r2 HP1 E1 Ne2 M2) as (s2 & T & E2 & P2). rewrite T.
  assert (HP2 : P s2 <= 2) by lia.
  destruct (put_back_spec stack_cap_ok t s2 HP2) as (s3 & B & E3 & R3 & P3). rewrite B.
  exists s3. repeat split; auto; [congruence|lia].
Qed.

(* what the head of an item list that is NOT a list of associations looks like *)
Definition value_start (l : list token) : Prop :=
  match l with
  | h :: r =>
    (nonerr h /\ is_lit (ttype_of h) = false) \/
    (exists v h2 r2, litv fparse h v /\ r = h2 :: r2 /\ not_colon h2)
  | [] => False
  end.

Lemma assoc_fall s :
  P s <= 3 -> value_start (stream s) ->
  exists t s1, parse_association fparse pcoll s = No t s1 /\ stream s1 = stream s /\ P s1 <= Nat.max (P s) 2.
Proof.
  intros HP V. destruct (stream s) as [|h r] eqn:E; [destruct V|].
  destruct V as [(Ne & L)|(v & h2 & r2 & L & Er & NC)].
  - destruct (assoc_fall_a s h r HP E Ne L) as (s1 & Q). exists h, s1. exact Q.
  - subst r. destruct (assoc_fall_b s h v h2 r2 HP E L NC) as (s1 & Q). exists h, s1. exact Q.
Qed.

(* parseAssociations falls through to the values, restoring the stream, when the items start
   like values: directly (inline / empty) or after an EOL token (multi-line) *)
Definition values_start (l : list token) : Prop :=
  match l with
  | h :: r =>
    (tok_matches TDelimiter (delim 58) h = false /\ tok_matches TEOL None h = false /\ value_start (h :: r)) \/
    (eolt h /\ value_start r)
  | [] => False
  end.

Lemma assocs_fall lf s :
  P s <= 3 -> values_start (stream s) ->
  exists t s1, parse_associations fparse pcoll lf s = No t s1 /\ stream s1 = stream s /\ P s1 <= 3.
Proof.
  intros HP V. destruct (stream s) as [|h r] eqn:E; [destruct V|].
  unfold parse_associations, parse_inline_associations, parse_multiline_associations.
  destruct V as [(M1 & M2 & VS)|(EO & VS)].
  - assert (Ne : nonerr h).
    { destruct VS as [(Ne & _)|(v & h2 & r2 & (L & _) & _)]; auto. apply lit_not_error; auto. }
    destruct (tok_no TDelimiter (delim 58) s h r HP E Ne M1) as (s1 & T1 & E1 & P1). rewrite T1.
    assert (HP1 : P s1 <= 3) by lia.
    assert (VS1 : value_start (stream s1)) by (rewrite E1; exact VS).
    destruct (assoc_fall s1 HP1 VS1) as (t2 & s2 & A & E2 & P2). rewrite A.
    assert (HP2 : P s2 <= 3) by lia.
    assert (E2' : stream s2 = h :: r) by congruence.
    destruct (tok_no TEOL None s2 h r HP2 E2' Ne M2) as (s3 & T3 & E3 & P3). rewrite T3.
    exists h, s3. repeat split; auto. lia.
  - pose proof (eol_nonerr _ EO) as Ne.
    destruct (tok_no TDelimiter (delim 58) s h r HP E Ne (eol_not_delim _ _ EO)) as (s1 & T1 & E1 & P1). rewrite T1.
    assert (HP1 : P s1 <= 3) by lia.
    destruct (assoc_fall_a s1 h r HP1 E1 Ne (eol_not_lit _ EO)) as (s2 & A & E2 & P2). rewrite A.
    assert (HP2 : P s2 <= 3) by lia.
    destruct (tok_yes TEOL None s2 h r HP2 E2 Ne (eol_match _ EO)) as (s3 & T3 & E3 & P3). rewrite T3.
    assert (HP3 : P s3 <= 3) by lia.
    assert (VS3 : value_start (stream s3)) by (rewrite E3; exact VS).
    destruct (assoc_fall s3 HP3 VS3) as (t4 & s4 & A4 & E4 & P4). rewrite A4.
    assert (HP4 : P s4 <= 2) by lia.
    destruct (put_back_spec stack_cap_ok h s4 HP4) as (s5 & B & E5 & R5 & P5). rewrite B.
    exists t4, s5. repeat split; auto; [congruence|lia].
Qed.
End WithPcoll.
End Falls.

(* ---------- derivations of Syntax.cdsn over token lists, with their values ---------- *)
Definition assocs_of (kvs : list (val * val)) : list val :=
  map (fun kv => VAssoc (fst kv) (snd kv)) (a_set_all keq [] kvs).

Section Derivations.
Variable fparse : list Z -> option Z.
Variable crank : val -> val -> option comparison.
Notation pc := (parse_collection fparse crank).

Inductive dvalue : list token -> val -> Prop :=
| dv_lit : forall t v, litv fparse t v -> dvalue [t] v                      (* Value: Intrinsic *)
| dv_coll : forall ts v, dcoll ts v -> dvalue ts v                          (* Value: Collection *)
with dcoll : list token -> val -> Prop :=                                   (* "[" Items "]" "(" type ")" *)
| dc : forall lb its items rb lp ty rp v,
    dl 91 lb -> ditems its items -> dl 93 rb -> dl 40 lp -> ttype_of ty = TType -> dl 41 rp ->
    build crank (tval ty) items = BVal v ->
    dcoll (lb :: its ++ [rb; lp; ty; rp]) v
with ditems : list token -> list val -> Prop :=
| di_empty : ditems [] []                                                   (* no values *)
| di_colon : forall c, dl 58 c -> ditems [c] []                             (* no associations *)
| di_vi : forall ts v ts' vs, dvalue ts v -> dvtail_i ts' vs -> ditems (ts ++ ts') (v :: vs)
| di_vm : forall e ts v ts' vs, eolt e -> dvalue ts v -> dvtail_m ts' vs -> ditems (e :: ts ++ ts') (v :: vs)
| di_ai : forall ts kv ts' kvs, dassoc ts kv -> datail_i ts' kvs -> ditems (ts ++ ts') (assocs_of (kv :: kvs))
| di_am : forall e ts kv ts' kvs, eolt e -> dassoc ts kv -> datail_m ts' kvs -> ditems (e :: ts ++ ts') (assocs_of (kv :: kvs))
with dvtail_i : list token -> list val -> Prop :=                           (* ("," Value)* *)
| vti_nil : dvtail_i [] []
| vti_cons : forall c ts v ts' vs, dl 44 c -> dvalue ts v -> dvtail_i ts' vs -> dvtail_i (c :: ts ++ ts') (v :: vs)
with dvtail_m : list token -> list val -> Prop :=                           (* (EOL Value)* EOL *)
| vtm_end : forall e, eolt e -> dvtail_m [e] []
| vtm_cons : forall e ts v ts' vs, eolt e -> dvalue ts v -> dvtail_m ts' vs -> dvtail_m (e :: ts ++ ts') (v :: vs)
with dassoc : list token -> val * val -> Prop :=                            (* Intrinsic ":" Value *)
| da : forall k kv c ts v, litv fparse k kv -> dl 58 c -> dvalue ts v -> dassoc (k :: c :: ts) (kv, v)
with datail_i : list token -> list (val * val) -> Prop :=                   (* ("," Association)* *)
| ati_nil : datail_i [] []
| ati_cons : forall c ts kv ts' kvs, dl 44 c -> dassoc ts kv -> datail_i ts' kvs -> datail_i (c :: ts ++ ts') (kv :: kvs)
with datail_m : list token -> list (val * val) -> Prop :=                   (* (EOL Association)* EOL *)
| atm_end : forall e, eolt e -> datail_m [e] []
| atm_cons : forall e ts kv ts' kvs, eolt e -> dassoc ts kv -> datail_m ts' kvs -> datail_m (e :: ts ++ ts') (kv :: kvs).

Scheme dvalue_mind := Minimality for dvalue Sort Prop
  with dcoll_mind := Minimality for dcoll Sort Prop
  with ditems_mind := Minimality for ditems Sort Prop
  with dvtail_i_mind := Minimality for dvtail_i Sort Prop
  with dvtail_m_mind := Minimality for dvtail_m Sort Prop
  with dassoc_mind := Minimality for dassoc Sort Prop
  with datail_i_mind := Minimality for datail_i Sort Prop
  with datail_m_mind := Minimality for datail_m Sort Prop.
Combined Scheme derivation_mind from dvalue_mind, dcoll_mind, ditems_mind, dvtail_i_mind, dvtail_m_mind,
  dassoc_mind, datail_i_mind, datail_m_mind.

(* the shape of the first tokens of a derivation *)
Lemma dvalue_head ts v : dvalue ts v ->
  exists h r, ts = h :: r /\ ((exists v', litv fparse h v' /\ r = []) \/ dl 91 h).
Proof.
  intro D. destruct D as [t v L | ts v C].
  - exists t, []. split; auto. left. eauto.
  - destruct C. exists lb, (its ++ [rb; lp; ty; rp]). split; auto.
Qed.

Lemma dvtail_i_head ts vs rb fol : dvtail_i ts vs -> dl 93 rb ->
  exists h r, ts ++ rb :: fol = h :: r /\ not_colon h.
Proof.
  intros D B. destruct D.
  - exists rb, fol. split; auto. eapply dl_not_colon; eauto. discriminate.
  - eexists _, _. split; [reflexivity|]. eapply dl_not_colon; eauto. discriminate.
Qed.

Lemma dvtail_m_head ts vs fol : dvtail_m ts vs -> exists h r, ts ++ fol = h :: r /\ eolt h.
Proof. intros D. destruct D; eexists _, _; split; try reflexivity; auto. Qed.

(* a value followed by something that is not ":" starts like a value *)
Lemma value_start_of ts v rest h2 r2 :
  dvalue ts v -> rest = h2 :: r2 -> not_colon h2 -> value_start fparse (ts ++ rest).
Proof.
  intros D Er NC. destruct (dvalue_head ts v D) as (h & r & E & [(v' & L & Rn)|B]); subst ts.
  - subst r. simpl. right. exists v', h2, r2. auto.
  - simpl. left. split; [eapply dl_nonerr; eauto|eapply dl_not_lit; eauto].
Qed.

(* the predicates of the mutual induction: what each parse function does on a derivation *)
Definition Pv (ts : list token) (v : val) : Prop := forall f s fol,
  P s <= 3 -> stream s = ts ++ fol -> length (stream s) < f ->
  exists t s', parse_value fparse (pc f) s = Yes v t s' /\ stream s' = fol /\ P s' <= 3.
Definition Pc (ts : list token) (v : val) : Prop := forall f s fol,
  P s <= 3 -> stream s = ts ++ fol -> length (stream s) < f ->
  exists t s', pc f s = Yes v t s' /\ stream s' = fol /\ P s' <= 3.
Definition Pi (ts : list token) (items : list val) : Prop := forall f s rb fol,
  P s <= 3 -> stream s = ts ++ rb :: fol -> dl 93 rb -> length (stream s) < f ->
  exists t s', parse_items fparse (pc f) (S f) s = Yes items t s' /\ stream s' = rb :: fol /\ P s' <= 3.
Definition Pvi (ts : list token) (vs : list val) : Prop := forall lf f acc s rb fol,
  P s <= 3 -> stream s = ts ++ rb :: fol -> dl 93 rb -> length (stream s) < lf -> length (stream s) < f ->
  exists t s', inline_values_loop fparse (pc f) lf acc s = Yes (acc ++ vs) t s' /\ stream s' = rb :: fol /\ P s' <= 3.
Definition Pvm (ts : list token) (vs : list val) : Prop := forall lf f acc s rb fol,
  P s <= 3 -> stream s = ts ++ rb :: fol -> dl 93 rb -> length (stream s) < lf -> length (stream s) < f ->
  exists t s', multi_values_loop fparse (pc f) lf acc s = Yes (acc ++ vs) t s' /\ stream s' = rb :: fol /\ P s' <= 3.
Definition Pa (ts : list token) (kv : val * val) : Prop := forall f s fol,
  P s <= 3 -> stream s = ts ++ fol -> length (stream s) < f ->
  exists t s', parse_association fparse (pc f) s = Yes kv t s' /\ stream s' = fol /\ P s' <= 3.
Definition Pai (ts : list token) (kvs : list (val * val)) : Prop := forall lf f cat s rb fol,
  P s <= 3 -> stream s = ts ++ rb :: fol -> dl 93 rb -> length (stream s) < lf -> length (stream s) < f ->
  exists t s', inline_assocs_loop fparse (pc f) lf cat s = Yes (a_set_all keq cat kvs) t s' /\ stream s' = rb :: fol /\ P s' <= 3.
Definition Pam (ts : list token) (kvs : list (val * val)) : Prop := forall lf f cat s rb fol,
  P s <= 3 -> stream s = ts ++ rb :: fol -> dl 93 rb -> length (stream s) < lf -> length (stream s) < f ->
  exists t s', multi_assocs_loop fparse (pc f) lf cat s = Yes (a_set_all keq cat kvs) t s' /\ stream s' = rb :: fol /\ P s' <= 3.

Lemma dcoll_head ts v : dcoll ts v -> exists lb r, ts = lb :: r /\ dl 91 lb.
Proof. intro C. destruct C. eauto. Qed.

Lemma dassoc_head ts kv : dassoc ts kv -> exists k r, ts = k :: r /\ is_lit (ttype_of k) = true.
Proof. intro A. destruct A as [k kv c ts v (L & _) _ _]. eauto. Qed.

Ltac lens := repeat match goal with H : _ < _ |- _ => revert H end; repeat (rewrite ?app_length; simpl); intros; lia.

Theorem derivation_complete :
  (forall ts v, dvalue ts v -> Pv ts v) /\ (forall ts v, dcoll ts v -> Pc ts v) /\
  (forall ts items, ditems ts items -> Pi ts items) /\
  (forall ts vs, dvtail_i ts vs -> Pvi ts vs) /\ (forall ts vs, dvtail_m ts vs -> Pvm ts vs) /\
  (forall ts kv, dassoc ts kv -> Pa ts kv) /\
  (forall ts kvs, datail_i ts kvs -> Pai ts kvs) /\ (forall ts kvs, datail_m ts kvs -> Pam ts kvs).
Proof.
  apply derivation_mind.
  - (* dv_lit *)
    intros t v L f s fol HP E Hf. unfold parse_value. simpl in E.
    destruct (intrinsic_yes fparse s t fol v HP E L) as (s1 & I & E1 & P1). rewrite I.
    exists t, s1. repeat split; auto. lia.
  - (* dv_coll *)
    intros ts v C IH f s fol HP E Hf. unfold parse_value.
    destruct (dcoll_head ts v C) as (lb & r & Ets & B). subst ts. simpl in E.
    destruct (intrinsic_no fparse s lb (r ++ fol) HP E (dl_nonerr _ _ B) (dl_not_lit _ _ B)) as (s1 & I & E1 & P1).
    rewrite I. apply (IH f s1 fol); [lia|exact E1|congruence].
  - (* dc *)
    intros lb its items rb lp ty rp v B1 DI IH B2 B3 Ty B4 Bu f s fol HP E Hf.
    destruct f as [|f']; [lia|]. simpl. unfold parse_collection_body, parse_sequence.
    simpl in E. rewrite <- app_assoc in E. simpl in E.
    destruct (tok_yes TDelimiter (delim 91) s lb _ HP E (dl_nonerr _ _ B1) (dl_match _ _ B1)) as (s1 & T1 & E1 & P1).
    rewrite T1.
    assert (HP1 : P s1 <= 3) by lia.
    assert (Hf1 : length (stream s1) < f') by (rewrite E1; rewrite E in Hf; lens).
    destruct (IH f' s1 rb (lp :: ty :: rp :: fol) HP1 E1 B2 Hf1) as (t2 & s2 & I2 & E2 & P2).
    rewrite I2.
    destruct (tok_yes TDelimiter (delim 93) s2 rb _ P2 E2 (dl_nonerr _ _ B2) (dl_match _ _ B2)) as (s3 & T3 & E3 & P3).
    rewrite T3.
    assert (HP3 : P s3 <= 3) by lia.
    destruct (context_ok s3 lp ty rp fol HP3 E3 B3 Ty B4) as (s4 & C4 & E4 & P4).
    rewrite C4, Bu. exists ty, s4. auto.
  - (* di_empty *)
    intros f s rb fol HP E B Hf. simpl in E. unfold parse_items.
    assert (VS : values_start fparse (stream s)).
    { rewrite E. left. split; [eapply dl_mismatch; eauto; discriminate|].
      split; [eapply dl_not_type; eauto; discriminate|].
      left. split; [eapply dl_nonerr; eauto|eapply dl_not_lit; eauto]. }
    destruct (assocs_fall fparse (pc f) (S f) s HP VS) as (t1 & s1 & A & E1 & P1). rewrite A.
    unfold parse_values. rewrite E in E1.
    destruct (tok_yes TDelimiter (delim 93) s1 rb fol P1 E1 (dl_nonerr _ _ B) (dl_match _ _ B)) as (s2 & T2 & E2 & P2).
    rewrite T2.
    assert (HP2 : P s2 <= 2) by lia.
    destruct (put_back_spec stack_cap_ok rb s2 HP2) as (s3 & Bk & E3 & R3 & P3). rewrite Bk.
    exists rb, s3. repeat split; auto; [congruence|lia].
  - (* di_colon *)
    intros c Bc f s rb fol HP E B Hf. simpl in E. unfold parse_items, parse_associations.
    destruct (tok_yes TDelimiter (delim 58) s c _ HP E (dl_nonerr _ _ Bc) (dl_match _ _ Bc)) as (s1 & T1 & E1 & P1).
    rewrite T1. simpl. exists c, s1. repeat split; auto. lia.
  - (* di_vi *)
    intros ts v ts' vs DV IHv DT IHt f s rb fol HP E B Hf.
    rewrite <- app_assoc in E.
    destruct (dvtail_i_head ts' vs rb fol DT B) as (h2 & r2 & Er & NC).
    assert (VS0 : value_start fparse (stream s)) by (rewrite E; eapply value_start_of; eauto).
    destruct (dvalue_head ts v DV) as (h & r & Ets & Hh).
    assert (Hm : tok_matches TDelimiter (delim 58) h = false /\ tok_matches TEOL None h = false /\
                 tok_matches TDelimiter (delim 93) h = false /\ nonerr h).
    { destruct Hh as [(v' & (L & _) & _)|B1].
      - repeat split; [apply lit_not_delim|apply lit_not_eol|apply lit_not_delim|apply lit_not_error]; auto.
      - repeat split; [eapply dl_mismatch; eauto; discriminate|eapply dl_not_type; eauto; discriminate|
                       eapply dl_mismatch; eauto; discriminate|eapply dl_nonerr; eauto]. }
    destruct Hm as (M1 & M2 & M3 & Ne).
    assert (Es : stream s = h :: r ++ ts' ++ rb :: fol) by (rewrite E, Ets; reflexivity).
    assert (VS : values_start fparse (stream s)).
    { rewrite Es. left. rewrite <- Es. auto. }
    unfold parse_items.
    destruct (assocs_fall fparse (pc f) (S f) s HP VS) as (t1 & s1 & A & E1 & P1). rewrite A.
    unfold parse_values. rewrite Es in E1.
    destruct (tok_no TDelimiter (delim 93) s1 h _ P1 E1 Ne M3) as (s2 & T2 & E2 & P2). rewrite T2.
    unfold parse_inline_values.
    assert (HP2 : P s2 <= 3) by lia.
    assert (E2' : stream s2 = ts ++ (ts' ++ rb :: fol)) by (rewrite E2, Ets; reflexivity).
    assert (Hf2 : length (stream s2) < f) by (rewrite E2'; rewrite E in Hf; exact Hf).
    destruct (IHv f s2 _ HP2 E2' Hf2) as (t3 & s3 & V3 & E3 & P3). rewrite V3.
    assert (Hf3 : length (stream s3) < f) by (rewrite E3; rewrite E in Hf; lens).
    destruct (IHt (S f) f [v] s3 rb fol P3 E3 B ltac:(lia) Hf3) as (t4 & s4 & L4 & E4 & P4).
    rewrite L4. exists t4, s4. auto.
  - (* di_vm *)
    intros e ts v ts' vs Ee DV IHv DT IHt f s rb fol HP E B Hf.
    simpl in E. rewrite <- app_assoc in E.
    destruct (dvtail_m_head ts' vs (rb :: fol) DT) as (h2 & r2 & Er & Eh2).
    assert (VS : values_start fparse (stream s)).
    { rewrite E. right. split; auto. eapply value_start_of; eauto. apply eol_not_colon; auto. }
    unfold parse_items.
    destruct (assocs_fall fparse (pc f) (S f) s HP VS) as (t1 & s1 & A & E1 & P1). rewrite A.
    unfold parse_values. rewrite E in E1.
    pose proof (eol_nonerr _ Ee) as Ne.
    destruct (tok_no TDelimiter (delim 93) s1 e _ P1 E1 Ne (eol_not_delim _ _ Ee)) as (s2 & T2 & E2 & P2). rewrite T2.
    unfold parse_inline_values.
    assert (HP2 : P s2 <= 3) by lia.
    assert (F0 : 0 < f) by lia.
    destruct (value_no fparse crank f s2 e _ HP2 E2 Ne (eol_not_lit _ Ee) (eol_not_delim _ _ Ee) F0) as (s3 & V3 & E3 & P3).
    rewrite V3. unfold parse_multiline_values.
    destruct (tok_yes TEOL None s3 e _ P3 E3 Ne (eol_match _ Ee)) as (s4 & T4 & E4 & P4). rewrite T4.
    assert (HP4 : P s4 <= 3) by lia.
    assert (Hf4 : length (stream s4) < f) by (rewrite E4; rewrite E in Hf; lens).
    destruct (IHv f s4 _ HP4 E4 Hf4) as (t5 & s5 & V5 & E5 & P5). rewrite V5.
    assert (Hf5 : length (stream s5) < f) by (rewrite E5; rewrite E in Hf; lens).
    destruct (IHt (S f) f [v] s5 rb fol P5 E5 B ltac:(lia) Hf5) as (t6 & s6 & L6 & E6 & P6).
    rewrite L6. exists t6, s6. auto.
  - (* di_ai *)
    intros ts kv ts' kvs DA IHa DT IHt f s rb fol HP E B Hf.
    rewrite <- app_assoc in E.
    destruct (dassoc_head ts kv DA) as (k & r & Ets & Lk).
    assert (Es : stream s = k :: r ++ ts' ++ rb :: fol) by (rewrite E, Ets; reflexivity).
    unfold parse_items, parse_associations.
    destruct (tok_no TDelimiter (delim 58) s k _ HP Es (lit_not_error _ Lk) (lit_not_delim _ _ Lk)) as (s1 & T1 & E1 & P1).
    rewrite T1. unfold parse_inline_associations.
    assert (HP1 : P s1 <= 3) by lia.
    assert (E1' : stream s1 = ts ++ (ts' ++ rb :: fol)) by (rewrite E1, Ets; reflexivity).
    assert (Hf1 : length (stream s1) < f) by (rewrite E1'; rewrite E in Hf; exact Hf).
    destruct (IHa f s1 _ HP1 E1' Hf1) as (t2 & s2 & A2 & E2 & P2). rewrite A2.
    destruct kv as (kk, vv).
    assert (Hf2 : length (stream s2) < f) by (rewrite E2; rewrite E in Hf; lens).
    destruct (IHt (S f) f (a_set keq [] kk vv) s2 rb fol P2 E2 B ltac:(lia) Hf2) as (t3 & s3 & L3 & E3 & P3).
    rewrite L3. exists t3, s3. auto.
  - (* di_am *)
    intros e ts kv ts' kvs Ee DA IHa DT IHt f s rb fol HP E B Hf.
    simpl in E. rewrite <- app_assoc in E.
    pose proof (eol_nonerr _ Ee) as Ne.
    unfold parse_items, parse_associations.
    destruct (tok_no TDelimiter (delim 58) s e _ HP E Ne (eol_not_delim _ _ Ee)) as (s1 & T1 & E1 & P1).
    rewrite T1. unfold parse_inline_associations.
    assert (HP1 : P s1 <= 3) by lia.
    destruct (assoc_fall_a fparse (pc f) s1 e _ HP1 E1 Ne (eol_not_lit _ Ee)) as (s2 & A2 & E2 & P2).
    rewrite A2. unfold parse_multiline_associations.
    assert (HP2 : P s2 <= 3) by lia.
    destruct (tok_yes TEOL None s2 e _ HP2 E2 Ne (eol_match _ Ee)) as (s3 & T3 & E3 & P3). rewrite T3.
    assert (HP3 : P s3 <= 3) by lia.
    assert (Hf3 : length (stream s3) < f) by (rewrite E3; rewrite E in Hf; lens).
    destruct (IHa f s3 _ HP3 E3 Hf3) as (t4 & s4 & A4 & E4 & P4). rewrite A4.
    destruct kv as (kk, vv).
    assert (Hf4 : length (stream s4) < f) by (rewrite E4; rewrite E in Hf; lens).
    destruct (IHt (S f) f (a_set keq [] kk vv) s4 rb fol P4 E4 B ltac:(lia) Hf4) as (t5 & s5 & L5 & E5 & P5).
    rewrite L5. exists t5, s5. auto.
  - (* vti_nil *)
    intros lf f acc s rb fol HP E B Hl Hf. simpl in E.
    destruct lf as [|lf']; [lia|]. simpl.
    destruct (tok_no TDelimiter (delim 44) s rb fol HP E (dl_nonerr _ _ B) ltac:(eapply dl_mismatch; eauto; discriminate)) as (s1 & T1 & E1 & P1).
    rewrite T1. exists rb, s1. rewrite app_nil_r. repeat split; auto. lia.
  - (* vti_cons *)
    intros c ts v ts' vs Bc DV IHv DT IHt lf f acc s rb fol HP E B Hl Hf.
    simpl in E. rewrite <- app_assoc in E.
    destruct lf as [|lf']; [lia|]. simpl.
    destruct (tok_yes TDelimiter (delim 44) s c _ HP E (dl_nonerr _ _ Bc) (dl_match _ _ Bc)) as (s1 & T1 & E1 & P1).
    rewrite T1.
    assert (HP1 : P s1 <= 3) by lia.
    assert (Hf1 : length (stream s1) < f) by (rewrite E1; rewrite E in Hf; lens).
    destruct (IHv f s1 _ HP1 E1 Hf1) as (t2 & s2 & V2 & E2 & P2). rewrite V2.
    assert (Hl2 : length (stream s2) < lf') by (rewrite E2; rewrite E in Hl; lens).
    assert (Hf2 : length (stream s2) < f) by (rewrite E2; rewrite E in Hf; lens).
    destruct (IHt lf' f (acc ++ [v]) s2 rb fol P2 E2 B Hl2 Hf2) as (t3 & s3 & L3 & E3 & P3).
    rewrite L3. exists t3, s3. rewrite <- app_assoc. auto.
  - (* vtm_end *)
    intros e Ee lf f acc s rb fol HP E B Hl Hf. simpl in E.
    destruct lf as [|lf']; [lia|]. simpl.
    pose proof (eol_nonerr _ Ee) as Ne.
    destruct (tok_yes TEOL None s e _ HP E Ne (eol_match _ Ee)) as (s1 & T1 & E1 & P1). rewrite T1.
    assert (HP1 : P s1 <= 3) by lia.
    assert (F0 : 0 < f) by lia.
    destruct (value_no fparse crank f s1 rb fol HP1 E1 (dl_nonerr _ _ B) (dl_not_lit _ _ B)
                ltac:(eapply dl_mismatch; eauto; discriminate) F0) as (s2 & V2 & E2 & P2).
    rewrite V2. exists rb, s2. rewrite app_nil_r. auto.
  - (* vtm_cons *)
    intros e ts v ts' vs Ee DV IHv DT IHt lf f acc s rb fol HP E B Hl Hf.
    simpl in E. rewrite <- app_assoc in E.
    destruct lf as [|lf']; [lia|]. simpl.
    pose proof (eol_nonerr _ Ee) as Ne.
    destruct (tok_yes TEOL None s e _ HP E Ne (eol_match _ Ee)) as (s1 & T1 & E1 & P1). rewrite T1.
    assert (HP1 : P s1 <= 3) by lia.
    assert (Hf1 : length (stream s1) < f) by (rewrite E1; rewrite E in Hf; lens).
    destruct (IHv f s1 _ HP1 E1 Hf1) as (t2 & s2 & V2 & E2 & P2). rewrite V2.
    assert (Hl2 : length (stream s2) < lf') by (rewrite E2; rewrite E in Hl; lens).
    assert (Hf2 : length (stream s2) < f) by (rewrite E2; rewrite E in Hf; lens).
    destruct (IHt lf' f (acc ++ [v]) s2 rb fol P2 E2 B Hl2 Hf2) as (t3 & s3 & L3 & E3 & P3).
    rewrite L3. exists t3, s3. rewrite <- app_assoc. auto.
  - (* da *)
    intros k kv c ts v L Bc DV IHv f s fol HP E Hf. simpl in E. unfold parse_association.
    destruct (intrinsic_yes fparse s k _ kv HP E L) as (s1 & I & E1 & P1). rewrite I.
    assert (HP1 : P s1 <= 3) by lia.
    destruct (tok_yes TDelimiter (delim 58) s1 c _ HP1 E1 (dl_nonerr _ _ Bc) (dl_match _ _ Bc)) as (s2 & T2 & E2 & P2).
    rewrite T2.
    assert (HP2 : P s2 <= 3) by lia.
    assert (Hf2 : length (stream s2) < f) by (rewrite E2; rewrite E in Hf; lens).
    destruct (IHv f s2 fol HP2 E2 Hf2) as (t3 & s3 & V3 & E3 & P3). rewrite V3.
    exists t3, s3. auto.
  - (* ati_nil *)
    intros lf f cat s rb fol HP E B Hl Hf. simpl in E.
    destruct lf as [|lf']; [lia|]. simpl.
    destruct (tok_no TDelimiter (delim 44) s rb fol HP E (dl_nonerr _ _ B) ltac:(eapply dl_mismatch; eauto; discriminate)) as (s1 & T1 & E1 & P1).
    rewrite T1. exists rb, s1. repeat split; auto. lia.
  - (* ati_cons *)
    intros c ts kv ts' kvs Bc DA IHa DT IHt lf f cat s rb fol HP E B Hl Hf.
    simpl in E. rewrite <- app_assoc in E.
    destruct lf as [|lf']; [lia|]. simpl.
    destruct (tok_yes TDelimiter (delim 44) s c _ HP E (dl_nonerr _ _ Bc) (dl_match _ _ Bc)) as (s1 & T1 & E1 & P1).
    rewrite T1.
    assert (HP1 : P s1 <= 3) by lia.
    assert (Hf1 : length (stream s1) < f) by (rewrite E1; rewrite E in Hf; lens).
    destruct (IHa f s1 _ HP1 E1 Hf1) as (t2 & s2 & A2 & E2 & P2). rewrite A2.
    destruct kv as (kk, vv).
    assert (Hl2 : length (stream s2) < lf') by (rewrite E2; rewrite E in Hl; lens).
    assert (Hf2 : length (stream s2) < f) by (rewrite E2; rewrite E in Hf; lens).
    destruct (IHt lf' f (a_set keq cat kk vv) s2 rb fol P2 E2 B Hl2 Hf2) as (t3 & s3 & L3 & E3 & P3).
    rewrite L3. exists t3, s3. auto.
  - (* atm_end *)
    intros e Ee lf f cat s rb fol HP E B Hl Hf. simpl in E.
    destruct lf as [|lf']; [lia|]. simpl.
    pose proof (eol_nonerr _ Ee) as Ne.
    destruct (tok_yes TEOL None s e _ HP E Ne (eol_match _ Ee)) as (s1 & T1 & E1 & P1). rewrite T1.
    assert (HP1 : P s1 <= 3) by lia.
    destruct (assoc_fall_a fparse (pc f) s1 rb fol HP1 E1 (dl_nonerr _ _ B) (dl_not_lit _ _ B)) as (s2 & A2 & E2 & P2).
    rewrite A2. exists rb, s2. repeat split; auto. lia.
  - (* atm_cons *)
    intros e ts kv ts' kvs Ee DA IHa DT IHt lf f cat s rb fol HP E B Hl Hf.
    simpl in E. rewrite <- app_assoc in E.
    destruct lf as [|lf']; [lia|]. simpl.
    pose proof (eol_nonerr _ Ee) as Ne.
    destruct (tok_yes TEOL None s e _ HP E Ne (eol_match _ Ee)) as (s1 & T1 & E1 & P1). rewrite T1.
    assert (HP1 : P s1 <= 3) by lia.
    assert (Hf1 : length (stream s1) < f) by (rewrite E1; rewrite E in Hf; lens).
    destruct (IHa f s1 _ HP1 E1 Hf1) as (t2 & s2 & A2 & E2 & P2). rewrite A2.
    destruct kv as (kk, vv).
    assert (Hl2 : length (stream s2) < lf') by (rewrite E2; rewrite E in Hl; lens).
    assert (Hf2 : length (stream s2) < f) by (rewrite E2; rewrite E in Hf; lens).
    destruct (IHt lf' f (a_set keq cat kk vv) s2 rb fol P2 E2 B Hl2 Hf2) as (t3 & s3 & L3 & E3 & P3).
    rewrite L3. exists t3, s3. auto.
Qed.
End Derivations.

(* ---------- ParseSource after the collection: EOL* EOF ---------- *)
Lemma trailing_ok eols : forall fuel s eof tl,
  P s <= 3 -> stream s = eols ++ eof :: tl -> Forall eolt eols -> ttype_of eof = TEOF -> length eols < fuel ->
  exists s', trailing_eols fuel s = inl s' /\ stream s' = eof :: tl /\ P s' <= 3.
Proof.
  induction eols as [|e r IH]; intros fuel s eof tl HP E F Ty Hf; (destruct fuel as [|fuel']; [simpl in Hf; lia|]); simpl.
  - simpl in E.
    assert (Ne : ttype_of eof <> TError) by congruence.
    assert (M : tok_matches TEOL None eof = false) by (rewrite tok_matches_none, Ty; reflexivity).
    destruct (tok_no TEOL None s eof tl HP E Ne M) as (s1 & T & E1 & P1). rewrite T.
    exists s1. repeat split; auto. lia.
  - simpl in E. inversion F as [|x y Ee Fr]. subst.
    destruct (tok_yes TEOL None s e _ HP E (eol_nonerr _ Ee) (eol_match _ Ee)) as (s1 & T & E1 & P1). rewrite T.
    apply IH; auto; [lia|simpl in Hf; lia].
Qed.

(* PARSER COMPLETENESS, for all derivations: a sentence  Collection EOL* EOF  of the grammar —
   whatever follows the EOF token — is accepted with the value of its derivation.  The side
   conditions are part of the derivation: every literal converts (litv) and the collection
   constructor of the stated type succeeds (build ... = BVal v: associations under Catalog
   and Map, a known type name, no collator panic while a Set is built). *)
Theorem parser_complete fparse crank ts v eols eof tl :
  dcoll fparse crank ts v -> Forall eolt eols -> ttype_of eof = TEOF ->
  parse_tokens fparse crank (ts ++ eols ++ eof :: tl) = PValue v.
Proof.
  intros D F Ty. unfold parse_tokens.
  set (all := ts ++ eols ++ eof :: tl).
  destruct (derivation_complete fparse crank) as (_ & Hc & _).
  assert (HP0 : P (mkSt [] all) <= 3) by (unfold P; simpl; lia).
  assert (Hf0 : length (stream (mkSt [] all)) < S (length all)) by (unfold stream; simpl; lia).
  destruct (Hc ts v D (S (length all)) (mkSt [] all) (eols ++ eof :: tl) HP0 eq_refl Hf0) as (t1 & s1 & C1 & E1 & P1).
  rewrite C1.
  assert (Hl : length eols < S (length all)) by (unfold all; rewrite !app_length; lia).
  destruct (trailing_ok eols (S (length all)) s1 eof tl P1 E1 F Ty Hl) as (s2 & T2 & E2 & P2).
  rewrite T2.
  assert (Ne : ttype_of eof <> TError) by congruence.
  assert (M : tok_matches TEOF None eof = true) by (rewrite tok_matches_none, Ty; reflexivity).
  destruct (tok_yes TEOF None s2 eof tl P2 E2 Ne M) as (s3 & T3 & _). rewrite T3. reflexivity.
Qed.

(* the same for a source text whose token stream is such a sentence *)
Corollary parser_complete_source fparse crank src ts v eols eof :
  lex src = ts ++ eols ++ [eof] -> dcoll fparse crank ts v -> Forall eolt eols -> ttype_of eof = TEOF ->
  parse_source fparse crank src = PValue v.
Proof. intros E D F Ty. unfold parse_source. rewrite E. apply parser_complete; auto. Qed.

(* non-vacuity: the derivation of  [1, 2](List)  and of a multi-line catalog *)
Section Examples.
Let fp : list Z -> option Z := fun _ => None.
Let cr : val -> val -> option comparison := fun _ _ => Some Eq.
Let T ty s := mkTok ty (zs s) 7 7.
Lemma dl_T c s : zs s = [c] -> dl c (T TDelimiter s).
Proof. intro H. split; [reflexivity|exact H]. Qed.

Example derivation_inline_list :
  dcoll fp cr [T TDelimiter "["; T TInteger "1"; T TDelimiter ","; T TInteger "2"; T TDelimiter "]";
               T TDelimiter "("; T TType "List"; T TDelimiter ")"] (VSeq KList [VInt 64 1; VInt 64 2]).
Proof.
  apply (dc fp cr (T TDelimiter "[") [T TInteger "1"; T TDelimiter ","; T TInteger "2"] [VInt 64 1; VInt 64 2]).
  - apply dl_T. reflexivity.
  - apply (di_vi fp cr [T TInteger "1"] (VInt 64 1) [T TDelimiter ","; T TInteger "2"] [VInt 64 2]).
    + apply dv_lit. split; reflexivity.
    + apply (vti_cons fp cr (T TDelimiter ",") [T TInteger "2"] (VInt 64 2) [] []).
      * apply dl_T. reflexivity.
      * apply dv_lit. split; reflexivity.
      * apply vti_nil.
  - apply dl_T. reflexivity.
  - apply dl_T. reflexivity.
  - reflexivity.
  - apply dl_T. reflexivity.
  - reflexivity.
Qed.

Example derivation_multiline_catalog :
  dcoll fp cr [T TDelimiter "["; T TEOL "<EOLN>"; T TRune "'k'"; T TDelimiter ":"; T TNil "nil"; T TEOL "<EOLN>";
               T TDelimiter "]"; T TDelimiter "("; T TType "Catalog"; T TDelimiter ")"]
        (VMapping MCatalog [VRune 107] [VNil]).
Proof.
  apply (dc fp cr (T TDelimiter "[") [T TEOL "<EOLN>"; T TRune "'k'"; T TDelimiter ":"; T TNil "nil"; T TEOL "<EOLN>"]
            (assocs_of [(VRune 107, VNil)])).
  - apply dl_T. reflexivity.
  - apply (di_am fp cr (T TEOL "<EOLN>") [T TRune "'k'"; T TDelimiter ":"; T TNil "nil"] (VRune 107, VNil) [T TEOL "<EOLN>"] []).
    + reflexivity.
    + apply da; [split; reflexivity|apply dl_T; reflexivity|apply dv_lit; split; reflexivity].
    + apply atm_end. reflexivity.
  - apply dl_T. reflexivity.
  - apply dl_T. reflexivity.
  - reflexivity.
  - apply dl_T. reflexivity.
  - reflexivity.
Qed.
End Examples.
