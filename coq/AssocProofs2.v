(* AssocProofs2.v — additions for C03 / C14 / C16 (AssocProofs.v is not changed):
   1. Go's "==" on keys as modelled by [Value.keq] IS symmetric and transitive, so the
      hypotheses of the association-list theorems are discharged for the keys the pool model uses
      (reflexivity fails exactly for NaN keys, as in Go);
   2. RemoveValue returns the stored value; the key order of Extract for arbitrary request
      sequences (absent and repeated keys);
   3. the Catalog / Map operations and the class functions of the pool machine (Pool.v) are the
      association-list functions; sorting / reversing / shuffling a Catalog keeps the mapping;
   4. data of the non-vacuity Examples. *)
From Verif Require Import Base Sorter SorterProofs Value Seq Coll Pool PoolFrame AssocProofs SorterProofs2.
From Coq Require Import Permutation.
Local Open Scope nat_scope.

(* ---------- 1. Value.keq ---------- *)
Lemma list_eqb_Z_eq : forall s t : list Z, list_eqb Z.eqb s t = true <-> s = t.
Proof.
  induction s as [|x s IH]; intros [|y t]; cbn [list_eqb]; split; intros H; try discriminate; try reflexivity.
  - apply andb_prop in H. destruct H as [H1 H2]. apply Z.eqb_eq in H1. apply IH in H2. congruence.
  - injection H as -> ->. rewrite Z.eqb_refl. cbn [andb]. apply IH. reflexivity.
Qed.

Lemma f_eq_go_sym_t : forall x y, f_eq_go x y = true -> f_eq_go y x = true.
Proof.
  unfold f_eq_go. intros x y H. apply andb_prop in H. destruct H as [H H3]. apply andb_prop in H. destruct H as [H1 H2].
  rewrite H1, H2. cbn [andb]. rewrite Z.eqb_sym. exact H3.
Qed.

Lemma f_eq_go_trans_t : forall x y z, f_eq_go x y = true -> f_eq_go y z = true -> f_eq_go x z = true.
Proof.
  unfold f_eq_go. intros x y z H G.
  apply andb_prop in H. destruct H as [H H3]. apply andb_prop in H. destruct H as [H1 H2].
  apply andb_prop in G. destruct G as [G G3]. apply andb_prop in G. destruct G as [G1 G2].
  rewrite H1, G2. cbn [andb]. apply Z.eqb_eq in H3, G3. apply Z.eqb_eq. congruence.
Qed.

Lemma keq_sym_t : forall a b : val, keq a b = true -> keq b a = true.
Proof.
  intros a b. destruct a, b; cbn [keq]; try discriminate; auto; intros H;
    rewrite ?Bool.andb_true_iff, ?Z.eqb_eq, ?Bool.eqb_true_iff, ?list_eqb_Z_eq in *;
    intuition (auto using f_eq_go_sym_t; congruence).
Qed.

Theorem keq_sym : forall a b : val, keq a b = keq b a.
Proof.
  intros a b. destruct (keq a b) eqn:E1, (keq b a) eqn:E2; auto.
  - apply keq_sym_t in E1. congruence.
  - apply keq_sym_t in E2. congruence.
Qed.

Theorem keq_trans : forall a b c : val, keq a b = true -> keq b c = true -> keq a c = true.
Proof.
  intros a b c. destruct a, b; cbn [keq]; try discriminate; destruct c; cbn [keq]; try discriminate; auto;
    intros H G;
    rewrite ?Bool.andb_true_iff, ?Z.eqb_eq, ?Bool.eqb_true_iff, ?list_eqb_Z_eq in *;
    intuition (eauto using f_eq_go_trans_t; congruence).
Qed.

(* reflexivity holds for every key except floats/complex that are NaN, and non-key values *)
Definition key_ok (k : val) : Prop := keq k k = true.

(* ---------- 2. generic additions ---------- *)
Section Assoc2.
Variables K V : Type.
Variable vzero : V.
Variable keq : K -> K -> bool.
Hypothesis keq_sym : forall a b, keq a b = keq b a.
Hypothesis keq_trans : forall a b c, keq a b = true -> keq b c = true -> keq a c = true.

Theorem a_get_or_zero_present : forall (m : list (K * V)) k v,
  a_get keq m k = Some v -> a_get_or_zero vzero keq m k = v.
Proof. intros m k v H. unfold a_get_or_zero. rewrite H. reflexivity. Qed.

(* the views agree at every key that equals itself (all keys but NaN floats): only reflexivity AT k is needed *)
Theorem views_agree_at : forall (m : list (K * V)), wfm K V keq m ->
  forall k v, In (k, v) m -> keq k k = true -> a_get keq m k = Some v.
Proof.
  induction m as [|[k' v'] t IH]; intros W k v Hin Hr; [destruct Hin|].
  cbn [a_get]. destruct Hin as [E|Hin].
  - injection E as -> ->. rewrite Hr. reflexivity.
  - destruct W as [Wk Wt]. destruct (keq k k') eqn:E.
    + exfalso. assert (Hk : In k (keys K V t)) by (apply (in_map fst) in Hin; exact Hin).
      rewrite keq_sym in E. cbn [keys map fst] in Wk. rewrite (Wk k Hk) in E. discriminate.
    + apply IH; auto.
Qed.

(* boolean checker of key distinctness (for the Examples) *)
Fixpoint distinctb (l : list K) : bool :=
  match l with [] => true | k :: t => forallb (fun k' => negb (keq k k')) t && distinctb t end.
Lemma distinctb_ok : forall m, distinctb (keys K V m) = true -> wfm K V keq m.
Proof.
  intros m. unfold wfm. induction (keys K V m) as [|k t IH]; cbn [distinctb distinct]; intros H; [exact I|].
  apply andb_prop in H. destruct H as [H1 H2]. split; [|apply IH; exact H2].
  intros k' Hk'. rewrite forallb_forall in H1. specialize (H1 k' Hk'). destruct (keq k k'); [discriminate|reflexivity].
Qed.

(* RemoveValues(keys): the values come out in key order; a repeated key yields the zero value the
   second time (it has been removed by then) *)
Theorem a_remove_all_cons : forall (m : list (K * V)) k ks,
  a_remove_all vzero keq m (k :: ks) =
  (a_get_or_zero vzero keq m k :: fst (a_remove_all vzero keq (a_remove keq m k) ks),
   snd (a_remove_all vzero keq (a_remove keq m k) ks)).
Proof. reflexivity. Qed.

(* the key order of Extract: the requested keys that c contains, in request order, a repeated
   key only at its first occurrence *)
Fixpoint newkeys (c : list (K * V)) (ks seen : list K) : list K :=
  match ks with
  | [] => []
  | k :: t =>
    match a_get keq c k with
    | Some _ => if existsb (keq k) seen then newkeys c t seen else k :: newkeys c t (seen ++ [k])
    | None => newkeys c t seen
    end
  end.

Lemma a_get_none_existsb : forall (m : list (K * V)) x,
  a_get keq m x = None <-> existsb (keq x) (keys K V m) = false.
Proof.
  intros m x. rewrite (a_get_none_iff K V keq). split.
  - intros H. destruct (existsb (keq x) (keys K V m)) eqn:E; [|reflexivity].
    apply existsb_exists in E. destruct E as [k [Hk Ek]]. rewrite (H k Hk) in Ek. discriminate.
  - intros H k Hk. destruct (keq x k) eqn:E; [|reflexivity].
    assert (X : existsb (keq x) (keys K V m) = true) by (apply existsb_exists; exists k; auto). congruence.
Qed.

Lemma a_extract_keys_gen : forall (c : list (K * V)) ks acc,
  keys K V (fold_left (fun acc k => match a_get keq c k with Some v => a_set keq acc k v | None => acc end) ks acc)
  = keys K V acc ++ newkeys c ks (keys K V acc).
Proof.
  intros c. induction ks as [|k ks IH]; intros acc; cbn [fold_left newkeys].
  - rewrite app_nil_r. reflexivity.
  - destruct (a_get keq c k) as [v|] eqn:Ec; [|apply IH].
    rewrite IH. destruct (existsb (keq k) (keys K V acc)) eqn:Ex.
    + assert (Hne : a_get keq acc k <> None).
      { intros H. apply a_get_none_existsb in H. congruence. }
      destruct (a_set_present K V keq acc k v Hne) as [Hk _]. rewrite Hk. reflexivity.
    + apply a_get_none_existsb in Ex. rewrite (a_set_absent K V keq acc k v Ex).
      rewrite (keys_app K V). cbn [keys map fst]. rewrite <- app_assoc. reflexivity.
Qed.

Theorem a_extract_keys : forall (c : list (K * V)) ks,
  keys K V (a_extract keq c ks) = newkeys c ks [].
Proof. intros c ks. unfold a_extract. rewrite a_extract_keys_gen. reflexivity. Qed.

End Assoc2.

(* ---------- 3. the pool machine ---------- *)
Theorem pool_catalog_ops : forall zero p o m k v, o < length p -> get p o = OCat m ->
  nth o (fst (step zero p (Pool.ASet o k v))) ODead = OCat (a_set keq m k v) /\
  (nth o (fst (step zero p (Pool.ARemove o k))) ODead = OCat (a_remove keq m k) /\
   snd (step zero p (Pool.ARemove o k)) = RVal (a_get_or_zero zero keq m k)) /\
  snd (step zero p (AGet o k)) = RVal (a_get_or_zero zero keq m k) /\
  nth o (fst (step zero p (RemoveAll o))) ODead = OCat [] /\
  snd (step zero p (GetSize o)) = RInt (Z.of_nat (length m)) /\
  (forall okeys, step zero p (AKeys o okeys) = (p ++ [OLst (map fst m)], RNew)) /\
  seq_plain (get p o) = Some (assoc_vals m).
Proof.
  intros zero p o m k v Ho G. cbn [step]. rewrite G. cbn [fst snd seq_plain seq_view].
  repeat split; try (apply put_same; exact Ho).
Qed.

Theorem pool_map_ops : forall zero p o m k v, o < length p -> get p o = OMap m ->
  nth o (fst (step zero p (Pool.ASet o k v))) ODead = OMap (a_set keq m k v) /\
  (nth o (fst (step zero p (Pool.ARemove o k))) ODead = OMap (a_remove keq m k) /\
   snd (step zero p (Pool.ARemove o k)) = RVal (a_get_or_zero zero keq m k)) /\
  snd (step zero p (AGet o k)) = RVal (a_get_or_zero zero keq m k) /\
  nth o (fst (step zero p (RemoveAll o))) ODead = OMap [] /\
  snd (step zero p (GetSize o)) = RInt (Z.of_nat (length m)).
Proof.
  intros zero p o m k v Ho G. cbn [step]. rewrite G. cbn [fst snd].
  repeat split; try (apply put_same; exact Ho).
Qed.

(* bulk removal: the receiver gets the remaining associations, the removed values go to a NEW object *)
Theorem pool_remove_values : forall zero p o keys ks, o < length p -> seq_plain (get p keys) = Some ks ->
  (forall m, get p o = OCat m ->
     step zero p (ARemoveValues o keys) =
       (put p o (OCat (snd (a_remove_all zero keq m ks))) ++ [OLst (fst (a_remove_all zero keq m ks))], RNew)) /\
  (forall m, get p o = OMap m ->
     step zero p (ARemoveValues o keys) =
       (put p o (OMap (snd (a_remove_all zero keq m ks))) ++ [OArr (fst (a_remove_all zero keq m ks))], RNew)).
Proof.
  intros zero p o keys ks Ho Hk. split; intros m G; cbn [step]; rewrite G, Hk; reflexivity.
Qed.

(* class functions: a NEW object, computed from the operands' contents only — also when both
   operands are the same object *)
Theorem pool_class_functions : forall zero p a b,
  (forall x y, get p a = OLst x -> get p b = OLst y -> step zero p (Concat a b) = (p ++ [OLst (x ++ y)], RNew)) /\
  (forall x y, get p a = OCat x -> get p b = OCat y -> step zero p (Merge a b) = (p ++ [OCat (a_merge keq x y)], RNew)) /\
  (forall m ks, get p a = OCat m -> seq_plain (get p b) = Some ks ->
                step zero p (Extract a b) = (p ++ [OCat (a_extract keq m ks)], RNew)).
Proof.
  intros zero p a b. repeat split; intros; cbn [step].
  - rewrite H, H0. reflexivity.
  - rewrite H, H0. reflexivity.
  - rewrite H, H0. reflexivity.
Qed.

(* an op without a receiver (constructors, class functions, readers) changes no existing object *)
Theorem no_receiver_changes_nothing : forall zero p o p' r, writes o = None ->
  step zero p o = (p', r) -> forall i, i < length p -> nth i p' ODead = nth i p ODead.
Proof.
  intros zero p o p' r W H i Hi. destruct (step_frame _ _ _ _ _ H) as [_ Hn].
  apply Hn; [exact Hi|]. rewrite W. discriminate.
Qed.

(* constructors: last one wins for repeated keys (array of associations / sequence);
   distinct keys always *)
Theorem pool_assoc_constructors : forall zero l kvs,
  vals_assoc l = Some kvs ->
  build zero CCatalog l = Ret (OCat (a_set_all keq [] kvs)) /\
  build zero CMap l = Ret (OMap (a_set_all keq [] kvs)) /\
  wfm val val keq (a_set_all keq [] kvs) /\
  (forall x, a_get keq (a_set_all keq [] kvs) x = a_get keq (rev kvs) x).
Proof.
  intros zero l kvs H. cbn [build]. rewrite H. split; [reflexivity|]. split; [reflexivity|]. split.
  - apply (a_set_all_wf val val keq keq_sym). exact I.
  - intros x. rewrite (a_set_all_get val val keq keq_sym keq_trans). cbn [a_get].
    destruct (a_get keq (rev kvs) x); reflexivity.
Qed.

(* C03 (g): sorting, reversing or shuffling a Catalog changes only the order, never the mapping *)
Theorem catalog_reorder_keeps_mapping : forall zero p o m, o < length p -> get p o = OCat m -> wfm val val keq m ->
  (forall rk, exists m', nth o (fst (step zero p (SortWith o rk))) ODead = OCat m' /\
      Permutation m' m /\ wfm val val keq m' /\ forall x, a_get keq m' x = a_get keq m x) /\
  (exists m', nth o (fst (step zero p (SortValues o))) ODead = OCat m' /\
      Permutation m' m /\ wfm val val keq m' /\ forall x, a_get keq m' x = a_get keq m x) /\
  (exists m', nth o (fst (step zero p (ReverseValues o))) ODead = OCat m' /\
      m' = rev m /\ wfm val val keq m' /\ forall x, a_get keq m' x = a_get keq m x) /\
  (forall rs, exists m', nth o (fst (step zero p (ShuffleValues o rs))) ODead = OCat m' /\
      Permutation m' m /\ wfm val val keq m' /\ forall x, a_get keq m' x = a_get keq m x).
Proof.
  intros zero p o m Ho G W.
  assert (K : forall m', Permutation m' m -> wfm val val keq m' /\ forall x, a_get keq m' x = a_get keq m x).
  { intros m' P. apply Permutation_sym in P. split.
    - apply (wfm_perm val val keq keq_sym m m' W P).
    - apply (a_get_perm val val keq keq_sym keq_trans m m' W P). }
  destruct (pool_sort_catalog zero p o m Ho G) as [[m1 [E1 [_ P1]]] S2].
  destruct (pool_reverse_shuffle_catalog zero p o m Ho G) as [R Sh].
  split; [|split; [|split]].
  - intros rk. destruct (S2 rk) as [m' [E [_ P]]]. exists m'. destruct (K m' P). auto.
  - exists m1. destruct (K m1 P1). auto.
  - exists (rev m). destruct (K (rev m) (Permutation_sym (Permutation_rev m))). auto.
  - intros rs. destruct (Sh rs) as [m' [E P]]. exists m'. destruct (K m' P). auto.
Qed.

(* the history theorems for the keys of the pool model: no hypothesis on keq left *)
Definition val_history_keeps_keys_distinct := C03_inv val val keq keq_sym.
Definition val_history_refines_the_abstract_map := C03_refines val val keq keq_sym keq_trans.
Definition val_lookup_after_set := a_get_set val val keq keq_sym keq_trans.
Definition val_lookup_after_remove := a_get_remove val val keq keq_sym keq_trans.
Definition val_bulk_remove (vzero : val) := a_remove_all_spec val val vzero keq keq_sym keq_trans.
Definition val_merge_key_order := a_merge_keys val val keq keq_sym keq_trans.
Definition val_merge_second_wins := a_merge_get val val keq keq_sym keq_trans.
Definition val_extract_lookup := a_extract_get val val keq keq_sym keq_trans.
Definition val_extract_key_order := a_extract_keys val val keq.

(* ---------- 4. data of the Examples ---------- *)
Definition ks (s : list Z) : val := VStr s.
Definition iv (z : Z) : val := VInt 0 z.
Definition ka := ks [97]%Z.  Definition kb := ks [98]%Z.  Definition kc := ks [99]%Z.  Definition kd := ks [100]%Z.
(* catalog a:1 b:2 c:3 *)
Definition ex_cat : list (val * val) := [(ka, iv 1); (kb, iv 2); (kc, iv 3)].
(* second catalog c:30 d:4 a:10 — shares a and c with ex_cat, in another order, with other values *)
Definition ex_cat2 : list (val * val) := [(kc, iv 30); (kd, iv 4); (ka, iv 10)].
(* a history: set new, update existing, remove present, remove absent, set again *)
Definition ex_aops : list (aop val val) :=
  [ASet val val kd (iv 4); ASet val val kb (iv 20); ARemove val val ka; ARemove val val (ks [122]%Z); ASet val val ka (iv 5)].
(* request sequence with an absent key (z), a repeated key (c) and a key holding the zero value *)
Definition ex_req : list val := [kc; ks [122]%Z; ka; kc].
