(* IterProofs2.v — additions for C17 (IterProofs.v and PoolFrame.v are not changed):
   the iterator theorems lifted to the pool machine (Pool.v), where iterators live next to the
   collections they were obtained from:
   - GetIterator yields an iterator at slot 0 over the collection's Sequential view at that moment;
   - a pool-level iterator move is [apply_move] on that iterator and touches nothing else;
   - in every pool history (mutations of the source collection, moves of other iterators, ...) an
     iterator keeps its snapshot and its slot stays within 0..size;
   - moves of one iterator leave every other iterator exactly as it was.
   Plus the data of the non-vacuity Examples. *)
From Verif Require Import Base Sorter Value Seq Coll Pool PoolFrame IterProofs.
Local Open Scope nat_scope.

(* ---------- data for the Examples: 4 values, a 7-move walk ---------- *)
Definition ex_vals : list Z := [11; 22; 33; 44]%Z.
Definition ex_moves : list move := [MNext; MNext; MPrev; MToSlot (-1); MNext; MToSlot 9; MPrev].
Definition ex_mid : iter Z := {| it_vals := ex_vals; it_slot := 2 |}.
Definition ex_end : iter Z := {| it_vals := ex_vals; it_slot := 4 |}.
(* every intermediate iterator of a walk *)
Fixpoint walk_trace {A} (zero : A) (i : iter A) (ms : list move) : list nat :=
  match ms with
  | [] => [it_slot i]
  | m :: rest => it_slot i :: walk_trace zero (apply_move A zero i m) rest
  end.

(* ---------- pool level ---------- *)
Definition op_of_move (i : nat) (m : move) : op :=
  match m with
  | MNext => INext i | MPrev => IPrev i | MToStart => IToStart i | MToEnd => IToEnd i | MToSlot k => IToSlot i k
  end.

Definition mk_iter (s : list val) (k : nat) : iter val := {| it_vals := s; it_slot := k |}.

Theorem get_iterator_snapshot : forall zero p o okeys p' r,
  step zero p (GetIterator o okeys) = (p', r) -> r = RNew ->
  exists z l, seq_view (get p o) okeys = Some l /\ p' = p ++ [OIter z l 0].
Proof.
  intros zero p o okeys p' r H Hr. cbn [step] in H.
  destruct (seq_view (get p o) okeys) as [l|] eqn:E.
  - destruct (get p o); unfold push_obj in H; inversion H; subst; eexists; eexists; split; reflexivity.
  - destruct (get p o); inversion H; subst; discriminate.
Qed.

Theorem pool_move : forall zero p i z s k m, i < length p -> nth i p ODead = OIter z s k ->
  fst (step zero p (op_of_move i m)) = put p i (OIter z s (it_slot (apply_move val z (mk_iter s k) m))).
Proof.
  intros zero p i z s k m Hi G. fold (get p i) in G.
  destruct m; cbn [op_of_move step]; rewrite G; reflexivity.
Qed.

Theorem pool_move_result : forall zero p i z s k, nth i p ODead = OIter z s k ->
  snd (step zero p (INext i)) = RVal (fst (get_next z (mk_iter s k))) /\
  snd (step zero p (IPrev i)) = RVal (fst (get_prev z (mk_iter s k))) /\
  snd (step zero p (IHasNext i)) = RBool (has_next (mk_iter s k)) /\
  snd (step zero p (IHasPrev i)) = RBool (has_prev (mk_iter s k)) /\
  snd (step zero p (IGetSlot i)) = RInt (Z.of_nat k) /\
  snd (step zero p (IGetSize i)) = RInt (Z.of_nat (length s)).
Proof.
  intros zero p i z s k G. fold (get p i) in G. cbn [step]. rewrite G. repeat split.
Qed.

Lemma apply_move_wf_slot : forall z s k m, k <= length s ->
  it_slot (apply_move val z (mk_iter s k) m) <= length s.
Proof.
  intros z s k m H.
  assert (W : wf val (mk_iter s k)) by exact H.
  pose proof (move_wf val z (mk_iter s k) m W) as W'. unfold wf, it_size in W'.
  rewrite (move_vals val z) in W'. exact W'.
Qed.

Local Opaque sort_values reverse_values shuffle_values set_and set_or set_sans set_xor set_add set_add_all
  set_remove set_remove_all set_contains set_contains_any set_contains_all set_get_index
  a_set a_remove a_merge a_extract a_remove_all a_set_all a_get_or_zero
  get_value get_values set_value set_values insert_value insert_values remove_value remove_values
  get_index contains_value contains_any contains_all stack_push stack_pop build reorder seq_view
  rank0 compare0 get_next get_prev to_slot.

(* one step keeps an iterator's snapshot and keeps its slot within 0..size *)
Lemma step_iter_wf : forall zero p o p' r i z s k, step zero p o = (p', r) ->
  nth i p ODead = OIter z s k -> k <= length s ->
  exists k', nth i p' ODead = OIter z s k' /\ k' <= length s.
Proof.
  intros zero p o p' r i z s k H G Hk.
  assert (Hi : i < length p).
  { destruct (Nat.lt_ge_cases i (length p)) as [L|L]; [assumption|].
    rewrite nth_overflow in G by assumption. discriminate. }
  assert (D : writes o = Some i \/ writes o <> Some i).
  { destruct (writes o) as [w|]; [|right; discriminate].
    destruct (Nat.eq_dec w i) as [->|N]; [left; reflexivity | right; congruence]. }
  destruct D as [W|W].
  - assert (M : (exists m, o = op_of_move i m) \/ p' = p).
    { fold (get p i) in G.
      destruct o; cbn [writes] in W; try discriminate; inversion W; subst;
        try (left; exists MNext; reflexivity); try (left; exists MPrev; reflexivity);
        try (left; exists MToStart; reflexivity); try (left; exists MToEnd; reflexivity);
        try (left; eexists (MToSlot _); reflexivity);
        right; cbn [step] in H; rewrite G in H; cbn [seq_contents with_contents] in H;
        cbn beta iota zeta in H; unfold of_out in H; brk; reflexivity. }
    destruct M as [[m ->] | ->].
    + pose proof (pool_move zero p i z s k m Hi G) as E. rewrite H in E. cbn [fst] in E. subst p'.
      eexists. split; [apply put_nth_same; exact Hi|]. apply apply_move_wf_slot. exact Hk.
    + exists k. auto.
  - destruct (step_frame _ _ _ _ _ H) as [_ Hn].
    exists k. rewrite Hn by assumption. auto.
Qed.

(* C17 at pool level: whatever happens in the pool — mutation of the source collection, moves of
   this or other iterators, new objects — the iterator keeps its snapshot and 0 <= slot <= size *)
Theorem pool_iter_invariant : forall zero ops p i z s k, nth i p ODead = OIter z s k -> k <= length s ->
  exists k', nth i (run zero p ops) ODead = OIter z s k' /\ k' <= length s.
Proof.
  intros zero ops. induction ops as [|o rest IH]; intros p i z s k G Hk.
  - exists k. auto.
  - cbn [run]. destruct (step zero p o) as [p' r] eqn:E. cbn [fst].
    destruct (step_iter_wf _ _ _ _ _ _ _ _ _ E G Hk) as [k1 [G1 H1]].
    apply (IH p' i z s k1 G1 H1).
Qed.

(* a fresh iterator (GetIterator) starts inside the invariant *)
Corollary fresh_iterator_invariant : forall zero p o okeys p' ops,
  step zero p (GetIterator o okeys) = (p', RNew) ->
  exists z l k', seq_view (get p o) okeys = Some l /\
    nth (length p) (run zero p' ops) ODead = OIter z l k' /\ k' <= length l.
Proof.
  intros zero p o okeys p' ops H.
  destruct (get_iterator_snapshot _ _ _ _ _ _ H eq_refl) as [z [l [E ->]]].
  assert (G : nth (length p) (p ++ [OIter z l 0]) ODead = OIter z l 0).
  { rewrite app_nth2 by lia. rewrite Nat.sub_diag. reflexivity. }
  destruct (pool_iter_invariant zero ops _ _ _ _ _ G (Nat.le_0_l _)) as [k' [G' H']].
  exists z, l, k'. auto.
Qed.

(* several iterators do not influence each other: ops that do not address iterator i (in particular
   every move of another iterator j) leave it exactly as it was, slot included *)
Theorem other_iterators_untouched : forall zero p i j ms, i < length p -> i <> j ->
  nth i (run zero p (map (op_of_move j) ms)) ODead = nth i p ODead.
Proof.
  intros zero p i j ms Hi Hij. apply run_frame; [exact Hi|].
  intros o Ho. apply in_map_iff in Ho. destruct Ho as [m [<- _]].
  destruct m; cbn [op_of_move writes]; congruence.
Qed.

(* moves of an iterator change no collection (nor any other object) *)
Theorem iterator_moves_change_nothing_else : forall zero p i m x, x < length p -> x <> i ->
  nth x (fst (step zero p (op_of_move i m))) ODead = nth x p ODead.
Proof.
  intros zero p i m x Hx Hxi.
  destruct (step zero p (op_of_move i m)) as [p' r] eqn:E. cbn [fst].
  destruct (step_frame _ _ _ _ _ E) as [_ Hn]. apply Hn; [exact Hx|].
  destruct m; cbn [op_of_move writes]; congruence.
Qed.

(* data for the pool-level Example: a list [1;2;3], an iterator over it, then the list is mutated
   (append, remove, sort) and a second iterator obtained and moved *)
Definition vi (z : Z) : val := VInt 0 z.
Definition ex_pool_ops : list op :=
  [NewSlice [vi 1; vi 2; vi 3]; FromArray CList 0; GetIterator 1 []; INext 2;
   AppendValue 1 (vi 9); RemoveValue 1 1; GetIterator 1 []; INext 3; INext 3; IToEnd 3; RemoveAll 1; INext 2].
