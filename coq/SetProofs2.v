(* SetProofs2.v — additions to SetProofs.v (nothing there is changed):
   1. boolean checkers for the hypotheses of the set theorems (so that the non-vacuity
      Examples of C02.v / C15.v establish them by computation);
   2. a coarse ranker on Z (x/10) and the concrete states/histories used by the Examples;
   3. the set theorems instantiated with the REAL default collator's ranking on the universe
      [U M] of well-formed values within the depth limit M: the hypothesis [total_preorder]
      is discharged by CollateUse.rank_total_preorder_for_sets, only the universe membership
      (carried by the type [U M] = { v | inU M v = true }) remains. *)
From Verif Require Import Base Seq Coll SetProofs Value CollateRank CollateUse.
From Coq Require Import Sorted Permutation.

(* ------------------------------------------------------------------ *)
(* 1. checkers                                                          *)
(* ------------------------------------------------------------------ *)
Section Check.
Variable A : Type.
Variable rank : A -> A -> comparison.

Definition ltb (a b : A) : bool := match rank a b with Lt => true | _ => false end.
Fixpoint strict_sortedb (l : list A) : bool :=
  match l with
  | [] => true
  | a :: t => forallb (ltb a) t && strict_sortedb t
  end.
Definition memb (x : A) (l : list A) : bool := existsb (eqv A rank x) l.

Lemma strict_sortedb_ok : forall l, strict_sortedb l = true -> StrictSorted A rank l.
Proof.
  induction l as [|a t IH]; intros H.
  - constructor.
  - simpl in H. apply andb_prop in H. destruct H as [H1 H2]. constructor.
    + apply IH, H2.
    + apply Forall_forall. intros b Hb. rewrite forallb_forall in H1.
      specialize (H1 b Hb). unfold ltb in H1. destruct (rank a b); auto; discriminate.
Qed.

Lemma strict_sortedb_complete : forall l, StrictSorted A rank l -> strict_sortedb l = true.
Proof.
  induction 1 as [|a t Ht IH Hf]; simpl; auto.
  apply andb_true_intro. split; auto.
  apply forallb_forall. intros b Hb. rewrite Forall_forall in Hf. unfold ltb. rewrite (Hf b Hb). auto.
Qed.

Lemma memb_ok : forall x l, memb x l = true <-> mem A rank x l.
Proof. intros x l. apply mem_existsb. Qed.

Lemma memb_false : forall x l, memb x l = false <-> ~ mem A rank x l.
Proof.
  intros x l. rewrite <- memb_ok. destruct (memb x l); split; intros H; auto; try discriminate.
  exfalso. apply H. auto.
Qed.
End Check.
Arguments ltb {A}. Arguments strict_sortedb {A}. Arguments memb {A}.

(* ------------------------------------------------------------------ *)
(* 2. coarse ranker on Z and the concrete data of the Examples           *)
(* ------------------------------------------------------------------ *)
Definition coarseZ (a b : Z) : comparison := Z.compare (a / 10) (b / 10).

Lemma coarseZ_total_preorder : total_preorder Z coarseZ.
Proof.
  unfold total_preorder, coarseZ. split; [|split].
  - intros a. apply Z.compare_refl.
  - intros a b. apply Z.compare_antisym.
  - intros a b c H1 H2. rewrite Z.compare_gt_iff in *. lia.
Qed.

(* reversed order on Z (a caller-supplied collator that is a total order) *)
Definition revZ (a b : Z) : comparison := Z.compare b a.
Lemma revZ_total_preorder : total_preorder Z revZ.
Proof.
  unfold total_preorder, revZ. split; [|split].
  - intros a. apply Z.compare_refl.
  - intros a b. apply Z.compare_antisym.
  - intros a b c H1 H2. rewrite Z.compare_gt_iff in *. lia.
Qed.

(* a set of four values under the coarse ranker: classes 0, 1, 3, 4 *)
Definition ex_set : list Z := [5; 17; 31; 48]%Z.
(* a 6-operation history: single and bulk additions/removals, rank-equal duplicates
   (12/18, 31/39, 7/0, 12/13), removal of absent values (99) *)
Definition ex_ops : list (sop Z) :=
  [SAdd Z 25; SAddAll Z [7; 31; 12; 18]; SRemove Z 39; SAdd Z 44; SRemoveAll Z [0; 99]; SAdd Z 13]%Z.
(* a second history with a clear in the middle *)
Definition ex_ops_clear : list (sop Z) :=
  [SAddAll Z [3; 14; 15; 92]; SClear Z; SAdd Z 65; SAdd Z 35; SRemove Z 60]%Z.
(* operands for the algebra: classes {0,1,3,4} and {1,2,4,7} *)
Definition ex_set_b : list Z := [12; 29; 40; 75]%Z.

(* ------------------------------------------------------------------ *)
(* 3. the default collator: no total_preorder hypothesis                *)
(* ------------------------------------------------------------------ *)
Section Default.
Variable M : nat.                    (* the collator's maximum depth *)
Variable zero : U M.
Let A := U M.
Let rk := rkU M.
Let TP : total_preorder A rk := rank_total_preorder_for_sets M.

Definition dc_search_found := find_index_found A zero rk TP.
Definition dc_search_absent := find_index_absent A zero rk TP.
Definition dc_search_iff_member := find_index_iff_mem A zero rk TP.
Definition dc_add := set_add_spec A zero rk TP.
Definition dc_remove := set_remove_spec A zero rk TP.
Definition dc_stored_once := strict_sorted_unique A zero rk TP.
Definition dc_history_strictly_ordered := C02_inv A zero rk TP.
Definition dc_history_membership := C02_membership A zero rk TP.
Definition dc_from_empty := C02_membership_empty A zero rk TP.
Definition dc_contains_value := set_contains_spec A zero rk TP.
Definition dc_get_index := set_get_index_spec A zero rk TP.
Definition dc_contains_any := set_contains_any_spec A zero rk TP.
Definition dc_contains_all := set_contains_all_spec A zero rk TP.
Definition dc_and := set_and_spec A zero rk TP.
Definition dc_or := set_or_spec A zero rk TP.
Definition dc_sans := set_sans_spec A zero rk TP.
Definition dc_xor := set_xor_spec A zero rk TP.
End Default.

(* universe members for the Examples: the Go ints 3, 7, 7 (again), 20 and the string "ab" *)
Definition u_int (M : nat) (z : Z) : U M := exist _ (VInt 0 z) eq_refl.
Definition u_str (M : nat) (s : list Z) : U M := exist _ (VStr s) eq_refl.
Definition u_nil (M : nat) : U M := exist _ VNil eq_refl.

(* ------------------------------------------------------------------ *)
(* 4. GetIndex agrees with GetValue (the ordinal view), reversed collators *)
(* ------------------------------------------------------------------ *)
Lemma get_value_ordinal : forall (A : Type) (zero : A) (l : list A) (k : nat),
  k < length l -> get_value zero l (Z.of_nat (S k)) = Ret (nth k l zero).
Proof.
  intros A zero l k H. unfold get_value, pos.
  destruct (Nat.eqb_spec (length l) 0) as [E|E]; [lia|].
  destruct (Z.eqb_spec (Z.of_nat (S k)) 0) as [E1|E1]; [lia|].
  destruct (Z.ltb_spec (Z.of_nat (S k)) (- Z.of_nat (length l))) as [E2|E2]; [lia|].
  destruct (Z.ltb_spec (Z.of_nat (length l)) (Z.of_nat (S k))) as [E3|E3]; [lia|]. cbn [orb].
  destruct (Z.ltb_spec (Z.of_nat (S k)) 0) as [E4|E4]; [lia|].
  replace (Z.to_nat (Z.of_nat (S k) - 1)) with k by lia. reflexivity.
Qed.

Lemma get_value_ordinal_inv : forall (A : Type) (zero : A) (l : list A) (k : nat) (w : A),
  get_value zero l (Z.of_nat (S k)) = Ret w -> k < length l /\ w = nth k l zero.
Proof.
  intros A zero l k w E. destruct (Nat.lt_ge_cases k (length l)) as [H|H].
  - rewrite get_value_ordinal in E by exact H. injection E as <-. auto.
  - exfalso. unfold get_value, pos in E.
    destruct (length l =? 0); [discriminate E|].
    destruct (Z.eqb_spec (Z.of_nat (S k)) 0) as [E1|E1]; [discriminate E|].
    destruct (Z.ltb_spec (Z.of_nat (length l)) (Z.of_nat (S k))) as [E3|E3]; [|lia].
    rewrite Bool.orb_true_r in E. discriminate E.
Qed.

(* GetIndex(v) = k > 0 exactly when GetValue(k) ranks equal to v; 0 exactly when v is absent *)
Theorem get_index_agrees_with_get_value : forall (A : Type) (zero : A) (rank : A -> A -> comparison),
  total_preorder A rank -> forall (l : list A) (v : A), StrictSorted A rank l ->
  exists n : nat, set_get_index zero rank l v = Ret n /\
    (n = 0 <-> ~ mem A rank v l) /\
    (0 < n -> exists w, get_value zero l (Z.of_nat n) = Ret w /\ rank v w = Eq) /\
    (forall (k : nat) (w : A), get_value zero l (Z.of_nat (S k)) = Ret w -> rank v w = Eq -> n = S k).
Proof.
  intros A zero rank TP l v S.
  destruct (set_get_index_spec A zero rank TP l v S) as [n [E [Z0 [F1 F2]]]].
  exists n. split; [exact E|]. split; [exact Z0|]. split.
  - intros Hn. destruct n as [|k]; [lia|]. destruct (F1 k eq_refl) as [Hk Hr].
    exists (nth k l zero). split; [apply get_value_ordinal; exact Hk|exact Hr].
  - intros k w Ew Hr. apply get_value_ordinal_inv in Ew. destruct Ew as [Hk ->]. apply F2; auto.
Qed.

(* a reversed total preorder is a total preorder: the theorems cover reversed collators *)
Lemma flip_total_preorder : forall (A : Type) (rank : A -> A -> comparison),
  total_preorder A rank -> total_preorder A (fun a b => rank b a).
Proof.
  intros A rank [R [O T]]. split; [|split].
  - intros a. apply R.
  - intros a b. apply O.
  - intros a b c H1 H2. apply (T c b a); assumption.
Qed.

Definition dc_get_index_get_value (M : nat) (zero : U M) :=
  get_index_agrees_with_get_value (U M) zero (rkU M) (rank_total_preorder_for_sets M).
(* the reversed default collator *)
Definition dc_rev_history_strictly_ordered (M : nat) (zero : U M) :=
  C02_inv (U M) zero (fun a b => rkU M b a) (flip_total_preorder _ _ (rank_total_preorder_for_sets M)).
Definition dc_rev_history_membership (M : nat) (zero : U M) :=
  C02_membership (U M) zero (fun a b => rkU M b a) (flip_total_preorder _ _ (rank_total_preorder_for_sets M)).
