(* CoarseProofs.v — for C02: the coarse collator the harness hands to Set.MakeWithCollator
   ([Pool.rk_coarse], the mirror of harness/pool.go rankWith case 2: integers by floor(x/4), strings by
   length, every other pair by the default ranking) IS a total preorder on the universe of the default
   collator — also for element type `any`, where one set mixes integers, strings and other kinds (the
   generator does that: profile C02 has the element type "any" and MakeSetColl draws collators 0..2).
   Reason: values of different coarse type are ordered by their type alone (the default ranking compares
   the type names first), and within one type the ranking is a total preorder (x/4, length, default). *)
From Verif Require Import Base Sorter SorterProofs Value Seq Coll Pool CollateOrd CollateRank CollateUse SetProofs SetTransfer.
Local Open Scope nat_scope.

Definition is_int (v : val) : bool := match v with VInt _ _ => true | _ => false end.
Definition is_str (v : val) : bool := match v with VStr _ => true | _ => false end.

Lemma rk_coarse_default : forall a b, is_int a && is_int b = false -> is_str a && is_str b = false ->
  rk_coarse a b = rk_default a b.
Proof. intros a b H1 H2. destruct a; try reflexivity; destruct b; try reflexivity; discriminate. Qed.

Lemma is_int_inv : forall a, is_int a = true -> exists w x, a = VInt w x.
Proof. intros a H. destruct a; try discriminate. eauto. Qed.
Lemma is_str_inv : forall a, is_str a = true -> exists s, a = VStr s.
Proof. intros a H. destruct a; try discriminate. eauto. Qed.

Lemma is_int_tyrank : forall a, is_int a = true <-> tyrank a = 13%Z.
Proof. intros a. destruct a; try destruct k; cbn; split; intros H; try discriminate; reflexivity. Qed.
Lemma is_str_tyrank : forall a, is_str a = true <-> tyrank a = 17%Z.
Proof. intros a. destruct a; try destruct k; cbn; split; intros H; try discriminate; reflexivity. Qed.

(* different coarse types: the default ranking is the order of the type names *)
Lemma rk_default_types : forall a b, inUd a -> inUd b -> tyrank a <> tyrank b ->
  rk_default a b = (tyrank a ?= tyrank b)%Z.
Proof.
  intros a b Ha Hb Hne. unfold rk_default. rewrite (rank0_prank cmax a b Ha Hb).
  apply inU_spec in Ha, Hb. rewrite prank_tags by tauto.
  destruct (Z.compare_spec (tyrank a) (tyrank b)) as [E|L|G]; [contradiction|reflexivity|reflexivity].
Qed.

Lemma rk_coarse_types : forall a b, inUd a -> inUd b -> tyrank a <> tyrank b ->
  rk_coarse a b = (tyrank a ?= tyrank b)%Z.
Proof.
  intros a b Ha Hb Hne. rewrite rk_coarse_default.
  - apply rk_default_types; assumption.
  - destruct (is_int a) eqn:Ia, (is_int b) eqn:Ib; try reflexivity.
    apply is_int_tyrank in Ia, Ib. congruence.
  - destruct (is_str a) eqn:Ia, (is_str b) eqn:Ib; try reflexivity.
    apply is_str_tyrank in Ia, Ib. congruence.
Qed.

Definition rkc (a b : U cmax) : comparison := rk_coarse (pU a) (pU b).

Lemma rk_default_tp : SorterProofs.total_preorder (rkU cmax).
Proof. exact (rank_total_preorder cmax). Qed.

Lemma not_gt_types : forall a b, inUd a -> inUd b -> rk_coarse a b <> Gt -> (tyrank a <= tyrank b)%Z.
Proof.
  intros a b Ha Hb H. destruct (Z.eq_dec (tyrank a) (tyrank b)) as [E|E]; [lia|].
  rewrite (rk_coarse_types a b Ha Hb E) in H.
  destruct (Z.compare_spec (tyrank a) (tyrank b)); try lia. contradiction.
Qed.

Theorem rk_coarse_total_preorder : SorterProofs.total_preorder rkc.
Proof.
  destruct rk_default_tp as (Dr & Da & Dt). unfold rkc. split; [|split].
  - intros [a Ha]. cbn [pU proj1_sig]. destruct (is_int a) eqn:Ia; [|destruct (is_str a) eqn:Is].
    + apply is_int_inv in Ia. destruct Ia as (w & x & ->). cbn. apply Z.compare_refl.
    + apply is_str_inv in Is. destruct Is as (s & ->). cbn. apply Nat.compare_refl.
    + rewrite rk_coarse_default by (rewrite ?Ia, ?Is; reflexivity). exact (Dr (exist _ a Ha)).
  - intros [a Ha] [b Hb]. cbn [pU proj1_sig].
    destruct (is_int a && is_int b) eqn:Ii; [|destruct (is_str a && is_str b) eqn:Is].
    + apply andb_prop in Ii. destruct Ii as [Ia Ib]. apply is_int_inv in Ia, Ib.
      destruct Ia as (w & x & ->). destruct Ib as (w' & y & ->). cbn. apply Z.compare_antisym.
    + apply andb_prop in Is. destruct Is as [Ia Ib]. apply is_str_inv in Ia, Ib.
      destruct Ia as (s & ->). destruct Ib as (t & ->). cbn. apply Nat.compare_antisym.
    + rewrite (rk_coarse_default a b Ii Is), (rk_coarse_default b a) by (rewrite andb_comm; assumption).
      exact (Da (exist _ a Ha) (exist _ b Hb)).
  - intros [a Ha] [b Hb] [c Hc]. cbn [pU proj1_sig]. intros Hab Hbc.
    pose proof (not_gt_types a b Ha Hb Hab) as Lab. pose proof (not_gt_types b c Hb Hc Hbc) as Lbc.
    destruct (Z.eq_dec (tyrank a) (tyrank c)) as [Eac|Nac].
    2:{ rewrite (rk_coarse_types a c Ha Hc Nac). destruct (Z.compare_spec (tyrank a) (tyrank c)); try lia; discriminate. }
    assert (Eab : tyrank a = tyrank b) by lia. assert (Ebc : tyrank b = tyrank c) by lia.
    destruct (is_int a) eqn:Ia; [|destruct (is_str a) eqn:Sa].
    + assert (Ib : is_int b = true) by (apply is_int_tyrank; apply is_int_tyrank in Ia; congruence).
      assert (Ic : is_int c = true) by (apply is_int_tyrank; apply is_int_tyrank in Ia; congruence).
      apply is_int_inv in Ia, Ib, Ic. destruct Ia as (w1 & x & ->). destruct Ib as (w2 & y & ->). destruct Ic as (w3 & z & ->).
      cbn in *. rewrite Z.compare_gt_iff in *. lia.
    + assert (Sb : is_str b = true) by (apply is_str_tyrank; apply is_str_tyrank in Sa; congruence).
      assert (Sc : is_str c = true) by (apply is_str_tyrank; apply is_str_tyrank in Sa; congruence).
      apply is_str_inv in Sa, Sb, Sc. destruct Sa as (s1 & ->). destruct Sb as (s2 & ->). destruct Sc as (s3 & ->).
      cbn in *. rewrite Nat.compare_gt_iff in *. lia.
    + assert (Ib : is_int b = false).
      { destruct (is_int b) eqn:X; [|reflexivity]. apply is_int_tyrank in X. rewrite <- Eab in X. apply is_int_tyrank in X. congruence. }
      assert (Ic : is_int c = false).
      { destruct (is_int c) eqn:X; [|reflexivity]. apply is_int_tyrank in X. rewrite <- Eac in X. apply is_int_tyrank in X. congruence. }
      assert (Sb : is_str b = false).
      { destruct (is_str b) eqn:X; [|reflexivity]. apply is_str_tyrank in X. rewrite <- Eab in X. apply is_str_tyrank in X. congruence. }
      assert (Sc : is_str c = false).
      { destruct (is_str c) eqn:X; [|reflexivity]. apply is_str_tyrank in X. rewrite <- Eac in X. apply is_str_tyrank in X. congruence. }
      rewrite rk_coarse_default in * by (rewrite ?Ia, ?Ib, ?Ic, ?Sa, ?Sb, ?Sc; reflexivity).
      exact (Dt (exist _ a Ha) (exist _ b Hb) (exist _ c Hc) Hab Hbc).
Qed.

(* the form the Set theorems of C02 take as hypothesis *)
Theorem rk_coarse_total_preorder_for_sets : SetProofs.total_preorder (U cmax) rkc.
Proof. exact rk_coarse_total_preorder. Qed.

Definition coarse_history_strictly_ordered (zero : U cmax) := C02_inv (U cmax) zero rkc rk_coarse_total_preorder_for_sets.

(* the harness's values: ints, strings, a mixed `any` sample *)
Definition ex_mixed : list val := [VNil; VBool true; VFloat 64 0; VInt 64 (-3); VInt 64 1; VInt 64 2; VInt 64 9; VRune 97; VStr [120]%Z; VStr [97; 98]%Z; VUint 64 2].

Print Assumptions rk_coarse_total_preorder.
