(* GenIter.v — the generated iterator methods that the list loops run on (GetNext, HasNext, and the
   constructor MakeFromArray) compute what the iterator model of Seq.v computes. *)
From Verif Require Import Base Seq MiniGo GenSrc GenRep GenLib.

Section GenIter.
Variable A : Type.
Variable zero : A.
Variable ext : ident -> ident -> val A -> list (val A) -> option (val A).
Notation call_at F := (i_call (interp_at A zero ext prog F)).

Notation mk_it := (mk_it A).
Notation it_rep := (it_rep A).

Lemma gen_HasNext cls i F : 6 <= F ->
  call_at F (it_rep cls i) id_HasNext [] = ROk (VBool (has_next i), it_rep cls i).
Proof.
  intros HF. fuel F 6. destruct i as [l k]. unfold it_rep, has_next, it_size. cbn [it_vals it_slot].
  gocall. gogo. all: reflexivity.
Qed.

Lemma gen_GetNext cls i F : 10 <= F ->
  call_at F (it_rep cls i) id_GetNext [] =
  ROk (VElem (fst (get_next zero i)), it_rep cls (snd (get_next zero i))).
Proof.
  intros HF. fuel F 10. destruct i as [l k]. unfold it_rep, get_next, has_next, it_size. cbn [it_vals it_slot].
  gocall. gogo; cbn [fst snd it_vals it_slot].
  - rewrite (zidx_elems A zero) by lia. gorun. unfold it_val. goeq.
  - reflexivity.
Qed.

Lemma gen_MakeFromArray fs l F : 12 <= F ->
  call_at F (VObj id_iteratorClass_ fs) id_MakeFromArray [VSlice (elems l)] =
  ROk (it_rep VNil (it_make l), VObj id_iteratorClass_ fs).
Proof.
  intros HF. fuel F 12. unfold it_rep, it_make. cbn [it_vals it_slot].
  gocall. rewrite elems_length. reflexivity.
Qed.

End GenIter.
