(* PoolFrame.v — frame properties of the API-history interpreter of Pool.v:
   what a call may change in the pool (C15/C16/C17/C18). *)
From Verif Require Import Base Sorter Value Seq Coll CollP Pool.

(* the only existing slot an op may overwrite: its receiver *)
Definition writes (o : op) : option nat :=
  match o with
  | SliceSet s _ _ | GoMapSet s _ _ | GoMapDel s _ | SortSlice s _ | AssocSet s _ _ => Some s
  | SetValue r _ _ | SetValues r _ _ | InsertValue r _ _ | InsertValues r _ _
  | AppendValue r _ | AppendValues r _ | RemoveValue r _ | RemoveValues r _ _ | RemoveAll r
  | SortValues r | SortWith r _ | ReverseValues r | ShuffleValues r _
  | AddValue r _ | AddValues r _ | DelValue r _ | DelValues r _ | Push r _ | Pop r
  | ASet r _ _ | ARemove r _ | ARemoveValues r _ | ARemoveValuesBad r _
  | INext r | IPrev r | IToStart r | IToEnd r | IToSlot r _ => Some r
  | _ => None
  end.

(* ---------- helper lemmas on pools ---------- *)
Lemma put_length : forall p i o, length (put p i o) = length p.
Proof. intros. unfold put. apply set_nth_length. Qed.

Lemma put_nth_other : forall p i k o, i <> k -> nth i (put p k o) ODead = nth i p ODead.
Proof.
  unfold put. induction p as [|h t IH]; intros i k o H.
  - destruct k; reflexivity.
  - destruct k as [|k]; destruct i as [|i]; simpl; try reflexivity.
    + congruence.
    + apply IH. congruence.
Qed.

Lemma put_nth_same : forall p k o, (k < length p)%nat -> nth k (put p k o) ODead = o.
Proof.
  unfold put. induction p as [|h t IH]; intros k o H; simpl in H.
  - lia.
  - destruct k as [|k]; simpl.
    + reflexivity.
    + apply IH. lia.
Qed.

Lemma push_nth : forall (p : pool) i o, (i < length p)%nat -> nth i (p ++ [o]) ODead = nth i p ODead.
Proof. intros. apply app_nth1. assumption. Qed.

Lemma get_overflow : forall p i, (length p <= i)%nat -> get p i = ODead.
Proof. intros. unfold get. apply nth_overflow. assumption. Qed.

(* ---------- the shape of a step ---------- *)
Definition failing (r : ret) : bool :=
  match r with RPanic | RHang | RBad => true | _ => false end.

Local Opaque sort_values reverse_values shuffle_values set_and set_or set_sans set_xor set_add set_add_all
  set_remove set_remove_all set_contains set_contains_any set_contains_all set_get_index
  a_set a_remove a_merge a_extract a_remove_all a_set_all a_get_or_zero
  get_value get_values set_value set_values insert_value insert_values remove_value remove_values
  get_index contains_value contains_any contains_all stack_push stack_pop build reorder seq_view
  rank0 compare0 get_next get_prev to_slot
  set_and_p set_or_p set_sans_p set_xor_p set_add_p set_remove_p set_contains_p set_contains_any_p set_contains_all_p
  set_get_index_p set_operand set_like pairs_perm.

Ltac brk :=
  repeat match goal with
  | H : (_, _) = (_, _) |- _ => inversion H; subst; clear H
  | H : context [match ?x with _ => _ end] |- _ => destruct x eqn:?
  end.

Ltac shape_done :=
  first
  [ left; reflexivity
  | right; left; split; [reflexivity | eexists; reflexivity]
  | right; right; left; split; [reflexivity | do 2 eexists; split; reflexivity]
  | right; right; right; split; [reflexivity | do 3 eexists; split; reflexivity] ].

(* every step: no change | one append | overwrite the receiver | overwrite the receiver and append;
   a failing call (panic / hang / ill-typed) is always of the first kind *)
Lemma step_shape : forall zero p o p' r, step zero p o = (p', r) ->
  p' = p \/
  (failing r = false /\ exists x, p' = p ++ [x]) \/
  (failing r = false /\ exists s x, writes o = Some s /\ p' = put p s x) \/
  (failing r = false /\ exists s x y, writes o = Some s /\ p' = put p s x ++ [y]).
Proof.
  intros zero p o p' r H.
  destruct o; cbn [step] in H; unfold push_obj, of_out in H; brk; shape_done.
Qed.

(* FRAME: a step never shrinks the pool, creates at most one new object, and changes no existing object
   other than its receiver.  In particular operands (src slots), caller-owned slices/maps, iterators and
   every other collection are untouched. *)
Theorem step_frame : forall zero p o p' r, step zero p o = (p', r) ->
  (length p <= length p' <= S (length p))%nat /\
  forall i, (i < length p)%nat -> writes o <> Some i -> nth i p' ODead = nth i p ODead.
Proof.
  intros zero p o p' r H.
  destruct (step_shape _ _ _ _ _ H) as [E | [[_ [x E]] | [[_ [s [x [W E]]]] | [_ [s [x [y [W E]]]]]]]]; subst p'.
  - split; [lia | reflexivity].
  - split.
    + rewrite app_length. simpl. lia.
    + intros i Hi _. apply push_nth. assumption.
  - split.
    + rewrite put_length. lia.
    + intros i Hi Hw. apply put_nth_other. congruence.
  - split.
    + rewrite app_length, put_length. simpl. lia.
    + intros i Hi Hw. rewrite push_nth by (rewrite put_length; assumption).
      apply put_nth_other. congruence.
Qed.

(* a panicking or hanging call changes nothing at all *)
Theorem step_panic_frame : forall zero p o p' r, step zero p o = (p', r) ->
  (r = RPanic \/ r = RHang \/ r = RBad) -> p' = p.
Proof.
  intros zero p o p' r H Hr.
  assert (F : failing r = true) by (destruct Hr as [?|[?|?]]; subst r; reflexivity).
  destruct (step_shape _ _ _ _ _ H) as [E | [[N _] | [[N _] | [N _]]]]; congruence.
Qed.

(* ---------- history level ---------- *)
Fixpoint run (zero : val) (p : pool) (ops : list op) : pool :=
  match ops with [] => p | o :: rest => run zero (fst (step zero p o)) rest end.

Theorem run_frame : forall zero ops p i, (i < length p)%nat ->
  (forall o, In o ops -> writes o <> Some i) -> nth i (run zero p ops) ODead = nth i p ODead.
Proof.
  intros zero ops. induction ops as [|o rest IH]; intros p i Hi Hw.
  - reflexivity.
  - cbn [run]. destruct (step zero p o) as [p' r] eqn:E. cbn [fst].
    destruct (step_frame _ _ _ _ _ E) as [[Hl _] Hn].
    rewrite IH.
    + apply Hn; [assumption | apply Hw; left; reflexivity].
    + lia.
    + intros o' Ho'. apply Hw. right. assumption.
Qed.

(* one step keeps an iterator's zero and snapshot *)
Lemma step_iter : forall zero p o p' r i z s k, step zero p o = (p', r) ->
  nth i p ODead = OIter z s k -> exists k', nth i p' ODead = OIter z s k'.
Proof.
  intros zero p o p' r i z s k H G.
  assert (Hi : (i < length p)%nat).
  { destruct (Nat.lt_ge_cases i (length p)) as [L|L]; [assumption|].
    rewrite nth_overflow in G by assumption. discriminate. }
  assert (D : writes o = Some i \/ writes o <> Some i).
  { destruct (writes o) as [w|]; [|right; discriminate].
    destruct (Nat.eq_dec w i) as [->|N]; [left; reflexivity | right; congruence]. }
  destruct D as [W|W].
  - fold (get p i) in G.
    destruct o; cbn [writes] in W; try discriminate; inversion W; subst;
      cbn [step] in H; rewrite G in H; cbn [seq_contents with_contents] in H;
      cbn beta iota zeta in H; unfold of_out in H; brk;
      first [ eexists; exact G
            | eexists; apply put_nth_same; assumption ].
  - destruct (step_frame _ _ _ _ _ H) as [_ Hn].
    exists k. rewrite Hn by assumption. exact G.
Qed.

(* C17: an iterator's snapshot and zero never change, whatever happens in the pool
   (only its slot moves, and only by its own moves) *)
Theorem iter_snapshot_stable : forall zero ops p i z s k, nth i p ODead = OIter z s k ->
  exists k', nth i (run zero p ops) ODead = OIter z s k'.
Proof.
  intros zero ops. induction ops as [|o rest IH]; intros p i z s k G.
  - exists k. exact G.
  - cbn [run]. destruct (step zero p o) as [p' r] eqn:E. cbn [fst].
    destruct (step_iter _ _ _ _ _ _ _ _ _ E G) as [k1 G1].
    apply (IH p' i z s k1 G1).
Qed.

(* C18/C15/C16: constructors and class functions copy — the source object is unchanged by the call, and
   later writes to the source do not reach the product (and vice versa) — both are instances of step_frame *)
Corollary product_independent_of_source : forall zero p o p' r ops src,
  step zero p o = (p', r) -> r = RNew -> writes o <> Some src -> (src < length p)%nat ->
  (* later ops that only write the source leave the new object (at index length p' - 1) unchanged *)
  (forall o', In o' ops -> writes o' = Some src \/ writes o' = None) ->
  (src <> length p' - 1)%nat ->
  nth (length p' - 1) (run zero p' ops) ODead = nth (length p' - 1) p' ODead.
Proof.
  intros zero p o p' r ops src H _ _ Hs Hops Hne.
  destruct (step_frame _ _ _ _ _ H) as [[Hl _] _].
  apply run_frame.
  - lia.
  - intros o' Ho'. destruct (Hops o' Ho') as [W|W]; rewrite W; congruence.
Qed.

Corollary source_independent_of_product : forall zero p o p' r ops src,
  step zero p o = (p', r) -> r = RNew -> writes o <> Some src -> (src < length p)%nat ->
  (forall o', In o' ops -> writes o' = Some (length p' - 1)%nat \/ writes o' = None) ->
  (src <> length p' - 1)%nat ->
  nth src (run zero p' ops) ODead = nth src p ODead.
Proof.
  intros zero p o p' r ops src H _ Hw Hs Hops Hne.
  destruct (step_frame _ _ _ _ _ H) as [[Hl _] Hn].
  rewrite run_frame.
  - apply Hn; assumption.
  - lia.
  - intros o' Ho'. destruct (Hops o' Ho') as [W|W]; rewrite W; congruence.
Qed.

(* C18: receiver-aliased bulk operations behave as if a separate copy of the receiver had been passed.
   [c] is another slot holding an object with the same Sequential view as the receiver [o]. *)
Theorem self_operand_append : forall zero p o c, o <> c -> (c < length p)%nat ->
  seq_plain (get p c) = seq_plain (get p o) ->
  nth o (fst (step zero p (AppendValues o o))) ODead = nth o (fst (step zero p (AppendValues o c))) ODead
  /\ snd (step zero p (AppendValues o o)) = snd (step zero p (AppendValues o c)).
Proof. intros zero p o c _ _ E. cbn [step]. rewrite E. split; reflexivity. Qed.

Theorem self_operand_insert : forall zero p o c slot, o <> c -> (c < length p)%nat ->
  seq_plain (get p c) = seq_plain (get p o) ->
  nth o (fst (step zero p (InsertValues o slot o))) ODead = nth o (fst (step zero p (InsertValues o slot c))) ODead
  /\ snd (step zero p (InsertValues o slot o)) = snd (step zero p (InsertValues o slot c)).
Proof. intros zero p o c slot _ _ E. cbn [step]. rewrite E. split; reflexivity. Qed.

Theorem self_operand_set : forall zero p o c i, o <> c -> (c < length p)%nat ->
  seq_plain (get p c) = seq_plain (get p o) ->
  nth o (fst (step zero p (SetValues o i o))) ODead = nth o (fst (step zero p (SetValues o i c))) ODead
  /\ snd (step zero p (SetValues o i o)) = snd (step zero p (SetValues o i c)).
Proof. intros zero p o c i _ _ E. cbn [step]. rewrite E. split; reflexivity. Qed.

Theorem self_operand_add : forall zero p o c, o <> c -> (c < length p)%nat ->
  seq_plain (get p c) = seq_plain (get p o) ->
  nth o (fst (step zero p (AddValues o o))) ODead = nth o (fst (step zero p (AddValues o c))) ODead
  /\ snd (step zero p (AddValues o o)) = snd (step zero p (AddValues o c)).
Proof. intros zero p o c _ _ E. cbn [step]. rewrite E. split; reflexivity. Qed.

Theorem self_operand_del : forall zero p o c, o <> c -> (c < length p)%nat ->
  seq_plain (get p c) = seq_plain (get p o) ->
  nth o (fst (step zero p (DelValues o o))) ODead = nth o (fst (step zero p (DelValues o c))) ODead
  /\ snd (step zero p (DelValues o o)) = snd (step zero p (DelValues o c)).
Proof. intros zero p o c _ _ E. cbn [step]. rewrite E. split; reflexivity. Qed.

Print Assumptions step_frame.
Print Assumptions run_frame.
Print Assumptions self_operand_append.
Print Assumptions iter_snapshot_stable.
