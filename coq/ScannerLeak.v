(* ScannerLeak.v — the condition under which the scanner goroutine terminates (D18).
   Abstract model of the token queue between the two goroutines: the scanner wants to add
   N tokens one after the other to a queue of capacity C (AddValue blocks while C tokens
   are waiting); the parser removes tokens one after the other and stops for good after k
   of them (k <= N: it returned or panicked).  Interleavings are arbitrary. *)
From Coq Require Import Arith Lia.

Section Leak.
Variables N k C : nat.
Hypothesis k_le_N : k <= N.
Hypothesis C_pos : 1 <= C.

(* state: tokens added so far, tokens removed so far *)
Inductive step : nat * nat -> nat * nat -> Prop :=
| s_add : forall p c, p < N -> p - c < C -> step (p, c) (S p, c)
| s_remove : forall p c, c < p -> c < k -> step (p, c) (p, S c).

Inductive reach : nat * nat -> Prop :=
| r_init : reach (0, 0)
| r_step : forall s s', reach s -> step s s' -> reach s'.

Definition stuck (s : nat * nat) : Prop := forall s', ~ step s s'.

Lemma reach_inv : forall s, reach s -> fst s <= N /\ snd s <= k /\ snd s <= fst s /\ fst s <= snd s + C.
Proof.
  intros s H. induction H as [|s s' Hr IH Hs]; simpl; [lia|].
  destruct Hs; simpl in *; lia.
Qed.

(* every run ends (no infinite run: the measure strictly decreases) *)
Lemma step_measure : forall s s', reach s -> step s s' ->
  (N - fst s') + (k - snd s') < (N - fst s) + (k - snd s).
Proof. intros s s' Hr Hs. pose proof (reach_inv s Hr). destruct Hs; simpl in *; lia. Qed.

(* where every run ends: the parser has taken its k tokens, the scanner has added
   min N (k + C) tokens *)
Theorem final_state : forall p c, reach (p, c) -> stuck (p, c) -> c = k /\ p = Nat.min N (k + C).
Proof.
  intros p c Hr Hs. pose proof (reach_inv _ Hr) as I. simpl in I.
  assert (A : ~ (p < N /\ p - c < C)).
  { intros (H1 & H2). apply (Hs (S p, c)). constructor; auto. }
  assert (B : ~ (c < p /\ c < k)).
  { intros (H1 & H2). apply (Hs (p, S c)). constructor; auto. }
  lia.
Qed.

(* the scanner goroutine terminates (it has added all N tokens when nothing moves any more)
   exactly when the tokens the parser did not take fit into the queue *)
Theorem scanner_finishes_iff : forall p c, reach (p, c) -> stuck (p, c) -> (p = N <-> N - k <= C).
Proof. intros p c Hr Hs. destruct (final_state p c Hr Hs) as (E1 & E2). lia. Qed.
End Leak.

(* the repaired ParseSource reads up to the EOF token, i.e. k = N: the scanner always finishes *)
Corollary drained_scanner_finishes : forall N C p c, 1 <= C -> reach N N C (p, c) -> stuck N N C (p, c) -> p = N.
Proof.
  intros N C p c HC Hr Hs. apply (scanner_finishes_iff N N C (le_n N) HC p c Hr Hs). lia.
Qed.

(* the pinned tree: a diagnostic after k tokens with more than C further tokens to come leaves
   the scanner blocked for ever, e.g. 41 tokens, 3 read, capacity 16 *)
Example leak_example : forall p c, reach 41 3 16 (p, c) -> stuck 41 3 16 (p, c) -> p = 19 /\ p <> 41.
Proof.
  intros p c Hr Hs. destruct (final_state 41 3 16 ltac:(lia) ltac:(lia) p c Hr Hs) as (E1 & E2).
  subst. simpl. lia.
Qed.
