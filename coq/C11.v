(* C11 — every sentence of the CDCN grammar is accepted with its intended meaning.
   Statements only; the proofs are in LiteralProofs.v, ParserProofs.v, CdcnProofs.v, Grammar.v. *)
From Coq Require Import String.
From Verif Require Import Base Params Value Lexer Literals Parser LexerProofs ParserProofs CdcnProofs LiteralProofs ParseRun Grammar Complete LexBridge LexBridge2 LexBridge3 StripInv LexRender.
From Verif Require GrammarLit GrammarTextProofs ErrorTokens ParserPrefix ParserPrefixStrip GrammarReject.
From Verif Require Import GrammarText.
Close Scope string_scope.
Open Scope Z_scope.

(* schedule independence, model level: the outcome is a function of the token sequence
   (that the parser receives exactly the sequence the scanner sent, whatever the schedule
   and the queue capacity, is the FIFO theorem of the queue, property C04) *)
Theorem C11_parse_depends_on_tokens : forall fparse crank a b,
  lex a = lex b -> parse_source fparse crank a = parse_source fparse crank b.
Proof. exact parse_depends_on_tokens. Qed.

(* parser instances carry no state between calls in the model: the k-th outcome of a sequence
   of calls is the outcome of the k-th text alone (the harness parses groups of texts, failing
   and valid ones mixed, on ONE cdcn.Parser().Make() instance and compares every call) *)
Theorem C11_calls_independent : forall fparse crank before src after,
  nth (length before) (calls fparse crank (before ++ src :: after)) POutOfFuel = parse_source fparse crank src.
Proof. exact calls_independent. Qed.

(* literal_exact: an accepted source contains no literal whose conversion failed — an
   out-of-range integer or hexadecimal, an escape Go rejects, an overflowing float (also as a part
   of a complex literal) are never replaced by another value ... *)
Theorem C11_literal_exact : forall fparse crank src v t,
  parse_source fparse crank src = PValue v ->
  In t (lex src) -> is_lit (ttype_of t) = true ->
  literal_value fparse (ttype_of t) (tval t) <> None.
Proof. exact literal_exact. Qed.
(* an accepted source is consumed entirely: nothing is left between the collection (and
   its trailing EOL tokens) and the EOF token *)
Theorem C11_accepted_consumes_all : forall fparse crank src v,
  parse_source fparse crank src = PValue v ->
  exists cs e, lex src = cs ++ [e] /\ ttype_of e = TEOF /\ Forall (nonEOF fparse) cs.
Proof. exact accepted_consumes_all. Qed.
(* ... they are reported: parseIntrinsic stops with the diagnostic for that very token *)
Theorem C11_literal_rejected_is_located : forall fparse t r,
  is_lit (ttype_of t) = true -> literal_value fparse (ttype_of t) (tval t) = None ->
  parse_intrinsic fparse (mkSt [] (t :: r)) = Stop (PSyntax t).
Proof. exact parse_intrinsic_rejects. Qed.

Theorem C11_literal_accepted_with_its_value : forall fparse t r v,
  is_lit (ttype_of t) = true -> literal_value fparse (ttype_of t) (tval t) = Some v ->
  parse_intrinsic fparse (mkSt [] (t :: r)) = Yes v t (mkSt [] r).
Proof. exact parse_intrinsic_accepts. Qed.

(* literal_meaning, integers: the positional value, exactly the int64 / uint64 range *)
Theorem C11_integer_meaning_unsigned : forall ds, ds <> [] -> all_digits ds = true ->
  parse_int ds = if dec_val 0 ds <=? max_int64 then Some (dec_val 0 ds) else None.
Proof. exact parse_int_unsigned. Qed.
Theorem C11_integer_meaning_plus : forall ds, ds <> [] -> all_digits ds = true ->
  parse_int (43 :: ds) = if dec_val 0 ds <=? max_int64 then Some (dec_val 0 ds) else None.
Proof. exact parse_int_plus. Qed.
Theorem C11_integer_meaning_minus : forall ds, ds <> [] -> all_digits ds = true ->
  parse_int (45 :: ds) = if dec_val 0 ds <=? 9223372036854775808 then Some (- dec_val 0 ds) else None.
Proof. exact parse_int_minus. Qed.
Theorem C11_hexadecimal_meaning : forall ds v, ds <> [] -> hex_val 0 ds = Some v ->
  parse_hex (48 :: 120 :: ds) = if v <? two64 then Some v else None.
Proof. exact parse_hex_meaning. Qed.
Theorem C11_integer_range : forall text v, parse_int text = Some v -> min_int64 <= v <= max_int64.
Proof. exact parse_int_range. Qed.
Theorem C11_hexadecimal_range : forall text v, parse_hex text = Some v -> v < two64.
Proof. exact parse_hex_range. Qed.

(* parser_complete, for ALL derivations (Complete.v).  [dcoll fparse crank ts v] is the
   derivation relation of Syntax.cdsn at token level (Collection = "[" Items "]" "(" type ")";
   Items = Values inline / multi-line / empty, Associations inline / multi-line / ":"; tokens
   characterised by type and text, any line and position) together with the denoted value:
   literals through literal_value, association lists de-duplicated by key (first position,
   last value), the collection of the stated type through Parser.build.  The side conditions
   are premises of the derivation: every literal converts and build succeeds (associations
   under Catalog / Map, no collator panic while a Set is built).  Whatever follows the EOF
   token, the sentence  Collection EOL* EOF  is accepted with that value. *)
Theorem C11_parser_complete : forall fparse crank ts v eols eof tl,
  dcoll fparse crank ts v -> Forall eolt eols -> ttype_of eof = TEOF ->
  parse_tokens fparse crank (ts ++ eols ++ eof :: tl) = PValue v.
Proof. exact parser_complete. Qed.
Theorem C11_parser_complete_source : forall fparse crank src ts v eols eof,
  lex src = ts ++ eols ++ [eof] -> dcoll fparse crank ts v -> Forall eolt eols -> ttype_of eof = TEOF ->
  parse_source fparse crank src = PValue v.
Proof. exact parser_complete_source. Qed.
(* the engine of the proof: what every parse function does on a derivation, from any state
   whose push-back stack holds at most 3 tokens (exact stream left over, push-back bound) *)
Theorem C11_derivation_complete : forall fparse crank,
  (forall ts v, dvalue fparse crank ts v -> Pv fparse crank ts v) /\ (forall ts v, dcoll fparse crank ts v -> Pc fparse crank ts v) /\
  (forall ts items, ditems fparse crank ts items -> Pi fparse crank ts items) /\
  (forall ts vs, dvtail_i fparse crank ts vs -> Pvi fparse crank ts vs) /\ (forall ts vs, dvtail_m fparse crank ts vs -> Pvm fparse crank ts vs) /\
  (forall ts kv, dassoc fparse crank ts kv -> Pa fparse crank ts kv) /\
  (forall ts kvs, datail_i fparse crank ts kvs -> Pai fparse crank ts kvs) /\ (forall ts kvs, datail_m fparse crank ts kvs -> Pam fparse crank ts kvs).
Proof. exact derivation_complete. Qed.

(* sanity check of the same statement on the independent tree formulation of Grammar.v
   (render / denote as functions), exhaustively by computation up to a size bound, and the
   converse there: no derivation tree without meaning is accepted *)
Theorem C11_parser_complete_partial :
  forall d n, In d (level1 ++ level2) -> (n <= 2)%nat -> accepts no_floats (default_crank []) d n = true.
Proof. exact parser_complete_partial. Qed.
Theorem C11_accepts_means : forall fparse crank i c n v,
  accepts fparse crank (DColl i c) n = true -> denote fparse crank (DColl i c) = Some v ->
  exists w, parse_tokens fparse crank (render (DColl i c) ++ repeat EOLT n ++ [EOFT]) = PValue w /\ val_eqb v w = true.
Proof. exact accepts_meaning. Qed.
Theorem C11_parser_sound_partial : forall d, In d (level1 ++ level2) -> rejects d = true.
Proof. exact parser_sound_partial. Qed.

(* character level, per token class (the bridge to the formatter's text, C10): a well-formed
   text of the class followed by a separator (end, space, newline, delimiter) is scanned as
   exactly that class with exactly that length: every token class of the scanner is covered. *)
Theorem C11_first_integer : forall ds rest, int_text ds -> sep_start rest ->
  try_types scan_order_t (ds ++ rest) = Some (TInteger, length ds).
Proof. exact first_integer. Qed.
Theorem C11_first_hexadecimal : forall hs rest, hs <> [] -> forallb is_hex hs = true -> sep_start rest ->
  try_types scan_order_t (48 :: 120 :: hs ++ rest) = Some (THexadecimal, (2 + length hs)%nat).
Proof. exact first_hex. Qed.
Theorem C11_first_type : forall name rest, In name type_names ->
  try_types scan_order_t (zs name ++ rest) = Some (TType, String.length name).
Proof. exact first_type. Qed.
Theorem C11_first_delimiter : forall c rest, is_delim c = true -> c <> 40 ->
  try_types scan_order_t (c :: rest) = Some (TDelimiter, 1%nat).
Proof. exact first_delim_not_paren. Qed.
Theorem C11_first_open_paren_before_type : forall name rest, In name type_names ->
  try_types scan_order_t (40 :: zs name ++ rest) = Some (TDelimiter, 1%nat).
Proof. exact first_open_paren_type. Qed.
Theorem C11_first_float : forall txt rest, float_text txt -> sep_start rest ->
  try_types scan_order_t (txt ++ rest) = Some (TFloat, length txt).
Proof. exact first_float. Qed.
Theorem C11_first_rune_plain : forall c rest, c <> 39 -> c <> 10 -> c <> 92 ->
  try_types scan_order_t (39 :: c :: 39 :: rest) = Some (TRune, 3%nat).
Proof. exact first_rune_plain. Qed.
Theorem C11_first_rune_simple_escape : forall e rest, is_simple_esc e = true ->
  try_types scan_order_t (39 :: 92 :: e :: 39 :: rest) = Some (TRune, 4%nat).
Proof. exact first_rune_simple_escape. Qed.
Theorem C11_first_string_escaped : forall ps rest, forallb piece_ok ps = true ->
  try_types scan_order_t (34 :: flat ps ++ 34 :: rest) = Some (TString, (2 + length (flat ps))%nat).
Proof. exact first_string_escaped. Qed.
Theorem C11_first_complex : forall f1 s f2 rest, float_text f1 -> is_sign s = true -> float_text f2 ->
  try_types scan_order_t (40 :: f1 ++ s :: f2 ++ 105 :: 41 :: rest) = Some (TComplex, (length f1 + length f2 + 4)%nat).
Proof. exact first_complex. Qed.
Theorem C11_first_rune_x : forall hs rest, hexes 2 hs ->
  try_types scan_order_t (39 :: 92 :: 120 :: hs ++ 39 :: rest) = Some (TRune, 6%nat).
Proof. exact first_rune_x. Qed.
Theorem C11_first_rune_u : forall hs rest, hexes 4 hs ->
  try_types scan_order_t (39 :: 92 :: 117 :: hs ++ 39 :: rest) = Some (TRune, 8%nat).
Proof. exact first_rune_u. Qed.
Theorem C11_first_rune_U : forall hs rest, hexes 8 hs ->
  try_types scan_order_t (39 :: 92 :: 85 :: hs ++ 39 :: rest) = Some (TRune, 12%nat).
Proof. exact first_rune_U. Qed.
Theorem C11_first_string_full : forall ps rest, forallb piece_good ps = true ->
  try_types scan_order_t (34 :: flat3 ps ++ 34 :: rest) = Some (TString, (2 + length (flat3 ps))%nat).
Proof. exact first_string_full. Qed.

(* composition: lexing a rendered token list gives the tokens back (Space tokens dropped, a
   lone control character renamed, lines and positions as the scanner assigns them), then
   EOF, provided every token text followed by the rest of the rendering is picked by one
   round of scanTokens as its class and length (scannable; LexRender.sc_* discharge it class
   by class); and the whole way from a rendering to the parsed value *)
Theorem C11_lex_render : forall ts, scannable ts -> lex (render_toks ts) = place ts 1 1.
Proof. exact lex_render. Qed.
Theorem C11_place_strip : forall ts line pos,
  map strip (place ts line pos) = map (fun x => (fst x, rename (snd x))) (filter visible ts) ++ [(TEOF, [])].
Proof. exact place_strip. Qed.
Theorem C11_parse_render : forall fparse crank ts dts v eols eof,
  scannable ts -> place ts 1 1 = dts ++ eols ++ [eof] ->
  dcoll fparse crank dts v -> Forall eolt eols -> ttype_of eof = TEOF ->
  parse_source fparse crank (render_toks ts) = PValue v.
Proof. exact parse_render. Qed.

(* derivations do not depend on lines and positions, so the derivation may be given on any
   tokens with the types and texts of the rendering's visible tokens *)
Theorem C11_dcoll_strip : forall fparse crank ts ts' v,
  dcoll fparse crank ts v -> map strip ts' = map strip ts -> dcoll fparse crank ts' v.
Proof. exact dcoll_strip. Qed.
Theorem C11_parse_render_strip : forall fparse crank ts dts v n,
  scannable ts ->
  map (fun x => (fst x, rename (snd x))) (filter visible ts) = map strip dts ++ repeat (TEOL, zs "<EOLN>") n ->
  dcoll fparse crank dts v ->
  parse_source fparse crank (render_toks ts) = PValue v.
Proof. exact parse_render_strip. Qed.

Theorem C11_first_words : forall rest,
  try_types scan_order_t (zs "true" ++ rest) = Some (TBoolean, 4%nat) /\
  try_types scan_order_t (zs "false" ++ rest) = Some (TBoolean, 5%nat) /\
  try_types scan_order_t (zs "nil" ++ rest) = Some (TNil, 3%nat) /\
  try_types scan_order_t (10 :: rest) = Some (TEOL, 1%nat) /\
  try_types scan_order_t (32 :: rest) = Some (TSpace, S (span is_space rest)).
Proof. exact first_words. Qed.

(* non-vacuity and the remaining literal classes by computation (every escape form is an
   Example of LiteralProofs.v) *)
Example C11_ex_boundary_integers :
  parse_source (fun _ => None) (default_crank []) (zs "[9223372036854775807, -9223372036854775808, 0xffffffffffffffff](List)")
  = PValue (VSeq KList [VInt 64 9223372036854775807; VInt 64 (-9223372036854775808); VUint 64 18446744073709551615]).
Proof. vm_compute. reflexivity. Qed.
Example C11_ex_out_of_range_is_located :
  parse_source (fun _ => None) (default_crank []) (zs "[1, 99999999999999999999](List)")
  = PSyntax (mkTok TInteger (zs "99999999999999999999") 1 5).
Proof. vm_compute. reflexivity. Qed.
Example C11_ex_repeated_key_first_position_last_value :
  parse_source (fun _ => None) (default_crank []) (zs "['a': 1, 'b': 2, 'a': 3](Catalog)")
  = PValue (VMapping MCatalog [VRune 97; VRune 98] [VInt 64 3; VInt 64 2]).
Proof. vm_compute. reflexivity. Qed.
(* every sign combination of a complex literal has a value: real ± imaginary (fix 35);
   4607182418800017408 = 1.0, 4611686018427387904 = 2.0, 13835058055282163712 = -2.0 *)
Example C11_ex_complex_sign_combinations :
  parse_source (fun t => if list_eqb Z.eqb t (zs "1.0") then Some 4607182418800017408
                         else if list_eqb Z.eqb t (zs "2.0") then Some 4611686018427387904
                         else if list_eqb Z.eqb t (zs "+2.0") then Some 4611686018427387904
                         else if list_eqb Z.eqb t (zs "-2.0") then Some 13835058055282163712 else None)
    (default_crank []) (zs "[(1.0+2.0i), (1.0-2.0i), (1.0++2.0i), (1.0+-2.0i), (1.0-+2.0i), (1.0--2.0i)](List)")
  = PValue (VSeq KList [VComplex 128 4607182418800017408 4611686018427387904 0 0; VComplex 128 4607182418800017408 13835058055282163712 0 0;
                        VComplex 128 4607182418800017408 4611686018427387904 0 0; VComplex 128 4607182418800017408 13835058055282163712 0 0;
                        VComplex 128 4607182418800017408 13835058055282163712 0 0; VComplex 128 4607182418800017408 4611686018427387904 0 0]).
Proof. vm_compute. reflexivity. Qed.
Example C11_ex_float_through_oracle :
  parse_source (fun t => if list_eqb Z.eqb t (zs "1.5e+3") then Some 4654311885213007872 else None) (default_crank [])
    (zs "[1.5e+3](Array)") = PValue (VSeq KArray [VFloat 64 4654311885213007872]).
Proof. vm_compute. reflexivity. Qed.


(* ====================================================================================== *)
(* SOURCE TEXTS of the published grammar (GrammarText.v): the property's own quantifier    *)
(* ====================================================================================== *)
(* [gtree] = a derivation tree of Syntax.cdsn's rules (Collection, Values / Associations inline,
   multi-line and empty, Association, all seven contexts) with, per literal, one of ALL its forms
   (GrammarText.glit) and with the layout the scanner allows (runs of spaces after "," / ":" / EOL
   and inside "[ ]"); [gtext t n] = its source text followed by n newlines; [gdenote fparse crank t]
   = the value it denotes: every literal through [lit_value] (standard Go semantics, stated per
   form), an association list merged by key (first position, last value), the collection of the
   stated type through the constructor (Parser.build: source order; a Set through the collator). *)

(* literal_meaning, per FORM: what parseIntrinsic's conversion makes of the text of a well-formed
   literal is the value lit_value states — 0; sign? ordinal as the signed positional value inside
   int64; 0x... as the positional value inside uint64; floats and both parts of a complex literal
   through ParseFloat, the imaginary part negated for a "-" separator; a rune / string piece: the
   character, the escape's control character, the byte of \xhh, the code point of \uhhhh /
   \Uhhhhhhhh when it is a valid rune (UTF-8 encoded in a string); None exactly where Go has no
   value (out of range, \ud800, \U00110000, an escaped double quote in a rune, an escaped apostrophe in a
   string, an error of ParseFloat) *)
Theorem C11_literal_meaning :
  forall (fparse : list Z -> option Z) (l : glit), wf_lit l = true ->
    literal_value fparse (lit_type l) (lit_text l) = lit_value fparse l.
Proof. exact GrammarLit.lit_meaning. Qed.

(* every well-formed literal text, followed by a separator, is one token of its class *)
Theorem C11_literal_scanned :
  forall (l : glit) (rest : list rtok), wf_lit l = true -> scannable rest -> sep_start (render_toks rest) ->
    scannable (lit_tok l :: rest).
Proof. exact GrammarLit.lit_scan. Qed.

Theorem C11_text_scannable :
  forall (t : gtree) (n : nat), wf_gtree t = true -> scannable (gtokens t n).
Proof. exact GrammarTextProofs.gtokens_scannable. Qed.

(* TEXT COMPLETENESS *)
Theorem C11_text_complete :
  forall (fparse : list Z -> option Z) (crank : val -> val -> option comparison) (t : gtree) (n : nat) (v : val),
    wf_gtree t = true -> gdenote fparse crank t = Some v ->
    parse_source fparse crank (gtext t n) = PValue v.
Proof. exact GrammarTextProofs.text_complete. Qed.

(* a literal WITHOUT an exact value is rejected with the diagnostic for its token.
   GENERAL POSITION (GrammarReject.v, ParserPrefix.v): [bad_at fparse crank l t pre] = the literal l occurs in
   the tree t — as an item of an inline or multi-line list, first or later, as a key or as the value of
   an association, at any nesting —, pre = the tokens of t in front of that occurrence, and everything
   in front of it has a value (keys and earlier items at every level: gdenote of each is Some).  Then the
   outcome is the diagnostic for THAT token, at the line and position the scanner reaches after pre —
   never a value, never a diagnostic for an earlier or a later token.  Behind it:
   ParserPrefix.prefix_bad_literal, the parser on a proper prefix of a derivation (inductive viable
   prefixes vstop / astop / cstop, one constructor per position of the grammar at which the item in
   progress stands, the items in front whole derivations) followed by a token parse_intrinsic rejects. *)
Theorem C11_prefix_bad_literal :
  forall (fparse : list Z -> option Z) (crank : val -> val -> option comparison) (b : token),
    ParserPrefix.badlit fparse b -> forall ts r : list token, ParserPrefix.lstopc fparse crank b ts ->
    parse_tokens fparse crank (ts ++ r) = PSyntax b.
Proof. exact ParserPrefix.prefix_bad_literal. Qed.

Theorem C11_inexact_literal_rejected_anywhere :
  forall (fparse : list Z -> option Z) (crank : val -> val -> option comparison) (t : gtree) (l : glit)
         (pre : list rtok) (n : nat),
    wf_gtree t = true -> GrammarReject.bad_at fparse crank l t pre -> wf_lit l = true -> lit_value fparse l = None ->
    parse_source fparse crank (gtext t n) =
    PSyntax (mkTok (lit_type l) (lit_text l) (fst (snd (ErrorTokens.place_pre pre 1 1))) (snd (snd (ErrorTokens.place_pre pre 1 1)))).
Proof. exact GrammarReject.inexact_literal_rejected_anywhere. Qed.

(* the two special cases proved first: the only item of a list in any context, the key of the only association *)
Theorem C11_inexact_literal_rejected :
  forall (fparse : list Z -> option Z) (crank : val -> val -> option comparison) (l : glit) (c : gctx) (n : nat),
    wf_lit l = true -> lit_value fparse l = None ->
    parse_source fparse crank (gtext (GInline (GLit l) [] c) n) = PSyntax (mkTok (lit_type l) (lit_text l) 1 2).
Proof. exact GrammarTextProofs.inexact_value_rejected. Qed.
Theorem C11_inexact_key_rejected :
  forall (fparse : list Z -> option Z) (crank : val -> val -> option comparison) (l : glit) (g : nat) (v : gtree) (c : gctx) (n : nat),
    wf_lit l = true -> lit_value fparse l = None -> wf v = true -> is_assoc v = false ->
    parse_source fparse crank (gtext (GInline (GAssoc l g v) [] c) n) = PSyntax (mkTok (lit_type l) (lit_text l) 1 2).
Proof. exact GrammarTextProofs.inexact_key_rejected. Qed.

(* a multi-line nested text with every literal form; 0.5, -12250.0, 0.01, 1.0, 2.0 through the oracle *)
Definition gx_fparse (t : list Z) : option Z :=
  if list_eqb Z.eqb t (zs "0.5") then Some 4602678819172646912
  else if list_eqb Z.eqb t (zs "-12.25e+3") then Some 13891332159903367168
  else if list_eqb Z.eqb t (zs "+1.0E-2") then Some 4576918229304087675
  else if list_eqb Z.eqb t (zs "1.0") then Some 4607182418800017408
  else if list_eqb Z.eqb t (zs "-2.0") then Some 13835058055282163712 else None.
Definition gx_tree : gtree :=
  GMulti
    [(4%nat, GAssoc (GStr [PChar 107; PEsc 34; PHex 120 (zs "ff"); PHex 117 (zs "00e9"); PChar 233]) 1
               (GInline (GLit GZero) [(1%nat, GLit (GInt GNoSign (zs "17"))); (1%nat, GLit (GInt GPlus (zs "5")));
                                      (0%nat, GLit (GInt GMinus (zs "5"))); (1%nat, GLit (GHex (zs "ff0")))] CList));
     (4%nat, GAssoc (GRune (PChar 97)) 1
               (GMulti [(8%nat, GLit (GFloat (mkGF GNoSign (zs "0") (zs "5") None)));
                        (8%nat, GLit (GFloat (mkGF GMinus (zs "12") (zs "25") (Some (101, false, zs "3")))));
                        (8%nat, GLit (GFloat (mkGF GPlus (zs "1") (zs "0") (Some (69, true, zs "2")))));
                        (8%nat, GLit (GComplex (mkGF GNoSign (zs "1") (zs "0") None) true (mkGF GMinus (zs "2") (zs "0") None)))]
                       4 CArray));
     (4%nat, GAssoc (GInt GMinus (zs "1")) 0
               (GInline (GLit (GRune (PEsc 110))) [(1%nat, GLit (GRune (PEsc 39))); (1%nat, GLit (GRune (PHex 120 (zs "41"))));
                                                   (1%nat, GLit (GRune (PHex 117 (zs "00e9")))); (1%nat, GLit (GRune (PHex 85 (zs "0001f600"))));
                                                   (1%nat, GLit (GRune (PChar 233)))] CStack));
     (4%nat, GAssoc (GBool true) 1 (GInline (GLit GNil) [(1%nat, GLit (GBool false)); (1%nat, GEmpty false 1 CQueue); (1%nat, GEmpty true 0 CMap)] CList));
     (4%nat, GAssoc (GHex (zs "0")) 2 (GInline (GAssoc (GStr []) 1 (GLit (GInt GNoSign (zs "3")))) [(1%nat, GAssoc (GStr []) 1 (GLit (GInt GNoSign (zs "4"))))] CMap));
     (4%nat, GAssoc GNil 1 (GInline (GLit (GInt GNoSign (zs "2"))) [(0%nat, GLit (GInt GNoSign (zs "1"))); (0%nat, GLit (GInt GNoSign (zs "2")))] CSet))]
    0 CCatalog.
Example C11_ex_text_hypotheses :
  wf_gtree gx_tree = true /\ exact_literals gx_fparse gx_tree = true /\
  gdenote gx_fparse (default_crank []) gx_tree =
  Some (VMapping MCatalog
          [VStr [107; 34; 255; 195; 169; 195; 169]; VRune 97; VInt 64 (-1); VBool true; VUint 64 0; VNil]
          [VSeq KList [VInt 64 0; VInt 64 17; VInt 64 5; VInt 64 (-5); VUint 64 4080];
           VSeq KArray [VFloat 64 4602678819172646912; VFloat 64 13891332159903367168; VFloat 64 4576918229304087675;
                        VComplex 128 4607182418800017408 4611686018427387904 0 0];
           VSeq KStack [VRune 10; VRune 39; VRune 65; VRune 233; VRune 128512; VRune 233];
           VSeq KList [VNil; VBool false; VSeq KQueue []; VMapping MMap [] []];
           VMapping MMap [VStr []] [VInt 64 4];
           VSeq KSet [VInt 64 1; VInt 64 2]]).
Proof. vm_compute. repeat split; reflexivity. Qed.
(* its text, and the same value by running the scanner / parser models on it *)
Example C11_ex_text :
  gtext gx_tree 1 = zs "[
    ""k\""\xff\u00e9" ++ [233] ++ zs """: [0, 17, +5,-5, 0xff0](List)
    'a': [
        0.5
        -12.25e+3
        +1.0E-2
        (1.0--2.0i)
    ](Array)
    -1:['\n', '\'', '\x41', '\u00e9', '\U0001f600', '" ++ [233] ++ zs "'](Stack)
    true: [nil, false, [ ](Queue), [:](Map)](List)
    0x0:  ["""": 3, """": 4](Map)
    nil: [2,1,2](Set)
](Catalog)
" /\
  parse_source gx_fparse (default_crank []) (gtext gx_tree 1) = option_rect (fun _ => outcome) PValue POutOfFuel (gdenote gx_fparse (default_crank []) gx_tree).
Proof. vm_compute. split; reflexivity. Qed.
(* inexact literals of every kind, as the only item of a list: rejected, located *)
Example C11_ex_inexact_literals :
  lit_value gx_fparse (GInt GNoSign (zs "9223372036854775808")) = None /\
  lit_value gx_fparse (GInt GMinus (zs "9223372036854775808")) = Some (VInt 64 (-9223372036854775808)) /\
  lit_value gx_fparse (GHex (zs "10000000000000000")) = None /\
  lit_value gx_fparse (GFloat (mkGF GNoSign (zs "1") (zs "0") (Some (101, false, zs "999")))) = None /\
  lit_value gx_fparse (GRune (PHex 117 (zs "d800"))) = None /\ lit_value gx_fparse (GRune (PHex 85 (zs "00110000"))) = None /\
  lit_value gx_fparse (GRune (PEsc 34)) = None /\ lit_value gx_fparse (GStr [PEsc 39]) = None /\
  lit_value gx_fparse (GStr [PHex 117 (zs "d800")]) = None /\
  wf_lit (GRune (PHex 117 (zs "d800"))) = true /\
  parse_source gx_fparse (default_crank []) (gtext (GInline (GLit (GRune (PHex 117 (zs "d800")))) [] CSet) 0)
  = PSyntax (mkTok TRune (zs "'\ud800'") 1 2).
Proof. vm_compute. repeat split; reflexivity. Qed.

(* an inexact literal deep inside: the second item of a List that is the value of the second entry of a
   multi-line Catalog — bad_at holds, and the diagnostic (line 3, position 14) by running both models *)
Definition gx_bad : glit := GInt GNoSign (zs "99999999999999999999").
Definition gx_bad_tree : gtree :=
  GMulti [(4%nat, GAssoc (GStr [PChar 97]) 1 (GLit GNil));
          (4%nat, GAssoc (GRune (PChar 98)) 1 (GInline (GLit GZero) [(1%nat, GLit gx_bad); (1%nat, GLit (GBool true))] CList))] 0 CCatalog.
Example C11_ex_inexact_anywhere :
  (exists pre, GrammarReject.bad_at (fun _ => None) (default_crank []) gx_bad gx_bad_tree pre) /\
  wf_gtree gx_bad_tree = true /\ lit_value (fun _ => None) gx_bad = None /\
  parse_source (fun _ => None) (default_crank []) (gtext gx_bad_tree 1) = PSyntax (mkTok TInteger (zs "99999999999999999999") 3 14).
Proof.
  split.
  - eexists. unfold gx_bad_tree.
    eapply GrammarReject.ba_multi with (before := [(4%nat, GAssoc (GStr [PChar 97]) 1 (GLit GNil))]) (after := []); [vm_compute; reflexivity|].
    eapply GrammarReject.ba_val; [vm_compute; reflexivity|].
    eapply GrammarReject.ba_later with (before := []) (after := [(1%nat, GLit (GBool true))]); [vm_compute; reflexivity|reflexivity|].
    apply GrammarReject.ba_lit.
  - vm_compute. repeat split; reflexivity.
Qed.

Print Assumptions C11_parse_depends_on_tokens.
Print Assumptions C11_calls_independent.
Print Assumptions C11_literal_exact.
Print Assumptions C11_accepted_consumes_all.
Print Assumptions C11_literal_rejected_is_located.
Print Assumptions C11_literal_accepted_with_its_value.
Print Assumptions C11_integer_meaning_unsigned.
Print Assumptions C11_integer_meaning_plus.
Print Assumptions C11_integer_meaning_minus.
Print Assumptions C11_hexadecimal_meaning.
Print Assumptions C11_integer_range.
Print Assumptions C11_hexadecimal_range.
Print Assumptions C11_parser_complete.
Print Assumptions C11_parser_complete_source.
Print Assumptions C11_derivation_complete.
Print Assumptions C11_parser_complete_partial.
Print Assumptions C11_accepts_means.
Print Assumptions C11_parser_sound_partial.
Print Assumptions C11_first_integer.
Print Assumptions C11_first_hexadecimal.
Print Assumptions C11_first_type.
Print Assumptions C11_first_delimiter.
Print Assumptions C11_first_open_paren_before_type.
Print Assumptions C11_first_float.
Print Assumptions C11_first_rune_plain.
Print Assumptions C11_first_rune_simple_escape.
Print Assumptions C11_first_string_escaped.
Print Assumptions C11_first_complex.
Print Assumptions C11_first_rune_x.
Print Assumptions C11_first_rune_u.
Print Assumptions C11_first_rune_U.
Print Assumptions C11_first_string_full.
Print Assumptions C11_lex_render.
Print Assumptions C11_place_strip.
Print Assumptions C11_parse_render.
Print Assumptions C11_dcoll_strip.
Print Assumptions C11_parse_render_strip.
Print Assumptions C11_first_words.
Print Assumptions C11_literal_meaning.
Print Assumptions C11_literal_scanned.
Print Assumptions C11_text_scannable.
Print Assumptions C11_text_complete.
Print Assumptions C11_inexact_literal_rejected.
Print Assumptions C11_inexact_key_rejected.
Print Assumptions C11_prefix_bad_literal.
Print Assumptions C11_inexact_literal_rejected_anywhere.
