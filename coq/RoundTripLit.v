(* RoundTripLit.v — the literal inverses of the CDCN round trip (property C10): what the
   parser's conversions (Literals.v: strconv.ParseInt / ParseUint / UnquoteChar / Unquote) make
   of the texts the formatter writes (Formatter.v: strconv.FormatInt / FormatUint / QuoteRune /
   Quote), for ALL inputs of each class:
     parse_int  (dec_text z)  = Some z      for every z (range: int64),
     parse_hex  (hex_text z)  = Some z      for 0 <= z < 2^64,
     rune_value (quote_rune r) = Some r     for every valid rune (whatever IsPrint answers),
     string_value (quote_str s) = Some s    for every byte string, valid UTF-8 or not,
     booleans, nil.
   Floats and complex numbers go through the two strconv oracles; see RoundTripTok.v. *)
From Coq Require Import String Ascii.
From Verif Require Import Base Params Value Formatter FormatSpec FormatText Lexer Literals.
Close Scope string_scope.
Open Scope Z_scope.

(* ================= decimal and hexadecimal digits ================= *)
Lemma hexval_hexdig d : 0 <= d < 16 -> hexval (hexdig d) = Some d.
Proof.
  intros H. unfold hexval, hexdig, is_digit. destruct (d <? 10) eqn:E.
  - apply Z.ltb_lt in E.
    replace ((48 <=? 48 + d) && (48 + d <=? 57)) with true
      by (symmetry; apply andb_true_iff; split; apply Z.leb_le; lia).
    f_equal. lia.
  - apply Z.ltb_ge in E.
    replace ((48 <=? 87 + d) && (87 + d <=? 57)) with false
      by (symmetry; apply andb_false_iff; right; apply Z.leb_gt; lia).
    replace ((97 <=? 87 + d) && (87 + d <=? 102)) with true
      by (symmetry; apply andb_true_iff; split; apply Z.leb_le; lia).
    f_equal. lia.
Qed.

Lemma is_digit_hexdig d : 0 <= d < 10 -> is_digit (hexdig d) = true.
Proof. exact (digit_hexdig d). Qed.

Lemma pow2_half z f : 0 <= z < 2 ^ Z.of_nat (S f) -> forall b, 2 <= b -> 0 <= z / b < 2 ^ Z.of_nat f.
Proof.
  intros Hz b Hb. rewrite Nat2Z.inj_succ, Z.pow_succ_r in Hz by lia.
  assert (0 < 2 ^ Z.of_nat f) by (apply Z.pow_pos_nonneg; lia).
  split; [apply Z.div_pos; lia|]. apply Z.div_lt_upper_bound; [lia|]. nia.
Qed.

(* the decimal value of the digits written by FormatInt's loop *)
Lemma dec_val_digits fuel : forall z acc, 0 <= z < 2 ^ Z.of_nat fuel ->
  exists m, forall a, dec_val a (digits_fuel fuel 10 z acc) = dec_val (a * m + z) acc.
Proof.
  induction fuel as [|f IH]; intros z acc Hz.
  - simpl in Hz. exists 1. intros a. simpl. f_equal. lia.
  - cbn [digits_fuel].
    assert (Hm : 0 <= z mod 10 < 10) by (apply Z.mod_pos_bound; lia).
    destruct (z / 10 =? 0) eqn:E.
    + apply Z.eqb_eq in E. assert (Hs : z < 10) by (apply Z.div_small_iff in E; lia).
      exists 10. intros a. cbn [dec_val]. f_equal. rewrite Z.mod_small by lia. unfold hexdig.
      replace (z <? 10) with true by (symmetry; apply Z.ltb_lt; lia). lia.
    + destruct (IH (z / 10) (hexdig (z mod 10) :: acc) (pow2_half z f Hz 10 ltac:(lia))) as [m Hm'].
      exists (m * 10). intros a. rewrite Hm'. cbn [dec_val]. f_equal. unfold hexdig.
      replace (z mod 10 <? 10) with true by (symmetry; apply Z.ltb_lt; lia).
      pose proof (Z.div_mod z 10 ltac:(lia)). lia.
Qed.

Lemma digits_fuel_all_digits fuel : forall z acc, 0 <= z -> forallb is_digit acc = true ->
  forallb is_digit (digits_fuel fuel 10 z acc) = true.
Proof.
  induction fuel as [|f IH]; intros z acc Hz Ha; [exact Ha|]. cbn [digits_fuel].
  assert (Hm : 0 <= z mod 10 < 10) by (apply Z.mod_pos_bound; lia).
  assert (Ha' : forallb is_digit (hexdig (z mod 10) :: acc) = true)
    by (cbn [forallb]; rewrite (is_digit_hexdig _ Hm), Ha; reflexivity).
  destruct (z / 10 =? 0); [exact Ha'|]. apply IH; [apply Z.div_pos; lia|exact Ha'].
Qed.

Lemma log2_fuel z : 0 <= z -> 0 <= z < 2 ^ Z.of_nat (S (Z.to_nat (Z.log2 z))).
Proof.
  intros Hz. split; [exact Hz|].
  rewrite Nat2Z.inj_succ, Z2Nat.id by (apply Z.log2_nonneg).
  destruct (Z.eq_dec z 0) as [->|Hn]; [reflexivity|]. apply Z.log2_spec. lia.
Qed.

Lemma dec_val_digits10 z : 0 <= z -> dec_val 0 (digits 10 z) = z.
Proof.
  intros Hz. unfold digits. destruct (dec_val_digits _ z [] (log2_fuel z Hz)) as [m Hm].
  rewrite Hm. simpl. lia.
Qed.
Lemma all_digits_digits10 z : 0 <= z -> all_digits (digits 10 z) = true.
Proof. intros Hz. unfold all_digits, digits. apply digits_fuel_all_digits; auto. Qed.
Lemma digits_nonempty base z : digits base z <> [].
Proof.
  unfold digits. cbn [digits_fuel]. destruct (z / base =? 0); [discriminate|].
  intros E. pose proof (digits_fuel_nonempty (Z.to_nat (Z.log2 z)) base (z / base) [hexdig (z mod base)] eq_refl) as H.
  rewrite E in H. discriminate.
Qed.

Lemma parse_int_neg ds : ds <> [] -> all_digits ds = true ->
  parse_int (45 :: ds) =
  (let v := - dec_val 0 ds in if (min_int64 <=? v) && (v <=? max_int64) then Some v else None).
Proof.
  intros Hne Ha. destruct ds as [|d r]; [contradiction|]. unfold parse_int.
  change (45 =? 45) with true. change (is_sign 45) with true. cbv iota. rewrite Ha. reflexivity.
Qed.
Lemma parse_int_pos ds : ds <> [] -> all_digits ds = true ->
  parse_int ds =
  (let v := dec_val 0 ds in if (min_int64 <=? v) && (v <=? max_int64) then Some v else None).
Proof.
  intros Hne Ha. destruct ds as [|d r]; [contradiction|]. unfold parse_int.
  assert (Hd : is_digit d = true) by (unfold all_digits in Ha; cbn [forallb] in Ha; apply andb_true_iff in Ha; tauto).
  assert (Hd' : 48 <= d <= 57) by (unfold is_digit in Hd; apply andb_true_iff in Hd as [A B]; apply Z.leb_le in A; apply Z.leb_le in B; lia).
  replace (d =? 45) with false by (symmetry; apply Z.eqb_neq; lia).
  replace (is_sign d) with false by (symmetry; unfold is_sign; apply orb_false_iff; split; apply Z.eqb_neq; lia).
  rewrite Ha. reflexivity.
Qed.

(* INVERSE, decimal: strconv.ParseInt(strconv.FormatInt(z, 10), 10, 64) = z for every int64 *)
Theorem parse_int_dec_text z : min_int64 <= z <= max_int64 -> parse_int (dec_text z) = Some z.
Proof.
  intros Hr. unfold dec_text.
  assert (Hin : forall v, v = z -> (if (min_int64 <=? v) && (v <=? max_int64) then Some v else None) = Some z).
  { intros v ->. replace ((min_int64 <=? z) && (z <=? max_int64)) with true; [reflexivity|].
    symmetry. apply andb_true_iff. split; apply Z.leb_le; lia. }
  destruct (z <? 0) eqn:E.
  - apply Z.ltb_lt in E.
    rewrite parse_int_neg; [|apply digits_nonempty|apply all_digits_digits10; lia].
    cbv zeta. apply Hin. rewrite dec_val_digits10 by lia. lia.
  - apply Z.ltb_ge in E.
    rewrite parse_int_pos; [|apply digits_nonempty|apply all_digits_digits10; lia].
    cbv zeta. apply Hin. apply dec_val_digits10. lia.
Qed.

(* hexadecimal *)
Lemma hex_val_digits fuel : forall z acc, 0 <= z < 2 ^ Z.of_nat fuel ->
  exists m, forall a, hex_val a (digits_fuel fuel 16 z acc) = hex_val (a * m + z) acc.
Proof.
  induction fuel as [|f IH]; intros z acc Hz.
  - simpl in Hz. exists 1. intros a. simpl. f_equal. lia.
  - cbn [digits_fuel].
    assert (Hm : 0 <= z mod 16 < 16) by (apply Z.mod_pos_bound; lia).
    destruct (z / 16 =? 0) eqn:E.
    + apply Z.eqb_eq in E. assert (Hs : z < 16) by (apply Z.div_small_iff in E; lia).
      exists 16. intros a. cbn [hex_val]. rewrite (hexval_hexdig _ Hm). f_equal. rewrite Z.mod_small by lia. lia.
    + destruct (IH (z / 16) (hexdig (z mod 16) :: acc) (pow2_half z f Hz 16 ltac:(lia))) as [m Hm'].
      exists (m * 16). intros a. rewrite Hm'. cbn [hex_val]. rewrite (hexval_hexdig _ Hm). f_equal.
      pose proof (Z.div_mod z 16 ltac:(lia)). lia.
Qed.

(* INVERSE, hexadecimal: strconv.ParseUint(strconv.FormatUint(z, 16), 16, 64) = z for every uint64 *)
Theorem parse_hex_hex_text z : 0 <= z < two64 -> parse_hex (hex_text z) = Some z.
Proof.
  intros Hr. unfold hex_text, parse_hex. cbn [skipn]. rewrite Z.abs_eq by lia.
  pose proof (digits_nonempty 16 z) as Hne.
  destruct (digits 16 z) as [|d r] eqn:Ed; [contradiction|]. rewrite <- Ed.
  unfold digits. destruct (hex_val_digits _ z [] (log2_fuel z ltac:(lia))) as [m Hm].
  rewrite Hm. cbn [hex_val]. replace (0 * m + z) with z by lia.
  replace (z <? two64) with true by (symmetry; apply Z.ltb_lt; lia). reflexivity.
Qed.

(* booleans and nil *)
Lemma parse_bool_text (b : bool) : parse_bool (if b then s2z "true"%string else s2z "false"%string) = b.
Proof. destruct b; reflexivity. Qed.

(* ================= runes: UnquoteChar after appendEscapedRune ================= *)
Lemma uq_hex2 q a b x y tail : q = 34 \/ q = 39 -> hexval a = Some x -> hexval b = Some y ->
  unquote_char q (92 :: 120 :: a :: b :: tail) = Some (x * 16 + y, false, tail).
Proof.
  intros Hq Ha Hb. destruct Hq; subst q; unfold unquote_char; cbn -[hexval Z.mul Z.add]; rewrite Ha, Hb; reflexivity.
Qed.

Lemma uq_hex4 q a b c d x y z w tail : q = 34 \/ q = 39 ->
  hexval a = Some x -> hexval b = Some y -> hexval c = Some z -> hexval d = Some w ->
  unquote_char q (92 :: 117 :: a :: b :: c :: d :: tail) =
  (let v := ((x * 16 + y) * 16 + z) * 16 + w in if valid_rune v then Some (v, true, tail) else None).
Proof.
  intros Hq Ha Hb Hc Hd. destruct Hq; subst q; unfold unquote_char; cbn -[hexval Z.mul Z.add valid_rune];
    rewrite Ha; cbn -[hexval Z.mul Z.add valid_rune]; rewrite Hb; cbn -[hexval Z.mul Z.add valid_rune];
    rewrite Hc; cbn -[hexval Z.mul Z.add valid_rune]; rewrite Hd; reflexivity.
Qed.

Lemma uq_hex8 q a b c d e f g h x y z w x2 y2 z2 w2 tail : q = 34 \/ q = 39 ->
  hexval a = Some x -> hexval b = Some y -> hexval c = Some z -> hexval d = Some w ->
  hexval e = Some x2 -> hexval f = Some y2 -> hexval g = Some z2 -> hexval h = Some w2 ->
  unquote_char q (92 :: 85 :: a :: b :: c :: d :: e :: f :: g :: h :: tail) =
  (let v := ((((((x * 16 + y) * 16 + z) * 16 + w) * 16 + x2) * 16 + y2) * 16 + z2) * 16 + w2 in
   if valid_rune v then Some (v, true, tail) else None).
Proof.
  intros Hq Ha Hb Hc Hd He Hf Hg Hh.
  destruct Hq; subst q; unfold unquote_char; cbn -[hexval Z.mul Z.add valid_rune];
    rewrite Ha; cbn -[hexval Z.mul Z.add valid_rune]; rewrite Hb; cbn -[hexval Z.mul Z.add valid_rune];
    rewrite Hc; cbn -[hexval Z.mul Z.add valid_rune]; rewrite Hd; cbn -[hexval Z.mul Z.add valid_rune];
    rewrite He; cbn -[hexval Z.mul Z.add valid_rune]; rewrite Hf; cbn -[hexval Z.mul Z.add valid_rune];
    rewrite Hg; cbn -[hexval Z.mul Z.add valid_rune]; rewrite Hh; reflexivity.
Qed.

Lemma hv_mod r : hexval (hexdig (r mod 16)) = Some (r mod 16).
Proof. apply hexval_hexdig. apply Z.mod_pos_bound. lia. Qed.

Lemma valid_rune_same r : Literals.valid_rune r = Formatter.valid_rune r.
Proof. reflexivity. Qed.

Lemma valid_rune_range r : Formatter.valid_rune r = true -> 0 <= r <= 1114111.
Proof.
  unfold Formatter.valid_rune. intros H. apply orb_true_iff in H as [H|H]; apply andb_true_iff in H as [A B].
  - apply Z.leb_le in A. apply Z.ltb_lt in B. lia.
  - apply Z.leb_le in A. apply Z.leb_le in B. lia.
Qed.

Section Quoting.
Variable printable : Z -> bool.

(* UnquoteChar gives back the rune appendEscapedRune was given, and everything behind it; the
   result counts as multibyte whenever the rune is not ASCII *)
Lemma unquote_esc q r tail : q = 34 \/ q = 39 -> Formatter.valid_rune r = true ->
  exists mb, unquote_char q (esc_rune printable q r ++ tail) = Some (r, mb, tail) /\ (128 <= r -> mb = true).
Proof.
  intros Hq Hv. pose proof (valid_rune_range r Hv) as Hr. unfold esc_rune.
  destruct ((r =? q) || (r =? 92)) eqn:E0.
  { apply orb_true_iff in E0 as [E|E]; apply Z.eqb_eq in E; subst r;
      destruct Hq; subst q; exists false; (split; [reflexivity|lia]). }
  apply orb_false_iff in E0 as [Eq E92].
  destruct (is_print printable r) eqn:Ep.
  { cbn [app]. unfold unquote_char. rewrite Eq. destruct (128 <=? r) eqn:E128.
    - exists true. split; auto.
    - rewrite E92. cbn [negb]. exists false. split; [reflexivity|]. apply Z.leb_gt in E128. lia. }
  assert (Hs : forall c v, v < 128 ->
             (forall t, unquote_char q (92 :: c :: t) = Some (v, false, t)) -> r = v ->
             exists mb, unquote_char q ([92; c] ++ tail) = Some (r, mb, tail) /\ (128 <= r -> mb = true)).
  { intros c v Hv' Hu ->. exists false. split; [apply Hu|lia]. }
  destruct (r =? 7) eqn:E7; [apply Z.eqb_eq in E7; apply (Hs 97 7); auto; [lia|]; intros t; destruct Hq; subst q; reflexivity|].
  destruct (r =? 8) eqn:E8; [apply Z.eqb_eq in E8; apply (Hs 98 8); auto; [lia|]; intros t; destruct Hq; subst q; reflexivity|].
  destruct (r =? 12) eqn:E12; [apply Z.eqb_eq in E12; apply (Hs 102 12); auto; [lia|]; intros t; destruct Hq; subst q; reflexivity|].
  destruct (r =? 10) eqn:E10; [apply Z.eqb_eq in E10; apply (Hs 110 10); auto; [lia|]; intros t; destruct Hq; subst q; reflexivity|].
  destruct (r =? 13) eqn:E13; [apply Z.eqb_eq in E13; apply (Hs 114 13); auto; [lia|]; intros t; destruct Hq; subst q; reflexivity|].
  destruct (r =? 9) eqn:E9; [apply Z.eqb_eq in E9; apply (Hs 116 9); auto; [lia|]; intros t; destruct Hq; subst q; reflexivity|].
  destruct (r =? 11) eqn:E11; [apply Z.eqb_eq in E11; apply (Hs 118 11); auto; [lia|]; intros t; destruct Hq; subst q; reflexivity|].
  destruct ((r <? 32) || (r =? 127)) eqn:Ec.
  { assert (Hlt : r < 128).
    { apply orb_true_iff in Ec as [A|A]; [apply Z.ltb_lt in A|apply Z.eqb_eq in A]; lia. }
    cbn [hex_fixed app].
    rewrite (uq_hex2 q _ _ _ _ tail Hq (hv_mod _) (hv_mod _)).
    exists false. split; [|lia]. f_equal. f_equal. f_equal.
    rewrite (Z.mod_small r 256) by lia. Z.div_mod_to_equations. lia. }
  rewrite Hv. cbn [negb].
  destruct (r <? 65536) eqn:E16.
  { apply Z.ltb_lt in E16. cbn [hex_fixed app].
    rewrite (uq_hex4 q _ _ _ _ _ _ _ _ tail Hq (hv_mod _) (hv_mod _) (hv_mod _) (hv_mod _)). cbv zeta.
    assert (Ev : ((r / 16 / 16 / 16 mod 16 * 16 + r / 16 / 16 mod 16) * 16 + r / 16 mod 16) * 16 + r mod 16 = r)
      by (Z.div_mod_to_equations; lia).
    rewrite Ev, valid_rune_same, Hv. exists true. split; auto. }
  apply Z.ltb_ge in E16. cbn [hex_fixed app].
  rewrite (uq_hex8 q _ _ _ _ _ _ _ _ _ _ _ _ _ _ _ _ tail Hq (hv_mod _) (hv_mod _) (hv_mod _) (hv_mod _)
             (hv_mod _) (hv_mod _) (hv_mod _) (hv_mod _)). cbv zeta.
  assert (Ev : ((((((r / 16 / 16 / 16 / 16 / 16 / 16 / 16 mod 16 * 16 + r / 16 / 16 / 16 / 16 / 16 / 16 mod 16) * 16
                    + r / 16 / 16 / 16 / 16 / 16 mod 16) * 16 + r / 16 / 16 / 16 / 16 mod 16) * 16
                  + r / 16 / 16 / 16 mod 16) * 16 + r / 16 / 16 mod 16) * 16 + r / 16 mod 16) * 16 + r mod 16 = r)
    by (Z.div_mod_to_equations; lia).
  rewrite Ev, valid_rune_same, Hv. exists true. split; auto.
Qed.

(* INVERSE, runes: the value of the rune literal strconv.QuoteRune writes for a valid rune is
   that rune — for every valid rune and whatever strconv.IsPrint answers.  (For an INVALID
   rune — a surrogate, a negative number, above U+10FFFF — QuoteRune writes U+FFFD, which is
   why FormatSpec.leaf_class puts those outside the round-trip universe.) *)
Theorem rune_value_quote_rune r : Formatter.valid_rune r = true ->
  rune_value (quote_rune printable r) = Some r.
Proof.
  intros Hv. unfold quote_rune. rewrite Hv. unfold rune_value. rewrite Z.eqb_refl.
  destruct (unquote_esc 39 r [39] (or_intror eq_refl) Hv) as [mb [Hu _]]. rewrite Hu. reflexivity.
Qed.

Theorem rune_value_invalid_refuted :
  exists r, Formatter.valid_rune r = false /\ rune_value (quote_rune (fun _ => true) r) = Some 65533.
Proof. exists 55296. split; reflexivity. Qed.

(* ================= strings: Unquote after Quote ================= *)
(* the first rune of what appendEscapedRune writes inside a string is neither the closing quote
   nor a newline *)
Lemma esc_rune_head r : exists c t, esc_rune printable 34 r = c :: t /\ (c =? 34) = false /\ (c =? 10) = false.
Proof.
  unfold esc_rune.
  destruct ((r =? 34) || (r =? 92)) eqn:E0; [exists 92, [r]; auto|].
  apply orb_false_iff in E0 as [Eq E92].
  destruct (is_print printable r) eqn:Ep; [exists r, []; repeat split; auto; apply (is_print_not_nl printable r Ep)|].
  destruct (r =? 7); [eexists _, _; split; [reflexivity|split; reflexivity]|].
  destruct (r =? 8); [eexists _, _; split; [reflexivity|split; reflexivity]|].
  destruct (r =? 12); [eexists _, _; split; [reflexivity|split; reflexivity]|].
  destruct (r =? 10); [eexists _, _; split; [reflexivity|split; reflexivity]|].
  destruct (r =? 13); [eexists _, _; split; [reflexivity|split; reflexivity]|].
  destruct (r =? 9); [eexists _, _; split; [reflexivity|split; reflexivity]|].
  destruct (r =? 11); [eexists _, _; split; [reflexivity|split; reflexivity]|].
  destruct ((r <? 32) || (r =? 127)); [eexists _, _; split; [reflexivity|split; reflexivity]|].
  destruct (negb (Formatter.valid_rune r)); [eexists _, _; split; [reflexivity|split; reflexivity]|].
  destruct (r <? 65536); eexists _, _; (split; [reflexivity|split; reflexivity]).
Qed.

(* one round of Unquote's loop over a rune written by appendEscapedRune *)
Lemma unq_step_esc r rest f acc : Formatter.valid_rune r = true -> (length rest <= f)%nat ->
  unq_loop (S f) (esc_rune printable 34 r ++ rest) acc =
  unq_loop f rest (acc ++ (if r <? 128 then [r] else utf8 r)).
Proof.
  intros Hv Hf. destruct (esc_rune_head r) as [c [t [Ee [H34 H10]]]].
  destruct (unquote_esc 34 r rest (or_introl eq_refl) Hv) as [mb [Hu Hmb]].
  cbn [unq_loop]. rewrite Ee in *. cbn [app] in *. rewrite H34, H10, Hu.
  f_equal. f_equal. unfold char_bytes. destruct (r <? 128) eqn:E; [reflexivity|].
  apply Z.ltb_ge in E. rewrite (Hmb ltac:(lia)). reflexivity.
Qed.

(* ... and over a byte written as \xNN *)
Lemma unq_step_bad b rest f acc : 0 <= b < 256 ->
  unq_loop (S f) (92 :: 120 :: hex_fixed 2 (b mod 256) rest) acc = unq_loop f rest (acc ++ [b]).
Proof.
  intros Hb. cbn [hex_fixed unq_loop]. cbn [Z.eqb Pos.eqb].
  rewrite (uq_hex2 34 _ _ _ _ rest (or_introl eq_refl) (hv_mod _) (hv_mod _)).
  f_equal. f_equal. unfold char_bytes. cbn [negb orb]. rewrite orb_true_r. f_equal.
  rewrite (Z.mod_small b 256) by lia. Z.div_mod_to_equations. lia.
Qed.

Lemma cont_range b : cont b = true -> 128 <= b <= 191.
Proof. unfold cont. intros H. apply andb_true_iff in H as [A B]. apply Z.leb_le in A. apply Z.leb_le in B. lia. Qed.
Lemma range_of a b c : (a <=? b) && (b <=? c) = true -> a <= b <= c.
Proof. intros H. apply andb_true_iff in H as [A B]. apply Z.leb_le in A. apply Z.leb_le in B. lia. Qed.

Definition is_byte (b : Z) : bool := (0 <=? b) && (b <? 256).
Lemma is_byte_range b : is_byte b = true -> 0 <= b < 256.
Proof. unfold is_byte. intros H. apply andb_true_iff in H as [A B]. apply Z.leb_le in A. apply Z.ltb_lt in B. lia. Qed.

Lemma valid_of_range r : (0 <= r < 55296 \/ 57344 <= r <= 1114111) -> Formatter.valid_rune r = true.
Proof.
  intros H. unfold Formatter.valid_rune. apply orb_true_iff.
  destruct H as [H|H]; [left|right]; apply andb_true_iff; split; try apply Z.leb_le; try apply Z.ltb_lt; lia.
Qed.

Lemma utf8_eval r : Formatter.valid_rune r = true ->
  utf8 r = if r <? 128 then [r]
           else if r <? 2048 then [192 + r / 64; 128 + r mod 64]
           else if r <? 65536 then [224 + r / 4096; 128 + (r / 64) mod 64; 128 + r mod 64]
           else [240 + r / 262144; 128 + (r / 4096) mod 64; 128 + (r / 64) mod 64; 128 + r mod 64].
Proof. intros H. unfold utf8. rewrite valid_rune_same, H. reflexivity. Qed.

(* Unquote's loop gives back the bytes Quote's loop consumed, sequence by sequence *)
Lemma unq_quote_body : forall n s, (length s <= n)%nat -> forallb is_byte s = true ->
  forall f acc, (length (quote_body printable s) < f)%nat ->
  unq_loop f (quote_body printable s ++ [34]) acc = Some (acc ++ s).
Proof.
  induction n as [|n IH]; intros s Hlen Hb f acc Hf.
  - destruct s; [|simpl in Hlen; lia]. destruct f; [simpl in Hf; lia|]. simpl. rewrite app_nil_r. reflexivity.
  - destruct s as [|b0 t].
    { destruct f; [simpl in Hf; lia|]. simpl. rewrite app_nil_r. reflexivity. }
    cbn [length] in Hlen. cbn [forallb] in Hb. apply andb_true_iff in Hb as [Hb0 Hbt].
    pose proof (is_byte_range _ Hb0) as R0.
    (* the two ways a round can go *)
    assert (Good : forall r used t', b0 :: t = used ++ t' -> (length t' <= n)%nat -> forallb is_byte t' = true ->
              Formatter.valid_rune r = true -> (if r <? 128 then [r] else utf8 r) = used ->
              quote_body printable (b0 :: t) = esc_rune printable 34 r ++ quote_body printable t' ->
              unq_loop f (quote_body printable (b0 :: t) ++ [34]) acc = Some (acc ++ b0 :: t)).
    { intros r used t' Esplit Hl' Hb' Hv Hu Eq. rewrite Eq in *. rewrite <- app_assoc.
      destruct f as [|f']; [simpl in Hf; lia|].
      destruct (esc_rune_head r) as [c [tt [Ee _]]].
      assert (Hf' : (length (quote_body printable t') < f')%nat).
      { rewrite app_length, Ee in Hf. cbn [length] in Hf. lia. }
      rewrite unq_step_esc; [|exact Hv|rewrite app_length; cbn [length]; lia].
      rewrite (IH t' Hl' Hb' f' _ Hf'), Hu, <- app_assoc, Esplit. reflexivity. }
    assert (Bad : quote_body printable (b0 :: t) = 92 :: 120 :: hex_fixed 2 (b0 mod 256) (quote_body printable t) ->
              unq_loop f (quote_body printable (b0 :: t) ++ [34]) acc = Some (acc ++ b0 :: t)).
    { intros Eq. rewrite Eq in *.
      destruct f as [|f']; [simpl in Hf; lia|].
      assert (Hf' : (length (quote_body printable t) < f')%nat) by (cbn [hex_fixed length] in Hf; lia).
      change ((92 :: 120 :: hex_fixed 2 (b0 mod 256) (quote_body printable t)) ++ [34])
        with (92 :: 120 :: hex_fixed 2 (b0 mod 256) (quote_body printable t ++ [34])).
      rewrite unq_step_bad by exact R0.
      rewrite (IH t ltac:(lia) Hbt f' _ Hf'), <- app_assoc. reflexivity. }
    cbn [quote_body] in Good, Bad |- *.
    destruct (b0 <? 128) eqn:E1.
    { apply Z.ltb_lt in E1. apply (Good b0 [b0] t); auto; [lia|apply valid_of_range; lia|].
      replace (b0 <? 128) with true by (symmetry; apply Z.ltb_lt; lia). reflexivity. }
    apply Z.ltb_ge in E1.
    destruct ((194 <=? b0) && (b0 <=? 223)) eqn:E2.
    { apply range_of in E2. destruct t as [|b1 t1]; [apply Bad; reflexivity|].
      destruct (cont b1) eqn:C1; [|apply Bad; reflexivity].
      apply cont_range in C1. cbn [forallb] in Hbt. apply andb_true_iff in Hbt as [_ Hbt1]. cbn [length] in Hlen.
      set (r := (b0 - 192) * 64 + (b1 - 128)).
      assert (Hr : 128 <= r < 2048) by (unfold r; lia).
      assert (Hv : Formatter.valid_rune r = true) by (apply valid_of_range; lia).
      apply (Good r [b0; b1] t1); auto; [lia|].
      rewrite (utf8_eval r Hv).
      replace (r <? 128) with false by (symmetry; apply Z.ltb_ge; lia).
      replace (r <? 2048) with true by (symmetry; apply Z.ltb_lt; lia).
      unfold r. f_equal; [|f_equal]; Z.div_mod_to_equations; lia. }
    destruct ((224 <=? b0) && (b0 <=? 239)) eqn:E3.
    { apply range_of in E3. destruct t as [|b1 [|b2 t2]]; try (apply Bad; reflexivity).
      match goal with |- context [if ?c then _ else _] => destruct c eqn:C end; [|apply Bad; reflexivity].
      apply andb_true_iff in C as [C12 C2]. apply range_of in C12. apply cont_range in C2.
      cbn [forallb] in Hbt. apply andb_true_iff in Hbt as [_ Hbt]. apply andb_true_iff in Hbt as [_ Hbt2]. cbn [length] in Hlen.
      set (r := (b0 - 224) * 4096 + (b1 - 128) * 64 + (b2 - 128)).
      assert (Hr : 2048 <= r < 55296 \/ 57344 <= r < 65536).
      { unfold r. destruct (b0 =? 224) eqn:A; [apply Z.eqb_eq in A|apply Z.eqb_neq in A];
          destruct (b0 =? 237) eqn:B; [apply Z.eqb_eq in B|apply Z.eqb_neq in B| apply Z.eqb_eq in B|apply Z.eqb_neq in B]; lia. }
      assert (Hv : Formatter.valid_rune r = true) by (apply valid_of_range; lia).
      apply (Good r [b0; b1; b2] t2); auto; [lia|].
      rewrite (utf8_eval r Hv).
      replace (r <? 128) with false by (symmetry; apply Z.ltb_ge; lia).
      replace (r <? 2048) with false by (symmetry; apply Z.ltb_ge; lia).
      replace (r <? 65536) with true by (symmetry; apply Z.ltb_lt; lia).
      assert (B1 : 128 <= b1 <= 191) by (destruct (b0 =? 224), (b0 =? 237); lia).
      unfold r. f_equal; [|f_equal; [|f_equal]]; Z.div_mod_to_equations; lia. }
    destruct ((240 <=? b0) && (b0 <=? 244)) eqn:E4.
    { apply range_of in E4. destruct t as [|b1 [|b2 [|b3 t3]]]; try (apply Bad; reflexivity).
      match goal with |- context [if ?c then _ else _] => destruct c eqn:C end; [|apply Bad; reflexivity].
      apply andb_true_iff in C as [C C3]. apply andb_true_iff in C as [C12 C2].
      apply range_of in C12. apply cont_range in C2. apply cont_range in C3.
      cbn [forallb] in Hbt. apply andb_true_iff in Hbt as [_ Hbt]. apply andb_true_iff in Hbt as [_ Hbt].
      apply andb_true_iff in Hbt as [_ Hbt3]. cbn [length] in Hlen.
      set (r := (b0 - 240) * 262144 + (b1 - 128) * 4096 + (b2 - 128) * 64 + (b3 - 128)).
      assert (B1 : 128 <= b1 <= 191) by (destruct (b0 =? 240), (b0 =? 244); lia).
      assert (Hr : 65536 <= r <= 1114111).
      { unfold r. destruct (b0 =? 240) eqn:A; [apply Z.eqb_eq in A|apply Z.eqb_neq in A];
          destruct (b0 =? 244) eqn:B; [apply Z.eqb_eq in B|apply Z.eqb_neq in B| apply Z.eqb_eq in B|apply Z.eqb_neq in B]; lia. }
      assert (Hv : Formatter.valid_rune r = true) by (apply valid_of_range; lia).
      apply (Good r [b0; b1; b2; b3] t3); auto; [lia|].
      rewrite (utf8_eval r Hv).
      replace (r <? 128) with false by (symmetry; apply Z.ltb_ge; lia).
      replace (r <? 2048) with false by (symmetry; apply Z.ltb_ge; lia).
      replace (r <? 65536) with false by (symmetry; apply Z.ltb_ge; lia).
      unfold r. f_equal; [|f_equal; [|f_equal; [|f_equal]]]; Z.div_mod_to_equations; lia. }
    apply Bad; reflexivity.
Qed.

(* INVERSE, strings: strconv.Unquote(strconv.Quote(s)) = s for EVERY byte string: valid UTF-8
   sequences are decoded, written (raw when printable, as \uXXXX / \UXXXXXXXX / \a ... \x7f
   otherwise) and encoded back to the same bytes; a byte that starts no valid sequence is
   written as \xNN and comes back as that byte.  Whatever strconv.IsPrint answers. *)
Theorem string_value_quote_str s : forallb is_byte s = true ->
  string_value (quote_str printable s) = Some s.
Proof.
  intros Hb. unfold quote_str, string_value. rewrite Z.eqb_refl.
  apply (unq_quote_body (length s) s (le_n _) Hb (S (length (quote_body printable s ++ [34]))) []).
  rewrite app_length. cbn [length]. lia.
Qed.
End Quoting.

(* ================= non-vacuity ================= *)
Example ex_parse_int_min : parse_int (dec_text (-9223372036854775808)) = Some (-9223372036854775808).
Proof. apply parse_int_dec_text. unfold min_int64, max_int64. lia. Qed.
Example ex_parse_hex_max : parse_hex (hex_text 18446744073709551615) = Some 18446744073709551615.
Proof. apply parse_hex_hex_text. unfold two64. lia. Qed.
Example ex_rune_values :
  rune_value (quote_rune (fun _ => false) 233) = Some 233 /\ rune_value (quote_rune (fun _ => true) 233) = Some 233
  /\ quote_rune (fun _ => false) 233 = s2z "'\u00e9'"%string /\ quote_rune (fun _ => true) 233 = [39; 233; 39] /\ rune_value (quote_rune (fun _ => false) 128512) = Some 128512
  /\ rune_value (quote_rune (fun _ => true) 39) = Some 39 /\ rune_value (quote_rune (fun _ => true) 0) = Some 0.
Proof. vm_compute. repeat split; reflexivity. Qed.
(* "a", a quote, the lone byte 0xff, e-acute (valid UTF-8), NUL, a truncated 3-byte sequence *)
Example ex_string_value :
  string_value (quote_str (fun _ => false) [97; 34; 255; 195; 169; 0; 226; 130]) = Some [97; 34; 255; 195; 169; 0; 226; 130]
  /\ quote_str (fun _ => false) [97; 34; 255; 195; 169; 0; 226; 130] = s2z """a\""\xff\u00e9\x00\xe2\x82"""%string.
Proof. vm_compute. split; reflexivity. Qed.
