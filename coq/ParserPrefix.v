(* ParserPrefix.v — the parser on a PROPER PREFIX of a derivation followed by a token on which it
   stops.  Complete.v says what every parse function does on a whole derivation; here the stream
   is  (complete items) ++ (an item in progress) ++ ...  and the item in progress ends in a token
   [bad] at which parse_value / parse_association STOP with an outcome [o] (an inexact literal:
   parse_intrinsic rejects it with the diagnostic for that token).  The closure lemmas say that
   the stop propagates through every enclosing position of the grammar without the parser
   complaining about an earlier token:
       first item of an inline list, an item after ",", the first / a later item of a multi-line
       list, the value of an association (first or later, inline or multi-line), any nesting.
   [VStop ts]: parse_value stops with o on every stream ts ++ r; [AStop ts]: parse_association does;
   [CStop ts]: parse_collection does.  The earlier items are whole derivations (Complete.dvalue,
   dassoc, dvtail_i, dvtail_m, datail_i, datail_m), handled by C11_derivation_complete. *)
From Coq Require Import String.
From Verif Require Import Base Params Value Coll Lexer Literals Parser ParserProofs Complete.
Close Scope string_scope.
Close Scope Z_scope.

Section Prefix.
Variable fparse : list Z -> option Z.
Variable crank : val -> val -> option comparison.
Variable o : outcome.
Notation pc := (parse_collection fparse crank).

Definition VStop (ts : list token) : Prop := forall f s r,
  P s <= 3 -> stream s = ts ++ r -> length (stream s) < f -> parse_value fparse (pc f) s = Stop o.
Definition AStop (ts : list token) : Prop := forall f s r,
  P s <= 3 -> stream s = ts ++ r -> length (stream s) < f -> parse_association fparse (pc f) s = Stop o.
Definition CStop (ts : list token) : Prop := forall f s r,
  P s <= 3 -> stream s = ts ++ r -> length (stream s) < f -> pc f s = Stop o.

Ltac lens := repeat match goal with H : _ < _ |- _ => revert H end; repeat (rewrite ?app_length; simpl); intros; lia.

Let dcomp := derivation_complete fparse crank.

(* ---------- a collection in progress is a value in progress ---------- *)
Lemma CStop_VStop lb ts : dl 91 lb -> CStop (lb :: ts) -> VStop (lb :: ts).
Proof.
  intros B C f s r HP E Hf. unfold parse_value. simpl in E.
  destruct (intrinsic_no fparse s lb (ts ++ r) HP E (dl_nonerr _ _ B) (dl_not_lit _ _ B)) as (s1 & I & E1 & P1).
  rewrite I. apply (C f s1 r); [lia|exact E1|congruence].
Qed.

(* ---------- the value of an association in progress ---------- *)
Lemma AStop_value k kv c ts : litv fparse k kv -> dl 58 c -> VStop ts -> AStop (k :: c :: ts).
Proof.
  intros L Bc V f s r HP E Hf. simpl in E. unfold parse_association.
  destruct (intrinsic_yes fparse s k _ kv HP E L) as (s1 & I & E1 & P1). rewrite I.
  assert (HP1 : P s1 <= 3) by lia.
  destruct (tok_yes TDelimiter (delim 58) s1 c _ HP1 E1 (dl_nonerr _ _ Bc) (dl_match _ _ Bc)) as (s2 & T2 & E2 & P2).
  rewrite T2. rewrite (V f s2 r); [reflexivity|lia|exact E2|rewrite E2; rewrite E in Hf; lens].
Qed.

(* ---------- the loops in front of an item in progress ---------- *)
(* ("," Value)* "," then a value in progress *)
Lemma loop_vi tail vs : dvtail_i fparse crank tail vs -> forall c X, dl 44 c -> VStop X ->
  forall lf f acc s r, P s <= 3 -> stream s = tail ++ c :: X ++ r -> length (stream s) < lf -> length (stream s) < f ->
  inline_values_loop fparse (pc f) lf acc s = Stop o.
Proof.
  induction 1 as [|c' ts v ts' vs' Bc' DV DT IH]; intros c X Bc V lf f acc s r HP E Hl Hf.
  - simpl in E. destruct lf as [|lf']; [lia|]. simpl.
    destruct (tok_yes TDelimiter (delim 44) s c _ HP E (dl_nonerr _ _ Bc) (dl_match _ _ Bc)) as (s1 & T1 & E1 & P1).
    rewrite T1. rewrite (V f s1 r); [reflexivity|lia|exact E1|rewrite E1; rewrite E in Hf; lens].
  - simpl in E. rewrite <- app_assoc in E. destruct lf as [|lf']; [lia|]. simpl.
    destruct (tok_yes TDelimiter (delim 44) s c' _ HP E (dl_nonerr _ _ Bc') (dl_match _ _ Bc')) as (s1 & T1 & E1 & P1).
    rewrite T1. assert (HP1 : P s1 <= 3) by lia.
    assert (Hf1 : length (stream s1) < f) by (rewrite E1; rewrite E in Hf; lens).
    destruct (proj1 dcomp ts v DV f s1 _ HP1 E1 Hf1) as (t2 & s2 & V2 & E2 & P2). rewrite V2.
    apply (IH c X Bc V lf' f (acc ++ [v]) s2 r P2 E2); [rewrite E2; rewrite E in Hl; lens|rewrite E2; rewrite E in Hf; lens].
Qed.

(* (EOL Value)* EOL then a value in progress: the tokens in front are a Complete.dvtail_m *)
Lemma loop_vm tm vs : dvtail_m fparse crank tm vs -> forall X, VStop X ->
  forall lf f acc s r, P s <= 3 -> stream s = tm ++ X ++ r -> length (stream s) < lf -> length (stream s) < f ->
  multi_values_loop fparse (pc f) lf acc s = Stop o.
Proof.
  induction 1 as [e Ee|e' ts v ts' vs' Ee' DV DT IH]; intros X V lf f acc s r HP E Hl Hf.
  - simpl in E. destruct lf as [|lf']; [lia|]. simpl.
    destruct (tok_yes TEOL None s e _ HP E (eol_nonerr _ Ee) (eol_match _ Ee)) as (s1 & T1 & E1 & P1).
    rewrite T1. rewrite (V f s1 r); [reflexivity|lia|exact E1|rewrite E1; rewrite E in Hf; lens].
  - simpl in E. rewrite <- app_assoc in E. destruct lf as [|lf']; [lia|]. simpl.
    destruct (tok_yes TEOL None s e' _ HP E (eol_nonerr _ Ee') (eol_match _ Ee')) as (s1 & T1 & E1 & P1).
    rewrite T1. assert (HP1 : P s1 <= 3) by lia.
    assert (Hf1 : length (stream s1) < f) by (rewrite E1; rewrite E in Hf; lens).
    destruct (proj1 dcomp ts v DV f s1 _ HP1 E1 Hf1) as (t2 & s2 & V2 & E2 & P2). rewrite V2.
    apply (IH X V lf' f (acc ++ [v]) s2 r P2 E2); [rewrite E2; rewrite E in Hl; lens|rewrite E2; rewrite E in Hf; lens].
Qed.

(* ("," Association)* "," then an association in progress *)
Lemma loop_ai tail kvs : datail_i fparse crank tail kvs -> forall c X, dl 44 c -> AStop X ->
  forall lf f cat s r, P s <= 3 -> stream s = tail ++ c :: X ++ r -> length (stream s) < lf -> length (stream s) < f ->
  inline_assocs_loop fparse (pc f) lf cat s = Stop o.
Proof.
  induction 1 as [|c' ts kv ts' kvs' Bc' DA DT IH]; intros c X Bc A lf f cat s r HP E Hl Hf.
  - simpl in E. destruct lf as [|lf']; [lia|]. simpl.
    destruct (tok_yes TDelimiter (delim 44) s c _ HP E (dl_nonerr _ _ Bc) (dl_match _ _ Bc)) as (s1 & T1 & E1 & P1).
    rewrite T1. rewrite (A f s1 r); [reflexivity|lia|exact E1|rewrite E1; rewrite E in Hf; lens].
  - simpl in E. rewrite <- app_assoc in E. destruct lf as [|lf']; [lia|]. simpl.
    destruct (tok_yes TDelimiter (delim 44) s c' _ HP E (dl_nonerr _ _ Bc') (dl_match _ _ Bc')) as (s1 & T1 & E1 & P1).
    rewrite T1. assert (HP1 : P s1 <= 3) by lia.
    assert (Hf1 : length (stream s1) < f) by (rewrite E1; rewrite E in Hf; lens).
    destruct (proj1 (proj2 (proj2 (proj2 (proj2 (proj2 dcomp))))) ts kv DA f s1 _ HP1 E1 Hf1) as (t2 & s2 & A2 & E2 & P2).
    rewrite A2. destruct kv as (kk, vv).
    apply (IH c X Bc A lf' f (a_set keq cat kk vv) s2 r P2 E2); [rewrite E2; rewrite E in Hl; lens|rewrite E2; rewrite E in Hf; lens].
Qed.

(* (EOL Association)* EOL then an association in progress *)
Lemma loop_am tm kvs : datail_m fparse crank tm kvs -> forall X, AStop X ->
  forall lf f cat s r, P s <= 3 -> stream s = tm ++ X ++ r -> length (stream s) < lf -> length (stream s) < f ->
  multi_assocs_loop fparse (pc f) lf cat s = Stop o.
Proof.
  induction 1 as [e Ee|e' ts kv ts' kvs' Ee' DA DT IH]; intros X A lf f cat s r HP E Hl Hf.
  - simpl in E. destruct lf as [|lf']; [lia|]. simpl.
    destruct (tok_yes TEOL None s e _ HP E (eol_nonerr _ Ee) (eol_match _ Ee)) as (s1 & T1 & E1 & P1).
    rewrite T1. rewrite (A f s1 r); [reflexivity|lia|exact E1|rewrite E1; rewrite E in Hf; lens].
  - simpl in E. rewrite <- app_assoc in E. destruct lf as [|lf']; [lia|]. simpl.
    destruct (tok_yes TEOL None s e' _ HP E (eol_nonerr _ Ee') (eol_match _ Ee')) as (s1 & T1 & E1 & P1).
    rewrite T1. assert (HP1 : P s1 <= 3) by lia.
    assert (Hf1 : length (stream s1) < f) by (rewrite E1; rewrite E in Hf; lens).
    destruct (proj1 (proj2 (proj2 (proj2 (proj2 (proj2 dcomp))))) ts kv DA f s1 _ HP1 E1 Hf1) as (t2 & s2 & A2 & E2 & P2).
    rewrite A2. destruct kv as (kk, vv).
    apply (IH X A lf' f (a_set keq cat kk vv) s2 r P2 E2); [rewrite E2; rewrite E in Hl; lens|rewrite E2; rewrite E in Hf; lens].
Qed.

(* ---------- after "[": from parse_collection down to the item lists ---------- *)
(* the head of an item in progress: a literal (the key or the value itself) *)
Definition lit_head (X : list token) : Prop := exists h t, X = h :: t /\ is_lit (ttype_of h) = true.
(* ... or "[" (a nested collection in progress) *)
Definition coll_head (X : list token) : Prop := exists h t, X = h :: t /\ dl 91 h.

(* parse_collection after its "[" is parse_items; a Stop there is the Stop of the collection *)
Lemma open_items lb body : dl 91 lb ->
  (forall f s r, P s <= 3 -> stream s = body ++ r -> length (stream s) < f -> parse_items fparse (pc f) (S f) s = Stop o) ->
  CStop (lb :: body).
Proof.
  intros B H f s r HP E Hf. destruct f as [|f']; [lia|]. simpl. unfold parse_collection_body, parse_sequence.
  simpl in E.
  destruct (tok_yes TDelimiter (delim 91) s lb _ HP E (dl_nonerr _ _ B) (dl_match _ _ B)) as (s1 & T1 & E1 & P1).
  rewrite T1. rewrite (H f' s1 r); [reflexivity|lia|exact E1|rewrite E1; rewrite E in Hf; lens].
Qed.

(* I1a. the FIRST item of an inline list is an association in progress (its key is a literal) *)
Lemma first_inline_assoc lb X : dl 91 lb -> lit_head X -> AStop X -> CStop (lb :: X).
Proof.
  intros B (h & t & -> & L) A. apply open_items; auto. intros f s r HP E Hf.
  unfold parse_items, parse_associations. simpl in E.
  destruct (tok_no TDelimiter (delim 58) s h _ HP E (lit_not_error _ L) (lit_not_delim _ _ L)) as (s1 & T1 & E1 & P1).
  rewrite T1. unfold parse_inline_associations.
  rewrite (A f s1 r); [reflexivity|lia|exact E1|congruence].
Qed.

(* I1b. the first item of an inline list is a nested collection in progress *)
Lemma first_inline_coll lb X : dl 91 lb -> coll_head X -> VStop X -> CStop (lb :: X).
Proof.
  intros B (h & t & -> & Bh) V. apply open_items; auto. intros f s r HP E Hf.
  unfold parse_items. simpl in E.
  assert (VS : values_start fparse (stream s)).
  { rewrite E. left. split; [eapply dl_mismatch; eauto; discriminate|].
    split; [eapply dl_not_type; eauto; discriminate|].
    left. split; [eapply dl_nonerr; eauto|eapply dl_not_lit; eauto]. }
  destruct (assocs_fall fparse (pc f) (S f) s HP VS) as (t1 & s1 & A & E1 & P1). rewrite A.
  unfold parse_values. rewrite E in E1.
  destruct (tok_no TDelimiter (delim 93) s1 h _ P1 E1 (dl_nonerr _ _ Bh) ltac:(eapply dl_mismatch; eauto; discriminate)) as (s2 & T2 & E2 & P2).
  rewrite T2. unfold parse_inline_values.
  rewrite (V f s2 r); [reflexivity|lia|exact E2|congruence].
Qed.

(* I3. Value ("," Value)* "," then a value in progress *)
Lemma later_inline_value lb ts v tail vs c X : dl 91 lb -> dvalue fparse crank ts v -> dvtail_i fparse crank tail vs ->
  dl 44 c -> VStop X -> CStop (lb :: ts ++ tail ++ c :: X).
Proof.
  intros B DV DT Bc V. apply open_items; auto. intros f s r HP E Hf.
  rewrite <- !app_assoc in E. cbn [app] in E.
  assert (Hnext : exists h2 r2, tail ++ c :: X ++ r = h2 :: r2 /\ not_colon h2).
  { destruct DT; eexists _, _; (split; [reflexivity|]); eapply dl_not_colon; eauto; discriminate. }
  destruct Hnext as (h2 & r2 & Er & NC).
  assert (VS0 : value_start fparse (stream s)) by (rewrite E; eapply value_start_of; eauto).
  destruct (dvalue_head fparse crank ts v DV) as (h & r0 & Ets & Hh).
  assert (Hm : tok_matches TDelimiter (delim 58) h = false /\ tok_matches TEOL None h = false /\
               tok_matches TDelimiter (delim 93) h = false /\ nonerr h).
  { destruct Hh as [(v' & (L & _) & _)|B1].
    - repeat split; [apply lit_not_delim|apply lit_not_eol|apply lit_not_delim|apply lit_not_error]; auto.
    - repeat split; [eapply dl_mismatch; eauto; discriminate|eapply dl_not_type; eauto; discriminate|
                     eapply dl_mismatch; eauto; discriminate|eapply dl_nonerr; eauto]. }
  destruct Hm as (M1 & M2 & M3 & Ne).
  assert (Es : stream s = h :: r0 ++ tail ++ c :: X ++ r) by (rewrite E, Ets; reflexivity).
  assert (VS : values_start fparse (stream s)) by (rewrite Es; left; rewrite <- Es; auto).
  unfold parse_items.
  destruct (assocs_fall fparse (pc f) (S f) s HP VS) as (t1 & s1 & A & E1 & P1). rewrite A.
  unfold parse_values. rewrite Es in E1.
  destruct (tok_no TDelimiter (delim 93) s1 h _ P1 E1 Ne M3) as (s2 & T2 & E2 & P2). rewrite T2.
  unfold parse_inline_values.
  assert (HP2 : P s2 <= 3) by lia.
  assert (E2' : stream s2 = ts ++ (tail ++ c :: X ++ r)) by (rewrite E2, Ets; reflexivity).
  assert (Hf2 : length (stream s2) < f) by (rewrite E2'; rewrite E in Hf; exact Hf).
  destruct (proj1 dcomp ts v DV f s2 _ HP2 E2' Hf2) as (t3 & s3 & V3 & E3 & P3). rewrite V3.
  rewrite (loop_vi tail vs DT c X Bc V (S f) f [v] s3 r P3 E3); [reflexivity| |]; rewrite E3; rewrite E in Hf; lens.
Qed.

(* I4. Association ("," Association)* "," then an association in progress *)
Lemma later_inline_assoc lb ts kv tail kvs c X : dl 91 lb -> dassoc fparse crank ts kv -> datail_i fparse crank tail kvs ->
  dl 44 c -> AStop X -> CStop (lb :: ts ++ tail ++ c :: X).
Proof.
  intros B DA DT Bc A. apply open_items; auto. intros f s r HP E Hf.
  rewrite <- !app_assoc in E. cbn [app] in E.
  destruct (dassoc_head fparse crank ts kv DA) as (k & r0 & Ets & Lk).
  assert (Es : stream s = k :: r0 ++ tail ++ c :: X ++ r) by (rewrite E, Ets; reflexivity).
  unfold parse_items, parse_associations.
  destruct (tok_no TDelimiter (delim 58) s k _ HP Es (lit_not_error _ Lk) (lit_not_delim _ _ Lk)) as (s1 & T1 & E1 & P1).
  rewrite T1. unfold parse_inline_associations.
  assert (HP1 : P s1 <= 3) by lia.
  assert (E1' : stream s1 = ts ++ (tail ++ c :: X ++ r)) by (rewrite E1, Ets; reflexivity).
  assert (Hf1 : length (stream s1) < f) by (rewrite E1'; rewrite E in Hf; exact Hf).
  destruct (proj1 (proj2 (proj2 (proj2 (proj2 (proj2 dcomp))))) ts kv DA f s1 _ HP1 E1' Hf1) as (t2 & s2 & A2 & E2 & P2).
  rewrite A2. destruct kv as (kk, vv).
  rewrite (loop_ai tail kvs DT c X Bc A (S f) f (a_set keq [] kk vv) s2 r P2 E2); [reflexivity| |]; rewrite E2; rewrite E in Hf; lens.
Qed.

(* I2a. "[" EOL then the FIRST item of a multi-line list is an association in progress (or a literal
   on which parse_intrinsic stops) *)
Lemma first_multi_assoc lb e X : dl 91 lb -> eolt e -> AStop X -> CStop (lb :: e :: X).
Proof.
  intros B Ee A. apply open_items; auto. intros f s r HP E Hf.
  cbn [app] in E. pose proof (eol_nonerr _ Ee) as Ne.
  unfold parse_items, parse_associations.
  destruct (tok_no TDelimiter (delim 58) s e _ HP E Ne (eol_not_delim _ _ Ee)) as (s1 & T1 & E1 & P1).
  rewrite T1. unfold parse_inline_associations.
  assert (HP1 : P s1 <= 3) by lia.
  destruct (assoc_fall_a fparse (pc f) s1 e _ HP1 E1 Ne (eol_not_lit _ Ee)) as (s2 & A2 & E2 & P2).
  rewrite A2. unfold parse_multiline_associations.
  assert (HP2 : P s2 <= 3) by lia.
  destruct (tok_yes TEOL None s2 e _ HP2 E2 Ne (eol_match _ Ee)) as (s3 & T3 & E3 & P3). rewrite T3.
  rewrite (A f s3 r); [reflexivity|lia|exact E3|rewrite E3; rewrite E in Hf; lens].
Qed.

(* I2b. "[" EOL then the first item is a nested collection in progress *)
Lemma first_multi_coll lb e X : dl 91 lb -> eolt e -> coll_head X -> VStop X -> CStop (lb :: e :: X).
Proof.
  intros B Ee (h & t & -> & Bh) V. apply open_items; auto. intros f s r HP E Hf.
  cbn [app] in E. pose proof (eol_nonerr _ Ee) as Ne.
  assert (VS : values_start fparse (stream s)).
  { rewrite E. right. split; auto. left. split; [eapply dl_nonerr; eauto|eapply dl_not_lit; eauto]. }
  unfold parse_items.
  destruct (assocs_fall fparse (pc f) (S f) s HP VS) as (t1 & s1 & A & E1 & P1). rewrite A.
  unfold parse_values. rewrite E in E1.
  destruct (tok_no TDelimiter (delim 93) s1 e _ P1 E1 Ne (eol_not_delim _ _ Ee)) as (s2 & T2 & E2 & P2). rewrite T2.
  unfold parse_inline_values.
  assert (HP2 : P s2 <= 3) by lia. assert (F0 : 0 < f) by lia.
  destruct (value_no fparse crank f s2 e _ HP2 E2 Ne (eol_not_lit _ Ee) (eol_not_delim _ _ Ee) F0) as (s3 & V3 & E3 & P3).
  rewrite V3. unfold parse_multiline_values.
  destruct (tok_yes TEOL None s3 e _ P3 E3 Ne (eol_match _ Ee)) as (s4 & T4 & E4 & P4). rewrite T4.
  rewrite (V f s4 r); [reflexivity|lia|exact E4|rewrite E4; rewrite E in Hf; lens].
Qed.

(* I5. "[" EOL Value (EOL Value)* EOL then a value in progress *)
Lemma later_multi_value lb e ts v tm vs X : dl 91 lb -> eolt e -> dvalue fparse crank ts v -> dvtail_m fparse crank tm vs ->
  VStop X -> CStop (lb :: e :: ts ++ tm ++ X).
Proof.
  intros B Ee DV DP V. apply open_items; auto. intros f s r HP E Hf.
  cbn [app] in E. rewrite <- !app_assoc in E. pose proof (eol_nonerr _ Ee) as Ne.
  assert (Hnext : exists h2 r2, tm ++ X ++ r = h2 :: r2 /\ eolt h2).
  { destruct DP; eexists _, _; (split; [reflexivity|]); auto. }
  destruct Hnext as (h2 & r2 & Er & Eh2).
  assert (VS : values_start fparse (stream s)).
  { rewrite E. right. split; auto. eapply value_start_of; eauto. apply eol_not_colon; auto. }
  unfold parse_items.
  destruct (assocs_fall fparse (pc f) (S f) s HP VS) as (t1 & s1 & A & E1 & P1). rewrite A.
  unfold parse_values. rewrite E in E1.
  destruct (tok_no TDelimiter (delim 93) s1 e _ P1 E1 Ne (eol_not_delim _ _ Ee)) as (s2 & T2 & E2 & P2). rewrite T2.
  unfold parse_inline_values.
  assert (HP2 : P s2 <= 3) by lia. assert (F0 : 0 < f) by lia.
  destruct (value_no fparse crank f s2 e _ HP2 E2 Ne (eol_not_lit _ Ee) (eol_not_delim _ _ Ee) F0) as (s3 & V3 & E3 & P3).
  rewrite V3. unfold parse_multiline_values.
  destruct (tok_yes TEOL None s3 e _ P3 E3 Ne (eol_match _ Ee)) as (s4 & T4 & E4 & P4). rewrite T4.
  assert (HP4 : P s4 <= 3) by lia.
  assert (Hf4 : length (stream s4) < f) by (rewrite E4; rewrite E in Hf; lens).
  destruct (proj1 dcomp ts v DV f s4 _ HP4 E4 Hf4) as (t5 & s5 & V5 & E5 & P5). rewrite V5.
  rewrite (loop_vm tm vs DP X V (S f) f [v] s5 r P5 E5); [reflexivity| |]; rewrite E5; rewrite E in Hf; lens.
Qed.

(* I6. "[" EOL Association (EOL Association)* EOL then an association in progress *)
Lemma later_multi_assoc lb e ts kv tm kvs X : dl 91 lb -> eolt e -> dassoc fparse crank ts kv -> datail_m fparse crank tm kvs ->
  AStop X -> CStop (lb :: e :: ts ++ tm ++ X).
Proof.
  intros B Ee DA DP A. apply open_items; auto. intros f s r HP E Hf.
  cbn [app] in E. rewrite <- !app_assoc in E. pose proof (eol_nonerr _ Ee) as Ne.
  unfold parse_items, parse_associations.
  destruct (tok_no TDelimiter (delim 58) s e _ HP E Ne (eol_not_delim _ _ Ee)) as (s1 & T1 & E1 & P1).
  rewrite T1. unfold parse_inline_associations.
  assert (HP1 : P s1 <= 3) by lia.
  destruct (assoc_fall_a fparse (pc f) s1 e _ HP1 E1 Ne (eol_not_lit _ Ee)) as (s2 & A2 & E2 & P2).
  rewrite A2. unfold parse_multiline_associations.
  assert (HP2 : P s2 <= 3) by lia.
  destruct (tok_yes TEOL None s2 e _ HP2 E2 Ne (eol_match _ Ee)) as (s3 & T3 & E3 & P3). rewrite T3.
  assert (HP3 : P s3 <= 3) by lia.
  assert (Hf3 : length (stream s3) < f) by (rewrite E3; rewrite E in Hf; lens).
  destruct (proj1 (proj2 (proj2 (proj2 (proj2 (proj2 dcomp))))) ts kv DA f s3 _ HP3 E3 Hf3) as (t4 & s4 & A4 & E4 & P4).
  rewrite A4. destruct kv as (kk, vv).
  rewrite (loop_am tm kvs DP X A (S f) f (a_set keq [] kk vv) s4 r P4 E4); [reflexivity| |]; rewrite E4; rewrite E in Hf; lens.
Qed.

(* ---------- VIABLE PREFIXES ending in an item on which the parser stops ---------- *)
(* one constructor per position of the grammar at which the item in progress stands; the items in
   front are whole derivations.  [base_v X] / [base_a X]: what the innermost item in progress is. *)
Variable base_v : list token -> Prop.   (* at a Value position: parse_value stops on it *)
Variable base_a : list token -> Prop.   (* at an item start where an association is tried first: parse_association stops *)
Variable base_c : list token -> Prop.   (* a collection in progress on which parse_collection stops ("[" followed by an Error token) *)
Hypothesis base_v_ok : forall X, base_v X -> VStop X.
Hypothesis base_a_ok : forall X, base_a X -> AStop X /\ lit_head X.
Hypothesis base_c_ok : forall X, base_c X -> CStop X /\ coll_head X.

Inductive vstop : list token -> Prop :=
| vs_base : forall X, base_v X -> vstop X
| vs_coll : forall X, cstop X -> vstop X
with astop : list token -> Prop :=
| as_base : forall X, base_a X -> astop X
| as_value : forall k kv c X, litv fparse k kv -> dl 58 c -> vstop X -> astop (k :: c :: X)       (* after key ":" *)
with cstop : list token -> Prop :=
| cs_base : forall X, base_c X -> cstop X
| cs_first_assoc : forall lb X, dl 91 lb -> astop X -> cstop (lb :: X)                              (* after "[" *)
| cs_first_coll : forall lb X, dl 91 lb -> cstop X -> cstop (lb :: X)
| cs_later_value : forall lb ts v tail vs c X, dl 91 lb -> dvalue fparse crank ts v -> dvtail_i fparse crank tail vs ->
    dl 44 c -> vstop X -> cstop (lb :: ts ++ tail ++ c :: X)                                          (* after "," in a value list *)
| cs_later_assoc : forall lb ts kv tail kvs c X, dl 91 lb -> dassoc fparse crank ts kv -> datail_i fparse crank tail kvs ->
    dl 44 c -> astop X -> cstop (lb :: ts ++ tail ++ c :: X)                                          (* after "," in an association list *)
| cs_multi_first_assoc : forall lb e X, dl 91 lb -> eolt e -> astop X -> cstop (lb :: e :: X)       (* after "[" EOL *)
| cs_multi_first_coll : forall lb e X, dl 91 lb -> eolt e -> cstop X -> cstop (lb :: e :: X)
| cs_multi_later_value : forall lb e ts v tm vs X, dl 91 lb -> eolt e -> dvalue fparse crank ts v -> dvtail_m fparse crank tm vs ->
    vstop X -> cstop (lb :: e :: ts ++ tm ++ X)                                                       (* after EOL in a multi-line value list *)
| cs_multi_later_assoc : forall lb e ts kv tm kvs X, dl 91 lb -> eolt e -> dassoc fparse crank ts kv -> datail_m fparse crank tm kvs ->
    astop X -> cstop (lb :: e :: ts ++ tm ++ X).                                                      (* after EOL in a multi-line association list *)

Scheme vstop_mind := Minimality for vstop Sort Prop
  with astop_mind := Minimality for astop Sort Prop
  with cstop_mind := Minimality for cstop Sort Prop.
Combined Scheme stop_mind from vstop_mind, astop_mind, cstop_mind.

Theorem stops_sound :
  (forall X, vstop X -> VStop X) /\ (forall X, astop X -> AStop X /\ lit_head X) /\ (forall X, cstop X -> CStop X /\ coll_head X).
Proof.
  apply stop_mind.
  - intros X H. apply base_v_ok, H.
  - intros X C (IH & (h & t & E & Bh)). subst X. apply CStop_VStop; auto.
  - intros X H. apply base_a_ok, H.
  - intros k kv c X L Bc V IH. split; [apply (AStop_value k kv c X L Bc IH)|]. exists k, (c :: X). split; auto. apply L.
  - intros X H. apply base_c_ok, H.
  - intros lb X B A (IH & Hh). split; [apply first_inline_assoc; auto|eexists _, _; eauto].
  - intros lb X B C (IH & Hh). split; [|eexists _, _; eauto]. apply first_inline_coll; auto.
    destruct Hh as (h & t & -> & Bh). apply CStop_VStop; auto.
  - intros lb ts v tail vs c X B DV DT Bc V IH. split; [apply (later_inline_value lb ts v tail vs c X); auto|eexists _, _; eauto].
  - intros lb ts kv tail kvs c X B DA DT Bc A (IH & _). split; [apply (later_inline_assoc lb ts kv tail kvs c X); auto|eexists _, _; eauto].
  - intros lb e X B Ee A (IH & _). split; [apply first_multi_assoc; auto|eexists _, _; eauto].
  - intros lb e X B Ee C (IH & Hh). split; [|eexists _, _; eauto]. apply first_multi_coll; auto.
    destruct Hh as (h & t & -> & Bh). apply CStop_VStop; auto.
  - intros lb e ts v tm vs X B Ee DV DT V IH. split; [apply (later_multi_value lb e ts v tm vs X); auto|eexists _, _; eauto].
  - intros lb e ts kv tm kvs X B Ee DA DT A (IH & _). split; [apply (later_multi_assoc lb e ts kv tm kvs X); auto|eexists _, _; eauto].
Qed.

(* ---------- the whole source: parse_tokens ---------- *)
Theorem CStop_tokens ts r : CStop ts -> parse_tokens fparse crank (ts ++ r) = o.
Proof.
  intros C. unfold parse_tokens.
  rewrite (C (S (length (ts ++ r))) (mkSt [] (ts ++ r)) r); [reflexivity|unfold P; simpl; lia|reflexivity|unfold stream; simpl; lia].
Qed.
End Prefix.

(* ---------- the base cases: an inexact literal ---------- *)
Section Base.
Variable fparse : list Z -> option Z.
Variable crank : val -> val -> option comparison.

Lemma pif_reject tys : forall t0 s t r,
  P s <= 3 -> stream s = t :: r -> ttype_of t <> TError ->
  In (ttype_of t) tys -> literal_value fparse (ttype_of t) (tval t) = None ->
  parse_intrinsic_from fparse tys (No t0 s) = Stop (PSyntax t).
Proof.
  induction tys as [|ty r' IH]; intros t0 s t r HP E Ne Hin LV; [destruct Hin|]. simpl.
  destruct (ttype_eqb (ttype_of t) ty) eqn:Q.
  - assert (M : tok_matches ty None t = true) by (rewrite tok_matches_none; exact Q).
    destruct (tok_yes ty None s t r HP E Ne M) as (s1 & T & E1 & P1). rewrite T.
    apply ttype_eqb_eq in Q. rewrite <- Q, LV. reflexivity.
  - assert (M : tok_matches ty None t = false) by (rewrite tok_matches_none; exact Q).
    destruct (tok_no ty None s t r HP E Ne M) as (s1 & T & E1 & P1). rewrite T.
    assert (Hin' : In (ttype_of t) r').
    { destruct Hin as [H|H]; auto. apply ttype_eqb_false in Q. congruence. }
    apply (IH t s1 t r); auto. lia.
Qed.

Definition badlit (t : token) : Prop := is_lit (ttype_of t) = true /\ literal_value fparse (ttype_of t) (tval t) = None.

Lemma intrinsic_reject s t r : P s <= 3 -> stream s = t :: r -> badlit t -> parse_intrinsic fparse s = Stop (PSyntax t).
Proof.
  intros HP E (L & LV). unfold parse_intrinsic. apply (pif_reject _ _ s t r); auto.
  - apply lit_not_error, L.
  - apply is_lit_in, L.
Qed.

Lemma VStop_bad t : badlit t -> VStop fparse crank (PSyntax t) [t].
Proof. intros Hb f s r HP E Hf. unfold parse_value. simpl in E. rewrite (intrinsic_reject s t r HP E Hb). reflexivity. Qed.
Lemma AStop_bad t : badlit t -> AStop fparse crank (PSyntax t) [t].
Proof. intros Hb f s r HP E Hf. unfold parse_association. simpl in E. rewrite (intrinsic_reject s t r HP E Hb). reflexivity. Qed.
Lemma lit_head_bad t : badlit t -> lit_head [t].
Proof. intros (L & _). exists t, []. auto. Qed.
End Base.

(* ---------- the base case: "[" followed by an Error token ---------- *)
Section OpenError.
Variable fparse : list Z -> option Z.
Variable crank : val -> val -> option comparison.
Notation pc := (parse_collection fparse crank).

(* a token at the head of the push-back stack that does not match is pushed back: the state is unchanged
   (no hypothesis on its type: an Error token on the stack is handed out like any other) *)
Lemma tok_no_pb ty w s t p : pb s = t :: p -> P s <= 3 -> tok_matches ty w t = false -> parse_token ty w s = No t s.
Proof.
  destruct s as [pb0 rest0]. unfold P. simpl. intros -> HP M. unfold parse_token, get_next. simpl.
  fold (tok_matches ty w t). rewrite M. unfold put_back. simpl.
  simpl in HP. destruct p as [|a1 [|a2 [|a3 p']]]; simpl in HP; try lia; reflexivity.
Qed.

Lemma pif_no_pb tys : forall t0 s t p, pb s = t :: p -> P s <= 3 ->
  (forall ty, In ty tys -> ttype_eqb (ttype_of t) ty = false) -> tys <> [] ->
  parse_intrinsic_from fparse tys (No t0 s) = No t s.
Proof.
  induction tys as [|ty r IH]; intros t0 s t p Hp HP Hno Hne; [congruence|]. simpl.
  rewrite (tok_no_pb ty None s t p Hp HP) by (rewrite tok_matches_none; apply Hno; left; reflexivity).
  destruct r as [|ty' r']; [reflexivity|]. apply (IH t s t p Hp HP); [|discriminate].
  intros x Hx. apply Hno. right. exact Hx.
Qed.

(* "[" followed by an Error token: the diagnostic names the Error token — read from the queue get_next stops
   on it; handed out from the push-back stack every alternative of parseItems fails on it and parseSequence
   blames the token of the last attempt *)
Lemma open_error lb e : dl 91 lb -> ttype_of e = TError -> CStop fparse crank (PSyntax e) [lb; e].
Proof.
  intros B Te f s r HP E Hf. destruct f as [|f']; [lia|]. simpl. unfold parse_collection_body, parse_sequence.
  simpl in E.
  destruct (tok_yes TDelimiter (delim 91) s lb _ HP E (dl_nonerr _ _ B) (dl_match _ _ B)) as (s1 & T1 & E1 & P1).
  rewrite T1. assert (HP1 : P s1 <= 3) by lia.
  assert (Hf' : 1 < f') by (rewrite E in Hf; simpl in Hf; lia).
  destruct (pb s1) as [|t p] eqn:Hpb.
  - (* read from the queue *)
    unfold stream in E1. rewrite Hpb in E1. simpl in E1.
    unfold parse_items, parse_associations, parse_token, get_next. rewrite Hpb, E1, Te. reflexivity.
  - (* handed out from the push-back stack *)
    assert (Et : t = e) by (unfold stream in E1; rewrite Hpb in E1; simpl in E1; congruence). subst t.
    assert (Md : forall c, tok_matches TDelimiter (delim c) e = false) by (intros c; unfold tok_matches; rewrite Te; reflexivity).
    assert (Me : tok_matches TEOL None e = false) by (unfold tok_matches; rewrite Te; reflexivity).
    assert (Hpi : parse_intrinsic fparse s1 = No e s1).
    { unfold parse_intrinsic. apply (pif_no_pb intrinsic_types _ s1 e p Hpb HP1); [|discriminate].
      intros ty Hin. rewrite Te. simpl in Hin. intuition (subst; reflexivity). }
    unfold parse_items, parse_associations. rewrite (tok_no_pb _ _ s1 e p Hpb HP1 (Md 58%Z)).
    unfold parse_inline_associations, parse_association. rewrite Hpi.
    unfold parse_multiline_associations. rewrite (tok_no_pb _ _ s1 e p Hpb HP1 Me).
    unfold parse_values. rewrite (tok_no_pb _ _ s1 e p Hpb HP1 (Md 93%Z)).
    unfold parse_inline_values, parse_value. rewrite Hpi.
    destruct f' as [|f'']; [lia|]. cbn [parse_collection]. unfold parse_collection_body, parse_sequence.
    rewrite (tok_no_pb _ _ s1 e p Hpb HP1 (Md 91%Z)).
    unfold parse_multiline_values. rewrite (tok_no_pb _ _ s1 e p Hpb HP1 Me). reflexivity.
Qed.

(* viable prefixes that end in "[" and an Error token e *)
Definition ebase (e : token) (X : list token) : Prop := exists lb, dl 91 lb /\ X = [lb; e].
Definition estopv e := vstop fparse crank (fun _ => False) (fun _ => False) (ebase e).
Definition estopc e := cstop fparse crank (fun _ => False) (fun _ => False) (ebase e).

(* THE PARSER ON A PROPER PREFIX OF A DERIVATION THAT ENDS IN "[" FOLLOWED BY AN ERROR TOKEN (the shape of an
   elided formatter output): the diagnostic is for that Error token *)
Theorem prefix_open_error e ts r : ttype_of e = TError -> estopc e ts -> parse_tokens fparse crank (ts ++ r) = PSyntax e.
Proof.
  intros Te C. apply CStop_tokens.
  destruct (stops_sound fparse crank (PSyntax e) (fun _ => False) (fun _ => False) (ebase e)) as (_ & _ & Hc).
  - intros X [].
  - intros X [].
  - intros X (lb & B & ->). split; [apply open_error; auto|]. exists lb, [e]. auto.
  - apply (proj1 (Hc ts C)).
Qed.
End OpenError.

(* ---------- the packaged theorem for an inexact literal ---------- *)
Section BadLiteral.
Variable fparse : list Z -> option Z.
Variable crank : val -> val -> option comparison.
Variable b : token.
Hypothesis Hb : badlit fparse b.

(* viable prefixes that end in the literal token b, standing where a Value or a key may stand *)
Definition lstopv := vstop fparse crank (eq [b]) (eq [b]) (fun _ => False).
Definition lstopa := astop fparse crank (eq [b]) (eq [b]) (fun _ => False).
Definition lstopc := cstop fparse crank (eq [b]) (eq [b]) (fun _ => False).

(* THE PARSER ON A PROPER PREFIX OF A DERIVATION FOLLOWED BY AN INEXACT LITERAL: whatever follows,
   the outcome is the diagnostic for that literal's token — never a value, never a diagnostic for an
   earlier token *)
Theorem prefix_bad_literal ts r : lstopc ts -> parse_tokens fparse crank (ts ++ r) = PSyntax b.
Proof.
  intros C. apply CStop_tokens.
  destruct (stops_sound fparse crank (PSyntax b) (eq [b]) (eq [b]) (fun _ => False)) as (_ & _ & Hc).
  - intros X <-. apply VStop_bad, Hb.
  - intros X <-. split; [apply AStop_bad, Hb|apply lit_head_bad with (fparse := fparse), Hb].
  - intros X [].
  - apply (proj1 (Hc ts C)).
Qed.
End BadLiteral.
