(* Literals.v — model of the literal conversions used by parser.go: parseIntrinsic
   (definitions only).  strconv.ParseInt / ParseUint incl. their range errors,
   strconv.ParseComplex's syntax, strconv.UnquoteChar / Unquote incl. every rejection, and
   UTF-8 encoding are modelled; strconv.ParseFloat is the oracle [fparse] (text of a float
   literal -> bits of the float64, None when ParseFloat reports an error, i.e. overflow). *)
From Coq Require Import String.
From Verif Require Import Base Params Value Lexer.
Close Scope string_scope.
Open Scope Z_scope.

Definition two64 : Z := 18446744073709551616.
Definition min_int64 : Z := - 9223372036854775808.
Definition max_int64 : Z := 9223372036854775807.

(* ---------- integers ---------- *)
Fixpoint dec_val (acc : Z) (l : list Z) : Z :=
  match l with [] => acc | c :: t => dec_val (acc * 10 + (c - 48)) t end.

Definition all_digits (l : list Z) : bool := forallb is_digit l.

(* strconv.ParseInt(text, 10, 64): optional sign, one or more digits, range error outside int64 *)
Definition parse_int (text : list Z) : option Z :=
  let neg := match text with c :: _ => c =? 45 | [] => false end in
  let ds := match text with c :: t => if is_sign c then t else text | [] => [] end in
  match ds with
  | [] => None
  | _ =>
    if all_digits ds then
      let n := dec_val 0 ds in
      let v := if neg then - n else n in
      if (min_int64 <=? v) && (v <=? max_int64) then Some v else None
    else None
  end.

Definition hexval (c : Z) : option Z :=
  if is_digit c then Some (c - 48)
  else if (97 <=? c) && (c <=? 102) then Some (c - 87)
  else if (65 <=? c) && (c <=? 70) then Some (c - 55)
  else None.

Fixpoint hex_val (acc : Z) (l : list Z) : option Z :=
  match l with
  | [] => Some acc
  | c :: t => match hexval c with Some x => hex_val (acc * 16 + x) t | None => None end
  end.

(* strconv.ParseUint(text[2:], 16, 64) *)
Definition parse_hex (text : list Z) : option Z :=
  match skipn 2 text with
  | [] => None
  | ds => match hex_val 0 ds with
          | Some v => if v <? two64 then Some v else None
          | None => None
          end
  end.

Definition parse_bool (text : list Z) : bool := list_eqb Z.eqb text (zs "true").

(* ---------- UTF-8 ---------- *)
Definition valid_rune (v : Z) : bool :=
  ((0 <=? v) && (v <? 55296)) || ((57344 <=? v) && (v <=? 1114111)).

(* utf8.AppendRune: an invalid rune is encoded as U+FFFD *)
Definition utf8 (v : Z) : list Z :=
  if negb (valid_rune v) then [239; 191; 189]
  else if v <? 128 then [v]
  else if v <? 2048 then [192 + v / 64; 128 + v mod 64]
  else if v <? 65536 then [224 + v / 4096; 128 + (v / 64) mod 64; 128 + v mod 64]
  else [240 + v / 262144; 128 + (v / 4096) mod 64; 128 + (v / 64) mod 64; 128 + v mod 64].

Definition utf8_all (l : list Z) : list Z := flat_map utf8 l.

(* ---------- strconv.UnquoteChar over the runes of a (valid UTF-8) text ---------- *)
Fixpoint hex_n (n : nat) (acc : Z) (l : list Z) : option (Z * list Z) :=
  match n with
  | O => Some (acc, l)
  | S n' =>
    match l with
    | c :: t => match hexval c with Some x => hex_n n' (acc * 16 + x) t | None => None end
    | [] => None
    end
  end.

Definition is_oct (c : Z) : bool := (48 <=? c) && (c <=? 55).

(* result: (value, multibyte, tail); None = ErrSyntax *)
Definition unquote_char (q : Z) (l : list Z) : option (Z * bool * list Z) :=
  match l with
  | [] => None
  | c :: t =>
    if c =? q then None
    else if 128 <=? c then Some (c, true, t)
    else if negb (c =? 92) then Some (c, false, t)
    else
      match t with
      | [] => None
      | e :: s =>
        if e =? 97 then Some (7, false, s)
        else if e =? 98 then Some (8, false, s)
        else if e =? 102 then Some (12, false, s)
        else if e =? 110 then Some (10, false, s)
        else if e =? 114 then Some (13, false, s)
        else if e =? 116 then Some (9, false, s)
        else if e =? 118 then Some (11, false, s)
        else if e =? 120 then
          match hex_n 2 0 s with Some (v, s') => Some (v, false, s') | None => None end
        else if e =? 117 then
          match hex_n 4 0 s with
          | Some (v, s') => if valid_rune v then Some (v, true, s') else None
          | None => None
          end
        else if e =? 85 then
          match hex_n 8 0 s with
          | Some (v, s') => if valid_rune v then Some (v, true, s') else None
          | None => None
          end
        else if is_oct e then
          match s with
          | a :: b :: s' =>
            if is_oct a && is_oct b then
              let v := ((e - 48) * 8 + (a - 48)) * 8 + (b - 48) in
              if 255 <? v then None else Some (v, false, s')
            else None
          | _ => None
          end
        else if e =? 92 then Some (92, false, s)
        else if (e =? 39) || (e =? 34) then (if e =? q then Some (e, false, s) else None)
        else None
      end
  end.

(* bytes appended by Unquote for one character *)
Definition char_bytes (v : Z) (multibyte : bool) : list Z :=
  if (v <? 128) || negb multibyte then [v] else utf8 v.

(* the loop of strconv.Unquote for a double-quoted text, after the opening quote; the
   closing quote must be the last rune.  fuel: the text gets shorter every round. *)
Fixpoint unq_loop (fuel : nat) (l : list Z) (acc : list Z) : option (list Z) :=
  match fuel with
  | O => None
  | S f =>
    match l with
    | [] => None
    | c :: t =>
      if c =? 34 then (match t with [] => Some acc | _ => None end)
      else if c =? 10 then None
      else match unquote_char 34 l with
           | Some (v, mb, tail) => unq_loop f tail (acc ++ char_bytes v mb)
           | None => None
           end
    end
  end.

(* value of a string token: strconv.Unquote(text), None = error *)
Definition string_value (text : list Z) : option (list Z) :=
  match text with
  | q :: body => if q =? 34 then unq_loop (S (length body)) body [] else None
  | [] => None
  end.

(* value of a rune token (repaired code): strconv.UnquoteChar(text[1:], '\'') must succeed and
   leave exactly the closing quote *)
Definition rune_value (text : list Z) : option Z :=
  match text with
  | q :: body =>
    if q =? 39 then
      match unquote_char 39 body with
      | Some (v, _, [q2]) => if q2 =? 39 then Some v else None
      | _ => None
      end
    else None
  | [] => None
  end.

Section Floats.
Variable fparse : list Z -> option Z.

(* flipping the sign bit of a float64: Go's unary minus *)
Definition fneg (bits : Z) : Z := if bits <? two63 then bits + two63 else bits - two63.

(* a complex token  ( f1 s f2 i )  is split with the scanner's own expression into its two
   float groups; both are converted by ParseFloat (each with its own optional sign) and the
   imaginary part is negated when the separating sign s is a minus: every sentence of the
   grammar rule  complex: "(" float sign float "i)"  has a value (repaired code, fix 35);
   a range error of either part is an error. *)
Definition complex_value (text : list Z) : option (Z * Z) :=
  match m_complex_parts text with
  | None => None
  | Some (n1, n2) =>
    let f1 := firstn n1 (skipn 1 text) in
    let s := nth (1 + n1) text 0 in
    let f2 := firstn n2 (skipn (2 + n1) text) in
    match fparse f1, fparse f2 with
    | Some re, Some im => Some (re, if s =? 45 then fneg im else im)
    | _, _ => None
    end
  end.

(* parseIntrinsic's conversion for a token of an intrinsic type (repaired code: a
   conversion error is a diagnostic, not a silently substituted value) *)
Definition literal_value (ty : ttype) (text : list Z) : option val :=
  match ty with
  | TBoolean => Some (VBool (parse_bool text))
  | TComplex => match complex_value text with
                | Some (re, im) => Some (VComplex 128 re im 0 0)
                | None => None
                end
  | TFloat => option_map (VFloat 64) (fparse text)
  | THexadecimal => option_map (VUint 64) (parse_hex text)
  | TInteger => option_map (VInt 64) (parse_int text)
  | TNil => Some VNil
  | TRune => option_map VRune (rune_value text)
  | TString => option_map VStr (string_value text)
  | _ => None
  end.
End Floats.
