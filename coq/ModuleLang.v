(* ModuleLang.v — syntax of the small language into which tools/gomodule translates, statement by
   statement, the universal constructors of v4/Module.go (GenModule.v, regenerated on every run).
   Definitions only; the meaning is given in ModuleSem.v.
   Names are positional: local variables are numbered in the order in which the function declares them
   (renaming a variable is not a change), the type parameters are K and V by position (the last one is V),
   imported packages are named by the last element of their path.  The text of string literals (panic
   messages, format strings) is not recorded. *)
From Coq Require Import ZArith List String.
Import ListNotations.

Inductive mty :=
| TyK | TyV                                        (* the type parameters *)
| TyBasic (name : string)                          (* int, uint, string, bool, any, ... *)
| TySlice (t : mty)
| TyMap (k v : mty)
| TyNamed (pkg name : string) (targs : list mty)   (* collection.Sequential[V] *)
| TyOther (text : string).

Inductive mexpr :=
| ELocal (n : nat)                                 (* a local variable *)
| EActual                                          (* the variable bound by the type switch *)
| EArgument                                        (* the variable of the loop over the arguments *)
| ETrue | EFalse | ENil
| EInt (z : Z)
| EText                                            (* a string literal or fmt.Sprintf(...): contents not recorded *)
| EConv (t : mty) (e : mexpr)                      (* uint(e) *)
| EAssert (t : mty) (e : mexpr)                    (* e.(T) *)
| EAsType (t : mty) (e : mexpr)                    (* asType[T](e) *)
| ELen (e : mexpr) | ECap (e : mexpr)
| EMake (t : mty) (args : list mexpr)              (* make(T, ...) *)
| EAppend (a b : mexpr)
| EIterNext                                        (* iterator.GetNext() inside the loop of that iterator *)
| EMethod (recv : mexpr) (name : string) (args : list mexpr)
| EClassOf (pkg name : string) (targs : list mty) (args : list mexpr)   (* col.Array[V](notation) *)
| EFun (pkg name : string) (args : list mexpr)     (* CDCN(), ref.ValueOf(key), ref.TypeOf(argument) *)
| EIfaceType (t : mty)                             (* ref.TypeOf(( *T)(nil)).Elem() *)
| EBin (op : string) (a b : mexpr)
| ENot (e : mexpr)
| EUnknown (text : string).

Inductive mstmt :=
| SDecl (n : nat) (t : mty)                        (* var x T *)
| SAssign (n : nat) (e : mexpr)                    (* x = e, var x = e, var x T = e *)
| SAssign2 (n ok : nat) (e : mexpr)                (* var x, ok = e   (comma-ok type assertion) *)
| SIf (c : mexpr) (yes no : list mstmt)
| SSwitch (cases : list (mexpr * list mstmt)) (dflt : option (list mstmt))          (* switch { case c: ... } *)
| STypeSwitch (cases : list (list mty * list mstmt)) (dflt : option (list mstmt))   (* switch actual := argument.(type) *)
| SBreak
| SPanic                                           (* panic(...) *)
| SArgLoop (body : list mstmt)                     (* for _, argument := range arguments { ... } *)
| SIterLoop (coll : mexpr) (body : list mstmt)     (* var it = coll.GetIterator(); for it.HasNext() { ... } *)
| SRange (x : nat) (over : mexpr) (body : list mstmt)   (* for _, x := range e { ... } *)
| SExpr (e : mexpr)                                (* a call as a statement *)
| SInc (n : nat)                                   (* x++ *)
| SReturn (e : mexpr)
| SUnknown (text : string).                        (* anything else: no meaning *)

Record gen_ctor := { g_name : string; g_where : string; g_tparams : nat; g_locals : nat; g_body : list mstmt }.
