(* FormatSpec.v — specification-level definitions about the formatter model (no proofs):
   the shape of Go's %G text (oracle hypothesis, checked per case), small transcriptions of the
   scanner's float_ / rune_ / string_ expressions (scanner.go) as boolean recognizers of the
   WHOLE text, the token view of the output (tokens_of / render), pruning at the depth limit,
   width normalization, and the canonical universe of property C10. *)
From Coq Require Import String Ascii.
From Verif Require Import Base Value Formatter.
Open Scope Z_scope.

(* ---------- characters ---------- *)
Definition digit (c : Z) : bool := (48 <=? c) && (c <=? 57).
Definition digit19 (c : Z) : bool := (49 <=? c) && (c <=? 57).
Definition hexd (c : Z) : bool := digit c || ((97 <=? c) && (c <=? 102)).   (* base16_ = [0-9a-f] *)
Definition is_sign (c : Z) : bool := (c =? 43) || (c =? 45).                  (* sign_ = [+-] *)
Definition nonempty {A} (l : list A) : bool := match l with [] => false | _ => true end.

(* zero_ or ordinal_, as a whole *)
Definition int_part_ok (ds : list Z) : bool :=
  match ds with
  | [] => false
  | [d] => digit d
  | d :: r => digit19 d && forallb digit r
  end.
(* ordinal_ (a non-zero digit, then digits) as a whole *)
Definition ordinal_ok (ds : list Z) : bool :=
  match ds with
  | [] => false
  | d :: r => digit19 d && forallb digit r
  end.

(* ---------- the shape of strconv.FormatFloat(f,'G',-1,64) for finite f (oracle hypothesis) ----------
   -?D(.D+)?   or   -?D(.D+)?E[+-]DD+  with a non-zero exponent; the integer part has no
   superfluous leading zero.  Checked by Coq on every oracle entry of every generated case. *)
Fixpoint cut_dot (t : list Z) : list Z * option (list Z) :=
  match t with
  | [] => ([], None)
  | c :: r => if c =? 46 then ([], Some r)
              else let (m, e) := cut_dot r in (c :: m, e)
  end.
Definition mant_ok (m : list Z) : bool :=
  let (ip, fp) := cut_dot m in
  int_part_ok ip && match fp with None => true | Some f => nonempty f && forallb digit f end.
Definition exp_ok (e : list Z) : bool :=
  match e with
  | sg :: ds => is_sign sg && nonempty ds && forallb digit ds && nonempty (trim_zeros ds)
  | [] => false
  end.
Definition g_shape_abs (t : list Z) : bool :=
  let (m, e) := cut_E t in
  mant_ok m && match e with None => true | Some x => exp_ok x end.
Definition g_shape (t : list Z) : bool :=
  match t with
  | c :: r => if c =? 45 then g_shape_abs r else g_shape_abs t
  | [] => false
  end.

(* finite float64: exponent field not all ones *)
Definition f_finite (bits : Z) : bool := f_mag bits <? exp_mask.

(* ---------- scanner.go: float_ = sign_?(?:scalar_)(?:exponent_)? as a recognizer of the whole text ----------
   scalar_ = (?:zero_|ordinal_)fraction_ ; fraction_ = \.[0-9]+ ; exponent_ = [eE]sign_ ordinal_ .
   A digit run is followed by a non-digit in every position of the expression, so taking the
   longest run decides membership. *)
Fixpoint span_digits (t : list Z) : list Z * list Z :=
  match t with
  | c :: r => if digit c then let (d, rest) := span_digits r in (c :: d, rest) else ([], t)
  | [] => ([], [])
  end.
Definition strip_sign (t : list Z) : list Z :=
  match t with
  | c :: r => if is_sign c then r else t
  | [] => []
  end.
Definition is_exponent (t : list Z) : bool :=
  match t with
  | e :: sg :: r => ((e =? 69) || (e =? 101)) && is_sign sg &&
                    (let (ds, rest) := span_digits r in ordinal_ok ds && negb (nonempty rest))
  | _ => false
  end.
Definition is_float_literal (t : list Z) : bool :=
  let (ip, r1) := span_digits (strip_sign t) in
  int_part_ok ip &&
  match r1 with
  | c :: r2 => (c =? 46) &&
               (let (fp, r3) := span_digits r2 in
                nonempty fp && match r3 with [] => true | _ => is_exponent r3 end)
  | [] => false
  end.

(* integer_ = zero_ or an optional sign_ and ordinal_ ; hexadecimal_ = 0x and one or more base16_ *)
Definition is_integer_literal (t : list Z) : bool :=
  list_eqb Z.eqb t [48] || ordinal_ok (strip_sign t).
Definition is_hex_literal (t : list Z) : bool :=
  match t with
  | a :: b :: r => (a =? 48) && (b =? 120) && nonempty r && forallb hexd r
  | _ => false
  end.

(* float_ at the START of a text (as inside complex_): the rest of the text after the longest
   match.  No shorter match can let the whole complex expression succeed: a fraction or an
   ordinal cut short is followed by a digit, and a scalar whose exponent matches is followed by
   e / E, none of which is the sign or the i that must come next. *)
Definition float_prefix_abs (t : list Z) : option (list Z) :=
  let (ip, r1) := span_digits t in
  if int_part_ok ip then
    match r1 with
    | c :: r2 =>
      if c =? 46 then
        let (fp, r3) := span_digits r2 in
        if nonempty fp then
          match r3 with
          | e :: sg :: r4 =>
              if ((e =? 69) || (e =? 101)) && is_sign sg then
                let (ds, r5) := span_digits r4 in
                if ordinal_ok ds then Some r5 else Some r3
              else Some r3
          | _ => Some r3
          end
        else None
      else None
    | [] => None
    end
  else None.
Definition float_prefix (t : list Z) : option (list Z) := float_prefix_abs (strip_sign t).
(* complex_ = ( float_ sign_ float_ i ) as a recognizer of the whole text *)
Definition is_complex_literal (t : list Z) : bool :=
  match t with
  | c :: r =>
      (c =? 40) &&
      match float_prefix r with
      | Some (sg :: r') =>
          is_sign sg && match float_prefix r' with Some rest => list_eqb Z.eqb rest [105; 41] | None => false end
      | _ => false
      end
  | [] => false
  end.

(* ---------- scanner.go: escape_, rune_, string_ ---------- *)
(* escape_ = a backslash followed by x and 2, u and 4 or U and 8 characters of base16_, or by one
   of a b f n r t v, the apostrophe, the double quote or the backslash.  [esc_len t]: the text
   after the backslash starts with an escape body of this many characters *)
Definition simple_esc (c : Z) : bool := zmem c [97; 98; 102; 110; 114; 116; 118; 39; 34; 92].
Definition esc_len (t : list Z) : option nat :=
  match t with
  | [] => None
  | c :: r =>
    if c =? 120 then
      match r with
      | a :: b :: _ => if hexd a && hexd b then Some 3%nat else None
      | _ => None
      end
    else if c =? 117 then
      match r with
      | a :: b :: c :: d :: _ => if hexd a && hexd b && hexd c && hexd d then Some 5%nat else None
      | _ => None
      end
    else if c =? 85 then
      match r with
      | a :: b :: c :: d :: e :: f :: g :: h :: _ =>
          if hexd a && hexd b && hexd c && hexd d && hexd e && hexd f && hexd g && hexd h then Some 9%nat else None
      | _ => None
      end
    else if simple_esc c then Some 1%nat else None
  end.
(* rune_ = an apostrophe, then escape_ or one character other than apostrophe and EOL, then an apostrophe *)
Definition is_rune_literal (t : list Z) : bool :=
  match t with
  | q :: r =>
      (q =? 39) &&
      ((match r with
        | c :: e => (c =? 92) && match esc_len e with Some n => list_eqb Z.eqb (skipn n e) [39] | None => false end
        | [] => false
        end)
       || (match r with [c; q2] => (q2 =? 39) && negb (c =? 39) && negb (c =? 10) | _ => false end))
  | [] => false
  end.
(* string_ = a double quote, any number of escape_ or characters other than double quote and EOL,
   a double quote: the text after the opening quote is a sequence of escapes and plain
   characters followed by the closing quote and nothing else (backtracking, as a regular
   expression matched against the whole text) *)
Fixpoint str_body (fuel : nat) (t : list Z) : bool :=
  match fuel with
  | O => false
  | S k =>
    match t with
    | [] => false
    | c :: r =>
      ((c =? 34) && negb (nonempty r))
      || ((c =? 92) && match esc_len r with Some n => str_body k (skipn n r) | None => false end)
      || (negb (c =? 34) && negb (c =? 10) && str_body k r)
    end
  end.
Definition is_string_literal (t : list Z) : bool :=
  match t with
  | q :: r => (q =? 34) && str_body (length r) r
  | [] => false
  end.

(* ---------- tokens ---------- *)
(* the scanner's token types that can occur in formatter output (token.go), plus TElision for
   "..." — which is NOT a token of the grammar: text containing it does not parse *)
Inductive ttype := TBoolean | TComplex | TDelimiter | TEOL | TFloat | THexadecimal | TInteger
                 | TNil | TRune | TSpace | TString | TType | TElision.
Record ftoken := { tk_type : ttype; tk_text : list Z }.
Definition tok (ty : ttype) (s : list Z) : ftoken := {| tk_type := ty; tk_text := s |}.
Definition render (ts : list ftoken) : list Z := flat_map tk_text ts.

Definition delim (c : Z) : ftoken := tok TDelimiter [c].
Definition eol_tok : ftoken := tok TEOL [10].
(* appendNewline as tokens: the indentation is one space token (absent at depth 0) *)
Definition nl_toks (d : nat) : list ftoken :=
  match d with O => [eol_tok] | _ => [eol_tok; tok TSpace (indent d)] end.

Section Tokens.
Variable ftext : Z -> list Z.
Variable printable : Z -> bool.
Variable maximum : nat.

Definition leaf_token (v : val) : option ftoken :=
  match v with
  | VNil => Some (tok TNil (s2z "nil"))
  | VBool b => Some (tok TBoolean (if b then s2z "true" else s2z "false"))
  | VInt _ z => Some (tok TInteger (dec_text z))
  | VUint _ z => Some (tok THexadecimal (hex_text z))
  | VByte z => Some (tok THexadecimal (hex_text z))
  | VRune r => Some (tok TRune (quote_rune printable r))
  | VFloat _ bits => Some (tok TFloat (float_text ftext bits))
  | VComplex _ re im _ _ =>
      Some (tok TComplex (40 :: float_text ftext re ++ (if f_nonneg im then [43] else []) ++ float_text ftext im ++ [105; 41]))
  | VStr s => Some (tok TString (quote_str printable s))
  | _ => None
  end.

Definition ctx_toks (ty : list Z) : list ftoken := [delim 93; delim 40; tok TType ty; delim 41].

(* tokens of a value printed at indentation [d] inside [n] collections; None = the formatter panics *)
Section TLoops.
Variable f : nat -> nat -> val -> option (list ftoken).
Definition tassoc (d n : nat) (k v : val) : option (list ftoken) :=
  match leaf_token k, f d n v with
  | Some kt, Some vt => Some (kt :: delim 58 :: tok TSpace [32] :: vt)
  | _, _ => None
  end.
Fixpoint tlines (d n : nat) (l : list val) : option (list ftoken) :=
  match l with
  | [] => Some []
  | x :: t => match f d n x, tlines d n t with
              | Some a, Some b => Some (nl_toks d ++ a ++ b)
              | _, _ => None
              end
  end.
Fixpoint talines (d n : nat) (ks vs : list val) : option (list ftoken) :=
  match vs with
  | [] => Some []
  | x :: t => match tassoc d n (hd VNil ks) x, talines d n (tl ks) t with
              | Some a, Some b => Some (nl_toks d ++ a ++ b)
              | _, _ => None
              end
  end.
(* [n] = number of collections enclosing the ITEMS (the collection itself included) *)
Definition titems (d n : nat) (l : list val) : option (list ftoken) :=
  if (maximum <? n)%nat then Some [tok TElision [46; 46; 46]]
  else match l with
       | [] => Some [tok TSpace [32]]
       | [x] => f d n x
       | _ => option_map (fun b => b ++ nl_toks d) (tlines (S d) n l)
       end.
Definition tentries (d n : nat) (ks vs : list val) : option (list ftoken) :=
  if (maximum <? n)%nat then Some [tok TElision [46; 46; 46]]
  else match vs with
       | [] => Some [delim 58]
       | [x] => tassoc d n (hd VNil ks) x
       | _ => option_map (fun b => b ++ nl_toks d) (talines (S d) n ks vs)
       end.
End TLoops.
Definition tcoll (body : option (list ftoken)) (ty : list Z) : option (list ftoken) :=
  option_map (fun b => delim 91 :: b ++ ctx_toks ty) body.

Fixpoint tokens_at (d n : nat) (v : val) {struct v} : option (list ftoken) :=
  match v with
  | VSeq k l => tcoll (titems tokens_at d (S n) l) (seq_type k)
  | VNilSlice => tcoll (titems tokens_at d (S n) []) (seq_type KSlice)
  | VMapping k ks vs => tcoll (tentries tokens_at d (S n) ks vs) (map_type k)
  | VNilMap => tcoll (tentries tokens_at d (S n) [] []) (map_type MGoMap)
  | VAssoc k x => tassoc tokens_at d n k x
  | VPtr _ _ => None
  | _ => option_map (fun t => [t]) (leaf_token v)
  end.

(* the token list of FormatValue(v): the value at depth 0, then the final newline *)
Definition tokens_of (v : val) : option (list ftoken) :=
  option_map (fun ts => ts ++ [eol_tok]) (tokens_at 0 0 v).
End Tokens.

(* ---------- pruning at the depth limit ---------- *)
(* [prune k v]: k = the number of further collection levels whose items are printed; a
   collection below that keeps its kind and loses its items (its text is "[...](Type)" either way) *)
Fixpoint prune (k : nat) (v : val) {struct v} : val :=
  match v with
  | VSeq kd l => match k with
                 | O => VSeq kd []
                 | S k' => VSeq kd (map (prune k') l)
                 end
  | VMapping kd ks vs => match k with
                         | O => VMapping kd [] []
                         | S k' => VMapping kd ks (map (prune k') vs)
                         end
  | VAssoc key x => VAssoc key (prune k x)
  | _ => v
  end.

(* number of nested collections (associations do not count) *)
Fixpoint nest_depth (v : val) {struct v} : nat :=
  match v with
  | VSeq _ l => S (fold_right (fun x m => Nat.max (nest_depth x) m) O l)
  | VMapping _ _ vs => S (fold_right (fun x m => Nat.max (nest_depth x) m) O vs)
  | VAssoc _ x => nest_depth x
  | VNilSlice | VNilMap => 1%nat
  | _ => O
  end.

(* ---------- width normalization ("the same number at another width") ---------- *)
(* int, int8, int16 -> int64; uint, uint8 (byte), uint16, uint32 -> uint64; float32 -> float64;
   complex64 -> complex128 (the collator oracle fields are dropped).  int32 is rune: untouched. *)
Fixpoint widen (v : val) {struct v} : val :=
  match v with
  | VInt _ z => VInt 64 z
  | VUint _ z => VUint 64 z
  | VByte z => VUint 64 z
  | VFloat _ b => VFloat 64 b
  | VComplex _ re im _ _ => VComplex 128 re im 0 0
  | VSeq k l => VSeq k (map widen l)
  | VAssoc k x => VAssoc (widen k) (widen x)
  | VMapping k ks vs => VMapping k (map widen ks) (map widen vs)
  | _ => v
  end.

(* ---------- the canonical universe of C10 ---------- *)
(* class 2: built from the canonical dynamic types (round trip must reproduce the value);
   class 1: additionally narrower numeric widths, Go slices and Go maps (text fixpoint only);
   class 0: outside (invalid runes, NaN / infinities, pointers, bare associations, ...). *)
Definition leaf_class (v : val) : nat :=
  match v with
  | VNil | VBool _ | VStr _ => 2%nat
  | VInt w _ => if w =? 64 then 2%nat else 1%nat
  | VUint w _ => if w =? 64 then 2%nat else 1%nat
  | VByte _ => 1%nat
  | VRune r => if valid_rune r then 2%nat else O
  | VFloat w b => if f_finite b then (if w =? 64 then 2%nat else 1%nat) else O
  | VComplex w re im _ _ => if f_finite re && f_finite im then (if w =? 128 then 2%nat else 1%nat) else O
  | _ => O
  end.
Definition min_list (l : list nat) : nat := fold_right Nat.min 2%nat l.
(* values whose coarse type name (the collator's first ranking criterion) changes under the round
   trip: uint8 is ranked as a byte but comes back as an unsigned; Go slices and Go maps come back as
   Array and Map.  A Set that holds one (at any depth) may come back in another order, so its
   second text differs: recorded as a known finding, excluded from the round-trip demand. *)
Fixpoint unstable (v : val) {struct v} : bool :=
  match v with
  | VByte _ | VNilSlice | VNilMap => true
  | VSeq k l => match k with KSlice => true | _ => existsb unstable l end
  | VMapping k ks vs => match k with MGoMap => true | _ => existsb unstable ks || existsb unstable vs end
  | VAssoc k x => unstable k || unstable x
  | _ => false
  end.
Fixpoint val_class (v : val) {struct v} : nat :=
  match v with
  | VSeq k l =>
      let c := min_list (map val_class l) in
      match k with
      | KSlice => Nat.min 1 c
      | KQueue => if (length l <=? 16)%nat then c else O
      | KSet => if existsb unstable l then O else c
      | _ => c
      end
  | VMapping k ks vs =>
      let c := Nat.min (min_list (map leaf_class ks)) (min_list (map val_class vs)) in
      if negb (length ks =? length vs)%nat then O
      else match k with MGoMap => Nat.min 1 c | _ => c end
  | VAssoc _ _ => O          (* only as an entry of a Catalog / Map, handled there *)
  | VNilSlice | VNilMap => 1%nat
  | _ => leaf_class v
  end.
Definition is_collection (v : val) : bool :=
  match v with VSeq _ _ | VMapping _ _ _ | VNilSlice | VNilMap => true | _ => false end.
(* the class the round-trip observation of a top-level value is held to *)
Definition rt_class (maximum : nat) (v : val) : nat :=
  if is_collection v && (nest_depth v <=? maximum)%nat then val_class v else O.

(* ---------- elision-free token lists, and a bound on the length of the text ---------- *)
Definition is_elision (t : ftoken) : bool := match tk_type t with TElision => true | _ => false end.
Definition has_elision (ts : list ftoken) : bool := existsb is_elision ts.

Section CostSums.
Variable c : val -> nat.
Variable nl : nat.
Variable ll : val -> nat.
Fixpoint items_cost (l : list val) : nat :=
  match l with
  | [] => O
  | x :: t => nl + c x + items_cost t
  end.
Fixpoint entries_cost (ks vs : list val) {struct vs} : nat :=
  match vs with
  | [] => O
  | x :: t => nl + ll (hd VNil ks) + 2 + c x + entries_cost (tl ks) t
  end.
End CostSums.

Section Cost.
Variable ftext : Z -> list Z.
Variable printable : Z -> bool.
Variable maximum : nat.
(* a newline with its indentation: the indentation never exceeds the limit *)
Definition nlcost : nat := S (4 * maximum).
Definition leaf_len (v : val) : nat :=
  match intrinsic_text ftext printable v with Some t => length t | None => O end.
(* brackets and "(Type)" (at most 11 runes), "..." / " " / ":" (at most 3), one newline per item
   and one before the closing bracket, ": " per association *)
Fixpoint cost (v : val) {struct v} : nat :=
  match v with
  | VSeq _ l => 14 + nlcost + items_cost cost nlcost l
  | VMapping _ ks vs => 14 + nlcost + entries_cost cost nlcost leaf_len ks vs
  | VAssoc k x => leaf_len k + 2 + cost x
  | VNilSlice | VNilMap => 14 + nlcost
  | _ => leaf_len v
  end.
End Cost.
