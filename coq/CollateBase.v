(* CollateBase.v — one-step characterisations of the model of collator.go (Value.v):
   [rank M (S f) d a b = spec M d (rank M f) a b] and likewise for [compare], organised by a
   small "view" of values, together with the measures (size, nesting) and the well-formedness
   predicates used by the theorems of CollateRank.v / CollateCompare.v (properties C07, C08). *)
From Verif Require Import Base Sorter Value SorterProofs CollateOrd.
From Coq Require Import Permutation.
Open Scope Z_scope.

(* ------------------------------------------------------------------ *)
(* Views                                                               *)
(* ------------------------------------------------------------------ *)
Inductive view := WLeaf | WAssoc (k v : val) | WArr (l : list val) | WMap (m : list (val * val)).

Definition assocs (ks vs : list val) : list val :=
  map (fun kv => VAssoc (fst kv) (snd kv)) (zipkv ks vs).

Definition view_of (v : val) : view :=
  match v with
  | VSeq _ l => WArr l
  | VMapping MCatalog ks vs => WArr (assocs ks vs)
  | VMapping _ ks vs => WMap (zipkv ks vs)
  | VAssoc k v => WAssoc k v
  | _ => WLeaf
  end.

Definition vtag (v : val) : Z :=
  match view_of v with WLeaf => 0 | WAssoc _ _ => 1 | WArr _ => 2 | WMap _ => 3 end.

Definition is_leaf (v : val) : bool :=
  match view_of v with WLeaf => true | _ => false end.

(* ------------------------------------------------------------------ *)
(* Result-level lexicographic combinators                              *)
(* ------------------------------------------------------------------ *)
Section ResLex.
Context {A : Type}.
Variable rec : A -> A -> res comparison.
Fixpoint rlex (xs ys : list A) : res comparison :=
  match xs, ys with
  | [], [] => R Eq | [], _ => R Lt | _, [] => R Gt
  | x :: xs', y :: ys' => match rec x y with R Eq => rlex xs' ys' | r => r end
  end.
Definition rlexswap (xs ys : list A) : res comparison :=
  if (length ys <? length xs)%nat then flip_rank (rlex ys xs) else rlex xs ys.
End ResLex.

Definition rthen (r1 r2 : res comparison) : res comparison :=
  match r1 with R Eq => r2 | r => r end.
Definition pairrec (rec : val -> val -> res comparison) (x y : val * val) : res comparison :=
  rthen (rec (fst x) (fst y)) (rec (snd x) (snd y)).
Definition unres (r : res comparison) : comparison := match r with R c => c | _ => Eq end.
Definition keyrk (rec : val -> val -> res comparison) (x y : val * val) : comparison :=
  unres (rec (fst x) (fst y)).

(* ------------------------------------------------------------------ *)
(* The order on leaves as a byte-wise comparison of integer keys        *)
(* ------------------------------------------------------------------ *)
Definition lkey (v : val) : list Z :=
  tyrank v ::
  match v with
  | VBool b => [if b then 1 else 0]
  | VInt _ z | VUint _ z | VByte z | VRune z => [z]
  | VFloat _ x => [f_ord x]
  | VComplex _ r i a p => [f_ord a; f_ord p; f_ord r; f_ord i]
  | VStr s => s
  | VPtr _ x => [x]
  | _ => []
  end.
Definition lrank (a b : val) : comparison := lexZ (lkey a) (lkey b).

(* ------------------------------------------------------------------ *)
(* One step of rankValues                                              *)
(* ------------------------------------------------------------------ *)
Definition spec (maximum : nat) (d : nat) (rec : nat -> val -> val -> res comparison)
           (a b : val) : res comparison :=
  if negb (tyrank a =? tyrank b) then R (Z.compare (tyrank a) (tyrank b)) else
  match view_of a, view_of b with
  | WLeaf, WLeaf => R (lrank a b)
  | WLeaf, _ => R Lt
  | _, WLeaf => R Gt
  | WAssoc k1 v1, WAssoc k2 v2 => rthen (rec d k1 k2) (rec d v1 v2)
  | WArr xs, WArr ys => if Nat.eqb d maximum then DepthPanic else rlexswap (rec (S d)) xs ys
  | WMap m1, WMap m2 =>
      if Nat.eqb d maximum then DepthPanic else
      rlexswap (pairrec (rec (S d))) (sort_values (keyrk (rec d)) m1) (sort_values (keyrk (rec d)) m2)
  | _, _ => R Eq
  end.

Lemma rank_pairs_eq : forall (rec : val -> val -> res comparison) xs ys,
  (fix go (xs ys : list (val * val)) : res comparison :=
         match xs, ys with
         | [], [] => R Eq
         | [], _ => R Lt
         | _, [] => R Gt
         | (k1, v1) :: xs', (k2, v2) :: ys' =>
           match rec k1 k2 with
           | R Eq => match rec v1 v2 with R Eq => go xs' ys' | r => r end
           | r => r
           end
         end) xs ys = rlex (pairrec rec) xs ys.
Proof.
  induction xs as [|[k1 v1] xs IH]; destruct ys as [|[k2 v2] ys]; try reflexivity.
  simpl. unfold pairrec at 1, rthen. simpl. rewrite IH.
  destruct (rec k1 k2) as [[]| |]; try reflexivity.
Qed.

Lemma rank_unfold : forall M f d a b, rank M (S f) d a b = spec M d (rank M f) a b.
Proof.
  intros M f d a b.
  destruct a as [ | | | | | | | | | | | |[] | |[]]; destruct b as [ | | | | | | | | | | | |[] | |[]];
  try reflexivity.
  all: unfold spec; simpl negb; cbv iota; simpl view_of; cbv iota.
  - destruct b0, b; reflexivity.
  - unfold lrank; simpl. destruct (z ?= z0); reflexivity.
  - unfold lrank; simpl. destruct (z ?= z0); reflexivity.
  - unfold lrank; simpl. destruct (z ?= z0); reflexivity.
  - unfold lrank; simpl. destruct (z ?= z0); reflexivity.
  - unfold lrank; simpl. unfold rank_float. destruct (f_ord bits ?= f_ord bits0); reflexivity.
  - unfold lrank; simpl. unfold rank_complex, rank_float.
    destruct (f_ord ab ?= f_ord ab0); try reflexivity.
    destruct (f_ord ph ?= f_ord ph0); try reflexivity.
    destruct (f_ord re ?= f_ord re0); try reflexivity.
    destruct (f_ord im ?= f_ord im0); try reflexivity.
  - unfold lrank; simpl. destruct (x ?= x0); reflexivity.
  - simpl. unfold rthen. destruct (rank M f d a1 b1) as [[]| |]; reflexivity.
  - simpl. destruct (d =? M)%nat; [reflexivity|].
    unfold rlexswap. rewrite !rank_pairs_eq. reflexivity.
  - simpl. destruct (d =? M)%nat; [reflexivity|].
    unfold rlexswap. rewrite !rank_pairs_eq. reflexivity.
Qed.

(* ------------------------------------------------------------------ *)
(* One step of compareValues                                           *)
(* ------------------------------------------------------------------ *)
Section ResAll.
Context {A : Type}.
Variable rec : A -> A -> res bool.
Fixpoint rall2 (xs ys : list A) : res bool :=
  match xs, ys with
  | [], _ => R true
  | _, [] => R true
  | x :: xs', y :: ys' => match rec x y with R true => rall2 xs' ys' | r => r end
  end.
End ResAll.

Definition bthen (r1 r2 : res bool) : res bool :=
  match r1 with R true => r2 | r => r end.

Fixpoint rmapall (rec : val -> val -> res bool) (m2 xs : list (val * val)) : res bool :=
  match xs with
  | [] => R true
  | x :: xs' =>
    match lookup_kv (fst x) m2 with
    | None => R false
    | Some v2 => match rec (snd x) v2 with R true => rmapall rec m2 xs' | r => r end
    end
  end.

(* equality of leaves as decided by compareValues *)
Definition leq (a b : val) : bool :=
  match a, b with
  | VPtr _ x, VPtr _ y => x =? y
  | VNilSlice, VNilSlice | VNilMap, VNilMap => true
  | _, _ => ieq a b
  end.

Definition cspec (maximum : nat) (d : nat) (rec : nat -> val -> val -> res bool)
           (a b : val) : res bool :=
  if negb (tyrank a =? tyrank b) then R false else
  match view_of a, view_of b with
  | WLeaf, WLeaf => R (leq a b)
  | WLeaf, _ => R false
  | _, WLeaf => R false
  | WAssoc k1 v1, WAssoc k2 v2 => bthen (rec d k1 k2) (rec d v1 v2)
  | WArr xs, WArr ys =>
      if Nat.eqb d maximum then DepthPanic
      else if negb (Nat.eqb (length xs) (length ys)) then R false
      else rall2 (rec (S d)) xs ys
  | WMap m1, WMap m2 =>
      if Nat.eqb d maximum then DepthPanic
      else if negb (Nat.eqb (length m1) (length m2)) then R false
      else rmapall (rec (S d)) m2 m1
  | _, _ => R false
  end.

Lemma cmp_maps_eq : forall (rec : val -> val -> res bool) m2 xs,
  (fix go (xs : list (val * val)) : res bool :=
           match xs with
           | [] => R true
           | (k, v1) :: xs' =>
             match lookup_kv k m2 with
             | None => R false
             | Some v2 =>
               match rec v1 v2 with
               | R true => go xs'
               | r => r
               end
             end
           end) xs = rmapall rec m2 xs.
Proof.
  induction xs as [|[k v1] xs IH]; try reflexivity.
  simpl. rewrite IH. reflexivity.
Qed.

Lemma compare_unfold : forall M f d a b, compare M (S f) d a b = cspec M d (compare M f) a b.
Proof.
  intros M f d a b.
  destruct a as [ | | | | | | | | | | | |[] | |[]]; destruct b as [ | | | | | | | | | | | |[] | |[]];
  try reflexivity.
  all: unfold cspec; simpl negb; cbv iota; simpl view_of; cbv iota.
  - simpl. unfold bthen. destruct (compare M f d a1 b1) as [[]| |]; reflexivity.
  - simpl. destruct (d =? M)%nat; [reflexivity|].
    destruct (negb (length (zipkv ks vs) =? length (zipkv ks0 vs0))%nat); [reflexivity|].
    rewrite cmp_maps_eq. reflexivity.
  - simpl. destruct (d =? M)%nat; [reflexivity|].
    destruct (negb (length (zipkv ks vs) =? length (zipkv ks0 vs0))%nat); [reflexivity|].
    rewrite cmp_maps_eq. reflexivity.
Qed.

Global Opaque rank compare.
