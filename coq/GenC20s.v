(* GenC20s.v — LATE file of C20 (compiled in parallel with GenC20.v, GenC20b.v, GenC20p.v): the regenerated Set constructor IS
   the model Facade.v for every element type and every argument list (with and without a collator; Go array, sequence,
   source). *)
From Coq Require Import String.
From Verif Require Import Base Sorter Value Seq Coll Pool PoolRun Params SetProofs AssocProofs Facade FacadeProofs ModuleLang ModuleSem ModuleFacts ModuleTactics GenModule.
Open Scope Z_scope.
Open Scope list_scope.
Local Opaque class_ctor as_type fold_loop ranker rk_default set_add_all set_add convert_all convert_pairs array_fill zero_of.

Definition opt_coll (o : option nat) : mval := match o with Some c => MArgV (ACollator c) | None => MNone end.
Definition env_set (s : slots) (scr : list mval) : menv :=
  [MArgV ANotation; opt_slice (s_values s); opt_seq (s_seq s); src_of s; opt_coll (s_coll s)] ++ scr.

Lemma set_step : forall args0 tk tv f s scr a, size_ok a -> length scr = 11%nat ->
  exists scr', length scr' = 11%nat /\
    exec args0 (10 + f) (with_argument (ctx0 tk tv) a) (env_set s scr) (loop_body gen_Set) =
    match accept FSet s a with Some s' => RNormal (env_set s' scr') | None => RPanic end.
Proof. intros args0 tk tv f s scr a Ha L. explode scr 11. step_tac scr a Ha 11 11%nat. Qed.


Lemma set_post : forall args0 tk tv f s scr, length scr = 11%nat ->
  result_of (exec args0 (30 + f) (ctx0 tk tv) (env_set s scr) (post_body gen_Set)) =
  out_map FO (out_map FObj (finish_set tv s)).
Proof.
  intros args0 tk tv f s scr L. explode scr 11. destruct s as [sz hs vals sq txt prs cl asc mp asq].
  unfold env_set, src_of, opt_slice, opt_seq, opt_coll. cbn [s_size s_has_size s_values s_seq s_text s_parsed s_coll app]. norm_body.
  destruct cl as [c|].
  - (* with a collator *)
    destruct vals as [[|?v ?l]|]; [ | | ].
    2:{ (* values: for _, value := range values { set.AddValue(value) } *)
      cbn [plus]; timeout 60 to_loop.
      timeout 20 (match goal with |- context [fold_loop ?st ?its ?env] => erewrite (set_range_loop _ _ _ _ _ _ st its (fun x e => eq_refl)); [ | cbn; congruence | cbn; lia | cbn; lia | reflexivity ] end).
      all: after_loop. }
    all: destruct sq as [?l|]; [leaf|].
    all: destruct txt as [|?ch ?t]; [leaf|].
    all: destruct prs as [?pv|]; [|leaf].
    all: seq_cases2 pv.
    all: set_loop.
  - (* without a collator *)
    destruct vals as [[|?v ?l]|]; [ | leaf | ].
    all: destruct sq as [?l|]; [leaf|].
    all: destruct txt as [|?ch ?t]; [leaf|].
    all: destruct prs as [?pv|]; [|leaf].
    all: seq_cases2 pv.
    all: set_loop.
  Unshelve. all: try exact O. all: try exact [].
Qed.

Theorem gen_Set_is_the_model : forall tk tv args, Forall size_ok args ->
  run_ctor gen_Set tk tv args = out_map FO (facade FSet tk tv args).
Proof. ctor_main gen_Set FSet env_set 11%nat set_step set_post. Qed.

Print Assumptions gen_Set_is_the_model.
