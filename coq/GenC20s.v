(* GenC20s.v — LATE file of C20 (compiled in parallel with the other GenC20*.v): the regenerated Set constructor, first half:
   the simulation of its argument loop and the decision cascade WITH a collator (Go array, sequence, source, nothing). *)
From Coq Require Import String.
From Verif Require Import Base Sorter Value Seq Coll Pool PoolRun Params SetProofs AssocProofs Facade FacadeProofs ModuleLang ModuleSem ModuleFacts ModuleTactics GenModule.
Open Scope Z_scope.
Open Scope list_scope.
Local Opaque class_ctor as_type fold_loop ranker rk_default set_add_all set_add convert_all convert_pairs array_fill zero_of parsed_items.

(* the number of scratch locals of the regenerated Set constructor (its locals beyond notation, values, sequence, source, collator) *)
Definition Kset : nat := (g_locals gen_Set - 5)%nat.

Lemma set_step : forall args0 tk tv f s scr a, size_ok a -> length scr = Kset ->
  exists scr', length scr' = Kset /\
    exec args0 (10 + f) (with_argument (ctx0 tk tv) a) (env_set s scr) (loop_body gen_Set) =
    match accept FSet s a with Some s' => RNormal (env_set s' scr') | None => RPanic end.
Proof. intros args0 tk tv f s scr a Ha L. unfold Kset in *. explode_dyn scr L. step_tac scr a Ha 0 (g_locals gen_Set - 5)%nat. Qed.

Lemma set_post_collator : forall args0 tk tv f s scr c, length scr = Kset -> s_coll s = Some c ->
  result_of (exec args0 (30 + f) (ctx0 tk tv) (env_set s scr) (post_body gen_Set)) =
  out_map FO (out_map FObj (finish_set tv s)).
Proof.
  intros args0 tk tv f s scr c L Hc. unfold Kset in L. explode_dyn scr L. destruct s as [sz hs vals sq txt prs cl asc mp asq].
  cbn [s_coll] in Hc. subst cl.
  unfold env_set, src_of, opt_slice, opt_seq, opt_coll. cbn [s_size s_has_size s_values s_seq s_text s_parsed s_coll app]. norm_body.
  destruct vals as [[|?v ?l]|]; [ | | ].
  2:{ (* values: for _, value := range values { set.AddValue(value) } *)
    cbn [plus]; timeout 60 to_loop.
    timeout 20 (match goal with |- context [fold_loop ?st ?its ?env] => erewrite (set_range_loop _ _ _ _ _ _ st its (fun x e => eq_refl)); [ | cbn; congruence | cbn; lia | cbn; lia | reflexivity ] end).
    all: after_loop. }
  all: destruct sq as [?l|]; [leaf|].
  all: destruct txt as [|?ch ?t]; [leaf|].
  all: destruct prs as [?pv|]; [|leaf].
  (* the parsed collection: a sequence of items, or the assertion to Sequential[any] fails *)
  all: cbn [plus]; timeout 60 to_loop; timeout 30 rhs_open_keep.
  all: destruct (parsed_items (PColl pv)) as [items|]; [|timeout 60 fin2].
  all: timeout 60 to_loop.
  all: timeout 20 (match goal with |- context [fold_loop ?st ?its ?env] => erewrite (set_add_loop _ _ _ _ _ _ st its (fun x e => eq_refl)); [ | cbn; congruence | cbn; lia | cbn; lia | reflexivity ] end).
  all: after_loop.
  Unshelve. all: try exact O. all: try exact [].
Qed.
