(* C15.v — Set algebra equals intersection, union, difference and symmetric difference
   Statements only: every theorem is closed by [exact] of a lemma proved elsewhere, and its
   axioms are printed.  Generated once by tools/mkprop.py from the proved lemmas' statements. *)
From Verif Require Import Base Seq Coll SetProofs.

Theorem C15_and_is_intersection :
  forall (A : Type) (zero : A) (rank : A -> A -> comparison),
         total_preorder A rank ->
         forall a b : list A,
         StrictSorted A rank a ->
         StrictSorted A rank b ->
         exists r : list A,
           set_and zero rank rank a b = Ret r /\
           StrictSorted A rank r /\
           (forall x : A, mem A rank x r <-> mem A rank x a /\ mem A rank x b).
Proof. exact set_and_spec. Qed.

Theorem C15_or_is_union :
  forall (A : Type) (zero : A) (rank : A -> A -> comparison),
         total_preorder A rank ->
         forall a b : list A,
         StrictSorted A rank a ->
         StrictSorted A rank b ->
         exists r : list A,
           set_or zero rank a b = Ret r /\
           StrictSorted A rank r /\
           (forall x : A, mem A rank x r <-> mem A rank x a \/ mem A rank x b).
Proof. exact set_or_spec. Qed.

Theorem C15_sans_is_difference :
  forall (A : Type) (zero : A) (rank : A -> A -> comparison),
         total_preorder A rank ->
         forall a b : list A,
         StrictSorted A rank a ->
         StrictSorted A rank b ->
         exists r : list A,
           set_sans zero rank a b = Ret r /\
           StrictSorted A rank r /\
           (forall x : A, mem A rank x r <-> mem A rank x a /\ ~ mem A rank x b).
Proof. exact set_sans_spec. Qed.

Theorem C15_xor_is_symmetric_difference :
  forall (A : Type) (zero : A) (rank : A -> A -> comparison),
         total_preorder A rank ->
         forall a b : list A,
         StrictSorted A rank a ->
         StrictSorted A rank b ->
         exists r : list A,
           set_xor zero rank rank a b = Ret r /\
           StrictSorted A rank r /\
           (forall x : A,
            mem A rank x r <->
            mem A rank x a /\ ~ mem A rank x b \/ mem A rank x b /\ ~ mem A rank x a).
Proof. exact set_xor_spec. Qed.


Print Assumptions C15_and_is_intersection.
Print Assumptions C15_or_is_union.
Print Assumptions C15_sans_is_difference.
Print Assumptions C15_xor_is_symmetric_difference.
