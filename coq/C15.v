(* C15.v — Set algebra equals intersection, union, difference and symmetric difference
   Statements only: every theorem is closed by [exact] of a lemma proved elsewhere, and its
   axioms are printed.  Generated once by tools/mkprop.py from the proved lemmas' statements. 
   Round 2 (polish): an [Example] of non-vacuity beside every theorem (data in SetProofs2.v / SetTransfer.v /
   SetPool.v); C15_default_collator_*: the four laws for the REAL default ranking on the universe type U M without
   a total_preorder hypothesis; C15_raw_default_*: the same for Pool.rk_default on raw values under Forall inUd;
   C15_pool_* etc.: the class functions of the pool machine produce a new object, leave the operands (and every
   other object) unchanged, and later changes to one side do not reach the other. *)
From Verif Require Import Base Sorter Value Seq Coll CollP SetProofs CollateRank CollateUse Pool PoolFrame SetProofs2 SetTransfer SetPool.
Local Open Scope nat_scope.

Theorem C15_and_is_intersection :
  forall (A : Type) (zero : A) (rank : A -> A -> comparison),
         total_preorder A rank ->
         forall a b : list A,
         StrictSorted A rank a ->
         StrictSorted A rank b ->
         exists r : list A,
           set_and zero rank rank a b = Ret r /\
           StrictSorted A rank r /\
           (forall x : A, mem A rank x r <-> mem A rank x a /\ mem A rank x b).
Proof. exact set_and_spec. Qed.

(* non-vacuity: A = [5;17;31;48], B = [12;29;40;75] under the coarse ranker x/10 (classes {0,1,3,4} and {1,2,4,7});
   members are compared up to rank-equality (17 ~ 12, 48 ~ 40); the same set passed twice *)
Example C15_and_is_intersection_example :
  total_preorder Z coarseZ /\ StrictSorted Z coarseZ ex_set /\ StrictSorted Z coarseZ ex_set_b /\
  set_and 0%Z coarseZ coarseZ ex_set ex_set_b = Ret [17; 48]%Z /\
  set_and 0%Z coarseZ coarseZ ex_set ex_set = Ret ex_set /\
  (exists r : list Z, set_and 0%Z coarseZ coarseZ ex_set ex_set_b = Ret r /\ StrictSorted Z coarseZ r /\
     (forall x : Z, mem Z coarseZ x r <-> mem Z coarseZ x ex_set /\ mem Z coarseZ x ex_set_b)).
Proof.
  split; [exact coarseZ_total_preorder|]. split; [exact (strict_sortedb_ok Z coarseZ ex_set eq_refl)|]. split; [exact (strict_sortedb_ok Z coarseZ ex_set_b eq_refl)|].
  split; [vm_compute; reflexivity|]. split; [vm_compute; reflexivity|].
  exact (C15_and_is_intersection Z 0%Z coarseZ coarseZ_total_preorder ex_set ex_set_b (strict_sortedb_ok Z coarseZ ex_set eq_refl) (strict_sortedb_ok Z coarseZ ex_set_b eq_refl)).
Qed.

Theorem C15_or_is_union :
  forall (A : Type) (zero : A) (rank : A -> A -> comparison),
         total_preorder A rank ->
         forall a b : list A,
         StrictSorted A rank a ->
         StrictSorted A rank b ->
         exists r : list A,
           set_or zero rank a b = Ret r /\
           StrictSorted A rank r /\
           (forall x : A, mem A rank x r <-> mem A rank x a \/ mem A rank x b).
Proof. exact set_or_spec. Qed.

(* non-vacuity: A = [5;17;31;48], B = [12;29;40;75] under the coarse ranker x/10 (classes {0,1,3,4} and {1,2,4,7});
   members are compared up to rank-equality (17 ~ 12, 48 ~ 40); the same set passed twice *)
Example C15_or_is_union_example :
  total_preorder Z coarseZ /\ StrictSorted Z coarseZ ex_set /\ StrictSorted Z coarseZ ex_set_b /\
  set_or 0%Z coarseZ ex_set ex_set_b = Ret [5; 17; 29; 31; 48; 75]%Z /\
  set_or 0%Z coarseZ ex_set ex_set = Ret ex_set /\
  (exists r : list Z, set_or 0%Z coarseZ ex_set ex_set_b = Ret r /\ StrictSorted Z coarseZ r /\
     (forall x : Z, mem Z coarseZ x r <-> mem Z coarseZ x ex_set \/ mem Z coarseZ x ex_set_b)).
Proof.
  split; [exact coarseZ_total_preorder|]. split; [exact (strict_sortedb_ok Z coarseZ ex_set eq_refl)|]. split; [exact (strict_sortedb_ok Z coarseZ ex_set_b eq_refl)|].
  split; [vm_compute; reflexivity|]. split; [vm_compute; reflexivity|].
  exact (C15_or_is_union Z 0%Z coarseZ coarseZ_total_preorder ex_set ex_set_b (strict_sortedb_ok Z coarseZ ex_set eq_refl) (strict_sortedb_ok Z coarseZ ex_set_b eq_refl)).
Qed.

Theorem C15_sans_is_difference :
  forall (A : Type) (zero : A) (rank : A -> A -> comparison),
         total_preorder A rank ->
         forall a b : list A,
         StrictSorted A rank a ->
         StrictSorted A rank b ->
         exists r : list A,
           set_sans zero rank a b = Ret r /\
           StrictSorted A rank r /\
           (forall x : A, mem A rank x r <-> mem A rank x a /\ ~ mem A rank x b).
Proof. exact set_sans_spec. Qed.

(* non-vacuity: A = [5;17;31;48], B = [12;29;40;75] under the coarse ranker x/10 (classes {0,1,3,4} and {1,2,4,7});
   members are compared up to rank-equality (17 ~ 12, 48 ~ 40); the same set passed twice *)
Example C15_sans_is_difference_example :
  total_preorder Z coarseZ /\ StrictSorted Z coarseZ ex_set /\ StrictSorted Z coarseZ ex_set_b /\
  set_sans 0%Z coarseZ ex_set ex_set_b = Ret [5; 31]%Z /\
  set_sans 0%Z coarseZ ex_set ex_set = Ret [] /\
  (exists r : list Z, set_sans 0%Z coarseZ ex_set ex_set_b = Ret r /\ StrictSorted Z coarseZ r /\
     (forall x : Z, mem Z coarseZ x r <-> mem Z coarseZ x ex_set /\ ~ mem Z coarseZ x ex_set_b)).
Proof.
  split; [exact coarseZ_total_preorder|]. split; [exact (strict_sortedb_ok Z coarseZ ex_set eq_refl)|]. split; [exact (strict_sortedb_ok Z coarseZ ex_set_b eq_refl)|].
  split; [vm_compute; reflexivity|]. split; [vm_compute; reflexivity|].
  exact (C15_sans_is_difference Z 0%Z coarseZ coarseZ_total_preorder ex_set ex_set_b (strict_sortedb_ok Z coarseZ ex_set eq_refl) (strict_sortedb_ok Z coarseZ ex_set_b eq_refl)).
Qed.

Theorem C15_xor_is_symmetric_difference :
  forall (A : Type) (zero : A) (rank : A -> A -> comparison),
         total_preorder A rank ->
         forall a b : list A,
         StrictSorted A rank a ->
         StrictSorted A rank b ->
         exists r : list A,
           set_xor zero rank rank a b = Ret r /\
           StrictSorted A rank r /\
           (forall x : A,
            mem A rank x r <->
            mem A rank x a /\ ~ mem A rank x b \/ mem A rank x b /\ ~ mem A rank x a).
Proof. exact set_xor_spec. Qed.

(* non-vacuity: A = [5;17;31;48], B = [12;29;40;75] under the coarse ranker x/10 (classes {0,1,3,4} and {1,2,4,7});
   members are compared up to rank-equality (17 ~ 12, 48 ~ 40); the same set passed twice *)
Example C15_xor_is_symmetric_difference_example :
  total_preorder Z coarseZ /\ StrictSorted Z coarseZ ex_set /\ StrictSorted Z coarseZ ex_set_b /\
  set_xor 0%Z coarseZ coarseZ ex_set ex_set_b = Ret [5; 29; 31; 75]%Z /\
  set_xor 0%Z coarseZ coarseZ ex_set ex_set = Ret [] /\
  (exists r : list Z, set_xor 0%Z coarseZ coarseZ ex_set ex_set_b = Ret r /\ StrictSorted Z coarseZ r /\
     (forall x : Z, mem Z coarseZ x r <-> mem Z coarseZ x ex_set /\ ~ mem Z coarseZ x ex_set_b \/ mem Z coarseZ x ex_set_b /\ ~ mem Z coarseZ x ex_set)).
Proof.
  split; [exact coarseZ_total_preorder|]. split; [exact (strict_sortedb_ok Z coarseZ ex_set eq_refl)|]. split; [exact (strict_sortedb_ok Z coarseZ ex_set_b eq_refl)|].
  split; [vm_compute; reflexivity|]. split; [vm_compute; reflexivity|].
  exact (C15_xor_is_symmetric_difference Z 0%Z coarseZ coarseZ_total_preorder ex_set ex_set_b (strict_sortedb_ok Z coarseZ ex_set eq_refl) (strict_sortedb_ok Z coarseZ ex_set_b eq_refl)).
Qed.

Theorem C15_default_collator_and_is_intersection :
  forall (M : nat) (zero : U M),
         forall a b : list (U M),
         StrictSorted (U M) (rkU M) a ->
         StrictSorted (U M) (rkU M) b ->
         exists r : list (U M),
           set_and zero (rkU M) (rkU M) a b = Ret r /\
           StrictSorted (U M) (rkU M) r /\
           (forall x : (U M), mem (U M) (rkU M) x r <-> mem (U M) (rkU M) x a /\ mem (U M) (rkU M) x b).
Proof. exact dc_and. Qed.

Theorem C15_default_collator_or_is_union :
  forall (M : nat) (zero : U M),
         forall a b : list (U M),
         StrictSorted (U M) (rkU M) a ->
         StrictSorted (U M) (rkU M) b ->
         exists r : list (U M),
           set_or zero (rkU M) a b = Ret r /\
           StrictSorted (U M) (rkU M) r /\
           (forall x : (U M), mem (U M) (rkU M) x r <-> mem (U M) (rkU M) x a \/ mem (U M) (rkU M) x b).
Proof. exact dc_or. Qed.

Theorem C15_default_collator_sans_is_difference :
  forall (M : nat) (zero : U M),
         forall a b : list (U M),
         StrictSorted (U M) (rkU M) a ->
         StrictSorted (U M) (rkU M) b ->
         exists r : list (U M),
           set_sans zero (rkU M) a b = Ret r /\
           StrictSorted (U M) (rkU M) r /\
           (forall x : (U M), mem (U M) (rkU M) x r <-> mem (U M) (rkU M) x a /\ ~ mem (U M) (rkU M) x b).
Proof. exact dc_sans. Qed.

Theorem C15_default_collator_xor_is_symmetric_difference :
  forall (M : nat) (zero : U M),
         forall a b : list (U M),
         StrictSorted (U M) (rkU M) a ->
         StrictSorted (U M) (rkU M) b ->
         exists r : list (U M),
           set_xor zero (rkU M) (rkU M) a b = Ret r /\
           StrictSorted (U M) (rkU M) r /\
           (forall x : (U M),
            mem (U M) (rkU M) x r <->
            mem (U M) (rkU M) x a /\ ~ mem (U M) (rkU M) x b \/ mem (U M) (rkU M) x b /\ ~ mem (U M) (rkU M) x a).
Proof. exact dc_xor. Qed.

Theorem C15_raw_default_and :
  forall zero : val,
         inUd zero ->
         forall a b : list val,
         Forall inUd a ->
         Forall inUd b ->
         StrictSorted val rk_default a ->
         StrictSorted val rk_default b ->
         exists r : list val,
           set_and zero rk_default rk_default a b = Ret r /\
           Forall inUd r /\
           StrictSorted val rk_default r /\
           (forall x : val,
            inUd x -> mem val rk_default x r <-> mem val rk_default x a /\ mem val rk_default x b).
Proof. exact raw_and. Qed.

Theorem C15_raw_default_or :
  forall zero : val,
         inUd zero ->
         forall a b : list val,
         Forall inUd a ->
         Forall inUd b ->
         StrictSorted val rk_default a ->
         StrictSorted val rk_default b ->
         exists r : list val,
           set_or zero rk_default a b = Ret r /\
           Forall inUd r /\
           StrictSorted val rk_default r /\
           (forall x : val,
            inUd x -> mem val rk_default x r <-> mem val rk_default x a \/ mem val rk_default x b).
Proof. exact raw_or. Qed.

Theorem C15_raw_default_sans :
  forall zero : val,
         inUd zero ->
         forall a b : list val,
         Forall inUd a ->
         Forall inUd b ->
         StrictSorted val rk_default a ->
         StrictSorted val rk_default b ->
         exists r : list val,
           set_sans zero rk_default a b = Ret r /\
           Forall inUd r /\
           StrictSorted val rk_default r /\
           (forall x : val,
            inUd x -> mem val rk_default x r <-> mem val rk_default x a /\ ~ mem val rk_default x b).
Proof. exact raw_sans. Qed.

Theorem C15_raw_default_xor :
  forall zero : val,
         inUd zero ->
         forall a b : list val,
         Forall inUd a ->
         Forall inUd b ->
         StrictSorted val rk_default a ->
         StrictSorted val rk_default b ->
         exists r : list val,
           set_xor zero rk_default rk_default a b = Ret r /\
           Forall inUd r /\
           StrictSorted val rk_default r /\
           (forall x : val,
            inUd x ->
            mem val rk_default x r <->
            mem val rk_default x a /\ ~ mem val rk_default x b \/
            mem val rk_default x b /\ ~ mem val rk_default x a).
Proof. exact raw_xor. Qed.

(* non-vacuity for the default ranking on raw values: Sets of []int values *)
Example C15_raw_default_example :
  Forall inUd ex_raw_set /\ Forall inUd ex_raw_set_b /\
  StrictSorted val rk_default ex_raw_set /\ StrictSorted val rk_default ex_raw_set_b /\
  set_and VNilSlice rk_default rk_default ex_raw_set ex_raw_set_b = Ret [sl [1; 2]]%Z /\
  set_or VNilSlice rk_default ex_raw_set ex_raw_set_b = Ret [sl []; sl [1]; sl [1; 2]; sl [2; 0]; sl [3]]%Z /\
  set_sans VNilSlice rk_default ex_raw_set ex_raw_set_b = Ret [sl [1]; sl [3]]%Z /\
  set_xor VNilSlice rk_default rk_default ex_raw_set ex_raw_set_b = Ret [sl []; sl [1]; sl [2; 0]; sl [3]]%Z.
Proof.
  split; [apply inUd_check; vm_compute; reflexivity|]. split; [apply inUd_check; vm_compute; reflexivity|].
  split; [apply strict_sortedb_ok; vm_compute; reflexivity|]. split; [apply strict_sortedb_ok; vm_compute; reflexivity|].
  repeat split; vm_compute; reflexivity.
Qed.

Theorem C15_pool_results :
  forall (zero : val) (p : pool) (a b c1 c2 : nat) (x y : list val),
         get p a = OSet c1 x ->
         get p b = OSet c2 y ->
         step zero p (SAnd a b) = new_set p c1 (set_and zero (ranker c1) (ranker c2) x y) /\
         step zero p (SOr a b) = new_set p c1 (set_or zero (ranker c1) x y) /\
         step zero p (SSans a b) = new_set p c1 (set_sans zero (ranker c1) x y) /\
         step zero p (SXor a b) = new_set p c1 (set_xor zero (ranker c1) (ranker c2) x y).
Proof. exact pool_set_algebra. Qed.

Theorem C15_operands_and_everything_else_unchanged :
  forall (zero : val) (p : pool) (o : op) (p' : pool) (r : ret),
         is_set_algebra o = true ->
         step zero p o = (p', r) -> forall i : nat, i < length p -> nth i p' ODead = nth i p ODead.
Proof. exact set_algebra_changes_nothing. Qed.

Theorem C15_later_changes_to_an_operand_do_not_reach_the_result :
  forall (zero : val) (p : pool) (o : op) (p' : pool) (ops : list op) (src : nat),
         is_set_algebra o = true ->
         step zero p o = (p', RNew) ->
         src < length p ->
         (forall o' : op, In o' ops -> writes o' = Some src \/ writes o' = None) ->
         nth (length p) (run zero p' ops) ODead = nth (length p) p' ODead.
Proof. exact set_algebra_result_independent. Qed.

Theorem C15_later_changes_to_the_result_do_not_reach_an_operand :
  forall (zero : val) (p : pool) (o : op) (p' : pool) (ops : list op) (src : nat),
         is_set_algebra o = true ->
         step zero p o = (p', RNew) ->
         src < length p ->
         (forall o' : op, In o' ops -> writes o' = Some (length p) \/ writes o' = None) ->
         nth src (run zero p' ops) ODead = nth src p ODead.
Proof. exact set_algebra_operand_independent. Qed.

(* non-vacuity at pool level: Sets {1,2,3} and {2,3,5} of Go ints built from slices (slots 2, 3), And/Or/Sans/Xor
   (slots 4..7), the same Set passed twice (slots 8, 9), then the operand 2 gets 9 added and the result 4 loses 2:
   the other side is unchanged *)
Example C15_pool_example :
  run (si 0) [] ex_alg_ops =
    [OSlice [si 3; si 1; si 2; si 3]; OSlice [si 2; si 5; si 3];
     OSet 0 [si 1; si 2; si 3; si 9]; OSet 0 [si 2; si 3; si 5];
     OSet 0 [si 3]; OSet 0 [si 1; si 2; si 3; si 5]; OSet 0 [si 1]; OSet 0 [si 1; si 5];
     OSet 0 []; OSet 0 [si 1; si 2; si 3]].
Proof. vm_compute; reflexivity. Qed.


(* Round 3 (generator modes): Sets whose collator can PANIC (Collator.MakeWithMaximum(m) over values nested deeper than
   m) and class functions called with a nil operand.  The pool machine runs the same algorithms with a ranking that
   may panic (CollP.v); they are the verified functions whenever the rankings do not panic, and a call that panics —
   after any amount of work — changes nothing, so that the next call depends on its operands alone. *)
Theorem C15_depth_limited_collators_same_results_unless_they_panic :
  forall (zero : val) (rank1 rank2 : val -> val -> comparison) (rk1 rk2 : val -> val -> option comparison),
         (forall a b : val, rk1 a b = Some (rank1 a b)) ->
         (forall a b : val, rk2 a b = Some (rank2 a b)) ->
         forall a b : list val,
         set_and_p zero rk1 rk2 a b = set_and zero rank1 rank2 a b /\
         set_or_p zero rk1 a b = set_or zero rank1 a b /\
         set_sans_p zero rk1 a b = set_sans zero rank1 a b /\
         set_xor_p zero rk1 rk2 a b = set_xor zero rank1 rank2 a b.
Proof. exact limited_collator_agrees. Qed.

Theorem C15_pool_results_depth_limited_first_operand :
  forall (zero : val) (p : pool) (a b m : nat) (x : list val) (r2 : val -> val -> option comparison) (y : list val),
         get p a = OSetL m x ->
         set_operand (get p b) = Some (r2, y) ->
         step zero p (SAnd a b) = new_like p (OSetL m x) (set_and_p zero (rk_lim m) r2 x y) /\
         step zero p (SOr a b) = new_like p (OSetL m x) (set_or_p zero (rk_lim m) x y) /\
         step zero p (SSans a b) = new_like p (OSetL m x) (set_sans_p zero (rk_lim m) x y) /\
         step zero p (SXor a b) = new_like p (OSetL m x) (set_xor_p zero (rk_lim m) r2 x y).
Proof. exact pool_set_algebra_limited. Qed.

Theorem C15_a_class_function_that_panics_changes_nothing :
  forall (zero : val) (p : pool) (o : op) (p' : pool),
         is_class_call o = true -> step zero p o = (p', RPanic) -> p' = p.
Proof. exact failed_class_call_changes_nothing. Qed.

(* non-vacuity: {[], [[2]]} (default collator) and {[], [[1]]} (maximum depth 1).  And finds [] in the second Set, then
   panics on [[2]] against [[1]] (two levels); Or/Sans/Xor copy the first operand with the first operand's collator:
   with the ordinary Set first they succeed or panic in the second operand's search; nil operands panic; every failed
   call leaves the pool as it was and the same function on ordinary operands then gives the ordinary result *)
Example C15_depth_limited_example :
  step VNilSlice ex_lim_pool (SAnd 0 1) = (ex_lim_pool, RPanic) /\
  step VNilSlice ex_lim_pool (SAnd 1 0) = (ex_lim_pool ++ [OSetL 1 [lv_e]], RNew) /\
  step VNilSlice ex_lim_pool (SOr 1 0) = (ex_lim_pool, RPanic) /\
  step VNilSlice ex_lim_pool (SOr 0 1) = (ex_lim_pool ++ [OSet 0 [lv_e; lv_d1; lv_d2]], RNew) /\
  step VNilSlice ex_lim_pool (NilCall FOr 0 false) = (ex_lim_pool, RPanic) /\
  step VNilSlice ex_lim_pool (SAnd 0 0) = (ex_lim_pool ++ [OSet 0 [lv_e; lv_d2]], RNew) /\
  is_class_call (SAnd 0 1) = true.
Proof. vm_compute. repeat split; reflexivity. Qed.


Print Assumptions C15_and_is_intersection.
Print Assumptions C15_or_is_union.
Print Assumptions C15_sans_is_difference.
Print Assumptions C15_xor_is_symmetric_difference.
Print Assumptions C15_default_collator_and_is_intersection.
Print Assumptions C15_default_collator_or_is_union.
Print Assumptions C15_default_collator_sans_is_difference.
Print Assumptions C15_default_collator_xor_is_symmetric_difference.
Print Assumptions C15_raw_default_and.
Print Assumptions C15_raw_default_or.
Print Assumptions C15_raw_default_sans.
Print Assumptions C15_raw_default_xor.
Print Assumptions C15_pool_results.
Print Assumptions C15_operands_and_everything_else_unchanged.
Print Assumptions C15_later_changes_to_an_operand_do_not_reach_the_result.
Print Assumptions C15_later_changes_to_the_result_do_not_reach_an_operand.
Print Assumptions C15_depth_limited_collators_same_results_unless_they_panic.
Print Assumptions C15_pool_results_depth_limited_first_operand.
Print Assumptions C15_a_class_function_that_panics_changes_nothing.
