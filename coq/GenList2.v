(* GenList2.v — continuation of GenList.v: the generated list.InsertValues and list.RemoveValues (nested loop / two
   target arrays) compute Seq.insert_values / Seq.remove_values.  Compiled by ./check C01. *)
From Verif Require Import Base Seq ListImpl ListMachine SeqProofs MiniGo GenSrc GenRep GenLib GenIter GenSeq GenList.

Section GenList2.
Variable A : Type.
Variable zero : A.
Variable ext : ident -> ident -> val A -> list (val A) -> option (val A).
Notation call_at F := (i_call (interp_at A zero ext prog F)).
Notation seq_operand := (seq_operand A zero ext).

(* ---------- list.InsertValues ---------- *)
(* variables: v slot values size array iterator index iterator2 value existing.
   The outer loop is InsertValue's with a copy loop (over a fresh iterator2 of the operand) at the slot. The
   variables declared inside the loops live in the rest [T] of the environment, in the order in which they were
   first declared at run time; the inner loop needs to find its iterator2 there. *)
Definition ivs_loop : stmt := nth 6 (fn_body fn_list__InsertValues) SBreak.
Definition ivs_cond : option expr := Eval cbv in match ivs_loop with SFor _ c _ _ => c | _ => None end.
Definition ivs_body : list stmt := Eval cbv in match ivs_loop with SFor _ _ _ b => b | _ => [] end.
Definition ivs_inner : stmt :=
  Eval cbv in match ivs_body with [SIf _ [_; l2] _] => l2 | _ => SBreak end.
Definition ivs_cond2 : option expr := Eval cbv in match ivs_inner with SFor _ c _ _ => c | _ => None end.
Definition ivs_body2 : list stmt := Eval cbv in match ivs_inner with SFor _ _ _ b => b | _ => [] end.

Section Ivs.
Variables (n : val A) (l : list A) (slot : nat) (sv : val A) (src : list A) (size : nat).
Hypothesis OP : seq_operand sv src.
Hypothesis HS : (Z.of_nat size < two63)%Z.
Hypothesis HSl : (Z.of_nat slot < two63)%Z.
Definition ivs_env arr it (idx : nat) : env A :=
  [(1%positive, lst_val n l); (2%positive, VInt (Z.of_nat slot)); (3%positive, sv); (4%positive, VInt (Z.of_nat size));
   (5%positive, arr_val arr); (6%positive, it_rep A VNil it); (7%positive, VInt (Z.of_nat idx))].
Definition ivs_run F arr it idx T :=
  i_loop (interp_at A zero ext prog F) ivs_cond None ivs_body (ivs_env arr it idx ++ T).
Definition ivs_run2 F arr it idx T :=
  i_loop (interp_at A zero ext prog F) ivs_cond2 None ivs_body2 (ivs_env arr it idx ++ T).

(* the inner copy loop; its iterator is variable 8, somewhere in T *)
Lemma ivs2_exit F arr it idx T it2 : 30 <= F -> lookup 8%positive T = Some (it_rep A VNil it2) -> has_next it2 = false ->
  exists T', ivs_run2 (S F) arr it idx T = ROk (SgNormal, ivs_env arr it idx ++ T').
Proof.
  intros HF L8 H. eexists. unfold ivs_run2. loop_enter F 30. unfold ivs_cond2, ivs_body2, ivs_env. gorun.
  rewrite L8. gorun. rewrite L8. gorun.
  rewrite (gen_HasNext A zero ext) by lia. rewrite H. gorun. rewrite L8. gorun. reflexivity.
Qed.

Lemma ivs2_step F arr it idx T it2 arr' : 30 <= F -> lookup 8%positive T = Some (it_rep A VNil it2) -> has_next it2 = true ->
  arr_set arr (S idx) (fst (get_next zero it2)) = Ret arr' ->
  exists T', ivs_run2 (S F) arr it idx T = ivs_run2 F arr' it (S idx) T' /\
             lookup 8%positive T' = Some (it_rep A VNil (snd (get_next zero it2))).
Proof.
  intros HF L8 H EA. pose proof (gen_arr_set A zero ext arr idx (fst (get_next zero it2))) as GS. rewrite EA in GS.
  eexists. split.
  - unfold ivs_run2. loop_enter F 30. unfold ivs_cond2, ivs_body2, ivs_env. gorun.
    rewrite L8. gorun. rewrite L8. gorun.
    rewrite (gen_HasNext A zero ext) by lia. rewrite H. gorun. rewrite L8. gorun.
    rewrite lookup_set_same. gorun. rewrite lookup_set_same. gorun.
    rewrite (gen_GetNext A zero ext) by lia. gorun. rewrite lookup_set_same. gorun.
    rewrite lookup_set_same. gorun.
    rewrite GS by lia. gorun. replace (Z.of_nat idx + 1)%Z with (Z.of_nat (S idx)) by lia. reflexivity.
  - rewrite lookup_set_other by discriminate. rewrite lookup_set_same. reflexivity.
Qed.

Lemma ivs2_sim : forall mf idx it2 arr it T F, lookup 8%positive T = Some (it_rep A VNil it2) -> mf + 31 <= F ->
  match copy_loop zero mf idx it2 arr with
  | Ret (idx', arr') => exists T', ivs_run2 F arr it idx T = ROk (SgNormal, ivs_env arr' it idx' ++ T')
  | _ => True
  end.
Proof.
  induction mf as [|mf IH]; intros idx it2 arr it T F L8 HF; (destruct F as [|F]; [lia|]);
    cbn [copy_loop]; destruct (has_next it2) eqn:HN; cbn [negb].
  - exact I.
  - apply (ivs2_exit F arr it idx T it2); assumption || lia.
  - destruct (get_next zero it2) as [v it2'] eqn:EN.
    destruct (arr_set arr (S idx) v) as [arr'| |] eqn:EA; cbn [out_bind]; try exact I.
    destruct (ivs2_step F arr it idx T it2 arr') as [T' [ST L8']]; try (rewrite ?EN; assumption || lia).
    rewrite ST. rewrite EN in L8'. cbn [snd] in L8'.
    specialize (IH (S idx) it2' arr' it T' F L8' ltac:(lia)).
    destruct (copy_loop zero mf (S idx) it2' arr') as [[idx' arr'']| |]; exact IH.
  - apply (ivs2_exit F arr it idx T it2); assumption || lia.
Qed.

(* the outer loop *)
Lemma ivs_exit F arr it idx T : 30 <= F -> size <= idx ->
  ivs_run (S F) arr it idx T = ROk (SgNormal, ivs_env arr it idx ++ T).
Proof. intros HF H. unfold ivs_run. loop_enter F 30. unfold ivs_cond, ivs_body, ivs_env. gogo. reflexivity. Qed.

Lemma ivs_step_other F arr it idx T arr' : 30 <= F -> idx < size -> idx <> slot ->
  arr_set arr (S idx) (fst (get_next zero it)) = Ret arr' ->
  ivs_run (S F) arr it idx T =
  ivs_run F arr' (snd (get_next zero it)) (S idx) (set 10%positive (VElem (fst (get_next zero it))) T).
Proof.
  intros HF H E EA. pose proof (gen_arr_set A zero ext arr idx (fst (get_next zero it))) as GS. rewrite EA in GS.
  unfold ivs_run. loop_enter F 30. unfold ivs_cond, ivs_body, ivs_env. gogo.
  rewrite (gen_GetNext A zero ext) by lia. gorun. rewrite lookup_set_same. gorun.
  rewrite GS by lia. gorun. replace (Z.of_nat idx + 1)%Z with (Z.of_nat (S idx)) by lia. reflexivity.
Qed.

Lemma ivs_step_at F arr it idx T idx' arr' : length src + 80 <= F -> idx < size -> idx = slot ->
  copy_loop zero (S (length src)) idx (it_make src) arr = Ret (idx', arr') ->
  exists T', ivs_run (S F) arr it idx T = ivs_run F arr' it idx' T'.
Proof.
  intros HF H E CL.
  unfold ivs_run. loop_enter F 45. unfold ivs_cond, ivs_body, ivs_env. gogo.
  op_iter OP. gorun.
  match goal with |- context[i_loop (interp_at A zero ext prog ?FF) ?c ?p ?b (?e1 :: ?e2 :: ?e3 :: ?e4 :: ?e5 :: ?e6 :: ?e7 :: ?TT)] =>
    pose proof (ivs2_sim (S (length src)) idx (it_make src) arr it TT FF ltac:(apply lookup_set_same) ltac:(lia)) as SIM;
    change (i_loop (interp_at A zero ext prog FF) c p b (e1 :: e2 :: e3 :: e4 :: e5 :: e6 :: e7 :: TT))
      with (ivs_run2 FF arr it idx TT)
  end.
  rewrite CL in SIM. destruct SIM as [T' SIM]. exists T'. rewrite SIM. unfold ivs_env. gorun. reflexivity.
Qed.

Lemma ivs_sim : forall mf idx it arr T F, mf + length src + 81 <= F ->
  match insert_values_loop A zero mf size slot src idx it arr with
  | Ret arr' => exists idx' it' T', ivs_run F arr it idx T = ROk (SgNormal, ivs_env arr' it' idx' ++ T')
  | _ => True
  end.
Proof.
  induction mf as [|mf IH]; intros idx it arr T F HF; (destruct F as [|F]; [lia|]);
    cbn [insert_values_loop]; destruct (Nat.leb_spec size idx) as [Hd|Hd].
  - rewrite ivs_exit by (assumption || lia). eexists _, _, _. reflexivity.
  - exact I.
  - rewrite ivs_exit by (assumption || lia). eexists _, _, _. reflexivity.
  - destruct (Nat.eqb_spec idx slot) as [E|NE].
    + destruct (copy_loop zero (S (length src)) idx (it_make src) arr) as [[idx' arr']| |] eqn:CL; cbn [out_bind fst snd]; try exact I.
      destruct (ivs_step_at F arr it idx T idx' arr') as [T' ST]; try (assumption || lia).
      rewrite ST. apply IH. lia.
    + destruct (get_next zero it) as [e it'] eqn:EN.
      destruct (arr_set arr (S idx) e) as [arr'| |] eqn:EA; cbn [out_bind]; try exact I.
      rewrite (ivs_step_other F arr it idx T arr') by (rewrite ?EN; assumption || lia).
      rewrite EN. cbn [fst snd]. apply IH. lia.
Qed.
End Ivs.

Lemma gen_list_InsertValues n l (slot : nat) sv src F :
  seq_operand sv src -> (Z.of_nat (length l + length src) < two63)%Z -> (Z.of_nat slot < two63)%Z ->
  2 * (length l + length src) + 200 <= F ->
  call_at F (lst_val n l) id_InsertValues [VInt (Z.of_nat slot); sv] =
  match insert_values l slot src with Ret l' => ROk (VTuple [], lst_val n l') | _ => RPanic (lst_val n l) end.
Proof.
  intros OP HL HSl HF. pose proof (insert_values_refines A zero l slot src) as R.
  unfold insert_values_impl, insert_values in *.
  fuel F 100. gocall. rewrite (gen_validateSlot A zero ext) by lia.
  destruct (Nat.ltb_spec (length l) slot) as [Hs|Hs]; [reflexivity|]. gorun.
  op_empty OP. gorun. destruct src as [|s0 src']; cbn [length Nat.eqb]; gorun.
  { cbn [app]. rewrite firstn_skipn. reflexivity. }
  set (src := s0 :: src') in *. change (S (length src')) with (length src) in *.
  rewrite (gen_list_GetSize A zero ext) by lia. gorun. op_size OP. gorun. gogo.
  rewrite (gen_list_GetClass A zero ext) by lia. gorun. rewrite (gen_listClass_Notation A zero ext) by lia. gorun.
  replace (Z.of_nat (length l) + Z.of_nat (length src))%Z with (Z.of_nat (length l + length src)) by lia.
  rewrite (gen_arrayClass_Make A zero ext) by lia. gorun.
  rewrite (gen_list_GetIterator A zero ext) by lia. gorun.
  set (size := length l + length src) in *.
  match goal with |- context[i_loop (interp_at A zero ext prog ?FF) ?c ?p ?b ?en] =>
    pose proof (ivs_sim n l slot sv src size OP ltac:(lia) HSl (S size) 0 (it_make l) (arr_make zero size) [] FF ltac:(lia)) as SIM;
    change (i_loop (interp_at A zero ext prog FF) c p b en)
      with (ivs_run n l slot sv size FF (arr_make zero size) (it_make l) 0 [])
  end.
  rewrite R in SIM. destruct SIM as [idx' [it' [T' SIM]]]. rewrite SIM. unfold ivs_env. gorun. reflexivity.
Qed.

(* ---------- list.RemoveValues ---------- *)
(* variables: v first last delta size Array removed array counter arrayIndex removedIndex iterator existing *)
Lemma gen_arrayClass_Make_panic fs z F : (z < 0 \/ two63 <= z)%Z -> 10 <= F ->
  call_at F (VObj id_arrayClass_ fs) id_Make [VInt z] = RPanic (VObj id_arrayClass_ fs).
Proof. intros HZ HF. fuel F 10. gocall. gogo. all: reflexivity. Qed.

Definition rvs_loop : stmt := nth 11 (fn_body fn_list__RemoveValues) SBreak.
Definition rvs_cond : option expr := Eval cbv in match rvs_loop with SFor _ c _ _ => c | _ => None end.
Definition rvs_body : list stmt := Eval cbv in match rvs_loop with SFor _ _ _ b => b | _ => [] end.

Section Rvs.
Variables (n : val A) (l : list A) (first last : nat) (delta size : Z) (cls : val A).
Definition rvs_env removed arr (counter ai ri : nat) it : env A :=
  [(1%positive, lst_val n l); (2%positive, VInt (Z.of_nat first)); (3%positive, VInt (Z.of_nat last));
   (4%positive, VInt delta); (5%positive, VInt size); (6%positive, cls); (7%positive, arr_val removed);
   (8%positive, arr_val arr); (9%positive, VInt (Z.of_nat counter)); (10%positive, VInt (Z.of_nat ai));
   (11%positive, VInt (Z.of_nat ri)); (12%positive, it_rep A VNil it)].
Definition rvs_run F removed arr counter ai ri it T :=
  i_loop (interp_at A zero ext prog F) rvs_cond None rvs_body (rvs_env removed arr counter ai ri it ++ T).

Lemma rvs_exit F removed arr counter ai ri it T : 30 <= F -> has_next it = false ->
  rvs_run (S F) removed arr counter ai ri it T = ROk (SgNormal, rvs_env removed arr counter ai ri it ++ T).
Proof.
  intros HF H. unfold rvs_run. loop_enter F 30. unfold rvs_cond, rvs_body, rvs_env. gorun.
  rewrite (gen_HasNext A zero ext) by lia. rewrite H. gorun. reflexivity.
Qed.

Lemma rvs_step_keep F removed arr counter ai ri it T arr' : 30 <= F -> has_next it = true ->
  (S counter <? first) || (last <? S counter) = true ->
  arr_set arr (S ai) (fst (get_next zero it)) = Ret arr' ->
  rvs_run (S F) removed arr counter ai ri it T =
  rvs_run F removed arr' (S counter) (S ai) ri (snd (get_next zero it)) (set 13%positive (VElem (fst (get_next zero it))) T).
Proof.
  intros HF H HC EA. pose proof (gen_arr_set A zero ext arr ai (fst (get_next zero it))) as GS. rewrite EA in GS.
  apply orb_true_iff in HC. rewrite !Nat.ltb_lt in HC.
  unfold rvs_run. loop_enter F 30. unfold rvs_cond, rvs_body, rvs_env. gorun.
  rewrite (gen_HasNext A zero ext) by lia. rewrite H. gorun.
  rewrite (gen_GetNext A zero ext) by lia. gorun. rewrite ?lookup_set_same. gogo.
  all: rewrite ?lookup_set_same; gorun; rewrite GS by lia; gorun.
  all: replace (Z.of_nat counter + 1)%Z with (Z.of_nat (S counter)) by lia;
       replace (Z.of_nat ai + 1)%Z with (Z.of_nat (S ai)) by lia; reflexivity.
Qed.

Lemma rvs_step_drop F removed arr counter ai ri it T removed' : 30 <= F -> has_next it = true ->
  (S counter <? first) || (last <? S counter) = false ->
  arr_set removed (S ri) (fst (get_next zero it)) = Ret removed' ->
  rvs_run (S F) removed arr counter ai ri it T =
  rvs_run F removed' arr (S counter) ai (S ri) (snd (get_next zero it)) (set 13%positive (VElem (fst (get_next zero it))) T).
Proof.
  intros HF H HC EA. pose proof (gen_arr_set A zero ext removed ri (fst (get_next zero it))) as GS. rewrite EA in GS.
  apply orb_false_iff in HC. rewrite !Nat.ltb_ge in HC.
  unfold rvs_run. loop_enter F 30. unfold rvs_cond, rvs_body, rvs_env. gorun.
  rewrite (gen_HasNext A zero ext) by lia. rewrite H. gorun.
  rewrite (gen_GetNext A zero ext) by lia. gorun. rewrite ?lookup_set_same. gogo.
  all: rewrite ?lookup_set_same; gorun; rewrite GS by lia; gorun.
  all: replace (Z.of_nat counter + 1)%Z with (Z.of_nat (S counter)) by lia;
       replace (Z.of_nat ri + 1)%Z with (Z.of_nat (S ri)) by lia; reflexivity.
Qed.

Lemma rvs_sim : forall mf counter ai ri it arr removed T F, mf + 31 <= F ->
  match remove_values_loop A zero mf first last counter ai ri it arr removed with
  | Ret (removed', arr') => exists counter' ai' ri' it' T',
      rvs_run F removed arr counter ai ri it T = ROk (SgNormal, rvs_env removed' arr' counter' ai' ri' it' ++ T')
  | _ => True
  end.
Proof.
  induction mf as [|mf IH]; intros counter ai ri it arr removed T F HF; (destruct F as [|F]; [lia|]);
    cbn [remove_values_loop]; destruct (has_next it) eqn:HN; cbn [negb].
  - exact I.
  - rewrite rvs_exit by (assumption || lia). eexists _, _, _, _, _. reflexivity.
  - destruct (get_next zero it) as [v it'] eqn:EN.
    destruct ((S counter <? first) || (last <? S counter)) eqn:HC.
    + destruct (arr_set arr (S ai) v) as [arr'| |] eqn:EA; cbn [out_bind]; try exact I.
      rewrite (rvs_step_keep F removed arr counter ai ri it T arr') by (rewrite ?EN; assumption || lia).
      rewrite EN. cbn [fst snd]. apply IH. lia.
    + destruct (arr_set removed (S ri) v) as [removed'| |] eqn:EA; cbn [out_bind]; try exact I.
      rewrite (rvs_step_drop F removed arr counter ai ri it T removed') by (rewrite ?EN; assumption || lia).
      rewrite EN. cbn [fst snd]. apply IH. lia.
  - rewrite rvs_exit by (assumption || lia). eexists _, _, _, _, _. reflexivity.
Qed.
End Rvs.

Lemma gen_list_RemoveValues n l i j F : (Z.of_nat (length l) + 1 < two63)%Z -> length l + 160 <= F ->
  call_at F (lst_val n l) id_RemoveValues [VInt i; VInt j] =
  match remove_values l i j with
  | Ret (r, l') => ROk (arr_val r, lst_val n l') | _ => RPanic (lst_val n l)
  end.
Proof.
  intros HL HF. pose proof (remove_values_refines A zero l i j) as R. unfold remove_values_impl, remove_values in *.
  fuel F 120. gocall. rewrite (gen_toNormalized A zero ext) by lia.
  pose proof (pos_some (length l) i) as Pi. destruct (pos (length l) i) as [a|]; [|reflexivity]. specialize (Pi a eq_refl).
  gorun. rewrite (gen_toNormalized A zero ext) by lia.
  pose proof (pos_some (length l) j) as Pj. destruct (pos (length l) j) as [b|]; [|reflexivity]. specialize (Pj b eq_refl).
  gorun. rewrite (gen_list_GetSize A zero ext) by lia. gorun.
  rewrite (gen_list_GetClass A zero ext) by lia. gorun. rewrite (gen_listClass_Notation A zero ext) by lia. gorun.
  destruct (Nat.ltb_spec (S b + 1) (S a)) as [H1|H1]; destruct (Nat.ltb_spec (S b) a) as [H2|H2]; try lia.
  - (* first > last + 1: delta wraps around, make([]V, delta) panics *)
    gogo. rewrite gen_arrayClass_Make_panic by (unfold two64, two63 in *; lia). gorun. reflexivity.
  - gogo. remember (S b + 1 - S a) as delta eqn:Ed. remember (length l - delta) as size eqn:Es.
    replace (Z.of_nat (S b) - Z.of_nat (S a) + 1)%Z with (Z.of_nat delta) by lia.
    rewrite (gen_arrayClass_Make A zero ext) by lia. gorun.
    replace (Z.of_nat (length l) - Z.of_nat delta)%Z with (Z.of_nat size) by lia.
    rewrite (gen_arrayClass_Make A zero ext) by lia. gorun.
    rewrite (gen_list_GetIterator A zero ext) by lia. gorun.
    match goal with |- context[i_loop (interp_at A zero ext prog ?FF) ?c ?p ?b0 ?en] =>
      pose proof (rvs_sim n l (S a) (S b) (Z.of_nat delta) (Z.of_nat size) (VObj id_arrayClass_ []) (S (length l)) 0 0 0 (it_make l)
                    (arr_make zero size) (arr_make zero delta) [] FF ltac:(lia)) as SIM;
      change (i_loop (interp_at A zero ext prog FF) c p b0 en)
        with (rvs_run n l (S a) (S b) (Z.of_nat delta) (Z.of_nat size) (VObj id_arrayClass_ []) FF (arr_make zero delta) (arr_make zero size) 0 0 0 (it_make l) [])
    end.
    rewrite R in SIM. destruct SIM as [c' [ai' [ri' [it' [T' SIM]]]]]. rewrite SIM. unfold rvs_env. gorun. reflexivity.
Qed.

End GenList2.
