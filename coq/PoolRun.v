(* PoolRun.v — decoders and comparison used by the correspondence check for the pool model.
   A case is a history (zero value, list of steps); each step carries the op, the result the
   implementation returned and the objects of the pool that the implementation changed or
   created in that step.  No proofs. *)
From Verif Require Import Base Value Seq Coll Pool.

Definition ret_eqb (a b : ret) : bool :=
  match a, b with
  | RUnit, RUnit | RNew, RNew | RPanic, RPanic | RHang, RHang | RPartial, RPartial => true
  | RVal x, RVal y => val_eqb x y
  | RBool x, RBool y => Bool.eqb x y
  | RInt x, RInt y => Z.eqb x y
  | _, _ => false
  end.

Definition vlist_eqb := list_eqb val_eqb.
Definition kv_eqb (a b : val * val) : bool := val_eqb (fst a) (fst b) && val_eqb (snd a) (snd b).

(* unordered comparison of association lists with distinct keys *)
Definition kvs_perm_eqb (a b : list (val * val)) : bool :=
  Nat.eqb (length a) (length b) &&
  forallb (fun kv => existsb (kv_eqb kv) b) a &&
  forallb (fun kv => existsb (kv_eqb kv) a) b.

Definition obj_eqb (a b : obj) : bool :=
  match a, b with
  | OSlice x, OSlice y | OArr x, OArr y | OLst x, OLst y => vlist_eqb x y
  | OGoMap x, OGoMap y | OMap x, OMap y => kvs_perm_eqb x y
  | OSet c x, OSet d y | OSetL c x, OSetL d y => Nat.eqb c d && vlist_eqb x y
  | OStk c x, OStk d y | OQue c x, OQue d y => Nat.eqb c d && vlist_eqb x y
  | OCat x, OCat y => list_eqb kv_eqb x y
  | OIter z x k, OIter w y j => val_eqb z w && vlist_eqb x y && Nat.eqb k j
  | ODead, ODead => true
  | _, _ => false
  end.

(* one step of a history: the op, the result the implementation returned, the objects whose observation
   CHANGED in this step (with respect to the last time each was observed) or that were created, and the
   slots that were NOT observed in this step (round 3: observation policies; [] = every object observed) *)
Record pstep := { ps_op : op; ps_ret : ret; ps_diff : list (nat * obj); ps_skip : list nat }.
Record hist := { h_zero : val; h_steps : list pstep }.

Fixpoint diff_lookup (d : list (nat * obj)) (s : nat) : option obj :=
  match d with
  | [] => None
  | (k, o) :: t => if Nat.eqb k s then Some o else diff_lookup t s
  end.

(* the pool as the implementation showed it so far: every slot holds what was seen the last time the slot
   was observed *)
Definition apply_diff (q : pool) (d : list (nat * obj)) : pool :=
  let n := fold_right (fun kv acc => Nat.max (S (fst kv)) acc) (length q) d in
  map (fun s => match diff_lookup d s with Some o => o | None => nth s q ODead end) (seq 0 n).

(* the model's new pool p' against the observed pool q': same number of objects (a created object is always
   observed in the step that creates it), and EVERY slot observed in this step shows the model's object;
   a slot that is not observed in this step is compared the next time it is observed *)
Definition obs_matches (p' q' : pool) (skip : list nat) : bool :=
  Nat.eqb (length p') (length q') &&
  forallb (fun s => existsb (Nat.eqb s) skip || obj_eqb (nth s p' ODead) (nth s q' ODead)) (seq 0 (length p')).

Fixpoint check_steps (zero : val) (p q : pool) (steps : list pstep) (k : nat) : option nat :=
  match steps with
  | [] => None
  | s :: rest =>
    let '(p', r) := step zero p (ps_op s) in
    let q' := apply_diff q (ps_diff s) in
    if ret_eqb r (ps_ret s) && obs_matches p' q' (ps_skip s)
    then check_steps zero p' q' rest (S k)
    else Some k
  end.

Definition check_hist (h : hist) : option nat := check_steps (h_zero h) [] [] (h_steps h) 0.

Fixpoint mismatches_from (n : nat) (cases : list hist) : list (nat * nat) :=
  match cases with
  | [] => []
  | h :: t =>
    match check_hist h with
    | None => mismatches_from (S n) t
    | Some k => (n, k) :: mismatches_from (S n) t
    end
  end.
Definition mismatches (cases : list hist) : list (nat * nat) := mismatches_from 0 cases.

(* every object observed in every step *)
Definition fully_observed (h : hist) : bool :=
  forallb (fun s => match ps_skip s with [] => true | _ => false end) (h_steps h).

(* what the model computes for a history (used for replay files and debugging) *)
Fixpoint model_trace (zero : val) (p : pool) (ops : list op) : list (ret * pool) :=
  match ops with
  | [] => []
  | o :: rest => let '(p', r) := step zero p o in (r, p') :: model_trace zero p' rest
  end.

(* report for one step: (model result, observed result), and for every slot OBSERVED in this step on which
   model and observation disagree: (slot, model object, observed object); [q] is the observed pool before
   the step *)
Definition step_report_obs (zero : val) (p q : pool) (s : pstep) : (ret * ret) * list (nat * obj * obj) :=
  let '(p', r) := step zero p (ps_op s) in
  let q' := apply_diff q (ps_diff s) in
  let n := Nat.max (length p') (length q') in
  ((r, ps_ret s),
   flat_map (fun k =>
     if existsb (Nat.eqb k) (ps_skip s) || obj_eqb (nth k p' ODead) (nth k q' ODead) then []
     else [(k, nth k p' ODead, nth k q' ODead)]) (seq 0%nat n)).

Fixpoint obs_after (q : pool) (steps : list pstep) : pool :=
  match steps with
  | [] => q
  | s :: rest => obs_after (apply_diff q (ps_diff s)) rest
  end.

Fixpoint pool_after (zero : val) (p : pool) (ops : list op) : pool :=
  match ops with
  | [] => p
  | o :: rest => pool_after zero (fst (step zero p o)) rest
  end.

(* the report for step k of a history *)
Definition hist_report (h : hist) (k : nat) :=
  let before := pool_after (h_zero h) [] (firstn k (map ps_op (h_steps h))) in
  let seen := obs_after [] (firstn k (h_steps h)) in
  step_report_obs (h_zero h) before seen (nth k (h_steps h) {| ps_op := IsEmpty 0; ps_ret := RBad; ps_diff := []; ps_skip := [] |}).
