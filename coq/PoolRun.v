(* PoolRun.v — decoders and comparison used by the correspondence check for the pool model.
   A case is a history (zero value, list of steps); each step carries the op, the result the
   implementation returned and the objects of the pool that the implementation changed or
   created in that step.  No proofs. *)
From Verif Require Import Base Value Seq Coll Pool.

Definition ret_eqb (a b : ret) : bool :=
  match a, b with
  | RUnit, RUnit | RNew, RNew | RPanic, RPanic | RHang, RHang => true
  | RVal x, RVal y => val_eqb x y
  | RBool x, RBool y => Bool.eqb x y
  | RInt x, RInt y => Z.eqb x y
  | _, _ => false
  end.

Definition vlist_eqb := list_eqb val_eqb.
Definition kv_eqb (a b : val * val) : bool := val_eqb (fst a) (fst b) && val_eqb (snd a) (snd b).

(* unordered comparison of association lists with distinct keys *)
Definition kvs_perm_eqb (a b : list (val * val)) : bool :=
  Nat.eqb (length a) (length b) &&
  forallb (fun kv => existsb (kv_eqb kv) b) a &&
  forallb (fun kv => existsb (kv_eqb kv) a) b.

Definition obj_eqb (a b : obj) : bool :=
  match a, b with
  | OSlice x, OSlice y | OArr x, OArr y | OLst x, OLst y => vlist_eqb x y
  | OGoMap x, OGoMap y | OMap x, OMap y => kvs_perm_eqb x y
  | OSet c x, OSet d y => Nat.eqb c d && vlist_eqb x y
  | OStk c x, OStk d y | OQue c x, OQue d y => Nat.eqb c d && vlist_eqb x y
  | OCat x, OCat y => list_eqb kv_eqb x y
  | OIter z x k, OIter w y j => val_eqb z w && vlist_eqb x y && Nat.eqb k j
  | ODead, ODead => true
  | _, _ => false
  end.

Record pstep := { ps_op : op; ps_ret : ret; ps_diff : list (nat * obj) }.
Record hist := { h_zero : val; h_steps : list pstep }.

Fixpoint diff_lookup (d : list (nat * obj)) (s : nat) : option obj :=
  match d with
  | [] => None
  | (k, o) :: t => if Nat.eqb k s then Some o else diff_lookup t s
  end.

(* the model's new pool p' agrees with "old pool p updated by the observed diff" *)
Definition pool_matches (p p' : pool) (d : list (nat * obj)) : bool :=
  forallb (fun kv => Nat.ltb (fst kv) (length p')) d &&
  forallb (fun s =>
    match diff_lookup d s with
    | Some o => obj_eqb (nth s p' ODead) o
    | None => Nat.ltb s (length p) && obj_eqb (nth s p' ODead) (nth s p ODead)
    end) (seq 0 (length p')) &&
  Nat.leb (length p) (length p').

Fixpoint check_steps (zero : val) (p : pool) (steps : list pstep) (k : nat) : option nat :=
  match steps with
  | [] => None
  | s :: rest =>
    let '(p', r) := step zero p (ps_op s) in
    if ret_eqb r (ps_ret s) && pool_matches p p' (ps_diff s)
    then check_steps zero p' rest (S k)
    else Some k
  end.

Definition check_hist (h : hist) : option nat := check_steps (h_zero h) [] (h_steps h) 0.

Fixpoint mismatches_from (n : nat) (cases : list hist) : list (nat * nat) :=
  match cases with
  | [] => []
  | h :: t =>
    match check_hist h with
    | None => mismatches_from (S n) t
    | Some k => (n, k) :: mismatches_from (S n) t
    end
  end.
Definition mismatches (cases : list hist) : list (nat * nat) := mismatches_from 0 cases.

(* what the model computes for a history (used for replay files and debugging) *)
Fixpoint model_trace (zero : val) (p : pool) (ops : list op) : list (ret * pool) :=
  match ops with
  | [] => []
  | o :: rest => let '(p', r) := step zero p o in (r, p') :: model_trace zero p' rest
  end.

(* report for one step: (model result, observed result), and for every slot on which model
   and observation disagree: (slot, model object, observed object or the old object) *)
Definition step_report (zero : val) (p : pool) (s : pstep) : (ret * ret) * list (nat * obj * obj) :=
  let '(p', r) := step zero p (ps_op s) in
  let n := Nat.max (length p') (S (fold_right Nat.max 0%nat (map fst (ps_diff s)))) in
  ((r, ps_ret s),
   flat_map (fun k =>
     let expected := match diff_lookup (ps_diff s) k with Some o => o | None => nth k p ODead end in
     if obj_eqb (nth k p' ODead) expected then [] else [(k, nth k p' ODead, expected)]) (seq 0%nat n)).

Fixpoint pool_after (zero : val) (p : pool) (ops : list op) : pool :=
  match ops with
  | [] => p
  | o :: rest => pool_after zero (fst (step zero p o)) rest
  end.
