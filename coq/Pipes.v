(* Pipes.v — the three program families of property C06 as configurations of the interleaving
   model Conc.v (the shapes produced by genPipes in harness/conc.go).  Definitions only.
   Queue 0 is the input, queues 1..k the outputs of Fork / Split, queue k+1 the output of Join;
   every queue has capacity cap.  The feeder adds every element of vs to queue 0 and closes it;
   one reader per final output reads until ok = false; the last thread waits for the helpers. *)
From Verif Require Import Base Conc.
Close Scope Z_scope.
Open Scope nat_scope.

Definition outs (k : nat) : list nat := seq 1 k.
Definition feeder (vs : list Z) : thread := client (map (CAdd 0) vs ++ [CClose 0]).
Definition waiter : thread := client [CWait].

Definition fork_prog (vs : list Z) (k cap : nat) : config :=
  {| queues := repeat (mkq cap) (S k); wg := 1;
     threads := fork_helper 0 (outs k) :: feeder vs :: map consumer (outs k) ++ [waiter] |}.

Definition split_prog (vs : list Z) (k cap : nat) : config :=
  {| queues := repeat (mkq cap) (S k); wg := 1;
     threads := split_helper 0 (outs k) :: feeder vs :: map consumer (outs k) ++ [waiter] |}.

Definition splitjoin_prog (vs : list Z) (k cap : nat) : config :=
  {| queues := repeat (mkq cap) (S (S k)); wg := 2;
     threads := [split_helper 0 (outs k); join_helper (outs k) (S k); feeder vs;
                 consumer (S k); waiter] |}.

(* what a reader thread has received so far: the values of its RHead v true results, in order *)
Fixpoint received (rs : list result) : list Z :=
  match rs with
  | [] => []
  | RHead v true :: t => v :: received t
  | _ :: t => received t
  end.
(* the reader was told that the queue is closed *)
Definition told_closed (rs : list result) : Prop := exists v, In (RHead v false) rs.

Definition no_stuck (c : config) : Prop := forall t, t < length (threads c) -> tph (gett c t) <> PStuck.
Definition all_closed_empty (c : config) : Prop :=
  forall q, q < length (queues c) ->
    qclosed (getq c q) = true /\ qvals (getq c q) = [] /\ qtok (getq c q) = 0.

(* a deterministic complete schedule, for the examples: always the lowest (or highest) enabled thread *)
Fixpoint complete_sched (hi : bool) (c : config) (fuel : nat) : list nat :=
  match fuel with
  | 0 => []
  | S f =>
    let ids := seq 0 (length (threads c)) in
    match find (enabled c) (if hi then rev ids else ids) with
    | None => []
    | Some t => match step c t with Some c' => t :: complete_sched hi c' f | None => [] end
    end
  end.
(* no thread can move *)
Definition quiet_b (c : config) : bool :=
  forallb (fun t => negb (enabled c t)) (seq 0 (length (threads c))).
Definition told_closed_b (rs : list result) : bool :=
  existsb (fun r => match r with RHead _ false => true | _ => false end) rs.
