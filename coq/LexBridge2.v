(* LexBridge2.v -- first-token lemmas for floats, runes and strings: when the input starts
   with a well-formed text of one of these classes (followed by a separator where the class
   needs one), the scanner model picks exactly that class with exactly that length. *)
From Coq Require Import String Ascii.
From Verif Require Import Base Params Lexer LexerProofs LexBridge.
Close Scope string_scope.
Open Scope Z_scope.

(* ====================================================================== *)
(* A. Small tools                                                         *)
(* ====================================================================== *)

Lemma is_digit_range : forall c, is_digit c = true -> 48 <= c <= 57.
Proof.
  unfold is_digit; intros c H. apply andb_true_iff in H; destruct H as [H1 H2].
  apply Z.leb_le in H1; apply Z.leb_le in H2; lia.
Qed.

Lemma is_e_cases : forall e, is_e e = true -> e = 101 \/ e = 69.
Proof.
  unfold is_e; intros e H. apply orb_true_iff in H.
  destruct H as [H|H]; apply Z.eqb_eq in H; lia.
Qed.

Lemma is_simple_esc_cases : forall e, is_simple_esc e = true ->
  e = 97 \/ e = 98 \/ e = 102 \/ e = 110 \/ e = 114 \/ e = 116 \/ e = 118 \/
  e = 39 \/ e = 34 \/ e = 92.
Proof.
  unfold is_simple_esc; intros e H.
  repeat (apply orb_true_iff in H; destruct H as [H|H]); apply Z.eqb_eq in H; lia.
Qed.

Lemma digit_not_sign : forall c, 48 <= c <= 57 -> is_sign c = false.
Proof. intros c H. unfold is_sign. zfalse. reflexivity. Qed.

Lemma digit_not_delim : forall c, 48 <= c <= 57 -> is_delim c = false.
Proof. intros c H. unfold is_delim. zfalse. reflexivity. Qed.

Lemma pick_float : forall l n,
  m_boolean l = None -> m_complex l = None -> m_delimiter l = None -> m_eol l = None ->
  m_float l = Some n -> try_types scan_order_t l = Some (TFloat, n).
Proof.
  intros l n H1 H2 H3 H4 H5. rewrite scan_order_pinned.
  rewrite tt_none by exact H1. rewrite tt_none by exact H2. rewrite tt_none by exact H3.
  rewrite tt_none by exact H4. apply tt_some; exact H5.
Qed.

(* ====================================================================== *)
(* B. Floats                                                              *)
(* ====================================================================== *)

(* optional sign, then 0 or a nonzero digit followed by digits, then a dot, then one or
   more digits; optionally an exponent: e or E, a sign, a nonzero digit, digits *)
Definition scalar_text (ip fr : list Z) : Prop :=
  (ip = [48] \/ exists d t, is_nz d = true /\ forallb is_digit t = true /\ ip = d :: t) /\
  fr <> [] /\ forallb is_digit fr = true.
Definition exp_text (ex : list Z) : Prop :=
  ex = [] \/ exists e s d t, is_e e = true /\ is_sign s = true /\ is_nz d = true /\
                             forallb is_digit t = true /\ ex = e :: s :: d :: t.
Definition float_text (txt : list Z) : Prop :=
  exists sg ip fr ex, (sg = [] \/ sg = [45] \/ sg = [43]) /\ scalar_text ip fr /\
                      exp_text ex /\ txt = sg ++ ip ++ 46 :: fr ++ ex.

Lemma m_scalar_zero : forall t,
  m_scalar (48 :: 46 :: t) =
  if (span is_digit t =? 0)%nat then None else Some (2 + span is_digit t)%nat.
Proof. reflexivity. Qed.

Lemma m_scalar_ord : forall c l n t, c <> 48 -> m_ordinal (c :: l) = Some n ->
  skipn n (c :: l) = 46 :: t ->
  m_scalar (c :: l) =
  if (span is_digit t =? 0)%nat then None else Some (n + 1 + span is_digit t)%nat.
Proof.
  intros c l n t Hc Ho Hs. unfold m_scalar. cbv beta iota zeta.
  rewrite (proj2 (Z.eqb_neq c 48)) by lia. rewrite Ho, Hs. reflexivity.
Qed.

Lemma scalar_ok : forall ip fr tail, scalar_text ip fr -> stops is_digit tail ->
  m_scalar (ip ++ 46 :: fr ++ tail) = Some (length ip + 1 + length fr)%nat.
Proof.
  intros ip fr tail [Hip [Hne Hfr]] Ht.
  assert (Hk : span is_digit (fr ++ tail) = length fr) by (apply span_digit_app; auto).
  assert (Hk0 : (length fr =? 0)%nat = false)
    by (destruct fr; [contradiction Hne; reflexivity | reflexivity]).
  destruct Hip as [H0 | (d & t & Hd & Hdt & Hip)]; subst ip.
  - cbn [app length]. rewrite m_scalar_zero, Hk, Hk0. reflexivity.
  - pose proof (is_nz_range d Hd) as Hr.
    rewrite <- app_comm_cons.
    rewrite (m_scalar_ord d (t ++ 46 :: fr ++ tail) (S (length t)) (fr ++ tail)).
    + rewrite Hk, Hk0. reflexivity.
    + lia.
    + unfold m_ordinal. rewrite Hd. rewrite span_digit_app; auto. reflexivity.
    + cbn [skipn]. apply skipn_app_length.
Qed.

Lemma exp_stops : forall ex rest, exp_text ex -> sep_start rest -> stops is_digit (ex ++ rest).
Proof.
  intros ex rest [H | (e & s & d & t & He & _ & _ & _ & H)] Hr; subst ex.
  - apply sep_stops_digit; exact Hr.
  - cbn [app stops]. apply is_e_cases in He. destruct He; subst; reflexivity.
Qed.

Lemma exp_len : forall ex rest, exp_text ex -> sep_start rest ->
  match m_exponent (ex ++ rest) with Some k => k | None => 0%nat end = length ex.
Proof.
  intros ex rest [H | (e & s & d & t & He & Hs & Hd & Ht & H)] Hr; subst ex.
  - cbn [app length]. destruct rest as [|c [|c2 r]]; try reflexivity.
    apply sep_head in Hr. unfold m_exponent.
    assert (Hc : is_e c = false) by (unfold is_e; zfalse; reflexivity).
    rewrite Hc. reflexivity.
  - cbn [app length]. unfold m_exponent. rewrite He, Hs. cbn [andb].
    rewrite ordinal_body by auto. reflexivity.
Qed.

Lemma float_core : forall ip fr ex rest, scalar_text ip fr -> exp_text ex -> sep_start rest ->
  m_scalar (ip ++ 46 :: fr ++ ex ++ rest) = Some (length ip + 1 + length fr)%nat /\
  skipn (length ip + 1 + length fr) (ip ++ 46 :: fr ++ ex ++ rest) = ex ++ rest.
Proof.
  intros ip fr ex rest Hsc Hex Hr. split.
  - apply scalar_ok; auto using exp_stops.
  - replace (ip ++ 46 :: fr ++ ex ++ rest) with ((ip ++ 46 :: fr) ++ ex ++ rest)
      by (rewrite <- app_assoc; reflexivity).
    replace (length ip + 1 + length fr)%nat with (length (ip ++ 46 :: fr))
      by (rewrite app_length; cbn [length]; lia).
    apply skipn_app_length.
Qed.

Lemma m_float_unsigned_some : forall c l n, is_sign c = false -> m_scalar (c :: l) = Some n ->
  m_float (c :: l) =
  Some (n + match m_exponent (skipn n (c :: l)) with Some k => k | None => 0%nat end)%nat.
Proof.
  intros c l n Hs Hm. unfold m_float. cbv beta iota zeta. rewrite Hs.
  cbv beta iota. cbn [skipn]. rewrite Hm. reflexivity.
Qed.

Lemma m_float_signed_some : forall s l n, is_sign s = true -> m_scalar l = Some n ->
  m_float (s :: l) =
  Some (S (n + match m_exponent (skipn n l) with Some k => k | None => 0%nat end))%nat.
Proof.
  intros s l n Hs Hm. unfold m_float. cbv beta iota zeta. rewrite Hs.
  cbv beta iota. cbn [skipn]. rewrite Hm. reflexivity.
Qed.

Lemma scalar_head : forall ip fr, scalar_text ip fr ->
  exists c t, ip = c :: t /\ 48 <= c <= 57.
Proof.
  intros ip fr [[H0 | (d & t & Hd & _ & Hip)] _].
  - exists 48, []. split; [exact H0 | lia].
  - exists d, t. split; [exact Hip|]. apply is_nz_range in Hd. lia.
Qed.

(* the float recognizer on an unsigned well-formed text *)
Lemma m_float_unsigned_text : forall ip fr ex rest,
  scalar_text ip fr -> exp_text ex -> sep_start rest ->
  m_float (ip ++ 46 :: fr ++ ex ++ rest) =
  Some (length ip + 1 + length fr + length ex)%nat.
Proof.
  intros ip fr ex rest Hsc Hex Hr.
  destruct (float_core ip fr ex rest Hsc Hex Hr) as [Hm Hsk].
  pose proof (exp_len ex rest Hex Hr) as Hel.
  destruct (scalar_head ip fr Hsc) as (c & t & Hip & Hc).
  subst ip. rewrite <- app_comm_cons in *.
  rewrite (m_float_unsigned_some _ _ _ (digit_not_sign c Hc) Hm), Hsk, Hel. reflexivity.
Qed.

Lemma m_float_signed_text : forall s ip fr ex rest, is_sign s = true ->
  scalar_text ip fr -> exp_text ex -> sep_start rest ->
  m_float (s :: ip ++ 46 :: fr ++ ex ++ rest) =
  Some (S (length ip + 1 + length fr + length ex))%nat.
Proof.
  intros s ip fr ex rest Hs Hsc Hex Hr.
  destruct (float_core ip fr ex rest Hsc Hex Hr) as [Hm Hsk].
  pose proof (exp_len ex rest Hex Hr) as Hel.
  rewrite (m_float_signed_some _ _ _ Hs Hm), Hsk, Hel. reflexivity.
Qed.

Lemma first_float_unsigned : forall ip fr ex rest,
  scalar_text ip fr -> exp_text ex -> sep_start rest ->
  try_types scan_order_t (ip ++ 46 :: fr ++ ex ++ rest) =
  Some (TFloat, (length ip + 1 + length fr + length ex)%nat).
Proof.
  intros ip fr ex rest Hsc Hex Hr.
  pose proof (m_float_unsigned_text ip fr ex rest Hsc Hex Hr) as Hf.
  destruct (scalar_head ip fr Hsc) as (c & t & Hip & Hc).
  subst ip. rewrite <- app_comm_cons in *.
  apply pick_float.
  - apply m_boolean_head; lia.
  - apply m_complex_head; lia.
  - apply m_delimiter_head, digit_not_delim; exact Hc.
  - apply m_eol_head; lia.
  - exact Hf.
Qed.

Lemma first_float_signed : forall s ip fr ex rest, s = 45 \/ s = 43 ->
  scalar_text ip fr -> exp_text ex -> sep_start rest ->
  try_types scan_order_t (s :: ip ++ 46 :: fr ++ ex ++ rest) =
  Some (TFloat, S (length ip + 1 + length fr + length ex)%nat).
Proof.
  intros s ip fr ex rest Hsg Hsc Hex Hr.
  assert (Hs : is_sign s = true) by (destruct Hsg; subst; reflexivity).
  apply pick_float.
  - apply m_boolean_head; lia.
  - apply m_complex_head; lia.
  - apply m_delimiter_head. destruct Hsg; subst; reflexivity.
  - apply m_eol_head; lia.
  - apply m_float_signed_text; auto.
Qed.

Lemma float_app_norm : forall (sg ip fr ex rest : list Z),
  (sg ++ ip ++ 46 :: fr ++ ex) ++ rest = sg ++ ip ++ 46 :: fr ++ ex ++ rest.
Proof.
  intros. rewrite <- app_assoc. f_equal. rewrite <- app_assoc. f_equal.
  rewrite <- app_comm_cons. f_equal. rewrite <- app_assoc. reflexivity.
Qed.

Lemma float_length : forall (sg ip fr ex : list Z),
  length (sg ++ ip ++ 46 :: fr ++ ex) =
  (length sg + (length ip + 1 + length fr + length ex))%nat.
Proof. intros. rewrite !app_length. cbn [length]. rewrite app_length. lia. Qed.

Theorem first_float : forall txt rest, float_text txt -> sep_start rest ->
  try_types scan_order_t (txt ++ rest) = Some (TFloat, length txt).
Proof.
  intros txt rest (sg & ip & fr & ex & Hsg & Hsc & Hex & Htxt) Hr. subst txt.
  rewrite float_app_norm, float_length.
  destruct Hsg as [Hsg|[Hsg|Hsg]]; subst sg; cbn [app length Nat.add].
  - apply first_float_unsigned; auto.
  - apply first_float_signed; auto.
  - apply first_float_signed; auto.
Qed.

(* ====================================================================== *)
(* C. Runes                                                               *)
(* ====================================================================== *)

Lemma m_escape_not_bs : forall c t, c <> 92 -> m_escape (c :: t) = None.
Proof.
  intros c t H. unfold m_escape. destruct t as [|x r]; [reflexivity|].
  rewrite (proj2 (Z.eqb_neq c 92)) by lia. reflexivity.
Qed.

Lemma m_escape_simple : forall e t, is_simple_esc e = true -> m_escape (92 :: e :: t) = Some 2%nat.
Proof.
  intros e t H. apply is_simple_esc_cases in H.
  decompose [or] H; subst; reflexivity.
Qed.

(* every class tried before TRune fails on a single quote *)
Lemma pick_rune_quote : forall x y t n, m_rune (39 :: x :: y :: t) = Some n ->
  try_types scan_order_t (39 :: x :: y :: t) = Some (TRune, n).
Proof.
  intros x y t n H. rewrite scan_order_pinned.
  do 8 (rewrite tt_none by reflexivity).
  apply tt_some; exact H.
Qed.

Lemma first_rune_plain : forall c rest, c <> 39 -> c <> 10 -> c <> 92 ->
  try_types scan_order_t (39 :: c :: 39 :: rest) = Some (TRune, 3%nat).
Proof.
  intros c rest H1 H2 H3. apply pick_rune_quote.
  unfold m_rune. change (39 =? 39) with true. cbv beta iota zeta.
  rewrite m_escape_not_bs by exact H3.
  rewrite (proj2 (Z.eqb_neq c 39)) by lia. rewrite (proj2 (Z.eqb_neq c 10)) by lia.
  reflexivity.
Qed.

Lemma first_rune_simple_escape : forall e rest, is_simple_esc e = true ->
  try_types scan_order_t (39 :: 92 :: e :: 39 :: rest) = Some (TRune, 4%nat).
Proof.
  intros e rest H. apply pick_rune_quote.
  unfold m_rune. change (39 =? 39) with true. cbv beta iota zeta.
  rewrite m_escape_simple by exact H. reflexivity.
Qed.

(* ====================================================================== *)
(* D. Strings                                                             *)
(* ====================================================================== *)

Definition plain_char (c : Z) : bool := negb (c =? 34) && negb (c =? 10) && negb (c =? 92).

Lemma plain_char_inv : forall c, plain_char c = true -> c <> 34 /\ c <> 10 /\ c <> 92.
Proof.
  unfold plain_char; intros c H.
  apply andb_true_iff in H; destruct H as [H H3].
  apply andb_true_iff in H; destruct H as [H1 H2].
  apply negb_true_iff in H1, H2, H3.
  apply Z.eqb_neq in H1, H2, H3. auto.
Qed.

(* every class tried before TString fails on a double quote *)
Lemma pick_string_quote : forall t n, m_string (34 :: t) = Some n ->
  try_types scan_order_t (34 :: t) = Some (TString, n).
Proof.
  intros t n H. rewrite scan_order_pinned.
  do 5 (rewrite tt_none by reflexivity).
  rewrite tt_none by (apply m_hexadecimal_head; lia).
  do 4 (rewrite tt_none by reflexivity).
  apply tt_some; exact H.
Qed.

Lemma str_body_close : forall f rest, str_body (S f) (34 :: rest) = Some 1%nat.
Proof.
  intros f rest. rewrite str_body_S. cbv zeta.
  rewrite m_escape_not_bs by lia. reflexivity.
Qed.

Lemma str_body_plain_step : forall f c t, c <> 34 -> c <> 10 -> c <> 92 ->
  str_body (S f) (c :: t) = option_map S (str_body f t).
Proof.
  intros f c t H1 H2 H3. rewrite str_body_S. cbv zeta.
  rewrite m_escape_not_bs by exact H3.
  rewrite (proj2 (Z.eqb_neq c 34)) by lia. rewrite (proj2 (Z.eqb_neq c 10)) by lia.
  reflexivity.
Qed.

Lemma str_body_plain : forall body rest fuel, forallb plain_char body = true ->
  (length body < fuel)%nat ->
  str_body fuel (body ++ 34 :: rest) = Some (S (length body)).
Proof.
  intros body rest; induction body as [|c body IH]; intros fuel Hb Hf.
  - destruct fuel as [|f]; [cbn [length] in Hf; lia|]. apply str_body_close.
  - cbn [forallb] in Hb. apply andb_true_iff in Hb; destruct Hb as [Hc Hb].
    apply plain_char_inv in Hc; destruct Hc as (H1 & H2 & H3).
    cbn [length] in Hf. destruct fuel as [|f]; [lia|].
    rewrite <- app_comm_cons. rewrite str_body_plain_step by assumption.
    rewrite IH by (auto; lia). reflexivity.
Qed.

Lemma first_string_plain : forall body rest, forallb plain_char body = true ->
  try_types scan_order_t (34 :: body ++ 34 :: rest) = Some (TString, (2 + length body)%nat).
Proof.
  intros body rest Hb. apply pick_string_quote.
  unfold m_string. change (34 =? 34) with true. cbv beta iota.
  rewrite str_body_plain; [reflexivity | exact Hb |].
  rewrite app_length. cbn [length]. lia.
Qed.

(* ====================================================================== *)
(* E. Strings with simple escapes                                         *)
(* ====================================================================== *)

(* inl c = the plain character c ; inr e = backslash followed by the simple-escape char e *)
Definition piece_ok (p : Z + Z) : bool :=
  match p with inl c => plain_char c | inr e => is_simple_esc e end.

Fixpoint flat (ps : list (Z + Z)) : list Z :=
  match ps with
  | [] => []
  | inl c :: r => c :: flat r
  | inr e :: r => 92 :: e :: flat r
  end.

(* the closing quote stays reachable: the body holds no newline *)
Lemma has_close_flat : forall ps rest, forallb piece_ok ps = true ->
  has_close (flat ps ++ 34 :: rest) = true.
Proof.
  intros ps rest; induction ps as [|[c|e] ps IH]; intros H.
  - reflexivity.
  - cbn [forallb piece_ok] in H. apply andb_true_iff in H; destruct H as [Hc H].
    apply plain_char_inv in Hc; destruct Hc as (H1 & H2 & H3).
    cbn [flat app has_close].
    rewrite (proj2 (Z.eqb_neq c 34)) by lia. rewrite (proj2 (Z.eqb_neq c 10)) by lia.
    apply IH; exact H.
  - cbn [forallb piece_ok] in H. apply andb_true_iff in H; destruct H as [He H].
    cbn [flat app has_close]. change (92 =? 34) with false. change (92 =? 10) with false.
    cbv iota. destruct (e =? 34) eqn:E34; [reflexivity|].
    apply is_simple_esc_cases in He. apply Z.eqb_neq in E34.
    rewrite (proj2 (Z.eqb_neq e 10)) by lia.
    apply IH; exact H.
Qed.

Lemma str_body_flat : forall ps rest fuel, forallb piece_ok ps = true ->
  (length (flat ps) < fuel)%nat ->
  str_body fuel (flat ps ++ 34 :: rest) = Some (S (length (flat ps))).
Proof.
  intros ps rest; induction ps as [|[c|e] ps IH]; intros fuel Hb Hf.
  - destruct fuel as [|f]; [cbn [flat length] in Hf; lia|]. apply str_body_close.
  - cbn [forallb piece_ok] in Hb. apply andb_true_iff in Hb; destruct Hb as [Hc Hb].
    apply plain_char_inv in Hc; destruct Hc as (H1 & H2 & H3).
    cbn [flat length] in Hf. destruct fuel as [|f]; [lia|].
    cbn [flat app length]. rewrite str_body_plain_step by assumption.
    rewrite IH by (auto; lia). reflexivity.
  - cbn [forallb piece_ok] in Hb. apply andb_true_iff in Hb; destruct Hb as [He Hb].
    cbn [flat length] in Hf. destruct fuel as [|f]; [lia|].
    cbn [flat app length]. rewrite str_body_S. cbv zeta.
    rewrite m_escape_simple by exact He. cbn [skipn].
    rewrite has_close_flat by exact Hb.
    rewrite IH by (auto; lia). reflexivity.
Qed.

Lemma first_string_escaped : forall ps rest, forallb piece_ok ps = true ->
  try_types scan_order_t (34 :: flat ps ++ 34 :: rest) =
  Some (TString, (2 + length (flat ps))%nat).
Proof.
  intros ps rest Hb. apply pick_string_quote.
  unfold m_string. change (34 =? 34) with true. cbv beta iota.
  rewrite str_body_flat; [reflexivity | exact Hb |].
  rewrite app_length. cbn [length]. lia.
Qed.

(* the plain case is the escaped case without escapes *)
Lemma flat_inl : forall body, flat (map inl body) = body.
Proof. induction body as [|c b IH]; cbn [map flat]; [reflexivity | rewrite IH; reflexivity]. Qed.

(* ====================================================================== *)
(* F. The hypotheses are satisfiable                                      *)
(* ====================================================================== *)

(* -1.25e+10 *)
Example float_text_example : float_text [45; 49; 46; 50; 53; 101; 43; 49; 48].
Proof.
  exists [45], [49], [50; 53], [101; 43; 49; 48]. repeat split.
  - right; left; reflexivity.
  - right. exists 49, []. repeat split.
  - discriminate.
  - right. exists 101, 43, 49, [48]. repeat split.
Qed.

Example first_float_example_comma :
  try_types scan_order_t ([45; 49; 46; 50; 53; 101; 43; 49; 48] ++ [44; 32; 55]) =
  Some (TFloat, 9%nat).
Proof.
  apply (first_float _ [44; 32; 55] float_text_example).
  simpl. right; right; reflexivity.
Qed.

(* 0.5 at the end of the text *)
Example float_text_zero_point_five : float_text [48; 46; 53].
Proof.
  exists [], [48], [53], []. repeat split.
  - left; reflexivity.
  - left; reflexivity.
  - discriminate.
  - left; reflexivity.
Qed.

Example first_float_zero_point_five_end :
  try_types scan_order_t ([48; 46; 53] ++ []) = Some (TFloat, 3%nat).
Proof. apply (first_float _ [] float_text_zero_point_five). exact I. Qed.

(* the rune a, then the rune backslash n *)
Example first_rune_plain_example :
  try_types scan_order_t (39 :: 97 :: 39 :: [44]) = Some (TRune, 3%nat).
Proof. apply first_rune_plain; lia. Qed.

Example first_rune_escape_example :
  try_types scan_order_t (39 :: 92 :: 110 :: 39 :: [93]) = Some (TRune, 4%nat).
Proof. apply first_rune_simple_escape. reflexivity. Qed.

(* the string hi followed by a comma *)
Example first_string_plain_example :
  try_types scan_order_t (34 :: [104; 105] ++ 34 :: [44]) = Some (TString, 4%nat).
Proof. apply (first_string_plain [104; 105] [44]). reflexivity. Qed.

(* the string a backslash-quote b backslash-n *)
Example first_string_escaped_example :
  try_types scan_order_t (34 :: flat [inl 97; inr 34; inl 98; inr 110] ++ 34 :: [93]) =
  Some (TString, 8%nat).
Proof. apply (first_string_escaped [inl 97; inr 34; inl 98; inr 110] [93]). reflexivity. Qed.
