(* LexRender.v — the scanner on a rendered token list: if every token text, followed by the
   rest of the rendering, is picked by one round of scanTokens as exactly its class and
   length (scannable: the per-class first-token lemmas of LexBridge*.v discharge this for
   texts separated the way the formatter separates them), then lexing the rendering gives
   the tokens back — Space tokens dropped, a lone control character renamed, line and
   position assigned by the scanner's own bookkeeping — followed by EOF. *)
From Coq Require Import String Ascii.
From Verif Require Import Base Params Value Lexer Literals Parser LexerProofs LexBridge LexBridge2 LexBridge3 ParserProofs Complete StripInv ParseRun.
Close Scope string_scope.
Open Scope Z_scope.

Definition rtok : Type := (ttype * list Z)%type.
Definition render_toks (ts : list rtok) : list Z := flat_map snd ts.

Inductive scannable : list rtok -> Prop :=
| sc_nil : scannable []
| sc_cons : forall ty text rest,
    try_types scan_order_t (text ++ render_toks rest) = Some (ty, length text) ->
    scannable rest -> scannable ((ty, text) :: rest).

(* the tokens with the line and position the scanner assigns, then EOF *)
Fixpoint place (ts : list rtok) (line pos : Z) : list token :=
  match ts with
  | [] => [mkTok TEOF [] line pos]
  | (ty, text) :: r =>
    let cnt := count_nl text in
    (match ty with TSpace => [] | _ => [mkTok ty (rename text) line pos] end)
    ++ place r (if (0 <? cnt)%nat then line + Z.of_nat cnt else line)
               (if (0 <? cnt)%nat then index_of_last_eol text else pos + Z.of_nat (length text))
  end.

Lemma render_cons ty text rest : render_toks ((ty, text) :: rest) = text ++ render_toks rest.
Proof. reflexivity. Qed.

Theorem lex_loop_render : forall ts, scannable ts -> forall fuel line pos,
  (length (render_toks ts) <= fuel)%nat ->
  lex_loop scan_order_t fuel (render_toks ts) line pos = place ts line pos.
Proof.
  intros ts S. induction S as [|ty text rest T S IH]; intros fuel line pos Hf.
  - simpl. destruct fuel; reflexivity.
  - rewrite render_cons in *.
    destruct (try_types_pos _ _ _ _ T) as ((Hpos & _) & _).
    assert (Hne : text ++ render_toks rest <> []).
    { destruct text; [simpl in Hpos; lia|discriminate]. }
    destruct fuel as [|f]; [rewrite app_length in Hf; lia|].
    rewrite (lex_loop_step scan_order_t f _ line pos ty (length text) Hne T).
    rewrite firstn_app, Nat.sub_diag, firstn_all. simpl firstn. rewrite app_nil_r.
    rewrite skipn_app, Nat.sub_diag, skipn_all. simpl.
    rewrite IH; [reflexivity|]. rewrite app_length in Hf. lia.
Qed.

Theorem lex_render ts : scannable ts -> lex (render_toks ts) = place ts 1 1.
Proof. intro S. unfold lex. apply lex_loop_render; auto. Qed.

(* forgetting lines and positions: the non-space tokens, control characters renamed, then EOF *)
Definition visible (x : rtok) : bool := match fst x with TSpace => false | _ => true end.
Lemma place_strip : forall ts line pos,
  map strip (place ts line pos) = map (fun x => (fst x, rename (snd x))) (filter visible ts) ++ [(TEOF, [])].
Proof.
  induction ts as [|(ty, text) r IH]; intros line pos; simpl; [reflexivity|].
  rewrite map_app, IH. unfold visible at 1. simpl. destruct ty; reflexivity.
Qed.

(* the whole way: a scannable rendering whose visible tokens are a sentence of the grammar is
   parsed to the value of the derivation *)
Theorem parse_render fparse crank ts dts v eols eof :
  scannable ts -> place ts 1 1 = dts ++ eols ++ [eof] ->
  dcoll fparse crank dts v -> Forall eolt eols -> ttype_of eof = TEOF ->
  parse_source fparse crank (render_toks ts) = PValue v.
Proof.
  intros S E D F Ty. eapply parser_complete_source; eauto. rewrite lex_render; auto.
Qed.

(* the same with the derivation given on any tokens of the same types and texts (lines and
   positions do not matter): the visible tokens of the rendering, control characters renamed,
   are the sentence followed by n EOL tokens *)
Lemma eols_of_strip : forall n l, map strip l = repeat (TEOL, zs "<EOLN>") n -> Forall eolt l.
Proof.
  induction n as [|n IH]; intros l H; simpl in H.
  - apply map_eq_nil in H. subst. constructor.
  - apply map_eq_cons in H. destruct H as (a & r & E & S & H). subst. constructor; auto.
    unfold strip in S. inversion S. unfold eolt. auto.
Qed.

Theorem parse_render_strip fparse crank ts dts v n :
  scannable ts ->
  map (fun x => (fst x, rename (snd x))) (filter visible ts) = map strip dts ++ repeat (TEOL, zs "<EOLN>") n ->
  dcoll fparse crank dts v ->
  parse_source fparse crank (render_toks ts) = PValue v.
Proof.
  intros S E D.
  pose proof (place_strip ts 1 1) as Hp. rewrite E, <- app_assoc in Hp.
  apply map_eq_app in Hp. destruct Hp as (dts' & r & Ep & Hd & Hr).
  apply map_eq_app in Hr. destruct Hr as (eols' & l3 & Er & He & Hf). subst r.
  apply map_eq_cons in Hf. destruct Hf as (eof' & l4 & E4 & Sf & Hn). apply map_eq_nil in Hn. subst.
  eapply parse_render; eauto.
  - eapply dcoll_strip; eauto.
  - eapply eols_of_strip; eauto.
  - unfold strip in Sf. inversion Sf. auto.
Qed.

(* discharging [scannable] class by class (instances of the first-token lemmas) *)
Lemma sc_integer ds rest : int_text ds -> sep_start (render_toks rest) -> scannable rest -> scannable ((TInteger, ds) :: rest).
Proof. intros H Sp S. constructor; auto. apply first_integer; auto. Qed.
Lemma sc_hex hs rest : hs <> [] -> forallb is_hex hs = true -> sep_start (render_toks rest) -> scannable rest ->
  scannable ((THexadecimal, 48 :: 120 :: hs) :: rest).
Proof.
  intros H1 H2 Sp S. constructor; auto.
  change ((48 :: 120 :: hs) ++ render_toks rest) with (48 :: 120 :: hs ++ render_toks rest).
  rewrite (first_hex hs _ H1 H2 Sp). reflexivity.
Qed.
Lemma sc_float txt rest : float_text txt -> sep_start (render_toks rest) -> scannable rest -> scannable ((TFloat, txt) :: rest).
Proof. intros H Sp S. constructor; auto. apply first_float; auto. Qed.
Lemma sc_complex f1 s f2 rest : float_text f1 -> is_sign s = true -> float_text f2 -> scannable rest ->
  scannable ((TComplex, 40 :: f1 ++ s :: f2 ++ [105; 41]) :: rest).
Proof.
  intros H1 Hs H2 S. constructor; auto.
  replace ((40 :: f1 ++ s :: f2 ++ [105; 41]) ++ render_toks rest) with (40 :: f1 ++ s :: f2 ++ 105 :: 41 :: render_toks rest).
  - rewrite (first_complex f1 s f2 _ H1 Hs H2). f_equal. f_equal. simpl. rewrite !app_length. simpl. rewrite app_length. simpl. lia.
  - simpl. rewrite <- !app_assoc. simpl. rewrite <- app_assoc. reflexivity.
Qed.
Lemma sc_type name rest : In name type_names -> scannable rest -> scannable ((TType, zs name) :: rest).
Proof.
  intros H S. constructor; auto. rewrite (first_type name _ H). f_equal. f_equal.
  clear. induction name; simpl; auto.
Qed.
Lemma sc_delim c rest : is_delim c = true -> c <> 40 -> scannable rest -> scannable ((TDelimiter, [c]) :: rest).
Proof. intros H N S. constructor; auto; simpl; apply first_delim_not_paren; auto. Qed.
Lemma sc_open_paren name rest : In name type_names -> scannable ((TType, zs name) :: rest) -> scannable ((TDelimiter, [40]) :: (TType, zs name) :: rest).
Proof.
  intros H S. constructor; auto.
  change ([40] ++ render_toks ((TType, zs name) :: rest)) with (40 :: zs name ++ render_toks rest).
  apply first_open_paren_type; auto.
Qed.
Lemma sc_eol rest : scannable rest -> scannable ((TEOL, [10]) :: rest).
Proof. intro S. constructor; auto; simpl; apply first_eol. Qed.
Lemma sc_true rest : scannable rest -> scannable ((TBoolean, zs "true") :: rest).
Proof. intro S. constructor; auto; apply first_true. Qed.
Lemma sc_false rest : scannable rest -> scannable ((TBoolean, zs "false") :: rest).
Proof. intro S. constructor; auto; apply first_false. Qed.
Lemma sc_nil_word rest : scannable rest -> scannable ((TNil, zs "nil") :: rest).
Proof. intro S. constructor; auto; apply first_nil. Qed.
(* a run of spaces must end where the next text does not start with a space *)
Lemma sc_spaces n rest : span is_space (render_toks rest) = 0%nat -> scannable rest ->
  scannable ((TSpace, repeat 32 (S n)) :: rest).
Proof.
  intros H Sc. constructor; auto.
  change (repeat 32 (S n) ++ render_toks rest) with (32 :: (repeat 32 n ++ render_toks rest)).
  rewrite first_space. f_equal. f_equal. rewrite repeat_length. f_equal.
  induction n; simpl; [exact H|rewrite IHn; reflexivity].
Qed.
Lemma sc_rune_plain c rest : c <> 39 -> c <> 10 -> c <> 92 -> scannable rest -> scannable ((TRune, [39; c; 39]) :: rest).
Proof. intros A B C S. constructor; auto; simpl; apply first_rune_plain; auto. Qed.
Lemma sc_rune_escape e rest : is_simple_esc e = true -> scannable rest -> scannable ((TRune, [39; 92; e; 39]) :: rest).
Proof. intros H S. constructor; auto; simpl; apply first_rune_simple_escape; auto. Qed.
Lemma sc_rune_x hs rest : hexes 2 hs -> scannable rest -> scannable ((TRune, 39 :: 92 :: 120 :: hs ++ [39]) :: rest).
Proof.
  intros H S. constructor; auto.
  replace ((39 :: 92 :: 120 :: hs ++ [39]) ++ render_toks rest) with (39 :: 92 :: 120 :: hs ++ 39 :: render_toks rest)
    by (simpl; rewrite <- app_assoc; reflexivity).
  rewrite (first_rune_x hs _ H). destruct H as (L & _). f_equal. f_equal. simpl. rewrite app_length, L. reflexivity.
Qed.
Lemma sc_rune_u hs rest : hexes 4 hs -> scannable rest -> scannable ((TRune, 39 :: 92 :: 117 :: hs ++ [39]) :: rest).
Proof.
  intros H S. constructor; auto.
  replace ((39 :: 92 :: 117 :: hs ++ [39]) ++ render_toks rest) with (39 :: 92 :: 117 :: hs ++ 39 :: render_toks rest)
    by (simpl; rewrite <- app_assoc; reflexivity).
  rewrite (first_rune_u hs _ H). destruct H as (L & _). f_equal. f_equal. simpl. rewrite app_length, L. reflexivity.
Qed.
Lemma sc_rune_U hs rest : hexes 8 hs -> scannable rest -> scannable ((TRune, 39 :: 92 :: 85 :: hs ++ [39]) :: rest).
Proof.
  intros H S. constructor; auto.
  replace ((39 :: 92 :: 85 :: hs ++ [39]) ++ render_toks rest) with (39 :: 92 :: 85 :: hs ++ 39 :: render_toks rest)
    by (simpl; rewrite <- app_assoc; reflexivity).
  rewrite (first_rune_U hs _ H). destruct H as (L & _). f_equal. f_equal. simpl. rewrite app_length, L. reflexivity.
Qed.
Lemma sc_string ps rest : forallb piece_good ps = true -> scannable rest ->
  scannable ((TString, 34 :: flat3 ps ++ [34]) :: rest).
Proof.
  intros H S. constructor; auto.
  replace ((34 :: flat3 ps ++ [34]) ++ render_toks rest) with (34 :: flat3 ps ++ 34 :: render_toks rest)
    by (simpl; rewrite <- app_assoc; reflexivity).
  rewrite (first_string_full ps _ H). f_equal. f_equal. simpl. rewrite app_length. simpl. lia.
Qed.

(* non-vacuity: the text the formatter writes for a one-entry catalog inside a list *)
Local Open Scope string_scope.
Definition sample_tokens : list rtok :=
  [(TDelimiter, [91]); (TEOL, [10]); (TSpace, zs "    "); (TString, zs """a"""); (TDelimiter, [58]); (TSpace, [32]);
   (TInteger, zs "-42"); (TEOL, [10]); (TSpace, zs "    "); (TFloat, zs "1.0E+6"); (TDelimiter, [58]); (TSpace, [32]);
   (TDelimiter, [91]); (TRune, zs "'k'"); (TDelimiter, [93]); (TDelimiter, [40]); (TType, zs "Set"); (TDelimiter, [41]);
   (TEOL, [10]); (TDelimiter, [93]); (TDelimiter, [40]); (TType, zs "Catalog"); (TDelimiter, [41]); (TEOL, [10])]%Z.
Example sample_scannable : scannable sample_tokens.
Proof. unfold sample_tokens. repeat (constructor; [vm_compute; reflexivity|]). constructor. Qed.
Example sample_lexes : map strip (lex (render_toks sample_tokens)) =
  (map (fun x => (fst x, rename (snd x))) (filter visible sample_tokens) ++ [(TEOF, [])])%list.
Proof. rewrite (lex_render _ sample_scannable). apply place_strip. Qed.
Example sample_parses :
  parse_source (fun t => if list_eqb Z.eqb t (zs "1.0E+6") then Some 4696837146684686336%Z else None) (default_crank [])
    (render_toks sample_tokens)
  = PValue (VMapping MCatalog [VStr [97%Z]; VFloat 64 4696837146684686336] [VInt 64 (-42); VSeq KSet [VRune 107]]).
Proof. vm_compute. reflexivity. Qed.
