(* Indep.v — footprints, interleavings and the footprint table of the library's operation
   families (property C19).  Definitions only; the proofs are in IndepProofs.v.

   Part 1 (generic, Section Machine): a store of abstract cells, operations with a DECLARED
   footprint (cells read, cells written) and an action on the store, threads = lists of
   operations, interleavings = schedules (list of thread numbers, as in Conc.v).
   Part 2: the cells of the library (per-instance state, class registries, and the three
   pieces of class-level mutable state that existed before the repairs D23/D24, and the
   collator's per-instance depth counter that existed before repair D29) and the
   TABLE [fp_of] giving the footprint of each operation family of the property, as a
   function of the structural facts that tools/genparams.py extracts from the Go sources
   (Params.v).  The table is the model; that the code's memory accesses stay inside the
   table is what the race detector checks in the correspondence (IndepRun.v).
   Part 3: two tiny concrete programs over the pre-repair cells used to exhibit, by
   computation, an interleaving that corrupts a result (documentation of D23 and D24). *)
From Verif Require Import Base Params.
Open Scope Z_scope.

(* ------------------------------------------------------------------------------------ *)
(* Part 1: generic machine                                                               *)
(* ------------------------------------------------------------------------------------ *)
Section Machine.
  Variable cell : Type.
  Variable cell_eqb : cell -> cell -> bool.

  Definition store := cell -> Z.
  Definition upd (s : store) (c : cell) (z : Z) : store :=
    fun c' => if cell_eqb c c' then z else s c'.

  Record fp := { reads : list cell; writes : list cell }.
  Definition touches (f : fp) : list cell := reads f ++ writes f.

  Definition memb (c : cell) (l : list cell) : bool := existsb (cell_eqb c) l.
  Definition overlap (a b : list cell) : bool := existsb (fun c => memb c b) a.
  (* write/write or read/write overlap *)
  Definition conflicts (a b : fp) : bool :=
    overlap (writes a) (touches b) || overlap (writes b) (touches a).
  (* the same, ignoring the cells for which [g] holds (cells only accessed under a lock) *)
  Definition conflicts_except (g : cell -> bool) (a b : fp) : bool :=
    let f := filter (fun c => negb (g c)) in
    overlap (f (writes a)) (f (touches b)) || overlap (f (writes b)) (f (touches a)).

  Record op := { op_fp : fp; act : store -> store * Z }.

  (* the footprint discipline: [act] changes only the declared writes, and its result and
     the values it writes depend only on the declared reads and writes *)
  Definition op_frame (o : op) : Prop :=
    forall s c, ~ In c (writes (op_fp o)) -> fst (act o s) c = s c.
  Definition op_dep (o : op) : Prop :=
    forall s s', (forall c, In c (touches (op_fp o)) -> s c = s' c) ->
      snd (act o s) = snd (act o s') /\
      (forall c, In c (writes (op_fp o)) -> fst (act o s) c = fst (act o s') c).
  Definition op_wf (o : op) : Prop := op_frame o /\ op_dep o.

  Definition thread := list op.

  (* one thread run alone: final store and the results of its operations in order *)
  Fixpoint run_thread (s : store) (t : thread) : store * list Z :=
    match t with
    | [] => (s, [])
    | o :: r => let sz := act o s in
                let rest := run_thread (fst sz) r in
                (fst rest, snd sz :: snd rest)
    end.

  (* the threads run one after the other *)
  Fixpoint run_seq (s : store) (ts : list thread) : store * list (list Z) :=
    match ts with
    | [] => (s, [])
    | t :: r => let a := run_thread s t in
                let rest := run_seq (fst a) r in
                (fst rest, snd a :: snd rest)
    end.

  (* interleaved execution: thread number -> what is left to do / the results so far *)
  Record cfg := { st : store; pend : nat -> thread; res : nat -> list Z }.

  Definition fupd {A} (f : nat -> A) (i : nat) (a : A) : nat -> A :=
    fun j => if Nat.eqb i j then a else f j.

  Definition step (c : cfg) (t : nat) : cfg :=
    match pend c t with
    | [] => c
    | o :: rest =>
      let sz := act o (st c) in
      {| st := fst sz; pend := fupd (pend c) t rest; res := fupd (res c) t (res c t ++ [snd sz]) |}
    end.

  Definition run (c : cfg) (sched : list nat) : cfg := fold_left step sched c.

  Definition threads_of (ts : list thread) : nat -> thread := fun i => nth i ts [].
  Definition init (s : store) (ts : list thread) : cfg :=
    {| st := s; pend := threads_of ts; res := fun _ => [] |}.
  Definition finished (c : cfg) : Prop := forall i, pend c i = [].
  (* decidable form for a known number of threads *)
  Definition finishedb (n : nat) (c : cfg) : bool :=
    forallb (fun i => match pend c i with [] => true | _ => false end) (seq 0 n).

  Definition thread_touches (t : thread) : list cell := flat_map (fun o => touches (op_fp o)) t.
  Definition thread_writes (t : thread) : list cell := flat_map (fun o => writes (op_fp o)) t.

  (* no write/write and no read/write overlap between operations of different threads *)
  Definition no_conflict (a b : thread) : Prop :=
    (forall c, In c (thread_writes a) -> ~ In c (thread_touches b)) /\
    (forall c, In c (thread_writes b) -> ~ In c (thread_touches a)).
  Definition pairwise_no_conflict (ts : list thread) : Prop := ForallOrdPairs no_conflict ts.
  (* boolean form over the declared footprints *)
  Definition threads_conflict (a b : thread) : bool :=
    existsb (fun x => existsb (fun y => conflicts (op_fp x) (op_fp y)) b) a.
End Machine.

Arguments reads {cell} _.
Arguments writes {cell} _.
Arguments op_fp {cell} _.
Arguments act {cell} _ _.
Arguments st {cell} _.
Arguments pend {cell} _ _.
Arguments res {cell} _ _.

(* ------------------------------------------------------------------------------------ *)
(* Part 2: the cells of the library and the footprint table                              *)
(* ------------------------------------------------------------------------------------ *)

(* Instances (collections, Go slices owned by a goroutine, iterators, collators, sorters,
   formatters, parsers) are numbered; all the state of instance i is the one cell CInst i.
   Class kinds: 0 Array, 1 List, 2 Set, 3 Stack, 4 Queue, 5 Catalog, 6 Map, 7 Association,
   8 Collator, 9 Sorter, 10 Iterator.  Element types are numbered by the harness. *)
Inductive cell :=
| CInst (i : nat)         (* the state of instance i *)
| CReg (k t : nat)        (* the entry of type t in the registry map of class kind k *)
| CNotaFmt (n : nat)      (* the formatter_ (result_, depth_) kept INSIDE notation n *)
| CNotaPar (n : nat)      (* the parser_ kept INSIDE notation n *)
| CSortColl (t : nat).    (* the collator behind sorterClass_[t].defaultRanker_ (its depth_) *)

Definition cell_eqb (a b : cell) : bool :=
  match a, b with
  | CInst i, CInst j => Nat.eqb i j
  | CReg k t, CReg k' t' => Nat.eqb k k' && Nat.eqb t t'
  | CNotaFmt n, CNotaFmt m => Nat.eqb n m
  | CNotaPar n, CNotaPar m => Nat.eqb n m
  | CSortColl t, CSortColl t' => Nat.eqb t t'
  | _, _ => false
  end.

(* the structural facts about the sources on which the table rests (see Params.v) *)
Record facts := {
  f_registries_locked : bool;       (* every accessor holds its mutex around lookup+insert *)
  f_notation_shares_formatter : bool;
  f_notation_shares_parser : bool;
  f_sorter_shares_collator : bool;
  f_collator_shares_depth : bool    (* a collator counts the traversal depth in a field of the instance
                                       (instead of per call): using one collator is a write *)
}.
Definition current_facts : facts :=
  {| f_registries_locked := forallb (fun p => snd p) Params.registry_locked
                            && negb (Nat.eqb (length Params.registry_locked) 0);
     f_notation_shares_formatter := Params.notation_shares_formatter;
     f_notation_shares_parser := Params.notation_shares_parser;
     f_sorter_shares_collator := Params.sorter_shares_collator;
     f_collator_shares_depth := Params.collator_shares_depth |}.
Definition repaired_facts : facts :=
  {| f_registries_locked := true; f_notation_shares_formatter := false;
     f_notation_shares_parser := false; f_sorter_shares_collator := false;
     f_collator_shares_depth := false |}.
(* the tree before the repairs D23, D24, D29 *)
Definition prefix_facts : facts :=
  {| f_registries_locked := true; f_notation_shares_formatter := true;
     f_notation_shares_parser := true; f_sorter_shares_collator := true;
     f_collator_shares_depth := true |}.
Definition facts_eqb (a b : facts) : bool :=
  Bool.eqb (f_registries_locked a) (f_registries_locked b) &&
  Bool.eqb (f_notation_shares_formatter a) (f_notation_shares_formatter b) &&
  Bool.eqb (f_notation_shares_parser a) (f_notation_shares_parser b) &&
  Bool.eqb (f_sorter_shares_collator a) (f_sorter_shares_collator b) &&
  Bool.eqb (f_collator_shares_depth a) (f_collator_shares_depth b).

(* a registry cell is only ever accessed inside the accessor's critical section *)
Definition guarded (F : facts) (c : cell) : bool :=
  match c with CReg _ _ => f_registries_locked F | _ => false end.

Inductive fam := FBuild | FMutate | FSearch | FSort | FRank | FFormat | FParse | FIterate.
Inductive ckind := KArray | KList | KSet | KStack | KQueue | KCatalog | KMap | KSlice.

(* how the operation reaches the agent that does the work *)
Inductive via :=
| VColl            (* a method of the collection itself (SortValues(), GetIndex, AppendValue ...):
                      agents it needs are made inside the call and die with it *)
| VNota (n : nat)  (* through notation instance n: String() (n = the notation cached in the
                      collection's class), notation.FormatValue, notation.ParseSource *)
| VAgent           (* through an agent instance made by the calling goroutine with an explicit
                      constructor: Formatter().Make(), Parser().Make(), Collator().Make(),
                      Sorter().MakeWithRanker(own collator's RankValues), GetIterator() *)
| VDefault.        (* through Sorter[V]().Make(): the class's default ranker *)

Record opdesc := OD {
  od_fam : fam;
  od_kind : ckind;
  od_via : via;
  od_ety : nat;              (* element type *)
  od_recv : nat;             (* the collection / slice operated on (for FBuild, FParse: created) *)
  od_aux : option nat;       (* the agent instance of VAgent / VDefault, the iterator of FIterate *)
  od_coll : option nat;      (* the collator instance owned by a Set receiver *)
  od_cold : bool             (* the classes involved may not exist yet (first use in the process) *)
}.

Definition opt_cells (o : option nat) : list cell :=
  match o with Some i => [CInst i] | None => [] end.

(* the class registries consulted by the accessor calls made inside operations on a
   collection of the given kind (coarse: the whole chain of classes it is built from) *)
Definition class_chain (k : ckind) : list nat :=
  match k with
  | KArray => [0%nat]
  | KList => [1; 0]%nat
  | KSet => [2; 1; 0; 8]%nat
  | KStack => [3; 1; 0]%nat
  | KQueue => [4; 1; 0]%nat
  | KCatalog => [5; 1; 0; 7; 6]%nat
  | KMap => [6; 7; 0]%nat
  | KSlice => []
  end.
Definition agent_classes (f : fam) : list nat :=
  match f with
  | FSearch | FRank | FMutate => [8]%nat
  | FSort => [8; 9]%nat
  | FIterate => [10]%nat
  | FBuild | FParse => [10]%nat
  | FFormat => []
  end.
Definition reg_cells (d : opdesc) : list cell :=
  map (fun k => CReg k (od_ety d)) (class_chain (od_kind d) ++ agent_classes (od_fam d)).

(* class-level mutable state reached by the operation (empty after the repairs) *)
Definition shared_cells (F : facts) (d : opdesc) : list cell :=
  match od_fam d, od_via d with
  | FFormat, VNota n => if f_notation_shares_formatter F then [CNotaFmt n] else []
  | FParse, VNota n => if f_notation_shares_parser F then [CNotaPar n] else []
  | FSort, VDefault => if f_sorter_shares_collator F then [CSortColl (od_ety d)] else []
  | _, _ => []
  end.

(* THE TABLE *)
Definition fp_of (F : facts) (d : opdesc) : fp cell :=
  let recv := [CInst (od_recv d)] in
  let aux := opt_cells (od_aux d) in
  let coll := opt_cells (od_coll d) in
  let regs := reg_cells d in
  let sh := shared_cells F d in
  let cold := if od_cold d then regs else [] in
  (* using a collator (the Set's own, or the agent of FRank) writes it only while it keeps its
     depth counter in the instance *)
  let collw := if f_collator_shares_depth F then coll else [] in
  let auxw := if f_collator_shares_depth F then aux else [] in
  match od_fam d with
  | FBuild   => {| reads := regs ++ sh;                 writes := recv ++ coll ++ sh ++ cold |}
  | FMutate  => {| reads := regs ++ coll ++ sh;         writes := recv ++ collw ++ sh ++ cold |}
  | FSearch  => {| reads := regs ++ recv ++ coll ++ sh; writes := collw ++ sh ++ cold |}
  | FSort    => {| reads := regs ++ sh;                 writes := recv ++ aux ++ sh ++ cold |}
  | FRank    => {| reads := regs ++ recv ++ aux ++ sh;  writes := auxw ++ sh ++ cold |}
  | FFormat  => {| reads := regs ++ recv ++ sh;         writes := aux ++ sh ++ cold |}
  | FParse   => {| reads := regs ++ sh;                 writes := recv ++ aux ++ sh ++ cold |}
  | FIterate => {| reads := regs ++ recv ++ sh;         writes := aux ++ sh ++ cold |}
  end.

(* the instances an operation is "on" in the sense of the property *)
Definition insts (d : opdesc) : list nat :=
  od_recv d :: match od_aux d with Some i => [i] | None => [] end
            ++ match od_coll d with Some i => [i] | None => [] end.
Definition disjoint_insts (a b : opdesc) : bool :=
  negb (existsb (fun i => existsb (Nat.eqb i) (insts b)) (insts a)).

Definition conflict (F : facts) (a b : opdesc) : bool :=
  conflicts cell cell_eqb (fp_of F a) (fp_of F b).
(* conflicts that are not serialised by a registry mutex: these are data races *)
Definition racy_conflict (F : facts) (a b : opdesc) : bool :=
  conflicts_except cell cell_eqb (guarded F) (fp_of F a) (fp_of F b).

(* ------------------------------------------------------------------------------------ *)
(* Part 3: concrete programs over the pre-repair shared cells                            *)
(* ------------------------------------------------------------------------------------ *)

Definition cstore := store cell.
Definition cupd := upd cell cell_eqb.

(* formatter: appendString of one digit to the shared result_ buffer (the text is a decimal
   number), and getResult (returns the buffer and resets it) *)
Definition fmt_append (n : nat) (digit : Z) : op cell :=
  {| op_fp := {| reads := [CNotaFmt n]; writes := [CNotaFmt n] |};
     act := fun s => (cupd s (CNotaFmt n) (s (CNotaFmt n) * 10 + digit), 0) |}.
Definition fmt_result (n : nat) : op cell :=
  {| op_fp := {| reads := [CNotaFmt n]; writes := [CNotaFmt n] |};
     act := fun s => (cupd s (CNotaFmt n) 0, s (CNotaFmt n)) |}.
(* FormatValue of a collection whose items print as the given digits *)
Definition format_program (n : nat) (digits : list Z) : thread cell :=
  map (fmt_append n) digits ++ [fmt_result n].

(* collator behind the default ranker: RankValues starts with depth_ := 0; entering a nested
   array checks depth_ against the maximum (result -1 = the depth panic) and increments it;
   leaving decrements it *)
Definition coll_reset (t : nat) : op cell :=
  {| op_fp := {| reads := []; writes := [CSortColl t] |};
     act := fun s => (cupd s (CSortColl t) 0, 0) |}.
Definition coll_enter (t : nat) : op cell :=
  {| op_fp := {| reads := [CSortColl t]; writes := [CSortColl t] |};
     act := fun s => if Z.eqb (s (CSortColl t)) Params.collator_default_maximum
                     then (s, -1)
                     else (cupd s (CSortColl t) (s (CSortColl t) + 1), 0) |}.
Definition coll_leave (t : nat) : op cell :=
  {| op_fp := {| reads := [CSortColl t]; writes := [CSortColl t] |};
     act := fun s => (cupd s (CSortColl t) (s (CSortColl t) - 1), 0) |}.
(* one RankValues call on two values nested [depth] deep *)
Definition rank_program (t : nat) (depth : nat) : thread cell :=
  coll_reset t :: repeat (coll_enter t) depth ++ repeat (coll_leave t) depth.

Definition zero_store : cstore := fun _ => 0.
(* the results of threads 0 and 1 under a schedule *)
Definition results2 (a b : thread cell) (sched : list nat) : list Z * list Z :=
  let c := run cell (init cell zero_store [a; b]) sched in (res c 0%nat, res c 1%nat).
Definition alone (a : thread cell) : list Z := snd (run_thread cell zero_store a).

(* a well-behaved operation on one instance: add z to its cell, return the old value *)
Definition inst_add (i : nat) (z : Z) : op cell :=
  {| op_fp := {| reads := [CInst i]; writes := [CInst i] |};
     act := fun s => (cupd s (CInst i) (s (CInst i) + z), s (CInst i)) |}.
