(* CollateProofs.v — the proofs about the model of v4/agent/collator.go (Value.v) for the
   properties C07 and C08.  The development is split into:
     CollateOrd.v     three-valued comparisons, lexicographic combinations
     CollateSort.v    the merge sorter is canonical on pairwise-different elements
     CollateBase.v    one-step unfolding of rank / compare through a "view" of values
     CollateRank.v    termination, purity, total preorder of rank (C07 a-d, f)
     CollateRank2.v   sequences, prefixes, maps, insertion-order independence (C07 d, e)
     CollateCompare.v compare: termination, purity, depth panic, agreement with rank (C08)
     CollateDeep.v    the depth panic for every over-deep value; maps equal in any insertion order;
                      single-point changes of maps; refutations documenting the universe's boundary
     CollateTrans.v   "values of one type" composes along rank-equal values (transitivity of compare)
     CollateUse.v     the ranking discharges the total_preorder hypothesis of C02 / C09 theorems
   This file re-exports them. *)
From Verif Require Export CollateOrd CollateSort CollateBase CollateRank CollateRank2 CollateCompare CollateDeep CollateTrans CollateUse.
